import PasslibVerif.Model.PwdGen
import PasslibVerif.Lemmas.Rng
/- helper lemmas for Props.C06Pwd: `set(source)`, the option resolution of `SequenceGenerator.__init__`, batches -/
namespace Lemmas.PwdGen
open Py Model.Rng Model.PwdGen

/-! ### `set(source)` -/
theorem mem_toSet {α} [DecidableEq α] (a : α) (xs : List α) : a ∈ toSet xs ↔ a ∈ xs := by
  induction xs with
  | nil => simp [toSet]
  | cons x xs ih =>
    by_cases h : x ∈ toSet xs
    · simp only [toSet, h, if_true, List.mem_cons, ih]
      constructor
      · exact Or.inr
      · rintro (rfl | h')
        · exact ih.1 h
        · exact h'
    · simp only [toSet, h, if_false, List.mem_cons, ih]

theorem toSet_length_le {α} [DecidableEq α] (xs : List α) : (toSet xs).length ≤ xs.length := by
  induction xs with
  | nil => simp [toSet]
  | cons x xs ih =>
    by_cases h : x ∈ toSet xs
    · simp only [toSet, h, if_true, List.length_cons]; omega
    · simp only [toSet, h, if_false, List.length_cons]; omega

theorem toSet_length_eq_iff {α} [DecidableEq α] (xs : List α) : (toSet xs).length = xs.length ↔ xs.Nodup := by
  induction xs with
  | nil => simp [toSet]
  | cons x xs ih =>
    have hle := toSet_length_le xs
    by_cases h : x ∈ toSet xs
    · have hx : x ∈ xs := (mem_toSet x xs).1 h
      simp only [toSet, h, if_true, List.length_cons, List.nodup_cons]
      constructor
      · intro e; omega
      · intro ⟨hn, _⟩; exact absurd hx hn
    · have hx : x ∉ xs := fun hm => h ((mem_toSet x xs).2 hm)
      simp only [toSet, h, if_false, List.length_cons, List.nodup_cons, Nat.add_right_cancel_iff, ih]
      exact ⟨fun hn => ⟨hx, hn⟩, fun hn => hn.2⟩

theorem ensureUnique_ok_iff {α} [DecidableEq α] (xs : List α) : ensureUnique xs = .ok () ↔ xs.Nodup := by
  unfold ensureUnique
  rw [← toSet_length_eq_iff]
  split <;> simp_all

theorem ensureUnique_error {α} [DecidableEq α] (xs : List α) (h : ¬ xs.Nodup) : ensureUnique xs = .error .valueError := by
  unfold ensureUnique
  rw [← toSet_length_eq_iff] at h
  simp [h]

/-! ### `SequenceGenerator.__init__` -/
theorem minLength_ok {minLen : Nat → Nat → Nat} {N e L : Nat} (h : minLength minLen N e = .ok L) : 2 ≤ N ∧ L = minLen N e := by
  unfold minLength at h
  split at h
  · cases h
  · split at h
    · cases h
    · simp only [Except.ok.injEq] at h; exact ⟨by omega, h.symm⟩

theorem resolveEntropy_ok {a : EntropyArg} {e : Nat} (h : resolveEntropy a = .ok e) : 0 < e := by
  unfold resolveEntropy at h
  split at h
  · simp only [Except.ok.injEq] at h; subst h; decide
  · simp only [Except.ok.injEq] at h; subst h; rename_i a; cases a <;> decide
  · cases h
  · split at h
    · cases h
    · simp only [Except.ok.injEq] at h; omega

theorem seqInit_entropy_branch (minLen : Nat → Nat → Nat) (N : Nat) (o : SeqOpts) (hb : o.entropy ≠ .none ∨ o.length = none) :
    seqInit minLen N o =
      (match resolveEntropy o.entropy with
       | .error e => .error e
       | .ok e => match minLength minLen N e with
         | .error x => .error x
         | .ok m =>
           let length : Int := match o.length with | none => m | some l => if l < m then m else l
           if length < 1 then .error .valueError else if o.extraKwds then .error .typeError
           else .ok { length := length.toNat, requestedEntropy := some e }) := by
  unfold seqInit
  simp only [hb, if_true, bind, Except.bind, pure, Except.pure]
  cases resolveEntropy o.entropy with
  | error e => rfl
  | ok e =>
    dsimp only
    cases minLength minLen N e with
    | error x => rfl
    | ok m => rfl

theorem seqInit_length_branch (minLen : Nat → Nat → Nat) (N : Nat) (o : SeqOpts) (l : Int) (he : o.entropy = .none) (hl : o.length = some l) :
    seqInit minLen N o =
      if l < 1 then .error .valueError else if o.extraKwds then .error .typeError
      else .ok { length := l.toNat, requestedEntropy := none } := by
  unfold seqInit
  simp only [he, hl, bind, Except.bind, pure, Except.pure]
  simp


theorem seqTail_ok (L : Int) (x : Bool) (r : Option Nat) (st : SeqState)
    (h : (if L < 1 then (.error .valueError : PRes SeqState) else if x = true then .error .typeError
          else .ok { length := L.toNat, requestedEntropy := r }) = .ok st) :
    x = false ∧ 1 ≤ L ∧ st = { length := L.toNat, requestedEntropy := r } := by
  split at h
  · cases h
  · split at h
    · cases h
    · rename_i h1 h2
      simp only [Except.ok.injEq] at h
      exact ⟨by simpa using h2, by omega, h.symm⟩

theorem seqInit_cases {minLen : Nat → Nat → Nat} {N : Nat} {o : SeqOpts} {st : SeqState} (h : seqInit minLen N o = .ok st) :
    o.extraKwds = false ∧ 1 ≤ st.length ∧
    ((∃ e, st.requestedEntropy = some e ∧ (o.entropy ≠ .none ∨ o.length = none) ∧ resolveEntropy o.entropy = .ok e ∧ 0 < e ∧ 2 ≤ N ∧
        (st.length : Int) = (match o.length with | none => (minLen N e : Int) | some l => if l < (minLen N e : Int) then (minLen N e : Int) else l)) ∨
     (st.requestedEntropy = none ∧ o.entropy = .none ∧ o.length = some (st.length : Int))) := by
  by_cases hb : o.entropy ≠ .none ∨ o.length = none
  · rw [seqInit_entropy_branch minLen N o hb] at h
    cases h1 : resolveEntropy o.entropy with
    | error x => rw [h1] at h; cases h
    | ok e =>
      rw [h1] at h; dsimp only at h
      cases h2 : minLength minLen N e with
      | error x => rw [h2] at h; cases h
      | ok m =>
        rw [h2] at h; dsimp only at h
        have ⟨hN, hm⟩ := minLength_ok h2
        subst hm
        have key := seqTail_ok _ _ _ _ h
        obtain ⟨hx, hL, hst⟩ := key
        subst hst
        refine ⟨hx, ?_, Or.inl ⟨e, rfl, hb, rfl, resolveEntropy_ok h1, hN, ?_⟩⟩
        · dsimp only; omega
        · dsimp only; omega
  · have he : o.entropy = .none := by
      apply Classical.byContradiction; intro hc; exact hb (Or.inl hc)
    cases hl : o.length with
    | none => exact absurd (Or.inr hl) hb
    | some l =>
      rw [seqInit_length_branch minLen N o l he hl] at h
      obtain ⟨hx, hL, hst⟩ := seqTail_ok _ _ _ _ h
      subst hst
      refine ⟨hx, ?_, Or.inr ⟨rfl, he, ?_⟩⟩
      · dsimp only; omega
      · dsimp only; congr 1; omega

end Lemmas.PwdGen
