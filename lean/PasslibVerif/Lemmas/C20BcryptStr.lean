import PasslibVerif.Model.LibpassBcryptStr
import PasslibVerif.Lemmas.FormatsMiscLibpass
import PasslibVerif.Lemmas.C01PbkdfBase
import PasslibVerif.Lemmas.Hmac
import PasslibVerif.Lemmas.B64
/-
Lemmas for Props/C20BcryptStr.lean: what the libpass bcrypt hashers assemble around the `bcrypt` package, and the assumption
structure `BcryptLib` (what the theorems assume about the package).
-/
set_option linter.unusedSimpArgs false
namespace Lemmas.C20BcryptStr
open Py Model.Handler Model.Formats Model.Libpass Model.LibpassBcryptStr Lemmas.FormatsMisc Lemmas.Handler
open Model.Verify (Secret)
open Model.Code.Digest (b64encode)

/-- the bcrypt alphabet `./A-Za-z0-9` -/
def isBc64 (c : Nat) : Bool := isAlnum c || c = 46 || c = 47

/-- `n` characters of the bcrypt alphabet -/
def Bc64Text (n : Nat) (s : Str) : Prop := s.length = n ∧ s.all isBc64 = true

instance (n : Nat) (s : Str) : Decidable (Bc64Text n s) := by unfold Bc64Text; infer_instance

/-- a salt as `bcrypt.gensalt` writes it: `$<prefix>$<cost:02>$<22 characters>` -/
def saltOf (pfx : Str) (B : Nat) (s22 : Str) : Bytes := DOLLAR :: (pfx ++ DOLLAR :: (fmtZeroPad 2 (B : Int) ++ DOLLAR :: s22))

/-- a hash as `bcrypt.hashpw` writes it: the salt followed by the digest characters -/
def bcStr (pfx : Str) (B : Nat) (s22 d : Str) : Str := DOLLAR :: (pfx ++ DOLLAR :: (fmtZeroPad 2 (B : Int) ++ DOLLAR :: (s22 ++ d)))

/-- the PHC record of a bcrypt-sha256 string with version `v`, type `t`, cost `r` -/
def phcRec (v : Nat) (t : Str) (r : Nat) (s c : Str) : Parsed :=
  { ident := ofString "bcrypt-sha256", rounds := none, salt := some s, checksum := some c,
    extra := [("version_", fmtDec (v : Int)), ("type", t), ("rounds", fmtDec (r : Int))] }

/-- canonical final salt character (the 4 padding bits of the 22nd character are zero): the package refuses the others -/
def FINAL : Str := ofString ".Oeu"

/-- What the theorems assume about the `bcrypt` package (pyca/bcrypt 5.0.0, observed on this host and in its source):
    * `shape`: for a prefix libpass can write or read, a cost 4..31, a canonical 22-character salt and a password of at most 72 bytes,
      `hashpw` answers the salt's 29 characters followed by 31 characters of the bcrypt alphabet;
    * `check`: `checkpw(p, h)` is `hashpw(p, h) == h` (it sees the hash only through that byte string);
    * `salt29`: `hashpw` reads only the first 22 characters of the last field of its salt argument (a whole hash may be passed);
    * `refuse72`: passwords longer than 72 bytes are refused with ValueError. -/
structure BcryptLib (L : Lib) : Prop where
  shape : ∀ (p : Bytes) (pfx : Str) (B : Nat) (s22 : Str) (last : Nat), pfx ∈ lpBcryptPrefixes → 4 ≤ B → B ≤ 31 → Bc64Text 22 s22 →
    s22.getLast? = some last → last ∈ FINAL → p.length ≤ 72 →
    ∃ d, Bc64Text 31 d ∧ L.hashpw p (saltOf pfx B s22) = .ok (bcStr pfx B s22 d)
  check : ∀ p h, L.checkpw p h = (L.hashpw p h).map (· == h)
  salt29 : ∀ (p : Bytes) (pfx : Str) (B : Nat) (s22 d : Str), s22.length = 22 → d.length = 31 →
    L.hashpw p (bcStr pfx B s22 d) = L.hashpw p (saltOf pfx B s22)
  refuse72 : ∀ p s, p.length > 72 → L.hashpw p s = .error .valueError

/-! ### characters -/
theorem bc64_facts (c : Nat) (h : isBc64 c = true) : c < 128 ∧ isPhcValue c = true ∧ Model.Formats.isDot c = true ∧ c ≠ DOLLAR := by
  simp only [isBc64, isPhcValue, Model.Formats.isDot, isAlnum, isLower, isUpper, isADigit, DOLLAR, Bool.or_eq_true, Bool.and_eq_true, decide_eq_true_eq] at h ⊢
  omega

theorem bc64_phc (s : Str) (h : s.all isBc64 = true) : s.all isPhcValue = true :=
  all_of_forall fun c hc => (bc64_facts c (forall_of_all h c hc)).2.1

theorem bc64_dot (s : Str) (h : s.all isBc64 = true) : s.all Model.Formats.isDot = true :=
  all_of_forall fun c hc => (bc64_facts c (forall_of_all h c hc)).2.2.1

theorem prefix_facts (pfx : Str) (h : pfx ∈ lpBcryptPrefixes) : (∀ c ∈ pfx, c < 128) ∧ pfx.all isPhcValue = true ∧ pfx.isEmpty = false := by
  simp only [lpBcryptPrefixes, List.mem_cons, List.not_mem_nil, or_false] at h
  rcases h with h | h | h <;> subst h <;> decide

theorem zeroPad2_ascii (r : Nat) : ∀ c ∈ fmtZeroPad 2 (r : Int), c < 128 := by
  intro c hc
  rw [fmtZeroPad2] at hc
  rcases List.mem_append.1 hc with h | h
  · by_cases h10 : r < 10
    · simp only [h10, if_true, List.mem_singleton] at h; omega
    · simp [h10] at h
  · have := fmtDec_digits r c h; omega

theorem bcStr_ascii (pfx : Str) (B : Nat) (s22 d : Str) (hp : pfx ∈ lpBcryptPrefixes) (hs : s22.all isBc64 = true) (hd : d.all isBc64 = true) :
    (bcStr pfx B s22 d).all (· < 128) = true := by
  apply List.all_eq_true.2
  intro c hc
  simp only [bcStr, List.mem_cons, List.mem_append] at hc
  have h36 : DOLLAR < 128 := by decide
  rcases hc with h | h | h | h | h | h | h
  · simp [h, h36]
  · simpa using (prefix_facts pfx hp).1 c h
  · simp [h, h36]
  · simpa using zeroPad2_ascii B c h
  · simp [h, h36]
  · simpa using (bc64_facts c (forall_of_all hs c h)).1
  · simpa using (bc64_facts c (forall_of_all hd c h)).1

/-! ### the bcrypt inspector on the package's output -/
theorem bcParse_bcStr (pfx : Str) (B : Nat) (s22 d : Str) (hp : pfx ∈ lpBcryptPrefixes) (hs : Bc64Text 22 s22) (hd : Bc64Text 31 d) :
    lpBcryptParse (bcStr pfx B s22 d) =
      .ok (some { ident := pfx, rounds := some (B : Int), salt := some s22, checksum := some d }) := by
  have hwf : LpBcryptWF { ident := pfx, rounds := some (B : Int), salt := some s22, checksum := some d } :=
    ⟨hp, rfl, ⟨B, rfl⟩, ⟨s22, rfl, hs.1, bc64_dot s22 hs.2⟩, ⟨d, rfl, hd.1, bc64_dot d hd.2⟩⟩
  have := lp_bcrypt_roundtrip _ hwf
  simpa [lpBcryptRender, resBind, bcStr] using this

/-! ### decimal renderings are injective -/
theorem fmtDec_inj (a b : Nat) (h : fmtDec (a : Int) = fmtDec (b : Int)) : a = b := by
  have ha := pyInt_fmtDec a
  rw [h, pyInt_fmtDec b] at ha
  have : (b : Int) = (a : Int) := by injection ha
  omega

/-! ### the PHC inspector on a rendered record -/
structure RecWF (t s c : Str) : Prop where
  type : t.all isPhcValue = true ∧ t.isEmpty = false
  salt : PhcText 11 64 s
  hash : PhcText 16 86 c

theorem phcParse_rendered (v : Nat) (t : Str) (r : Nat) (s c hs : Str) (hwf : RecWF t s c)
    (hr : lpPhcRender bcryptSha256Phc (phcRec v t r s c) = .ok hs) :
    lpPhcParse bcryptSha256Phc hs = .ok (some (phcRec v t r s c)) := by
  have h : LpPhcBcryptSha256WF (phcRec v t r s c) :=
    ⟨rfl, rfl, ⟨v, r, t, hwf.type.1, hwf.type.2, rfl⟩, ⟨s, rfl, hwf.salt⟩, ⟨c, rfl, hwf.hash⟩⟩
  have := lp_phc_bcrypt_sha256_roundtrip _ h
  rw [hr] at this
  simpa [resBind] using this

theorem ownVersion_rec (v : Nat) (t : Str) (r : Nat) (s c : Str) : ownVersion (phcRec v t r s c) = decide (v = 2) := by
  have h2 : ofString "2" = fmtDec (2 : Int) := by decide
  simp only [ownVersion, phcField, phcRec, List.find?, decide_true, Option.map_some, h2]
  by_cases hv : v = 2
  · subst hv; simp
  · have : ¬ fmtDec (v : Int) = fmtDec (2 : Int) := fun e => hv (fmtDec_inj v 2 (by simpa using e))
    simp [hv, this]

theorem inspect_rendered (v : Nat) (t : Str) (r : Nat) (s c hs : Str) (hwf : RecWF t s c)
    (hr : lpPhcRender bcryptSha256Phc (phcRec v t r s c) = .ok hs) :
    bshaInspect hs = .ok (if v = 2 then some (phcRec v t r s c) else none) := by
  unfold bshaInspect
  rw [phcParse_rendered v t r s c hs hwf hr]
  simp only [ownVersion_rec]
  by_cases hv : v = 2 <;> simp [hv]

theorem field_type (v : Nat) (t : Str) (r : Nat) (s c : Str) : phcField (phcRec v t r s c) "type" = some t := by
  simp [phcField, phcRec, List.find?]

theorem field_rounds (v : Nat) (t : Str) (r : Nat) (s c : Str) : phcField (phcRec v t r s c) "rounds" = some (fmtDec (r : Int)) := by
  simp [phcField, phcRec, List.find?]

/-! ### the pre-hash -/
theorem sha256_ok : Lemmas.PbkdfLen.HashOK Spec.SHA256.sha256 32 := Lemmas.C01Pbkdf.sha256_ok

theorem prehash_length (b salt : Bytes) : (prehash b salt).length = 44 := by
  have hd : (Spec.Hmac.hmac Spec.SHA256.sha256 64 salt b).length = 32 := by
    unfold Spec.Hmac.hmac; exact (sha256_ok _).1
  unfold prehash b64encode Spec.Rfc4648.base64 Spec.Rfc4648.base64NoPad
  simp only [List.length_append, List.length_map, Lemmas.B64.groups64_length, hd, List.length_replicate, Spec.Rfc4648.padLen64]

/-- `salt.rsplit(b"$")[-1]` of a salt in the package's layout: its 22 characters -/
theorem lastField_saltOf (pfx : Str) (B : Nat) (s22 : Str) (hs : s22.all isBc64 = true) : lastField (saltOf pfx B s22) = s22 := by
  unfold lastField saltOf
  have e : (DOLLAR :: (pfx ++ DOLLAR :: (fmtZeroPad 2 (B : Int) ++ DOLLAR :: s22))).reverse =
      s22.reverse ++ DOLLAR :: (DOLLAR :: (pfx ++ DOLLAR :: fmtZeroPad 2 (B : Int))).reverse := by simp
  rw [e]
  have := takeWhile_stop (fun x => decide (x ≠ DOLLAR)) s22.reverse DOLLAR (DOLLAR :: (pfx ++ DOLLAR :: fmtZeroPad 2 (B : Int))).reverse
    (by intro x hx
        have := (bc64_facts x (forall_of_all hs x (List.mem_reverse.1 hx))).2.2.2
        simpa using this)
    (by simp)
  rw [this.1, List.reverse_reverse]

/-- the pre-hash key of a salt in the package's layout: its 22 characters -/
theorem saltKey_saltOf (pfx : Str) (B : Nat) (s22 : Str) (hs : Bc64Text 22 s22) : saltKey (saltOf pfx B s22) = s22 := by
  unfold saltKey
  rw [lastField_saltOf pfx B s22 hs.2, ← hs.1, List.take_length]

/-- … and of a WHOLE bcrypt string handed over as the salt: still the 22 salt characters, not the 53 that follow the last "$" -/
theorem saltKey_bcStr (pfx : Str) (B : Nat) (s22 d : Str) (hs : Bc64Text 22 s22) (hd : d.all isBc64 = true) :
    saltKey (bcStr pfx B s22 d) = s22 := by
  have h : bcStr pfx B s22 d = saltOf pfx B (s22 ++ d) := by simp [bcStr, saltOf, List.append_assoc]
  unfold saltKey
  rw [h, lastField_saltOf pfx B (s22 ++ d) (by simp [List.all_append, hs.2, hd]), ← hs.1, List.take_left]

end Lemmas.C20BcryptStr
