import PasslibVerif.Lemmas.C02CodeDesLoops
/-
Lemmas for Props.C02CodeDes, part 3: `bigcrypt._calc_checksum` (loop over the 8-byte segments, each salted with the first two
characters of the previous output) and `crypt16._calc_checksum`, and the thin `_calc_checksum_builtin` wrappers.
-/
namespace Lemmas.C02CodeDes
open Py Model.B64 Model.Code.Des Spec.Formats
open Model.Verify (Secret)

/-! ### hash64 text is ASCII -/

theorem itoa64_lt128 : ∀ c ∈ itoa64, c < 128 := by decide

theorem h64be64_mem (v c : Nat) (h : c ∈ h64be64 v) : c ∈ itoa64 := by
  simp only [h64be64, List.mem_map] at h
  obtain ⟨i, _, rfl⟩ := h
  have hlt : ((v * 4) >>> (6 * (10 - i))) % 64 < itoa64.length := by
    rw [itoa64_length]; exact Nat.mod_lt _ (by decide)
  rw [List.getD_eq_getElem?_getD, List.getElem?_eq_getElem hlt]
  exact List.getElem_mem _

theorem desCrypt_mem (pwd salt : List Nat) : ∀ c ∈ desCrypt pwd salt, c ∈ itoa64 := fun c h => h64be64_mem _ c h

theorem bigcryptSegs_mem : ∀ (segs : List (List Nat)) (salt : List Nat), ∀ c ∈ bigcryptSegs salt segs, c ∈ itoa64
  | [], _, c, h => by simp [bigcryptSegs] at h
  | seg :: rest, salt, c, h => by
    simp only [bigcryptSegs, List.mem_append] at h
    rcases h with h | h
    · exact desCrypt_mem _ _ c h
    · exact bigcryptSegs_mem rest _ c h

theorem decodeAscii_ok (b : List Nat) (h : ∀ c ∈ b, c ∈ itoa64) : decodeAscii b = .ok b := by
  unfold decodeAscii
  have : b.all (· < 128) = true := by
    simp only [List.all_eq_true, decide_eq_true_eq]
    exact fun c hc => itoa64_lt128 c (h c hc)
  simp only [this, if_true]

theorem encodeAscii_ok (s : List Nat) (h : ∀ c ∈ s, c ∈ itoa64) : encodeAscii s = .ok s := by
  unfold encodeAscii
  have : s.all (· < 128) = true := by
    simp only [List.all_eq_true, decide_eq_true_eq]
    exact fun c hc => itoa64_lt128 c (h c hc)
  simp only [this, if_true]

theorem encodeAscii_bad (s : List Nat) (c : Nat) (hc : c ∈ s) (h : 128 ≤ c) : encodeAscii s = .error .valueError := by
  unfold encodeAscii
  have : s.all (· < 128) = false := by
    rw [List.all_eq_false]
    exact ⟨c, hc, by simp; omega⟩
  simp [this]

/-! ### `bigcrypt._calc_checksum` -/

theorem sliceNeg_last (pre last : List Nat) (hl : last.length = 11) : sliceNeg (pre ++ last) 11 9 = last.take 2 := by
  unfold sliceNeg slice
  have e1 : (pre ++ last).length - 9 = pre.length + 2 := by rw [List.length_append]; omega
  have e2 : (pre ++ last).length - 11 = pre.length := by rw [List.length_append]; omega
  rw [e1, e2, List.take_length_add_append, List.drop_left]

theorem not_mem_slice (s : List Nat) (a b : Nat) (h : 0 ∉ s) : 0 ∉ slice s a b := by
  intro hm
  exact h (List.mem_of_mem_take (List.mem_of_mem_drop hm))

/-- the loop invariant: `chk` ends in the eleven characters of the last segment; from `idx` on the loop appends the traditional
    crypt of every remaining block, each salted with the first two characters of the previous one -/
theorem bigcryptLoop_eq (secret : List Nat) (hnul : 0 ∉ secret) : ∀ (fuel idx : Nat) (pre last : List Nat), last.length = 11 →
    (∀ c ∈ last, c ∈ itoa64) → secret.length - idx ≤ fuel →
    bigcryptLoop secret secret.length fuel idx (pre ++ last)
      = .ok (pre ++ last ++ bigcryptSegs (last.take 2) (chunksOf 8 (secret.drop idx)))
  | 0, idx, pre, last, _, _, hf => by
    have hn : ¬ idx < secret.length := by omega
    simp only [bigcryptLoop, hn, if_false]
    rw [List.drop_eq_nil_of_le (by omega), chunksOf_nil, bigcryptSegs, List.append_nil]
  | fuel + 1, idx, pre, last, hl, hc, hf => by
    by_cases hlt : idx < secret.length
    · simp only [bigcryptLoop, hlt, if_true]
      rw [sliceNeg_last pre last hl]
      rw [rawDesCrypt_bytes_eq_spec _ _ (not_mem_slice secret _ _ hnul) (by rw [List.length_take]; omega)
        (fun c h => hc c (List.mem_of_mem_take h))]
      simp only []
      rw [bigcryptLoop_eq secret hnul fuel (idx + 8) (pre ++ last) _ (Lemmas.C02Formats.desCrypt_length _ _) (desCrypt_mem _ _) (by omega)]
      rw [chunksOf_step 8 (by decide) _ (drop_ne_nil secret idx hlt), bigcryptSegs, List.drop_drop, slice_block]
      simp only [List.append_assoc]
    · simp only [bigcryptLoop, hlt, if_false]
      rw [List.drop_eq_nil_of_le (by omega), chunksOf_nil, bigcryptSegs, List.append_nil]

theorem bigcrypt_unfold (secret salt : List Nat) :
    bigcrypt secret salt = desCrypt secret salt ++ bigcryptSegs ((desCrypt secret salt).take 2) (chunksOf 8 (secret.drop 8)) := by
  unfold bigcrypt
  cases hs : secret with
  | nil =>
    simp only [List.isEmpty_nil, if_true, bigcryptSegs, List.drop_nil, chunksOf_nil, List.append_nil,
      Lemmas.C02Formats.desCrypt_salt_take2]
  | cons b rest =>
    simp only [List.isEmpty_cons, Bool.false_eq_true, if_false]
    rw [chunksOf_step 8 (by decide) (b :: rest) (by simp), bigcryptSegs]
    simp only [Lemmas.C02Formats.desCrypt_take8, Lemmas.C02Formats.desCrypt_salt_take2]

theorem bigcrypt_mem (secret salt : List Nat) : ∀ c ∈ bigcrypt secret salt, c ∈ itoa64 := by
  unfold bigcrypt
  exact bigcryptSegs_mem _ _

theorem bigcryptCalc_bytes_eq_spec (secret salt : List Nat) (hnul : 0 ∉ secret) (hl : salt.length = 2) (hc : ∀ c ∈ salt, c ∈ itoa64) :
    bigcryptCalc (.bytes secret) salt = .ok (bigcrypt secret salt) := by
  have hloop := bigcryptLoop_eq secret hnul secret.length 8 [] (desCrypt secret salt) (Lemmas.C02Formats.desCrypt_length _ _)
    (desCrypt_mem _ _) (by omega)
  simp only [List.nil_append] at hloop
  simp only [bigcryptCalc, encodeSecret, Secret.toBytes, encodeAscii_ok salt hc, rawDesCrypt_bytes_eq_spec secret salt hnul hl hc, hloop]
  rw [← bigcrypt_unfold, decodeAscii_ok _ (bigcrypt_mem secret salt)]

theorem bigcryptCalc_text (cps b salt : List Nat) (h : Model.Verify.utf8 cps = some b) :
    bigcryptCalc (.text cps) salt = bigcryptCalc (.bytes b) salt := by
  simp only [bigcryptCalc, encodeSecret, Secret.toBytes, h]

theorem bigcryptCalc_nul (secret salt : List Nat) (hnul : 0 ∈ secret) (hl : salt.length = 2) (hc : ∀ c ∈ salt, c ∈ itoa64) :
    bigcryptCalc (.bytes secret) salt = .error .nullError := by
  simp only [bigcryptCalc, encodeSecret, Secret.toBytes, encodeAscii_ok salt hc, rawDesCrypt_nul secret salt hnul hl hc]

/-! ### `crypt16._calc_checksum` -/

theorem slice_8_16 (s : List Nat) : slice s 8 16 = (s.drop 8).take 8 := slice_block s 8

theorem crypt16_mem (secret salt : List Nat) : ∀ c ∈ crypt16 secret salt, c ∈ itoa64 := by
  intro c h
  simp only [crypt16, desCryptBlock, List.mem_append] at h
  rcases h with h | h <;> exact h64be64_mem _ c h

theorem crypt16Calc_core (secret salt : List Nat) (hl : salt.length = 2) (hc : ∀ c ∈ salt, c ∈ itoa64) (chk : Bool)
    (ht : chk = false ∨ secret.length ≤ 16) :
    crypt16Calc (.bytes secret) salt chk = .ok (crypt16 secret salt) := by
  match salt, hl with
  | [a, b], _ =>
    have ha : a ∈ itoa64 := hc a (by simp)
    have hb : b ∈ itoa64 := hc b (by simp)
    have hg : ¬ (chk = true ∧ secret.length > 16) := by
      rcases ht with h | h
      · simp [h]
      · omega
    simp only [crypt16Calc, encodeSecret, Secret.toBytes, hg, if_false, encodeAscii_ok _ hc, decodeInt12_h64 a b ha hb]
    rw [cryptSecretToKey_eq, cryptSecretToKey_eq,
      desInt_eq_spec _ 0 _ 20 (desKeyOfChars_lt _) (by decide) (h64leNat2_lt a b ha hb) (by decide)]
    simp only []
    rw [desInt_eq_spec _ 0 _ 5 (desKeyOfChars_lt _) (by decide) (h64leNat2_lt a b ha hb) (by decide)]
    simp only [encodeInt64_h64big _ (desCryptCore_lt _ _ _ _)]
    have e : h64be64 (Spec.Des.desCryptCore (desKeyOfChars secret) 0 (h64leNat [a, b]) 20) ++
        h64be64 (Spec.Des.desCryptCore (desKeyOfChars (slice secret 8 16)) 0 (h64leNat [a, b]) 5) = crypt16 secret [a, b] := by
      simp only [crypt16, desCryptBlock, List.take_succ_cons, List.take_zero, Lemmas.C02Formats.desKeyOfChars_take8, slice_8_16]
    rw [e, decodeAscii_ok _ (crypt16_mem _ _)]

theorem crypt16Calc_truncate (secret salt : List Nat) (h : 16 < secret.length) :
    crypt16Calc (.bytes secret) salt true = .error .truncateError := by
  have : secret.length > 16 := h
  simp only [crypt16Calc, encodeSecret, Secret.toBytes, this, and_self, if_true]

theorem crypt16Calc_text (cps b salt : List Nat) (chk : Bool) (h : Model.Verify.utf8 cps = some b) :
    crypt16Calc (.text cps) salt chk = crypt16Calc (.bytes b) salt chk := by
  simp only [crypt16Calc, encodeSecret, Secret.toBytes, h]

/-! ### the `_calc_checksum_builtin` wrappers -/

theorem desCryptCalcBuiltin_eq_spec (secret salt : List Nat) (hnul : 0 ∉ secret) (hl : salt.length = 2) (hc : ∀ c ∈ salt, c ∈ itoa64) :
    desCryptCalcBuiltin (.bytes secret) salt = .ok (desCrypt secret salt) := by
  simp only [desCryptCalcBuiltin, encodeAscii_ok salt hc, rawDesCrypt_bytes_eq_spec secret salt hnul hl hc,
    decodeAscii_ok _ (desCrypt_mem _ _)]

theorem bsdiCrypt_mem (secret salt : List Nat) (rounds : Nat) : ∀ c ∈ bsdiCrypt secret salt rounds, c ∈ itoa64 :=
  fun c h => h64be64_mem _ c h

theorem bsdiCryptCalcBuiltin_eq_spec (secret salt : List Nat) (rounds : Nat) (hnul : 0 ∉ secret) (hl : salt.length = 4)
    (hc : ∀ c ∈ salt, c ∈ itoa64) (hr : 1 ≤ rounds) :
    bsdiCryptCalcBuiltin (.bytes secret) rounds salt = .ok (bsdiCrypt secret salt rounds) := by
  simp only [bsdiCryptCalcBuiltin, encodeAscii_ok salt hc, rawBsdiCrypt_bytes_eq_spec secret salt rounds hnul hl hc hr,
    decodeAscii_ok _ (bsdiCrypt_mem _ _ _)]

end Lemmas.C02CodeDes
