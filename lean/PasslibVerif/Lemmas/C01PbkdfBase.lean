import PasslibVerif.Props.C01
import PasslibVerif.Model.VerifyFmt.Pbkdf
import PasslibVerif.Lemmas.PbkdfLen
import PasslibVerif.Lemmas.DigestLen
import PasslibVerif.Lemmas.FormatsPbkdf
/-
C01 for the PBKDF family, part 1: facts shared by all the formats.

  * SHA-1 returns 20 octets (the SHA-256 / SHA-512 / MD5 counterparts are in Lemmas/DigestLen.lean), so every `HashAlg` the family
    uses satisfies `HashOK`, and `Spec.Formats.pbkdf2` returns exactly `keylen` octets (Lemmas/PbkdfLen.lean);
  * what `hashSecret` returns when it returns (`hashSecret_form`) and that it does return for an admissible secret
    (`hashSecret_succeeds`) — for ANY hasher;
  * the bridge from the error-precise renderers (`renderX : Parsed → Res Str`) to `Hasher.render`.
-/
namespace Lemmas.C01Pbkdf
open Py Model.Handler Model.Formats Model.Verify Model.VerifyFmt.Pbkdf Props.C01 Lemmas.PbkdfLen Lemmas.DigestLen

/-! ### SHA-1 output shape -/
theorem sha1_compress_size (H M : Array UInt32) : (Spec.SHA1.compress H M).size = 5 := by
  simp [Spec.SHA1.compress]

theorem sha1_length (msg : List Nat) : (Spec.SHA1.sha1 msg).length = 20 := by
  unfold Spec.SHA1.sha1
  have h := foldl_size Spec.SHA1.compress 5 sha1_compress_size
    (Spec.SHA1.blocks (Spec.SHA1.toWords (Spec.SHA1.pad msg) #[])) Spec.SHA1.H0 (by decide)
  generalize List.foldl Spec.SHA1.compress _ _ = arr at h
  obtain ⟨l⟩ := arr
  simp only [List.size_toArray] at h
  simp only [Spec.SHA1.fromWords]
  match l, h with
  | [a, b, c, d, e], _ => simp

theorem sha1_bytes (msg : List Nat) : ∀ x ∈ Spec.SHA1.sha1 msg, x < 256 := by
  intro x hx
  unfold Spec.SHA1.sha1 Spec.SHA1.fromWords at hx
  simp only [List.mem_flatMap] at hx
  obtain ⟨w, _, hw⟩ := hx
  simp only [List.mem_cons, List.not_mem_nil, or_false] at hw
  rcases hw with rfl | rfl | rfl | rfl <;> exact UInt8.toNat_lt _

theorem sha1_ok : HashOK Spec.SHA1.sha1 20 := fun x => ⟨sha1_length x, sha1_bytes x⟩
theorem sha256_ok : HashOK Spec.SHA256.sha256 32 := fun x => ⟨sha256_length x, sha256_bytes x⟩
theorem sha512_ok : HashOK Spec.SHA512.sha512 64 := fun x => ⟨sha512_length x, sha512_bytes x⟩
theorem md5_ok : HashOK Spec.MD5.md5 16 := fun x => ⟨md5_length x, md5_bytes x⟩

/-- a PRF hash of the family: fixed non-zero output length, octets -/
def AlgOK (a : Spec.Formats.HashAlg) : Prop := HashOK a.H a.hLen ∧ 0 < a.hLen

theorem algSha1_ok : AlgOK Spec.Formats.algSha1 := ⟨sha1_ok, by decide⟩
theorem algSha256_ok : AlgOK Spec.Formats.algSha256 := ⟨sha256_ok, by decide⟩
theorem algSha512_ok : AlgOK Spec.Formats.algSha512 := ⟨sha512_ok, by decide⟩

/-- `Spec.Formats.pbkdf2` returns exactly `keylen` octets — every password, salt, iteration count -/
theorem pbkdf2_shape (a : Spec.Formats.HashAlg) (ha : AlgOK a) (pwd salt : Bytes) (rounds keylen : Nat) :
    (Spec.Formats.pbkdf2 a pwd salt rounds keylen).length = keylen ∧ Bytes.WF (Spec.Formats.pbkdf2 a pwd salt rounds keylen) :=
  pbkdf2_props a.H a.blockSize a.hLen ha.1 ha.2 pwd salt rounds keylen

/-! ### `hashSecret` for any hasher -/

/-- what `hash` returns, when it returns: the rendering of the settings with a checksum the algorithm produced for them -/
theorem hashSecret_form (h : Hasher) (s : Secret) (p : Parsed) (hs : Str) (hh : hashSecret h s p = .ok hs) :
    ∃ b c, h.digest b p = .ok c ∧ hs = h.render { p with checksum := some c } := by
  unfold hashSecret at hh
  cases hv : validateSecret s with
  | error e => simp [hv] at hh
  | ok u =>
    simp only [hv] at hh
    cases hc : checksumOf h true s p with
    | error e => simp [hc] at hh
    | ok c =>
      simp only [hc, Except.ok.injEq] at hh
      obtain ⟨b, hb⟩ := checksumOf_is_digest h true s p c hc
      exact ⟨b, c, hb, hh.symm⟩

/-- `hash` returns for every secret within the size limit whose bytes exist (text: encodable), that is NUL-free where the class
    refuses NUL, for a class without truncation policy whose algorithm returns — and this is the string -/
theorem hashSecret_succeeds (h : Hasher) (s : Secret) (b : Bytes) (p : Parsed) (c : Str) (hv : s.len ≤ MAX_PASSWORD_SIZE)
    (hb : s.toBytes = .ok b) (ht : h.truncateSize = none) (hn : h.rejectsNul = false ∨ 0 ∉ b) (hd : h.digest b p = .ok c) :
    hashSecret h s p = .ok (h.render { p with checksum := some c }) := by
  have hnv : ¬ s.len > MAX_PASSWORD_SIZE := by omega
  have hnul : ¬ (h.rejectsNul = true ∧ 0 ∈ b) := by
    rintro ⟨h1, h2⟩
    rcases hn with hn | hn
    · rw [hn] at h1; cases h1
    · exact hn h2
  unfold hashSecret validateSecret checksumOf checkTruncate checkNul
  simp only [hnv, if_false, hb, if_true, ht, hnul, hd]

/-- NUL in the secret of a NUL-refusing class: `hash` raises NullPasswordError -/
theorem hashSecret_nul (h : Hasher) (s : Secret) (b : Bytes) (p : Parsed) (hv : s.len ≤ MAX_PASSWORD_SIZE)
    (hb : s.toBytes = .ok b) (ht : h.truncateSize = none) (hr : h.rejectsNul = true) (h0 : 0 ∈ b) :
    hashSecret h s p = .error .nullError := by
  have hnv : ¬ s.len > MAX_PASSWORD_SIZE := by omega
  unfold hashSecret validateSecret checksumOf checkTruncate checkNul
  simp only [hnv, if_false, hb, if_true, ht, hr, h0, and_self]

/-- for a class without truncation policy, `_calc_checksum` of an admissible secret is the algorithm on its bytes — from `hash` and
    from `verify` alike -/
theorem checksumOf_digest (h : Hasher) (f : Bool) (s : Secret) (b : Bytes) (p : Parsed) (hb : s.toBytes = .ok b)
    (ht : h.truncateSize = none) (hn : h.rejectsNul = false ∨ 0 ∉ b) : checksumOf h f s p = h.digest b p := by
  have hnul : ¬ (h.rejectsNul = true ∧ 0 ∈ b) := by
    rintro ⟨h1, h2⟩
    rcases hn with hn | hn
    · rw [hn] at h1; cases h1
    · exact hn h2
  unfold checksumOf checkTruncate checkNul
  cases f <;> simp only [hb, ht, hnul, if_false, if_true, Bool.false_eq_true]

/-- `verify` of ANOTHER admissible secret against a string `hash` produced: exactly "the two checksums are equal" -/
theorem verify_other (h : Hasher) (s s' : Secret) (b b' : Bytes) (p : Parsed) (hs c c' : Str)
    (hrt : RoundTrips h p) (hi : IgnoresChecksum h) (hh : hashSecret h s p = .ok hs)
    (hb : s.toBytes = .ok b) (hv' : s'.len ≤ MAX_PASSWORD_SIZE) (hb' : s'.toBytes = .ok b') (ht : h.truncateSize = none)
    (hn : h.rejectsNul = false ∨ (0 ∉ b ∧ 0 ∉ b')) (hd : h.digest b p = .ok c) (hd' : h.digest b' p = .ok c') :
    verify h s' hs = .ok (c' == c) := by
  have hn1 : h.rejectsNul = false ∨ 0 ∉ b := hn.imp id And.left
  have hn2 : h.rejectsNul = false ∨ 0 ∉ b' := hn.imp id And.right
  have hvs : validateSecret s' = .ok () := by
    unfold validateSecret
    have : ¬ s'.len > MAX_PASSWORD_SIZE := by omega
    simp only [this, if_false]
  obtain ⟨c2, h1, h2⟩ := verify_of_hash h s s' p hs c' hrt hi hh hvs
    (by rw [checksumOf_digest h false s' b' p hb' ht hn2]; exact hd')
  rw [checksumOf_digest h true s b p hb ht hn1, hd] at h1
  cases h1
  exact h2

/-! ### from `renderX : Parsed → Res Str` to `Hasher.render` -/
theorem parse_renderOf (r : Parsed → Res Str) (parse : Str → Res Parsed) (p : Parsed) (h : (r p).bind parse = .ok p) :
    parse (renderOf r p) = .ok p := by
  cases hr : r p with
  | error e => rw [hr] at h; cases h
  | ok s =>
    rw [hr] at h
    simp only [Except.bind] at h
    simp only [renderOf, hr, Except.toOption, Option.getD_some, h]

theorem renderOf_ok (r : Parsed → Res Str) (p : Parsed) (s : Str) (h : r p = .ok s) : renderOf r p = s := by
  simp only [renderOf, h, Except.toOption, Option.getD_some]

/-! ### what `_calc_checksum` reads from the settings object -/
theorem saltOf_mc3 (ident salt : Str) (rounds : Nat) : saltOf (mc3Settings ident salt rounds) = salt := rfl
theorem roundsOf_mc3 (ident salt : Str) (rounds : Nat) : roundsOf (mc3Settings ident salt rounds) = rounds := by
  simp only [roundsOf, mc3Settings, Option.getD_some, Int.toNat_natCast]

/-! ### alphabets -/
theorem allIn_of_mem (cs : List Nat) (s : Str) (h : ∀ c ∈ s, c ∈ cs) : allIn cs s = true := by
  unfold allIn
  rw [List.all_eq_true]
  intro c hc
  simpa using h c hc

theorem ne_nil_of_length {α} (l : List α) (n : Nat) (h : l.length = n) (hn : n ≠ 0) : l ≠ [] := by
  intro e; subst e; exact hn h.symm

end Lemmas.C01Pbkdf
