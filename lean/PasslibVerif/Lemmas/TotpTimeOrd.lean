import PasslibVerif.Lemmas.TotpTimeCal
/-
`_ord2ymd ∘ _ymd2ord = id` and `_ymd2ord ∘ _ord2ymd = id`, for every year (no range restriction is needed by the proof).
-/
namespace Lemmas.TotpTimeOrd
open Model.TotpTime Lemmas.TotpTimeCal

/-- `_ord2ymd` in terms of its eight quotients and remainders -/
theorem ordToYmd_eq (n : Int) :
    ordToYmd n =
      (let n0 := n - 1
       let n400 := n0 / 146097
       let r1 := n0 % 146097
       let n100 := r1 / 36524
       let r2 := r1 % 36524
       let n4 := r2 / 1461
       let r3 := r2 % 1461
       let n1 := r3 / 365
       let r4 := r3 % 365
       if n1 = 4 ∨ n100 = 4 then (n400 * 400 + 1 + (n100 * 100 + n4 * 4 + n1) - 1, 12, 31)
       else
         let leapyear := decide (n1 = 3) && (decide (n4 ≠ 24) || decide (n100 = 3))
         (n400 * 400 + 1 + (n100 * 100 + n4 * 4 + n1), (monthDayOf leapyear r4).1, (monthDayOf leapyear r4).2)) := rfl

theorem leap_flag (y b c e : Int)
    (h : (y % 4 = 0 ∧ (y % 100 ≠ 0 ∨ y % 400 = 0)) ↔ (e = 3 ∧ (c ≠ 24 ∨ b = 3))) :
    (decide (e = 3) && (decide (c ≠ 24) || decide (b = 3))) = isLeap y := by
  rw [Bool.eq_iff_iff, isLeap_iff, h]
  simp

theorem ordToYmd_ymdToOrd (y m d : Int) (hm : 1 ≤ m) (hm' : m ≤ 12) (hd : 1 ≤ d) (hd' : d ≤ daysInMonth y m) :
    ordToYmd (ymdToOrd y m d) = (y, m, d) := by
  obtain ⟨hb, hb', hc, hc', he, he', hy, hdby, hleap⟩ := daysBeforeYear_digits y
  generalize (y - 1) / 400 = a at hy hdby
  generalize (y - 1) % 400 / 100 = b at hb hb' hy hdby hleap
  generalize (y - 1) % 100 / 4 = c at hc hc' hy hdby hleap
  generalize (y - 1) % 4 = e at he he' hy hdby hleap
  have B := doy_bounds (isLeap y) m d hm hm' hd hd'
  have hflag := leap_flag y b c e hleap
  have hn : ymdToOrd y m d - 1 = 146097 * a + 36524 * b + 1461 * c + 365 * e + (daysBeforeMonthL (isLeap y) m + d - 1) := by
    unfold ymdToOrd daysBeforeMonth; omega
  generalize hdoy : daysBeforeMonthL (isLeap y) m + d - 1 = doy at B hn
  have hd365 : doy < 365 ∨ (doy = 365 ∧ e = 3 ∧ (c ≠ 24 ∨ b = 3)) := by
    rcases B.2 with h | ⟨h1, h2, _⟩
    · exact Or.inl h
    · exact Or.inr ⟨h1, hleap.1 ((isLeap_iff y).1 h2)⟩
  have C := cycle_split a b c e doy hb hb' hc hc' he he' B.1 hd365
  rw [ordToYmd_eq, hn]
  simp only at C ⊢
  obtain ⟨C1, C2, C3⟩ := C
  rcases B.2 with hlt | ⟨h365, hl, hm12, hd31⟩
  · obtain ⟨c2, c3, c4, c5⟩ := C2 hlt
    rw [C1, c2, c3, c4, c5]
    have hno : ¬ (e = 4 ∨ b = 4) := by omega
    rw [if_neg hno, hflag]
    have := monthDayOf_dbm (isLeap y) m d hm hm' hd hd'
    rw [hdoy] at this
    rw [this]
    simp only [Prod.mk.injEq, and_true]
    omega
  · obtain ⟨c2, c3⟩ := C3 h365
    rw [if_pos c2, C1]
    simp only [Prod.mk.injEq]
    omega

/-- `_days_before_year` and `_is_leap` of a year given by its mixed-radix digits -/
theorem daysBeforeYear_of_digits (y a b c e : Int) (hb : 0 ≤ b) (hb' : b ≤ 3) (hc : 0 ≤ c) (hc' : c ≤ 24) (he : 0 ≤ e) (he' : e ≤ 3)
    (hy : y = 400 * a + 100 * b + 4 * c + e + 1) :
    daysBeforeYear y = 146097 * a + 36524 * b + 1461 * c + 365 * e ∧
    ((y % 4 = 0 ∧ (y % 100 ≠ 0 ∨ y % 400 = 0)) ↔ (e = 3 ∧ (c ≠ 24 ∨ b = 3))) := by
  obtain ⟨_, _, _, _, _, _, _, hdby, hleap⟩ := daysBeforeYear_digits y
  have e1 : (y - 1) / 400 = a := by omega
  have e2 : (y - 1) % 400 / 100 = b := by omega
  have e3 : (y - 1) % 100 / 4 = c := by omega
  have e4 : (y - 1) % 4 = e := by omega
  rw [e1, e2, e3, e4] at hdby
  rw [e2, e3, e4] at hleap
  exact ⟨hdby, hleap⟩

/-- every integer is the ordinal of the date `_ord2ymd` gives for it, and that date has a valid month and day -/
theorem ymdToOrd_ordToYmd (n : Int) :
    1 ≤ (ordToYmd n).2.1 ∧ (ordToYmd n).2.1 ≤ 12 ∧ 1 ≤ (ordToYmd n).2.2 ∧
    (ordToYmd n).2.2 ≤ daysInMonth (ordToYmd n).1 (ordToYmd n).2.1 ∧
    ymdToOrd (ordToYmd n).1 (ordToYmd n).2.1 (ordToYmd n).2.2 = n := by
  rw [ordToYmd_eq]
  simp only []
  generalize hA : (n - 1) / 146097 = A
  generalize hr1 : (n - 1) % 146097 = r1
  generalize hn100 : r1 / 36524 = n100
  generalize hr2 : r1 % 36524 = r2
  generalize hn4 : r2 / 1461 = n4
  generalize hr3 : r2 % 1461 = r3
  generalize hn1 : r3 / 365 = n1
  generalize hr4 : r3 % 365 = r4
  have hn : n - 1 = 146097 * A + 36524 * n100 + 1461 * n4 + 365 * n1 + r4 := by omega
  have b1 : 0 ≤ n100 ∧ n100 ≤ 4 := by omega
  have b2 : 0 ≤ n4 ∧ n4 ≤ 24 := by omega
  have b3 : 0 ≤ n1 ∧ n1 ≤ 4 := by omega
  have b4 : 0 ≤ r4 ∧ r4 < 365 := by omega
  split
  · rename_i h
    -- 31 December of a leap year
    generalize hy : A * 400 + 1 + (n100 * 100 + n4 * 4 + n1) - 1 = y
    have hdig : ∃ b c, 0 ≤ b ∧ b ≤ 3 ∧ 0 ≤ c ∧ c ≤ 24 ∧ (c ≠ 24 ∨ b = 3) ∧ y = 400 * A + 100 * b + 4 * c + 3 + 1 ∧
        36524 * n100 + 1461 * n4 + 365 * n1 + r4 = 36524 * b + 1461 * c + 365 * 3 + 365 := by
      rcases h with h | h
      · exact ⟨n100, n4, by omega, by omega, by omega, by omega, by omega, by omega, by omega⟩
      · exact ⟨3, 24, by omega, by omega, by omega, by omega, by omega, by omega, by omega⟩
    obtain ⟨b, c, d1, d2, d3, d4, d5, d6, d7⟩ := hdig
    obtain ⟨hdby, hleap⟩ := daysBeforeYear_of_digits y A b c 3 d1 d2 d3 d4 (by omega) (by omega) d6
    have hl : isLeap y = true := by rw [isLeap_iff, hleap]; exact ⟨rfl, d5⟩
    simp only [daysInMonth, ymdToOrd, daysBeforeMonth, hl, daysInMonthL, daysBeforeMonthL, DAYS_IN_MONTH, DAYS_BEFORE_MONTH]
    refine ⟨by decide, by decide, by decide, by decide, ?_⟩
    simp only [hdby]
    show 146097 * A + 36524 * b + 1461 * c + 365 * 3 + (334 + 1) + 31 = n
    omega
  · rename_i h
    generalize hy : A * 400 + 1 + (n100 * 100 + n4 * 4 + n1) = y
    obtain ⟨hdby, hleap⟩ := daysBeforeYear_of_digits y A n100 n4 n1 b1.1 (by omega) b2.1 b2.2 b3.1 (by omega) (by omega)
    rw [leap_flag y n100 n4 n1 hleap]
    obtain ⟨m1, m2, m3, m4, m5⟩ := dbm_monthDayOf (isLeap y) r4 b4.1 (Or.inl b4.2)
    refine ⟨m1, m2, m3, m4, ?_⟩
    simp only [ymdToOrd, daysBeforeMonth, hdby]
    omega

end Lemmas.TotpTimeOrd
