import PasslibVerif.Model.Threads
/-
Soundness of the thread-modular invariant (C19), once and for every protocol, any number of threads, any schedule:

  if a set of views `R` contains the initial view and is closed under a thread's own step and under the effect of every
  other thread's step (`closed p R = true`, a finite check), then in every world reachable by any schedule every thread's
  view is in `R`.

`Inv p R w := ∀ t, view w t ∈ R` is an inductive invariant of `step`: `inv_init`, `inv_step`, lifted over schedules in
`inv_run`.  Everything a protocol theorem says is then read off `R` by another finite check.
-/
namespace Lemmas.Threads
open Model.Threads

/-! ### `lstep` respects a lock held by somebody else -/

theorem exec_lk_other_iff (i : Instr) (v : View) : (exec i v).lk = .other ↔ v.lk = .other := by
  cases i <;> simp only [exec, finish]
  case acquire => cases h : v.lk <;> simp [h]
  case release =>
    cases h : v.lk <;> simp [h]
    split <;> simp
  case importOnce => split <;> simp

theorem lstep_lk_other_iff (p : Prog) (v : View) : (lstep p v).lk = .other ↔ v.lk = .other := by
  unfold lstep
  cases v.loc.out with
  | some o => simp
  | none =>
    simp only
    cases p.code[v.loc.pc]? with
    | none => simp [finish]
    | some i => exact exec_lk_other_iff i v

/-- a thread never changes a lock that somebody else holds -/
theorem lstep_other (p : Prog) (v : View) (h : v.lk = .other) : (lstep p v).lk = .other :=
  (lstep_lk_other_iff p v).2 h

/-! ### views after a step -/

theorem view_sh (w : World) (t : Tid) : (view w t).sh = w.sh := rfl
theorem view_loc (w : World) (t : Tid) : (view w t).loc = w.loc t := rfl
theorem view_lk (w : World) (t : Tid) : (view w t).lk = lockView w.lock t := rfl

theorem view_step_self (p : Prog) (w : World) (t : Tid) : view (step p w t) t = lstep p (view w t) := by
  have hiff := lstep_lk_other_iff p (view w t)
  simp only [step]
  generalize lstep p (view w t) = v' at hiff ⊢
  rcases v' with ⟨sh', lk', loc'⟩
  cases lk' with
  | free => simp [view, lockView]
  | mine => simp [view, lockView]
  | other =>
    have : lockView w.lock t = .other := by simpa [view] using hiff
    simp [view, this]

theorem view_step_other (p : Prog) (w : World) (t u : Tid) (h : u ≠ t) :
    view (step p w t) u = envApply (view w t) (lstep p (view w t)) (view w u) := by
  simp only [step]
  generalize lstep p (view w t) = v'
  rcases v' with ⟨sh', lk', loc'⟩
  cases lk' with
  | free => simp [view, envApply, lockView, envLk, h]
  | mine =>
    have : ¬ t = u := fun e => h e.symm
    simp [view, envApply, lockView, envLk, this, h]
  | other => simp [view, envApply, envLk, h]

theorem compat_views (w : World) (t u : Tid) (h : u ≠ t) : compat (view w t).lk (view w u).lk = true := by
  simp only [view, lockView]
  cases w.lock with
  | none => rfl
  | some o =>
    by_cases h1 : o = t
    · subst h1
      have h2 : ¬ o = u := fun e => h e.symm
      simp [h2, compat]
    · by_cases h2 : o = u
      · subst h2; simp [h1, compat]
      · simp [h1, h2, compat]

/-- a step that changes neither the shared state nor the lock is invisible to the others -/
theorem envApply_unchanged (vt vt' vu : View) (hc : changes vt vt' = false) (hs : vu.sh = vt.sh)
    (hk : compat vt.lk vu.lk = true) : envApply vt vt' vu = vu := by
  simp only [changes, Bool.not_eq_false', Bool.and_eq_true, beq_iff_eq] at hc
  obtain ⟨h1, h2⟩ := hc
  rcases vu with ⟨shu, lku, locu⟩
  simp only [envApply, h1, h2] at *
  subst hs
  cases hl : vt.lk <;> cases lku <;> simp [hl, compat, envLk] at hk ⊢

/-! ### the invariant -/

def Inv (R : List View) (w : World) : Prop := ∀ t, view w t ∈ R

theorem closed_init {p : Prog} {R : List View} (h : closed p R = true) : view0 p ∈ R := by
  simp only [closed, Bool.and_eq_true, List.elem_eq_mem, decide_eq_true_eq] at h
  exact h.1

theorem closed_self {p : Prog} {R : List View} (h : closed p R = true) {v : View} (hv : v ∈ R) : lstep p v ∈ R := by
  simp only [closed, Bool.and_eq_true, List.all_eq_true, List.elem_eq_mem, decide_eq_true_eq] at h
  exact (h.2 v hv).1

theorem closed_env {p : Prog} {R : List View} (h : closed p R = true) {vt vu : View} (ht : vt ∈ R) (hu : vu ∈ R)
    (hc : changes vt (lstep p vt) = true) (ha : applicable vt vu = true) : envApply vt (lstep p vt) vu ∈ R := by
  simp only [closed, Bool.and_eq_true, List.all_eq_true, List.elem_eq_mem, decide_eq_true_eq, Bool.or_eq_true,
    Bool.not_eq_true'] at h
  rcases (h.2 vt ht).2 with h1 | h1
  · rw [hc] at h1; cases h1
  · rcases h1 vu hu with h2 | h2
    · rw [ha] at h2; cases h2
    · exact h2

theorem inv_init {p : Prog} {R : List View} (h : closed p R = true) : Inv R (init p) := by
  intro t
  have : view (init p) t = view0 p := rfl
  rw [this]; exact closed_init h

theorem inv_step {p : Prog} {R : List View} (h : closed p R = true) (w : World) (t : Tid) (hw : Inv R w) :
    Inv R (step p w t) := by
  intro u
  by_cases e : u = t
  · subst e; rw [view_step_self]; exact closed_self h (hw u)
  · rw [view_step_other p w t u e]
    have hk := compat_views w t u e
    cases hc : changes (view w t) (lstep p (view w t)) with
    | true =>
      refine closed_env h (hw t) (hw u) hc ?_
      simp [applicable, view_sh, hk]
    | false =>
      rw [envApply_unchanged _ _ _ hc (by simp [view_sh]) hk]; exact hw u

theorem inv_run {p : Prog} {R : List View} (h : closed p R = true) (s : List Tid) (w : World) (hw : Inv R w) :
    Inv R (run p w s) := by
  induction s generalizing w with
  | nil => exact hw
  | cons t ts ih => exact ih _ (inv_step h w t hw)

/-- every view of every thread in every reachable world is in `R` -/
theorem reachable_view {p : Prog} {R : List View} (h : closed p R = true) (s : List Tid) (t : Tid) :
    view (run p (init p) s) t ∈ R :=
  inv_run h s _ (inv_init h) t

/-! ### what is read off the invariant -/

/-- every finished thread finished with `want` -/
def outcomesOk (want : Outcome) (R : List View) : Bool :=
  R.all fun v => match v.loc.out with
    | none => true
    | some o => o == want

/-- the slow initialiser and `onload` were started at most once -/
def initOnce (R : List View) : Bool := R.all fun v => decide (getF v.sh 0 ≤ 1) && decide (getF v.sh 3 ≤ 1)

/-- a thread about to write shared state holds the lock -/
def writesLocked (p : Prog) (R : List View) : Bool :=
  R.all fun v => v.loc.out.isSome || match p.code[v.loc.pc]? with
    | some i => !i.writes || v.lk == .mine
    | none => true

/-- the lock holder is not finished and its next step moves -/
def holderMoves (p : Prog) (R : List View) : Bool :=
  R.all fun v => v.lk != .mine || (v.loc.out.isNone && lstep p v != v)

theorem outcome_of_check {p : Prog} {R : List View} {want : Outcome} (h : closed p R = true) (ho : outcomesOk want R = true)
    (s : List Tid) (t : Tid) (o : Outcome) (hf : ((run p (init p) s).loc t).out = some o) : o = want := by
  have hv := reachable_view h s t
  simp only [outcomesOk, List.all_eq_true] at ho
  have := ho _ hv
  rw [view_loc, hf] at this
  simpa using this

theorem init_once_of_check {p : Prog} {R : List View} (h : closed p R = true) (ho : initOnce R = true) (s : List Tid) :
    getF (run p (init p) s).sh 0 ≤ 1 ∧ getF (run p (init p) s).sh 3 ≤ 1 := by
  have hv := reachable_view h s 0
  simp only [initOnce, List.all_eq_true, Bool.and_eq_true, decide_eq_true_eq] at ho
  exact ho _ hv

/-- thread `t` is about to write shared state -/
def AboutToWrite (p : Prog) (w : World) (t : Tid) : Prop :=
  (w.loc t).out = none ∧ ∃ i, p.code[(w.loc t).pc]? = some i ∧ i.writes = true

theorem lockView_mine {lock : Option Tid} {t : Tid} (h : lockView lock t = .mine) : lock = some t := by
  unfold lockView at h
  cases lock with
  | none => cases h
  | some o =>
    by_cases e : o = t
    · rw [e]
    · simp [e] at h

theorem holds_lock_of_check {p : Prog} {R : List View} (h : closed p R = true) (hwl : writesLocked p R = true)
    (s : List Tid) (t : Tid) (ht : AboutToWrite p (run p (init p) s) t) : (run p (init p) s).lock = some t := by
  have hv := reachable_view h s t
  simp only [writesLocked, List.all_eq_true] at hwl
  have := hwl _ hv
  obtain ⟨ho, i, hi, hw⟩ := ht
  rw [view_loc, ho, hi] at this
  simp [hw, view_lk] at this
  exact lockView_mine this

/-- mutual exclusion: two threads are never both about to write shared state -/
theorem mutex_of_check {p : Prog} {R : List View} (h : closed p R = true) (hwl : writesLocked p R = true)
    (s : List Tid) (t u : Tid) (ht : AboutToWrite p (run p (init p) s) t) (hu : AboutToWrite p (run p (init p) s) u) :
    t = u := by
  have h1 := holds_lock_of_check h hwl s t ht
  have h2 := holds_lock_of_check h hwl s u hu
  rw [h1] at h2
  exact Option.some.inj h2

/-- no deadlock: whenever the lock is held, its holder is unfinished and its next step changes the world -/
theorem holder_moves_of_check {p : Prog} {R : List View} (h : closed p R = true) (hm : holderMoves p R = true)
    (s : List Tid) (t : Tid) (hl : (run p (init p) s).lock = some t) :
    ((run p (init p) s).loc t).out = none ∧ view (step p (run p (init p) s) t) t ≠ view (run p (init p) s) t := by
  have hv := reachable_view h s t
  simp only [holderMoves, List.all_eq_true, Bool.or_eq_true, bne_iff_ne, Bool.and_eq_true, ne_eq] at hm
  have hlk : (view (run p (init p) s) t).lk = .mine := by simp [view_lk, hl, lockView]
  rcases hm _ hv with h1 | h1
  · exact absurd hlk h1
  · refine ⟨by simpa [view_loc] using h1.1, ?_⟩
    rw [view_step_self]; exact h1.2

/-! ### after the initialisation: calls are independent of each other -/

/-- the local state of a thread after `n` of its own steps when the shared state is `sh` and nobody holds the lock -/
def soloLoc (p : Prog) (sh : Nat) (l : Local) : Nat → Local
  | 0 => l
  | n + 1 => soloLoc p sh (lstep p ⟨sh, .free, l⟩).loc n

/-- the views of a fresh call in a quiet world (fuel steps) -/
def orbit (p : Prog) (sh : Nat) (l : Local) : Nat → List View
  | 0 => [⟨sh, .free, l⟩]
  | n + 1 => ⟨sh, .free, l⟩ :: orbit p sh (lstep p ⟨sh, .free, l⟩).loc n

/-- a fresh call in a quiet world neither writes nor locks, and ends within the fuel -/
def quietOk (p : Prog) (sh : Nat) (O : List View) : Bool :=
  O.elem ⟨sh, .free, Local.start⟩ &&
  O.all fun v => v.sh == sh && v.lk == .free && (lstep p v).sh == sh && (lstep p v).lk == .free && O.elem (lstep p v)

/-- a world after the initialisation: final shared state, lock free, every thread either finished or not started -/
def Quiet (sh : Nat) (O : List View) (w : World) : Prop :=
  w.sh = sh ∧ w.lock = none ∧ ∀ t, (⟨sh, .free, w.loc t⟩ : View) ∈ O ∨ (w.loc t).out.isSome = true

theorem lstep_finished (p : Prog) (v : View) (h : v.loc.out.isSome = true) : lstep p v = v := by
  unfold lstep
  cases ho : v.loc.out with
  | none => rw [ho] at h; cases h
  | some o => rfl

theorem quiet_step {p : Prog} {sh : Nat} {O : List View} (hq : quietOk p sh O = true) (w : World) (t : Tid)
    (hw : Quiet sh O w) :
    Quiet sh O (step p w t) ∧ (step p w t).loc t = (lstep p ⟨sh, .free, w.loc t⟩).loc ∧
      ∀ u, u ≠ t → (step p w t).loc u = w.loc u := by
  obtain ⟨h1, h2, h3⟩ := hw
  have hview : view w t = ⟨sh, .free, w.loc t⟩ := by simp [view, h1, h2, lockView]
  simp only [quietOk, Bool.and_eq_true, List.all_eq_true, List.elem_eq_mem, decide_eq_true_eq, beq_iff_eq] at hq
  have key : (lstep p ⟨sh, .free, w.loc t⟩).sh = sh ∧ (lstep p ⟨sh, .free, w.loc t⟩).lk = .free ∧
      ((lstep p ⟨sh, .free, w.loc t⟩) ∈ O ∨ (lstep p ⟨sh, .free, w.loc t⟩).loc.out.isSome = true) := by
    rcases h3 t with hin | hfin
    · obtain ⟨⟨⟨⟨_, _⟩, a⟩, b⟩, c⟩ := hq.2 _ hin
      exact ⟨a, b, Or.inl c⟩
    · rw [lstep_finished p _ hfin]; exact ⟨rfl, rfl, Or.inr hfin⟩
  obtain ⟨k1, k2, k3⟩ := key
  refine ⟨⟨?_, ?_, ?_⟩, ?_, ?_⟩
  · simp [step, hview, k1]
  · simp [step, hview, k2]
  · intro u
    by_cases e : u = t
    · subst e
      have : (step p w u).loc u = (lstep p ⟨sh, .free, w.loc u⟩).loc := by simp [step, hview]
      rw [this]
      rcases hv : lstep p ⟨sh, .free, w.loc u⟩ with ⟨a, b, c⟩
      rw [hv] at k1 k2 k3
      simp only at k1 k2
      subst k1; subst k2
      exact k3
    · have : (step p w t).loc u = w.loc u := by simp [step, e]
      rw [this]; exact h3 u
  · simp [step, hview]
  · intro u e; simp [step, e]

/-- once initialised, what a thread's call does depends only on how many steps that thread itself has taken:
    no step of another thread changes it, and the shared state does not change any more -/
theorem quiet_run {p : Prog} {sh : Nat} {O : List View} (hq : quietOk p sh O = true) (s : List Tid) (w : World)
    (hw : Quiet sh O w) :
    (run p w s).sh = sh ∧ (run p w s).lock = none ∧ ∀ u, (run p w s).loc u = soloLoc p sh (w.loc u) (s.count u) := by
  induction s generalizing w with
  | nil => exact ⟨hw.1, hw.2.1, fun u => rfl⟩
  | cons t ts ih =>
    obtain ⟨hq', hself, hother⟩ := quiet_step hq w t hw
    obtain ⟨i1, i2, i3⟩ := ih (step p w t) hq'
    refine ⟨i1, i2, fun u => ?_⟩
    show (run p (step p w t) ts).loc u = _
    rw [i3 u]
    by_cases e : u = t
    · subst e; rw [hself]; simp [List.count_cons, soloLoc]
    · rw [hother u e]
      have : ¬ t = u := fun x => e x.symm
      simp [List.count_cons, this]

end Lemmas.Threads
