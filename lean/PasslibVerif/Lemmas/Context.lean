import PasslibVerif.Model.Context
import PasslibVerif.Lemmas.RoundsUsing
namespace Lemmas.Context
open Py Model.Rounds Model.Context Lemmas.Rounds

/-! ### identification: first configured scheme that claims the hash -/
theorem find_first {α} (p : α → Bool) : ∀ (l : List α) (x : α), l.find? p = some x →
    ∃ pre post, l = pre ++ x :: post ∧ p x = true ∧ ∀ y ∈ pre, p y = false
  | [], _, h => by simp at h
  | a :: l, x, h => by
    by_cases ha : p a = true
    · simp [List.find?, ha] at h; subst h
      exact ⟨[], l, rfl, ha, by simp⟩
    · have ha' : p a = false := by simpa using ha
      simp only [List.find?, ha'] at h
      obtain ⟨pre, post, e, hx, hpre⟩ := find_first p l x h
      refine ⟨a :: pre, post, by simp [e], hx, ?_⟩
      intro y hy
      rcases List.mem_cons.1 hy with rfl | hy'
      · exact ha'
      · exact hpre y hy'

theorem identify_first_claimer (c : Cfg) (h : HashFacts) (s : SchemeInfo) (hi : identify c h = .ok s) :
    ∃ pre post, c.schemes = pre ++ s :: post ∧ h.claims s.name = true ∧ ∀ t ∈ pre, h.claims t.name = false := by
  unfold identify at hi
  cases hf : c.schemes.find? (fun s => h.claims s.name) with
  | none => simp [hf] at hi
  | some s' =>
    simp only [hf, Except.ok.injEq] at hi; subst hi
    exact find_first _ _ _ hf

theorem identify_unknown (c : Cfg) (h : HashFacts) (hn : ∀ s ∈ c.schemes, h.claims s.name = false) :
    identify c h = .error .unknownHash := by
  unfold identify
  have : c.schemes.find? (fun s => h.claims s.name) = none := by
    rw [List.find?_eq_none]; intro s hs; simp [hn s hs]
  rw [this]

/-! ### needs_update / verify_and_update decision structure -/
theorem needs_update_iff (c : Cfg) (h : HashFacts) (cat : Cat) (b : Bool) (hn : needsUpdateCtx c h cat = .ok b) :
    ∃ s r, identify c h = .ok s ∧ getRecord c s cat = .ok r ∧
      b = (r.deprecated || h.selfFlag ||
        (match r.cls, h.rounds with | some cls, some n => needsUpdate cls n | _, _ => false)) := by
  unfold needsUpdateCtx at hn
  cases hi : identify c h with
  | error e => simp [hi] at hn
  | ok s =>
    simp only [hi] at hn
    cases hr : getRecord c s cat with
    | error e => simp [hr] at hn
    | ok r => simp only [hr, Except.ok.injEq] at hn; exact ⟨s, r, rfl, hr, hn.symm⟩

theorem hash_by_default_scheme (c : Cfg) (cat : Cat) (draw : Nat) (fv : Int) (d : String) (n : Option Int)
    (hh : hashCtx c cat draw fv = .ok (d, n)) :
    defaultScheme c cat = .ok d ∧ ∃ s r, s ∈ c.schemes ∧ s.name = d ∧ getRecord c s cat = .ok r ∧
      (match r.cls with | none => n = none | some cls => ∃ k, generateRounds cls draw fv = .ok k ∧ n = some k) := by
  unfold hashCtx at hh
  cases hd : defaultScheme c cat with
  | error e => simp [hd] at hh
  | ok d' =>
    simp only [hd] at hh
    cases hf : c.schemes.find? (fun x => x.name = d') with
    | none => simp [hf] at hh
    | some s =>
      simp only [hf] at hh
      have hmem : s ∈ c.schemes := List.mem_of_find?_eq_some hf
      have hname : s.name = d' := by have := List.find?_some hf; simpa using this
      cases hr : getRecord c s cat with
      | error e => simp [hr] at hh
      | ok r =>
        simp only [hr] at hh
        cases hc : r.cls with
        | none =>
          simp only [hc, Except.ok.injEq, Prod.mk.injEq] at hh
          obtain ⟨rfl, rfl⟩ := hh
          exact ⟨rfl, s, r, hmem, hname, hr, by simp [hc]⟩
        | some cls =>
          simp only [hc] at hh
          cases hg : generateChecked cls draw fv with
          | error e => simp [hg, Except.map] at hh
          | ok k =>
            simp only [hg, Except.map, Except.ok.injEq, Prod.mk.injEq] at hh
            obtain ⟨rfl, rfl⟩ := hh
            exact ⟨rfl, s, r, hmem, hname, hr, by simp [hc]; exact (Lemmas.Rounds.generateChecked_ok cls draw fv k hg).1⟩

/-- (False, None) / (True, None) / (True, new): exactly by "verifies" and "needs update"; `new` is what
    `hash()` would produce for the category (default scheme, configured cost) -/
theorem vau_trichotomy (c : Cfg) (h : HashFacts) (cat : Cat) (draw : Nat) (fv : Int) (o : VauOut)
    (hv : verifyAndUpdate c h cat draw fv = .ok o) :
    ∃ s r, identify c h = .ok s ∧ getRecord c s cat = .ok r ∧
      ((h.verifies = .ok false ∧ o = .fail) ∨
       (h.verifies = .ok true ∧ recordNeedsUpdate r h = false ∧ o = .ok) ∨
       (h.verifies = .ok true ∧ recordNeedsUpdate r h = true ∧
          ∃ d n, hashCtx c cat draw fv = .ok (d, n) ∧ o = .rehash d n)) := by
  unfold verifyAndUpdate at hv
  cases hi : identify c h with
  | error e => simp [hi] at hv
  | ok s =>
    simp only [hi] at hv
    cases hr : getRecord c s cat with
    | error e => simp [hr] at hv
    | ok r =>
      simp only [hr] at hv
      refine ⟨s, r, rfl, hr, ?_⟩
      cases hver : h.verifies with
      | error e => simp [hver] at hv
      | ok b =>
        cases b with
        | false => simp only [hver, Except.ok.injEq] at hv; exact Or.inl ⟨rfl, hv.symm⟩
        | true =>
          simp only [hver] at hv
          cases hnu : recordNeedsUpdate r h with
          | false => simp only [hnu, Bool.false_eq_true, if_false, Except.ok.injEq] at hv; exact Or.inr (Or.inl ⟨rfl, rfl, hv.symm⟩)
          | true =>
            simp only [hnu, if_true] at hv
            cases hh : hashCtx c cat draw fv with
            | error e => simp [hh, Except.map] at hv
            | ok p =>
              simp only [hh, Except.map, Except.ok.injEq] at hv
              exact Or.inr (Or.inr ⟨rfl, rfl, p.1, p.2, rfl, hv.symm⟩)

end Lemmas.Context
