import PasslibVerif.Model.Code.Des
import PasslibVerif.Spec.Formats.DesBased
import PasslibVerif.Lemmas.DesEquiv
import PasslibVerif.Lemmas.Bits
/-
Lemmas for Props.C02CodeDes, part 1: the building blocks of passlib's DES based checksum code
(`_crypt_secret_to_key`, `h64.decode_int12/24`, `h64big.encode_int64`, `des_encrypt_int_block`) equal the corresponding
pieces of `Spec.Formats.DesBased`; `_raw_des_crypt = Spec.Formats.desCrypt`.
-/
namespace Lemmas.C02CodeDes
open Py Model.B64 Model.Code.Des Spec.Formats
open Model.Verify (Secret)

/-! ### `_crypt_secret_to_key` = FreeSec's `*q++ = *key << 1` -/

theorem key_term (c s : Nat) : (c &&& 0x7F) <<< s = (c % 128) * 2 ^ s := by
  rw [Nat.shiftLeft_eq, show (0x7F : Nat) = 127 from rfl, Bits.and127]

theorem dbl (c : Nat) : c * 2 % 256 = (c % 128) * 2 := by omega

/-- for EVERY byte string (any length, any content) -/
theorem cryptSecretToKey_eq (s : List Nat) : cryptSecretToKey s = desKeyOfChars s := by
  unfold cryptSecretToKey desKeyOfChars slice
  match s with
  | [] => rfl
  | [a] | [a, b] | [a, b, c] | [a, b, c, d] | [a, b, c, d, e] | [a, b, c, d, e, f] | [a, b, c, d, e, f, g]
  | a :: b :: c :: d :: e :: f :: g :: h :: rest =>
    simp only [List.drop_zero, List.range, List.range.loop, List.foldl, List.take, enumerate]
    simp only [key_term, dbl, List.getD_cons_zero, List.getD_cons_succ, List.getD_nil, Nat.zero_mod, Nat.zero_mul, Nat.add_zero,
      Nat.zero_add]
    simp only [Nat.reduceMul, Nat.reduceSub, Nat.reducePow, Nat.reduceAdd, Nat.add_mul, Nat.mul_assoc]

theorem desKeyOfChars_lt (cs : List Nat) : desKeyOfChars cs < 2 ^ 64 := by
  unfold desKeyOfChars
  have e : (List.range 8).foldl (fun k i => k * 256 + (cs.getD i 0 * 2) % 256) 0
      = ((List.range 8).map fun i => (cs.getD i 0 * 2) % 256).foldl (fun a b => a * 256 + b) 0 := by
    rw [List.foldl_map]
  rw [e]
  have := Lemmas.DesTables.unpack_foldl_lt ((List.range 8).map fun i => (cs.getD i 0 * 2) % 256) 0
    (by intro b hb; simp only [List.mem_map] at hb; obtain ⟨i, _, rfl⟩ := hb; exact Nat.mod_lt _ (by decide))
  simpa using this

/-! ### the hash64 codecs -/

theorem h64_charmap_eq : h64.charmap = itoa64 := by decide
theorem h64big_charmap_eq : h64big.charmap = itoa64 := by decide
theorem itoa64_length : itoa64.length = 64 := by decide

theorem h64val_lt (c : Nat) (h : c ∈ itoa64) : h64val c < 64 := by
  unfold h64val
  rw [← itoa64_length]
  exact List.idxOf_lt_length_of_mem h

theorem decode64_h64 (c : Nat) (h : c ∈ itoa64) : decode64 h64.charmap c = some (h64val c) := by
  unfold decode64
  rw [h64_charmap_eq]
  have := h64val_lt c h
  unfold h64val at this ⊢
  simp [itoa64_length, this]

theorem decode64_h64_none (c : Nat) (h : c ∉ itoa64) : decode64 h64.charmap c = none := by
  unfold decode64
  rw [h64_charmap_eq]
  have : ¬ List.idxOf c itoa64 < itoa64.length := by
    intro hlt
    exact h (List.idxOf_lt_length_iff.mp hlt)
  simp [this]

/-- `h64.decode_int12` reads the two characters as FreeSec does: first character least significant -/
theorem decodeInt12_h64 (a b : Nat) (ha : a ∈ itoa64) (hb : b ∈ itoa64) : decodeInt12 h64 [a, b] = .ok (h64leNat [a, b]) := by
  simp only [decodeInt12, decode64_h64 a ha, decode64_h64 b hb, show h64.big = false from rfl, Bool.false_eq_true, if_false,
    Gen.B64.decode_int12_little, h64leNat, Nat.shiftLeft_eq, Except.ok.injEq]
  omega

theorem decodeInt24_h64 (a b c d : Nat) (ha : a ∈ itoa64) (hb : b ∈ itoa64) (hc : c ∈ itoa64) (hd : d ∈ itoa64) :
    decodeInt24 h64 [a, b, c, d] = .ok (h64leNat [a, b, c, d]) := by
  have e : decodeInt24 h64 [a, b, c, d] = .ok (Gen.B64.decode_int24_little (h64val a) (h64val b) (h64val c) (h64val d)) := by
    unfold decodeInt24
    simp only [decode64_h64 a ha, decode64_h64 b hb, decode64_h64 c hc, decode64_h64 d hd, show h64.big = false from rfl,
      Bool.false_eq_true, if_false]
  rw [e]
  refine congrArg Except.ok ?_
  unfold Gen.B64.decode_int24_little
  rw [Nat.shiftLeft_eq, Nat.shiftLeft_eq, Nat.shiftLeft_eq]
  simp only [h64leNat]
  omega

theorem h64leNat2_lt (a b : Nat) (ha : a ∈ itoa64) (hb : b ∈ itoa64) : h64leNat [a, b] < 2 ^ 24 := by
  have := h64val_lt a ha
  have := h64val_lt b hb
  simp only [h64leNat]
  omega

theorem h64leNat4_lt (a b c d : Nat) (ha : a ∈ itoa64) (hb : b ∈ itoa64) (hc : c ∈ itoa64) (hd : d ∈ itoa64) :
    h64leNat [a, b, c, d] < 2 ^ 24 := by
  have := h64val_lt a ha
  have := h64val_lt b hb
  have := h64val_lt c hc
  have := h64val_lt d hd
  simp only [h64leNat]
  omega

/-- `h64big.encode_int64` is the eleven-digit packing of FreeSec (`h64be64`), for every 64-bit value -/
theorem encodeInt64_h64big (v : Nat) (h : v < 2 ^ 64) : encodeInt64 h64big v = .ok (h64be64 v) := by
  have hg : ¬ v > Gen.B64.encode_int64_max := by
    simp only [Gen.B64.encode_int64_max]; omega
  simp only [encodeInt64, hg, if_false]
  congr 1
  simp only [encodeInt, encodeIntOffsets, Gen.B64.encode_int64_bits, show h64big.big = true from rfl, if_true, encode64,
    h64big_charmap_eq, h64be64]
  simp only [Nat.reduceMod, Nat.reduceSub, Nat.reduceAdd, Nat.reduceDiv, List.range, List.range.loop, List.map, List.reverse_cons,
    List.reverse_nil, List.nil_append, List.cons_append, Nat.reduceMul, Nat.shiftLeft_eq, Nat.reducePow, Bits.and63]

/-! ### `des_encrypt_int_block` through C11 -/

theorem desInt_eq_spec (key input salt rounds : Nat) (hk : key < 2 ^ 64) (hi : input < 2 ^ 64) (hs : salt < 2 ^ 24) (hr : 1 ≤ rounds) :
    desInt key input salt rounds = .ok (Spec.Des.desCryptCore key input salt rounds) := by
  unfold desInt
  rw [Lemmas.DesEquiv.des_model_eq_spec key input salt rounds hk hi hs hr]

theorem desInt_plain (key input : Nat) (hk : key < 2 ^ 64) (hi : input < 2 ^ 64) :
    desInt key input = .ok (Spec.Des.desEncrypt key input) := by
  unfold desInt
  rw [Lemmas.DesEquiv.des_model_eq_fips key input hk hi]

theorem desInt_rounds_zero (key input salt : Nat) : desInt key input salt 0 = .error .valueError := by
  simp [desInt, Model.Des.desEncryptIntBlock]

theorem desCryptCore_lt (key input salt rounds : Nat) : Spec.Des.desCryptCore key input salt rounds < 2 ^ 64 := by
  unfold Spec.Des.desCryptCore
  exact BitHom.perm_lt _ _ _

theorem desEncrypt_lt (key block : Nat) : Spec.Des.desEncrypt key block < 2 ^ 64 := by
  unfold Spec.Des.desEncrypt
  exact BitHom.perm_lt _ _ _

/-! ### `_raw_des_crypt` -/

theorem contains_zero_false (s : List Nat) (h : 0 ∉ s) : s.contains 0 = false := by
  simpa using h

theorem rawDesCrypt_bytes_eq_spec (secret salt : List Nat) (hnul : 0 ∉ secret) (hl : salt.length = 2) (hc : ∀ c ∈ salt, c ∈ itoa64) :
    rawDesCrypt (.bytes secret) salt = .ok (desCrypt secret salt) := by
  match salt, hl with
  | [a, b], _ =>
    have ha : a ∈ itoa64 := hc a (by simp)
    have hb : b ∈ itoa64 := hc b (by simp)
    simp only [rawDesCrypt, List.length_cons, List.length_nil, ne_eq, not_true_eq_false, if_false, Nat.reduceAdd,
      decodeInt12_h64 a b ha hb, encodeSecret, Secret.toBytes, contains_zero_false secret hnul, Bool.false_eq_true]
    rw [cryptSecretToKey_eq, desInt_eq_spec _ 0 _ 25 (desKeyOfChars_lt _) (by decide) (h64leNat2_lt a b ha hb) (by decide)]
    simp only [encodeInt64_h64big _ (desCryptCore_lt _ _ _ _), desCrypt, desCryptBlock, List.take_succ_cons, List.take_zero]

theorem rawDesCrypt_text (cps b salt : List Nat) (h : Model.Verify.utf8 cps = some b) :
    rawDesCrypt (.text cps) salt = rawDesCrypt (.bytes b) salt := by
  simp only [rawDesCrypt, encodeSecret, Secret.toBytes, h]

theorem rawDesCrypt_nul (secret salt : List Nat) (hnul : 0 ∈ secret) (hl : salt.length = 2) (hc : ∀ c ∈ salt, c ∈ itoa64) :
    rawDesCrypt (.bytes secret) salt = .error .nullError := by
  match salt, hl with
  | [a, b], _ =>
    have ha : a ∈ itoa64 := hc a (by simp)
    have hb : b ∈ itoa64 := hc b (by simp)
    have : secret.contains 0 = true := by simpa using hnul
    simp only [rawDesCrypt, List.length_cons, List.length_nil, ne_eq, not_true_eq_false, if_false, Nat.reduceAdd,
      decodeInt12_h64 a b ha hb, encodeSecret, Secret.toBytes, this, if_true]

theorem rawDesCrypt_salt_size (secret : Secret) (salt : List Nat) (hl : salt.length ≠ 2) : rawDesCrypt secret salt = .error .assertionError := by
  simp only [rawDesCrypt, hl, ne_eq, not_false_eq_true, if_true]

theorem rawDesCrypt_salt_char (secret : Secret) (salt : List Nat) (hl : salt.length = 2) (c : Nat) (hc : c ∈ salt) (hn : c ∉ itoa64) :
    rawDesCrypt secret salt = .error .valueError := by
  match salt, hl with
  | [a, b], _ =>
    have : decodeInt12 h64 [a, b] = .error .valueError := by
      simp only [List.mem_cons, List.not_mem_nil, or_false] at hc
      rcases hc with rfl | rfl
      · simp only [decodeInt12, decode64_h64_none _ hn]
      · simp only [decodeInt12, decode64_h64_none _ hn]
        cases decode64 h64.charmap a <;> rfl
    simp only [rawDesCrypt, List.length_cons, List.length_nil, ne_eq, not_true_eq_false, if_false, Nat.reduceAdd, this]

end Lemmas.C02CodeDes
