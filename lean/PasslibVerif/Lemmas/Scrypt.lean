import PasslibVerif.Gen.Scrypt
import PasslibVerif.Spec.Scrypt
import PasslibVerif.Model.Scrypt
import PasslibVerif.Py.Basic
import PasslibVerif.Lemmas.Bits
/-
Lemmas for C11-scrypt: the generated `salsa20` is the RFC 7914 Salsa20/8 core; `bmix` is
scryptBlockMix; `smix` is scryptROMix; `run` is scrypt; `validate` accepts exactly the documented
parameter sets.  Statements only are repeated in Props/C11Scrypt.lean.
-/
namespace Lemmas.Scrypt
open Gen.Scrypt Spec.Scrypt Model.Scrypt Py

/-! ## 1. `Gen.Scrypt.salsa20` = Salsa20/8 core -/

theorem mask32 (x : Nat) : x &&& 4294967295 = x % 2 ^ 32 := Nat.and_two_pow_sub_one_eq_mod x 32

/-- the masked-shift form used by the generated Python is the C macro `R` of RFC 7914 §3
    (no range hypothesis on `t` is needed) -/
theorem rot_gen (t k : Nat) (hk : k ≤ 32) :
    ((t &&& (2 ^ (32 - k) - 1)) <<< k) ||| (t >>> (32 - k)) = R t k := by
  unfold R
  rw [Nat.and_two_pow_sub_one_eq_mod, Nat.shiftLeft_eq, Nat.shiftLeft_eq]
  congr 1
  have : (2:Nat) ^ 32 = 2 ^ (32 - k) * 2 ^ k := by rw [← Nat.pow_add]; congr 1; omega
  rw [this, Nat.mul_mod_mul_right]

/-- `R` is rotation of a 32-bit word: the result is the word whose bit `i` is bit `(i - k) mod 32` of `t` -/
theorem R_lt (t k : Nat) (ht : t < 2 ^ 32) (hk : 0 < k) (hk' : k ≤ 32) : R t k < 2 ^ 32 := by
  unfold R
  apply Nat.or_lt_two_pow
  · exact Nat.mod_lt _ (by decide)
  · rw [Nat.shiftRight_eq_div_pow]
    apply Nat.div_lt_of_lt_mul
    calc t < 2 ^ 32 := ht
      _ ≤ 2 ^ (32 - k) * 2 ^ 32 := Nat.le_mul_of_pos_left _ (Nat.two_pow_pos _)

theorem R_testBit (t k i : Nat) (ht : t < 2 ^ 32) (hk : 0 < k) (hk' : k < 32) (hi : i < 32) :
    (R t k).testBit i = t.testBit ((i + 32 - k) % 32) := by
  unfold R
  rw [Nat.testBit_or, Nat.testBit_mod_two_pow, Nat.testBit_shiftLeft, Nat.testBit_shiftRight]
  by_cases h : k ≤ i
  · have e : (i + 32 - k) % 32 = i - k := by omega
    have hb : t.testBit (32 - k + i) = false :=
      Nat.testBit_lt_two_pow (Nat.lt_of_lt_of_le ht (Nat.pow_le_pow_right (by decide) (by omega)))
    simp [h, hi, e, hb]
  · have e : (i + 32 - k) % 32 = 32 - k + i := by omega
    simp [h, e]

theorem rot7 (t : Nat) : ((t &&& 33554431) <<< 7) ||| (t >>> 25) = R t 7 := rot_gen t 7 (by decide)
theorem rot9 (t : Nat) : ((t &&& 8388607) <<< 9) ||| (t >>> 23) = R t 9 := rot_gen t 9 (by decide)
theorem rot13 (t : Nat) : ((t &&& 524287) <<< 13) ||| (t >>> 19) = R t 13 := rot_gen t 13 (by decide)
theorem rot18 (t : Nat) : ((t &&& 16383) <<< 18) ||| (t >>> 14) = R t 18 := rot_gen t 18 (by decide)

/-- the 64 generated statements of the loop body are the 32 RFC statements `x[t] ^= R(x[a]+x[b], k)` -/
theorem loop_body_eq (v0 v1 v2 v3 v4 v5 v6 v7 v8 v9 v10 v11 v12 v13 v14 v15 : Nat) :
    salsa20_loop_body [v0, v1, v2, v3, v4, v5, v6, v7, v8, v9, v10, v11, v12, v13, v14, v15] =
    doubleRound [v0, v1, v2, v3, v4, v5, v6, v7, v8, v9, v10, v11, v12, v13, v14, v15] := by
  simp only [salsa20_loop_body, doubleRound, ops, List.foldl, op, List.set, List.getD_cons_zero, List.getD_cons_succ,
    rot7, rot9, rot13, rot18, mask32, add32]

theorem len16 (l : List Nat) (h : l.length = 16) :
    ∃ a0 a1 a2 a3 a4 a5 a6 a7 a8 a9 a10 a11 a12 a13 a14 a15,
      l = [a0, a1, a2, a3, a4, a5, a6, a7, a8, a9, a10, a11, a12, a13, a14, a15] := by
  match l, h with
  | [a0, a1, a2, a3, a4, a5, a6, a7, a8, a9, a10, a11, a12, a13, a14, a15], _ =>
    exact ⟨a0, a1, a2, a3, a4, a5, a6, a7, a8, a9, a10, a11, a12, a13, a14, a15, rfl⟩

theorem op_length (x : List Nat) (o) : (op x o).length = x.length := by simp [op]
theorem foldl_op_length (os : List (Nat × Nat × Nat × Nat)) : ∀ x : List Nat, (os.foldl op x).length = x.length := by
  induction os with
  | nil => intro x; rfl
  | cons o os ih => intro x; rw [List.foldl_cons, ih, op_length]
theorem doubleRound_length (x : List Nat) : (doubleRound x).length = x.length := foldl_op_length _ x

theorem loop_body_eq' (x : List Nat) (h : x.length = 16) : salsa20_loop_body x = doubleRound x := by
  obtain ⟨b0, b1, b2, b3, b4, b5, b6, b7, b8, b9, b10, b11, b12, b13, b14, b15, rfl⟩ := len16 x h
  exact loop_body_eq ..

/-- **(a)** the generated straight-line `salsa20` is the Salsa20/8 core of RFC 7914 §3, on every
    16-item input (no range condition on the items is needed) -/
theorem salsa_translated_eq_spec (input : List Nat) (h : input.length = 16) :
    salsa20 input = salsa20_8 input := by
  have h1 := doubleRound_length input
  have h2 := doubleRound_length (doubleRound input)
  have h3 := doubleRound_length (doubleRound (doubleRound input))
  have h4 := doubleRound_length (doubleRound (doubleRound (doubleRound input)))
  have hg : salsa20_loop_body (salsa20_loop_body (salsa20_loop_body (salsa20_loop_body input))) =
      doubleRound (doubleRound (doubleRound (doubleRound input))) := by
    rw [loop_body_eq' input h, loop_body_eq' (doubleRound input) (by omega),
      loop_body_eq' (doubleRound (doubleRound input)) (by omega),
      loop_body_eq' (doubleRound (doubleRound (doubleRound input))) (by omega)]
  unfold salsa20_8
  generalize doubleRound (doubleRound (doubleRound (doubleRound input))) = w at *
  obtain ⟨b0, b1, b2, b3, b4, b5, b6, b7, b8, b9, b10, b11, b12, b13, b14, b15, rfl⟩ := len16 input h
  obtain ⟨w0, w1, w2, w3, w4, w5, w6, w7, w8, w9, w10, w11, w12, w13, w14, w15, rfl⟩ := len16 w (by omega)
  simp only [salsa20, hg, List.zipWith, add32, mask32, Nat.add_comm]

theorem salsa20_8_length (x : List Nat) : (salsa20_8 x).length = x.length := by
  simp [salsa20_8, doubleRound_length]

/-- 32-bit words -/
def W32 (ws : List Nat) : Prop := ∀ w ∈ ws, w < 2 ^ 32

theorem salsa20_8_w32 (x : List Nat) : W32 (salsa20_8 x) := by
  intro w hw
  simp only [salsa20_8, List.mem_iff_getElem, List.getElem_zipWith] at hw
  obtain ⟨i, _, rfl⟩ := hw
  exact Nat.mod_lt _ (by decide)

/-! ## 2. 32-bit words and their little-endian octets -/

theorem W32_nil : W32 [] := by intro w h; cases h
theorem W32_cons {w ws} : W32 (w :: ws) ↔ w < 2^32 ∧ W32 ws := by simp [W32]
theorem W32_append {a b} : W32 (a ++ b) ↔ W32 a ∧ W32 b := by
  simp only [W32, List.mem_append]; constructor
  · intro h; exact ⟨fun w hw => h w (Or.inl hw), fun w hw => h w (Or.inr hw)⟩
  · rintro ⟨h1, h2⟩ w (hw | hw); exact h1 w hw; exact h2 w hw
theorem W32_take {a} (k) (h : W32 a) : W32 (a.take k) := fun w hw => h w (List.mem_of_mem_take hw)
theorem W32_drop {a} (k) (h : W32 a) : W32 (a.drop k) := fun w hw => h w (List.mem_of_mem_drop hw)

theorem zipXor_w32 : ∀ (a b : List Nat), W32 a → W32 b → W32 (zipXor a b)
  | [], _, _, _ => by simp [zipXor, W32_nil]
  | _ :: _, [], _, _ => by simp [zipXor, W32_nil]
  | x :: a, y :: b, ha, hb => by
    rw [W32_cons] at ha hb
    simp only [zipXor, List.zipWith_cons_cons]
    exact W32_cons.2 ⟨Nat.xor_lt_two_pow ha.1 hb.1, zipXor_w32 a b ha.2 hb.2⟩

theorem zipXor_length (a b : List Nat) : (zipXor a b).length = min a.length b.length := by simp [zipXor]

/-! bytes <-> words -/
theorem bytesOfWords_nil : bytesOfWords [] = [] := rfl
theorem bytesOfWords_cons (w ws) : bytesOfWords (w :: ws) = bytesOfWord w ++ bytesOfWords ws := by
  simp [bytesOfWords]
theorem bytesOfWords_append (a b) : bytesOfWords (a ++ b) = bytesOfWords a ++ bytesOfWords b := by
  simp [bytesOfWords]
theorem bytesOfWords_length : ∀ ws, (bytesOfWords ws).length = 4 * ws.length
  | [] => rfl
  | w :: ws => by rw [bytesOfWords_cons, List.length_append, bytesOfWords_length ws]; simp [bytesOfWord]; omega

theorem bytesOfWords_wf (ws : List Nat) : Bytes.WF (bytesOfWords ws) := by
  intro b hb
  simp only [bytesOfWords, List.mem_flatMap, bytesOfWord] at hb
  obtain ⟨w, _, hb⟩ := hb
  simp at hb
  omega

theorem wordsOfBytes_bytesOfWords : ∀ ws, W32 ws → wordsOfBytes (bytesOfWords ws) = ws
  | [], _ => rfl
  | w :: ws, h => by
    rw [W32_cons] at h
    rw [bytesOfWords_cons]
    simp only [bytesOfWord, List.cons_append, List.nil_append, wordsOfBytes, leNat]
    rw [wordsOfBytes_bytesOfWords ws h.2]
    congr 1
    have := h.1
    omega

theorem bytesOfWords_wordsOfBytes : ∀ (bs : List Nat), Bytes.WF bs → bs.length % 4 = 0 →
    bytesOfWords (wordsOfBytes bs) = bs
  | [], _, _ => rfl
  | [_], _, h => by simp at h
  | [_, _], _, h => by simp at h
  | [_, _, _], _, h => by simp at h
  | b0 :: b1 :: b2 :: b3 :: rest, hwf, h => by
    have h0 := hwf b0 (by simp)
    have h1 := hwf b1 (by simp)
    have h2 := hwf b2 (by simp)
    have h3 := hwf b3 (by simp)
    have hr : Bytes.WF rest := fun b hb => hwf b (by simp [hb])
    simp only [wordsOfBytes, bytesOfWords_cons]
    rw [bytesOfWords_wordsOfBytes rest hr (by simp at h; omega)]
    simp only [bytesOfWord, leNat, List.cons_append, List.nil_append]
    simp only [List.cons.injEq, and_true]
    refine ⟨?_, ?_, ?_, ?_⟩ <;> omega

theorem wordsOfBytes_length : ∀ (bs : List Nat), (wordsOfBytes bs).length = bs.length / 4
  | [] => rfl
  | [_] => by simp [wordsOfBytes]
  | [_, _] => by simp [wordsOfBytes]
  | [_, _, _] => by simp [wordsOfBytes]
  | b0 :: b1 :: b2 :: b3 :: rest => by
    simp only [wordsOfBytes, List.length_cons, wordsOfBytes_length rest]; omega

theorem wordsOfBytes_w32 : ∀ (bs : List Nat), Bytes.WF bs → W32 (wordsOfBytes bs)
  | [], _ => W32_nil
  | [_], _ => W32_nil
  | [_, _], _ => W32_nil
  | [_, _, _], _ => W32_nil
  | b0 :: b1 :: b2 :: b3 :: rest, hwf => by
    have h0 := hwf b0 (by simp)
    have h1 := hwf b1 (by simp)
    have h2 := hwf b2 (by simp)
    have h3 := hwf b3 (by simp)
    have hr : Bytes.WF rest := fun b hb => hwf b (by simp [hb])
    simp only [wordsOfBytes, leNat]
    exact W32_cons.2 ⟨by omega, wordsOfBytes_w32 rest hr⟩

theorem bytesOfWords_drop : ∀ (k : Nat) (ws : List Nat), (bytesOfWords ws).drop (4 * k) = bytesOfWords (ws.drop k)
  | 0, ws => rfl
  | k + 1, [] => by simp [bytesOfWords]
  | k + 1, w :: ws => by
    rw [bytesOfWords_cons, List.drop_succ_cons, ← bytesOfWords_drop k ws]
    simp only [bytesOfWord, List.cons_append, List.nil_append, Nat.mul_succ, List.drop_succ_cons]

theorem bytesOfWords_take : ∀ (k : Nat) (ws : List Nat), (bytesOfWords ws).take (4 * k) = bytesOfWords (ws.take k)
  | 0, ws => rfl
  | k + 1, [] => by simp [bytesOfWords]
  | k + 1, w :: ws => by
    rw [List.take_succ_cons, bytesOfWords_cons, bytesOfWords_cons, ← bytesOfWords_take k ws]
    simp only [bytesOfWord, List.cons_append, List.nil_append, Nat.mul_succ, List.take_succ_cons]

theorem bytesOfWord_xor (x y : Nat) :
    bytesOfWord (x ^^^ y) = List.zipWith (· ^^^ ·) (bytesOfWord x) (bytesOfWord y) := by
  have e : (256 : Nat) = 2 ^ 8 := rfl
  simp only [bytesOfWord, List.zipWith_cons_cons, List.zipWith_nil_right, e, Nat.xor_div_two_pow, Nat.xor_mod_two_pow]

theorem xorBytes_bytesOfWords : ∀ (a b : List Nat),
    xorBytes (bytesOfWords a) (bytesOfWords b) = bytesOfWords (zipXor a b)
  | [], _ => by simp [xorBytes, zipXor, bytesOfWords]
  | _ :: _, [] => by simp [xorBytes, zipXor, bytesOfWords]
  | x :: a, y :: b => by
    simp only [zipXor, List.zipWith_cons_cons, bytesOfWords_cons]
    unfold xorBytes
    rw [List.zipWith_append (by simp [bytesOfWord]), bytesOfWord_xor]
    congr 1
    exact xorBytes_bytesOfWords a b

/-! ## 3. scryptBlockMix on words -/

/-- the i-th 16-word block -/
def blockW (B : List Nat) (i : Nat) : List Nat := (B.drop (16 * i)).take 16

def blockMixYW : List (List Nat) → List Nat → List (List Nat)
  | [], _ => []
  | Bi :: rest, X => salsa20_8 (zipXor X Bi) :: blockMixYW rest (salsa20_8 (zipXor X Bi))

/-- `Spec.Scrypt.blockMix` with 16-word blocks instead of 64-octet blocks -/
def blockMixW (r : Nat) (B : List Nat) : List Nat :=
  let Y := blockMixYW ((List.range (2 * r)).map (blockW B)) (blockW B (2 * r - 1))
  (List.range r).flatMap (fun i => Y.getD (2 * i) []) ++
  (List.range r).flatMap (fun i => Y.getD (2 * i + 1) [])

theorem block_bytesOfWords (ws : List Nat) (i : Nat) : block (bytesOfWords ws) i = bytesOfWords (blockW ws i) := by
  unfold block blockW
  have e1 : 64 * i = 4 * (16 * i) := by omega
  have e2 : (64 : Nat) = 4 * 16 := rfl
  rw [e1, bytesOfWords_drop, e2, bytesOfWords_take]

theorem blockW_w32 {ws} (h : W32 ws) (i) : W32 (blockW ws i) := W32_take _ (W32_drop _ h)

theorem salsa_bytes_words (ws : List Nat) (h : W32 ws) :
    salsa20_8_bytes (bytesOfWords ws) = bytesOfWords (salsa20_8 ws) := by
  unfold salsa20_8_bytes; rw [wordsOfBytes_bytesOfWords ws h]

theorem blockMixY_bytes : ∀ (bl : List (List Nat)) (X : List Nat), (∀ b ∈ bl, W32 b) → W32 X →
    blockMixY (bl.map bytesOfWords) (bytesOfWords X) = (blockMixYW bl X).map bytesOfWords
  | [], _, _, _ => rfl
  | b :: bl, X, hb, hX => by
    have hb0 : W32 b := hb b (by simp)
    simp only [List.map_cons, blockMixY, blockMixYW]
    rw [xorBytes_bytesOfWords, salsa_bytes_words _ (zipXor_w32 _ _ hX hb0)]
    rw [blockMixY_bytes bl _ (fun c hc => hb c (by simp [hc])) (salsa20_8_w32 _)]

theorem getD_map_nil (f : List Nat → List Nat) (hf : f [] = []) (Y : List (List Nat)) (i : Nat) :
    (Y.map f).getD i [] = f (Y.getD i []) := by
  simp only [List.getD_eq_getElem?_getD, List.getElem?_map]
  cases Y[i]? <;> simp [hf]

theorem bytesOfWords_flatMap {α} (l : List α) (g : α → List Nat) :
    bytesOfWords (l.flatMap g) = l.flatMap (fun a => bytesOfWords (g a)) := by
  induction l with
  | nil => rfl
  | cons a l ih => simp only [List.flatMap_cons, bytesOfWords_append, ih]

/-- scryptBlockMix on octets is `blockMixW` on the little-endian words -/
theorem blockMix_bytes (r : Nat) (ws : List Nat) (h : W32 ws) :
    blockMix r (bytesOfWords ws) = bytesOfWords (blockMixW r ws) := by
  unfold blockMix blockMixW
  simp only []
  have hm : (List.range (2 * r)).map (block (bytesOfWords ws)) =
      ((List.range (2 * r)).map (blockW ws)).map bytesOfWords := by
    rw [List.map_map]; apply List.map_congr_left; intro i _; exact block_bytesOfWords ws i
  rw [hm, block_bytesOfWords, blockMixY_bytes _ _ _ (blockW_w32 h _)]
  · rw [bytesOfWords_append, bytesOfWords_flatMap, bytesOfWords_flatMap]
    simp only [getD_map_nil bytesOfWords bytesOfWords_nil]
  · intro b hb
    simp only [List.mem_map] at hb
    obtain ⟨i, _, rfl⟩ := hb
    exact blockW_w32 h i


/-! ## 4. `ScryptEngine.bmix` = scryptBlockMix on words -/

theorem zipWith_take_right {α β γ} (f : α → β → γ) : ∀ (a : List α) (s : List β),
    List.zipWith f a s = List.zipWith f a (s.take a.length)
  | [], _ => by simp
  | _ :: _, [] => by simp
  | x :: a, y :: s => by simp [zipWith_take_right f a s]

theorem zipXor_take (a s : List Nat) (n : Nat) (h : a.length = n) : zipXor a s = zipXor a (s.take n) := by
  subst h; exact zipWith_take_right _ a s

theorem setSlice_mid (A M C xs : List Nat) (i j : Nat) (hA : A.length = i) (hM : A.length + M.length = j) :
    setSlice (A ++ M ++ C) i j xs = A ++ xs ++ C := by
  unfold setSlice
  have hij : max i j = j := by omega
  rw [hij, List.append_assoc A M C, List.take_left' hA, ← List.append_assoc,
    List.drop_left' (by rw [List.length_append]; exact hM)]

/-- the blocks of `s`, recursively -/
def chunksW : Nat → List Nat → List (List Nat)
  | 0, _ => []
  | m + 1, s => s.take 16 :: chunksW m (s.drop 16)

theorem blockW_succ (s : List Nat) (i : Nat) : blockW s (i + 1) = blockW (s.drop 16) i := by
  unfold blockW; rw [List.drop_drop]; congr 2; omega

theorem map_blockW_eq_chunks : ∀ (m : Nat) (s : List Nat), (List.range m).map (blockW s) = chunksW m s
  | 0, _ => rfl
  | m + 1, s => by
    rw [List.range_succ_eq_map, List.map_cons, List.map_map, chunksW, ← map_blockW_eq_chunks m (s.drop 16)]
    congr 1
    apply List.map_congr_left; intro i _
    exact blockW_succ s i

/-- even-indexed and odd-indexed blocks, concatenated -/
def evensOdds : List (List Nat) → List Nat × List Nat
  | y0 :: y1 :: rest => (y0 ++ (evensOdds rest).1, y1 ++ (evensOdds rest).2)
  | _ => ([], [])

theorem evens_eq : ∀ (r : Nat) (Y : List (List Nat)), Y.length = 2 * r →
    (List.range r).flatMap (fun i => Y.getD (2 * i) []) = (evensOdds Y).1 ∧
    (List.range r).flatMap (fun i => Y.getD (2 * i + 1) []) = (evensOdds Y).2
  | 0, Y, h => by
    have : Y = [] := List.eq_nil_of_length_eq_zero (by omega)
    subst this; exact ⟨rfl, rfl⟩
  | r + 1, [], h => by simp at h
  | r + 1, [_], h => by simp at h; omega
  | r + 1, y0 :: y1 :: rest, h => by
    have ih := evens_eq r rest (by simp at h; omega)
    rw [List.range_succ_eq_map]
    simp only [List.flatMap_cons, List.flatMap_map, evensOdds]
    refine ⟨?_, ?_⟩
    · rw [← ih.1]; congr 1
    · rw [← ih.2]; congr 1

theorem gsalsa (x : List Nat) (h : x.length = 16) : salsa20 x = salsa20_8 x := salsa_translated_eq_spec x h

theorem blockMixYW_length : ∀ (bl : List (List Nat)) (X : List Nat), (blockMixYW bl X).length = bl.length
  | [], _ => rfl
  | _ :: bl, X => by simp [blockMixYW, blockMixYW_length bl]

theorem chunksW_length : ∀ (m : Nat) (s : List Nat), (chunksW m s).length = m
  | 0, _ => rfl
  | m + 1, s => by simp [chunksW, chunksW_length m]

/-- loop invariant of `bmix`: with `k` iterations to go, `tmp` the previous salsa output, `siter` the
    unread part of the source, and the target split as (evens written) ++ (evens to write) ++
    (odds written) ++ (odds to write) -/
theorem bmixLoop_inv (half : Nat) : ∀ (k fuel i : Nat) (tmp siter E tE O tO : List Nat),
    k ≤ fuel → half = 16 * (i + k) → tmp.length = 16 → siter.length = 32 * k →
    E.length = 16 * i → O.length = 16 * i → tE.length = 16 * k → tO.length = 16 * k →
    bmixLoop half fuel (16 * i) tmp siter (E ++ tE ++ (O ++ tO)) =
      E ++ (evensOdds (blockMixYW (chunksW (2 * k) siter) tmp)).1 ++
      (O ++ (evensOdds (blockMixYW (chunksW (2 * k) siter) tmp)).2)
  | 0, fuel, i, tmp, siter, E, tE, O, tO, _, hh, _, _, _, _, htE, htO => by
    have e1 : tE = [] := List.eq_nil_of_length_eq_zero (by omega)
    have e2 : tO = [] := List.eq_nil_of_length_eq_zero (by omega)
    subst e1 e2
    have hj : ¬ (16 * i < half) := by omega
    cases fuel with
    | zero => simp [bmixLoop, chunksW, blockMixYW, evensOdds]
    | succ f => simp [bmixLoop, hj, chunksW, blockMixYW, evensOdds]
  | k + 1, 0, _, _, _, _, _, _, _, hf, _, _, _, _, _, _, _ => by omega
  | k + 1, fuel + 1, i, tmp, siter, E, tE, O, tO, hf, hh, htmp, hs, hE, hO, htE, htO => by
    have hj : 16 * i < half := by omega
    -- the two source blocks read in this iteration
    have hc0 : (siter.take 16).length = 16 := by simp; omega
    have hc1 : ((siter.drop 16).take 16).length = 16 := by simp; omega
    have hx1 : (zipXor tmp siter) = zipXor tmp (siter.take 16) := zipXor_take tmp siter 16 htmp
    have hl1 : (zipXor tmp (siter.take 16)).length = 16 := by rw [zipXor_length]; omega
    have ht1 : (salsa20_8 (zipXor tmp (siter.take 16))).length = 16 := by rw [salsa20_8_length, hl1]
    have e2k : 2 * (k + 1) = (2 * k + 1) + 1 := by omega
    rw [e2k]
    simp only [chunksW, blockMixYW, evensOdds]
    generalize hT1 : salsa20_8 (zipXor tmp (siter.take 16)) = t1 at ht1
    have hx2 : zipXor t1 (siter.drop 16) = zipXor t1 ((siter.drop 16).take 16) := zipXor_take _ _ 16 ht1
    have hl2 : (zipXor t1 ((siter.drop 16).take 16)).length = 16 := by rw [zipXor_length]; omega
    have ht2 : (salsa20_8 (zipXor t1 ((siter.drop 16).take 16))).length = 16 := by rw [salsa20_8_length, hl2]
    generalize hT2 : salsa20_8 (zipXor t1 ((siter.drop 16).take 16)) = t2 at ht2
    -- unfold one iteration of the model loop
    rw [bmixLoop]
    simp only [hj, if_true]
    rw [hx1, gsalsa _ hl1, hT1, htmp, ht1, hx2, gsalsa _ hl2, hT2]
    -- first slice assignment
    have sE : tE = tE.take 16 ++ tE.drop 16 := (List.take_append_drop 16 tE).symm
    have sO : tO = tO.take 16 ++ tO.drop 16 := (List.take_append_drop 16 tO).symm
    have hs1 : setSlice (E ++ tE ++ (O ++ tO)) (16 * i) (16 * i + 16) t1 =
        E ++ t1 ++ (tE.drop 16 ++ (O ++ tO)) := by
      have : E ++ tE ++ (O ++ tO) = E ++ tE.take 16 ++ (tE.drop 16 ++ (O ++ tO)) := by
        conv => lhs; rw [sE]
        simp only [List.append_assoc]
      rw [this]
      exact setSlice_mid E (tE.take 16) _ t1 _ _ hE (by simp; omega)
    rw [hs1]
    have hs2 : setSlice (E ++ t1 ++ (tE.drop 16 ++ (O ++ tO))) (half + 16 * i) (half + (16 * i + 16)) t2 =
        (E ++ t1) ++ tE.drop 16 ++ ((O ++ t2) ++ tO.drop 16) := by
      have : E ++ t1 ++ (tE.drop 16 ++ (O ++ tO)) =
          (E ++ t1 ++ tE.drop 16 ++ O) ++ tO.take 16 ++ tO.drop 16 := by
        conv => lhs; rw [sO]
        simp only [List.append_assoc]
      rw [this, setSlice_mid _ (tO.take 16) _ t2 (half + 16 * i) (half + (16 * i + 16))
        (by simp; omega) (by simp; omega)]
      simp only [List.append_assoc]
    rw [hs2]
    have e16 : 16 * i + 16 = 16 * (i + 1) := by omega
    rw [e16, List.drop_drop]
    have := bmixLoop_inv half k fuel (i + 1) t2 (siter.drop (16 + 16)) (E ++ t1) (tE.drop 16) (O ++ t2) (tO.drop 16)
      (by omega) (by omega) ht2 (by simp; omega) (by simp; omega) (by simp; omega) (by simp; omega) (by simp; omega)
    rw [this]
    simp only [List.append_assoc, List.drop_drop]

theorem half_eq (r : Nat) : bmix_half_len r = 16 * r := by
  simp [bmix_half_len, Nat.shiftLeft_eq]; omega

theorem blockW_last (r : Nat) (source : List Nat) (hr : 1 ≤ r) (hs : source.length = 32 * r) :
    blockW source (2 * r - 1) = lastK source 16 := by
  unfold blockW lastK
  have e : 16 * (2 * r - 1) = source.length - 16 := by omega
  rw [e, List.take_of_length_le (by simp; omega)]

/-- the general method computes scryptBlockMix (on words), whatever the previous contents of `target` -/
theorem bmixGeneral_eq (r : Nat) (source target : List Nat) (hr : 1 ≤ r)
    (hs : source.length = 32 * r) (ht : target.length = 32 * r) :
    bmixGeneral r source target = blockMixW r source := by
  unfold bmixGeneral blockMixW
  simp only []
  rw [half_eq, map_blockW_eq_chunks, blockW_last r source hr hs]
  have hY : (blockMixYW (chunksW (2 * r) source) (lastK source 16)).length = 2 * r := by
    rw [blockMixYW_length, chunksW_length]
  obtain ⟨he, ho⟩ := evens_eq r _ hY
  rw [he, ho]
  have st : target = [] ++ target.take (16 * r) ++ ([] ++ target.drop (16 * r)) := by simp
  have := bmixLoop_inv (16 * r) r (16 * r) 0 (lastK source 16) source [] (target.take (16 * r)) [] (target.drop (16 * r))
    (by omega) (by omega) (by simp [lastK]; omega) hs rfl rfl (by simp; omega) (by simp; omega)
  rw [← st] at this
  simpa using this

/-- `_bmix_1` computes scryptBlockMix (on words) for r = 1 -/
theorem bmix1_eq (source target : List Nat) (hs : source.length = 32) (ht : target.length = 32) :
    bmix1 source target = blockMixW 1 source := by
  unfold bmix1 blockMixW
  have hB : (source.drop 16).length = 16 := by simp; omega
  have hx1 : zipXor (source.drop 16) source = zipXor (source.drop 16) (source.take 16) := zipXor_take _ _ 16 hB
  have hl1 : (zipXor (source.drop 16) (source.take 16)).length = 16 := by rw [zipXor_length]; simp; omega
  have bl : blockW source (2 * 1 - 1) = source.drop 16 := by
    unfold blockW; exact List.take_of_length_le (by simp; omega)
  have b0 : blockW source 0 = source.take 16 := by unfold blockW; simp
  have b1 : blockW source 1 = source.drop 16 := bl
  simp only [bl, List.range_succ_eq_map, List.range_zero, List.map_cons, List.map_nil, Nat.succ_eq_add_one,
    Nat.zero_add, b0, b1, blockMixYW, List.flatMap_cons, List.flatMap_nil, List.append_nil, Nat.mul_zero,
    List.getD_cons_zero, List.getD_cons_succ]
  rw [hx1, gsalsa _ hl1]
  generalize hT1 : salsa20_8 (zipXor (source.drop 16) (source.take 16)) = t1
  have ht1 : t1.length = 16 := by rw [← hT1, salsa20_8_length, hl1]
  have hl2 : (zipXor t1 (source.drop 16)).length = 16 := by rw [zipXor_length]; omega
  rw [gsalsa _ hl2]
  have s1 : setSlice target 0 16 t1 = t1 ++ target.drop 16 := by
    have : target = [] ++ target.take 16 ++ target.drop 16 := by simp
    conv => lhs; rw [this]
    rw [setSlice_mid [] (target.take 16) _ t1 0 16 rfl (by simp; omega)]; simp
  rw [s1]
  have s2 : setSlice (t1 ++ target.drop 16) 16 (t1 ++ target.drop 16).length (salsa20_8 (zipXor t1 (source.drop 16))) =
      t1 ++ salsa20_8 (zipXor t1 (source.drop 16)) := by
    have : t1 ++ target.drop 16 = t1 ++ target.drop 16 ++ [] := by simp
    conv => lhs; arg 1; rw [this]
    rw [setSlice_mid t1 (target.drop 16) [] _ 16 _ ht1 (by simp)]; simp
  rw [s2]

/-- **(b)** `self.bmix` (fast path for r = 1 included) is scryptBlockMix on words -/
theorem bmix_eq_blockMixW (r : Nat) (source target : List Nat) (hr : 1 ≤ r)
    (hs : source.length = 32 * r) (ht : target.length = 32 * r) :
    bmix r source target = blockMixW r source := by
  unfold bmix
  by_cases h1 : r = 1
  · subst h1; simp only [bmix_fast_path, decide_true, if_true]; exact bmix1_eq source target hs ht
  · simp only [bmix_fast_path, h1, decide_false, Bool.false_eq_true, if_false]
    exact bmixGeneral_eq r source target hr hs ht

/-- the general method agrees with the fast path at r = 1 -/
theorem bmixGeneral_one (source target : List Nat) (hs : source.length = 32) (ht : target.length = 32) :
    bmixGeneral 1 source target = bmix1 source target := by
  rw [bmixGeneral_eq 1 source target (by omega) hs ht, bmix1_eq source target hs ht]

theorem packU32le_eq (ws : List Nat) : packU32le ws = bytesOfWords ws := by
  unfold packU32le bytesOfWords bytesOfWord
  congr 1; funext w
  have e : (0xFF : Nat) = 2 ^ 8 - 1 := rfl
  simp only [e, Nat.and_two_pow_sub_one_eq_mod, Nat.shiftRight_eq_div_pow, Nat.shiftRight_zero]

/-- **(b)** on octets: `bmix`, packed, is `Spec.Scrypt.blockMix` of the packed source -/
theorem bmix_eq_blockmix (r : Nat) (source target : List Nat) (hr : 1 ≤ r)
    (hs : source.length = 32 * r) (ht : target.length = 32 * r) (hw : W32 source) :
    packU32le (bmix r source target) = blockMix r (packU32le source) := by
  rw [packU32le_eq, packU32le_eq, blockMix_bytes r source hw, bmix_eq_blockMixW r source target hr hs ht]

/-! ## 5. `ScryptEngine.smix` = scryptROMix -/

theorem unpackU32le_eq : ∀ (bs : List Nat), Bytes.WF bs → unpackU32le bs = wordsOfBytes bs
  | [], _ => rfl
  | [_], _ => by simp [unpackU32le, wordsOfBytes]
  | [_, _], _ => by simp [unpackU32le, wordsOfBytes]
  | [_, _, _], _ => by simp [unpackU32le, wordsOfBytes]
  | b0 :: b1 :: b2 :: b3 :: rest, hwf => by
    have h0 := hwf b0 (by simp)
    have h1 := hwf b1 (by simp)
    have h2 := hwf b2 (by simp)
    have h3 := hwf b3 (by simp)
    have hr : Bytes.WF rest := fun b hb => hwf b (by simp [hb])
    simp only [unpackU32le, wordsOfBytes, leNat, unpackU32le_eq rest hr]
    congr 1
    bitsimp
    omega

/-- every block of `Y` is a salsa output -/
theorem blockMixYW_mem : ∀ (bl : List (List Nat)) (X : List Nat), X.length = 16 → (∀ b ∈ bl, b.length = 16) →
    ∀ y ∈ blockMixYW bl X, W32 y ∧ y.length = 16
  | [], _, _, _ => by simp [blockMixYW]
  | b :: bl, X, hX, hb => by
    intro y hy
    simp only [blockMixYW, List.mem_cons] at hy
    have hl : (salsa20_8 (zipXor X b)).length = 16 := by
      have h1 := salsa20_8_length (zipXor X b)
      have h2 := zipXor_length X b
      have h3 := hb b (by simp)
      omega
    rcases hy with hy | hy
    · rw [hy]; exact ⟨salsa20_8_w32 _, hl⟩
    · exact blockMixYW_mem bl _ hl (fun c hc => hb c (by simp [hc])) y hy

theorem evensOdds_props : ∀ (Y : List (List Nat)), (∀ y ∈ Y, W32 y ∧ y.length = 16) →
    W32 (evensOdds Y).1 ∧ W32 (evensOdds Y).2 ∧
    (Y.length % 2 = 0 → (evensOdds Y).1.length = 8 * Y.length ∧ (evensOdds Y).2.length = 8 * Y.length)
  | [], _ => by simp [evensOdds, W32_nil]
  | [_], _ => by simp [evensOdds, W32_nil]
  | y0 :: y1 :: rest, h => by
    have ih := evensOdds_props rest (fun y hy => h y (by simp [hy]))
    have h0 := h y0 (by simp)
    have h1 := h y1 (by simp)
    simp only [evensOdds, W32_append, List.length_append, List.length_cons]
    refine ⟨⟨h0.1, ih.1⟩, ⟨h1.1, ih.2.1⟩, ?_⟩
    intro hl
    have := ih.2.2 (by omega)
    omega

theorem blockMixW_props (r : Nat) (ws : List Nat) (hr : 1 ≤ r) (hl : ws.length = 32 * r) :
    W32 (blockMixW r ws) ∧ (blockMixW r ws).length = 32 * r := by
  unfold blockMixW
  simp only []
  rw [map_blockW_eq_chunks]
  have hY : (blockMixYW (chunksW (2 * r) ws) (blockW ws (2 * r - 1))).length = 2 * r := by
    rw [blockMixYW_length, chunksW_length]
  obtain ⟨he, ho⟩ := evens_eq r _ hY
  rw [he, ho]
  have hX : (blockW ws (2 * r - 1)).length = 16 := by
    rw [blockW_last r ws hr hl]; simp [lastK]; omega
  have hch : ∀ (m : Nat) (s : List Nat), s.length = 16 * m → ∀ b ∈ chunksW m s, b.length = 16 := by
    intro m
    induction m with
    | zero => intro s _ b hb; simp [chunksW] at hb
    | succ m ih =>
      intro s hs b hb
      simp only [chunksW, List.mem_cons] at hb
      rcases hb with rfl | hb
      · simp; omega
      · exact ih (s.drop 16) (by simp; omega) b hb
  have hm := blockMixYW_mem (chunksW (2 * r) ws) _ hX (hch (2 * r) ws (by omega))
  obtain ⟨p1, p2, p3⟩ := evensOdds_props _ hm
  have := p3 (by omega)
  rw [hY] at this
  exact ⟨W32_append.2 ⟨p1, p2⟩, by rw [List.length_append]; omega⟩

/-- state of the word-level buffer: 32·r words below 2^32 -/
def Buf (r : Nat) (ws : List Nat) : Prop := W32 ws ∧ ws.length = 32 * r

theorem bmix_buf (r : Nat) (src tgt : List Nat) (hr : 1 ≤ r) (hs : Buf r src) (ht : tgt.length = 32 * r) :
    Buf r (bmix r src tgt) ∧ bytesOfWords (bmix r src tgt) = blockMix r (bytesOfWords src) := by
  rw [bmix_eq_blockMixW r src tgt hr hs.2 ht, blockMix_bytes r src hs.1]
  exact ⟨blockMixW_props r src hr hs.2, rfl⟩

theorem fill_eq (r : Nat) (hr : 1 ≤ r) : ∀ (k : Nat) (ws : List Nat), Buf r ws →
    fillV r k (bytesOfWords ws) = ((vgen r k ws).1.map bytesOfWords, bytesOfWords (vgen r k ws).2) ∧
    (∀ v ∈ (vgen r k ws).1, Buf r v) ∧ Buf r (vgen r k ws).2 ∧ (vgen r k ws).1.length = k
  | 0, ws, h => by simp [fillV, vgen, h]
  | k + 1, ws, h => by
    obtain ⟨hb, he⟩ := bmix_buf r ws ws hr h h.2
    obtain ⟨i1, i2, i3, i4⟩ := fill_eq r hr k (bmix r ws ws) hb
    simp only [fillV, vgen]
    rw [← he, i1]
    refine ⟨rfl, ?_, i3, by simp [i4]⟩
    intro v hv
    simp only [List.mem_cons] at hv
    rcases hv with rfl | hv
    · exact h
    · exact i2 v hv

theorem leNat_word (w : Nat) (tl : List Nat) (h : w < 2 ^ 32) :
    leNat (bytesOfWord w ++ tl) = w + 2 ^ 32 * leNat tl := by
  simp only [bytesOfWord, List.cons_append, List.nil_append, leNat]
  generalize leNat tl = t
  omega

/-- both `integerify` variants, masked with `n - 1`, are `Integerify(X) mod n` as long as `n ≤ 2^32` -/
theorem index_eq (r e : Nat) (X : List Nat) (hr : 1 ≤ r) (he : e ≤ 32) (hX : Buf r X) :
    smix_index (2 ^ e) (Model.Scrypt.integerify (2 ^ e) X) = Spec.Scrypt.integerify r (bytesOfWords X) % 2 ^ e := by
  unfold Spec.Scrypt.integerify
  rw [block_bytesOfWords, blockW_last r X hr hX.2]
  have hlen : (lastK X 16).length = 16 := by have := hX.2; simp [lastK]; omega
  obtain ⟨a0, a1, a2, a3, a4, a5, a6, a7, a8, a9, a10, a11, a12, a13, a14, a15, hL⟩ := len16 _ hlen
  have ha0 : a0 < 2 ^ 32 := by
    have : W32 (lastK X 16) := W32_drop _ hX.1
    rw [hL] at this; exact this a0 (by simp)
  have hib : itemBack 16 X = a0 := by
    unfold itemBack
    have : X.getD (X.length - 16) 0 = (lastK X 16).getD 0 0 := by
      unfold lastK
      simp only [List.getD_eq_getElem?_getD, List.getElem?_drop, Nat.add_zero]
    rw [this, hL]; rfl
  rw [hL, bytesOfWords_cons, leNat_word a0 _ ha0]
  have hsplit : (2:Nat) ^ 32 = 2 ^ e * 2 ^ (32 - e) := by rw [← Nat.pow_add]; congr 1; omega
  have rhs : (a0 + 2 ^ 32 * leNat (bytesOfWords [a1, a2, a3, a4, a5, a6, a7, a8, a9, a10, a11, a12, a13, a14, a15])) % 2 ^ e
      = a0 % 2 ^ e := by
    rw [hsplit, Nat.mul_assoc, Nat.add_mul_mod_self_left]
  rw [rhs]
  unfold smix_index Model.Scrypt.integerify
  rw [Nat.and_two_pow_sub_one_eq_mod]
  by_cases hs : integerify_small (2 ^ e) = true
  · simp only [hs, if_true, integerify_small_back, hib]
  · simp only [hs, Bool.false_eq_true, if_false, integerify_large, integerify_large_back1, hib]
    rw [Nat.shiftLeft_eq, Bits.or_mul _ _ _ ha0, hsplit, Nat.mul_comm (2 ^ e), ← Nat.mul_assoc,
      Nat.add_comm, Nat.add_mul_mod_self_right]

theorem mix_eq (r e : Nat) (hr : 1 ≤ r) (he : e ≤ 32) (V : List (List Nat)) (hV : ∀ v ∈ V, Buf r v)
    (hVl : V.length = 2 ^ e) :
    ∀ (k : Nat) (X : List Nat), Buf r X →
    mixV r (2 ^ e) (V.map bytesOfWords) k (bytesOfWords X) = bytesOfWords (mixLoop r (2 ^ e) V k X)
  | 0, X, _ => rfl
  | k + 1, X, hX => by
    simp only [mixV, mixLoop]
    have hj : smix_index (2 ^ e) (Model.Scrypt.integerify (2 ^ e) X) < V.length := by
      rw [index_eq r e X hr he hX, hVl]; exact Nat.mod_lt _ (Nat.two_pow_pos e)
    rw [← index_eq r e X hr he hX, getD_map_nil bytesOfWords bytesOfWords_nil, xorBytes_bytesOfWords]
    generalize smix_index (2 ^ e) (Model.Scrypt.integerify (2 ^ e) X) = j at hj
    have hvj : Buf r (V.getD j []) := by
      rw [List.getD_eq_getElem?_getD, List.getElem?_eq_getElem hj]
      exact hV _ (List.getElem_mem hj)
    have hres : Buf r (zipXor X (V.getD j [])) :=
      ⟨zipXor_w32 _ _ hX.1 hvj.1, by rw [zipXor_length, hX.2, hvj.2]; simp⟩
    obtain ⟨hb, hbe⟩ := bmix_buf r _ X hr hres hX.2
    rw [← hbe]
    exact mix_eq r e hr he V hV hVl k _ hb

/-- **(c)** `smix` is scryptROMix for every N = 2^e with 1 ≤ 2^e ≤ 2^32, on every well-formed input
    of 128·r octets -/
theorem smix_eq_romix (r e : Nat) (input : List Nat) (hr : 1 ≤ r) (he : e ≤ 32)
    (hwf : Bytes.WF input) (hlen : input.length = 128 * r) :
    smix (2 ^ e) r input = roMix r (2 ^ e) input := by
  unfold smix roMix
  simp only []
  rw [packU32le_eq, unpackU32le_eq input hwf]
  have hb : Buf r (wordsOfBytes input) := ⟨wordsOfBytes_w32 input hwf, by rw [wordsOfBytes_length, hlen]; omega⟩
  have hin : input = bytesOfWords (wordsOfBytes input) :=
    (bytesOfWords_wordsOfBytes input hwf (by omega)).symm
  obtain ⟨f1, f2, f3, f4⟩ := fill_eq r hr (2 ^ e) (wordsOfBytes input) hb
  conv => rhs; rw [hin]
  rw [f1]
  exact (mix_eq r e hr he _ f2 f4 (2 ^ e) _ f3).symm

/-! ## 6. `ScryptEngine.run` = scrypt -/

theorem compress_size (H M : Array UInt32) : (Spec.SHA256.compress H M).size = 8 := by
  simp [Spec.SHA256.compress]

theorem foldl_compress_size : ∀ (bl : List (Array UInt32)) (H : Array UInt32), H.size = 8 →
    (bl.foldl Spec.SHA256.compress H).size = 8
  | [], _, h => h
  | b :: bl, H, _ => by rw [List.foldl_cons]; exact foldl_compress_size bl _ (compress_size H b)

theorem fromWords_props : ∀ (ws : List UInt32),
    (Spec.SHA256.fromWords ws).length = 4 * ws.length ∧ Bytes.WF (Spec.SHA256.fromWords ws)
  | [] => ⟨rfl, by intro b hb; cases hb⟩
  | w :: ws => by
    obtain ⟨h1, h2⟩ := fromWords_props ws
    have e : Spec.SHA256.fromWords (w :: ws) =
        [(w >>> 24).toUInt8.toNat, (w >>> 16).toUInt8.toNat, (w >>> 8).toUInt8.toNat, w.toUInt8.toNat] ++
          Spec.SHA256.fromWords ws := by simp [Spec.SHA256.fromWords]
    rw [e]
    refine ⟨by simp [h1]; omega, ?_⟩
    intro b hb
    simp only [List.mem_append, List.mem_cons, List.not_mem_nil, or_false] at hb
    rcases hb with (rfl | rfl | rfl | rfl) | hb
    · exact UInt8.toNat_lt _
    · exact UInt8.toNat_lt _
    · exact UInt8.toNat_lt _
    · exact UInt8.toNat_lt _
    · exact h2 b hb

theorem sha256_props (m : List Nat) : (Spec.SHA256.sha256 m).length = 32 ∧ Bytes.WF (Spec.SHA256.sha256 m) := by
  unfold Spec.SHA256.sha256
  obtain ⟨h1, h2⟩ := fromWords_props (Spec.SHA256.hashBlocks Spec.SHA256.H0_256 m).toList
  refine ⟨?_, h2⟩
  rw [h1, Array.length_toList]
  unfold Spec.SHA256.hashBlocks
  rw [foldl_compress_size _ _ rfl]

/-- PBKDF2-HMAC-SHA256 with c = 1 returns exactly `dkLen` octets -/
theorem pbkdf2_props (P S : List Nat) (dkLen : Nat) :
    (Spec.Scrypt.pbkdf2_hmac_sha256 P S 1 dkLen).length = dkLen ∧
    Bytes.WF (Spec.Scrypt.pbkdf2_hmac_sha256 P S 1 dkLen) := by
  unfold Spec.Scrypt.pbkdf2_hmac_sha256 Spec.Pbkdf.pbkdf2
  simp only []
  have hF : ∀ i, (Spec.Pbkdf.F (Spec.Hmac.hmac Spec.SHA256.sha256 64 P) S 1 i).length = 32 ∧
      Bytes.WF (Spec.Pbkdf.F (Spec.Hmac.hmac Spec.SHA256.sha256 64 P) S 1 i) := by
    intro i
    simp only [Spec.Pbkdf.F, Spec.Pbkdf.fLoop, Spec.Hmac.hmac]
    exact sha256_props _
  have hlen : ∀ (l : List Nat), (l.flatMap fun i => Spec.Pbkdf.F (Spec.Hmac.hmac Spec.SHA256.sha256 64 P) S 1 i).length
      = 32 * l.length := by
    intro l
    induction l with
    | nil => rfl
    | cons a l ih => rw [List.flatMap_cons, List.length_append, ih, (hF a).1, List.length_cons]; omega
  refine ⟨?_, ?_⟩
  · rw [List.length_take, hlen, List.length_range']
    omega
  · intro b hb
    have hb := List.mem_of_mem_take hb
    rw [List.mem_flatMap] at hb
    obtain ⟨i, _, hb⟩ := hb
    exact (hF i).2 b hb

theorem WF_take {bs : List Nat} (k) (h : Bytes.WF bs) : Bytes.WF (bs.take k) := fun b hb => h b (List.mem_of_mem_take hb)
theorem WF_drop {bs : List Nat} (k) (h : Bytes.WF bs) : Bytes.WF (bs.drop k) := fun b hb => h b (List.mem_of_mem_drop hb)

theorem flatMap_congr' {α β} {f g : α → List β} : ∀ {l : List α}, (∀ a ∈ l, f a = g a) → l.flatMap f = l.flatMap g
  | [], _ => rfl
  | a :: l, h => by
    rw [List.flatMap_cons, List.flatMap_cons, h a (by simp), flatMap_congr' (fun b hb => h b (by simp [hb]))]

theorem pyRange0_eq (m p : Nat) (hm : 0 < m) : pyRange0 (m * p) m = (List.range p).map (· * m) := by
  unfold pyRange0
  congr 2
  have : m * p + m - 1 = m - 1 + m * p := by omega
  rw [this, Nat.add_mul_div_left _ _ hm, Nat.div_eq_of_lt (by omega)]; omega

/-- **(c)** `ScryptEngine(n, r, p).run(secret, salt, keylen)` is RFC 7914 scrypt, for every
    N = 2^e ≤ 2^32, r ≥ 1, p ≥ 1 and every secret, salt, keylen -/
theorem run_eq_rfc7914 (e r p : Nat) (secret salt : List Nat) (keylen : Nat)
    (he : e ≤ 32) (hr : 1 ≤ r) (hp : 1 ≤ p) :
    run (2 ^ e) r p secret salt keylen = scrypt secret salt (2 ^ e) r p keylen := by
  unfold run scrypt
  simp only []
  have hsb : smix_bytes r = 128 * r := by simp [smix_bytes, Nat.shiftLeft_eq]; omega
  have hiv : iv_bytes r p = p * 128 * r := by
    simp only [iv_bytes, hsb]; ac_rfl
  have hpb : Model.Scrypt.pbkdf2_hmac_sha256 = Spec.Scrypt.pbkdf2_hmac_sha256 := rfl
  rw [hiv, hpb]
  congr 1
  obtain ⟨hl, hwf⟩ := pbkdf2_props secret salt (p * 128 * r)
  generalize Spec.Scrypt.pbkdf2_hmac_sha256 secret salt 1 (p * 128 * r) = B at hl hwf
  have hchunk : ∀ i, i < p → smix (2 ^ e) r ((B.drop (128 * r * i)).take (128 * r)) =
      roMix r (2 ^ e) ((B.drop (128 * r * i)).take (128 * r)) := by
    intro i hi
    apply smix_eq_romix r e _ hr he (WF_take _ (WF_drop _ hwf))
    rw [List.length_take, List.length_drop, hl]
    have : 128 * r * i + 128 * r ≤ p * 128 * r := by
      calc 128 * r * i + 128 * r = 128 * r * (i + 1) := by rw [Nat.mul_succ]
        _ ≤ 128 * r * p := Nat.mul_le_mul_left _ hi
        _ = p * 128 * r := by ac_rfl
    omega
  have hflat : (List.range p).flatMap (fun i => roMix r (2 ^ e) ((B.drop (128 * r * i)).take (128 * r))) =
      (List.range p).flatMap (fun i => smix (2 ^ e) r ((B.drop (128 * r * i)).take (128 * r))) := by
    apply flatMap_congr'; intro i hi; exact (hchunk i (List.mem_range.1 hi)).symm
  rw [hflat]
  by_cases h1 : p = 1
  · subst h1
    simp only [if_true, List.range_succ_eq_map, List.range_zero, List.map_nil, List.flatMap_cons, List.flatMap_nil,
      List.append_nil, Nat.mul_zero, List.drop_zero]
    rw [List.take_of_length_le (by omega)]
  · simp only [h1, if_false, hsb]
    have : p * 128 * r = 128 * r * p := by ac_rfl
    rw [this] at hl
    rw [this, pyRange0_eq (128 * r) p (by omega), List.flatMap_map]
    apply flatMap_congr'; intro i _
    rw [Nat.mul_comm i (128 * r)]

/-! ## 7. `validate` -/


theorem testBit_top (x k : Nat) (h1 : 2 ^ k ≤ x) (h2 : x < 2 ^ (k + 1)) : x.testBit k = true := by
  rw [Nat.testBit_eq_decide_div_mod_eq]
  have : x / 2 ^ k = 1 := by
    apply Nat.div_eq_of_lt_le
    · simpa using h1
    · rw [Nat.pow_succ] at h2; omega
  simp [this]

/-- `m & (m - 1) == 0` characterises the powers of two among the positive integers -/
theorem and_pred_eq_zero_iff (m : Nat) (hm : 1 ≤ m) : m &&& (m - 1) = 0 ↔ ∃ k, m = 2 ^ k := by
  constructor
  · intro h
    refine ⟨m.log2, ?_⟩
    have h1 := Nat.log2_self_le (n := m) (by omega)
    have h2 := Nat.lt_log2_self (n := m)
    by_cases heq : m = 2 ^ m.log2
    · exact heq
    · exfalso
      have hb1 := testBit_top m m.log2 h1 h2
      have hb2 := testBit_top (m - 1) m.log2 (by omega) (by omega)
      have : (m &&& (m - 1)).testBit m.log2 = true := by rw [Nat.testBit_and, hb1, hb2]; rfl
      rw [h] at this
      simp at this
  · rintro ⟨k, rfl⟩
    rw [Nat.and_two_pow_sub_one_eq_mod, Nat.mod_self]

/-- **(d)** `validate(n, r, p)` returns (instead of raising ValueError) exactly when
    r ≥ 1, p ≥ 1, r·p ≤ MAX_RP = 2^30 - 1 and n = 2^k for some k ≥ 1 -/
theorem validate_spec (n r p : Int) :
    validate n r p = .ok () ↔
      (1 ≤ r ∧ 1 ≤ p ∧ r * p ≤ 2 ^ 30 - 1 ∧ ∃ k : Nat, 1 ≤ k ∧ n = 2 ^ k) := by
  unfold validate validate_raises MAX_RP
  have hc : ((1073741823 : Nat) : Int) = 1073741823 := rfl
  simp only [List.any_cons, List.any_nil, id, Bool.or_false, hc]
  have hpow : (n < 2 ∨ (n.toNat &&& (n.toNat - 1)) ≠ 0) ↔ ¬ ∃ k : Nat, 1 ≤ k ∧ n = 2 ^ k := by
    constructor
    · rintro (h | h) ⟨k, hk, rfl⟩
      · have h1 : 2 ^ 1 ≤ 2 ^ k := Nat.pow_le_pow_right (by decide) hk
        have h2 : ((2:Int) ^ k) = ((2 ^ k : Nat) : Int) := by simp
        omega
      · apply h
        have : ((2:Int) ^ k).toNat = 2 ^ k := by
          have : ((2:Int) ^ k) = ((2 ^ k : Nat) : Int) := by simp
          rw [this, Int.toNat_natCast]
        rw [this]
        exact (and_pred_eq_zero_iff _ (Nat.one_le_two_pow)).2 ⟨k, rfl⟩
    · intro h
      by_cases h2 : n < 2
      · exact Or.inl h2
      · right
        intro hz
        apply h
        obtain ⟨k, hk⟩ := (and_pred_eq_zero_iff n.toNat (by omega)).1 hz
        have hn : n = ((2 ^ k : Nat) : Int) := by rw [← hk]; omega
        refine ⟨k, ?_, by rw [hn]; simp⟩
        cases k with
        | zero => simp at hn; omega
        | succ k => omega
  by_cases c1 : r < 1
  · simp [c1]; omega
  by_cases c2 : p < 1
  · simp [c1, c2]; omega
  by_cases c3 : r * p > 1073741823
  · simp [c1, c2, c3]; omega
  by_cases c4 : (n < 2 ∨ (n.toNat &&& (n.toNat - 1)) ≠ 0)
  · have := hpow.1 c4
    rcases c4 with c4 | c4 <;> simp [c1, c2, c3, c4, this]
  · have h4 := c4
    rw [hpow] at h4
    simp only [Classical.not_not] at h4
    have c4a : ¬ n < 2 := fun h => c4 (Or.inl h)
    have c4b : ¬ (n.toNat &&& (n.toNat - 1)) ≠ 0 := fun h => c4 (Or.inr h)
    simp only [c1, c2, c3, c4a, c4b, decide_false, Bool.or_false, Bool.false_eq_true, if_false, true_iff]
    exact ⟨by omega, by omega, by omega, h4⟩

/-! ## 8. relation to the RFC parameter domain; findings -/

/-- passlib's `r * p <= MAX_RP` is RFC 7914's `p ≤ ((2^32-1) * 32) / (128 * r)` -/
theorem rp_bound_eq_rfc (r p : Nat) (hr : 1 ≤ r) :
    r * p ≤ MAX_RP ↔ p ≤ ((2 ^ 32 - 1) * 32) / (128 * r) := by
  rw [Nat.le_div_iff_mul_le (by omega)]
  have : p * (128 * r) = 128 * (r * p) := by ac_rfl
  rw [this]; unfold MAX_RP
  generalize r * p = q
  omega

/-- on natural numbers: `validate` accepts exactly the RFC 7914 parameter sets, *except* that it does
    not check `N < 2^(128·r/8)` -/
theorem validate_ok_iff_paramsOK (n r p : Nat) :
    (validate n r p = .ok () ∧ n < 2 ^ (128 * r / 8)) ↔ ParamsOK n r p := by
  rw [validate_spec]
  unfold ParamsOK
  constructor
  · rintro ⟨⟨h1, h2, h3, k, hk, hn⟩, hlt⟩
    have h1' : 1 ≤ r := by omega
    have h3' : r * p ≤ MAX_RP := by
      unfold MAX_RP
      have : ((r * p : Nat) : Int) ≤ 2 ^ 30 - 1 := by simpa using h3
      omega
    refine ⟨⟨k, hk, ?_⟩, hlt, h1', by omega, (rp_bound_eq_rfc r p h1').1 h3'⟩
    have : (n : Int) = ((2 ^ k : Nat) : Int) := by rw [hn]; simp
    omega
  · rintro ⟨⟨k, hk, hn⟩, hlt, h1, h2, h3⟩
    have h3' := (rp_bound_eq_rfc r p h1).2 h3
    unfold MAX_RP at h3'
    refine ⟨⟨by omega, by omega, ?_, k, hk, by rw [hn]; simp⟩, hlt⟩
    have : ((r * p : Nat) : Int) ≤ 1073741823 := by omega
    simpa using this

/-- FINDING (minor): the documented limit `n < 2**(16*r)` is not enforced by `validate` -/
theorem validate_accepts_outside_rfc : validate 65536 1 1 = .ok () ∧ ¬ ParamsOK 65536 1 1 := by
  refine ⟨by decide, ?_⟩
  rintro ⟨_, h, _⟩
  exact absurd h (by decide)

/-- `Integerify` on the word buffer: the first two words of the last block (mod 2^64) -/
theorem integerify_words (r : Nat) (X : List Nat) (hr : 1 ≤ r) (hX : Buf r X) :
    Spec.Scrypt.integerify r (bytesOfWords X) % 2 ^ 64 = itemBack 16 X + 2 ^ 32 * itemBack 15 X := by
  unfold Spec.Scrypt.integerify
  rw [block_bytesOfWords, blockW_last r X hr hX.2]
  have hlen : (lastK X 16).length = 16 := by have := hX.2; simp [lastK]; omega
  obtain ⟨a0, a1, a2, a3, a4, a5, a6, a7, a8, a9, a10, a11, a12, a13, a14, a15, hL⟩ := len16 _ hlen
  have hw : W32 (lastK X 16) := W32_drop _ hX.1
  rw [hL] at hw
  have ha0 : a0 < 2 ^ 32 := hw a0 (by simp)
  have ha1 : a1 < 2 ^ 32 := hw a1 (by simp)
  have hib (k : Nat) (hk : k < 16) : itemBack (16 - k) X = (lastK X 16).getD k 0 := by
    have := hX.2
    unfold itemBack lastK
    simp only [List.getD_eq_getElem?_getD, List.getElem?_drop]
    congr 2; omega
  have h16 := hib 0 (by omega)
  have h15 := hib 1 (by omega)
  rw [hL] at h16 h15
  simp only [Nat.sub_zero, List.getD_cons_zero, List.getD_cons_succ, Nat.reduceSub] at h16 h15
  rw [h16, h15, hL, bytesOfWords_cons, leNat_word a0 _ ha0, bytesOfWords_cons, leNat_word a1 _ ha1]
  generalize leNat _ = t
  omega

instance (ws : List Nat) : Decidable (W32 ws) := by unfold W32; infer_instance

/-- FINDING: for n > 2^32 `__init__` installs `ig1(X) | (ig2(X) << 32)` with `ig2 = itemgetter(-17)`, the
    last word of the *previous* block, where RFC 7914 needs `itemgetter(-15)`; the selected index then
    differs from `Integerify(X) mod n`.  Witness: r = 1, n = 2^33, X[-17] = 1, all other words 0. -/
theorem integerify_large_differs :
    let X := List.replicate 15 0 ++ [1] ++ List.replicate 16 0
    Buf 1 X ∧ smix_index (2 ^ 33) (Model.Scrypt.integerify (2 ^ 33) X) = 2 ^ 32 ∧
    Spec.Scrypt.integerify 1 (bytesOfWords X) % 2 ^ 33 = 0 := by
  refine ⟨⟨by decide, by decide⟩, by decide +kernel, by decide +kernel⟩

/-- every parameter set accepted by `validate` with n ≤ 2^32: the builtin engine computes RFC 7914 scrypt -/
theorem run_eq_rfc7914_of_validate (n r p : Nat) (secret salt : List Nat) (keylen : Nat)
    (hv : validate n r p = .ok ()) (hn : n ≤ 2 ^ 32) :
    run n r p secret salt keylen = scrypt secret salt n r p keylen := by
  obtain ⟨h1, h2, _, k, _, hk⟩ := (validate_spec n r p).1 hv
  have hn' : n = 2 ^ k := by
    have : (n : Int) = ((2 ^ k : Nat) : Int) := by rw [hk]; simp
    omega
  subst hn'
  have hk32 : k ≤ 32 := (Nat.pow_le_pow_iff_right (by decide)).1 hn
  exact run_eq_rfc7914 k r p secret salt keylen hk32 (by omega) (by omega)

/-- the derived sizes of `ScryptEngine.__init__` -/
theorem engine_sizes (r p : Nat) :
    smix_bytes r = 128 * r ∧ iv_bytes r p = 128 * r * p ∧ bmix_len r = 32 * r ∧ bmix_half_len r = 16 * r ∧
    struct_items r * struct_item_bytes = smix_bytes r ∧ struct_little_endian = true := by
  simp only [smix_bytes, iv_bytes, bmix_len, bmix_half_len, struct_items, struct_item_bytes, Nat.shiftLeft_eq]
  have e : r * 2 ^ 7 = 128 * r := by omega
  refine ⟨by omega, by rw [e], by omega, by omega, by omega, rfl⟩

end Lemmas.Scrypt
