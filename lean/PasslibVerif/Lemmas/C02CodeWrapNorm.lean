import PasslibVerif.Lemmas.C02CodeWrap
/-
Lemmas for Props/C02CodeWrap, part 3: `_norm_digest_args` under EVERY combination of the backend flags returns a (secret, ident) pair
on which the specification has the same value as on the caller's (secret, ident).
-/
namespace Lemmas.C02CodeWrap
open Py Model.Code.Wrap
open Model.Verify (Secret MAX_PASSWORD_SIZE)
open Model.Code.Des (encodeSecret hexlify decodeAscii encodeAscii slice)
open Model.Formats (IDENT_2 IDENT_2A IDENT_2B IDENT_2X IDENT_2Y)
open Model.Handler (Str ofString)

/-- the part of `Spec.Formats.bcrypt` after the ident has been looked at -/
def core (nul : Bool) (cost : Nat) (salt22 pwd : List Nat) : Option (List Nat) :=
  (Spec.Formats.bcrypt64Decode salt22).bind fun raw =>
    if salt22.length ≠ 22 ∨ cost < 4 ∨ cost > 31 then none
    else some (Spec.Formats.bcrypt64 (Spec.Bcrypt.bcrypt nul cost (raw.take 16) pwd))

theorem spec_eq_core (id : List Nat) (cost : Nat) (salt pwd : List Nat) :
    Spec.Formats.bcrypt id cost salt pwd = (Spec.Formats.bcryptNul id).bind fun nul => core nul cost salt pwd := rfl

theorem core_repeat (cost : Nat) (salt pwd : List Nat) (hne : pwd ≠ []) : core true cost salt (repeatString pwd 72) = core false cost salt pwd := by
  unfold core; simp only [spec_bcrypt_repeat cost _ pwd hne]

theorem core_empty (cost : Nat) (salt : List Nat) : core true cost salt [] = core false cost salt [] := by
  unfold core; simp only [spec_bcrypt_empty]

theorem nul_2 : Spec.Formats.bcryptNul (inner IDENT_2) = some false := by decide
theorem nul_2a : Spec.Formats.bcryptNul (inner IDENT_2A) = some true := by decide
theorem nul_2b : Spec.Formats.bcryptNul (inner IDENT_2B) = some true := by decide
theorem nul_2y : Spec.Formats.bcryptNul (inner IDENT_2Y) = some true := by decide

/-- admissible flags: the fallback ident is one of the two values `_finalize_backend_mixin` can leave (`$2a$`, the default, or `$2b$`) -/
def FlagsOK (fl : Flags) : Prop := fl.fallbackIdent = IDENT_2A ∨ fl.fallbackIdent = IDENT_2B

theorem fb_mem (fl : Flags) (h : FlagsOK fl) : fl.fallbackIdent ∈ okIdents := by
  rcases h with h | h <;> rw [h] <;> decide

theorem fb_nul (fl : Flags) (h : FlagsOK fl) : Spec.Formats.bcryptNul (inner fl.fallbackIdent) = some true := by
  rcases h with h | h <;> rw [h] <;> decide

/-- the result of the argument preparation on an admissible secret -/
theorem norm_ok (fl : Flags) (hfl : FlagsOK fl) (cls : Cls) (s : Secret) (b : Bytes) (ident : Str) (new : Bool)
    (hb : encodeSecret s = .ok b) (hwf : Bytes.WF b) (hlen : b.length ≤ MAX_PASSWORD_SIZE) (hnul : 0 ∉ b)
    (htr : new = true → checkTruncatePolicy cls b = .ok ()) (hid : ident ∈ okIdents) :
    ∃ b' id', normDigestArgs fl cls s ident new = .ok (b', id') ∧ Bytes.WF b' ∧ id' ∈ okIdents ∧
      ∀ cost salt, Spec.Formats.bcrypt (inner id') cost salt b' = Spec.Formats.bcrypt (inner ident) cost salt b := by
  have hsz : ¬ b.length > MAX_PASSWORD_SIZE := by omega
  have hcon : b.contains 0 = false := by simpa using hnul
  have htr' : (if new = true then checkTruncatePolicy cls b else Except.ok ()) = .ok () := by
    cases new with
    | false => rfl
    | true => simpa using htr rfl
  -- the `secret[:72]` of the wraparound workaround
  have hb1 : ∃ b1, (if fl.has2aWraparoundBug = true ∧ b.length ≥ 255 then slice b 0 72 else b) = b1 ∧ Bytes.WF b1 ∧
      ∀ id cost salt, Spec.Formats.bcrypt id cost salt b1 = Spec.Formats.bcrypt id cost salt b := by
    by_cases hw : fl.has2aWraparoundBug = true ∧ b.length ≥ 255
    · refine ⟨b.take 72, by simp only [hw, and_self, if_true, slice0], fun x hx => hwf x (List.mem_of_mem_take hx), ?_⟩
      intro id cost salt
      exact Lemmas.C01DesBcrypt.spec_formats_bcrypt_take72 id cost salt b
    · exact ⟨b, by simp only [hw, if_false], hwf, fun _ _ _ => rfl⟩
  obtain ⟨b1, hb1e, hwf1, hspec1⟩ := hb1
  unfold normDigestArgs
  simp only [hb, hsz, if_false, htr', hcon, Bool.false_eq_true, hb1e]
  simp only [okIdents, List.mem_cons, List.not_mem_nil, or_false] at hid
  rcases hid with rfl | rfl | rfl | rfl
  · -- $2$
    have n1 : IDENT_2 ≠ IDENT_2A := by decide
    have n2 : IDENT_2 ≠ IDENT_2B := by decide
    have n3 : IDENT_2 ≠ IDENT_2Y := by decide
    simp only [n1, n2, n3, if_false, if_true]
    by_cases hl : fl.lacks20Support = true
    · simp only [hl, if_true]
      by_cases hne : b1 = []
      · subst hne
        refine ⟨[], fl.fallbackIdent, by simp, hwf1, fb_mem fl hfl, ?_⟩
        intro cost salt
        rw [← hspec1, spec_eq_core, spec_eq_core, fb_nul fl hfl, nul_2]
        exact core_empty cost salt
      · refine ⟨repeatString b1 72, fl.fallbackIdent, by simp [hne], ?_, fb_mem fl hfl, ?_⟩
        · intro x hx; exact hwf1 x (repeatString_mem b1 72 x hx)
        · intro cost salt
          rw [← hspec1, spec_eq_core, spec_eq_core, fb_nul fl hfl, nul_2]
          exact core_repeat cost salt b1 hne
    · simp only [hl, Bool.false_eq_true, if_false]
      exact ⟨b1, IDENT_2, rfl, hwf1, by decide, fun cost salt => hspec1 _ cost salt⟩
  · -- $2a$
    simp only [if_true]
    exact ⟨b1, IDENT_2A, rfl, hwf1, by decide, fun cost salt => hspec1 _ cost salt⟩
  · -- $2b$
    have n1 : IDENT_2B ≠ IDENT_2A := by decide
    simp only [n1, if_false, if_true]
    by_cases hl : fl.lacks2bSupport = true
    · simp only [hl, if_true]
      refine ⟨b1, fl.fallbackIdent, rfl, hwf1, fb_mem fl hfl, ?_⟩
      intro cost salt
      rw [← hspec1, spec_eq_core, spec_eq_core, fb_nul fl hfl, nul_2b]
    · simp only [hl, Bool.false_eq_true, if_false]
      exact ⟨b1, IDENT_2B, rfl, hwf1, by decide, fun cost salt => hspec1 _ cost salt⟩
  · -- $2y$
    have n1 : IDENT_2Y ≠ IDENT_2A := by decide
    have n2 : IDENT_2Y ≠ IDENT_2B := by decide
    simp only [n1, n2, if_false, if_true]
    by_cases hl : fl.lacks2ySupport = true
    · simp only [hl, if_true]
      refine ⟨b1, fl.fallbackIdent, rfl, hwf1, fb_mem fl hfl, ?_⟩
      intro cost salt
      rw [← hspec1, spec_eq_core, spec_eq_core, fb_nul fl hfl, nul_2y]
    · simp only [hl, Bool.false_eq_true, if_false]
      exact ⟨b1, IDENT_2Y, rfl, hwf1, by decide, fun cost salt => hspec1 _ cost salt⟩

end Lemmas.C02CodeWrap
