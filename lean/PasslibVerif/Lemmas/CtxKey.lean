import PasslibVerif.Model.CtxKey
namespace Lemmas.CtxKey
open Py Model.CtxKey

theorem dots_id : ∀ p : Str, DOT ∉ p → dotsToDunder p = p
  | [], _ => rfl
  | c :: rest, h => by
    have hc : c ≠ DOT := fun e => h (by simp [e])
    simp only [dotsToDunder, hc, if_false, dots_id rest (fun hm => h (by simp [hm]))]

theorem dots_append : ∀ a b : Str, dotsToDunder (a ++ b) = dotsToDunder a ++ dotsToDunder b
  | [], _ => rfl
  | c :: rest, b => by
    simp only [List.cons_append, dotsToDunder, dots_append rest b]
    split <;> simp

/-- splitting a final part: nothing to split -/
theorem split_last : ∀ (p acc : Str), noDunder p = true → splitDunder p acc = [acc.reverse ++ p]
  | [], acc, _ => by simp [splitDunder]
  | [c], acc, _ => by simp [splitDunder]
  | a :: b :: rest, acc, h => by
    simp only [noDunder, Bool.and_eq_true, Bool.not_eq_true', decide_eq_false_iff_not] at h
    simp only [splitDunder, h.1, if_false]
    rw [split_last (b :: rest) (a :: acc) h.2]
    simp

/-- splitting `part ++ "__" ++ rest` peels off the part -/
theorem split_part : ∀ (p acc rest : Str), noDunder p = true → p.getLast? ≠ some US →
    splitDunder (p ++ US :: US :: rest) acc = (acc.reverse ++ p) :: splitDunder rest []
  | [], acc, rest, _, _ => by simp [splitDunder]
  | [c], acc, rest, _, hl => by
    have hc : c ≠ US := by simpa using hl
    simp only [List.cons_append, List.nil_append, splitDunder]
    simp [hc]
  | a :: b :: p, acc, rest, h, hl => by
    simp only [noDunder, Bool.and_eq_true, Bool.not_eq_true', decide_eq_false_iff_not] at h
    have hl' : (b :: p).getLast? ≠ some US := by simpa [List.getLast?_cons_cons] using hl
    simp only [List.cons_append, splitDunder, h.1, if_false]
    have := split_part (b :: p) (a :: acc) rest h.2 hl'
    simp only [List.cons_append] at this
    rw [this]; simp

theorem part_nonempty (p : Str) (h : PartOK p) : p.isEmpty = false := by
  cases p with
  | nil => exact absurd rfl h.1
  | cons _ _ => rfl

theorem us_ne_dot : US ≠ DOT := by decide

/-- `_parse_config_key(_render_config_key(key)) == key` for every well-formed key -/
theorem parse_render_key (k : Key) (hk : KeyOK k) : parseKey (renderKey k) = .ok k := by
  obtain ⟨ho, hc, hs⟩ := hk
  obtain ⟨cat, scheme, option⟩ := k
  simp only at ho hc hs
  have hctx : PartOK sContext := ⟨by decide, by decide, by decide, by decide⟩
  cases cat with
  | none =>
    cases scheme with
    | none =>
      simp only [renderKey, parseKey, dots_id option ho.2.1, split_last option [] ho.2.2.1]
      simp [part_nonempty option ho]
    | some s =>
      obtain ⟨hso, hsne⟩ := hs s rfl
      have e : renderKey ⟨none, some s, option⟩ = s ++ US :: US :: option := by
        simp [renderKey, part_nonempty s hso]
      have hnd : DOT ∉ s ++ US :: US :: option := by
        simp only [List.mem_append, List.mem_cons, not_or]
        exact ⟨hso.2.1, fun h => us_ne_dot h.symm, fun h => us_ne_dot h.symm, ho.2.1⟩
      rw [e]; unfold parseKey
      rw [dots_id _ hnd, split_part s [] option hso.2.2.1 hso.2.2.2, split_last option [] ho.2.2.1]
      simp [part_nonempty s hso, part_nonempty option ho, hsne]
  | some c =>
    obtain ⟨hco, hcne⟩ := hc c rfl
    cases scheme with
    | none =>
      have e : renderKey ⟨some c, none, option⟩ = c ++ US :: US :: (sContext ++ US :: US :: option) := by
        simp [renderKey, part_nonempty c hco]
      have hnd : DOT ∉ c ++ US :: US :: (sContext ++ US :: US :: option) := by
        simp only [List.mem_append, List.mem_cons, not_or]
        exact ⟨hco.2.1, fun h => us_ne_dot h.symm, fun h => us_ne_dot h.symm, hctx.2.1, fun h => us_ne_dot h.symm,
          fun h => us_ne_dot h.symm, ho.2.1⟩
      rw [e]; unfold parseKey
      rw [dots_id _ hnd, split_part c [] _ hco.2.2.1 hco.2.2.2, split_part sContext [] option hctx.2.2.1 hctx.2.2.2,
        split_last option [] ho.2.2.1]
      simp [part_nonempty c hco, part_nonempty option ho, hcne, part_nonempty sContext hctx]
    | some s =>
      obtain ⟨hso, hsne⟩ := hs s rfl
      have e : renderKey ⟨some c, some s, option⟩ = c ++ US :: US :: (s ++ US :: US :: option) := by
        simp [renderKey, part_nonempty c hco, part_nonempty s hso]
      have hnd : DOT ∉ c ++ US :: US :: (s ++ US :: US :: option) := by
        simp only [List.mem_append, List.mem_cons, not_or]
        exact ⟨hco.2.1, fun h => us_ne_dot h.symm, fun h => us_ne_dot h.symm, hso.2.1, fun h => us_ne_dot h.symm,
          fun h => us_ne_dot h.symm, ho.2.1⟩
      rw [e]; unfold parseKey
      rw [dots_id _ hnd, split_part c [] _ hco.2.2.1 hco.2.2.2, split_part s [] option hso.2.2.1 hso.2.2.2,
        split_last option [] ho.2.2.1]
      simp [part_nonempty c hco, part_nonempty option ho, part_nonempty s hso, hcne, hsne]

/-! ### update semantics -/
theorem lookup_setK_self {β} (k : Key) (v : β) : ∀ l : List (Key × β), lookupK k (setK k v l) = some v
  | [] => by simp [setK, lookupK]
  | (k', v') :: rest => by
    by_cases h : k' = k
    · subst h; simp [setK, lookupK]
    · simp [setK, lookupK, h, lookup_setK_self k v rest]

theorem lookup_setK_other {β} (k k2 : Key) (v : β) (hne : k2 ≠ k) : ∀ l : List (Key × β), lookupK k2 (setK k v l) = lookupK k2 l
  | [] => by simp [setK, lookupK, hne.symm]
  | (k', v') :: rest => by
    by_cases h : k' = k
    · subst h; simp [setK, lookupK, hne.symm]
    · simp only [setK, h, if_false, lookupK, lookup_setK_other k k2 v hne rest]

/-- update() replaces exactly the given keys: a key absent from the change keeps its value -/
theorem update_keeps_others {β} (k : Key) : ∀ (new old : List (Key × β)), (∀ p ∈ new, p.1 ≠ k) →
    lookupK k (updateItems old new) = lookupK k old
  | [], old, _ => rfl
  | (k1, v1) :: rest, old, h => by
    unfold updateItems
    simp only [List.foldl_cons]
    have := update_keeps_others k rest (setK k1 v1 old) (fun p hp => h p (by simp [hp]))
    unfold updateItems at this
    rw [this, lookup_setK_other k1 k v1 (by have := h (k1, v1) (by simp); exact fun e => this e.symm)]

/-- … and a key present in the change gets the LAST value given for it -/
theorem update_sets_last {β} (k : Key) (v : β) (new old : List (Key × β)) (hrest : ∀ p ∈ new, p.1 ≠ k) (pre : List (Key × β)) :
    lookupK k (updateItems old (pre ++ (k, v) :: new)) = some v := by
  unfold updateItems
  rw [List.foldl_append]
  simp only [List.foldl_cons]
  have := update_keeps_others k new (setK k v (pre.foldl (fun acc kv => setK kv.1 kv.2 acc) old)) hrest
  unfold updateItems at this
  rw [this, lookup_setK_self]

theorem update_empty {β} (old : List (Key × β)) : updateItems old [] = old := rfl

end Lemmas.CtxKey
