import PasslibVerif.Lemmas.C01Static
/-
C01, `Static` family: the salted shapes (ldap_salted_*, mssql2000 / mssql2005, oracle11), the PrefixWrapper, the hashers with their own
`hash` / `verify` (cisco_pix / cisco_asa `hash`, mssql2000 `verify`, htdigest) and the documented equivalence classes
(lmhash case / 14 bytes, mysql323 blanks).
-/
namespace Lemmas.C01Static
open Py Model.Handler Model.Formats Model.Verify Model.VerifyFmt.Static Props.C01 Lemmas.Formats Lemmas.C01StaticEnc

/-- `hash` succeeds as soon as the checksum function does, for a hasher without truncation policy and NUL refusal -/
theorem succeeds_of_digest (h : Hasher) (s : Secret) (p : Parsed) (b : Bytes) (c : Str) (hv : s.len ≤ MAX_PASSWORD_SIZE)
    (hb : s.toBytes = .ok b) (ht : h.truncateSize = none) (hn : h.rejectsNul = false) (hd : h.digest b p = .ok c) :
    ∃ hs, hashSecret h s p = .ok hs :=
  ⟨_, hashSecret_ok h s p b c hv hb (checks_trivial h ht hn b).1 (checks_trivial h ht hn b).2 hd⟩

/-! ### ldap_salted_* -/
theorem ldapSalted_sound (name : String) (ident : Str) (minChars cs : Nat) (hid : ∀ x ∈ ident, x ≠ 10) (hne : ident ≠ [])
    (hmin : minChars ≤ (4 * (cs + 4) + 2) / 3) (H : Bytes → Bytes) (hH : ∀ x, (H x).length = cs ∧ Bytes.WF (H x))
    (salt : Bytes) (h4 : 4 ≤ salt.length) (h16 : salt.length ≤ 16) (hw : Bytes.WF salt) :
    Sound (ldapSaltedHasher (ldapSaltedFormat name ident minChars cs) H) (ldapSaltedFormat name ident minChars cs).identify
      (saltSettings ident salt) :=
  sound_of_format _ _ _ (LdapSaltedWF ident cs) (fun _ _ _ => rfl)
    (fun b c hc => by
      cases hc
      exact ⟨rfl, rfl, rfl, ⟨salt, rfl, h4, h16, hw⟩, ⟨_, rfl, (hH _).1, (hH _).2⟩⟩)
    (ldapSalted_parse_render ident minChars cs hid hmin)
    (fun q hq => ldapSalted_identify_render ident hne q hq.ident)

/-- the rendered string is the published `{SSHA}` construction: ident + base64(H(password ‖ salt) ‖ salt) -/
theorem ldapSalted_render_eq_spec (ident : Str) (H : Bytes → Bytes) (b salt : Bytes) :
    ldapSaltedRender { saltSettings ident salt with checksum := some (H (b ++ salt)) } = ident ++ Spec.Formats.ldapSalted H b salt := rfl

/-! ### mssql2000 / mssql2005 -/
theorem mssql_sound (name : String) (csize n : Nat) (hsz : csize = 14 + 2 * n) (d : Bytes → Parsed → Res Str)
    (hic : ∀ b q x, d b { q with checksum := x } = d b q) (salt : Bytes) (hl : salt.length = 4) (hw : Bytes.WF salt)
    (hd : ∀ b c, d b (saltSettings [] salt) = .ok c → c.length = n ∧ Bytes.WF c) :
    Sound (ofFormat ⟨name, mssqlParse csize n, mssqlRender, mssqlIdentify csize⟩ d) (mssqlIdentify csize) (saltSettings [] salt) :=
  sound_of_format ⟨name, mssqlParse csize n, mssqlRender, mssqlIdentify csize⟩ d _ (MssqlWF n) hic
    (fun b c hc => ⟨rfl, rfl, rfl, ⟨salt, rfl, hl, hw⟩, ⟨c, rfl, hd b c hc⟩⟩)
    (mssql_parse_render csize n hsz) (mssql_identify_render csize n hsz)

theorem rawMssql_shape (cps : List Nat) (salt : Bytes) : (rawMssql cps salt).length = 20 ∧ Bytes.WF (rawMssql cps salt) :=
  ⟨sha1_length _, sha1_bytes _⟩

theorem wf_append (a b : Bytes) (ha : Bytes.WF a) (hb : Bytes.WF b) : Bytes.WF (a ++ b) := by
  intro x hx
  rcases List.mem_append.1 hx with h | h
  · exact ha x h
  · exact hb x h

theorem mssql2005_digest_shape (b : Bytes) (p : Parsed) (c : Str) (hc : mssql2005Digest b p = .ok c) : c.length = 20 ∧ Bytes.WF c := by
  unfold mssql2005Digest at hc
  cases hd : decodeUtf8 b with
  | error e => simp [hd, Except.map] at hc
  | ok t =>
    simp only [hd, Except.map, Except.ok.injEq] at hc
    rw [← hc]; exact rawMssql_shape _ _

theorem mssql2000_digest_inv (b : Bytes) (p : Parsed) (c : Str) (hc : mssql2000Digest b p = .ok c) :
    ∃ t, decodeUtf8 b = .ok t ∧ c = rawMssql t (p.salt.getD []) ++ rawMssql (pyUpper t) (p.salt.getD []) := by
  unfold mssql2000Digest at hc
  cases hd : decodeUtf8 b with
  | error e => simp [hd, Except.map] at hc
  | ok t =>
    simp only [hd, Except.map, Except.ok.injEq] at hc
    exact ⟨t, rfl, hc.symm⟩

theorem mssql2000_digest_shape (b : Bytes) (p : Parsed) (c : Str) (hc : mssql2000Digest b p = .ok c) : c.length = 40 ∧ Bytes.WF c := by
  obtain ⟨t, _, rfl⟩ := mssql2000_digest_inv b p c hc
  refine ⟨?_, wf_append _ _ (rawMssql_shape _ _).2 (rawMssql_shape _ _).2⟩
  rw [List.length_append, (rawMssql_shape _ _).1, (rawMssql_shape _ _).1]

theorem mssql2005_sound (salt : Bytes) (hl : salt.length = 4) (hw : Bytes.WF salt) :
    Sound mssql2005Hasher mssql2005.identify (saltSettings [] salt) :=
  mssql_sound "mssql2005" 54 20 (by decide) mssql2005Digest (fun _ _ _ => rfl) salt hl hw (fun b c hc => mssql2005_digest_shape b _ c hc)

theorem mssql2000_sound (salt : Bytes) (hl : salt.length = 4) (hw : Bytes.WF salt) :
    Sound mssql2000Hasher mssql2000.identify (saltSettings [] salt) :=
  mssql_sound "mssql2000" 94 40 (by decide) mssql2000Digest (fun _ _ _ => rfl) salt hl hw (fun b c hc => mssql2000_digest_shape b _ c hc)

/-- mssql2000's own `verify` (second half only) accepts what `hash` made -/
theorem mssql2000_verify_own (s : Secret) (salt : Bytes) (hs : Str) (hl : salt.length = 4) (hw : Bytes.WF salt)
    (hh : hashSecret mssql2000Hasher s (saltSettings [] salt) = .ok hs) : mssql2000Verify s hs = .ok true := by
  obtain ⟨hv, b, c, hb, _, _, hd, rfl⟩ := hashSecret_inv _ s _ hs hh
  have hrt := (mssql2000_sound salt hl hw).rt b c hd
  obtain ⟨t, ht, rfl⟩ := mssql2000_digest_inv b _ _ hd
  unfold mssql2000Verify validateSecret
  have : ¬ s.len > MAX_PASSWORD_SIZE := by omega
  simp only [this, if_false]
  rw [hrt]
  have h20 := (rawMssql_shape t salt).1
  simp only [hb, ht, saltSettings, Option.getD_some, List.drop_left' h20]
  simp

/-! ### oracle11 -/
theorem unhexlify_upper : ∀ (n : Nat) (s : Str), s.length = 2 * n → allIn upperHex s = true → ∃ r, unhexlify s = some r
  | 0, s, hl, _ => by
    have : s = [] := List.eq_nil_of_length_eq_zero (by omega)
    subst this; exact ⟨[], rfl⟩
  | n + 1, s, hl, hx => by
    match s, hl with
    | a :: b :: rest, hl =>
      simp only [allIn, List.all_cons, Bool.and_eq_true] at hx
      obtain ⟨ha, hb, hr⟩ := hx
      obtain ⟨r, hr'⟩ := unhexlify_upper n rest (by simp only [List.length_cons] at hl; omega) hr
      have hv : ∀ c ∈ upperHex, (hexValN c).isSome = true := by decide
      obtain ⟨x, hx'⟩ := Option.isSome_iff_exists.1 (hv a (by simpa using ha))
      obtain ⟨y, hy'⟩ := Option.isSome_iff_exists.1 (hv b (by simpa using hb))
      exact ⟨(x * 16 + y) :: r, by simp [unhexlify, hx', hy', hr']⟩

theorem oracle11_sound (salt : Str) (hl : salt.length = 20) (hx : allIn upperHex salt = true) :
    Sound oracle11Hasher oracle11.identify (saltSettings [] salt) :=
  sound_of_format oracle11 oracle11Digest _ Oracle11WF (fun _ _ _ => rfl)
    (fun b c hc => by
      unfold oracle11Digest at hc
      simp only [saltSettings, Option.getD_some] at hc
      cases hu : unhexlify salt with
      | none => simp [hu] at hc
      | some raw =>
        simp only [hu, Except.ok.injEq] at hc
        refine ⟨rfl, rfl, rfl, ⟨salt, rfl, hl, hx⟩, ⟨c, rfl, ?_, ?_⟩⟩
        · rw [← hc, Spec.Formats.oracle11, hexUpper_length, sha1_length]
        · rw [← hc]; exact hexUpper_allIn _)
    oracle11_parse_render oracle11_identify_render

theorem oracle11_digest_ok (b : Bytes) (salt : Str) (hl : salt.length = 20) (hx : allIn upperHex salt = true) :
    ∃ c, oracle11Hasher.digest b (saltSettings [] salt) = .ok c := by
  obtain ⟨r, hr⟩ := unhexlify_upper 10 salt hl hx
  exact ⟨Spec.Formats.oracle11 b r, by simp [oracle11Hasher, ofFormat, oracle11Digest, saltSettings, hr]⟩

/-! ### PrefixWrapper -/
theorem wrap_verifies_own (pfx : Str) (h : Hasher) (s : Secret) (p : Parsed) (hs : Str)
    (hown : ∀ hs0, hashSecret h s p = .ok hs0 → verify h s hs0 = .ok true)
    (hh : wrapHashSecret pfx h s p = .ok hs) : wrapVerify pfx h s hs = .ok true := by
  unfold wrapHashSecret at hh
  cases h0 : hashSecret h s p with
  | error e => simp [h0] at hh
  | ok hs0 =>
    simp only [h0, Except.ok.injEq] at hh
    subst hh
    unfold wrapVerify
    rw [Lemmas.Handler.stripPrefix_append]
    exact hown hs0 h0

theorem wrap_identifies_own (name : String) (pfx : Str) (inner : Format) (h : Hasher) (s : Secret) (p : Parsed) (hs : Str)
    (hid : ∀ hs0, hashSecret h s p = .ok hs0 → inner.identify hs0 = true)
    (hh : wrapHashSecret pfx h s p = .ok hs) : (wrapFormat name pfx [] inner).identify hs = true := by
  unfold wrapHashSecret at hh
  cases h0 : hashSecret h s p with
  | error e => simp [h0] at hh
  | ok hs0 =>
    simp only [h0, Except.ok.injEq] at hh
    subst hh
    simp only [wrapFormat, unwrapHash, Lemmas.Handler.stripPrefix_append, Option.map_some, List.nil_append]
    exact hid hs0 h0

theorem wrap_succeeds (pfx : Str) (h : Hasher) (s : Secret) (p : Parsed) (hok : ∃ hs0, hashSecret h s p = .ok hs0) :
    ∃ hs, wrapHashSecret pfx h s p = .ok hs := by
  obtain ⟨hs0, h0⟩ := hok
  exact ⟨pfx ++ hs0, by simp [wrapHashSecret, h0]⟩

/-- what the wrapper verifies is what the wrapped hasher verifies of the rest -/
theorem wrap_verify_eq (pfx : Str) (h : Hasher) (s : Secret) (r : Str) : wrapVerify pfx h s (pfx ++ r) = verify h s r := by
  unfold wrapVerify; rw [Lemmas.Handler.stripPrefix_append]

/-! ### cisco_pix / cisco_asa -/
theorem cisco_sound (asa : Bool) (user : Option Bytes) :
    Sound (ciscoHasher asa user) (if asa then cisco_asa else cisco_pix).identify noSettings := by
  cases asa
  · exact fixed_sound "cisco_pix" [] 16 (by decide) h64 _ (fun b c hc => by cases hc; exact ciscoEncode_shape _)
  · exact fixed_sound "cisco_asa" [] 16 (by decide) h64 _ (fun b c hc => by cases hc; exact ciscoEncode_shape _)

theorem cisco_hash_inv (asa : Bool) (user : Option Bytes) (s : Secret) (hs : Str) (hh : ciscoHashSecret asa user s = .ok hs) :
    hashSecret (ciscoHasher asa user) s noSettings = .ok hs ∧ ∃ b, s.toBytes = .ok b ∧ b.length ≤ ciscoLimit asa := by
  unfold ciscoHashSecret at hh
  cases h0 : hashSecret (ciscoHasher asa user) s noSettings with
  | error e => simp [h0] at hh
  | ok hs0 =>
    simp only [h0] at hh
    cases hb : s.toBytes with
    | error e => simp [hb] at hh
    | ok b =>
      simp only [hb] at hh
      by_cases hl : b.length > ciscoLimit asa
      · simp [hl] at hh
      · simp only [hl, if_false, Except.ok.injEq] at hh
        exact ⟨by rw [hh], b, rfl, by omega⟩

/-- within the size limit the model's block is the published one (Spec.Formats.ciscoPix / ciscoAsa) -/
theorem ciscoDigest_eq_spec (asa : Bool) (user : Option Bytes) (b : Bytes) (hl : b.length ≤ ciscoLimit asa) :
    ciscoDigest asa user b = if asa then Spec.Formats.ciscoAsa b (user.getD []) else Spec.Formats.ciscoPix b (user.getD []) := by
  have : ¬ b.length > ciscoLimit asa := by omega
  cases asa <;> simp [ciscoDigest, this, Spec.Formats.ciscoAsa, Spec.Formats.ciscoPix]

/-! ### htdigest -/
theorem htdigest_shape (b user realm : Bytes) : htdigestOk (Spec.Formats.htdigest b user realm) = true := by
  unfold htdigestOk Spec.Formats.htdigest
  rw [hexLower_length, Lemmas.DigestLen.md5_length, hexLower_allIn]
  rfl

theorem htdigest_verify_own (user realm : Bytes) (s : Secret) (hs : Str) (hh : htdigestHash user realm s = .ok hs) :
    htdigestVerify user realm s hs = .ok true := by
  have hok : htdigestOk hs = true := by
    unfold htdigestHash at hh
    cases hv : validateSecret s with
    | error e => simp [hv] at hh
    | ok u =>
      simp only [hv] at hh
      cases hb : s.toBytes with
      | error e => simp [hb] at hh
      | ok b =>
        simp only [hb, Except.ok.injEq] at hh
        rw [← hh]; exact htdigest_shape _ _ _
  unfold htdigestVerify
  simp [hok, hh]

/-! ### documented equivalences -/
/-- lmhash reads the first 14 octets, ASCII letters upper-cased -/
theorem lmhash_equiv (b b' : Bytes)
    (h : (b.map Spec.Formats.upperAscii ++ List.replicate 14 0).take 14 = (b'.map Spec.Formats.upperAscii ++ List.replicate 14 0).take 14) :
    Spec.Formats.lmhash b = Spec.Formats.lmhash b' := by
  unfold Spec.Formats.lmhash
  simp only [h]

theorem upperAscii_idem (c : Nat) : Spec.Formats.upperAscii (Spec.Formats.upperAscii c) = Spec.Formats.upperAscii c := by
  unfold Spec.Formats.upperAscii
  by_cases h : 97 ≤ c ∧ c ≤ 122
  · have : ¬ (97 ≤ c - 32 ∧ c - 32 ≤ 122) := by omega
    rw [if_pos h, if_neg this]
  · rw [if_neg h, if_neg h]

theorem lmhash_upper (b : Bytes) : Spec.Formats.lmhash (b.map Spec.Formats.upperAscii) = Spec.Formats.lmhash b := by
  apply lmhash_equiv
  rw [List.map_map]
  congr 2
  apply List.map_congr_left
  intro c _
  exact upperAscii_idem c

theorem take_pad (x r : Bytes) (n : Nat) : (x.take n ++ r).take n = (x ++ r).take n := by
  by_cases h : n ≤ x.length
  · rw [List.take_append_of_le_length (by rw [List.length_take]; omega), List.take_append_of_le_length h, List.take_take]
    simp
  · rw [List.take_of_length_le (show x.length ≤ n by omega)]

theorem lmhash_take14 (b : Bytes) : Spec.Formats.lmhash (b.take 14) = Spec.Formats.lmhash b := by
  apply lmhash_equiv
  rw [List.map_take, take_pad]

/-- mysql323 skips blanks and tabs -/
theorem mysql323_fold_filter (b : Bytes) (st : Nat × Nat × Nat) :
    (b.filter fun c => !(c == 32 || c == 9)).foldl Spec.Formats.mysql323Step st = b.foldl Spec.Formats.mysql323Step st := by
  induction b generalizing st with
  | nil => rfl
  | cons c rest ih =>
    by_cases hc : c = 32 ∨ c = 9
    · have h1 : (!(c == 32 || c == 9)) = false := by rcases hc with rfl | rfl <;> rfl
      have h2 : Spec.Formats.mysql323Step st c = st := by
        obtain ⟨a, b2, c2⟩ := st
        simp [Spec.Formats.mysql323Step, hc]
      rw [List.filter_cons, h1]
      simp only [Bool.false_eq_true, if_false, List.foldl_cons, h2]
      exact ih st
    · have h1 : (!(c == 32 || c == 9)) = true := by
        have : c ≠ 32 ∧ c ≠ 9 := by omega
        simp [this.1, this.2]
      rw [List.filter_cons, h1]
      simp only [if_true, List.foldl_cons]
      exact ih _

theorem mysql323_blanks (b : Bytes) : Spec.Formats.mysql323 (b.filter fun c => !(c == 32 || c == 9)) = Spec.Formats.mysql323 b := by
  unfold Spec.Formats.mysql323
  rw [mysql323_fold_filter]

end Lemmas.C01Static
