import PasslibVerif.Model.Formats.Pbkdf
import PasslibVerif.Lemmas.Handler
/- `int(format(n, "x"), 16) = n`, and `format(n, "x")` is never zero-padded: the base-16 twins of
   `int_of_fmtDec` / `fmtDec_not_padded` (used by cta_pbkdf2_sha1 and dlitz_pbkdf2_sha1). -/
namespace Lemmas.FormatsPbkdf
open Py Model.Handler Model.Formats Lemmas.Handler Digits

theorem hv_all : ((List.range 16).all fun d => hexValue (hexDigitChar d) == some d) = true := by decide +kernel
theorem hsp_all : ((List.range 16).all fun d => !(isSpaceCp (hexDigitChar d))) = true := by decide +kernel

theorem hexValue_digit (d : Nat) (hd : d < 16) : hexValue (hexDigitChar d) = some d := by
  have := List.all_eq_true.1 hv_all d (List.mem_range.2 hd)
  simpa using this

theorem hexDigitChar_range (d : Nat) (hd : d < 16) :
    (48 ≤ hexDigitChar d ∧ hexDigitChar d ≤ 57) ∨ (97 ≤ hexDigitChar d ∧ hexDigitChar d ≤ 102) := by
  unfold hexDigitChar; split <;> omega

theorem hexDigit_not_space (d : Nat) (hd : d < 16) :
    isSpaceCp (hexDigitChar d) = false ∧ hexDigitChar d ≠ 45 ∧ hexDigitChar d ≠ 43 ∧ hexDigitChar d ≠ 95 := by
  have := List.all_eq_true.1 hsp_all d (List.mem_range.2 hd)
  have hr := hexDigitChar_range d hd
  refine ⟨by simpa using this, ?_, ?_, ?_⟩ <;> omega

set_option maxRecDepth 8000 in
theorem parseHexDigits_map (ds : List Nat) (hds : ∀ d ∈ ds, d < 16) (acc : Nat) (hne : ds ≠ []) :
    parseHexDigits (ds.map hexDigitChar) (some acc) false = some (ds.foldl (fun a d => a * 16 + d) acc) := by
  induction ds generalizing acc with
  | nil => exact absurd rfl hne
  | cons d rest ih =>
    have hd : d < 16 := hds d List.mem_cons_self
    have hdv := hexValue_digit d hd
    have hnu : hexDigitChar d ≠ 95 := (hexDigit_not_space d hd).2.2.2
    simp only [List.map_cons, parseHexDigits, hnu, if_false, hdv, Option.getD_some, List.foldl_cons]
    cases rest with
    | nil => simp [parseHexDigits]
    | cons e es => exact ih (fun x hx => hds x (by simp [hx])) _ (by simp)

theorem numHexDigitsFuel_spec : ∀ (fuel v : Nat), v ≤ fuel → 1 ≤ numHexDigitsFuel fuel v ∧ v < 16 ^ numHexDigitsFuel fuel v
  | 0, v, h => by have : v = 0 := by omega
                  subst this; simp [numHexDigitsFuel]
  | fuel+1, v, h => by
    unfold numHexDigitsFuel
    split
    · exact ⟨by omega, by omega⟩
    · have ih := numHexDigitsFuel_spec fuel (v / 16) (by omega)
      refine ⟨by omega, ?_⟩
      have : 16 ^ (1 + numHexDigitsFuel fuel (v / 16)) = 16 * 16 ^ numHexDigitsFuel fuel (v / 16) := by
        rw [Nat.add_comm, Nat.pow_succ]; omega
      rw [this]; omega

theorem numHexDigits_spec (v : Nat) : 1 ≤ numHexDigits v ∧ v < 16 ^ numHexDigits v :=
  numHexDigitsFuel_spec v v (Nat.le_refl v)

theorem numHexDigitsFuel_min : ∀ (fuel v : Nat), v ≤ fuel → numHexDigitsFuel fuel v = 1 ∨ 16 ^ (numHexDigitsFuel fuel v - 1) ≤ v
  | 0, _, _ => Or.inl rfl
  | fuel+1, v, h => by
    unfold numHexDigitsFuel
    split
    · exact Or.inl rfl
    · rename_i hge
      right
      have ih := numHexDigitsFuel_min fuel (v / 16) (by omega)
      have e : 1 + numHexDigitsFuel fuel (v / 16) - 1 = numHexDigitsFuel fuel (v / 16) := by omega
      rw [e]
      rcases ih with h1 | h1
      · rw [h1]; omega
      · have hp := (numHexDigitsFuel_spec fuel (v / 16) (by omega)).1
        obtain ⟨k, hk⟩ : ∃ k, numHexDigitsFuel fuel (v / 16) = k + 1 := ⟨_, (Nat.sub_add_cancel hp).symm⟩
        rw [hk] at h1 ⊢
        simp only [Nat.add_sub_cancel] at h1
        rw [Nat.pow_succ]; omega

/-- the characters of a rendered non-negative number are lower-case hex digits -/
theorem fmtHex_digits (n : Nat) : ∀ c ∈ fmtHex (n : Int), (48 ≤ c ∧ c ≤ 57) ∨ (97 ≤ c ∧ c ≤ 102) := by
  have hn : ((n : Int) ≥ 0) := Int.natCast_nonneg n
  unfold fmtHex
  simp only [hn, if_true, Int.toNat_natCast, hexDigits]
  intro c hc
  obtain ⟨d, hd, rfl⟩ := List.mem_map.1 hc
  exact hexDigitChar_range d (toDigits_lt 16 (by decide) _ n d (List.mem_reverse.1 hd))

/-- `format(n, "x")` starts with a non-zero digit unless n = 0: never zero-padded, never empty; in particular it never
    begins with `0x` -/
theorem fmtHex_not_padded (n : Nat) :
    zeroPadded (fmtHex (n : Int)) = false ∧ (fmtHex (n : Int)).isEmpty = false ∧
    (fmtHex (n : Int) = [48] ∨ (fmtHex (n : Int)).head? ≠ some 48) := by
  have hn : ((n : Int) ≥ 0) := Int.natCast_nonneg n
  unfold fmtHex
  simp only [hn, if_true, Int.toNat_natCast, hexDigits]
  obtain ⟨h1, h2⟩ := numHexDigits_spec n
  have hmin := numHexDigitsFuel_min n n (Nat.le_refl n)
  change numHexDigits n = 1 ∨ 16 ^ (numHexDigits n - 1) ≤ n at hmin
  obtain ⟨k, hk⟩ : ∃ k, numHexDigits n = k + 1 := ⟨_, (Nat.sub_add_cancel h1).symm⟩
  rw [hk] at h2 hmin ⊢
  have hlast := toDigits_getLast 16 k n
  have hhead : ((toDigits 16 (k + 1) n).reverse.map hexDigitChar).head? = some (hexDigitChar (n / 16 ^ k % 16)) := by
    rw [List.head?_map, List.head?_reverse, hlast]; rfl
  have hne : ((toDigits 16 (k + 1) n).reverse.map hexDigitChar).isEmpty = false := by
    cases h : (toDigits 16 (k + 1) n).reverse.map hexDigitChar with
    | nil => rw [h] at hhead; simp at hhead
    | cons _ _ => rfl
  by_cases hk0 : k = 0
  · subst hk0
    simp only [Nat.pow_zero, Nat.div_one] at *
    have hlt : n < 16 := by simpa using h2
    by_cases hn0 : n = 0
    · subst hn0; exact ⟨by decide, by decide, Or.inl (by decide)⟩
    · have hnz : hexDigitChar (n % 16) ≠ ZERO := by
        rw [Nat.mod_eq_of_lt hlt]; unfold hexDigitChar ZERO; split <;> omega
      refine ⟨?_, hne, Or.inr ?_⟩
      · unfold zeroPadded; rw [hhead]; simp [hnz]
      · rw [hhead]; intro e; simp only [Option.some.injEq] at e; exact hnz e
  · have hge : 16 ^ k ≤ n := by
      rcases hmin with h | h
      · omega
      · simpa using h
    have hq : 1 ≤ n / 16 ^ k := (Nat.le_div_iff_mul_le (Nat.pow_pos (by decide))).2 (by simpa using hge)
    have hq2 : n / 16 ^ k < 16 := by
      apply (Nat.div_lt_iff_lt_mul (Nat.pow_pos (by decide))).2
      rw [Nat.pow_succ] at h2; omega
    have hnz : hexDigitChar (n / 16 ^ k % 16) ≠ ZERO := by
      rw [Nat.mod_eq_of_lt hq2]; unfold hexDigitChar ZERO; split <;> omega
    refine ⟨?_, hne, Or.inr ?_⟩
    · unfold zeroPadded; rw [hhead]; simp [hnz]
    · rw [hhead]; intro e; simp only [Option.some.injEq] at e; exact hnz e

theorem dropHexPrefix_id (s : List Nat) (h : s = [48] ∨ s.head? ≠ some 48) : dropHexPrefix s = s := by
  rcases h with h | h
  · subst h; rfl
  · unfold dropHexPrefix
    split
    · rename_i x r; simp at h
    · rfl

set_option maxRecDepth 8000 in
/-- `int(format(n, "x"), 16) == n` for n ≥ 0 -/
theorem int_of_fmtHex (n : Nat) : pyIntOfStr16 (fmtHex (n : Int)) = some (n : Int) := by
  have hpad := (fmtHex_not_padded n).2.2
  have hn : ((n : Int) ≥ 0) := Int.natCast_nonneg n
  unfold fmtHex at hpad ⊢
  simp only [hn, if_true, Int.toNat_natCast, hexDigits] at hpad ⊢
  obtain ⟨h1, h2⟩ := numHexDigits_spec n
  generalize hL : numHexDigits n = L at *
  have hds : ∀ d ∈ (toDigits 16 L n).reverse, d < 16 := fun d hd => toDigits_lt 16 (by decide) L n d (List.mem_reverse.1 hd)
  have hne : (toDigits 16 L n).reverse ≠ [] := by
    intro e
    have := congrArg List.length e
    simp [toDigits_length] at this; omega
  generalize hdl : (toDigits 16 L n).reverse = ds at *
  have hval : ds.foldl (fun a d => a * 16 + d) 0 = n := by
    rw [← hdl, Digits.foldl_reverse_eq_ofDigits, ofDigits_toDigits 16 (by decide) L n h2]
  cases ds with
  | nil => exact absurd rfl hne
  | cons d rest =>
    have hd := hds d List.mem_cons_self
    have hstrip : stripSpaces ((d :: rest).map hexDigitChar) = (d :: rest).map hexDigitChar := by
      unfold stripSpaces
      have hfirst : isSpaceCp (hexDigitChar d) = false := (hexDigit_not_space d hd).1
      simp only [List.map_cons, List.dropWhile_cons, hfirst, Bool.false_eq_true, if_false]
      cases hr : (hexDigitChar d :: rest.map hexDigitChar).reverse with
      | nil => simp at hr
      | cons x xs =>
        have hx : x ∈ (hexDigitChar d :: rest.map hexDigitChar) := by
          have : x ∈ (hexDigitChar d :: rest.map hexDigitChar).reverse := by rw [hr]; simp
          exact List.mem_reverse.1 this
        have hxs : isSpaceCp x = false := by
          rcases List.mem_cons.1 hx with e | hm
          · rw [e]; exact hfirst
          · obtain ⟨y, hy, rfl⟩ := List.mem_map.1 hm
            exact (hexDigit_not_space y (hds y (by simp [hy]))).1
        simp only [List.dropWhile_cons, hxs, Bool.false_eq_true, if_false]
        rw [← hr, List.reverse_reverse]
    unfold pyIntOfStr16
    rw [hstrip]
    have h45 := (hexDigit_not_space d hd).2.1
    have h43 := (hexDigit_not_space d hd).2.2.1
    have hdv := hexValue_digit d hd
    have hnu : hexDigitChar d ≠ 95 := (hexDigit_not_space d hd).2.2.2
    have hpre := dropHexPrefix_id _ hpad
    have hpd : parseHexDigits ((d :: rest).map hexDigitChar) none false = some n := by
      simp only [List.map_cons, parseHexDigits, hnu, if_false, hdv, Option.getD_none, Nat.zero_mul, Nat.zero_add]
      cases rest with
      | nil => simp [parseHexDigits] at hval ⊢; omega
      | cons e es =>
        rw [parseHexDigits_map (e :: es) (fun x hx => hds x (by simp [hx])) d (by simp)]
        simp only [List.foldl_cons, Nat.zero_mul, Nat.zero_add] at hval
        simp [hval]
    simp only [List.map_cons] at hpd hpre ⊢
    split
    · rename_i heq; simp at heq
    · rename_i heq; simp only [List.cons.injEq] at heq; exact absurd heq.1 h45
    · rename_i heq; simp only [List.cons.injEq] at heq; exact absurd heq.1 h43
    · rw [hpre]; simp [hpd]

/-- the rounds field of either base parses back -/
theorem parseIntFieldG_fmt (hex : Bool) (n : Nat) (dflt : Option Int) :
    parseIntFieldG hex (if hex then fmtHex (n : Int) else fmtDec (n : Int)) dflt = some (n : Int) := by
  cases hex with
  | false => simp only [parseIntFieldG, Bool.false_eq_true, if_false]; exact parseIntField_fmtDec n dflt
  | true =>
    obtain ⟨h1, h2, _⟩ := fmtHex_not_padded n
    simp [parseIntFieldG, h1, h2, int_of_fmtHex]

/-- neither rendering contains a separator below '0' (`$`, `.`) -/
theorem fmt_no_sep (hex : Bool) (n : Nat) (sep : Nat) (hsep : sep < 48) :
    sep ∉ (if hex then fmtHex (n : Int) else fmtDec (n : Int)) := by
  intro hm
  cases hex with
  | false =>
    simp only [Bool.false_eq_true, if_false] at hm
    have := fmtDec_digits n sep hm; omega
  | true =>
    simp only [if_true] at hm
    have := fmtHex_digits n sep hm; omega

end Lemmas.FormatsPbkdf
