import PasslibVerif.Model.Code.Iter
import PasslibVerif.Spec.Formats.Iterated
import PasslibVerif.Spec.Formats.Digests
import PasslibVerif.Lemmas.C01MiscDigest
import PasslibVerif.Lemmas.ShaCryptEnc
import PasslibVerif.Lemmas.B64
import PasslibVerif.Lemmas.Hmac
/-
C02, group `Iter`, part 1: the Python idioms of Model/Code/Iter.lean against the notation of the specifications —
`str(n)` = `printf("%u")`, `f"{v:08x}"` = eight upper-to-lower nibbles, `hexlify(..).upper()` = upper-case hexadecimal,
`h64.encode_bytes` = the crypt(3) little-endian packing, `for _ in range(n)` / `while r < n` = n-fold iteration.
-/
namespace Lemmas.C02CodeIter
open Py Model.Code.Iter Lemmas.PbkdfLen
open Model.Verify (Secret)

/-! ### `.encode("ascii")` -/
theorem encodeAscii_ok (s : List Nat) (h : ∀ c ∈ s, c < 128) : encodeAscii s = .ok s := by
  unfold encodeAscii
  have : s.all (· < 128) = true := List.all_eq_true.2 (fun c hc => by simpa using h c hc)
  rw [this]; rfl

theorem encodeAscii_err (s : List Nat) (c : Nat) (hc : c ∈ s) (h : 128 ≤ c) : encodeAscii s = .error .valueError := by
  unfold encodeAscii
  have : s.all (· < 128) = false := by
    apply Bool.eq_false_iff.2
    intro hall
    have := List.all_eq_true.1 hall c hc
    simp at this
    omega
  rw [this]; rfl

theorem wf_append {a b : Bytes} (ha : Bytes.WF a) (hb : Bytes.WF b) : Bytes.WF (a ++ b) := by
  intro x hx
  rcases List.mem_append.1 hx with h | h
  · exact ha x h
  · exact hb x h

/-! ### `str(n)` is `printf("%u", n)` -/
theorem digitChar_toNat : ∀ d, d < 10 → (Nat.digitChar d).toNat = digitChar d := by decide

theorem numDigitsFuel_small (fuel v : Nat) (h : v < 10) : numDigitsFuel fuel v = 1 := by
  cases fuel <;> simp [numDigitsFuel, h]

theorem decDigits_aux : ∀ (v fuel : Nat), v ≤ fuel →
    ((Digits.toDigits 10 (numDigitsFuel fuel v) v).reverse).map digitChar = (Nat.toDigits 10 v).map Char.toNat := by
  intro v
  induction v using Nat.strongRecOn with
  | _ v ih =>
    intro fuel hf
    by_cases hv : v < 10
    · rw [numDigitsFuel_small fuel v hv, Nat.toDigits_of_lt_base hv]
      simp only [Digits.toDigits, List.reverse_cons, List.reverse_nil, List.nil_append, List.map_cons, List.map_nil]
      rw [Nat.mod_eq_of_lt hv, digitChar_toNat v hv]
    · obtain ⟨f, rfl⟩ : ∃ f, fuel = f + 1 := ⟨fuel - 1, by omega⟩
      have hstep : numDigitsFuel (f + 1) v = numDigitsFuel f (v / 10) + 1 := by
        simp only [numDigitsFuel, hv, if_false]; omega
      rw [hstep]
      simp only [Digits.toDigits, List.reverse_cons, List.map_append, List.map_cons, List.map_nil]
      rw [ih (v / 10) (by omega) f (by omega)]
      have hsplit : Nat.toDigits 10 v = Nat.toDigits 10 (v / 10) ++ Nat.toDigits 10 (v % 10) := by
        rw [Nat.toDigits_append_toDigits (by decide) (by omega) (Nat.mod_lt _ (by decide)), Nat.div_add_mod]
      rw [hsplit, Nat.toDigits_of_lt_base (Nat.mod_lt _ (by decide)), List.map_append]
      simp only [List.map_cons, List.map_nil]
      rw [digitChar_toNat _ (Nat.mod_lt _ (by decide))]

/-- Python's decimal rendering of a non-negative int (the project's `"%d"` model) is the specification's `decimal` -/
theorem pyStr_eq_decimal (n : Nat) : pyStr n = Spec.Formats.decimal n := by
  unfold pyStr fmtDec Spec.Formats.decimal decDigits numDigits
  simp only [Int.natCast_nonneg, ge_iff_le, if_true, Int.toNat_natCast]
  exact decDigits_aux n n (Nat.le_refl n)

theorem pyStr_ascii (n : Nat) : ∀ c ∈ pyStr n, c < 128 := by
  intro c hc
  unfold pyStr fmtDec decDigits at hc
  simp only [Int.natCast_nonneg, ge_iff_le, if_true, Int.toNat_natCast, List.mem_map, List.mem_reverse] at hc
  obtain ⟨d, hd, rfl⟩ := hc
  have := Digits.toDigits_lt 10 (by decide) _ _ d hd
  unfold digitChar; omega

/-! ### hash64 -/
theorem h64Encode_eq (bs : Bytes) (h : Bytes.WF bs) : h64Encode bs = Spec.Formats.h64le bs := by
  unfold h64Encode Model.B64.encodeBytes Spec.Formats.h64le
  rw [Lemmas.ShaCryptEnc.h64_little, Lemmas.B64.enc6_little_eq_crypt bs h, Lemmas.ShaCryptEnc.charmap_eq]
  rfl

/-! ### loops -/
theorem forRange_eq_iterate {α : Type} (f : α → α) : ∀ (n : Nat) (x : α), forRange f n x = Spec.Formats.iterate f n x
  | 0, _ => rfl
  | n + 1, x => by simp only [forRange, Spec.Formats.iterate, forRange_eq_iterate f n]

theorem iterate_succ {α : Type} (f : α → α) (n : Nat) (x : α) :
    Spec.Formats.iterate f (n + 1) x = Spec.Formats.iterate f n (f x) := rfl

/-- iterating a function whose values are byte strings keeps byte strings -/
theorem iterate_wf (f : Bytes → Bytes) (hf : ∀ x, Bytes.WF (f x)) : ∀ (n : Nat) (x : Bytes), Bytes.WF x →
    Bytes.WF (Spec.Formats.iterate f n x)
  | 0, _, h => h
  | n + 1, x, _ => iterate_wf f hf n (f x) (hf x)

theorem iterate_length (f : Bytes → Bytes) (k : Nat) (hf : ∀ x, (f x).length = k) : ∀ (n : Nat) (x : Bytes), x.length = k →
    (Spec.Formats.iterate f n x).length = k
  | 0, _, h => h
  | n + 1, x, _ => iterate_length f k hf n (f x) (hf x)

theorem phpassWhile_eq (md5 : Bytes → Bytes) (secret : Bytes) (real : Nat) : ∀ (fuel r : Nat) (result : Bytes),
    r + fuel = real → phpassWhile md5 secret real fuel r result = Spec.Formats.iterate (fun h => md5 (h ++ secret)) fuel result
  | 0, _, _, _ => rfl
  | fuel + 1, r, result, h => by
    have hr : r < real := by omega
    simp only [phpassWhile, hr, if_true, Spec.Formats.iterate]
    exact phpassWhile_eq md5 secret real fuel (r + 1) _ (by omega)

/-! ### hexadecimal -/
theorem hexChar_eq (n : Nat) : hexChar n = Spec.Formats.hexDigitL n := rfl

theorem hexlify_eq (bs : Bytes) (h : Bytes.WF bs) : hexlify bs = Spec.Formats.hexLower bs := by
  unfold hexlify Spec.Formats.hexLower
  induction bs with
  | nil => rfl
  | cons b rest ih =>
    have hlt : b < 256 := h b (List.mem_cons_self ..)
    have e1 : b >>> 4 = b / 16 % 16 := by rw [Nat.shiftRight_eq_div_pow]; omega
    have e2 : b &&& 15 = b % 16 := Bits.and15 b
    simp only [List.flatMap_cons]
    rw [ih (fun x hx => h x (List.mem_cons_of_mem _ hx)), e1, e2]; rfl

theorem upper_digit : ∀ k, k < 16 →
    (if 97 ≤ Spec.Formats.hexDigitL k ∧ Spec.Formats.hexDigitL k ≤ 122 then Spec.Formats.hexDigitL k - 32 else Spec.Formats.hexDigitL k)
      = Spec.Formats.hexDigitU k := by decide

theorem asciiUpper_hexLower (bs : Bytes) : asciiUpper (Spec.Formats.hexLower bs) = Spec.Formats.hexUpper bs := by
  unfold asciiUpper Spec.Formats.hexLower Spec.Formats.hexUpper
  induction bs with
  | nil => rfl
  | cons b rest ih =>
    simp only [List.flatMap_cons, List.map_append, List.map_cons, List.map_nil, List.cons_append, List.nil_append] at ih ⊢
    rw [ih, upper_digit _ (Nat.mod_lt _ (by decide)), upper_digit _ (Nat.mod_lt _ (by decide))]

/-- `hexlify(x).upper()` -/
theorem upperHex_eq (bs : Bytes) (h : Bytes.WF bs) : asciiUpper (hexlify bs) = Spec.Formats.hexUpper bs := by
  rw [hexlify_eq bs h, asciiUpper_hexLower]

/-! ### `f"{v:08x}"` -/
theorem numHexDigitsFuel_le : ∀ (fuel v k : Nat), 1 ≤ k → v < 16 ^ k → numHexDigitsFuel fuel v ≤ k
  | 0, _, _, hk, _ => hk
  | fuel + 1, v, k, hk, hv => by
    unfold numHexDigitsFuel
    by_cases h : v < 16
    · simp only [h, if_true]; exact hk
    · simp only [h, if_false]
      obtain ⟨j, rfl⟩ : ∃ j, k = j + 1 := ⟨k - 1, by omega⟩
      have hj : 1 ≤ j := by
        rcases Nat.eq_zero_or_pos j with h0 | h0
        · subst h0; simp at hv; omega
        · exact h0
      have hdiv : v / 16 < 16 ^ j := by
        apply (Nat.div_lt_iff_lt_mul (by decide)).2
        rw [Nat.pow_succ] at hv; exact hv
      have := numHexDigitsFuel_le fuel (v / 16) j hj hdiv
      omega

/-- below 2^32 the format gives exactly the eight digits of the four big-endian bytes -/
theorem fmtHex08_eq (v : Nat) (hv : v < 2 ^ 32) : fmtHex08 v = Spec.Formats.hexLower (Spec.Formats.beBytes 4 v) := by
  unfold fmtHex08
  have hle : numHexDigitsFuel v v ≤ 8 := numHexDigitsFuel_le v v 8 (by decide) (by
    have : (16 : Nat) ^ 8 = 2 ^ 32 := by decide
    omega)
  have hmax : max 8 (numHexDigitsFuel v v) = 8 := by omega
  rw [hmax]
  simp only [Digits.toDigits, List.reverse_cons, List.reverse_nil, List.nil_append, List.cons_append, List.map_cons, List.map_nil,
    Spec.Formats.hexLower, Spec.Formats.beBytes, List.range, List.range.loop, List.flatMap_cons, List.flatMap_nil, List.append_nil,
    hexChar_eq, Nat.shiftRight_eq_div_pow]
  have e : ∀ a b : Nat, a = b → Spec.Formats.hexDigitL a = Spec.Formats.hexDigitL b := fun _ _ h => by rw [h]
  simp only [List.cons.injEq, and_true]
  refine ⟨e _ _ ?_, e _ _ ?_, e _ _ ?_, e _ _ ?_, e _ _ ?_, e _ _ ?_, e _ _ ?_, e _ _ ?_⟩ <;> omega

end Lemmas.C02CodeIter
