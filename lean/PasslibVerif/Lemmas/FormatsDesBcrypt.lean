import PasslibVerif.Model.Formats.DesBcrypt
import PasslibVerif.Lemmas.FormatsMd5Sha2
import PasslibVerif.Lemmas.B64
namespace Lemmas.Formats
open Py Model.Handler Model.Formats Lemmas.Handler

/-! ### generic helpers -/
theorem orNone_of_ne (c : Str) (h : c ≠ []) : orNone c = some c := by
  cases c with
  | nil => exact absurd rfl h
  | cons _ _ => rfl

theorem ne_nil_of_length (c : Str) (n : Nat) (h : c.length = n + 1) : c ≠ [] := by
  intro e; subst e; simp at h

theorem allIn_append (cs a b : Str) : allIn cs (a ++ b) = (allIn cs a && allIn cs b) := by
  unfold allIn; simp [List.all_append]

theorem mem_of_allIn (cs s : Str) (h : allIn cs s = true) : ∀ c ∈ s, c ∈ cs := by
  intro c hc
  unfold allIn at h
  rw [List.all_eq_true] at h
  simpa using h c hc

/-- `a.isPrefixOf (b ++ x)` is decided inside `b` when `a` is not longer than `b` -/
theorem isPrefixOf_append_of_le : ∀ (a b x : Str), a.length ≤ b.length → a.isPrefixOf (b ++ x) = a.isPrefixOf b
  | [], _, _, _ => by simp [List.isPrefixOf]
  | _ :: _, [], _, h => by simp at h
  | c :: a, d :: b, x, h => by
    have ih := isPrefixOf_append_of_le a b x (by simpa using h)
    simp only [List.cons_append, List.isPrefixOf, ih]

theorem find_prefix_append (idents : List Str) (i rest : Str) (hl : ∀ j ∈ idents, j.length ≤ i.length) :
    idents.find? (·.isPrefixOf (i ++ rest)) = idents.find? (·.isPrefixOf i) := by
  induction idents with
  | nil => rfl
  | cons j js ih =>
    have h1 := isPrefixOf_append_of_le j i rest (hl j (by simp))
    have h2 := ih (fun k hk => hl k (by simp [hk]))
    simp only [List.find?, h1, h2]

theorem parseIdent_append (idents : List Str) (i rest : Str) (hl : ∀ j ∈ idents, j.length ≤ i.length)
    (hf : idents.find? (·.isPrefixOf i) = some i) : parseIdent idents (i ++ rest) = some (i, rest) := by
  unfold parseIdent
  rw [find_prefix_append idents i rest hl, hf]
  simp

theorem nl_not_h64 : NL ∉ h64 := by decide

theorem chompNl_of_allIn (cs x : Str) (hnl : NL ∉ cs) (h : allIn cs x = true) : chompNl x = x := by
  unfold chompNl
  have : x.getLast? ≠ some NL := by
    intro e
    have hm : NL ∈ x := List.mem_of_getLast? e
    exact hnl (mem_of_allIn cs x h NL hm)
  simp [this]

theorem reH64Ci_of_allIn (x : Str) (h : allIn h64 x = true) : x.all reH64Ci = true := by
  rw [List.all_eq_true]
  intro c hc
  have := mem_of_allIn h64 x h c hc
  unfold reH64Ci
  simp [this]

/-! ### des_crypt / bigcrypt / crypt16 : `<salt><checksum>` -/
structure SaltChkWF (saltLen : Nat) (chkOk : Nat → Prop) (p : Parsed) : Prop where
  ident : p.ident = []
  rounds : p.rounds = none
  extra : p.extra = []
  salt : ∃ s, p.salt = some s ∧ allIn h64 s = true ∧ s.length = saltLen
  chk : ∃ c, p.checksum = some c ∧ allIn h64 c = true ∧ chkOk c.length

theorem des_crypt_parse_render (p : Parsed) (h : SaltChkWF 2 (· = 11) p) : desCryptParse (saltChkRender p) = some p := by
  obtain ⟨hi, hr, he, ⟨s, hs, hs64, hsl⟩, ⟨c, hc, hc64, hcl⟩⟩ := h
  obtain ⟨pi, pr, ps, pc, pe⟩ := p
  simp only at hi hr he hs hc
  subst hi hr he hs hc
  have hcne : c ≠ [] := ne_nil_of_length c 10 hcl
  have hrender : saltChkRender ⟨[], none, some s, some c, []⟩ = s ++ c := rfl
  rw [hrender]
  unfold desCryptParse
  rw [List.drop_left' hsl, List.take_left' hsl, orNone_of_ne c hcne]
  simp only [normChkOpt, normChecksum_ok 11 h64 c hcl hc64, Option.map_some, Option.bind_some,
    normSalt_ok h64 2 2 false s hs64 (by omega) (by omega)]


theorem desShape_ok (chkLen : Nat → Bool) (s c : Str) (hs64 : allIn h64 s = true) (hsl : s.length = 2)
    (hc64 : allIn h64 c = true) (hcne : c ≠ []) (hlen : chkLen c.length = true) :
    desShape chkLen (s ++ c) = true ∧ desGroups (s ++ c) = (s, some c) := by
  have hall : allIn h64 (s ++ c) = true := by rw [allIn_append, hs64, hc64]; rfl
  have hch := chompNl_of_allIn h64 (s ++ c) nl_not_h64 hall
  have hcl : 0 < c.length := List.length_pos_iff.2 hcne
  have hlen2 : (s ++ c).length - 2 = c.length := by rw [List.length_append, hsl]; omega
  have hgt : (s ++ c).length > 2 := by rw [List.length_append, hsl]; omega
  have hne2 : ¬ ((s ++ c).length = 2) := by omega
  refine ⟨?_, ?_⟩
  · unfold desShape
    simp only [hch, hlen2, hlen, reH64Ci_of_allIn (s ++ c) hall, hgt, decide_true, Bool.and_true, Bool.or_true]
  · unfold desGroups
    simp only [hch, hne2, if_false, List.take_left' hsl, List.drop_left' hsl]

theorem crypt16_parse_render (p : Parsed) (h : SaltChkWF 2 (· = 22) p) : crypt16Parse (saltChkRender p) = some p := by
  obtain ⟨hi, hr, he, ⟨s, hs, hs64, hsl⟩, ⟨c, hc, hc64, hcl⟩⟩ := h
  obtain ⟨pi, pr, ps, pc, pe⟩ := p
  simp only at hi hr he hs hc
  subst hi hr he hs hc
  have hcne : c ≠ [] := ne_nil_of_length c 21 hcl
  have hrender : saltChkRender ⟨[], none, some s, some c, []⟩ = s ++ c := rfl
  obtain ⟨h1, h2⟩ := desShape_ok (· = 22) s c hs64 hsl hc64 hcne (by simp [hcl])
  rw [hrender]
  unfold crypt16Parse crypt16Shape
  simp only [h1, h2, Bool.not_true, Bool.false_eq_true, if_false, normChkOpt, normChecksum_ok 22 h64 c hcl hc64,
    Option.map_some, Option.bind_some, normSalt_ok h64 2 2 false s hs64 (by omega) (by omega)]

theorem bigcrypt_parse_render (p : Parsed) (h : SaltChkWF 2 (fun n => 0 < n ∧ n % 11 = 0) p) :
    bigcryptParse (saltChkRender p) = some p := by
  obtain ⟨hi, hr, he, ⟨s, hs, hs64, hsl⟩, ⟨c, hc, hc64, hcpos, hcl⟩⟩ := h
  obtain ⟨pi, pr, ps, pc, pe⟩ := p
  simp only at hi hr he hs hc
  subst hi hr he hs hc
  have hcne : c ≠ [] := List.length_pos_iff.1 hcpos
  have hrender : saltChkRender ⟨[], none, some s, some c, []⟩ = s ++ c := rfl
  obtain ⟨h1, h2⟩ := desShape_ok (fun n => n % 11 = 0) s c hs64 hsl hc64 hcne (by simp [hcl])
  have hnc : normChecksum none (some h64) c = some c := by
    unfold normChecksum charsOk; simp [hc64]
  rw [hrender]
  unfold bigcryptParse bigcryptShape
  simp only [h1, h2, Bool.not_true, Bool.false_eq_true, if_false, hnc, Option.map_some, Option.bind_some, hcl, if_true,
    normSalt_ok h64 2 2 false s hs64 (by omega) (by omega)]


/-! ### hash64 integer fields (bsdi_crypt rounds, phpass rounds) -/
theorem h64_charmap_eq : Model.B64.h64.charmap = h64 := by decide
theorem h64_charmap_ok : Lemmas.B64.CharmapOK Model.B64.h64.charmap := by decide
theorem h64_big : Model.B64.h64.big = false := by decide
theorem enc64_mem_h64 : ∀ v, v < 64 → h64.contains (Model.B64.encode64 Model.B64.h64.charmap v) = true := by decide

theorem and63 (x : Nat) : x &&& 63 = x % 64 := Nat.and_two_pow_sub_one_eq_mod x 6

theorem int24_roundtrip (n : Nat) (hn : n ≤ 16777215) :
    ∃ e, Model.B64.encodeInt24 Model.B64.h64 n = .ok e ∧ e.length = 4 ∧ allIn h64 e = true ∧
      Model.B64.decodeInt24 Model.B64.h64 e = .ok n := by
  have hmax : ¬ n > Gen.B64.encode_int24_max := by simp only [Gen.B64.encode_int24_max]; omega
  have ha : n % 64 < 64 := Nat.mod_lt _ (by decide)
  have hb : n / 64 % 64 < 64 := Nat.mod_lt _ (by decide)
  have hc : n / 4096 % 64 < 64 := Nat.mod_lt _ (by decide)
  have hd : n / 262144 % 64 < 64 := Nat.mod_lt _ (by decide)
  refine ⟨[n % 64, n / 64 % 64, n / 4096 % 64, n / 262144 % 64].map (Model.B64.encode64 Model.B64.h64.charmap), ?_, by simp, ?_, ?_⟩
  · unfold Model.B64.encodeInt24
    rw [if_neg hmax, h64_big]
    simp only [Gen.B64.encode_int24_raw, and63, Nat.shiftRight_eq_div_pow, Bool.false_eq_true, if_false]
  · unfold allIn
    simp only [List.map, List.all_cons, List.all_nil, Bool.and_true, enc64_mem_h64 _ ha, enc64_mem_h64 _ hb,
      enc64_mem_h64 _ hc, enc64_mem_h64 _ hd]
  · have hdec : ∀ v, v < 64 → Model.B64.decode64 Model.B64.h64.charmap (Model.B64.encode64 Model.B64.h64.charmap v) = some v :=
      by
      intro v hv
      unfold Model.B64.encode64
      exact h64_charmap_ok.2 v hv
    have harith : Gen.B64.decode_int24_little (n % 64) (n / 64 % 64) (n / 4096 % 64) (n / 262144 % 64) = n := by
      have h1 : n % 64 + n / 64 % 64 * 64 + n / 4096 % 64 * 4096 + n / 262144 % 64 * 262144 = n := by omega
      unfold Gen.B64.decode_int24_little
      rw [Nat.shiftLeft_eq, Nat.shiftLeft_eq, Nat.shiftLeft_eq]
      omega
    unfold Model.B64.decodeInt24
    simp only [List.map, hdec _ ha, hdec _ hb, hdec _ hc, hdec _ hd, h64_big, Bool.false_eq_true, if_false, harith]


/-! ### bsdi_crypt -/
structure BsdiWF (p : Parsed) : Prop where
  ident : p.ident = []
  extra : p.extra = []
  rounds : ∃ n : Nat, p.rounds = some (n : Int) ∧ 1 ≤ n ∧ n ≤ 16777215
  salt : ∃ s, p.salt = some s ∧ allIn h64 s = true ∧ s.length = 4
  chk : ∃ c, p.checksum = some c ∧ allIn h64 c = true ∧ c.length = 11

theorem chompNl_cons (x : Nat) (b : Str) (hne : b ≠ []) (h : allIn h64 b = true) : chompNl (x :: b) = x :: b := by
  cases b with
  | nil => exact absurd rfl hne
  | cons y ys =>
    unfold chompNl
    have : (y :: ys).getLast? ≠ some NL := by
      intro e
      exact nl_not_h64 (mem_of_allIn h64 _ h NL (List.mem_of_getLast? e))
    simp only [List.getLast?_cons_cons, this, if_false]

theorem bsdi_parse_render (p : Parsed) (h : BsdiWF p) : bsdiParse (bsdiRender p) = some p := by
  obtain ⟨hi, he, ⟨n, hr, hlo, hhi⟩, ⟨s, hs, hs64, hsl⟩, ⟨c, hc, hc64, hcl⟩⟩ := h
  obtain ⟨pi, pr, ps, pc, pe⟩ := p
  simp only at hi hr he hs hc
  subst hi hr he hs hc
  obtain ⟨e, he1, hel, he64, he2⟩ := int24_roundtrip n hhi
  have hrender : bsdiRender ⟨[], some (n : Int), some s, some c, []⟩ = UNDERSCORE :: (e ++ (s ++ c)) := by
    simp only [bsdiRender, Option.getD_some, Int.toNat_natCast, he1, toOpt, orNoneText]
  have hb64 : allIn h64 (e ++ (s ++ c)) = true := by rw [allIn_append, allIn_append, he64, hs64, hc64]; rfl
  have hblen : (e ++ (s ++ c)).length = 19 := by simp [hel, hsl, hcl]
  have hbne : e ++ (s ++ c) ≠ [] := by intro e0; rw [e0] at hblen; simp at hblen
  have hch := chompNl_cons UNDERSCORE (e ++ (s ++ c)) hbne hb64
  have hshape : bsdiShape (UNDERSCORE :: (e ++ (s ++ c))) = true := by
    unfold bsdiShape
    rw [hch]
    simp only [hblen, reH64Ci_of_allIn _ hb64, beq_self_eq_true, decide_true, Bool.and_true, Bool.or_true, Bool.true_and]
  have ht4 : (e ++ (s ++ c)).take 4 = e := List.take_left' hel
  have hd4 : ((e ++ (s ++ c)).drop 4).take 4 = s := by rw [List.drop_left' hel, List.take_left' hsl]
  have hd8 : (e ++ (s ++ c)).drop 8 = c := by
    rw [← List.append_assoc]
    exact List.drop_left' (by simp [hel, hsl])
  have hn8 : ¬ ((e ++ (s ++ c)).length = 8) := by omega
  have hrounds : normRounds 1 (some 16777215) false (n : Int) = some (n : Int) := by
    unfold normRounds
    have a : ¬ ((n : Int) < 1) := by omega
    have b : ¬ ((n : Int) > 16777215) := by omega
    simp [a, b]
  rw [hrender]
  unfold bsdiParse
  simp only [hshape, Bool.not_true, Bool.false_eq_true, if_false, hch, List.drop_succ_cons, List.drop_zero, hn8, ht4, hd4, hd8,
    he2, toOpt, Option.bind_some, normChkOpt, normChecksum_ok 11 h64 c hcl hc64, Option.map_some,
    normSalt_ok h64 4 4 false s hs64 (by omega) (by omega), hrounds]


/-! ### django_des_crypt -/
structure DjangoDesWF (p : Parsed) : Prop where
  ident : p.ident = DJANGO_DES_IDENT
  rounds : p.rounds = none
  extra : p.extra = []
  salt : ∃ s, p.salt = some s ∧ allIn h64 s = true ∧ 2 ≤ s.length
  chk : ∃ c, p.checksum = some c ∧ allIn h64 c = true ∧ c.length = 11

theorem normSalt_nomax_ok (chars : List Nat) (mn : Nat) (relaxed : Bool) (s : Str)
    (hc : allIn chars s = true) (h1 : mn ≤ s.length) : normSalt (some chars) mn none relaxed s = some s := by
  unfold normSalt
  have a : ¬ (s.length < mn) := by omega
  simp only [hc, Bool.not_true, Bool.false_eq_true, if_false, a, decide_false, Bool.and_false]

theorem allIn_take (cs s : Str) (n : Nat) (h : allIn cs s = true) : allIn cs (s.take n) = true := by
  unfold allIn at *
  rw [List.all_eq_true] at *
  intro x hx
  exact h x (List.mem_of_mem_take hx)

theorem django_des_parse_render (p : Parsed) (h : DjangoDesWF p) : djangoDesParse (djangoDesRender p) = some p := by
  obtain ⟨hi, hr, he, ⟨s, hs, hs64, hsl⟩, ⟨c, hc, hc64, hcl⟩⟩ := h
  obtain ⟨pi, pr, ps, pc, pe⟩ := p
  simp only at hi hr he hs hc
  subst hi hr he hs hc
  have ht2 : (s.take 2).length = 2 := by rw [List.length_take]; omega
  have hx64 : allIn h64 (s.take 2 ++ c) = true := by rw [allIn_append, allIn_take h64 s 2 hs64, hc64]; rfl
  have hxne : s.take 2 ++ c ≠ [] := by
    intro e0
    have := congrArg List.length e0
    simp [hcl] at this
  have hxe : (s.take 2 ++ c).isEmpty = false := by
    cases hh : s.take 2 ++ c with
    | nil => exact absurd hh hxne
    | cons _ _ => rfl
  have hsd : DOLLAR ∉ s := not_mem_of_all h64 s DOLLAR dollar_not_h64 hs64
  have hxd : DOLLAR ∉ s.take 2 ++ c := not_mem_of_all h64 _ DOLLAR dollar_not_h64 hx64
  have hse : s.isEmpty = false := by
    cases s with
    | nil => simp at hsl
    | cons _ _ => rfl
  have hrender : djangoDesRender ⟨DJANGO_DES_IDENT, none, some s, some c, []⟩ =
      DJANGO_DES_IDENT ++ (s ++ DOLLAR :: (s.take 2 ++ c)) := by
    simp only [djangoDesRender, Option.getD_some, renderMc2, hxe, Bool.false_eq_true, if_false, List.append_assoc]
  have hmc2 : parseMc2 DJANGO_DES_IDENT (DJANGO_DES_IDENT ++ (s ++ DOLLAR :: (s.take 2 ++ c))) = some (s, some (s.take 2 ++ c)) := by
    unfold parseMc2
    rw [stripPrefix_append]
    simp only [Option.bind_some, splitChar_append_sep DOLLAR s _ hsd, splitChar_no_sep DOLLAR _ hxd, orNone_of_ne _ hxne]
  have htk : (s.take 2 ++ c).take 2 = s.take 2 := List.take_left' ht2
  have hdr : (s.take 2 ++ c).drop 2 = c := List.drop_left' ht2
  rw [hrender]
  unfold djangoDesParse
  simp only [hmc2, Option.bind_some, hse, Bool.false_eq_true, if_false, htk, hdr, ne_eq, not_true_eq_false,
    normChkOpt, normChecksum_ok 11 h64 c hcl hc64, Option.map_some, normSalt_nomax_ok h64 2 false s hs64 hsl]

/-! ### phpass -/
structure PhpassWF (p : Parsed) : Prop where
  ident : p.ident = ofString "$P$" ∨ p.ident = ofString "$H$"
  extra : p.extra = []
  rounds : ∃ n : Nat, p.rounds = some (n : Int) ∧ 7 ≤ n ∧ n ≤ 30
  salt : ∃ s, p.salt = some s ∧ allIn h64 s = true ∧ s.length = 8
  chk : p.checksum = none ∨ ∃ c, p.checksum = some c ∧ allIn h64 c = true ∧ c ≠ []

theorem phpass_ident (i rest : Str) (hi : i = ofString "$P$" ∨ i = ofString "$H$") :
    parseIdent phpassIdents (i ++ rest) = some (i, rest) := by
  rcases hi with rfl | rfl
  · exact parseIdent_append phpassIdents _ rest (by decide) (by decide)
  · exact parseIdent_append phpassIdents _ rest (by decide) (by decide)

theorem phpass_parse_render (p : Parsed) (h : PhpassWF p) : phpassParse (phpassRender p) = some p := by
  obtain ⟨hi, he, ⟨n, hr, hlo, hhi⟩, ⟨s, hs, hs64, hsl⟩, hc⟩ := h
  obtain ⟨pi, pr, ps, pc, pe⟩ := p
  simp only at hi hr he hs hc
  subst hr he hs
  have hn64 : n < 64 := by omega
  have henc : Model.B64.encodeInt6 Model.B64.h64 n = .ok [Model.B64.encode64 Model.B64.h64.charmap n] := by
    unfold Model.B64.encodeInt6
    have : ¬ n > 63 := by omega
    rw [if_neg this]
  have hdec : Model.B64.decodeInt6 Model.B64.h64 [Model.B64.encode64 Model.B64.h64.charmap n] = .ok n := by
    unfold Model.B64.decodeInt6
    have : Model.B64.decode64 Model.B64.h64.charmap (Model.B64.encode64 Model.B64.h64.charmap n) = some n := by
      unfold Model.B64.encode64
      exact h64_charmap_ok.2 n hn64
    simp only [this]
  have hrounds : normRounds 7 (some 30) false (n : Int) = some (n : Int) := by
    unfold normRounds
    have a : ¬ ((n : Int) < 7) := by omega
    have b : ¬ ((n : Int) > 30) := by omega
    simp [a, b]
  have hsalt := normSalt_ok h64 8 8 false s hs64 (by omega) (by omega)
  rcases hc with hc | ⟨c, hc, hc64, hcne⟩
  · subst hc
    have hrender : phpassRender ⟨pi, some (n : Int), some s, none, []⟩ =
        pi ++ (Model.B64.encode64 Model.B64.h64.charmap n :: (s ++ [])) := by
      simp only [phpassRender, Option.getD_some, Int.toNat_natCast, henc, toOpt, Option.getD_none, List.cons_append,
        List.nil_append]
    rw [hrender]
    unfold phpassParse
    simp only [phpass_ident pi _ hi, Option.bind_some, hdec, toOpt, List.append_nil, List.drop_of_length_le (Nat.le_of_eq hsl),
      List.take_of_length_le (Nat.le_of_eq hsl), orNone, List.isEmpty_nil, if_true, normChkOpt, hsalt, hrounds, Option.map_some]
  · subst hc
    have hnc : normChecksum none (some h64) c = some c := by
      unfold normChecksum charsOk; simp [hc64]
    have hrender : phpassRender ⟨pi, some (n : Int), some s, some c, []⟩ =
        pi ++ (Model.B64.encode64 Model.B64.h64.charmap n :: (s ++ c)) := by
      simp only [phpassRender, Option.getD_some, Int.toNat_natCast, henc, toOpt, List.cons_append, List.nil_append]
    rw [hrender]
    unfold phpassParse
    simp only [phpass_ident pi _ hi, Option.bind_some, hdec, toOpt, List.drop_left' hsl, List.take_left' hsl,
      orNone_of_ne c hcne, normChkOpt, hnc, hsalt, hrounds, Option.map_some]


/-! ### sun_md5_crypt -/
theorem splitFirst_append (sep : Nat) : ∀ (a b : Str), sep ∉ a → splitFirst sep (a ++ sep :: b) = some (a, b)
  | [], b, _ => by simp [splitFirst]
  | c :: a, b, h => by
    have hc : c ≠ sep := fun e => h (by simp [e])
    have ih := splitFirst_append sep a b (fun hm => h (by simp [hm]))
    simp only [List.cons_append, splitFirst, hc, if_false, ih, Option.map_some]

theorem splitLast_none (sep : Nat) : ∀ b : Str, sep ∉ b → splitLast sep b = none
  | [], _ => rfl
  | c :: b, h => by
    have hc : c ≠ sep := fun e => h (by simp [e])
    have ih := splitLast_none sep b (fun hm => h (by simp [hm]))
    simp only [splitLast, ih, hc, if_false]

theorem splitLast_append (sep : Nat) : ∀ (a b : Str), sep ∉ b → splitLast sep (a ++ sep :: b) = some (a, b)
  | [], b, h => by simp only [List.nil_append, splitLast, splitLast_none sep b h, if_true]
  | c :: a, b, h => by
    have ih := splitLast_append sep a b h
    simp only [List.cons_append, splitLast, ih]

structure SunWF (p : Parsed) : Prop where
  ident : p.ident = []
  rounds : ∃ n : Nat, p.rounds = some (n : Int) ∧ n ≤ 4294963199
  chk : ∃ c, p.checksum = some c ∧ allIn h64 c = true ∧ c.length = 22
  /-- a bare salt (no `$` suffix) cannot be empty: `$md5$$<chk>` reads back as an empty NON-bare salt -/
  salt : ∃ s, p.salt = some s ∧ allIn h64 s = true ∧
    (p.extra = bareFlag false ∨ (p.extra = bareFlag true ∧ s ≠ []))

theorem sunTail_ok (s c : Str) (bare : Bool) (hs64 : allIn h64 s = true) (hc64 : allIn h64 c = true) (hcne : c ≠ [])
    (hb : bare = true → s ≠ []) :
    sunTail (s ++ ((if bare then [] else [DOLLAR]) ++ DOLLAR :: c)) = some (s, some c, bare) := by
  have hcd : DOLLAR ∉ c := not_mem_of_all h64 c DOLLAR dollar_not_h64 hc64
  have hsd : DOLLAR ∉ s := not_mem_of_all h64 s DOLLAR dollar_not_h64 hs64
  have hce : c.isEmpty = false := by
    cases c with
    | nil => exact absurd rfl hcne
    | cons _ _ => rfl
  cases bare with
  | true =>
    have hsne := hb rfl
    have hse : s.isEmpty = false := by
      cases s with
      | nil => exact absurd rfl hsne
      | cons _ _ => rfl
    have hlast : s.getLast? ≠ some DOLLAR := fun e => hsd (List.mem_of_getLast? e)
    unfold sunTail
    simp only [if_true, List.nil_append, splitLast_append DOLLAR s c hcd, hce, Bool.false_eq_true, if_false, hse, hlast,
      Bool.false_or, decide_false]
  | false =>
    have hsplit : splitLast DOLLAR (s ++ ([DOLLAR] ++ DOLLAR :: c)) = some (s ++ [DOLLAR], c) := by
      have : s ++ ([DOLLAR] ++ DOLLAR :: c) = (s ++ [DOLLAR]) ++ DOLLAR :: c := by simp
      rw [this]
      exact splitLast_append DOLLAR _ c hcd
    unfold sunTail
    simp only [Bool.false_eq_true, if_false, hsplit, hce, List.getLast?_append, List.getLast?_singleton,
      Option.some_or, decide_true, Bool.or_true, if_true, List.dropLast_concat]

theorem sun_parse_render (p : Parsed) (h : SunWF p) : sunParse (sunRender p) = some p := by
  obtain ⟨hi, ⟨n, hr, hhi⟩, ⟨c, hc, hc64, hcl⟩, ⟨s, hs, hs64, hex⟩⟩ := h
  obtain ⟨pi, pr, ps, pc, pe⟩ := p
  simp only at hi hr hs hc hex
  subst hi hr hs hc
  have hcne : c ≠ [] := ne_nil_of_length c 21 hcl
  -- the bare flag
  obtain ⟨bare, hpe, hb⟩ : ∃ bare : Bool, pe = bareFlag bare ∧ (bare = true → s ≠ []) := by
    rcases hex with e | ⟨e, hne⟩
    · exact ⟨false, e, fun h => by cases h⟩
    · exact ⟨true, e, fun _ => hne⟩
  subst hpe
  have hss : (if bareFlag bare = bareFlag true then ([] : Str) else [DOLLAR]) = (if bare then [] else [DOLLAR]) := by
    cases bare <;> decide
  have htail := sunTail_ok s c bare hs64 hc64 hcne hb
  have hsalt : normSalt (some h64) 0 none false s = some s := normSalt_nomax_ok h64 0 false s hs64 (Nat.zero_le _)
  have hrounds : normRounds 0 (some 4294963199) false (n : Int) = some (n : Int) := by
    unfold normRounds
    have a : ¬ ((n : Int) < 0) := by omega
    have b : ¬ ((n : Int) > 4294963199) := by omega
    simp [a, b]
  have hfin : ((sunTail (s ++ ((if bare then [] else [DOLLAR]) ++ DOLLAR :: c))).bind fun (salt, chk, bare') =>
      (normChkOpt (some 22) (some h64) chk).bind fun chk' =>
      (normSalt (some h64) 0 none false salt).bind fun s' =>
      (normRounds 0 (some 4294963199) false (n : Int)).map fun r =>
        ({ rounds := some r, salt := some s', checksum := chk', extra := bareFlag bare' } : Parsed)) =
      some ⟨[], some (n : Int), some s, some c, bareFlag bare⟩ := by
    simp only [htail, Option.bind_some, normChkOpt, normChecksum_ok 22 h64 c hcl hc64, Option.map_some, hsalt, hrounds]
  by_cases hn0 : n = 0
  · subst hn0
    have hrender : sunRender ⟨[], some ((0 : Nat) : Int), some s, some c, bareFlag bare⟩ =
        SUN_IDENT ++ (s ++ ((if bare then [] else [DOLLAR]) ++ DOLLAR :: c)) := by
      simp only [sunRender, Option.getD_some, hss, orNoneText]
      rfl
    have hhead : sunHead (SUN_IDENT ++ (s ++ ((if bare then [] else [DOLLAR]) ++ DOLLAR :: c))) =
        some (0, s ++ ((if bare then [] else [DOLLAR]) ++ DOLLAR :: c)) := by
      unfold sunHead
      rw [prefix_append, if_pos rfl, List.drop_left' (by decide : SUN_IDENT.length = 5)]
    rw [hrender]
    unfold sunParse
    rw [hhead]
    simp only [Option.bind_some]
    exact hfin
  · have hpos : ((n : Int) > 0) := by omega
    have hrender : sunRender ⟨[], some (n : Int), some s, some c, bareFlag bare⟩ =
        SUN_ROUNDS_IDENT ++ (fmtDec (n : Int) ++ DOLLAR :: (s ++ ((if bare then [] else [DOLLAR]) ++ DOLLAR :: c))) := by
      simp only [sunRender, Option.getD_some, hss, orNoneText, hpos, if_true]
    have hrd : DOLLAR ∉ fmtDec (n : Int) := by
      intro hm
      have := fmtDec_digits n DOLLAR hm
      unfold DOLLAR at this; omega
    have hp1 : SUN_IDENT.isPrefixOf (SUN_ROUNDS_IDENT ++ (fmtDec (n : Int) ++ DOLLAR :: (s ++ ((if bare then [] else [DOLLAR]) ++ DOLLAR :: c)))) = false := by
      rw [isPrefixOf_append_of_le SUN_IDENT SUN_ROUNDS_IDENT _ (by decide)]
      decide
    have hne0 : ¬ ((n : Int) = 0) := by omega
    have hhead : sunHead (SUN_ROUNDS_IDENT ++ (fmtDec (n : Int) ++ DOLLAR :: (s ++ ((if bare then [] else [DOLLAR]) ++ DOLLAR :: c)))) =
        some ((n : Int), s ++ ((if bare then [] else [DOLLAR]) ++ DOLLAR :: c)) := by
      unfold sunHead
      rw [hp1, prefix_append, List.drop_left' (by decide : SUN_ROUNDS_IDENT.length = 12), splitFirst_append DOLLAR _ _ hrd]
      simp only [Bool.false_eq_true, if_false, if_true, Option.bind_some, intField, int_of_fmtDec, ne_eq, not_true_eq_false, hne0]
    rw [hrender]
    unfold sunParse
    rw [hhead]
    simp only [Option.bind_some]
    exact hfin


/-! ### bcrypt -/
theorem dollar_not_bc64 : DOLLAR ∉ bc64 := by decide
theorem nl_not_bc64 : NL ∉ bc64 := by decide

/-- canonical bcrypt64 text of a fixed size: in the alphabet, and a fixed point of the padding-bit repair -/
def BcCanon (n : Nat) (s : Str) : Prop := allIn bc64 s = true ∧ s.length = n ∧ bcRepair s = some s

def bcryptOkIdents : List Str := [IDENT_2, IDENT_2A, IDENT_2Y, IDENT_2B]

structure BcryptWF (p : Parsed) : Prop where
  ident : p.ident ∈ bcryptOkIdents
  extra : p.extra = []
  rounds : ∃ n : Nat, p.rounds = some (n : Int) ∧ 4 ≤ n ∧ n ≤ 31
  salt : ∃ s, p.salt = some s ∧ BcCanon 22 s
  chk : ∃ c, p.checksum = some c ∧ BcCanon 31 c

set_option maxRecDepth 100000 in
theorem pad2_facts : ∀ n : Nat, n < 32 → 4 ≤ n →
    intField (fmtZeroPad 2 (n : Int)) = some (n : Int) ∧ (fmtZeroPad 2 (n : Int)).all (· != DOLLAR) = true := by
  decide +kernel

theorem not_mem_of_all_ne (x : Str) (sep : Nat) (h : x.all (· != sep) = true) : sep ∉ x := by
  intro hm
  rw [List.all_eq_true] at h
  have := h sep hm
  simp at this

theorem bcFields_ok (ident : Str) (n : Nat) (s c : Str) (extra : List (String × Str)) (hlo : 4 ≤ n) (hhi : n ≤ 31)
    (hs : BcCanon 22 s) (hc : BcCanon 31 c) :
    bcFields ident (n : Int) s (some c) extra = some ⟨ident, some (n : Int), some s, some c, extra⟩ := by
  obtain ⟨hs64, hsl, hsr⟩ := hs
  obtain ⟨hc64, hcl, hcr⟩ := hc
  have hrounds : normRounds 4 (some 31) false (n : Int) = some (n : Int) := by
    unfold normRounds
    have a : ¬ ((n : Int) < 4) := by omega
    have b : ¬ ((n : Int) > 31) := by omega
    simp [a, b]
  unfold bcFields bcNormChk bcNormSalt
  simp only [normChecksum_ok 31 bc64 c hcl hc64, Option.bind_some, hcr, Option.map_some,
    normSalt_ok bc64 22 22 false s hs64 (by omega) (by omega), hsr, hrounds]

theorem bcrypt_ident (i rest : Str) (hi : i ∈ bcryptOkIdents) :
    parseIdent bcryptIdents (i ++ rest) = some (i, rest) ∧ i ≠ IDENT_2X ∧ (ofString "$2").isPrefixOf (i ++ rest) = true := by
  have h2 : ∀ j : Str, j.length ≥ 2 → (ofString "$2").isPrefixOf (j ++ rest) = (ofString "$2").isPrefixOf j :=
    fun j hj => isPrefixOf_append_of_le _ j rest (by
      have : (ofString "$2").length = 2 := by decide
      omega)
  simp only [bcryptOkIdents, List.mem_cons, List.not_mem_nil, or_false] at hi
  rcases hi with rfl | rfl | rfl | rfl
  · refine ⟨?_, by decide, by rw [h2 _ (by decide)]; decide⟩
    unfold parseIdent bcryptIdents
    simp only [List.find?, prefix_append, Option.map_some, List.drop_left' (rfl : IDENT_2.length = IDENT_2.length)]
  · exact ⟨parseIdent_append bcryptIdents _ rest (by decide) (by decide), by decide, by rw [h2 _ (by decide)]; decide⟩
  · exact ⟨parseIdent_append bcryptIdents _ rest (by decide) (by decide), by decide, by rw [h2 _ (by decide)]; decide⟩
  · exact ⟨parseIdent_append bcryptIdents _ rest (by decide) (by decide), by decide, by rw [h2 _ (by decide)]; decide⟩

theorem bcrypt_parse_render (p : Parsed) (h : BcryptWF p) : bcryptParseWith bcryptIdents (bcryptRender p) = some p := by
  obtain ⟨hi, he, ⟨n, hr, hlo, hhi⟩, ⟨s, hs, hsc⟩, ⟨c, hc, hcc⟩⟩ := h
  obtain ⟨pi, pr, ps, pc, pe⟩ := p
  simp only at hi hr he hs hc
  subst hr he hs hc
  obtain ⟨hid, hnx, _⟩ := bcrypt_ident pi (fmtZeroPad 2 (n : Int) ++ DOLLAR :: (s ++ c)) hi
  obtain ⟨hint, hpd⟩ := pad2_facts n (by omega) hlo
  have hpd' : DOLLAR ∉ fmtZeroPad 2 (n : Int) := not_mem_of_all_ne _ _ hpd
  have hscd : DOLLAR ∉ s ++ c := by
    intro hm
    rcases List.mem_append.1 hm with h1 | h1
    · exact not_mem_of_all bc64 s DOLLAR dollar_not_bc64 hsc.1 h1
    · exact not_mem_of_all bc64 c DOLLAR dollar_not_bc64 hcc.1 h1
  have hcne : c ≠ [] := ne_nil_of_length c 30 hcc.2.1
  have hrender : bcryptRender ⟨pi, some (n : Int), some s, some c, []⟩ = pi ++ (fmtZeroPad 2 (n : Int) ++ DOLLAR :: (s ++ c)) := rfl
  rw [hrender]
  unfold bcryptParseWith
  rw [hid]
  simp only [Option.bind_some, hnx, if_false, splitChar_append_sep DOLLAR _ _ hpd', splitChar_no_sep DOLLAR _ hscd, hint,
    ne_eq, not_true_eq_false, List.take_left' hsc.2.1, List.drop_left' hsc.2.1, orNone_of_ne c hcne]
  exact bcFields_ok pi n s c [] hlo hhi hsc hcc

/-- django_bcrypt = "bcrypt$" + bcrypt -/
theorem django_bcrypt_parse_render (p : Parsed) (h : BcryptWF p) : django_bcrypt.parse (django_bcrypt.render p) = some p := by
  show (stripPrefix DJANGO_BCRYPT_PREFIX (DJANGO_BCRYPT_PREFIX ++ bcryptRender p)).bind (bcryptParseWith bcryptIdents) = some p
  rw [stripPrefix_append]
  exact bcrypt_parse_render p h

/-- django_bcrypt_sha256 = "bcrypt_sha256$" + bcrypt -/
theorem django_bcrypt_sha256_parse_render (p : Parsed) (h : BcryptWF p) :
    djangoBcryptSha256Parse (DJANGO_BCRYPT_SHA256_PREFIX ++ bcryptRender p) = some p := by
  have h2 : (ofString "$2").isPrefixOf (bcryptRender p) = true := (bcrypt_ident p.ident _ h.ident).2.2
  unfold djangoBcryptSha256Parse
  rw [stripPrefix_append]
  simp only [Option.bind_some, h2, Bool.not_true, Bool.false_eq_true, if_false]
  exact bcrypt_parse_render p h


/-! ### bcrypt_sha256 (v1 and v2 strings) -/
structure BcryptSha256WF (p : Parsed) : Prop where
  /-- version 1 with either bcrypt variant, version 2 with "2b" only (what `using()` allows) -/
  version : (p.extra = versionExtra 1 ∧ (p.ident = IDENT_2A ∨ p.ident = IDENT_2B)) ∨ (p.extra = versionExtra 2 ∧ p.ident = IDENT_2B)
  rounds : ∃ n : Nat, p.rounds = some (n : Int) ∧ 4 ≤ n ∧ n ≤ 31
  salt : ∃ s, p.salt = some s ∧ BcCanon 22 s
  chk : ∃ c, p.checksum = some c ∧ BcCanon 31 c

set_option maxRecDepth 100000 in
set_option synthInstance.maxSize 2000 in
theorem bs_settings_v2 : ∀ n : Nat, n < 32 → 4 ≤ n →
    bsSettings (ofString "v=2,t=2b,r=" ++ fmtDec (n : Int)) = some (2, ofString "2b", fmtDec (n : Int)) ∧
    (ofString "v=2,t=2b,r=" ++ fmtDec (n : Int)).all (· != DOLLAR) = true := by
  decide +kernel

set_option maxRecDepth 100000 in
theorem bs_rounds : ∀ n : Nat, n < 32 → 4 ≤ n →
    zeroPadded (fmtDec (n : Int)) = false ∧ intField (fmtDec (n : Int)) = some (n : Int) := by
  decide +kernel

set_option maxRecDepth 100000 in
set_option synthInstance.maxSize 2000 in
theorem bs_settings_v1 : ∀ n : Nat, n < 32 → 4 ≤ n →
    (bsSettings (ofString "2a," ++ fmtDec (n : Int)) = some (1, ofString "2a", fmtDec (n : Int)) ∧
     (ofString "2a," ++ fmtDec (n : Int)).all (· != DOLLAR) = true) ∧
    (bsSettings (ofString "2b," ++ fmtDec (n : Int)) = some (1, ofString "2b", fmtDec (n : Int)) ∧
     (ofString "2b," ++ fmtDec (n : Int)).all (· != DOLLAR) = true) := by
  decide +kernel

theorem bs_core (st t : Str) (ver : Int) (n : Nat) (s c : Str) (hlo : 4 ≤ n) (hhi : n ≤ 31)
    (hset : bsSettings st = some (ver, t, fmtDec (n : Int))) (hstd : DOLLAR ∉ st) (hver : ver = 1 ∨ ver = 2)
    (hs : BcCanon 22 s) (hc : BcCanon 31 c) :
    bcryptSha256Parse (BCRYPT_SHA256_PREFIX ++ (st ++ DOLLAR :: (s ++ DOLLAR :: c))) =
      some ⟨DOLLAR :: (t ++ [DOLLAR]), some (n : Int), some s, some c, versionExtra ver⟩ := by
  obtain ⟨hz, hint⟩ := bs_rounds n (by omega) hlo
  have hsd : DOLLAR ∉ s := not_mem_of_all bc64 s DOLLAR dollar_not_bc64 hs.1
  have hcd : DOLLAR ∉ c := not_mem_of_all bc64 c DOLLAR dollar_not_bc64 hc.1
  have hseg : bsSegments (st ++ DOLLAR :: (s ++ DOLLAR :: c)) = some (st, s, some c) := by
    unfold bsSegments
    simp only [splitChar_append_sep DOLLAR st _ hstd, splitChar_append_sep DOLLAR s c hsd, splitChar_no_sep DOLLAR c hcd,
      hs.2.1, if_true, lastSeg, hc.2.1, Option.map_some]
  have hv : (!(decide (ver = 1) || decide (ver = 2))) = false := by
    rcases hver with rfl | rfl <;> decide
  unfold bcryptSha256Parse
  rw [stripPrefix_append]
  simp only [Option.bind_some, hseg, hset, hz, Bool.false_eq_true, if_false, hint, hv]
  exact bcFields_ok _ n s c _ hlo hhi hs hc

theorem bcrypt_sha256_parse_render (p : Parsed) (h : BcryptSha256WF p) : bcryptSha256Parse (bcryptSha256Render p) = some p := by
  obtain ⟨hv, ⟨n, hr, hlo, hhi⟩, ⟨s, hs, hsc⟩, ⟨c, hc, hcc⟩⟩ := h
  obtain ⟨pi, pr, ps, pc, pe⟩ := p
  simp only at hv hr hs hc
  subst hr hs hc
  obtain ⟨⟨h1a, h1ad⟩, ⟨h1b, h1bd⟩⟩ := bs_settings_v1 n (by omega) hlo
  obtain ⟨h2, h2d⟩ := bs_settings_v2 n (by omega) hlo
  rcases hv with ⟨he, hi | hi⟩ | ⟨he, hi⟩
  · subst he hi
    have hrender : bcryptSha256Render ⟨IDENT_2A, some (n : Int), some s, some c, versionExtra 1⟩ =
        BCRYPT_SHA256_PREFIX ++ ((ofString "2a," ++ fmtDec (n : Int)) ++ DOLLAR :: (s ++ DOLLAR :: c)) := by
      have e : stripDollars IDENT_2A = ofString "2a" := by decide
      have e2 : ofString "2a" ++ [COMMA] = ofString "2a," := by decide
      simp only [bcryptSha256Render, if_true, e, Option.getD_some, orNoneText, ← e2, List.append_assoc, List.cons_append,
        List.nil_append]
    rw [hrender, bs_core _ _ 1 n s c hlo hhi h1a (not_mem_of_all_ne _ _ h1ad) (Or.inl rfl) hsc hcc]
    rfl
  · subst he hi
    have hrender : bcryptSha256Render ⟨IDENT_2B, some (n : Int), some s, some c, versionExtra 1⟩ =
        BCRYPT_SHA256_PREFIX ++ ((ofString "2b," ++ fmtDec (n : Int)) ++ DOLLAR :: (s ++ DOLLAR :: c)) := by
      have e : stripDollars IDENT_2B = ofString "2b" := by decide
      have e2 : ofString "2b" ++ [COMMA] = ofString "2b," := by decide
      simp only [bcryptSha256Render, if_true, e, Option.getD_some, orNoneText, ← e2, List.append_assoc, List.cons_append,
        List.nil_append]
    rw [hrender, bs_core _ _ 1 n s c hlo hhi h1b (not_mem_of_all_ne _ _ h1bd) (Or.inl rfl) hsc hcc]
    rfl
  · subst he hi
    have hrender : bcryptSha256Render ⟨IDENT_2B, some (n : Int), some s, some c, versionExtra 2⟩ =
        BCRYPT_SHA256_PREFIX ++ ((ofString "v=2,t=2b,r=" ++ fmtDec (n : Int)) ++ DOLLAR :: (s ++ DOLLAR :: c)) := by
      have e : stripDollars IDENT_2B = ofString "2b" := by decide
      have e2 : ofString "v=2,t=" ++ (ofString "2b" ++ ofString ",r=") = ofString "v=2,t=2b,r=" := by decide
      have hne : ¬ (versionExtra 2 = versionExtra 1) := by decide
      simp only [bcryptSha256Render, hne, if_false, e, Option.getD_some, orNoneText, ← e2, List.append_assoc]
    rw [hrender, bs_core _ _ 2 n s c hlo hhi h2 (not_mem_of_all_ne _ _ h2d) (Or.inr rfl) hsc hcc]
    rfl


/-! ### bcrypt: the padding-bit repair (`bcrypt64.check_repair_unused`) yields the canonical form -/
open Model.B64 in
theorem bc_pad_facts : ∀ v, v < 64 → ∀ bits ∈ [15, 3],
    decode64 bc64 (encode64 bc64 (v &&& (63 - bits))) = some (v &&& (63 - bits)) ∧
    (v &&& (63 - bits)) &&& bits = 0 ∧ bc64.contains (encode64 bc64 (v &&& (63 - bits))) = true := by
  decide

open Model.B64 in
theorem bc_padBits (t : Nat) : padBits bcrypt64 t = 15 ∨ padBits bcrypt64 t = 3 := by
  unfold padBits
  by_cases h : t = 2 <;> simp [h, bcrypt64, Gen.B64.bcrypt64_big, Gen.B64.padinfo2BitsBig, Gen.B64.padinfo3BitsBig]

open Model.B64 in
/-- evaluation of the repair on a string with a decodable last character -/
theorem bcRepair_eval (init : Str) (last v : Nat) (ht : (init ++ [last]).length % 4 = 2 ∨ (init ++ [last]).length % 4 = 3)
    (hdec : decode64 bc64 last = some v) :
    bcRepair (init ++ [last]) = some (if v &&& padBits bcrypt64 ((init ++ [last]).length % 4) = 0 then init ++ [last]
      else init ++ [encode64 bc64 (v &&& (63 - padBits bcrypt64 ((init ++ [last]).length % 4)))]) := by
  have h0 : ¬ ((init ++ [last]).length % 4 = 0) := by omega
  have h1 : ¬ ((init ++ [last]).length % 4 = 1) := by omega
  have hdec' : decode64 bcrypt64.charmap last = some v := hdec
  unfold bcRepair checkRepairUnused
  simp only [h0, h1, if_false, List.getLast?_append, List.getLast?_singleton, Option.some_or, hdec', List.dropLast_concat]
  by_cases hz : v &&& padBits bcrypt64 ((init ++ [last]).length % 4) = 0
  · simp only [hz, if_true]
  · simp only [hz, if_false]
    rfl

open Model.B64 in
theorem decode64_of_mem (c : Nat) (h : c ∈ bc64) : ∃ v, v < 64 ∧ decode64 bc64 c = some v := by
  have hl : bc64.length = 64 := by decide
  have hi : bc64.idxOf c < bc64.length := List.idxOf_lt_length_of_mem h
  refine ⟨bc64.idxOf c, by omega, ?_⟩
  unfold decode64
  simp only [hi, if_true]

/-- the repair succeeds on well-shaped bcrypt64 text, changes at most the last character, and its result is canonical
    (a fixed point: repairing twice is repairing once) -/
theorem bcRepair_spec (s : Str) (hs : allIn bc64 s = true) (ht : s.length % 4 = 2 ∨ s.length % 4 = 3) :
    ∃ r, bcRepair s = some r ∧ allIn bc64 r = true ∧ r.length = s.length ∧ r.dropLast = s.dropLast ∧ bcRepair r = some r := by
  rcases List.eq_nil_or_concat s with rfl | ⟨init, last, e⟩
  · simp at ht
  · rw [List.concat_eq_append] at e
    subst e
    have hinit : allIn bc64 init = true := by
      rw [allIn_append] at hs
      exact (Bool.and_eq_true _ _ ▸ hs).1
    have hlast : last ∈ bc64 := mem_of_allIn bc64 _ hs last (by simp)
    obtain ⟨v, hv, hdec⟩ := decode64_of_mem last hlast
    have hev := bcRepair_eval init last v ht hdec
    generalize hb : Model.B64.padBits Model.B64.bcrypt64 ((init ++ [last]).length % 4) = bits at hev
    have hbm : bits ∈ [15, 3] := by
      rcases bc_padBits ((init ++ [last]).length % 4) with e | e <;> rw [hb] at e <;> simp [e]
    by_cases hz : v &&& bits = 0
    · rw [if_pos hz] at hev
      exact ⟨_, hev, hs, rfl, rfl, hev⟩
    · rw [if_neg hz] at hev
      obtain ⟨f1, f2, f3⟩ := bc_pad_facts v hv bits hbm
      have hlen : (init ++ [Model.B64.encode64 bc64 (v &&& (63 - bits))]).length = (init ++ [last]).length := by simp
      have ht' : (init ++ [Model.B64.encode64 bc64 (v &&& (63 - bits))]).length % 4 = 2 ∨
          (init ++ [Model.B64.encode64 bc64 (v &&& (63 - bits))]).length % 4 = 3 := by rw [hlen]; exact ht
      have hev2 := bcRepair_eval init _ _ ht' f1
      rw [hlen, hb, if_pos f2] at hev2
      refine ⟨_, hev, ?_, hlen, by simp, hev2⟩
      have f3' : Model.B64.encode64 bc64 (v &&& (63 - bits)) ∈ bc64 := by simpa using f3
      rw [allIn_append, hinit]
      simp [allIn, f3']

theorem bcCanon_of_repair (n : Nat) (hn : n % 4 = 2 ∨ n % 4 = 3) (s r : Str) (hs : allIn bc64 s = true) (hl : s.length = n)
    (h : bcRepair s = some r) : BcCanon n r := by
  obtain ⟨r', h1, h2, h3, _, h5⟩ := bcRepair_spec s hs (by rw [hl]; exact hn)
  rw [h] at h1
  cases h1
  exact ⟨h2, by rw [h3, hl], h5⟩


/-- a salt whose last character is one of `final_salt_chars` = ".Oeu" is canonical -/
theorem bcCanon_salt_of_final (s : Str) (hs : allIn bc64 s = true) (hl : s.length = 22)
    (hlast : ∃ c ∈ ofString ".Oeu", s.getLast? = some c) : BcCanon 22 s := by
  refine ⟨hs, hl, ?_⟩
  obtain ⟨c, hc, hg⟩ := hlast
  rcases List.eq_nil_or_concat s with rfl | ⟨init, last, e⟩
  · simp at hl
  · rw [List.concat_eq_append] at e
    subst e
    have hcl : c = last := by simpa using hg.symm
    subst hcl
    have ht : (init ++ [c]).length % 4 = 2 ∨ (init ++ [c]).length % 4 = 3 := by rw [hl]; decide
    have hpb : Model.B64.padBits Model.B64.bcrypt64 ((init ++ [c]).length % 4) = 15 := by rw [hl]; decide
    have hd : ∃ v, Model.B64.decode64 bc64 c = some v ∧ v &&& 15 = 0 := by
      have hc' : c = 46 ∨ c = 79 ∨ c = 101 ∨ c = 117 := by
        have : ofString ".Oeu" = [46, 79, 101, 117] := by decide
        rw [this] at hc
        simpa using hc
      rcases hc' with rfl | rfl | rfl | rfl
      · exact ⟨0, by decide, by decide⟩
      · exact ⟨16, by decide, by decide⟩
      · exact ⟨32, by decide, by decide⟩
      · exact ⟨48, by decide, by decide⟩
    obtain ⟨v, hdec, hz⟩ := hd
    have := bcRepair_eval init c v ht hdec
    rw [hpb, if_pos hz] at this
    exact this

/-! ### bcrypt: what `from_string` returns is well formed (so its rendering is a fixed point) -/
theorem normRounds_spec (lo hi v r : Int) (hhi : hi ≠ 0) (h : normRounds lo (some hi) false v = some r) :
    r = v ∧ lo ≤ v ∧ v ≤ hi := by
  unfold normRounds at h
  by_cases h1 : v < lo
  · simp [h1] at h
  · by_cases h2 : v > hi
    · simp [h1, h2, hhi] at h
    · simp only [h1, if_false, h2, decide_false, Bool.and_false, Bool.false_eq_true, Option.some.injEq] at h
      exact ⟨h.symm, by omega, by omega⟩

/-- settings as parsed: like `BcryptWF`, but a config string has no checksum -/
structure BcryptFieldsWF (ident : Str) (extra : List (String × Str)) (p : Parsed) : Prop where
  ident : p.ident = ident
  extra : p.extra = extra
  rounds : ∃ n : Nat, p.rounds = some (n : Int) ∧ 4 ≤ n ∧ n ≤ 31
  salt : ∃ s, p.salt = some s ∧ BcCanon 22 s
  chk : p.checksum = none ∨ ∃ c, p.checksum = some c ∧ BcCanon 31 c

theorem bc64_ne_nil : bc64 ≠ [] := by decide

theorem bcFields_spec (ident : Str) (rounds : Int) (salt : Str) (chk : Option Str) (extra : List (String × Str)) (p : Parsed)
    (h : bcFields ident rounds salt chk extra = some p) : BcryptFieldsWF ident extra p := by
  unfold bcFields at h
  cases hk : bcNormChk chk with
  | none => simp [hk] at h
  | some chk' =>
    simp only [hk, Option.bind_some] at h
    cases hsn : bcNormSalt salt with
    | none => simp [hsn] at h
    | some s =>
      simp only [hsn, Option.bind_some] at h
      cases hrn : normRounds 4 (some 31) false rounds with
      | none => simp [hrn] at h
      | some r =>
        simp only [hrn, Option.map_some, Option.some.injEq] at h
        subst h
        obtain ⟨e, hlo, hhi⟩ := normRounds_spec 4 31 rounds r (by decide) hrn
        subst e
        refine ⟨rfl, rfl, ⟨r.toNat, ?_, by omega, by omega⟩, ⟨s, rfl, ?_⟩, ?_⟩
        · simp only [Option.some.injEq]; omega
        · unfold bcNormSalt at hsn
          cases hn : normSalt (some bc64) 22 (some 22) false salt with
          | none => simp [hn] at hsn
          | some s0 =>
            simp only [hn, Option.bind_some] at hsn
            obtain ⟨e, h64', hmn, hmx⟩ := normSalt_spec bc64 22 22 salt s0 (by decide) hn
            subst e
            have hl : s0.length = 22 := by
              rcases hmn with h0 | h0
              · cases h0
              · omega
            exact bcCanon_of_repair 22 (by decide) s0 s h64' hl hsn
        · cases chk with
          | none =>
            simp only [bcNormChk, Option.some.injEq] at hk
            subst hk
            exact Or.inl rfl
          | some c =>
            simp only [bcNormChk] at hk
            cases hn : normChecksum (some 31) (some bc64) c with
            | none => simp [hn] at hk
            | some c0 =>
              simp only [hn, Option.bind_some] at hk
              obtain ⟨e, hl, h64'⟩ := normChecksum_spec 31 bc64 c c0 (by decide) bc64_ne_nil hn
              subst e
              cases hr : bcRepair c0 with
              | none => simp [hr] at hk
              | some c1 =>
                simp only [hr, Option.map_some, Option.some.injEq] at hk
                subst hk
                exact Or.inr ⟨c1, rfl, bcCanon_of_repair 31 (by decide) c0 c1 h64' hl hr⟩

theorem parseIdent_mem (idents : List Str) (h : Str) (i t : Str) (hp : parseIdent idents h = some (i, t)) : i ∈ idents := by
  unfold parseIdent at hp
  cases hf : idents.find? (·.isPrefixOf h) with
  | none => simp [hf] at hp
  | some j =>
    simp only [hf, Option.map_some, Option.some.injEq, Prod.mk.injEq] at hp
    rw [← hp.1]
    exact List.mem_of_find?_eq_some hf

/-- WF: whatever `bcrypt.from_string` accepts has an ident other than `$2x$`, rounds in 4..31, and a salt and checksum in
    canonical (repaired) form -/
theorem bcrypt_parse_wf (h : Str) (p : Parsed) (hp : bcryptParseWith bcryptIdents h = some p) :
    p.ident ∈ bcryptOkIdents ∧ BcryptFieldsWF p.ident [] p := by
  unfold bcryptParseWith at hp
  cases hi : parseIdent bcryptIdents h with
  | none => simp [hi] at hp
  | some it =>
    obtain ⟨ident, tail⟩ := it
    have hmem := parseIdent_mem bcryptIdents h ident tail hi
    simp only [hi, Option.bind_some] at hp
    by_cases hx : ident = IDENT_2X
    · simp [hx] at hp
    · simp only [hx, if_false] at hp
      have hok : ident ∈ bcryptOkIdents := by
        simp only [bcryptIdents, List.mem_cons, List.not_mem_nil, or_false] at hmem
        simp only [bcryptOkIdents, List.mem_cons, List.not_mem_nil, or_false]
        rcases hmem with e | e | e | e | e
        · exact Or.inl e
        · exact Or.inr (Or.inl e)
        · exact absurd e hx
        · exact Or.inr (Or.inr (Or.inl e))
        · exact Or.inr (Or.inr (Or.inr e))
      split at hp
      · rename_i rs data _
        cases hr : intField rs with
        | none => simp [hr] at hp
        | some rounds =>
          simp only [hr, Option.bind_some] at hp
          split at hp
          · cases hp
          · have := bcFields_spec _ _ _ _ _ p hp
            rw [this.ident]
            exact ⟨hok, this⟩
      · cases hp

/-- R2: re-rendering a parsed hash (one that carries a checksum) gives a string that parses to the same settings:
    the repaired string is the canonical form -/
theorem bcrypt_render_parse_stable (h : Str) (p : Parsed) (hp : bcryptParseWith bcryptIdents h = some p)
    (hc : p.checksum ≠ none) : bcryptParseWith bcryptIdents (bcryptRender p) = some p := by
  obtain ⟨hok, hw⟩ := bcrypt_parse_wf h p hp
  refine bcrypt_parse_render p ⟨hok, hw.extra, hw.rounds, hw.salt, ?_⟩
  rcases hw.chk with e | e
  · exact absurd e hc
  · exact e


/-! ### ID: what parses (hence what is rendered from well-formed settings) is identified -/
theorem identAny_of_parseIdent (idents : List Str) (h : Str) (x : Str × Str) (hp : parseIdent idents h = some x) :
    identAny idents h = true := by
  unfold parseIdent at hp
  cases hf : idents.find? (·.isPrefixOf h) with
  | none => simp [hf] at hp
  | some j =>
    unfold identAny
    rw [List.any_eq_true]
    exact ⟨j, List.mem_of_find?_eq_some hf, by simpa using List.find?_some hf⟩

theorem prefix_of_stripPrefix (pfx h r : Str) (hp : stripPrefix pfx h = some r) : pfx.isPrefixOf h = true := by
  unfold stripPrefix at hp
  cases hb : pfx.isPrefixOf h with
  | true => rfl
  | false => simp [hb] at hp

theorem identByPrefix_of_strip (pfx h r : Str) (hne : pfx ≠ []) (hp : stripPrefix pfx h = some r) : identByPrefix pfx h = true := by
  have hpre := prefix_of_stripPrefix pfx h r hp
  unfold identByPrefix
  cases h with
  | nil => cases pfx with
    | nil => exact absurd rfl hne
    | cons _ _ => simp [List.isPrefixOf] at hpre
  | cons _ _ => simp [hpre]

theorem bind_some_left {α β} (o : Option α) (f : α → Option β) (b : β) (h : o.bind f = some b) : ∃ a, o = some a ∧ f a = some b := by
  cases o with
  | none => simp at h
  | some a => exact ⟨a, rfl, by simpa using h⟩

theorem desShape_nonempty (chkLen : Nat → Bool) (h : Str) (hs : desShape chkLen h = true) : h.isEmpty = false := by
  cases h with
  | nil => revert hs; simp [desShape, chompNl]
  | cons _ _ => rfl

theorem des_crypt_identify_render (p : Parsed) (h : SaltChkWF 2 (· = 11) p) : des_crypt.identify (des_crypt.render p) = true := by
  obtain ⟨hi, hr, he, ⟨s, hs, hs64, hsl⟩, ⟨c, hc, hc64, hcl⟩⟩ := h
  obtain ⟨pi, pr, ps, pc, pe⟩ := p
  simp only at hi hr he hs hc
  subst hi hr he hs hc
  have hsh := (desShape_ok (· = 11) s c hs64 hsl hc64 (ne_nil_of_length c 10 hcl) (by simp [hcl])).1
  show (!(s ++ c).isEmpty && desShape (· = 11) (s ++ c)) = true
  rw [desShape_nonempty _ _ hsh, hsh]; rfl

theorem bigcrypt_identify_of_parse (h : Str) (p : Parsed) (hp : bigcrypt.parse h = some p) : bigcrypt.identify h = true := by
  have hp' : bigcryptParse h = some p := hp
  unfold bigcryptParse at hp'
  cases hs : bigcryptShape h with
  | false => simp [hs] at hp'
  | true =>
    show (!h.isEmpty && bigcryptShape h) = true
    rw [desShape_nonempty _ _ hs, hs]; rfl

theorem crypt16_identify_of_parse (h : Str) (p : Parsed) (hp : crypt16.parse h = some p) : crypt16.identify h = true := by
  have hp' : crypt16Parse h = some p := hp
  unfold crypt16Parse at hp'
  cases hs : crypt16Shape h with
  | false => simp [hs] at hp'
  | true =>
    show (!h.isEmpty && crypt16Shape h) = true
    rw [desShape_nonempty _ _ hs, hs]; rfl

theorem bsdi_identify_of_parse (h : Str) (p : Parsed) (hp : bsdi_crypt.parse h = some p) : bsdi_crypt.identify h = true := by
  have hp' : bsdiParse h = some p := hp
  unfold bsdiParse at hp'
  cases hs : bsdiShape h with
  | false => simp [hs] at hp'
  | true =>
    have hne : h.isEmpty = false := by
      cases h with
      | nil => revert hs; simp [bsdiShape, chompNl]
      | cons _ _ => rfl
    show (!h.isEmpty && bsdiShape h) = true
    rw [hne, hs]; rfl

theorem django_des_identify_of_parse (h : Str) (p : Parsed) (hp : django_des_crypt.parse h = some p) :
    django_des_crypt.identify h = true := by
  have hp' : djangoDesParse h = some p := hp
  unfold djangoDesParse at hp'
  obtain ⟨x, hx, _⟩ := bind_some_left _ _ _ hp'
  unfold parseMc2 at hx
  obtain ⟨body, hb, _⟩ := bind_some_left _ _ _ hx
  exact identByPrefix_of_strip DJANGO_DES_IDENT h body (by decide) hb

theorem bcrypt_identify_of_parse (h : Str) (p : Parsed) (hp : bcrypt.parse h = some p) : bcrypt.identify h = true := by
  have hp' : bcryptParseWith bcryptIdents h = some p := hp
  unfold bcryptParseWith at hp'
  obtain ⟨x, hx, _⟩ := bind_some_left _ _ _ hp'
  exact identAny_of_parseIdent bcryptIdents h x hx

theorem django_bcrypt_identify_of_parse (h : Str) (p : Parsed) (hp : django_bcrypt.parse h = some p) :
    django_bcrypt.identify h = true := by
  have hp' : (stripPrefix DJANGO_BCRYPT_PREFIX h).bind (bcryptParseWith bcryptIdents) = some p := hp
  obtain ⟨r, hr, hb⟩ := bind_some_left _ _ _ hp'
  show (match stripPrefix DJANGO_BCRYPT_PREFIX h with | some r => identAny bcryptIdents r | none => false) = true
  rw [hr]
  exact bcrypt_identify_of_parse r p hb

theorem django_bcrypt_sha256_identify_of_parse (h : Str) (p : Parsed) (hp : django_bcrypt_sha256.parse h = some p) :
    django_bcrypt_sha256.identify h = true := by
  have hp' : djangoBcryptSha256Parse h = some p := hp
  unfold djangoBcryptSha256Parse at hp'
  obtain ⟨r, hr, _⟩ := bind_some_left _ _ _ hp'
  exact identByPrefix_of_strip DJANGO_BCRYPT_SHA256_PREFIX h r (by decide) hr

theorem bcrypt_sha256_identify_of_parse (h : Str) (p : Parsed) (hp : bcrypt_sha256.parse h = some p) :
    bcrypt_sha256.identify h = true := by
  have hp' : bcryptSha256Parse h = some p := hp
  unfold bcryptSha256Parse at hp'
  obtain ⟨r, hr, _⟩ := bind_some_left _ _ _ hp'
  exact identByPrefix_of_strip BCRYPT_SHA256_PREFIX h r (by decide) hr

theorem sun_identify_of_parse (h : Str) (p : Parsed) (hp : sun_md5_crypt.parse h = some p) : sun_md5_crypt.identify h = true := by
  have hp' : sunParse h = some p := hp
  unfold sunParse at hp'
  obtain ⟨x, hx, _⟩ := bind_some_left _ _ _ hp'
  show identAny [SUN_IDENT, ofString "$md5,"] h = true
  unfold sunHead at hx
  unfold identAny
  by_cases h1 : SUN_IDENT.isPrefixOf h = true
  · simp [h1]
  · simp only [h1, Bool.false_eq_true, if_false] at hx
    by_cases h2 : SUN_ROUNDS_IDENT.isPrefixOf h = true
    · -- "$md5," is a prefix of "$md5,rounds="
      obtain ⟨t, ht⟩ := List.isPrefixOf_iff_prefix.1 h2
      have h3 : (ofString "$md5,").isPrefixOf h = true := by
        rw [← ht]
        have e : SUN_ROUNDS_IDENT = ofString "$md5," ++ ofString "rounds=" := by decide
        rw [e, List.append_assoc]
        exact prefix_append _ _
      simp [h3]
    · simp [h2] at hx

theorem phpass_identify_of_parse (h : Str) (p : Parsed) (hp : phpass.parse h = some p) : phpass.identify h = true := by
  have hp' : phpassParse h = some p := hp
  unfold phpassParse at hp'
  obtain ⟨x, hx, _⟩ := bind_some_left _ _ _ hp'
  exact identAny_of_parseIdent phpassIdents h x hx


/-! ### des_crypt: WF of parse, stable re-rendering -/
theorem des_crypt_parse_wf (h : Str) (p : Parsed) (hp : desCryptParse h = some p) :
    p.ident = [] ∧ p.rounds = none ∧ p.extra = [] ∧ (∃ s, p.salt = some s ∧ allIn h64 s = true ∧ s.length = 2) ∧
    (p.checksum = none ∨ ∃ c, p.checksum = some c ∧ allIn h64 c = true ∧ c.length = 11) := by
  unfold desCryptParse at hp
  cases hk : normChkOpt (some 11) (some h64) (orNone (h.drop 2)) with
  | none => simp [hk] at hp
  | some chk' =>
    simp only [hk, Option.bind_some] at hp
    cases hn : normSalt (some h64) 2 (some 2) false (h.take 2) with
    | none => simp [hn] at hp
    | some s' =>
      simp only [hn, Option.map_some, Option.some.injEq] at hp
      obtain ⟨e, h1, hmn, h2⟩ := normSalt_spec h64 2 2 (h.take 2) s' (by decide) hn
      subst hp e
      have hl : (h.take 2).length = 2 := by
        rcases hmn with h0 | h0
        · cases h0
        · omega
      refine ⟨rfl, rfl, rfl, ⟨_, rfl, h1, hl⟩, ?_⟩
      cases hc0 : orNone (h.drop 2) with
      | none =>
        rw [hc0] at hk
        simp only [normChkOpt, Option.some.injEq] at hk
        subst hk
        exact Or.inl rfl
      | some c =>
        rw [hc0] at hk
        simp only [normChkOpt] at hk
        cases hc : normChecksum (some 11) (some h64) c with
        | none => simp [hc] at hk
        | some c' =>
          simp only [hc, Option.map_some, Option.some.injEq] at hk
          obtain ⟨e2, h3, h4⟩ := normChecksum_spec 11 h64 c c' (by decide) h64_ne_nil hc
          subst hk e2
          exact Or.inr ⟨_, rfl, h4, h3⟩

theorem des_crypt_render_parse_stable (h : Str) (p : Parsed) (hp : desCryptParse h = some p) (hc : p.checksum ≠ none) :
    desCryptParse (saltChkRender p) = some p := by
  obtain ⟨h1, h2, h3, h4, h5⟩ := des_crypt_parse_wf h p hp
  refine des_crypt_parse_render p ⟨h1, h2, h3, h4, ?_⟩
  rcases h5 with e | e
  · exact absurd e hc
  · exact e

end Lemmas.Formats
