import PasslibVerif.Lemmas.C01DesBcryptBc
/-
Lemmas for Props.C01DesBcrypt, part 4: the published bcrypt algorithm itself never looks past the 72nd byte of the password —
`Spec.Bcrypt.bcrypt` of a password equals `Spec.Bcrypt.bcrypt` of its first 72 bytes, for every cost, salt and minor version.  So the
`secret[:72]` the real class applies before calling the `bcrypt` package (which refuses longer input since 5.0) loses nothing with
respect to the specification, and the 72-byte equivalence class of `bcrypt_verifies_equivalent` is the algorithm's, not an artefact of
that slice.
-/
namespace Lemmas.C01DesBcrypt
open Spec.Bcrypt

theorem writePair_P_length (st : State) (k : Nat) (blk : Nat × Nat) : (writePair st k blk).P.length = st.P.length := by
  unfold writePair
  split <;> simp

theorem foldl_expandStep_P_length (salt : List Nat) : ∀ (ks : List Nat) (acc : State × (Nat × Nat)),
    (ks.foldl (expandStep salt) acc).1.P.length = acc.1.P.length
  | [], _ => rfl
  | k :: ks, acc => by
    rw [List.foldl_cons, foldl_expandStep_P_length salt ks]
    simp only [expandStep, writePair_P_length]

theorem expandKey_P_length (st : State) (salt key : List Nat) : (expandKey st salt key).P.length = st.P.length := by
  unfold expandKey
  simp only [foldl_expandStep_P_length, List.length_mapIdx]

/-- ExpandKey reads the key through its first 18 stream words only -/
theorem expandKey_congr (st : State) (salt k1 k2 : List Nat) (hP : st.P.length ≤ 18)
    (h : ∀ i, i < 18 → streamWord k1 i = streamWord k2 i) : expandKey st salt k1 = expandKey st salt k2 := by
  have e : (st.P.mapIdx fun i p => p ^^^ streamWord k1 i) = (st.P.mapIdx fun i p => p ^^^ streamWord k2 i) := by
    apply List.ext_getElem
    · simp only [List.length_mapIdx]
    · intro i h1 h2
      simp only [List.getElem_mapIdx]
      rw [h i (by simp only [List.length_mapIdx] at h1; omega)]
  unfold expandKey
  simp only [e]

theorem iter_setup_congr (salt k1 k2 : List Nat) (h : ∀ i, i < 18 → streamWord k1 i = streamWord k2 i) (n : Nat) :
    ∀ st : State, st.P.length = 18 →
      iter (fun st => expandKey (expandKey st zeroSalt k1) zeroSalt salt) n st =
      iter (fun st => expandKey (expandKey st zeroSalt k2) zeroSalt salt) n st := by
  induction n with
  | zero => intro st _; show st = st; rfl
  | succ n ih =>
    intro st hP
    show iter _ n (expandKey (expandKey st zeroSalt k1) zeroSalt salt) = iter _ n (expandKey (expandKey st zeroSalt k2) zeroSalt salt)
    rw [expandKey_congr st zeroSalt k1 k2 (by omega) h]
    exact ih _ (by rw [expandKey_P_length, expandKey_P_length, hP])

theorem initState_P_length : initState.P.length = 18 := by decide

theorem bcryptRaw_congr (cost : Nat) (salt k1 k2 : List Nat) (h : ∀ i, i < 18 → streamWord k1 i = streamWord k2 i) :
    bcryptRaw cost salt k1 = bcryptRaw cost salt k2 := by
  unfold bcryptRaw eksBlowfishSetup
  simp only []
  rw [expandKey_congr initState salt k1 k2 (by rw [initState_P_length]; omega) h,
    iter_setup_congr salt k1 k2 h _ _ (by rw [expandKey_P_length, initState_P_length])]

/-- the specification ignores everything past the 72nd byte -/
theorem spec_bcrypt_take72 (nul : Bool) (cost : Nat) (salt pwd : List Nat) :
    Spec.Bcrypt.bcrypt nul cost salt (pwd.take 72) = Spec.Bcrypt.bcrypt nul cost salt pwd := by
  by_cases hlen : pwd.length < 72
  · rw [List.take_of_length_le (by omega)]
  · have h72 : 72 ≤ pwd.length := by omega
    unfold Spec.Bcrypt.bcrypt
    apply bcryptRaw_congr
    intro i hi
    cases nul with
    | false =>
      simp only [bcryptKey, Bool.false_eq_true, if_false]
      exact Lemmas.Blowfish.streamWord_take72 pwd h72 i hi
    | true =>
      simp only [bcryptKey, if_true]
      have hl : (pwd.take 72).length = 72 := by simp only [List.length_take]; omega
      have e1 : (pwd ++ [0]).take 72 = pwd.take 72 := List.take_append_of_le_length h72
      have e2 : (pwd.take 72 ++ [0]).take 72 = pwd.take 72 := by
        rw [List.take_append_of_le_length (by omega), List.take_of_length_le (by omega)]
      rw [← Lemmas.Blowfish.streamWord_take72 (pwd ++ [0]) (by simp only [List.length_append, List.length_cons, List.length_nil]; omega) i hi,
        ← Lemmas.Blowfish.streamWord_take72 (pwd.take 72 ++ [0]) (by simp only [List.length_append, hl, List.length_cons, List.length_nil]; omega) i hi,
        e1, e2]

theorem spec_formats_bcrypt_take72 (ident : List Nat) (cost : Nat) (salt22 pwd : List Nat) :
    Spec.Formats.bcrypt ident cost salt22 (pwd.take 72) = Spec.Formats.bcrypt ident cost salt22 pwd := by
  unfold Spec.Formats.bcrypt
  simp only [spec_bcrypt_take72]

end Lemmas.C01DesBcrypt
