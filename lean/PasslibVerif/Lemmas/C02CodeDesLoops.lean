import PasslibVerif.Lemmas.C02CodeDes
import PasslibVerif.Lemmas.C02Formats
import PasslibVerif.Lemmas.C01DesBcryptDes
/-
Lemmas for Props.C02CodeDes, part 2: the `while idx < end` loops of `_bsdi_secret_to_key` and `bigcrypt._calc_checksum`
equal the folds of the specification over the list of 8-byte blocks (induction over the loop), `crypt16`.
-/
namespace Lemmas.C02CodeDes
open Py Model.B64 Model.Code.Des Spec.Formats
open Model.Verify (Secret)

/-! ### blocks of eight -/

theorem slice_block (s : List Nat) (idx : Nat) : slice s idx (idx + 8) = (s.drop idx).take 8 := by
  unfold slice
  rw [List.drop_take]
  congr 1
  omega

/-- the fuel of `chunks` is irrelevant once it covers the length -/
theorem chunks_fuel (n : Nat) (hn : 0 < n) : ∀ (f1 f2 : Nat) (bs : List Nat), bs.length ≤ f1 → bs.length ≤ f2 →
    chunks n f1 bs = chunks n f2 bs
  | 0, f2, bs, h1, _ => by
    have : bs = [] := List.eq_nil_of_length_eq_zero (by omega)
    subst this
    rw [Lemmas.C02Formats.chunks_nil, Lemmas.C02Formats.chunks_nil]
  | f1 + 1, 0, bs, _, h2 => by
    have : bs = [] := List.eq_nil_of_length_eq_zero (by omega)
    subst this
    rw [Lemmas.C02Formats.chunks_nil, Lemmas.C02Formats.chunks_nil]
  | f1 + 1, f2 + 1, bs, h1, h2 => by
    unfold chunks
    cases bs with
    | nil => rfl
    | cons b rest =>
      simp only [List.isEmpty_cons, Bool.false_eq_true, if_false]
      congr 1
      apply chunks_fuel n hn f1 f2
      · rw [List.length_drop]; simp only [List.length_cons] at h1 ⊢; omega
      · rw [List.length_drop]; simp only [List.length_cons] at h2 ⊢; omega

theorem chunksOf_nil (n : Nat) : chunksOf n [] = [] := rfl

theorem chunksOf_step (n : Nat) (hn : 0 < n) (bs : List Nat) (h : bs ≠ []) : chunksOf n bs = bs.take n :: chunksOf n (bs.drop n) := by
  cases bs with
  | nil => exact absurd rfl h
  | cons b rest =>
    have e : chunksOf n (b :: rest) = (b :: rest).take n :: chunks n rest.length ((b :: rest).drop n) := by
      show chunks n (rest.length + 1) (b :: rest) = _
      rw [chunks]
      simp only [List.isEmpty_cons, Bool.false_eq_true, if_false]
    rw [e]
    congr 1
    unfold chunksOf
    apply chunks_fuel n hn
    · rw [List.length_drop]; simp only [List.length_cons]; omega
    · exact Nat.le_refl _

theorem drop_ne_nil (s : List Nat) (idx : Nat) (h : idx < s.length) : s.drop idx ≠ [] := by
  intro e
  have := congrArg List.length e
  rw [List.length_drop] at this
  simp only [List.length_nil] at this
  omega

/-! ### `_bsdi_secret_to_key` -/

theorem bsdiFold_lt : ∀ (cs : List (List Nat)) (k : Nat), k < 2 ^ 64 → bsdiFold k cs < 2 ^ 64
  | [], _, h => h
  | c :: cs, k, _ => by
    unfold bsdiFold
    exact bsdiFold_lt cs _ (Nat.xor_lt_two_pow (desEncrypt_lt k k) (desKeyOfChars_lt c))

/-- the loop invariant: from `idx` on, the loop folds "encrypt the key with itself, xor the next 8 characters" over the
    remaining blocks -/
theorem bsdiLoop_eq (secret : List Nat) : ∀ (fuel idx key : Nat), key < 2 ^ 64 → secret.length - idx ≤ fuel →
    bsdiLoop secret secret.length fuel idx key = .ok (bsdiFold key (chunksOf 8 (secret.drop idx)))
  | 0, idx, key, _, hf => by
    have hn : ¬ idx < secret.length := by omega
    simp only [bsdiLoop, hn, if_false]
    rw [List.drop_eq_nil_of_le (by omega), chunksOf_nil, bsdiFold]
  | fuel + 1, idx, key, hk, hf => by
    by_cases hlt : idx < secret.length
    · simp only [bsdiLoop, hlt, if_true]
      rw [desInt_plain key key hk hk]
      simp only []
      rw [bsdiLoop_eq secret fuel (idx + 8) _
        (Nat.xor_lt_two_pow (desEncrypt_lt key key) (by rw [cryptSecretToKey_eq]; exact desKeyOfChars_lt _)) (by omega)]
      rw [chunksOf_step 8 (by decide) _ (drop_ne_nil secret idx hlt), bsdiFold, List.drop_drop, slice_block, cryptSecretToKey_eq]
    · simp only [bsdiLoop, hlt, if_false]
      rw [List.drop_eq_nil_of_le (by omega), chunksOf_nil, bsdiFold]

theorem bsdiSecretToKey_eq (secret : List Nat) : bsdiSecretToKey secret = .ok (bsdiKey secret) := by
  unfold bsdiSecretToKey bsdiKey
  simp only []
  rw [bsdiLoop_eq secret secret.length 8 _ (by rw [cryptSecretToKey_eq]; exact desKeyOfChars_lt _) (by omega), cryptSecretToKey_eq]

theorem bsdiKey_lt (secret : List Nat) : bsdiKey secret < 2 ^ 64 := bsdiFold_lt _ _ (desKeyOfChars_lt _)

/-! ### `_raw_bsdi_crypt` -/

theorem rawBsdiCrypt_bytes_eq_spec (secret salt : List Nat) (rounds : Nat) (hnul : 0 ∉ secret) (hl : salt.length = 4)
    (hc : ∀ c ∈ salt, c ∈ itoa64) (hr : 1 ≤ rounds) :
    rawBsdiCrypt (.bytes secret) rounds salt = .ok (bsdiCrypt secret salt rounds) := by
  match salt, hl with
  | [a, b, c, d], _ =>
    have ha : a ∈ itoa64 := hc a (by simp)
    have hb : b ∈ itoa64 := hc b (by simp)
    have hcc : c ∈ itoa64 := hc c (by simp)
    have hd : d ∈ itoa64 := hc d (by simp)
    simp only [rawBsdiCrypt, decodeInt24_h64 a b c d ha hb hcc hd, encodeSecret, Secret.toBytes, contains_zero_false secret hnul,
      Bool.false_eq_true, if_false, bsdiSecretToKey_eq]
    rw [desInt_eq_spec _ 0 _ rounds (bsdiKey_lt _) (by decide) (h64leNat4_lt a b c d ha hb hcc hd) hr]
    simp only [encodeInt64_h64big _ (desCryptCore_lt _ _ _ _), bsdiCrypt, desCryptBlock, List.take_succ_cons, List.take_zero]

theorem rawBsdiCrypt_text (cps b salt : List Nat) (rounds : Nat) (h : Model.Verify.utf8 cps = some b) :
    rawBsdiCrypt (.text cps) rounds salt = rawBsdiCrypt (.bytes b) rounds salt := by
  simp only [rawBsdiCrypt, encodeSecret, Secret.toBytes, h]

theorem rawBsdiCrypt_nul (secret salt : List Nat) (rounds : Nat) (hnul : 0 ∈ secret) (hl : salt.length = 4) (hc : ∀ c ∈ salt, c ∈ itoa64) :
    rawBsdiCrypt (.bytes secret) rounds salt = .error .nullError := by
  match salt, hl with
  | [a, b, c, d], _ =>
    have ha : a ∈ itoa64 := hc a (by simp)
    have hb : b ∈ itoa64 := hc b (by simp)
    have hcc : c ∈ itoa64 := hc c (by simp)
    have hd : d ∈ itoa64 := hc d (by simp)
    have : secret.contains 0 = true := by simpa using hnul
    simp only [rawBsdiCrypt, decodeInt24_h64 a b c d ha hb hcc hd, encodeSecret, Secret.toBytes, this, if_true]

theorem rawBsdiCrypt_rounds_zero (secret salt : List Nat) (hnul : 0 ∉ secret) (hl : salt.length = 4) (hc : ∀ c ∈ salt, c ∈ itoa64) :
    rawBsdiCrypt (.bytes secret) 0 salt = .error .valueError := by
  match salt, hl with
  | [a, b, c, d], _ =>
    have ha : a ∈ itoa64 := hc a (by simp)
    have hb : b ∈ itoa64 := hc b (by simp)
    have hcc : c ∈ itoa64 := hc c (by simp)
    have hd : d ∈ itoa64 := hc d (by simp)
    simp only [rawBsdiCrypt, decodeInt24_h64 a b c d ha hb hcc hd, encodeSecret, Secret.toBytes, contains_zero_false secret hnul,
      Bool.false_eq_true, if_false, bsdiSecretToKey_eq, desInt_rounds_zero]

theorem decodeInt24_size (salt : List Nat) (hl : salt.length ≠ 4) : decodeInt24 h64 salt = .error .valueError := by
  match salt with
  | [] | [_] | [_, _] | [_, _, _] | _ :: _ :: _ :: _ :: _ :: _ => rfl
  | [_, _, _, _] => exact absurd rfl hl

theorem rawBsdiCrypt_salt_size (secret : Secret) (salt : List Nat) (rounds : Nat) (hl : salt.length ≠ 4) :
    rawBsdiCrypt secret rounds salt = .error .valueError := by
  simp only [rawBsdiCrypt, decodeInt24_size salt hl]

end Lemmas.C02CodeDes
