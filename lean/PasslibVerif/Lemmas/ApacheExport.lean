import PasslibVerif.Lemmas.Apache
namespace Lemmas.Apache
open Py Model.Apache

/-- the (key, hash) pairs written by `_iter_lines`, in file order -/
def emitted (s : St) : List (Key × Bytes) :=
  s.source.filterMap fun
    | .skipped _ => none
    | .record k => (lookup k s.records).map (fun v => (k, v))

theorem emitted_keys_sublist (s : St) : ∀ src : List Tok,
    ((src.filterMap fun
      | .skipped _ => none
      | .record k => (lookup k s.records).map (fun v => (k, v))).map (·.1)).Sublist (recTokens src)
  | [] => by simp [recTokens]
  | t :: ts => by
    have ih := emitted_keys_sublist s ts
    cases t with
    | skipped x => simpa [recTokens, List.filterMap_cons] using ih
    | record k =>
      simp only [recTokens, List.filterMap_cons] at ih ⊢
      cases hl : lookup k s.records with
      | none => simp only [Option.map_none]; exact List.Sublist.cons _ ih
      | some v => simp only [Option.map_some, List.map_cons]; exact List.Sublist.cons_cons _ ih

/-- every user is written at most once -/
theorem emitted_keys_nodup (s : St) (h : Inv s) : ((emitted s).map (·.1)).Nodup :=
  (emitted_keys_sublist s s.source).nodup h.tokNodup

/-- what is written is exactly the current database: (k, v) is emitted iff k currently maps to v -/
theorem mem_emitted_iff (s : St) (h : Inv s) (k : Key) (v : Bytes) :
    (k, v) ∈ emitted s ↔ lookup k s.records = some v := by
  unfold emitted
  simp only [List.mem_filterMap]
  constructor
  · rintro ⟨t, _, ht⟩
    cases t with
    | skipped x => simp at ht
    | record k' =>
      cases hl : lookup k' s.records with
      | none => simp [hl] at ht
      | some v' => simp [hl] at ht; obtain ⟨rfl, rfl⟩ := ht; exact hl
  · intro hl
    have hk : k ∈ keys s.records := (lookup_isSome_iff k s.records).1 (by simp [hl])
    have ht := (mem_recTokens k s.source).1 (h.covered k hk)
    exact ⟨Tok.record k, ht, by simp [hl]⟩

/-- lines of the export = source tokens in order: skipped text verbatim, live records rendered -/
theorem iterLines_eq (s : St) :
    iterLines s = s.source.filterMap fun
      | .skipped t => some t
      | .record k => (lookup k s.records).map (renderRecord k) := rfl

/-! ### byte level: a rendered record parses back -/

theorem splitOn_no_sep (sep : Nat) : ∀ b : Bytes, sep ∉ b → splitOn sep b = [b]
  | [], _ => rfl
  | c :: rest, h => by
    have hc : c ≠ sep := fun e => h (by simp [e])
    have hr : sep ∉ rest := fun hm => h (by simp [hm])
    simp [splitOn, splitOn_no_sep sep rest hr, hc]

theorem splitOn_ne_nil (sep : Nat) : ∀ b : Bytes, splitOn sep b ≠ []
  | [] => by simp [splitOn]
  | c :: rest => by
    have ih := splitOn_ne_nil sep rest
    unfold splitOn
    cases hs : splitOn sep rest with
    | nil => exact absurd hs ih
    | cons f fs => by_cases e : c = sep <;> simp [e]

theorem splitOn_append_sep (sep : Nat) : ∀ (a b : Bytes), sep ∉ a → splitOn sep (a ++ sep :: b) = a :: splitOn sep b
  | [], b, _ => by
    cases hs : splitOn sep b with
    | nil => exact absurd hs (splitOn_ne_nil sep b)
    | cons f fs => simp [splitOn, hs]
  | c :: rest, b, h => by
    have hc : c ≠ sep := fun e => h (by simp [e])
    have hr : sep ∉ rest := fun hm => h (by simp [hm])
    have ih := splitOn_append_sep sep rest b hr
    simp only [List.cons_append, splitOn, ih, hc, if_false]

/-- a hash is "plain" when it survives the line discipline: no ':' and no trailing blank -/
def PlainHash (h : Bytes) : Prop := 58 ∉ h ∧ (∀ c, h.getLast? = some c → isWs c = false)

theorem rstrip_append_nl (a : Bytes) (ha : ∀ c, a.getLast? = some c → isWs c = false) (hne : a ≠ []) :
    rstrip (a ++ [10]) = a := by
  unfold rstrip
  rw [List.reverse_append]
  simp only [List.reverse_cons, List.reverse_nil, List.nil_append, List.cons_append]
  have h10 : isWs 10 = true := by decide
  simp only [List.dropWhile_cons, h10, if_true]
  cases hr : a.reverse with
  | nil => simp at hr; exact absurd hr hne
  | cons x xs =>
    have hx : a.getLast? = some x := by
      rw [← List.reverse_reverse a, hr]; simp
    simp [List.dropWhile_cons, ha x hx]
    have := congrArg List.reverse hr
    simp at this
    exact this.symm

theorem parse_render_passwd (u h : Bytes) (hu : 58 ∉ u) (hh : PlainHash h) :
    parseRecord false (renderRecord ⟨u, none⟩ h) = .ok (⟨u, none⟩, h) := by
  unfold parseRecord renderRecord
  simp only
  have e : u ++ [58] ++ h ++ [10] = (u ++ 58 :: h) ++ [10] := by simp
  rw [e, rstrip_append_nl (u ++ 58 :: h) ?_ (by simp)]
  · rw [splitOn_append_sep 58 u h hu, splitOn_no_sep 58 h hh.1]
  · intro c hc
    cases hl : h.getLast? with
    | none =>
      have : h = [] := by simpa using hl
      subst this; simp at hc; subst hc; decide
    | some x =>
      have : (u ++ 58 :: h).getLast? = some x := by
        rw [List.getLast?_append]; simp [List.getLast?_cons, hl]
      rw [this] at hc; cases hc; exact hh.2 _ hl

theorem parse_render_digest (u r h : Bytes) (hu : 58 ∉ u) (hr : 58 ∉ r) (hh : PlainHash h) :
    parseRecord true (renderRecord ⟨u, some r⟩ h) = .ok (⟨u, some r⟩, h) := by
  unfold parseRecord renderRecord
  simp only
  have e : u ++ [58] ++ r ++ [58] ++ h ++ [10] = (u ++ 58 :: (r ++ 58 :: h)) ++ [10] := by simp
  rw [e, rstrip_append_nl (u ++ 58 :: (r ++ 58 :: h)) ?_ (by simp)]
  · rw [splitOn_append_sep 58 u _ hu, splitOn_append_sep 58 r h hr, splitOn_no_sep 58 h hh.1]
  · intro c hc
    cases hl : h.getLast? with
    | none =>
      have : h = [] := by simpa using hl
      subst this
      have : (u ++ 58 :: (r ++ [58])).getLast? = some 58 := by
        rw [List.getLast?_append]; simp [List.getLast?_cons, List.getLast?_append]
      rw [this] at hc; cases hc; decide
    | some x =>
      have : (u ++ 58 :: (r ++ 58 :: h)).getLast? = some x := by
        rw [List.getLast?_append]; simp [List.getLast?_cons, List.getLast?_append, hl]
      rw [this] at hc; cases hc; exact hh.2 _ hl

/-- the bound and the refused bytes read from the source are the ones the property names (255 bytes; ':', LF, CR, TAB, NUL) -/
theorem maxFieldLen_eq : maxFieldLen = 255 := by decide
theorem invalidFieldChars_eq : invalidFieldChars = [58, 10, 13, 9, 0] := by decide

/-- names accepted by `_encode_field` contain no separator, so they satisfy the hypotheses above -/
theorem encodeField_ok_no_colon (v w : Bytes) (h : encodeField v = .ok w) :
    w = v ∧ 58 ∉ v ∧ 10 ∉ v ∧ 13 ∉ v ∧ 9 ∉ v ∧ 0 ∉ v ∧ v.length ≤ 255 := by
  unfold encodeField at h
  split at h
  · cases h
  · split at h
    · cases h
    · rename_i hl ha
      cases h
      simp only [List.any_eq_true, not_exists, not_and, Bool.not_eq_true] at ha
      have hn : ∀ c, c ∈ invalidFieldChars → c ∉ v := by
        intro c hc hm
        have := ha c hm
        simp [List.contains_iff_mem, hc] at this
      have hm := maxFieldLen_eq
      refine ⟨rfl, hn 58 (by decide), hn 10 (by decide), hn 13 (by decide), hn 9 (by decide), hn 0 (by decide), by omega⟩

/-- a refused name leaves the database untouched -/
theorem bad_field_refused (s : St) (user : Bytes) (realm : Option Bytes) (hash : Bytes)
    (hbad : user.length > 255 ∨ ∃ c ∈ user, c ∈ invalidFieldChars) :
    setHash s user realm hash = .error .valueError ∧ delete s user realm = .error .valueError ∧
    getHash s user realm = .error .valueError := by
  have he : encodeField user = .error .valueError := by
    unfold encodeField
    rcases hbad with hl | ⟨c, hc, hi⟩
    · have : user.length > maxFieldLen := by rw [maxFieldLen_eq]; exact hl
      simp [this]
    · split
      · rfl
      · have : user.any (invalidFieldChars.contains ·) = true := by
          rw [List.any_eq_true]; exact ⟨c, hc, by simpa [List.contains_iff_mem] using hi⟩
        rw [if_pos this]
  have hk : encodeKey user realm = .error .valueError := by unfold encodeKey; rw [he]
  simp [setHash, delete, getHash, hk]

/-- editing operations only ever APPEND to the token list: untouched records, comments and blank
    lines keep their place and their relative order -/
theorem source_prefix (digest : Bool) (vau : Bytes → Bytes → Bool × Option Bytes) (s : St) (op : Op)
    (hop : ∀ d, op ≠ Op.load d) : s.source <+: (step digest vau s op).source := by
  cases op with
  | load d => exact absurd rfl (hop d)
  | setHash u r hh =>
    simp only [step, setHash]
    split
    · rename_i s' b hs
      split at hs
      · cases hs
      · cases hs
        simp only [setRecord]
        split
        · exact List.prefix_append _ _
        · exact List.prefix_refl _
    · exact List.prefix_refl _
  | delete u r =>
    simp only [step, delete]
    split
    · rename_i s' b hs
      split at hs
      · cases hs
      · split at hs <;> cases hs <;> exact List.prefix_refl _
    · exact List.prefix_refl _
  | deleteRealm r =>
    simp only [step, deleteRealm]
    split
    · rename_i s' n hs
      split at hs
      · cases hs
      · cases hs; exact List.prefix_refl _
    · exact List.prefix_refl _
  | check u p =>
    simp only [step, checkPassword]
    split
    · rename_i s' b hs
      split at hs
      · cases hs
      · split at hs
        · cases hs; exact List.prefix_refl _
        · split at hs <;> cases hs <;> exact List.prefix_refl _
    · exact List.prefix_refl _

end Lemmas.Apache
