import PasslibVerif.Model.Hmac
import PasslibVerif.Spec.Hmac
import PasslibVerif.Spec.Pbkdf
namespace Lemmas.Hmac
open Py Gen.Totp Model.Hmac

theorem trans_tables : TRANS_36 = (List.range 256).map (· ^^^ 0x36) ∧ TRANS_5C = (List.range 256).map (· ^^^ 0x5C) := by
  decide +kernel

theorem translate36 (bs : Bytes) (h : Bytes.WF bs) : translate TRANS_36 bs = Spec.Hmac.xorPad bs Spec.Hmac.ipad := by
  unfold translate Spec.Hmac.xorPad Spec.Hmac.ipad
  apply List.map_congr_left
  intro b hb
  have hlt := h b hb
  rw [trans_tables.1]
  simp [List.getD, hlt]

theorem translate5C (bs : Bytes) (h : Bytes.WF bs) : translate TRANS_5C bs = Spec.Hmac.xorPad bs Spec.Hmac.opad := by
  unfold translate Spec.Hmac.xorPad Spec.Hmac.opad
  apply List.map_congr_left
  intro b hb
  have hlt := h b hb
  rw [trans_tables.2]
  simp [List.getD, hlt]

/-- compile_hmac is RFC 2104 HMAC, for every key length (shorter, equal, longer than a block) -/
theorem hmac_eq_rfc2104 (H : Bytes → Bytes) (B D : Nat) (hH : ∀ x, Bytes.WF (H x) ∧ (H x).length = D)
    (key msg : Bytes) (hk : Bytes.WF key) :
    compileHmac H B D key msg = Spec.Hmac.hmac H B key msg := by
  unfold compileHmac Spec.Hmac.hmac Spec.Hmac.normKey
  by_cases hlong : key.length > B
  · simp only [hlong, if_true, (hH key).2]
    have hwf : Bytes.WF (H key ++ List.replicate (B - D) 0) := by
      intro b hb
      rcases List.mem_append.1 hb with h1 | h1
      · exact (hH key).1 b h1
      · simp at h1; omega
    by_cases hd : D < B
    · simp only [hd, if_true]
      rw [translate5C _ hwf, translate36 _ hwf]
    · simp only [hd, if_false]
      have : B - D = 0 := by omega
      simp only [this, List.replicate_zero, List.append_nil]
      rw [translate5C _ (hH key).1, translate36 _ (hH key).1]
  · simp only [hlong, if_false]
    have hwf : Bytes.WF (key ++ List.replicate (B - key.length) 0) := by
      intro b hb
      rcases List.mem_append.1 hb with h1 | h1
      · exact hk b h1
      · simp at h1; omega
    by_cases hd : key.length < B
    · simp only [hd, if_true]
      rw [translate5C _ hwf, translate36 _ hwf]
    · simp only [hd, if_false]
      have : B - key.length = 0 := by omega
      simp only [this, List.replicate_zero, List.append_nil]
      rw [translate5C _ hk, translate36 _ hk]

end Lemmas.Hmac
