import PasslibVerif.Lemmas.C01MiscFshp
import PasslibVerif.Props.C12
/-
C01 / Misc family, scrypt: the RFC 7914 key is 32 octets, so the record `hash` builds is `ScryptWF` / `Scrypt7WF` and the C07 round
trips apply; the two renderings are the two encodings of the Spec (`scryptPhc`, `scrypt7`).
-/
namespace Lemmas.C01Misc
open Py Model.Handler Model.Formats Model.Verify Model.VerifyFmt.Misc Lemmas.FormatsMisc Lemmas.C01MiscDigest Lemmas.PbkdfLen

theorem scryptDigest_settings (b : Bytes) (i7 : Bool) (salt : Bytes) (logN r p : Nat) (x : Option Str) :
    scryptDigest b { scryptSettings i7 salt logN r p with checksum := x } = scryptKey b salt logN r p := by
  simp [scryptDigest, scryptSettings, scryptExtra, extraNat, natField, List.find?]

theorem two_le_pow (n : Nat) (h : 1 ≤ n) : ¬ 2 ^ n < 2 := by
  have : 2 ^ 1 ≤ 2 ^ n := Nat.pow_le_pow_right (by decide) h
  omega

/-- admissible parameters: `validate` passes and the key is 32 octets -/
theorem scryptKey_props (b salt : Bytes) (logN r p : Nat) (hN : 1 ≤ logN) (hr : 1 ≤ r) (hp : 1 ≤ p) (hrp : r * p ≤ SCRYPT_MAX_RP) :
    scryptKey b salt logN r p = .ok (Spec.Scrypt.scrypt b salt (2 ^ logN) r p 32) ∧
    (Spec.Scrypt.scrypt b salt (2 ^ logN) r p 32).length = 32 ∧ Bytes.WF (Spec.Scrypt.scrypt b salt (2 ^ logN) r p 32) := by
  refine ⟨?_, (scrypt_props _ _ _ _ _ _).1, (scrypt_props _ _ _ _ _ _).2⟩
  unfold scryptKey
  have h1 : ¬ r < 1 := by omega
  have h2 : ¬ p < 1 := by omega
  have h3 : ¬ r * p > SCRYPT_MAX_RP := by omega
  simp only [h1, h2, h3, two_le_pow logN hN, if_false]

theorem scryptKey_ok_eq (b salt : Bytes) (logN r p : Nat) (c : Bytes) (h : scryptKey b salt logN r p = .ok c) :
    c = Spec.Scrypt.scrypt b salt (2 ^ logN) r p 32 := by
  unfold scryptKey at h
  repeat' split at h
  all_goals first | (cases h; done) | (simp only [Except.ok.injEq] at h; exact h.symm)

theorem scryptWF_of_key (salt : Bytes) (hs : Bytes.WF salt ∧ salt.length ≤ 1024) (logN r p : Nat) (hN : 1 ≤ logN ∧ logN ≤ 31)
    (hr : 1 ≤ r) (hp : 1 ≤ p) (c : Bytes) (hl : c.length = 32) (hw : Bytes.WF c) :
    ScryptWF { scryptSettings false salt logN r p with checksum := some c } :=
  ⟨rfl, ⟨logN, rfl, hN.1, hN.2⟩, ⟨r, p, rfl, hr, hp⟩, ⟨salt, rfl, hs.1, hs.2⟩, ⟨c, rfl, hw, hl⟩⟩

theorem scrypt7WF_of_key (salt : Bytes) (hs : (∀ x ∈ salt, x < 128) ∧ DOLLAR ∉ salt ∧ salt.length ≤ 1024) (logN r p : Nat)
    (hN : 1 ≤ logN ∧ logN ≤ 31) (hr : 1 ≤ r ∧ r < 2 ^ 30) (hp : 1 ≤ p ∧ p < 2 ^ 30) (c : Bytes) (hl : c.length = 32) (hw : Bytes.WF c) :
    Scrypt7WF { scryptSettings true salt logN r p with checksum := some c } :=
  ⟨rfl, ⟨logN, rfl, hN.1, hN.2⟩, ⟨r, p, rfl, hr.1, hr.2, hp.1, hp.2⟩, ⟨salt, rfl, hs.1, hs.2.1, hs.2.2⟩, ⟨c, rfl, hw, hl⟩⟩

/-- `h64.encode_bytes` is the little-endian crypt(3) packing the Spec writes as `h64le` -/
theorem h64_encode_eq_spec (bs : Bytes) (h : Bytes.WF bs) : Model.B64.encodeBytes Model.B64.h64 bs = Spec.Formats.h64le bs := by
  rw [Props.C12.encode_eq_crypt_little Model.B64.h64 (by decide) bs h]
  unfold Spec.Formats.h64le Model.B64.encode64
  have : Model.B64.h64.charmap = Spec.Formats.itoa64 := by decide
  rw [this]

end Lemmas.C01Misc
