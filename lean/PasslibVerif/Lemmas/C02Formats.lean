import PasslibVerif.Spec.Formats
/-
Proofs for Props.C02Formats: relations between the per-format checksum specifications.
-/
namespace Lemmas.C02Formats
open Spec.Formats

/-! ### chunks -/

theorem chunks_nil (n fuel : Nat) : chunks n fuel [] = [] := by
  cases fuel <;> simp [chunks]

theorem chunksOf_short (bs : Bytes) (h0 : bs ≠ []) (h8 : bs.length ≤ 8) : chunksOf 8 bs = [bs] := by
  unfold chunksOf
  cases hb : bs with
  | nil => exact absurd hb h0
  | cons b rest =>
    have hl : (b :: rest).length ≤ 8 := hb ▸ h8
    have hd : List.drop 8 (b :: rest) = [] := List.drop_eq_nil_of_le hl
    have ht : List.take 8 (b :: rest) = b :: rest := List.take_of_length_le hl
    show chunks 8 (rest.length + 1) (b :: rest) = [b :: rest]
    unfold chunks
    simp only [List.isEmpty_cons, Bool.false_eq_true, if_false]
    rw [hd, ht, chunks_nil]

/-! ### DES family -/

theorem desKeyOfChars_take8 (pwd : Bytes) : desKeyOfChars (pwd.take 8) = desKeyOfChars pwd := by
  unfold desKeyOfChars
  have h : ∀ i, i < 8 → (pwd.take 8).getD i 0 = pwd.getD i 0 := by
    intro i hi
    simp only [List.getD_eq_getElem?_getD, List.getElem?_take, hi, if_true]
  simp only [List.range, List.range.loop, List.foldl]
  rw [h 0 (by omega), h 1 (by omega), h 2 (by omega), h 3 (by omega), h 4 (by omega), h 5 (by omega), h 6 (by omega),
    h 7 (by omega)]

theorem desCrypt_take8 (pwd salt : Bytes) : desCrypt (pwd.take 8) salt = desCrypt pwd salt := by
  unfold desCrypt
  rw [desKeyOfChars_take8]

theorem desCrypt_salt_take2 (pwd salt : Bytes) : desCrypt pwd (salt.take 2) = desCrypt pwd salt := by
  unfold desCrypt
  rw [List.take_take]
  simp

theorem desCrypt_length (pwd salt : Bytes) : (desCrypt pwd salt).length = 11 := by
  simp [desCrypt, desCryptBlock, h64be64]

theorem bigcrypt_short (pwd salt : Bytes) (h8 : pwd.length ≤ 8) : bigcrypt pwd salt = desCrypt pwd salt := by
  unfold bigcrypt
  by_cases h0 : pwd = []
  · subst h0
    simp [bigcryptSegs, desCrypt_salt_take2]
  · have : pwd.isEmpty = false := by
      cases pwd with
      | nil => exact absurd rfl h0
      | cons _ _ => rfl
    rw [this]
    simp only [Bool.false_eq_true, if_false]
    rw [chunksOf_short pwd h0 h8]
    simp [bigcryptSegs, desCrypt_salt_take2]

theorem bigcrypt_prefix (pwd salt : Bytes) : (bigcrypt pwd salt).take 11 = desCrypt pwd salt := by
  unfold bigcrypt
  by_cases h0 : pwd = []
  · subst h0
    simp only [List.isEmpty_nil, if_true, bigcryptSegs, List.append_nil]
    rw [List.take_of_length_le (by rw [desCrypt_length]; omega), desCrypt_salt_take2]
  · have hE : pwd.isEmpty = false := by
      cases pwd with
      | nil => exact absurd rfl h0
      | cons _ _ => rfl
    rw [hE]
    simp only [Bool.false_eq_true, if_false]
    cases hp : pwd with
    | nil => exact absurd hp h0
    | cons b rest =>
      show (bigcryptSegs (salt.take 2) (chunks 8 (rest.length + 1) (b :: rest))).take 11 = _
      unfold chunks
      simp only [List.isEmpty_cons, Bool.false_eq_true, if_false, bigcryptSegs]
      rw [List.take_append_of_le_length (by rw [desCrypt_length]; omega)]
      rw [List.take_of_length_le (by rw [desCrypt_length]; omega), desCrypt_take8, desCrypt_salt_take2]

theorem crypt16_length (pwd salt : Bytes) : (crypt16 pwd salt).length = 22 := by
  simp [crypt16, desCryptBlock, h64be64]

theorem crypt16_first_half_only_first8 (pwd salt : Bytes) :
    (crypt16 pwd salt).take 11 = desCryptBlock (desKeyOfChars pwd) (h64leNat (salt.take 2)) 20 := by
  unfold crypt16
  simp only []
  rw [List.take_append_of_le_length (by simp [desCryptBlock, h64be64])]
  rw [List.take_of_length_le (by simp [desCryptBlock, h64be64]), desKeyOfChars_take8]

/-! ### hex is injective on bytes, so `ldap_md5` is a function of `hex_md5` -/

def unhexDigit (c : Nat) : Nat := if c < 58 then c - 48 else c - 87

def unhexLower : Bytes → Bytes
  | a :: b :: rest => (16 * unhexDigit a + unhexDigit b) :: unhexLower rest
  | _ => []

theorem unhex_byte_fin : ∀ b : Fin 256,
    16 * unhexDigit (hexDigitL (b.val / 16 % 16)) + unhexDigit (hexDigitL (b.val % 16)) = b.val := by
  decide +kernel

theorem unhex_byte (b : Nat) (h : b < 256) : 16 * unhexDigit (hexDigitL (b / 16 % 16)) + unhexDigit (hexDigitL (b % 16)) = b :=
  unhex_byte_fin ⟨b, h⟩

theorem unhexLower_hexLower (bs : Bytes) (h : ∀ b ∈ bs, b < 256) : unhexLower (hexLower bs) = bs := by
  induction bs with
  | nil => rfl
  | cons b rest ih =>
    have hb := h b (List.mem_cons_self ..)
    have hr : ∀ x ∈ rest, x < 256 := fun x hx => h x (List.mem_cons_of_mem _ hx)
    show unhexLower (hexLower (b :: rest)) = b :: rest
    have : hexLower (b :: rest) = hexDigitL (b / 16 % 16) :: hexDigitL (b % 16) :: hexLower rest := by
      simp [hexLower]
    rw [this]
    show (16 * unhexDigit (hexDigitL (b / 16 % 16)) + unhexDigit (hexDigitL (b % 16))) :: unhexLower (hexLower rest) = _
    rw [unhex_byte b hb, ih hr]

/-! ### Cisco -/

theorem ciscoAsa_eq_pix (pwd user : Bytes) (h : pwd.length + (ciscoUser4 user).length ≤ 16) :
    ciscoAsa pwd user = ciscoPix pwd user := by
  unfold ciscoAsa ciscoPix
  have h28 : ¬ pwd.length ≥ 28 := by omega
  simp only [h28, if_false]
  have h16 : ¬ (pwd ++ ciscoUser4 user).length > 16 := by rw [List.length_append]; omega
  simp only [h16, if_false]

theorem ciscoUser4_length (user : Bytes) (h : user ≠ []) : (ciscoUser4 user).length = 4 := by
  unfold ciscoUser4
  cases user with
  | nil => exact absurd rfl h
  | cons _ _ => simp

/-! ### UTF-8 / UTF-16 on ASCII -/

theorem utf8Decode_ascii : ∀ (fuel : Nat) (bs : Bytes), bs.length ≤ fuel → (∀ b ∈ bs, b < 128) → utf8Decode fuel bs = bs := by
  intro fuel
  induction fuel with
  | zero =>
    intro bs hl _
    have : bs = [] := List.eq_nil_of_length_eq_zero (by omega)
    subst this
    rfl
  | succ n ih =>
    intro bs hl hb
    cases bs with
    | nil => rfl
    | cons b rest =>
      have h1 : b < 0x80 := hb b (List.mem_cons_self ..)
      unfold utf8Decode
      simp only [h1, if_true]
      rw [ih rest (by simpa using hl) (fun x hx => hb x (List.mem_cons_of_mem _ hx))]

theorem utf16le_ascii (bs : Bytes) (h : ∀ b ∈ bs, b < 128) : utf16le bs = bs.flatMap fun c => [c, 0] := by
  unfold utf16le utf8Scalars
  rw [utf8Decode_ascii _ _ (Nat.le_refl _) h]
  induction bs with
  | nil => rfl
  | cons b rest ih =>
    have hb : b < 128 := h b (List.mem_cons_self ..)
    have hu : utf16Units b = [b] := by unfold utf16Units; simp; omega
    simp only [List.flatMap_cons, hu, List.singleton_append]
    rw [ih (fun x hx => h x (List.mem_cons_of_mem _ hx))]
    have : b % 256 = b := Nat.mod_eq_of_lt (by omega)
    have h2 : b / 256 = 0 := Nat.div_eq_of_lt (by omega)
    simp [this, h2]

/-! ### sun_md5_crypt -/

theorem sunConfig_bare (salt : Bytes) (rounds : Nat) : sunConfig salt rounds false = sunConfig salt rounds true ++ ascii "$" := by
  unfold sunConfig
  simp

end Lemmas.C02Formats

namespace Lemmas.C02Formats
open Spec.Formats

/-! ### LAN Manager: the second half of a short password is a constant -/

theorem lmDesHash_zero : lmDesHash (List.replicate 7 0) = [0xaa, 0xd3, 0xb4, 0x35, 0xb5, 0x14, 0x04, 0xee] := by
  decide +kernel

theorem hexLower_append (a b : Bytes) : hexLower (a ++ b) = hexLower a ++ hexLower b := by
  simp [hexLower]

theorem hexLower_length (a : Bytes) : (hexLower a).length = 2 * a.length := by
  induction a with
  | nil => rfl
  | cons x xs ih =>
    have : hexLower (x :: xs) = hexDigitL (x / 16 % 16) :: hexDigitL (x % 16) :: hexLower xs := by simp [hexLower]
    rw [this]
    simp [ih]
    omega

theorem lmDesHash_length (k : Bytes) : (lmDesHash k).length = 8 := by
  simp [lmDesHash, beBytes]

theorem pad14_drop7 (m : Bytes) (h : m.length ≤ 7) : ((m ++ List.replicate 14 0).take 14).drop 7 = List.replicate 7 0 := by
  rw [List.drop_take, List.drop_append]
  rw [List.drop_eq_nil_of_le h]
  simp only [List.nil_append, List.drop_replicate, List.take_replicate]
  congr 1
  omega

theorem lmhash_short (oem : Bytes) (h : oem.length ≤ 7) : (lmhash oem).drop 16 = ascii "aad3b435b51404ee" := by
  unfold lmhash
  simp only []
  rw [hexLower_append, List.drop_append_of_le_length (by rw [hexLower_length, lmDesHash_length]; omega)]
  rw [List.drop_of_length_le (by rw [hexLower_length, lmDesHash_length]; omega), List.nil_append]
  rw [pad14_drop7 _ (by simpa using h), lmDesHash_zero]
  decide

end Lemmas.C02Formats
