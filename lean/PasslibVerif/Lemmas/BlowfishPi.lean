import PasslibVerif.Gen.Blowfish
import PasslibVerif.Spec.PiDigits
/-
The Blowfish initial tables are the hexadecimal digits of pi.

`Spec.PiDigits` computes an enclosure `piLo N ≤ pi * 2^N ≤ piHi N` by Machin's formula with exact
`Nat` arithmetic (see the comments there for why the enclosure holds).  Here the kernel evaluates
both bounds at `N = 32*1042 + 64` and checks

* that the two bounds agree after dropping the 64 guard bits, so that the first 1042 32-bit words of
  the fractional part of pi are determined by the enclosure, and
* that these 1042 words are, in order, passlib's `BLOWFISH_P` (18 words) followed by the S-boxes
  `BLOWFISH_S[0..3]` (4 x 256 words), as the Blowfish specification prescribes.
-/
namespace Lemmas.BlowfishPi
open Spec.PiDigits

/-- Integer part of the enclosure: both bounds say `3`. -/
theorem pi_int_part :
    piLo (scaleBits 1042) / 2 ^ scaleBits 1042 = 3 ∧ piHi (scaleBits 1042) / 2 ^ scaleBits 1042 = 3 := by
  decide +kernel

/-- Lower and upper bound have the same floor once the guard bits are dropped, i.e. both equal
`floor(pi * 2^(32*1042))`. -/
theorem pi_enclosure_floor_agrees :
    piLo (scaleBits 1042) >>> guardBits = piHi (scaleBits 1042) >>> guardBits := by
  decide +kernel

/-- The 1042 fractional words read from the lower and from the upper bound coincide. -/
theorem pi_enclosure_agrees : piFracWordsLo 1042 = piFracWordsHi 1042 := by
  decide +kernel

/-- P-array, then S-boxes 0, 1, 2, 3 = the first 1042 32-bit words of the fractional part of pi. -/
theorem blowfish_init_eq_pi :
    Gen.Blowfish.BLOWFISH_P ++ Gen.Blowfish.BLOWFISH_S.flatten = piFracWords 1042 := by
  decide +kernel

/-- Shape facts, so that the flattened statement above pins down every table separately. -/
theorem blowfish_shape :
    Gen.Blowfish.BLOWFISH_P.length = 18 ∧ Gen.Blowfish.BLOWFISH_S.map List.length = [256, 256, 256, 256] := by
  decide +kernel

/-- The P-array is words 0..17. -/
theorem blowfish_P_eq_pi : Gen.Blowfish.BLOWFISH_P = (piFracWords 1042).take 18 := by
  decide +kernel

/-- S-box `b` is words `18 + 256 b .. 18 + 256 b + 255`. -/
theorem blowfish_S_eq_pi :
    Gen.Blowfish.BLOWFISH_S =
      (List.range 4).map fun b => ((piFracWords 1042).drop (18 + 256 * b)).take 256 := by
  decide +kernel

end Lemmas.BlowfishPi

