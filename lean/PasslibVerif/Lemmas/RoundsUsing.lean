import PasslibVerif.Lemmas.Rounds
namespace Lemmas.Rounds
open Py Model.Rounds

theorem stepMin_some (cls : Cls) (a : UsingArgs) (x : Arg) (m : MinOut) (hx : argMin a = some x)
    (h : stepMin cls a = .ok m) :
    ∃ v n, coerce x = .ok v ∧ normRounds cls v a.relaxed = .ok n ∧
      m.sub = { cls with minDesired := some n } ∧ m.minLocal = some v ∧ m.explicit = true := by
  unfold stepMin at h
  rw [hx] at h
  simp only at h
  cases hc : coerce x with
  | error e => simp [hc] at h
  | ok v =>
    simp only [hc] at h
    cases hn : normRounds cls v a.relaxed with
    | error e => simp [hn] at h
    | ok n => simp only [hn] at h; cases h; exact ⟨v, n, rfl, hn, rfl, rfl, rfl⟩

theorem stepMin_none (cls : Cls) (a : UsingArgs) (m : MinOut) (hx : argMin a = none) (h : stepMin cls a = .ok m) :
    m = ⟨cls, cls.minDesired, false⟩ := by
  unfold stepMin at h; rw [hx] at h; cases h; rfl

theorem stepMax_some (cls : Cls) (m : MinOut) (a : UsingArgs) (y : Arg) (mx : MaxOut) (hy : argMax a = some y)
    (h : stepMax cls m a = .ok mx) :
    ∃ v v' n, coerce y = .ok v ∧ normRounds m.sub v' a.relaxed = .ok n ∧
      mx.sub = { m.sub with maxDesired := some n } ∧ mx.minLocal = m.minLocal ∧ mx.maxLocal = some v' ∧
      ((v' = v ∧ ¬ (truthy m.minLocal = true ∧ v < m.minLocal.getD 0)) ∨
       (v' = m.minLocal.getD 0 ∧ truthy m.minLocal = true ∧ v < m.minLocal.getD 0 ∧ m.explicit = false ∧ m.minLocal = some v')) := by
  unfold stepMax at h
  rw [hy] at h
  simp only at h
  cases hc : coerce y with
  | error e => simp [hc] at h
  | ok v =>
    simp only [hc] at h
    by_cases hcond : (truthy m.minLocal && decide (v < m.minLocal.getD 0)) = true
    · rw [if_pos hcond] at h
      have hc2 : truthy m.minLocal = true ∧ v < m.minLocal.getD 0 := by simpa using hcond
      cases he : m.explicit with
      | true => simp [he] at h
      | false =>
        simp only [he, Bool.false_eq_true, if_false] at h
        cases hn : normRounds m.sub (m.minLocal.getD 0) a.relaxed with
        | error e => simp [hn] at h
        | ok n =>
          simp only [hn] at h; cases h
          have hml : m.minLocal = some (m.minLocal.getD 0) := by
            cases hmm : m.minLocal with
            | none => simp [hmm, truthy] at hc2
            | some w => rfl
          exact ⟨v, m.minLocal.getD 0, n, rfl, hn, rfl, rfl, hml, Or.inr ⟨rfl, hc2.1, hc2.2, rfl, hml⟩⟩
    · rw [if_neg hcond] at h
      cases hn : normRounds m.sub v a.relaxed with
      | error e => simp [hn] at h
      | ok n =>
        simp only [hn] at h; cases h
        refine ⟨v, v, n, rfl, hn, rfl, rfl, rfl, Or.inl ⟨rfl, ?_⟩⟩
        intro hh; apply hcond; simpa using hh

theorem truthy_eff (o : Option Int) : truthy o = true ↔ ∃ v, eff o = some v ∧ o = some v := by
  cases o with
  | none => simp [truthy, eff]
  | some w => by_cases h : w = 0 <;> simp [truthy, eff, h]

/-- a window whose two ends are given in the same using() call comes out ordered -/
theorem using_window_ordered (cls : Cls) (a : UsingArgs) (c : Cls) (x y : Arg)
    (hh : HardOK cls.hardMin cls.hardMax) (hlo : 0 ≤ cls.hardMin)
    (hx : argMin a = some x) (hy : argMax a = some y) (h : usingRounds cls a = .ok c) :
    WindowOK c.minDesired c.maxDesired := by
  unfold usingRounds at h
  cases hm : stepMin cls a with
  | error e => simp [hm] at h
  | ok m =>
    simp only [hm] at h
    cases hmx : stepMax cls m a with
    | error e => simp [hmx] at h
    | ok mx =>
      simp only [hmx] at h
      cases hd : stepDefault mx a with
      | error e => simp [hd] at h
      | ok sub =>
        simp only [hd] at h
        obtain ⟨v, n, hcv, hnv, hsub, hml, hex⟩ := stepMin_some cls a x m hx hm
        obtain ⟨w, w', n2, hcw, hnw, hsub2, hml2, hxl, hor⟩ := stepMax_some cls m a y mx hy hmx
        -- the window fields of the result are those of mx.sub
        have hwin : c.minDesired = some n ∧ c.maxDesired = some n2 := by
          have hsd : sub.minDesired = mx.sub.minDesired ∧ sub.maxDesired = mx.sub.maxDesired := by
            unfold stepDefault at hd
            split at hd
            · cases hd; exact ⟨rfl, rfl⟩
            · split at hd
              · cases hd
              · split at hd
                · cases hd
                · split at hd
                  · cases hd
                  · split at hd
                    · cases hd
                    · cases hd; exact ⟨rfl, rfl⟩
          have hclip : (stepClip sub).minDesired = sub.minDesired ∧ (stepClip sub).maxDesired = sub.maxDesired := by
            unfold stepClip; split <;> exact ⟨rfl, rfl⟩
          have hvary : c.minDesired = (stepClip sub).minDesired ∧ c.maxDesired = (stepClip sub).maxDesired := by
            unfold stepVary at h
            split at h
            · cases h; exact ⟨rfl, rfl⟩
            · split at h <;> cases h <;> exact ⟨rfl, rfl⟩
            · cases h; exact ⟨rfl, rfl⟩
            · cases h; exact ⟨rfl, rfl⟩
          rw [hvary.1, hvary.2, hclip.1, hclip.2, hsd.1, hsd.2, hsub2, hsub]
          exact ⟨rfl, rfl⟩
        rw [hwin.1, hwin.2]
        -- hard limits are shared by all the intermediate classes
        have hhard : m.sub.hardMin = cls.hardMin ∧ m.sub.hardMax = cls.hardMax := by rw [hsub]; exact ⟨rfl, rfl⟩
        unfold normRounds at hnv hnw
        rw [hhard.1, hhard.2] at hnw
        have in1 := normInt_inHard _ _ hh v a.relaxed n hnv
        have in2 := normInt_inHard _ _ hh w' a.relaxed n2 hnw
        intro p q hp hq
        have hpn : p = n ∧ n ≠ 0 := by
          by_cases h0 : n = 0 <;> simp [eff, h0] at hp; exact ⟨hp.symm, h0⟩
        have hqn : q = n2 ∧ n2 ≠ 0 := by
          by_cases h0 : n2 = 0 <;> simp [eff, h0] at hq; exact ⟨hq.symm, h0⟩
        rw [hpn.1, hqn.1]
        rcases hor with ⟨e1, hnot⟩ | ⟨_, _, _, hexf, _⟩
        · subst e1
          rw [hml] at hnot
          by_cases hv0 : v = 0
          · -- the local minimum is 0 (false in Python): no ordering test ran, but both ends are clamped into the hard limits
            subst hv0
            rcases (by omega : w' < 0 ∨ 0 ≤ w') with hneg | hnn
            · rcases normInt_cases _ _ hh w' a.relaxed n2 hnw with ⟨_, e, _⟩ | ⟨hx', _, hlt, _, _⟩ | ⟨_, hge, _⟩
              · rw [e]
                rcases normInt_cases _ _ hh 0 a.relaxed n hnv with ⟨_, e0, _⟩ | ⟨hz, hzs, hlt0, _, _⟩ | ⟨e0, _, _⟩
                · omega
                · have := (hh hz hzs).2; omega
                · exact absurd e0 hpn.2
              · have := (hh hx' (by assumption)).2; omega
              · omega
            · exact normInt_mono _ _ hh 0 w' a.relaxed n n2 hnn hnv hnw
          · have : ¬ w' < v := by
              intro hlt; apply hnot; exact ⟨by simp [truthy, hv0], by simpa using hlt⟩
            exact normInt_mono _ _ hh v w' a.relaxed n n2 (by omega) hnv hnw
        · rw [hex] at hexf; cases hexf

end Lemmas.Rounds

namespace Lemmas.Rounds
open Py Model.Rounds

/-- a class whose limits and window bounds are non-negative and whose hard limits are sane -/
structure ClsOK (c : Cls) : Prop where
  hard : HardOK c.hardMin c.hardMax
  lo : 0 ≤ c.hardMin
  mn : ∀ a, c.minDesired = some a → 0 ≤ a
  mx : ∀ b, c.maxDesired = some b → 0 ≤ b
  df : ∀ d, c.defaultRounds = some d → 0 ≤ d

theorem stepMin_shape (cls : Cls) (a : UsingArgs) (m : MinOut) (h : stepMin cls a = .ok m) :
    m.sub.hardMin = cls.hardMin ∧ m.sub.hardMax = cls.hardMax ∧ m.sub.forceOdd = cls.forceOdd ∧
    m.sub.maxDesired = cls.maxDesired ∧ m.sub.defaultRounds = cls.defaultRounds ∧ m.sub.vary = cls.vary ∧
    (m.sub.minDesired = cls.minDesired ∨ ∃ v n, normInt cls.hardMin cls.hardMax v a.relaxed = .ok n ∧ m.sub.minDesired = some n) := by
  cases hx : argMin a with
  | none => rw [stepMin_none cls a m hx h]; exact ⟨rfl, rfl, rfl, rfl, rfl, rfl, Or.inl rfl⟩
  | some x =>
    obtain ⟨v, n, _, hn, hs, _, _⟩ := stepMin_some cls a x m hx h
    rw [hs]; exact ⟨rfl, rfl, rfl, rfl, rfl, rfl, Or.inr ⟨v, n, hn, rfl⟩⟩

theorem stepMax_shape (cls : Cls) (m : MinOut) (a : UsingArgs) (mx : MaxOut) (h : stepMax cls m a = .ok mx) :
    mx.sub.hardMin = m.sub.hardMin ∧ mx.sub.hardMax = m.sub.hardMax ∧ mx.sub.forceOdd = m.sub.forceOdd ∧
    mx.sub.minDesired = m.sub.minDesired ∧ mx.sub.defaultRounds = m.sub.defaultRounds ∧ mx.sub.vary = m.sub.vary ∧
    (mx.sub.maxDesired = m.sub.maxDesired ∨ ∃ v n, normInt m.sub.hardMin m.sub.hardMax v a.relaxed = .ok n ∧ mx.sub.maxDesired = some n) := by
  cases hy : argMax a with
  | none =>
    unfold stepMax at h; rw [hy] at h; cases h
    exact ⟨rfl, rfl, rfl, rfl, rfl, rfl, Or.inl rfl⟩
  | some y =>
    obtain ⟨v, v', n, _, hn, hs, _, _, _⟩ := stepMax_some cls m a y mx hy h
    rw [hs]; exact ⟨rfl, rfl, rfl, rfl, rfl, rfl, Or.inr ⟨v', n, hn, rfl⟩⟩

theorem stepDefault_shape (mx : MaxOut) (a : UsingArgs) (sub : Cls) (h : stepDefault mx a = .ok sub) :
    sub.hardMin = mx.sub.hardMin ∧ sub.hardMax = mx.sub.hardMax ∧ sub.forceOdd = mx.sub.forceOdd ∧
    sub.minDesired = mx.sub.minDesired ∧ sub.maxDesired = mx.sub.maxDesired ∧ sub.vary = mx.sub.vary ∧
    (sub.defaultRounds = mx.sub.defaultRounds ∨ ∃ v n, normInt mx.sub.hardMin mx.sub.hardMax v a.relaxed = .ok n ∧ sub.defaultRounds = some n) := by
  unfold stepDefault at h
  split at h
  · cases h; exact ⟨rfl, rfl, rfl, rfl, rfl, rfl, Or.inl rfl⟩
  · split at h
    · cases h
    · rename_i v _
      split at h
      · cases h
      · split at h
        · cases h
        · split at h
          · cases h
          · rename_i n hn
            cases h; exact ⟨rfl, rfl, rfl, rfl, rfl, rfl, Or.inr ⟨v, n, hn, rfl⟩⟩

theorem stepClip_shape (sub : Cls) :
    (stepClip sub).hardMin = sub.hardMin ∧ (stepClip sub).hardMax = sub.hardMax ∧ (stepClip sub).forceOdd = sub.forceOdd ∧
    (stepClip sub).minDesired = sub.minDesired ∧ (stepClip sub).maxDesired = sub.maxDesired ∧ (stepClip sub).vary = sub.vary ∧
    (stepClip sub).defaultRounds = sub.defaultRounds.map (clipWin sub.minDesired sub.maxDesired) := by
  unfold stepClip
  split
  · rename_i hd; simp [hd]
  · rename_i d hd; simp [hd, clipToDesired]

theorem stepVary_shape (sub : Cls) (a : UsingArgs) (c : Cls) (h : stepVary sub a = .ok c) :
    c.hardMin = sub.hardMin ∧ c.hardMax = sub.hardMax ∧ c.forceOdd = sub.forceOdd ∧
    c.minDesired = sub.minDesired ∧ c.maxDesired = sub.maxDesired ∧ c.defaultRounds = sub.defaultRounds := by
  unfold stepVary at h
  split at h
  · cases h; exact ⟨rfl, rfl, rfl, rfl, rfl, rfl⟩
  · split at h <;> cases h <;> exact ⟨rfl, rfl, rfl, rfl, rfl, rfl⟩
  · cases h; exact ⟨rfl, rfl, rfl, rfl, rfl, rfl⟩
  · cases h; exact ⟨rfl, rfl, rfl, rfl, rfl, rfl⟩

/-- everything `using()` can set is inside the format's hard limits; what it does not set is inherited;
    the default is always the clip of something into the resulting window -/
theorem using_shape (cls c : Cls) (a : UsingArgs) (h : usingRounds cls a = .ok c) :
    c.hardMin = cls.hardMin ∧ c.hardMax = cls.hardMax ∧ c.forceOdd = cls.forceOdd ∧
    (c.minDesired = cls.minDesired ∨ ∃ v n, normInt cls.hardMin cls.hardMax v a.relaxed = .ok n ∧ c.minDesired = some n) ∧
    (c.maxDesired = cls.maxDesired ∨ ∃ v n, normInt cls.hardMin cls.hardMax v a.relaxed = .ok n ∧ c.maxDesired = some n) ∧
    (∃ d0 : Option Int, c.defaultRounds = d0.map (clipWin c.minDesired c.maxDesired) ∧
      (d0 = cls.defaultRounds ∨ ∃ v n, normInt cls.hardMin cls.hardMax v a.relaxed = .ok n ∧ d0 = some n)) := by
  unfold usingRounds at h
  cases hm : stepMin cls a with
  | error e => simp [hm] at h
  | ok m =>
    simp only [hm] at h
    cases hmx : stepMax cls m a with
    | error e => simp [hmx] at h
    | ok mx =>
      simp only [hmx] at h
      cases hd : stepDefault mx a with
      | error e => simp [hd] at h
      | ok sub =>
        simp only [hd] at h
        obtain ⟨a1, a2, a3, a4, a5, _, a7⟩ := stepMin_shape cls a m hm
        obtain ⟨b1, b2, b3, b4, b5, _, b7⟩ := stepMax_shape cls m a mx hmx
        obtain ⟨c1, c2, c3, c4, c5, _, c7⟩ := stepDefault_shape mx a sub hd
        obtain ⟨d1, d2, d3, d4, d5, _, d7⟩ := stepClip_shape sub
        obtain ⟨e1, e2, e3, e4, e5, e6⟩ := stepVary_shape _ a c h
        refine ⟨by rw [e1, d1, c1, b1, a1], by rw [e2, d2, c2, b2, a2], by rw [e3, d3, c3, b3, a3], ?_, ?_, ?_⟩
        · rw [e4, d4, c4, b4]; exact a7
        · rw [e5, d5, c5]
          rcases b7 with hb | ⟨v, n, hn, hb⟩
          · left; rw [hb, a4]
          · right; rw [a1, a2] at hn; exact ⟨v, n, hn, hb⟩
        · refine ⟨sub.defaultRounds, ?_, ?_⟩
          · rw [e6, d7, e4, e5, d4, d5]
          · rcases c7 with hc | ⟨v, n, hn, hc⟩
            · left; rw [hc, b5, a5]
            · right; rw [b1, b2, a1, a2] at hn; exact ⟨v, n, hn, hc⟩

theorem using_preserves_ok (cls c : Cls) (a : UsingArgs) (hok : ClsOK cls) (h : usingRounds cls a = .ok c) : ClsOK c := by
  obtain ⟨h1, h2, _, hmn, hmx, d0, hd, hd0⟩ := using_shape cls c a h
  have hmnn : ∀ x, c.minDesired = some x → 0 ≤ x := by
    intro x hx
    rcases hmn with e | ⟨v, n, hn, e⟩
    · exact hok.mn x (by rw [← e]; exact hx)
    · rw [e] at hx; cases hx
      have := (normInt_inHard _ _ hok.hard v a.relaxed x hn).1; have := hok.lo; omega
  have hmxn : ∀ x, c.maxDesired = some x → 0 ≤ x := by
    intro x hx
    rcases hmx with e | ⟨v, n, hn, e⟩
    · exact hok.mx x (by rw [← e]; exact hx)
    · rw [e] at hx; cases hx
      have := (normInt_inHard _ _ hok.hard v a.relaxed x hn).1; have := hok.lo; omega
  refine ⟨by rw [h1, h2]; exact hok.hard, by rw [h1]; exact hok.lo, hmnn, hmxn, ?_⟩
  intro d hdd
  rw [hd] at hdd
  cases d0 with
  | none => simp at hdd
  | some d00 =>
    simp only [Option.map_some, Option.some.injEq] at hdd
    have hd00 : 0 ≤ d00 := by
      rcases hd0 with e | ⟨v, n, hn, e⟩
      · exact hok.df d00 e.symm
      · cases e; have := (normInt_inHard _ _ hok.hard v a.relaxed d00 hn).1; have := hok.lo; omega
    rw [← hdd]
    unfold clipWin
    have hg : 0 ≤ c.minDesired.getD 0 := by
      cases hcm : c.minDesired with
      | none => simp
      | some x => simpa using hmnn x hcm
    split
    · exact hg
    · cases hx : eff c.maxDesired with
      | none => simp only; exact hd00
      | some b =>
        simp only
        split
        · cases hcm : c.maxDesired with
          | none => simp [hcm, eff] at hx
          | some y =>
            have := hmxn y hcm
            by_cases hy : y = 0 <;> simp [hcm, eff, hy] at hx; omega
        · exact hd00

/-- after `using()`, the default lies inside the (ordered) window -/
theorem using_default_in_window (cls c : Cls) (a : UsingArgs) (hok : ClsOK cls) (h : usingRounds cls a = .ok c)
    (hw : WindowOK c.minDesired c.maxDesired) (d : Int) (hd : c.defaultRounds = some d) :
    InWindow c.minDesired c.maxDesired d := by
  have hcok := using_preserves_ok cls c a hok h
  obtain ⟨_, _, _, _, _, d0, hdd, _⟩ := using_shape cls c a h
  rw [hdd] at hd
  cases d0 with
  | none => simp at hd
  | some d00 =>
    simp only [Option.map_some, Option.some.injEq] at hd
    rw [← hd]
    apply clipWin_inWindow _ _ hw
    · cases hcm : c.minDesired with
      | none => simp
      | some x => simpa using hcok.mn x hcm
    · intro b hb
      cases hcm : c.maxDesired with
      | none => simp [hcm, eff] at hb
      | some y =>
        have := hcok.mx y hcm
        by_cases hy : y = 0 <;> simp [hcm, eff, hy] at hb; omega

theorem normInt_strict_ok (lo : Int) (hi : Option Int) (v k : Int) (h : normInt lo hi v false = .ok k) :
    k = v ∧ lo ≤ v ∧ ∀ b, eff hi = some b → v ≤ b := by
  unfold normInt at h
  by_cases h1 : v < lo
  · simp [h1] at h
  · simp only [h1, if_false] at h
    cases he : eff hi with
    | none => simp only [he, Except.ok.injEq] at h; exact ⟨h.symm, by omega, by intro b hb; cases hb⟩
    | some b =>
      simp only [he] at h
      by_cases h2 : v > b
      · simp [h2] at h
      · simp only [h2, if_false, Except.ok.injEq] at h
        exact ⟨h.symm, by omega, by intro b' hb'; cases hb'; omega⟩

/-- `generateChecked` succeeds only with the value `_generate_rounds` produced, and only inside the hard limits -/
theorem generateChecked_ok (c : Cls) (draw : Nat) (fv : Int) (k : Int) (h : generateChecked c draw fv = .ok k) :
    generateRounds c draw fv = .ok k ∧ c.hardMin ≤ k ∧ ∀ b, eff c.hardMax = some b → k ≤ b := by
  unfold generateChecked at h
  cases hg : generateRounds c draw fv with
  | error e => simp [hg] at h
  | ok r =>
    simp only [hg, normRounds] at h
    obtain ⟨rfl, h2, h3⟩ := normInt_strict_ok _ _ _ _ h
    exact ⟨rfl, h2, h3⟩

theorem hardLo_ge (c : Cls) (x : Int) : x ≤ hardLo c x ∧ c.hardMin ≤ hardLo c x := by
  unfold hardLo; omega
theorem hardHi_le (c : Cls) (x : Int) : hardHi c x ≤ x ∧ ∀ b, eff c.hardMax = some b → hardHi c x ≤ b := by
  unfold hardHi
  cases he : eff c.hardMax with
  | none => exact ⟨Int.le_refl _, by intro b hb; cases hb⟩
  | some h => exact ⟨by simp only; omega, by intro b hb; cases hb; simp only; omega⟩

/-- the value `_generate_rounds` draws lies between the two ends of `_calc_vary_rounds_range` -/
theorem generate_between (c : Cls) (hodd : c.forceOdd = false) (draw : Nat) (fv r : Int)
    (h : generateRounds c draw fv = .ok r) :
    ∃ d, c.defaultRounds = some d ∧
      (r = d ∨ ((varyRange c d fv).1 ≤ r ∧ r ≤ (varyRange c d fv).2 ∧ (varyRange c d fv).1 ≤ d ∧ d ≤ (varyRange c d fv).2)) := by
  unfold generateRounds at h
  cases hd : c.defaultRounds with
  | none => simp [hd] at h
  | some d =>
    refine ⟨d, rfl, ?_⟩
    simp only [hd, hodd, Bool.false_eq_true, if_false] at h
    by_cases hv : varyTruthy c.vary = true
    · simp only [hv, if_true] at h
      generalize (varyRange c d fv).1 = lo at *
      generalize (varyRange c d fv).2 = up at *
      by_cases hass : lo ≤ d ∧ d ≤ up
      · by_cases hlt : lo < up
        · simp only [hass, hlt, and_self, if_true, Except.map, Except.ok.injEq] at h
          have hmod : ((draw % (up - lo + 1).toNat : Nat) : Int) < up - lo + 1 := by
            have := Nat.mod_lt draw (show 0 < (up - lo + 1).toNat by omega)
            omega
          right; omega
        · simp only [hass, hlt, and_self, if_true, if_false, Except.map, Except.ok.injEq] at h
          left; exact h.symm
      · simp only [hass, if_false, Except.map] at h
        cases h
    · have hv' : varyTruthy c.vary = false := by simpa using hv
      simp only [hv', Bool.false_eq_true, if_false, Except.map, Except.ok.injEq] at h
      left; exact h.symm

/-- a hasher with an ordered window and an in-window default never produces a cost its own
    update check flags — for every value of the random draw and of the float-percentage atom -/
theorem generate_in_window (c : Cls) (hw : WindowOK c.minDesired c.maxDesired) (hodd : c.forceOdd = false)
    (hmn : 0 ≤ c.minDesired.getD 0) (hmx : ∀ b, eff c.maxDesired = some b → 0 ≤ b)
    (hdef : ∀ d, c.defaultRounds = some d → InWindow c.minDesired c.maxDesired d)
    (draw : Nat) (fv : Int) (r : Int) (h : generateRounds c draw fv = .ok r) :
    InWindow c.minDesired c.maxDesired r ∧ needsUpdate c r = false := by
  have key : InWindow c.minDesired c.maxDesired r := by
    obtain ⟨d, hd, hr⟩ := generate_between c hodd draw fv r h
    have hdw := hdef d hd
    rcases hr with rfl | ⟨h1, h2, h3, h4⟩
    · exact hdw
    · simp only [varyRange, clipToDesired] at h1 h2 h3 h4
      have hl := clipWin_inWindow c.minDesired c.maxDesired hw (d - varyAmount c fv) hmn hmx
      have hu := clipWin_inWindow c.minDesired c.maxDesired hw (d + varyAmount c fv) hmn hmx
      have a1 := (hardLo_ge c (clipWin c.minDesired c.maxDesired (d - varyAmount c fv))).1
      have a2 := (hardHi_le c (clipWin c.minDesired c.maxDesired (d + varyAmount c fv))).1
      refine ⟨fun x hx => ?_, fun x hx => ?_⟩
      · have := hl.1 x hx; omega
      · have := hu.2 x hx; omega
  refine ⟨key, ?_⟩
  unfold needsUpdate
  simp only [hodd, Bool.false_and, Bool.false_or]
  exact (outsideWin_iff _ _ r).2 key

/-- the drawn value never leaves the hard limits when the default is inside them: `hash()` cannot fail on
    its own generated cost -/
theorem generate_in_hard (c : Cls) (hodd : c.forceOdd = false) (draw : Nat) (fv r : Int)
    (hdef : ∀ d, c.defaultRounds = some d → c.hardMin ≤ d ∧ ∀ b, eff c.hardMax = some b → d ≤ b)
    (h : generateRounds c draw fv = .ok r) :
    c.hardMin ≤ r ∧ ∀ b, eff c.hardMax = some b → r ≤ b := by
  obtain ⟨d, hd, hr⟩ := generate_between c hodd draw fv r h
  have hdh := hdef d hd
  rcases hr with rfl | ⟨h1, h2, _, _⟩
  · exact hdh
  · simp only [varyRange] at h1 h2
    have a1 := (hardLo_ge c (clipToDesired c (d - varyAmount c fv))).2
    have a2 := (hardHi_le c (clipToDesired c (d + varyAmount c fv))).2
    exact ⟨by omega, fun b hb => by have := a2 b hb; omega⟩

theorem generateChecked_eq (c : Cls) (hodd : c.forceOdd = false) (draw : Nat) (fv r : Int)
    (hdef : ∀ d, c.defaultRounds = some d → c.hardMin ≤ d ∧ ∀ b, eff c.hardMax = some b → d ≤ b)
    (h : generateRounds c draw fv = .ok r) : generateChecked c draw fv = .ok r := by
  obtain ⟨h1, h2⟩ := generate_in_hard c hodd draw fv r hdef h
  unfold generateChecked normRounds normInt
  simp only [h]
  have : ¬ r < c.hardMin := by omega
  simp only [this, if_false]
  cases he : eff c.hardMax with
  | none => rfl
  | some b => have := h2 b he; have : ¬ r > b := by omega
              simp only [this, if_false]

end Lemmas.Rounds
