/-
Arithmetic reading of the bit operators on `Nat`, so that `omega` can finish goals about
mask/shift code.  Use:  `simp (disch := omega) only [bitarith]`-style calls, see `Bits.simps`.
-/
namespace Bits

theorem and1 (x : Nat) : x &&& 1 = x % 2 := Nat.and_two_pow_sub_one_eq_mod x 1
theorem and3 (x : Nat) : x &&& 3 = x % 4 := Nat.and_two_pow_sub_one_eq_mod x 2
theorem and7 (x : Nat) : x &&& 7 = x % 8 := Nat.and_two_pow_sub_one_eq_mod x 3
theorem and15 (x : Nat) : x &&& 15 = x % 16 := Nat.and_two_pow_sub_one_eq_mod x 4
theorem and31 (x : Nat) : x &&& 31 = x % 32 := Nat.and_two_pow_sub_one_eq_mod x 5
theorem and63 (x : Nat) : x &&& 63 = x % 64 := Nat.and_two_pow_sub_one_eq_mod x 6
theorem and127 (x : Nat) : x &&& 127 = x % 128 := Nat.and_two_pow_sub_one_eq_mod x 7
theorem and255 (x : Nat) : x &&& 255 = x % 256 := Nat.and_two_pow_sub_one_eq_mod x 8
theorem andFFFF (x : Nat) : x &&& 65535 = x % 65536 := Nat.and_two_pow_sub_one_eq_mod x 16
theorem and31bit (x : Nat) : x &&& 2147483647 = x % 2147483648 := Nat.and_two_pow_sub_one_eq_mod x 31
theorem and32bit (x : Nat) : x &&& 4294967295 = x % 4294967296 := Nat.and_two_pow_sub_one_eq_mod x 32

theorem mul_or (a b k : Nat) (h : b < 2^k) : (a * 2^k) ||| b = a * 2^k + b := by
  rw [Nat.mul_comm, Nat.two_pow_add_eq_or_of_lt h]
theorem or_mul (a b k : Nat) (h : b < 2^k) : b ||| (a * 2^k) = a * 2^k + b := by
  rw [Nat.or_comm, mul_or _ _ _ h]

end Bits

/-- rewrite masks / shifts / disjoint ORs of `Nat` into `%`, `/`, `*`, `+` (side conditions by `omega`) -/
macro "bitsimp" : tactic => `(tactic|
  simp (disch := omega) only [Bits.and1, Bits.and3, Bits.and7, Bits.and15, Bits.and31, Bits.and63, Bits.and127,
    Bits.and255, Bits.andFFFF, Bits.and31bit, Bits.and32bit,
    Nat.shiftRight_eq_div_pow, Nat.shiftLeft_eq, Bits.mul_or, Bits.or_mul,
    List.cons.injEq, and_true, true_and])

