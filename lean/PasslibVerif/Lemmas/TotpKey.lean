import PasslibVerif.Model.TotpKey
import PasslibVerif.Lemmas.B64Std
namespace Lemmas.TotpKey
open Py Gen.Totp Model.B64 Model.TotpKey

theorem hexVal_hexDigit : ∀ n, n < 16 → hexValUpper (hexDigitUpper n) = some n := by decide

theorem b16_roundtrip : ∀ bs : Bytes, Bytes.WF bs → b16decode (b16encode bs) = .ok bs
  | [], _ => rfl
  | b :: rest, h => by
    have hb : b < 256 := h b (by simp)
    have ih := b16_roundtrip rest (fun x hx => h x (by simp [hx]))
    simp only [b16encode, List.flatMap_cons, List.cons_append, List.nil_append] at *
    simp only [b16decode, ih]
    have h1 : b / 16 < 16 := by omega
    have h2 : b % 16 < 16 := by omega
    have e1 := hexVal_hexDigit (b / 16) h1
    have e2 := hexVal_hexDigit (b % 16) h2
    simp only [e1, e2]
    congr 2; omega

/-- inserting a separator (whitespace, '-', '=') anywhere does not change the cleaned key -/
theorem clean_insert (a b : List Nat) (c : Nat) (hc : c ∈ cleanRemoved) : clean (a ++ c :: b) = clean (a ++ b) := by
  unfold clean
  have : cleanRemoved.contains c = true := by simpa using hc
  simp [List.filter_append, List.filter_cons, hc]

theorem decodeKey_decorated (f : Fmt) (a b : List Nat) (c : Nat) (hc : c ∈ cleanRemoved) (hf : f ≠ .raw) :
    decodeKey f (a ++ c :: b) = decodeKey f (a ++ b) := by
  cases f with
  | raw => exact absurd rfl hf
  | hex => simp only [decodeKey, clean_insert a b c hc]
  | base32 => simp only [decodeKey, clean_insert a b c hc]

theorem clean_separators : (32 ∈ cleanRemoved) ∧ (45 ∈ cleanRemoved) ∧ (61 ∈ cleanRemoved) ∧ (9 ∈ cleanRemoved) ∧
    (10 ∈ cleanRemoved) ∧ ∀ c ∈ cleanRemoved, c ∉ Spec.Rfc4648.b32Alphabet ∧ hexValUpper (upper c) = none := by
  decide +kernel

end Lemmas.TotpKey

namespace Lemmas.TotpKey
open Py Gen.Totp Model.B64 Model.TotpKey Spec.Rfc4648

theorem filter_id_of_all {α} (p : α → Bool) (l : List α) (h : ∀ x ∈ l, p x = true) : l.filter p = l := by
  induction l with
  | nil => rfl
  | cons x xs ih =>
    simp only [List.filter_cons, h x (by simp), if_true]
    rw [ih (fun y hy => h y (by simp [hy]))]

theorem b32encode_mem (k : Bytes) : ∀ c ∈ b32encode k, c ∈ b32Alphabet := by
  intro c hc
  unfold b32encode base32NoPad at hc
  rcases List.mem_map.1 hc with ⟨v, hv, rfl⟩
  have hv32 := Lemmas.Rfc4648.groups32_lt32 k v hv
  have : v < b32Alphabet.length := by rw [Lemmas.B64.b32Alphabet_ok.1]; exact hv32
  simp only [List.getD, List.getElem?_eq_getElem this, Option.getD_some]; exact List.getElem_mem _

theorem b32_alphabet_clean : ∀ c ∈ b32Alphabet, cleanRemoved.contains c = false ∧ c < 128 := by decide +kernel

theorem base32_key_roundtrip (k : Bytes) (h : Bytes.WF k) : decodeKey .base32 (base32Key k) = .ok k := by
  unfold decodeKey base32Key
  have hc : clean (b32encode k) = b32encode k := by
    unfold clean
    apply filter_id_of_all
    intro c hc
    have := (b32_alphabet_clean c (b32encode_mem k c hc)).1
    simp only [this, Bool.not_false]
  simp only [hc]
  have hany : (b32encode k).any (· ≥ 128) = false := by
    rw [List.any_eq_false]
    intro c hc
    have := (b32_alphabet_clean c (b32encode_mem k c hc)).2
    simp; omega
  simp only [hany, Bool.false_eq_true, if_false]
  exact Lemmas.B64.b32_roundtrip k h

def lowerHex (c : Nat) : Nat := if 65 ≤ c ∧ c ≤ 90 then c + 32 else c

theorem hexdigit_facts : ∀ n, n < 16 →
    upper (lowerHex (hexDigitUpper n)) = hexDigitUpper n ∧ cleanRemoved.contains (lowerHex (hexDigitUpper n)) = false ∧
    lowerHex (hexDigitUpper n) < 128 := by decide +kernel

theorem hex_key_roundtrip (k : Bytes) (h : Bytes.WF k) : decodeKey .hex (hexKey k) = .ok k := by
  unfold decodeKey hexKey
  have hchars : ∀ c ∈ (b16encode k).map lowerHex, ∃ n, n < 16 ∧ c = lowerHex (hexDigitUpper n) := by
    intro c hc
    rcases List.mem_map.1 hc with ⟨u, hu, rfl⟩
    unfold b16encode at hu
    rcases List.mem_flatMap.1 hu with ⟨b, hb, hub⟩
    have hb256 := h b hb
    simp only [List.mem_cons, List.not_mem_nil, or_false] at hub
    rcases hub with rfl | rfl
    · exact ⟨b / 16, by omega, rfl⟩
    · exact ⟨b % 16, by omega, rfl⟩
  have hc : clean ((b16encode k).map lowerHex) = (b16encode k).map lowerHex := by
    unfold clean
    apply filter_id_of_all
    intro c hc
    obtain ⟨n, hn, rfl⟩ := hchars c hc
    have := (hexdigit_facts n hn).2.1
    simp only [this, Bool.not_false]
  have hany : ((b16encode k).map lowerHex).any (· ≥ 128) = false := by
    rw [List.any_eq_false]
    intro c hc
    obtain ⟨n, hn, rfl⟩ := hchars c hc
    have := (hexdigit_facts n hn).2.2
    simp; omega
  have hup : ((b16encode k).map lowerHex).map upper = b16encode k := by
    rw [List.map_map]
    conv => rhs; rw [← List.map_id (b16encode k)]
    apply List.map_congr_left
    intro u hu
    unfold b16encode at hu
    rcases List.mem_flatMap.1 hu with ⟨b, hb, hub⟩
    have hb256 := h b hb
    simp only [List.mem_cons, List.not_mem_nil, or_false] at hub
    rcases hub with rfl | rfl
    · exact (hexdigit_facts (b / 16) (by omega)).1
    · exact (hexdigit_facts (b % 16) (by omega)).1
  have hk : (b16encode k).map (fun c => if 65 ≤ c ∧ c ≤ 90 then c + 32 else c) = (b16encode k).map lowerHex := rfl
  rw [hk, hc, hany, hup]
  simp only [Bool.false_eq_true, if_false]
  exact b16_roundtrip k h

end Lemmas.TotpKey
