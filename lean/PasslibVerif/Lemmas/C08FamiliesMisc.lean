import PasslibVerif.Lemmas.C08Families
import PasslibVerif.Props.C01Misc
import PasslibVerif.Props.C07Misc
/-
`C08Facts` for fshp and scrypt (Model/VerifyFmt/Misc.lean), with the parser-acceptance lemmas that show where the digest is DEFINED on what
the parser returns; the error kinds of the three parsers of the family (a small calculus `OnlyErr` over `resBind` / `if` / `match`).
scram (its own `verify`) is in Lemmas/C08FamiliesMiscScram.lean.
-/
namespace Lemmas.C08FamiliesMisc
open Py Model.Handler Model.Formats Model.Verify Model.VerifyFmt.Misc Props.C01 Lemmas.C08Families Lemmas.FormatsMisc

/-- every error of `r` is ValueError or one of `E` -/
def OnlyErr {α} (E : List ErrKind) (r : Res α) : Prop := ∀ e, r = .error e → ErrIn E e

theorem OnlyErr.ok {α} {E : List ErrKind} (a : α) : OnlyErr E (.ok a : Res α) := fun e h => by cases h
theorem OnlyErr.vErr {α} {E : List ErrKind} : OnlyErr E (vErr : Res α) := fun e h => by cases h; exact Or.inl rfl
theorem OnlyErr.verr {α} {E : List ErrKind} : OnlyErr E (.error .valueError : Res α) := fun e h => by cases h; exact Or.inl rfl
theorem OnlyErr.tErr {α} {E : List ErrKind} (h : ErrKind.typeError ∈ E) : OnlyErr E (tErr : Res α) := fun e he => by cases he; exact Or.inr h
theorem OnlyErr.err {α} {E : List ErrKind} (k : ErrKind) (h : k ∈ E) : OnlyErr E (.error k : Res α) := fun e he => by cases he; exact Or.inr h
theorem OnlyErr.bind {α β} {E : List ErrKind} {r : Res α} {f : α → Res β} (hr : OnlyErr E r) (hf : ∀ a, OnlyErr E (f a)) :
    OnlyErr E (resBind r f) := by
  intro e h
  cases r with
  | error e' => simp only [resBind, Except.error.injEq] at h; exact hr e (by rw [h])
  | ok a => exact hf a e h
theorem OnlyErr.map {α β} {E : List ErrKind} {r : Res α} (f : α → β) (hr : OnlyErr E r) : OnlyErr E (r.map f) := by
  intro e h
  cases r with
  | error e' => simp only [Except.map, Except.error.injEq] at h; exact hr e (by rw [h])
  | ok a => simp [Except.map] at h
theorem OnlyErr.ite {α} {E : List ErrKind} {c : Prop} [Decidable c] {x y : Res α} (hx : OnlyErr E x) (hy : OnlyErr E y) :
    OnlyErr E (if c then x else y) := by
  by_cases hc : c
  · rw [if_pos hc]; exact hx
  · rw [if_neg hc]; exact hy
theorem OnlyErr.mono {α} {E E' : List ErrKind} {r : Res α} (h : OnlyErr E r) (hs : ∀ e ∈ E, e ∈ E') : OnlyErr E' r :=
  fun e he => (h e he).imp id (hs e)

theorem pyInt_err {E : List ErrKind} (s : Str) : OnlyErr E (pyInt s) := by
  unfold pyInt; split
  · exact .ok _
  · exact .vErr
theorem stdB64Decode_err {E : List ErrKind} (s : Bytes) : OnlyErr E (stdB64Decode s) := by
  unfold stdB64Decode; split
  · exact .ok _
  · exact .vErr
theorem b64sDecodeS_err (s : Str) : OnlyErr [.typeError] (b64sDecodeS s) := by
  unfold b64sDecodeS b64sDecodeB
  refine .ite ?_ .vErr
  simp only
  refine .ite .vErr ?_
  split
  · exact .ok _
  · exact .tErr (by simp)
theorem decodeInt6_err {E : List ErrKind} (e : Model.B64.Engine) (s : Bytes) : OnlyErr E (Model.B64.decodeInt6 e s) := by
  unfold Model.B64.decodeInt6
  split
  · split
    · exact .ok _
    · exact .verr
  · exact .verr
theorem decodeInt_err {E : List ErrKind} (e : Model.B64.Engine) (s : Bytes) (n : Nat) : OnlyErr E (Model.B64.decodeInt e s n) := by
  unfold Model.B64.decodeInt
  simp only
  refine .ite .verr ?_
  split
  · exact .verr
  · exact .ok _
theorem decodeBytes_err {E : List ErrKind} (e : Model.B64.Engine) (s : Bytes) : OnlyErr E (Model.B64.decodeBytes e s) := by
  unfold Model.B64.decodeBytes
  refine .ite .verr ?_
  split
  · exact .verr
  · exact .ok _

theorem parseOf_err {E : List ErrKind} (f : FormatE) (hs : Str) (h : OnlyErr E (f.parseE hs)) : OnlyErr E (parseOf f hs) := by
  intro e he
  unfold parseOf at he
  split at he
  · cases he
  · cases he; exact Or.inl rfl
  · rename_i e' heq; cases he; exact h _ heq

theorem parseOf_ok (f : FormatE) (hs : Str) (p : Parsed) (h : parseOf f hs = .ok p) : f.parseE hs = .ok (some p) := by
  unfold parseOf at h
  split at h
  · rename_i q heq; cases h; exact heq
  · cases h
  · cases h

/-! ### fshp -/
theorem fshpParse_err (hs : Str) : OnlyErr [] (fshpParse hs) := by
  unfold fshpParse
  split
  · exact .vErr
  · refine .bind (pyInt_err _) fun variant => .bind (pyInt_err _) fun saltSize => .bind (pyInt_err _) fun rounds =>
      .bind (stdB64Decode_err _) fun raw => ?_
    simp only
    split
    · exact .vErr
    · exact .ite .vErr (.ite .vErr (.ok _))

theorem fshpKey_err (v : Nat) (b salt : Bytes) (r : Nat) : OnlyErr [] (fshpKey v b salt r) := by
  unfold fshpKey
  split
  · exact .verr
  · exact .ite .verr (.ok _)

theorem fshp_facts : C08Facts [] fshpHasher where
  parseErr := fun hs e he => parseOf_err fshp hs (fshpParse_err hs) e he
  digestErr := fun hs p b e _ he => fshpKey_err _ _ _ _ e he
  ignores := fun _ _ _ => rfl

/-- the digest is DEFINED on everything `fshp.from_string` accepts (variant 0..3, rounds ≥ 1): a ValueError of `verify` can only come from
    the parser (fshp has no configuration strings either: `fshp_parse_has_checksum`) -/
theorem fshp_digest_defined_of_parse (hs : Str) (p : Parsed) (b : Bytes) (hp : fshpHasher.parse hs = .ok p) : ∃ c, fshpHasher.digest b p = .ok c := by
  have hl := fshp_parse_limits hs p (parseOf_ok fshp hs p hp)
  obtain ⟨r, hr, hr1, _⟩ := hl.rounds
  obtain ⟨v, hv, hv4, _⟩ := hl.variant
  show ∃ c, fshpKey (extraNat p "variant") b (p.salt.getD []) (p.rounds.getD 0).toNat = .ok c
  have hx : extraNat p "variant" = v := by unfold extraNat; rw [hv]; simp [natField]
  rw [hx, hr]
  have hr' : 1 ≤ ((some r).getD 0).toNat := by simp only [Option.getD_some]; omega
  obtain ⟨c, hc, _⟩ := Lemmas.C01Misc.fshpKey_props v hv4 b (p.salt.getD []) _ hr'
  exact ⟨c, hc⟩

theorem fshp_parse_has_checksum (hs : Str) (p : Parsed) (hp : fshpHasher.parse hs = .ok p) : ∃ c, p.checksum = some c := by
  obtain ⟨v, _, _, c, hc, _⟩ := (fshp_parse_limits hs p (parseOf_ok fshp hs p hp)).variant
  exact ⟨c, hc⟩

/-! ### scrypt -/
theorem scryptInit_err {E : List ErrKind} (id : Str) (r b pp : Int) (s : Bytes) (c : Option Bytes) : OnlyErr E (scryptInit id r b pp s c) := by
  unfold scryptInit
  exact .ite .vErr (.ite .vErr (.ite .vErr (.ite .vErr (.ite .vErr (.ok _)))))

theorem scryptParseScrypt_err (suffix : Str) : OnlyErr [.typeError] (scryptParseScrypt suffix) := by
  unfold scryptParseScrypt
  refine .bind ?_ fun x => ?_
  · split
    · exact .ok _
    · exact .ok _
    · exact .vErr
  · obtain ⟨params, salt, digest⟩ := x
    refine .bind ?_ fun y => ?_
    · split
      · exact .ite (.ok _) .vErr
      · exact .vErr
    · obtain ⟨n, b, p⟩ := y
      refine .bind (pyInt_err _) fun rounds => .bind (pyInt_err _) fun block => .bind (pyInt_err _) fun par =>
        .bind (b64sDecodeS_err _) fun saltB => .bind ?_ fun chk => scryptInit_err _ _ _ _ _ _
      split
      · exact .ite (.ok _) (.map _ (b64sDecodeS_err _))
      · exact .ok _

theorem scryptParse7_err (suffix : Str) : OnlyErr [.typeError] (scryptParse7 suffix) := by
  unfold scryptParse7
  refine .ite .vErr (.bind ?_ fun x => ?_)
  · split
    · exact .ok _
    · exact .ok _
    · exact .vErr
  · obtain ⟨params, digest⟩ := x
    refine .ite .vErr (.bind (decodeInt6_err _ _) fun rounds => .bind (decodeInt_err _ _ _) fun block => .bind (decodeInt_err _ _ _) fun par =>
      .bind ?_ fun chk => scryptInit_err _ _ _ _ _ _)
    split
    · exact .ite (.ok _) (.map _ (decodeBytes_err _ _))
    · exact .ok _

theorem scryptParse_err (hs : Str) : OnlyErr [.typeError] (scryptParse hs) := by
  unfold scryptParse
  split
  · exact scryptParseScrypt_err _
  · split
    · exact scryptParse7_err _
    · exact .vErr

theorem scryptKey_err (b salt : Bytes) (logN r p : Nat) : OnlyErr [.typeError] (scryptKey b salt logN r p) := by
  unfold scryptKey
  exact .ite .verr (.ite .verr (.ite .verr (.ite .verr (.ok _))))

theorem scrypt_facts : C08Facts [.typeError] scryptHasher where
  parseErr := fun hs e he => parseOf_err scrypt hs (scryptParse_err hs) e he
  digestErr := fun hs p b e _ he => scryptKey_err _ _ _ _ _ e he
  ignores := fun _ _ _ => rfl

/-- the digest is DEFINED on what `scrypt.from_string` accepts (both layouts) as soon as `r·p ≤ 2^30 - 1` — the one guard of
    `passlib.crypto.scrypt.validate` the constructor does not check; beyond it `verify` raises ValueError from the digest -/
theorem scrypt_digest_defined_of_parse (hs : Str) (p : Parsed) (b : Bytes) (hp : scryptHasher.parse hs = .ok p)
    (hrp : extraNat p "block_size" * extraNat p "parallelism" ≤ SCRYPT_MAX_RP) : ∃ c, scryptHasher.digest b p = .ok c := by
  have hl := scrypt_parse_limits hs p (parseOf_ok scrypt hs p hp)
  obtain ⟨r, hr, hr1, _⟩ := hl.rounds
  obtain ⟨bs, pp, hx, hb1, hp1⟩ := hl.extra
  show ∃ c, scryptKey b (p.salt.getD []) (p.rounds.getD 0).toNat (extraNat p "block_size") (extraNat p "parallelism") = .ok c
  have h1 : extraNat p "block_size" = bs := by unfold extraNat; rw [hx]; simp [scryptExtra, natField]
  have h2 : extraNat p "parallelism" = pp := by unfold extraNat; rw [hx]; simp [scryptExtra, natField]
  rw [h1, h2] at hrp ⊢
  rw [hr]
  have hr' : 1 ≤ ((some r).getD 0).toNat := by simp only [Option.getD_some]; omega
  exact ⟨_, (Lemmas.C01Misc.scryptKey_props b (p.salt.getD []) _ bs pp hr' hb1 hp1 hrp).1⟩

/-- … and when it is not defined the error is the ValueError of `validate` ("r*p must be < 2**30") -/
theorem scrypt_digest_error_is_value_error (b : Bytes) (p : Parsed) (e : ErrKind) (h : scryptHasher.digest b p = .error e) : e = .valueError := by
  have h' : scryptKey b (p.salt.getD []) (p.rounds.getD 0).toNat (extraNat p "block_size") (extraNat p "parallelism") = .error e := h
  unfold scryptKey at h'
  repeat (split at h'; · cases h'; rfl)
  cases h'

end Lemmas.C08FamiliesMisc
