import PasslibVerif.Lemmas.C08Families
import PasslibVerif.Model.VerifyFmt.Static
/-
`C08Facts` for the hashers of Model/VerifyFmt/Static.lean (unsalted digests, database / LDAP / Windows / Cisco formats).  Every parser is
`toRes ∘ Format.parse` (ValueError only).  Digests: total, or ValueError for a secret that is not UTF-8 (nthash, msdcc, msdcc2, oracle10,
mssql2000 / 2005 decode it), or — for the classes that take a `user` context keyword (msdcc, msdcc2, postgres_md5, oracle10) — the
TypeError `to_unicode(None, param="user")` / `to_bytes(None)` raises when no user was given, ValueError for a user that is not UTF-8.
-/
namespace Lemmas.C08FamiliesStatic
open Py Model.Handler Model.Formats Model.Verify Model.VerifyFmt.Static Props.C01 Lemmas.C08Families Lemmas.C08Crypt

theorem ofFormat_facts {extra : List ErrKind} (f : Format) (digest : Bytes → Parsed → Res Str)
    (hd : ∀ b p e, digest b p = .error e → ErrIn extra e) (hi : ∀ b p x, digest b { p with checksum := x } = digest b p) :
    C08Facts extra (ofFormat f digest) where
  parseErr := fun hs e he => Or.inl (toRes_error _ e he)
  digestErr := fun hs p b e _ he => hd b p e he
  ignores := hi

theorem map_err {α β} (x : Res α) (f : α → β) (e : ErrKind) (h : x.map f = .error e) : x = .error e := by
  cases x with
  | error e' => simpa [Except.map] using h
  | ok a => simp [Except.map] at h

theorem decodeUtf8_err (b : Bytes) (e : ErrKind) (h : decodeUtf8 b = .error e) : e = .valueError := by
  unfold decodeUtf8 at h; split at h <;> cases h; rfl

theorem userText_err (user : Option Bytes) (e : ErrKind) (h : userText user = .error e) : ErrIn [.typeError] e := by
  unfold userText at h
  cases user with
  | none => cases h; exact Or.inr (by simp)
  | some u => exact Or.inl (decodeUtf8_err u e h)

theorem msdccRawOf_err (b : Bytes) (user : Option Bytes) (e : ErrKind) (h : msdccRawOf b user = .error e) : ErrIn [.typeError] e := by
  unfold msdccRawOf at h
  split at h
  · exact userText_err user e (map_err _ _ e (map_err _ _ e h))
  · cases h; exact Or.inl rfl

theorem total_ok {extra : List ErrKind} (v : Str) (e : ErrKind) (h : (Except.ok v : Res Str) = .error e) : ErrIn extra e := by cases h

theorem hex_facts (f : Format) (H : Bytes → Bytes) : C08Facts [] (hexHasher f H) := ofFormat_facts f _ (fun _ _ e h => by cases h) (fun _ _ _ => rfl)
theorem nthash_facts : C08Facts [] nthashHasher :=
  ofFormat_facts _ _ (fun b _ e h => by unfold nthashDigest at h; split at h <;> cases h; exact Or.inl rfl) (fun _ _ _ => rfl)
theorem lmhash_facts (te : Bool) : C08Facts [] (lmhashHasher te) where
  parseErr := fun hs e he => Or.inl (toRes_error _ e he)
  digestErr := fun hs p b e _ he => by cases he
  ignores := fun _ _ _ => rfl
theorem msdcc_facts (user : Option Bytes) : C08Facts [.typeError] (msdccHasher user) :=
  ofFormat_facts _ _ (fun b _ e h => msdccRawOf_err b user e (map_err _ _ e h)) (fun _ _ _ => rfl)
theorem msdcc2_facts (user : Option Bytes) : C08Facts [.typeError] (msdcc2Hasher user) :=
  ofFormat_facts _ _ (fun b _ e h => msdccRawOf_err b user e (map_err _ _ e h)) (fun _ _ _ => rfl)
theorem mysql323_facts : C08Facts [] mysql323Hasher := ofFormat_facts _ _ (fun _ _ e h => by cases h) (fun _ _ _ => rfl)
theorem mysql41_facts : C08Facts [] mysql41Hasher := ofFormat_facts _ _ (fun _ _ e h => by cases h) (fun _ _ _ => rfl)
theorem postgres_md5_facts (user : Option Bytes) : C08Facts [.typeError] (postgres_md5Hasher user) :=
  ofFormat_facts _ _ (fun b _ e h => by
    unfold postgresDigest at h
    cases user with
    | none => cases h; exact Or.inr (by simp)
    | some u => cases h) (fun _ _ _ => rfl)
theorem oracle10_facts (user : Option Bytes) : C08Facts [.typeError] (oracle10Hasher user) :=
  ofFormat_facts _ _ (fun b _ e h => by
    unfold oracle10Digest at h
    cases hd : decodeUtf8 b with
    | error e' => rw [hd] at h; cases h; exact Or.inl (decodeUtf8_err b _ hd)
    | ok s => rw [hd] at h; exact userText_err user e (map_err _ _ e h)) (fun _ _ _ => rfl)
theorem oracle11_facts : C08Facts [] oracle11Hasher :=
  ofFormat_facts _ _ (fun b p e h => by unfold oracle11Digest at h; split at h <;> cases h; exact Or.inl rfl) (fun _ _ _ => rfl)
theorem cisco_facts (asa : Bool) (user : Option Bytes) : C08Facts [] (ciscoHasher asa user) :=
  ofFormat_facts _ _ (fun _ _ e h => by cases h) (fun _ _ _ => rfl)
theorem ldapB64_facts (f : Format) (H : Bytes → Bytes) : C08Facts [] (ldapB64Hasher f H) :=
  ofFormat_facts f _ (fun _ _ e h => by cases h) (fun _ _ _ => rfl)
theorem ldapSalted_facts (f : Format) (H : Bytes → Bytes) : C08Facts [] (ldapSaltedHasher f H) :=
  ofFormat_facts f _ (fun _ _ e h => by cases h) (fun _ _ _ => rfl)
theorem mssql2005_facts : C08Facts [] mssql2005Hasher :=
  ofFormat_facts _ _ (fun b p e h => Or.inl (decodeUtf8_err b e (map_err _ _ e h))) (fun _ _ _ => rfl)
theorem mssql2000_facts : C08Facts [] mssql2000Hasher :=
  ofFormat_facts _ _ (fun b p e h => Or.inl (decodeUtf8_err b e (map_err _ _ e h))) (fun _ _ _ => rfl)

/-- the family's PrefixWrapper `verify` (orig_prefix = "") is the generic `unwrapVerify` -/
theorem wrapVerify_eq (pfx : Str) (h : Hasher) (s : Secret) (hs : Str) :
    wrapVerify pfx h s hs = unwrapVerify (stripPrefix pfx) (verify h) s hs := by
  unfold wrapVerify unwrapVerify
  cases hsp : stripPrefix pfx hs <;> simp [hsp]

/-! ### mssql2000: its own `verify` compares the second (upper-cased) half of the 40-byte checksum only -/

theorem mssql2000Verify_total (s : Secret) (hs : Str) : Total [] false (mssql2000Verify s hs) := by
  unfold mssql2000Verify Total
  cases hv : validateSecret s with
  | error e =>
    unfold validateSecret at hv
    by_cases hl : s.len > MAX_PASSWORD_SIZE
    · simp [hl] at hv; right; right; left; simp only; rw [← hv]
    · simp [hl] at hv
  | ok u =>
    simp only
    cases hp : mssql2000Hasher.parse hs with
    | error e => simp only; right; left; rw [toRes_error _ e hp]
    | ok p =>
      simp only
      cases hc : p.checksum with
      | none => right; left; rfl
      | some chk =>
        simp only
        cases hb : s.toBytes with
        | error e =>
          simp only; right; left
          unfold Secret.toBytes at hb
          cases s with
          | bytes bs => simp at hb
          | text cps => simp only at hb; split at hb <;> simp at hb; rw [← hb]
        | ok b =>
          simp only
          cases hd : decodeUtf8 b with
          | error e => simp only; right; left; rw [decodeUtf8_err b e hd]
          | ok t => left; exact ⟨_, rfl⟩

theorem mssql2000Verify_same_parse (s : Secret) (h1 h2 : Str) (hp : mssql2000Hasher.parse h1 = mssql2000Hasher.parse h2) :
    mssql2000Verify s h1 = mssql2000Verify s h2 := by
  unfold mssql2000Verify; rw [hp]

theorem mssql2000Verify_config_string_value_error (s : Secret) (hs : Str) (p : Parsed) (hl : s.len ≤ MAX_PASSWORD_SIZE)
    (hp : mssql2000Hasher.parse hs = .ok p) (hc : p.checksum = none) : mssql2000Verify s hs = .error .valueError := by
  have hv : validateSecret s = .ok () := by unfold validateSecret; simp; omega
  unfold mssql2000Verify; simp [hv, hp, hc]

/-- altered SECOND half: rejected; (an altered first half is accepted — `mssql2000Verify_first_half_ignored`) -/
theorem mssql2000Verify_altered_iff (s : Secret) (hs hs' : Str) (p : Parsed) (c c' : Str)
    (hp : mssql2000Hasher.parse hs = .ok { p with checksum := some c }) (hp' : mssql2000Hasher.parse hs' = .ok { p with checksum := some c' })
    (hv : mssql2000Verify s hs = .ok true) : mssql2000Verify s hs' = .ok (c'.drop 20 == c.drop 20) := by
  unfold mssql2000Verify at hv ⊢
  cases hvs : validateSecret s with
  | error e => simp [hvs] at hv
  | ok u =>
    simp only [hvs, hp, hp'] at hv ⊢
    cases hb : s.toBytes with
    | error e => simp [hb] at hv
    | ok b =>
      simp only [hb] at hv ⊢
      cases hd : decodeUtf8 b with
      | error e => simp [hd] at hv
      | ok t =>
        simp only [hd, Except.ok.injEq, beq_iff_eq] at hv ⊢
        rw [← hv, Bool.eq_iff_iff]; simp only [beq_iff_eq]
        exact ⟨fun e => e.symm, fun e => e.symm⟩

end Lemmas.C08FamiliesStatic
