import PasslibVerif.Lemmas.FormatsPbkdf
import PasslibVerif.Gen.Handlers
/- whatever the parsers of the PBKDF family let through is well-formed (so it re-renders and parses back), the decoders
   only return byte strings, and the alphabets of the model are the reflected ones -/
namespace Lemmas.FormatsPbkdf
open Py Model.Handler Model.Formats Lemmas.Handler Lemmas.Formats

/-! ### fields produced by `split` do not contain the separator -/
theorem splitChar_no_sep_in_parts (sep : Nat) : ∀ (b : Str), ∀ f ∈ splitChar sep b, sep ∉ f
  | [], f, hf => by
    simp only [splitChar, List.mem_cons, List.not_mem_nil, or_false] at hf
    subst hf; simp
  | c :: rest, f, hf => by
    have ih := splitChar_no_sep_in_parts sep rest
    unfold splitChar at hf
    cases hs : splitChar sep rest with
    | nil => exact absurd hs (splitChar_ne_nil sep rest)
    | cons g gs =>
      rw [hs] at hf ih
      have ihg : sep ∉ g := ih g (by simp)
      by_cases e : c = sep
      · simp only [e, if_true, List.mem_cons] at hf
        rcases hf with h | h | h
        · rw [h]; simp
        · rw [h]; exact ihg
        · exact ih f (by simp [h])
      · simp only [e, if_false, List.mem_cons] at hf
        rcases hf with h | h
        · rw [h]
          intro hm
          rcases List.mem_cons.1 hm with h1 | h1
          · exact e h1.symm
          · exact ihg h1
        · exact ih f (by simp [h])

theorem orNone_spec (c : Str) (c' : Str) (h : orNone c = some c') : c' = c ∧ c ≠ [] := by
  unfold orNone at h
  cases c with
  | nil => simp at h
  | cons x xs => simp at h; exact ⟨h.symm, by simp⟩

/-- `parse_mc3`: a checksum field, when present, is non-empty and separator free -/
theorem parseMc3G_chk (sep : Nat) (hex : Bool) (pfx h : Str) (dflt : Option Int) (r : Int) (salt : Str) (chk : Option Str)
    (hp : parseMc3G sep hex pfx h dflt = some (r, salt, chk)) : ∀ c, chk = some c → c ≠ [] ∧ sep ∉ c := by
  unfold parseMc3G at hp
  cases hs : stripPrefix pfx h with
  | none => simp [hs] at hp
  | some body =>
    simp only [hs, Option.bind_some] at hp
    have hparts := splitChar_no_sep_in_parts sep body
    split at hp
    · rename_i rounds salt' chk' heq
      cases hr : parseIntFieldG hex rounds dflt with
      | none => simp [hr] at hp
      | some r' =>
        simp only [hr, Option.map_some, Option.some.injEq, Prod.mk.injEq] at hp
        obtain ⟨_, _, h3⟩ := hp
        intro c hc
        rw [hc] at h3
        obtain ⟨e, hne⟩ := orNone_spec chk' c h3
        subst e
        exact ⟨hne, hparts c (by rw [heq]; simp)⟩
    · rename_i rounds salt' heq
      cases hr : parseIntFieldG hex rounds dflt with
      | none => simp [hr] at hp
      | some r' =>
        simp only [hr, Option.map_some, Option.some.injEq, Prod.mk.injEq] at hp
        obtain ⟨_, _, h3⟩ := hp
        intro c hc; rw [hc] at h3; cases h3
    · cases hp

/-! ### the normalisers only return what is within the limits -/
theorem normChecksum_specG (size : Option Nat) (chars : Option (List Nat)) (c c' : Str) (hcs : size ≠ some 0) (hcc : chars ≠ some [])
    (h : normChecksum size chars c = some c') : c' = c ∧ SizeOK size c ∧ CharsOK chars c := by
  unfold normChecksum charsOk at h
  cases size with
  | none =>
    cases chars with
    | none => simp at h; exact ⟨h.symm, trivial, trivial⟩
    | some a =>
      have ha : a ≠ [] := fun e => hcc (by rw [e])
      simp [ha] at h
      exact ⟨h.2.symm, trivial, h.1⟩
  | some n =>
    have hn : n ≠ 0 := fun e => hcs (by rw [e])
    cases chars with
    | none => simp [hn] at h; exact ⟨h.2.symm, h.1, trivial⟩
    | some a =>
      have ha : a ≠ [] := fun e => hcc (by rw [e])
      simp [hn, ha] at h
      exact ⟨h.2.symm, h.1.1, h.1.2⟩

theorem normSalt_specG (chars : List Nat) (mn : Nat) (mx : Option Nat) (s s' : Str) (hmx : mx ≠ some 0)
    (h : normSalt (some chars) mn mx false s = some s') :
    s' = s ∧ allIn chars s = true ∧ mn ≤ s.length ∧ (∀ m, mx = some m → s.length ≤ m) := by
  unfold normSalt at h
  cases hc : allIn chars s with
  | false => simp [hc] at h
  | true =>
    by_cases hm : s.length < mn
    · have h0 : mn ≠ 0 := by omega
      simp [hc, hm, h0] at h
    · have hmn : mn ≤ s.length := by omega
      cases mx with
      | none =>
        simp [hc, hm] at h
        exact ⟨h.symm, rfl, hmn, fun m e => by cases e⟩
      | some m =>
        have hm0 : m ≠ 0 := fun e => hmx (by rw [e])
        by_cases hx : s.length > m
        · have hx' : m < s.length := hx
          simp [hc, hm, hm0, hx'] at h
        · have hx' : ¬ (m < s.length) := hx
          simp [hc, hm, hx'] at h
          exact ⟨h.symm, rfl, hmn, fun m' e => by cases e; omega⟩

theorem normSaltRaw_spec (mn mx : Nat) (s s' : Bytes) (hmx : mx ≠ 0) (h : normSalt none mn (some mx) false s = some s') :
    s' = s ∧ mn ≤ s.length ∧ s.length ≤ mx := by
  unfold normSalt at h
  by_cases hm : s.length < mn
  · have h0 : mn ≠ 0 := by omega
    simp [hm, h0] at h
  · have hmn : mn ≤ s.length := by omega
    by_cases hx : s.length > mx
    · have hx' : mx < s.length := hx
      simp [hm, hmx, hx'] at h
    · have hx' : ¬ (mx < s.length) := hx
      simp [hm, hx'] at h
      exact ⟨h.symm, hmn, by omega⟩

theorem normRounds_spec (r r' : Int) (h : normRounds 1 (some MAX_ROUNDS) false r = some r') :
    r' = r ∧ ∃ n : Nat, r = (n : Int) ∧ 1 ≤ n ∧ n ≤ 4294967295 := by
  unfold normRounds MAX_ROUNDS at h
  by_cases h1 : r < 1
  · simp [h1] at h
  · by_cases h2 : r > 4294967295
    · simp [h1, h2] at h
    · simp only [h1, if_false, h2, Bool.false_eq_true, Option.some.injEq] at h
      have hh : r' = r := by
        simp at h; exact h.symm
      refine ⟨hh, r.toNat, ?_, ?_, ?_⟩ <;> omega

theorem normChkOpt_spec (size : Option Nat) (chars : Option (List Nat)) (chk chk' : Option Str) (hcs : size ≠ some 0)
    (hcc : chars ≠ some []) (h : normChkOpt size chars chk = some chk') :
    chk' = chk ∧ ∀ c, chk = some c → SizeOK size c ∧ CharsOK chars c := by
  cases chk with
  | none => simp only [normChkOpt, Option.some.injEq] at h; exact ⟨h.symm, fun c e => by cases e⟩
  | some c =>
    simp only [normChkOpt] at h
    cases hc : normChecksum size chars c with
    | none => simp [hc] at h
    | some c' =>
      simp only [hc, Option.map_some, Option.some.injEq] at h
      obtain ⟨e, h1, h2⟩ := normChecksum_specG size chars c c' hcs hcc hc
      subst e
      exact ⟨h.symm, fun c'' e => by cases e; exact ⟨h1, h2⟩⟩

/-! ### WF-of-parse for the text handlers on parse_mc3 -/
theorem mc3Text_parse_wf (hex : Bool) (ident : Str) (dflt : Option Int) (cs : Option Nat) (cc : Option (List Nat))
    (sc : List Nat) (mn : Nat) (mx : Option Nat) (hcs : cs ≠ some 0) (hcc : cc ≠ some []) (hmx : mx ≠ some 0)
    (s : Str) (p : Parsed) (h : mc3TextParse hex ident dflt cs cc sc mn mx s = some p) : Mc3TextWF ident cs cc sc mn mx p := by
  unfold mc3TextParse at h
  cases hm : parseMc3G DOLLAR hex ident s dflt with
  | none => simp [hm] at h
  | some t =>
    obtain ⟨rounds, salt, chk⟩ := t
    simp only [hm, Option.bind_some] at h
    have hchkf := parseMc3G_chk DOLLAR hex ident s dflt rounds salt chk hm
    cases hk : normChkOpt cs cc chk with
    | none => simp [hk] at h
    | some chk' =>
      simp only [hk, Option.bind_some] at h
      obtain ⟨e1, hchk⟩ := normChkOpt_spec cs cc chk chk' hcs hcc hk
      subst e1
      cases hn : normSalt (some sc) mn mx false salt with
      | none => simp [hn] at h
      | some s' =>
        simp only [hn, Option.bind_some] at h
        obtain ⟨e2, hsa, hmn, hmxs⟩ := normSalt_specG sc mn mx salt s' hmx hn
        subst e2
        cases hr : normRounds 1 (some MAX_ROUNDS) false rounds with
        | none => simp [hr] at h
        | some r' =>
          simp only [hr, Option.map_some, Option.some.injEq] at h
          obtain ⟨e3, n, en, h1, h2⟩ := normRounds_spec rounds r' hr
          subst e3 h
          refine ⟨rfl, ⟨n, by simp [en], h1, h2⟩, ⟨_, rfl, hsa, hmn, hmxs⟩, ?_, rfl⟩
          cases chk' with
          | none => exact Or.inl rfl
          | some c =>
            obtain ⟨hne, hd⟩ := hchkf c rfl
            obtain ⟨hsz, hch⟩ := hchk c rfl
            exact Or.inr ⟨c, rfl, hne, hd, hsz, hch⟩

/-! ### the decoders return byte strings -/
theorem decode64_lt (c v : Nat) (h : Model.B64.decode64 Spec.Rfc4648.stdAlphabet c = some v) : v < 64 := by
  unfold Model.B64.decode64 at h
  simp only at h
  split at h
  · rename_i hlt
    simp only [Option.some.injEq] at h
    subst h
    have : Spec.Rfc4648.stdAlphabet.length = 64 := by decide
    omega
  · cases h

theorem a2bGo_wf : ∀ (s : List Nat) (q left pads : Nat) (out : Bytes), a2bGo s q left pads = some out →
    (q = 1 → left < 64) → (q = 2 → left < 16) → (q = 3 → left < 4) → q ≤ 3 → Bytes.WF out
  | [], q, left, pads, out, h, _, _, _, _ => by
    simp only [a2bGo] at h
    split at h
    · simp only [Option.some.injEq] at h; subst h; intro b hb; simp at hb
    · cases h
  | c :: rest, q, left, pads, out, h, h1, h2, h3, hq => by
    unfold a2bGo at h
    split at h
    · split at h
      · simp only [Option.some.injEq] at h; subst h; intro b hb; simp at hb
      · exact a2bGo_wf rest q left _ out h h1 h2 h3 hq
    · cases hd : Model.B64.decode64 Spec.Rfc4648.stdAlphabet c with
      | none =>
        simp only [hd] at h
        exact a2bGo_wf rest q left pads out h h1 h2 h3 hq
      | some v =>
        have hv := decode64_lt c v hd
        simp only [hd] at h
        split at h
        · exact a2bGo_wf rest 1 v 0 out h (fun _ => hv) (by omega) (by omega) (by omega)
        · cases hr : a2bGo rest 2 (v % 16) 0 with
          | none => simp [hr] at h
          | some o =>
            simp only [hr, Option.map_some, Option.some.injEq] at h
            subst h
            have ih := a2bGo_wf rest 2 (v % 16) 0 o hr (by omega) (fun _ => by omega) (by omega) (by omega)
            have hl := h1 rfl
            intro b hb
            rcases List.mem_cons.1 hb with e | e
            · subst e; omega
            · exact ih b e
        · cases hr : a2bGo rest 3 (v % 4) 0 with
          | none => simp [hr] at h
          | some o =>
            simp only [hr, Option.map_some, Option.some.injEq] at h
            subst h
            have ih := a2bGo_wf rest 3 (v % 4) 0 o hr (by omega) (by omega) (fun _ => by omega) (by omega)
            have hl := h2 rfl
            intro b hb
            rcases List.mem_cons.1 hb with e | e
            · subst e; omega
            · exact ih b e
        · rename_i hq0 hq1 hq2
          cases hr : a2bGo rest 0 0 0 with
          | none => simp [hr] at h
          | some o =>
            simp only [hr, Option.map_some, Option.some.injEq] at h
            subst h
            have ih := a2bGo_wf rest 0 0 0 o hr (by omega) (by omega) (by omega) (by omega)
            have hq3 : q = 3 := by
              have a : q ≠ 0 := fun e => hq0 (by rw [e])
              have b : q ≠ 1 := fun e => hq1 (by rw [e])
              have c : q ≠ 2 := fun e => hq2 (by rw [e])
              omega
            have hl := h3 hq3
            intro b hb
            rcases List.mem_cons.1 hb with e | e
            · subst e; omega
            · exact ih b e

theorem a2bBase64_wf (s out : Bytes) (h : a2bBase64 s = some out) : Bytes.WF out :=
  a2bGo_wf s 0 0 0 out h (by omega) (by omega) (by omega) (by omega)

theorem ab64Field_wf (s : Str) (out : Bytes) (h : ab64Field s = .ok out) : Bytes.WF out := by
  unfold ab64Field b64sDecodeL at h
  split at h
  · simp only at h
    split at h
    · cases h
    · split at h
      · rename_i b hb
        simp only [Except.ok.injEq] at h
        subst h
        exact a2bBase64_wf _ _ hb
      · cases h
  · cases h

theorem b64AltField_wf (s : Str) (out : Bytes) (h : toRes (b64AltField s) = .ok out) : Bytes.WF out := by
  unfold b64AltField at h
  split at h
  · cases hb : a2bBase64 (s.map altToStd) with
    | none => rw [hb] at h; cases h
    | some b =>
      rw [hb] at h
      simp only [toRes, Except.ok.injEq] at h
      subst h
      exact a2bBase64_wf _ _ hb
  · cases h

theorem hexNibble_lt (c v : Nat) (h : hexNibble c = some v) : v < 16 := by
  unfold hexNibble at h
  split at h
  · simp only [Option.some.injEq] at h; omega
  · split at h
    · simp only [Option.some.injEq] at h; omega
    · split at h
      · simp only [Option.some.injEq] at h; omega
      · cases h

theorem unhexlify_wf : ∀ (s : List Nat) (out : Bytes), pbUnhexlify s = some out → Bytes.WF out
  | [], out, h => by
    simp only [pbUnhexlify, Option.some.injEq] at h; subst h; intro b hb; simp at hb
  | [_], out, h => by simp [pbUnhexlify] at h
  | a :: b :: rest, out, h => by
    unfold pbUnhexlify at h
    cases ha : hexNibble a with
    | none => simp [ha] at h
    | some x =>
      cases hb : hexNibble b with
      | none => simp [ha, hb] at h
      | some y =>
        cases hr : pbUnhexlify rest with
        | none => simp [ha, hb, hr] at h
        | some r =>
          simp only [ha, hb, hr, Option.some.injEq] at h
          subst h
          have hx := hexNibble_lt a x ha
          have hy := hexNibble_lt b y hb
          have ih := unhexlify_wf rest r hr
          intro z hz
          rcases List.mem_cons.1 hz with e | e
          · subst e; omega
          · exact ih z e

theorem unhexField_wf (s : Str) (out : Bytes) (h : toRes (unhexField s) = .ok out) : Bytes.WF out := by
  unfold unhexField at h
  split at h
  · cases hb : pbUnhexlify s with
    | none => rw [hb] at h; cases h
    | some b =>
      rw [hb] at h
      simp only [toRes, Except.ok.injEq] at h
      subst h
      exact unhexlify_wf _ _ hb
  · cases h

/-! ### WF-of-parse for the raw handlers: a parsed object either has no checksum (config string) or is well-formed -/
theorem rawInit_spec (ident : Str) (chkSize : Nat) (hcs : chkSize ≠ 0) (rounds : Int) (salt : Bytes) (chk : Option Bytes) (p : Parsed)
    (h : rawInit ident chkSize 1024 rounds salt chk = some p) :
    p.ident = ident ∧ (∃ n : Nat, p.rounds = some (n : Int) ∧ 1 ≤ n ∧ n ≤ 4294967295) ∧ p.salt = some salt ∧ salt.length ≤ 1024 ∧
    p.checksum = chk ∧ (∀ c, chk = some c → c.length = chkSize) ∧ p.extra = [] := by
  unfold rawInit at h
  cases hk : normChkOpt (some chkSize) none chk with
  | none => simp [hk] at h
  | some chk' =>
    simp only [hk, Option.bind_some] at h
    obtain ⟨e1, hchk⟩ := normChkOpt_spec (some chkSize) none chk chk' (by simpa using hcs) (by simp) hk
    subst e1
    cases hn : normSalt none 0 (some 1024) false salt with
    | none => simp [hn] at h
    | some s' =>
      simp only [hn, Option.bind_some] at h
      obtain ⟨e2, _, hsl⟩ := normSaltRaw_spec 0 1024 salt s' (by decide) hn
      subst e2
      cases hr : normRounds 1 (some MAX_ROUNDS) false rounds with
      | none => simp [hr] at h
      | some r' =>
        simp only [hr, Option.map_some, Option.some.injEq] at h
        obtain ⟨e3, n, en, h1, h2⟩ := normRounds_spec rounds r' hr
        subst e3 h
        exact ⟨rfl, ⟨n, by simp [en], h1, h2⟩, rfl, hsl, rfl, fun c e => (hchk c e).1, rfl⟩

theorem rawMc3_parse_wf (sep : Nat) (hex : Bool) (ident : Str) (chkSize : Nat) (hcs : chkSize ≠ 0) (dec : Str → Res Bytes)
    (hdec : ∀ s out, dec s = .ok out → Bytes.WF out) (s : Str) (p : Parsed)
    (h : rawMc3ParseX sep hex ident chkSize dec s = .ok p) : p.checksum = none ∨ RawMc3WF ident chkSize p := by
  unfold rawMc3ParseX at h
  cases hm : parseMc3G sep hex ident s none with
  | none => simp [hm, toRes, Except.bind] at h
  | some t =>
    obtain ⟨rounds, salt, chk⟩ := t
    simp only [hm, toRes, Except.bind] at h
    cases hs : dec salt with
    | error e => simp [hs] at h
    | ok saltB =>
      simp only [hs] at h
      have hsw := hdec salt saltB hs
      cases hc : optField dec chk with
      | error e => simp [hc] at h
      | ok chkB =>
        simp only [hc] at h
        cases hi : rawInit ident chkSize 1024 rounds saltB chkB with
        | none => simp [hi] at h
        | some p' =>
          simp only [hi, Except.ok.injEq] at h
          subst h
          obtain ⟨hid, hr, hsalt, hsl, hchk, hcl, hex'⟩ := rawInit_spec ident chkSize hcs rounds saltB chkB p' hi
          cases chkB with
          | none => exact Or.inl hchk
          | some cb =>
            right
            have hcw : Bytes.WF cb := by
              cases chk with
              | none => simp [optField] at hc
              | some c =>
                simp only [optField, Except.map] at hc
                cases hd : dec c with
                | error e => simp [hd] at hc
                | ok o =>
                  simp only [hd, Except.ok.injEq, Option.some.injEq] at hc
                  subst hc
                  exact hdec c o hd
            exact ⟨hid, hr, ⟨_, hsalt, hsw, hsl⟩, ⟨_, hchk, hcw, hcl cb rfl⟩, hex'⟩

/-! ### atlassian / django salted -/
theorem atlassian_parse_wf (s : Str) (p : Parsed) (h : atlassianParse s = some p) : AtlassianWF p := by
  unfold atlassianParse at h
  cases hs : stripPrefix ATLASSIAN_IDENT s with
  | none => simp [hs] at h
  | some body =>
    simp only [hs, Option.bind_some] at h
    cases hb : b64StdField body with
    | none => simp [hb] at h
    | some data =>
      simp only [hb, Option.bind_some] at h
      have hdw : Bytes.WF data := by
        unfold b64StdField at hb
        split at hb
        · exact a2bBase64_wf _ _ hb
        · cases hb
      cases hk : normChkOpt (some 32) none (some (data.drop 16)) with
      | none => simp [hk] at h
      | some chk' =>
        simp only [hk, Option.bind_some] at h
        obtain ⟨e1, hchk⟩ := normChkOpt_spec (some 32) none _ chk' (by decide) (by simp) hk
        subst e1
        cases hn : normSalt none 16 (some 16) false (data.take 16) with
        | none => simp [hn] at h
        | some s' =>
          simp only [hn, Option.map_some, Option.some.injEq] at h
          obtain ⟨e2, h16, h16'⟩ := normSaltRaw_spec 16 16 _ s' (by decide) hn
          subst e2 h
          refine ⟨rfl, rfl, ⟨_, rfl, fun b hb => hdw b (List.mem_of_mem_take hb), by omega⟩,
            ⟨_, rfl, fun b hb => hdw b (List.mem_of_mem_drop hb), (hchk _ rfl).1⟩, rfl⟩

theorem lowerhex_ne_nil : LOWER_HEX_CHARS ≠ [] := by decide

theorem djSalted_parse_wf (ident : Str) (chkSize : Nat) (hcs : chkSize ≠ 0) (s : Str) (p : Parsed)
    (h : djSaltedParse ident chkSize s = some p) : DjSaltedWF ident chkSize p := by
  unfold djSaltedParse at h
  cases hm : parseMc2 ident s with
  | none => simp [hm] at h
  | some sc =>
    obtain ⟨salt, chk⟩ := sc
    simp only [hm, Option.bind_some] at h
    cases hk : normChkOpt (some chkSize) (some LOWER_HEX_CHARS) chk with
    | none => simp [hk] at h
    | some chk' =>
      simp only [hk, Option.bind_some] at h
      obtain ⟨e1, hchk⟩ := normChkOpt_spec (some chkSize) (some LOWER_HEX_CHARS) chk chk' (by simpa using hcs)
        (by simp [lowerhex_ne_nil]) hk
      subst e1
      cases hn : normSalt (some DJANGO_SALT_CHARS) 0 none false salt with
      | none => simp [hn] at h
      | some s' =>
        simp only [hn, Option.map_some, Option.some.injEq] at h
        obtain ⟨e2, hsa, _, _⟩ := normSalt_specG DJANGO_SALT_CHARS 0 none salt s' (by simp) hn
        subst e2 h
        refine ⟨rfl, rfl, ⟨_, rfl, hsa⟩, ?_, rfl⟩
        cases chk' with
        | none => exact Or.inl rfl
        | some c =>
          obtain ⟨hsz, hch⟩ := hchk c rfl
          exact Or.inr ⟨c, rfl, hch, hsz⟩

/-- what ldap_pbkdf2_* renders is identified by the wrapper -/
theorem ldap_pbkdf2_identify_render (pfx ident : Str) (hne : ident ≠ []) (chkSize : Nat) (hcs : chkSize ≠ 0) (p : Parsed)
    (h : RawMc3WF ident chkSize p) :
    ∃ s, wrapRenderX pfx ident pbkdf2RenderX p = .ok s ∧ wrapIdentify pfx ident (identByPrefix ident) s = true := by
  obtain ⟨rest, hr, _⟩ := rawMc3_render_parse DOLLAR false ident chkSize _ _ (by decide) hcs ab64_codec p h
  refine ⟨pfx ++ rest, ?_, wrap_identify pfx ident _ rest (identByPrefix_append ident rest hne)⟩
  unfold pbkdf2RenderX
  simp only [wrapRenderX, hr, Except.bind, stripPrefix_append]

/-! ### R1 on the registered `Format` values (what the driver runs), one per hasher -/
theorem r1_sha1_crypt (p : Parsed) (h : Mc3TextWF SHA1C_IDENT (some 28) (some h64) h64 0 (some 64) p) : sha1_cryptX.toFormat.parse (sha1_cryptX.toFormat.render p) = some p :=
  toFormat_parse_render sha1_cryptX p (by
    show (Except.ok (sha1cRender p)).bind (fun s => toRes (sha1cParse s)) = .ok p
    have e : sha1cParse (sha1cRender p) = some p := mc3Text_parse_render false _ none _ _ _ _ _ dollar_not_h64 p h
    simp only [Except.bind, e, toRes])
theorem r1_pbkdf2_sha1 (p : Parsed) (h : RawMc3WF PBKDF2_SHA1_IDENT 20 p) :
    pbkdf2_sha1X.toFormat.parse (pbkdf2_sha1X.toFormat.render p) = some p :=
  toFormat_parse_render pbkdf2_sha1X p (rawMc3_parse_render DOLLAR false _ 20 _ _ (by decide) (by decide) ab64_codec p h)
theorem r1_pbkdf2_sha256 (p : Parsed) (h : RawMc3WF PBKDF2_SHA256_IDENT 32 p) :
    pbkdf2_sha256X.toFormat.parse (pbkdf2_sha256X.toFormat.render p) = some p :=
  toFormat_parse_render pbkdf2_sha256X p (rawMc3_parse_render DOLLAR false _ 32 _ _ (by decide) (by decide) ab64_codec p h)
theorem r1_pbkdf2_sha512 (p : Parsed) (h : RawMc3WF PBKDF2_SHA512_IDENT 64 p) :
    pbkdf2_sha512X.toFormat.parse (pbkdf2_sha512X.toFormat.render p) = some p :=
  toFormat_parse_render pbkdf2_sha512X p (rawMc3_parse_render DOLLAR false _ 64 _ _ (by decide) (by decide) ab64_codec p h)
theorem r1_ldap_pbkdf2_sha1 (p : Parsed) (h : RawMc3WF PBKDF2_SHA1_IDENT 20 p) :
    ldap_pbkdf2_sha1X.toFormat.parse (ldap_pbkdf2_sha1X.toFormat.render p) = some p :=
  toFormat_parse_render ldap_pbkdf2_sha1X p (ldap_pbkdf2_parse_render _ _ 20 (by decide) p h)
theorem r1_ldap_pbkdf2_sha256 (p : Parsed) (h : RawMc3WF PBKDF2_SHA256_IDENT 32 p) :
    ldap_pbkdf2_sha256X.toFormat.parse (ldap_pbkdf2_sha256X.toFormat.render p) = some p :=
  toFormat_parse_render ldap_pbkdf2_sha256X p (ldap_pbkdf2_parse_render _ _ 32 (by decide) p h)
theorem r1_ldap_pbkdf2_sha512 (p : Parsed) (h : RawMc3WF PBKDF2_SHA512_IDENT 64 p) :
    ldap_pbkdf2_sha512X.toFormat.parse (ldap_pbkdf2_sha512X.toFormat.render p) = some p :=
  toFormat_parse_render ldap_pbkdf2_sha512X p (ldap_pbkdf2_parse_render _ _ 64 (by decide) p h)
theorem r1_cta_pbkdf2_sha1 (p : Parsed) (h : RawMc3WF P5K2_IDENT 20 p) :
    cta_pbkdf2_sha1X.toFormat.parse (cta_pbkdf2_sha1X.toFormat.render p) = some p :=
  toFormat_parse_render cta_pbkdf2_sha1X p (rawMc3_parse_render DOLLAR true P5K2_IDENT 20 _ _ (by decide) (by decide) b64Alt_codec p h)
theorem r1_dlitz_pbkdf2_sha1 (p : Parsed) (h : Mc3TextWF P5K2_IDENT none none h64 0 (some 1024) p) :
    dlitz_pbkdf2_sha1X.toFormat.parse (dlitz_pbkdf2_sha1X.toFormat.render p) = some p :=
  toFormat_parse_render dlitz_pbkdf2_sha1X p (by
    show (Except.ok (dlitzRender p)).bind (fun s => toRes (dlitzParse s)) = .ok p
    simp only [Except.bind, dlitz_parse_render p h, toRes])
theorem r1_atlassian_pbkdf2_sha1 (p : Parsed) (h : AtlassianWF p) :
    atlassian_pbkdf2_sha1X.toFormat.parse (atlassian_pbkdf2_sha1X.toFormat.render p) = some p :=
  toFormat_parse_render atlassian_pbkdf2_sha1X p (atlassian_parse_render p h)
theorem r1_grub_pbkdf2_sha512 (p : Parsed) (h : RawMc3WF GRUB_IDENT 64 p) :
    grub_pbkdf2_sha512X.toFormat.parse (grub_pbkdf2_sha512X.toFormat.render p) = some p :=
  toFormat_parse_render grub_pbkdf2_sha512X p (rawMc3_parse_render DOT false GRUB_IDENT 64 _ _ (by decide) (by decide) hex_codec p h)
theorem r1_django_pbkdf2_sha1 (p : Parsed) (h : Mc3TextWF DJANGO_PBKDF2_SHA1_IDENT (some 28) (some PADDED_BASE64_CHARS) DJANGO_SALT_CHARS 1 none p) :
    django_pbkdf2_sha1X.toFormat.parse (django_pbkdf2_sha1X.toFormat.render p) = some p :=
  toFormat_parse_render django_pbkdf2_sha1X p (by
    show (Except.ok (djPbkdf2Render p)).bind (fun s => toRes (djPbkdf2Parse DJANGO_PBKDF2_SHA1_IDENT 28 s)) = .ok p
    have e : djPbkdf2Parse DJANGO_PBKDF2_SHA1_IDENT 28 (djPbkdf2Render p) = some p :=
      mc3Text_parse_render false _ none _ _ _ _ _ dollar_not_djsalt p h
    simp only [Except.bind, e, toRes])
theorem r1_django_pbkdf2_sha256 (p : Parsed) (h : Mc3TextWF DJANGO_PBKDF2_SHA256_IDENT (some 44) (some PADDED_BASE64_CHARS) DJANGO_SALT_CHARS 1 none p) :
    django_pbkdf2_sha256X.toFormat.parse (django_pbkdf2_sha256X.toFormat.render p) = some p :=
  toFormat_parse_render django_pbkdf2_sha256X p (by
    show (Except.ok (djPbkdf2Render p)).bind (fun s => toRes (djPbkdf2Parse DJANGO_PBKDF2_SHA256_IDENT 44 s)) = .ok p
    have e : djPbkdf2Parse DJANGO_PBKDF2_SHA256_IDENT 44 (djPbkdf2Render p) = some p :=
      mc3Text_parse_render false _ none _ _ _ _ _ dollar_not_djsalt p h
    simp only [Except.bind, e, toRes])
theorem r1_django_salted_md5 (p : Parsed) (h : DjSaltedWF DJANGO_MD5_IDENT 32 p) :
    django_salted_md5X.toFormat.parse (django_salted_md5X.toFormat.render p) = some p :=
  toFormat_parse_render django_salted_md5X p (by
    show (Except.ok (djSaltedRender p)).bind (fun s => toRes (djSaltedParse DJANGO_MD5_IDENT 32 s)) = .ok p
    simp only [Except.bind, djSalted_parse_render _ 32 (by decide) p h, toRes])
theorem r1_django_salted_sha1 (p : Parsed) (h : DjSaltedWF DJANGO_SHA1_IDENT 40 p) :
    django_salted_sha1X.toFormat.parse (django_salted_sha1X.toFormat.render p) = some p :=
  toFormat_parse_render django_salted_sha1X p (by
    show (Except.ok (djSaltedRender p)).bind (fun s => toRes (djSaltedParse DJANGO_SHA1_IDENT 40 s)) = .ok p
    simp only [Except.bind, djSalted_parse_render _ 40 (by decide) p h, toRes])


/-! ### the alphabets and limits written out in the model are the ones reflected from the handler classes -/
def metaOf (name : String) : Option Model.HandlerMeta := Gen.Handlers.all.find? (·.name = name)

def charsetOf (n : Option String) : Option (List Nat) := n.bind fun k => Gen.Handlers.charsets.lookup k

/-- the class attributes the format models depend on -/
structure Limits where
  checksumSize : Option Nat
  checksumChars : Option (List Nat)      -- ignored by the raw-checksum handlers
  saltChars : Option (List Nat)          -- all byte values for the raw-salt handlers
  minSalt : Option Nat
  maxSalt : Option Nat
  minRounds : Option Nat
  maxRounds : Option Nat
  ident : Option Str
  deriving DecidableEq

def limitsOf (name : String) : Option Limits :=
  (metaOf name).map fun m =>
    ⟨m.checksumSize, charsetOf m.checksumChars, charsetOf m.saltChars, m.minSalt, m.maxSalt, m.minRounds, m.maxRounds,
     m.ident.map ofString⟩

/-- the raw handlers: `checksum_chars` is unused and `salt_chars` is every byte value -/
def rawLimitsOf (name : String) : Option Limits :=
  (limitsOf name).map fun l => { l with checksumChars := none, saltChars := none }

def AlphabetsReflected : Prop :=
  limitsOf "sha1_crypt" = some ⟨some 28, some h64, some h64, some 0, some 64, some 1, some 4294967295, some SHA1C_IDENT⟩ ∧
  limitsOf "dlitz_pbkdf2_sha1" = some ⟨none, none, some h64, some 0, some 1024, some 1, some 4294967295, some P5K2_IDENT⟩ ∧
  limitsOf "django_pbkdf2_sha1" = some ⟨some 28, some PADDED_BASE64_CHARS, some DJANGO_SALT_CHARS, some 1, none, some 1,
    some 4294967295, some DJANGO_PBKDF2_SHA1_IDENT⟩ ∧
  limitsOf "django_pbkdf2_sha256" = some ⟨some 44, some PADDED_BASE64_CHARS, some DJANGO_SALT_CHARS, some 1, none, some 1,
    some 4294967295, some DJANGO_PBKDF2_SHA256_IDENT⟩ ∧
  limitsOf "django_salted_md5" = some ⟨some 32, some LOWER_HEX_CHARS, some DJANGO_SALT_CHARS, some 0, none, none, none,
    some DJANGO_MD5_IDENT⟩ ∧
  limitsOf "django_salted_sha1" = some ⟨some 40, some LOWER_HEX_CHARS, some DJANGO_SALT_CHARS, some 0, none, none, none,
    some DJANGO_SHA1_IDENT⟩ ∧
  rawLimitsOf "pbkdf2_sha1" = some ⟨some 20, none, none, some 0, some 1024, some 1, some 4294967295, some PBKDF2_SHA1_IDENT⟩ ∧
  rawLimitsOf "pbkdf2_sha256" = some ⟨some 32, none, none, some 0, some 1024, some 1, some 4294967295, some PBKDF2_SHA256_IDENT⟩ ∧
  rawLimitsOf "pbkdf2_sha512" = some ⟨some 64, none, none, some 0, some 1024, some 1, some 4294967295, some PBKDF2_SHA512_IDENT⟩ ∧
  rawLimitsOf "cta_pbkdf2_sha1" = some ⟨some 20, none, none, some 0, some 1024, some 1, some 4294967295, some P5K2_IDENT⟩ ∧
  rawLimitsOf "grub_pbkdf2_sha512" = some ⟨some 64, none, none, some 0, some 1024, some 1, some 4294967295, some GRUB_IDENT⟩ ∧
  rawLimitsOf "atlassian_pbkdf2_sha1" = some ⟨some 32, none, none, some 16, some 16, none, none, some ATLASSIAN_IDENT⟩ ∧
  (metaOf "ldap_pbkdf2_sha1").map (fun m => (m.wrappedName, m.wrapPrefix.map ofString, m.origPrefix.map ofString)) =
    some (some "pbkdf2_sha1", some LDAP_PBKDF2_SHA1_PREFIX, some PBKDF2_SHA1_IDENT) ∧
  (metaOf "ldap_pbkdf2_sha256").map (fun m => (m.wrappedName, m.wrapPrefix.map ofString, m.origPrefix.map ofString)) =
    some (some "pbkdf2_sha256", some LDAP_PBKDF2_SHA256_PREFIX, some PBKDF2_SHA256_IDENT) ∧
  (metaOf "ldap_pbkdf2_sha512").map (fun m => (m.wrappedName, m.wrapPrefix.map ofString, m.origPrefix.map ofString)) =
    some (some "pbkdf2_sha512", some LDAP_PBKDF2_SHA512_PREFIX, some PBKDF2_SHA512_IDENT)

set_option synthInstance.maxSize 2048 in
instance : Decidable AlphabetsReflected := by unfold AlphabetsReflected; infer_instance

theorem alphabets_reflected : AlphabetsReflected := by decide +kernel

end Lemmas.FormatsPbkdf
