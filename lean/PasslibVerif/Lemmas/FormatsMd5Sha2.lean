import PasslibVerif.Model.Formats.Md5Sha2
import PasslibVerif.Lemmas.Handler
namespace Lemmas.Formats
open Py Model.Handler Model.Formats Lemmas.Handler

theorem dollar_not_h64 : DOLLAR ∉ h64 := by decide
theorem h64_ne_nil : h64 ≠ [] := by decide

/-- well-formed md5_crypt / apr_md5_crypt settings: ≤ 8 salt characters, 22-character checksum (or a config string) -/
structure Md5WF (ident : Str) (p : Parsed) : Prop where
  ident : p.ident = ident
  rounds : p.rounds = none
  extra : p.extra = []
  salt : ∃ s, p.salt = some s ∧ allIn h64 s = true ∧ s.length ≤ 8
  chk : p.checksum = none ∨ ∃ c, p.checksum = some c ∧ allIn h64 c = true ∧ c.length = 22

/-- R1: parse(render x) = x -/
theorem md5_parse_render (ident : Str) (p : Parsed) (h : Md5WF ident p) :
    md5Parse ident (md5Render p) = some p := by
  obtain ⟨hi, hr, he, ⟨s, hs, hs64, hsl⟩, hc⟩ := h
  obtain ⟨pi, pr, ps, pc, pe⟩ := p
  simp only at hi hr he hs hc
  subst hi hr he hs
  have hsd : DOLLAR ∉ s := not_mem_of_all h64 s DOLLAR dollar_not_h64 hs64
  have hsalt := normSalt_ok h64 0 8 false s hs64 (by omega) hsl
  rcases hc with hc | ⟨c, hc, hc64, hcl⟩
  · subst hc
    simp only [md5Render, renderMc2, Option.getD_some, md5Parse, parseMc2, stripPrefix_append, Option.bind_some,
      splitChar_no_sep DOLLAR s hsd, normChkOpt, hsalt, Option.map_some]
  · subst hc
    have hcne : c.isEmpty = false := by cases c <;> simp_all
    have hcd : DOLLAR ∉ c := not_mem_of_all h64 c DOLLAR dollar_not_h64 hc64
    have hchk := normChecksum_ok 22 h64 c hcl hc64
    simp only [md5Render, renderMc2, Option.getD_some, hcne, Bool.false_eq_true, if_false, md5Parse, parseMc2,
      List.append_assoc, stripPrefix_append, Option.bind_some, splitChar_append_sep DOLLAR s c hsd,
      splitChar_no_sep DOLLAR c hcd, orNone, normChkOpt, hchk, Option.map_some, hsalt]

/-- whatever parses is well-formed: the parser lets nothing through it could not re-render -/
theorem md5_parse_wf (ident : Str) (s : Str) (p : Parsed) (h : md5Parse ident s = some p) : Md5WF ident p := by
  unfold md5Parse at h
  cases hm : parseMc2 ident s with
  | none => simp [hm] at h
  | some sc =>
    obtain ⟨salt, chk⟩ := sc
    simp only [hm, Option.bind_some] at h
    cases hk : normChkOpt (some 22) (some h64) chk with
    | none => simp [hk] at h
    | some chk' =>
      simp only [hk, Option.bind_some] at h
      cases hn : normSalt (some h64) 0 (some 8) false salt with
      | none => simp [hn] at h
      | some s' =>
        simp only [hn, Option.map_some, Option.some.injEq] at h
        obtain ⟨e, h1, _, h2⟩ := normSalt_spec h64 0 8 salt s' (by decide) hn
        subst h e
        refine ⟨rfl, rfl, rfl, ⟨_, rfl, h1, h2⟩, ?_⟩
        cases chk with
        | none => simp [normChkOpt] at hk; subst hk; exact Or.inl rfl
        | some c =>
          simp only [normChkOpt] at hk
          cases hc : normChecksum (some 22) (some h64) c with
          | none => simp [hc] at hk
          | some c' =>
            simp only [hc, Option.map_some, Option.some.injEq] at hk
            obtain ⟨e2, h3, h4⟩ := normChecksum_spec 22 h64 c c' (by decide) h64_ne_nil hc
            subst hk e2
            exact Or.inr ⟨_, rfl, h4, h3⟩

/-- R2: the re-rendered form is a fixed point (rendering what was parsed parses to the same settings) -/
theorem md5_render_parse_stable (ident s : Str) (p : Parsed) (h : md5Parse ident s = some p) :
    md5Parse ident (md5Render p) = some p := md5_parse_render ident p (md5_parse_wf ident s p h)

/-- what the hasher renders it also identifies -/
theorem md5_identify_render (ident : Str) (hne : ident ≠ []) (p : Parsed) (h : p.ident = ident) :
    identByPrefix ident (md5Render p) = true := by
  unfold identByPrefix md5Render renderMc2
  rw [h]
  cases p.checksum with
  | none => cases ident <;> simp_all [prefix_append]
  | some c =>
    by_cases hc : c.isEmpty = true
    · cases ident <;> simp_all [prefix_append]
    · have hc' : c.isEmpty = false := by simpa using hc
      simp only [hc', Bool.false_eq_true, if_false, List.append_assoc, prefix_append, Bool.and_true]
      cases ident <;> simp_all

/-! ### sha256_crypt / sha512_crypt -/
structure Sha2WF (ident : Str) (chkSize : Nat) (p : Parsed) : Prop where
  ident : p.ident = ident
  rounds : ∃ n : Nat, p.rounds = some (n : Int) ∧ 1000 ≤ n ∧ n ≤ 999999999
  salt : ∃ s, p.salt = some s ∧ allIn h64 s = true ∧ s.length ≤ 16
  chk : ∃ c, p.checksum = some c ∧ allIn h64 c = true ∧ c.length = chkSize
  extra : p.extra = implicitFlag true ∧ p.rounds = some 5000 ∨ p.extra = implicitFlag false

theorem rounds_prefix_not_h64 (s : Str) (hs : allIn h64 s = true) : ROUNDS_PREFIX.isPrefixOf s = false := by
  -- '=' (61) is not a hash64 character, and "rounds=" contains one
  cases hp : ROUNDS_PREFIX.isPrefixOf s with
  | false => rfl
  | true =>
    exfalso
    obtain ⟨t, ht⟩ := List.isPrefixOf_iff_prefix.1 hp
    have hmem : (61 : Nat) ∈ s := by rw [← ht]; simp [ROUNDS_PREFIX, ofString]
    unfold allIn at hs
    rw [List.all_eq_true] at hs
    have := hs 61 hmem
    revert this; decide

theorem sha2_tail (chkSize : Nat) (ident s c : Str) (rounds : Int) (implicit : Bool)
    (hchk : normChecksum (some chkSize) (some h64) c = some c) (hcne : c.isEmpty = false)
    (hsalt : normSalt (some h64) 0 (some 16) false s = some s)
    (hrounds : normRounds 1000 (some 999999999) false rounds = some rounds) :
    ((match [s, c] with
        | [salt, chk] => some (salt, orNone chk)
        | [salt] => some (salt, none)
        | _ => none).bind fun (salt, chk) =>
      (normChkOpt (some chkSize) (some h64) chk).bind fun chk' =>
      (normSalt (some h64) 0 (some 16) chk'.isNone salt).bind fun s' =>
      (normRounds 1000 (some 999999999) chk'.isNone rounds).map fun r =>
        ({ ident := ident, rounds := some r, salt := some s', checksum := chk', extra := implicitFlag implicit } : Parsed)) =
    some { ident := ident, rounds := some rounds, salt := some s, checksum := some c, extra := implicitFlag implicit } := by
  simp only [Option.bind_some, orNone, hcne, Bool.false_eq_true, if_false, normChkOpt, hchk, Option.map_some,
    Option.isNone_some, hsalt, hrounds]

theorem sha2_parse_render (ident : Str) (chkSize : Nat) (hcs : chkSize ≠ 0) (p : Parsed)
    (h : Sha2WF ident chkSize p) : sha2Parse ident chkSize (sha2Render p) = some p := by
  obtain ⟨hi, ⟨n, hr, hlo, hhi⟩, ⟨s, hs, hs64, hsl⟩, ⟨c, hc, hc64, hcl⟩, he⟩ := h
  obtain ⟨pi, pr, ps, pc, pe⟩ := p
  simp only at hi hr hs hc he
  subst hi hr hs hc
  have hsd : DOLLAR ∉ s := not_mem_of_all h64 s DOLLAR dollar_not_h64 hs64
  have hcd : DOLLAR ∉ c := not_mem_of_all h64 c DOLLAR dollar_not_h64 hc64
  have hcne : c.isEmpty = false := by
    cases c with
    | nil => exact absurd hcl.symm hcs
    | cons _ _ => rfl
  have hchk := normChecksum_ok chkSize h64 c hcl hc64
  have hsalt := normSalt_ok h64 0 16 false s hs64 (by omega) hsl
  have hrounds : normRounds 1000 (some 999999999) false (n : Int) = some (n : Int) := by
    unfold normRounds
    have a : ¬ ((n : Int) < 1000) := by omega
    have b : ¬ ((n : Int) > 999999999) := by omega
    simp [a, b]
  have hsplit : splitChar DOLLAR (s ++ DOLLAR :: c) = [s, c] := by
    rw [splitChar_append_sep DOLLAR s c hsd, splitChar_no_sep DOLLAR c hcd]
  rcases he with ⟨he, h5⟩ | he
  · -- implicit 5000: "$5$salt$chk"
    subst he
    simp only [Option.some.injEq] at h5
    have hn : n = 5000 := by omega
    subst hn
    have hnp := rounds_prefix_not_h64 s hs64
    have hrender : sha2Render ⟨pi, some ((5000 : Nat) : Int), some s, some c, implicitFlag true⟩ = pi ++ (s ++ DOLLAR :: c) := by
      simp [sha2Render]
    have hr0 : sha2Rounds [s, c] = some (5000, true, [s, c]) := by
      simp only [sha2Rounds, hnp, Bool.false_eq_true, if_false]
    rw [hrender]
    unfold sha2Parse
    rw [stripPrefix_append]
    simp only [Option.bind_some]
    rw [hsplit, hr0]
    simp only [Option.bind_some]
    exact sha2_tail chkSize pi s c 5000 true hchk hcne hsalt hrounds
  · subst he
    have hrd : DOLLAR ∉ ROUNDS_PREFIX ++ fmtDec (n : Int) := by
      intro hm
      rcases List.mem_append.1 hm with h1 | h1
      · revert h1; decide
      · have := fmtDec_digits n DOLLAR h1; unfold DOLLAR at this; omega
    have hpre : ROUNDS_PREFIX.isPrefixOf (ROUNDS_PREFIX ++ fmtDec (n : Int)) = true := prefix_append _ _
    have hdrop : (ROUNDS_PREFIX ++ fmtDec (n : Int)).drop 7 = fmtDec (n : Int) := by
      have : ROUNDS_PREFIX.length = 7 := by decide
      rw [← this]; simp
    obtain ⟨hz, _⟩ := fmtDec_not_padded n
    have hrender : sha2Render ⟨pi, some (n : Int), some s, some c, implicitFlag false⟩ =
        pi ++ ((ROUNDS_PREFIX ++ fmtDec ↑n) ++ DOLLAR :: (s ++ DOLLAR :: c)) := by
      have hne : ¬ (some (n : Int) = some 5000 ∧ implicitFlag false = implicitFlag true) := by
        intro hh; have := hh.2; revert this; decide
      unfold sha2Render
      simp only [Option.getD_some]
      rw [if_neg hne]
      simp
    have hr0 : sha2Rounds ((ROUNDS_PREFIX ++ fmtDec (n : Int)) :: [s, c]) = some ((n : Int), false, [s, c]) := by
      simp only [sha2Rounds, hpre, if_true, hdrop, hz, Bool.false_eq_true, if_false, intField, int_of_fmtDec, Option.map_some]
    rw [hrender]
    unfold sha2Parse
    rw [stripPrefix_append]
    simp only [Option.bind_some]
    rw [splitChar_append_sep DOLLAR _ _ hrd, hsplit, hr0]
    simp only [Option.bind_some]
    exact sha2_tail chkSize pi s c (n : Int) false hchk hcne hsalt hrounds

end Lemmas.Formats
