import PasslibVerif.Model.Rng
import PasslibVerif.Lemmas.Digits
import PasslibVerif.Lemmas.Bits
namespace Lemmas.Rng
open Py Gen.Rng Model.Rng Digits

/-- the byte extractor is the base-256 digit expansion — this is where the generated shift and
    mask are used: it fails to prove for any other (shift, mask) pair -/
theorem getrandbytes_eq_toDigits (n v : Nat) : getrandbytes n v = toDigits 256 n v := by
  induction n generalizing v with
  | zero => rfl
  | succ n ih =>
    simp only [getrandbytes, toDigits, ih, grbYield, grbNext, Bits.and255, Nat.shiftRight_eq_div_pow]

theorem grbBits_range (n : Nat) : 2 ^ grbBits n = 256 ^ n := by
  unfold grbBits
  rw [Nat.shiftLeft_eq, Nat.mul_comm, Nat.pow_mul]

theorem grsIndices_eq_toDigits (N n v : Nat) : grsIndices N n v = toDigits N n v := by
  induction n generalizing v with
  | zero => rfl
  | succ n ih => simp only [grsIndices, toDigits, ih, grsIndex, grsNext]

theorem grsRange_eq (N n : Nat) : grsRange N n = N ^ n := rfl

end Lemmas.Rng
