import PasslibVerif.Model.Md4
/-
MD4 model, streaming part: `update`/`copy`/`digest` in any split = one-shot.
Pure list reasoning; `process` is never unfolded here.
-/
namespace Lemmas.Md4
open Model.Md4 Gen.Md4

/-- the first `n` 64-byte blocks of `l` -/
def blocksN : Nat → List Nat → List (List Nat)
  | 0, _ => []
  | n + 1, l => l.take 64 :: blocksN n (l.drop 64)

/-- all complete 64-byte blocks of `l` -/
def blocksOf (l : List Nat) : List (List Nat) := blocksN (l.length / 64) l

/-- what is left after the complete blocks -/
def rem (l : List Nat) : List Nat := l.drop (64 * (l.length / 64))

/-- registers after processing all complete blocks of `l` -/
def absorb (regs : List Nat) (l : List Nat) : List Nat := (blocksOf l).foldl process regs

/-- the state of an md4 object that has been fed `total` (in whatever pieces) -/
def stateOf (total : List Nat) : State :=
  { count := total.length / 64, regs := absorb initState total, buf := rem total }

theorem blocksOf_of_lt {l : List Nat} (h : l.length < 64) : blocksOf l = [] := by
  unfold blocksOf; rw [show l.length / 64 = 0 by omega]; rfl

theorem blocksOf_of_ge {l : List Nat} (h : 64 ≤ l.length) :
    blocksOf l = l.take 64 :: blocksOf (l.drop 64) := by
  unfold blocksOf
  rw [show l.length / 64 = (l.drop 64).length / 64 + 1 by simp only [List.length_drop]; omega]
  rfl

theorem rem_of_lt {l : List Nat} (h : l.length < 64) : rem l = l := by
  unfold rem; rw [show l.length / 64 = 0 by omega]; rfl

theorem rem_of_ge {l : List Nat} (h : 64 ≤ l.length) : rem l = rem (l.drop 64) := by
  unfold rem
  rw [List.drop_drop]; congr 1; simp only [List.length_drop]; omega

theorem rem_length (l : List Nat) : (rem l).length = l.length % 64 := by
  unfold rem; simp only [List.length_drop]; omega

theorem rem_length_lt (l : List Nat) : (rem l).length < 64 := by
  rw [rem_length]; omega

/-- complete blocks followed by the remainder give the list back -/
theorem blocks_flatten_rem (l : List Nat) : (blocksOf l).flatten ++ rem l = l := by
  induction h : l.length using Nat.strongRecOn generalizing l with
  | _ n ih =>
    by_cases hl : l.length < 64
    · rw [blocksOf_of_lt hl, rem_of_lt hl]; rfl
    · have hge : 64 ≤ l.length := by omega
      rw [blocksOf_of_ge hge, rem_of_ge hge, List.flatten_cons, List.append_assoc,
        ih (l.drop 64).length (by simp only [List.length_drop]; omega) _ rfl, List.take_append_drop]

theorem blocksOf_length (l : List Nat) : (blocksOf l).length = l.length / 64 := by
  unfold blocksOf
  generalize l.length / 64 = n
  induction n generalizing l with
  | zero => rfl
  | succ n ih => simp [blocksN, ih]

theorem mem_blocksN_length {n : Nat} {l : List Nat} (h : 64 * n ≤ l.length) :
    ∀ b ∈ blocksN n l, b.length = 64 := by
  induction n generalizing l with
  | zero => intro b hb; cases hb
  | succ n ih =>
    intro b hb
    simp only [blocksN, List.mem_cons] at hb
    rcases hb with rfl | hb
    · simp only [List.length_take]; omega
    · exact ih (by simp only [List.length_drop]; omega) b hb

/-- `_process` is only ever called on 64-byte blocks -/
theorem mem_blocksOf_length (l : List Nat) : ∀ b ∈ blocksOf l, b.length = 64 :=
  mem_blocksN_length (by omega)

/-- splitting the input anywhere: blocks, remainder and block count -/
theorem blocks_append (A B : List Nat) :
    blocksOf (A ++ B) = blocksOf A ++ blocksOf (rem A ++ B) ∧
    rem (A ++ B) = rem (rem A ++ B) ∧
    (A ++ B).length / 64 = A.length / 64 + (rem A ++ B).length / 64 := by
  induction h : A.length using Nat.strongRecOn generalizing A with
  | _ n ih =>
    by_cases hl : A.length < 64
    · rw [blocksOf_of_lt hl, rem_of_lt hl]
      refine ⟨rfl, rfl, ?_⟩
      omega
    · have hge : 64 ≤ A.length := by omega
      have hge' : 64 ≤ (A ++ B).length := by simp only [List.length_append]; omega
      have ht : (A ++ B).take 64 = A.take 64 := by
        rw [List.take_append_of_le_length hge]
      have hd : (A ++ B).drop 64 = A.drop 64 ++ B := by
        rw [List.drop_append_of_le_length hge]
      obtain ⟨i1, i2, i3⟩ := ih (A.drop 64).length (by simp only [List.length_drop]; omega) (A.drop 64) rfl
      rw [blocksOf_of_ge hge', blocksOf_of_ge hge, rem_of_ge hge', rem_of_ge hge, ht, hd, i1, i2]
      refine ⟨rfl, rfl, ?_⟩
      have : (A ++ B).length = ((A.drop 64) ++ B).length + 64 := by
        simp only [List.length_append, List.length_drop]; omega
      have h2 : A.length = (A.drop 64).length + 64 := by simp only [List.length_drop]; omega
      omega

/-- the `while` loop of `update`, in closed form -/
theorem updateLoop_eq (fuel idx count : Nat) (regs content : List Nat)
    (hf : (content.length - idx) / 64 < fuel) :
    updateLoop fuel idx count regs content =
      { count := count + (content.length - idx) / 64,
        regs := (blocksOf (content.drop idx)).foldl process regs,
        buf := rem (content.drop idx) } := by
  induction fuel generalizing idx count regs with
  | zero => omega
  | succ fuel ih =>
    by_cases hn : idx + 64 ≤ content.length
    · simp only [updateLoop, blockBytes, hn, ↓reduceIte]
      rw [ih _ _ _ (by omega)]
      have hge : 64 ≤ (content.drop idx).length := by simp only [List.length_drop]; omega
      rw [blocksOf_of_ge hge, rem_of_ge hge, List.drop_drop, List.foldl_cons,
        show idx + 64 - idx = 64 by omega]
      congr 1; omega
    · simp only [updateLoop, blockBytes, hn, ↓reduceIte]
      have hlt : (content.drop idx).length < 64 := by simp only [List.length_drop]; omega
      rw [blocksOf_of_lt hlt, rem_of_lt hlt, show (content.length - idx) / 64 = 0 by omega]
      rfl

/-- one `update` moves the canonical state of `total` to that of `total ++ content` -/
theorem update_stateOf (total content : List Nat) :
    update (stateOf total) content = stateOf (total ++ content) := by
  obtain ⟨h1, h2, h3⟩ := blocks_append total content
  unfold update
  simp only [blockBytes]
  rw [updateLoop_eq _ _ _ _ _ (by omega)]
  simp only [stateOf, absorb, List.drop_zero, Nat.sub_zero]
  rw [h1, h2, h3, List.foldl_append]

theorem stateOf_nil : stateOf [] = init := rfl

theorem foldl_update_stateOf (parts : List (List Nat)) (total : List Nat) :
    parts.foldl update (stateOf total) = stateOf (total ++ parts.flatten) := by
  induction parts generalizing total with
  | nil => simp
  | cons p ps ih => rw [List.foldl_cons, update_stateOf, ih, List.flatten_cons, List.append_assoc]

/-- KEY INVARIANT: after any sequence of updates the object is in the canonical state of the
    concatenation of everything fed so far. -/
theorem updates_eq_stateOf (parts : List (List Nat)) :
    parts.foldl update init = stateOf parts.flatten := by
  rw [← stateOf_nil, foldl_update_stateOf, List.nil_append]

theorem update_init (msg : List Nat) : update init msg = stateOf msg := by
  have := updates_eq_stateOf [msg]
  simpa using this

/-- `copy()` returns an equal state (so every later operation on the copy behaves the same) -/
theorem copy_eq (st : State) : copy st = st := by
  cases st; simp [copy]

end Lemmas.Md4
