import PasslibVerif.Py.Basic
import PasslibVerif.Gen.PyUnicode
/- `int(str)` of CPython for base 10: surrounding whitespace, optional sign, decimal digits of any
   script, single underscores between digits.  Tables come from the running interpreter. -/
namespace Py

@[irreducible] def isSpaceCp (c : Nat) : Bool := Gen.PyUnicode.intSpace.contains c

@[irreducible] def decimalValue (c : Nat) : Option Nat :=
  let i := Gen.PyUnicode.decimalCps.idxOf c
  if i < Gen.PyUnicode.decimalCps.length then some (Gen.PyUnicode.decimalVals.getD i 0) else none

def stripSpaces (s : List Nat) : List Nat :=
  ((s.dropWhile isSpaceCp).reverse.dropWhile isSpaceCp).reverse

/-- digits with single underscores strictly between digits -/
def parseDigits : List Nat → Option Nat → Bool → Option Nat
  | [], acc, lastUnderscore => if lastUnderscore then none else acc
  | c :: rest, acc, lastUnderscore =>
    if c = 95 then
      (match acc with
        | none => none                                   -- leading underscore
        | some _ => if lastUnderscore then none else parseDigits rest acc true)
    else match decimalValue c with
      | none => none
      | some d => parseDigits rest (some ((acc.getD 0) * 10 + d)) false

/-- `int(s)`; `none` = ValueError -/
def pyIntOfStr (s : List Nat) : Option Int :=
  match stripSpaces s with
  | [] => none
  | 45 :: rest => (parseDigits rest none false).map fun n => -(n : Int)
  | 43 :: rest => (parseDigits rest none false).map fun n => (n : Int)
  | body => (parseDigits body none false).map fun n => (n : Int)

end Py
