/-
Python-facing basics shared by all models: the error enum of the line protocol,
bytes as `List Nat` (each < 256), hex helpers used by the driver.
-/
namespace Py

inductive ErrKind
  | valueError | typeError | keyError | sizeError | truncateError | nullError
  | tokenMalformed | tokenInvalid | tokenUsed | missingBackend | runtimeError
  | indexError | assertionError | attributeError | notImplemented | unknownHash
  deriving DecidableEq, Repr, Inhabited

def ErrKind.name : ErrKind → String
  | .valueError => "ValueError" | .typeError => "TypeError" | .keyError => "KeyError"
  | .sizeError => "PasswordSizeError" | .truncateError => "PasswordTruncateError"
  | .nullError => "NullPasswordError"
  | .tokenMalformed => "MalformedTokenError" | .tokenInvalid => "InvalidTokenError"
  | .tokenUsed => "UsedTokenError" | .missingBackend => "MissingBackendError"
  | .runtimeError => "RuntimeError" | .indexError => "IndexError"
  | .assertionError => "AssertionError" | .attributeError => "AttributeError"
  | .notImplemented => "NotImplementedError" | .unknownHash => "UnknownHashError"

abbrev Res (α : Type) := Except ErrKind α

deriving instance DecidableEq for Except

abbrev Bytes := List Nat

def Bytes.WF (bs : Bytes) : Prop := ∀ b ∈ bs, b < 256

instance (bs : Bytes) : Decidable (Bytes.WF bs) := by unfold Bytes.WF; infer_instance

def hexDigit (n : Nat) : Char :=
  if n < 10 then Char.ofNat (48 + n) else Char.ofNat (87 + n)

def toHex (bs : Bytes) : String :=
  String.ofList (bs.flatMap fun b => [hexDigit (b / 16 % 16), hexDigit (b % 16)])

def hexVal (c : Char) : Option Nat :=
  let n := c.toNat
  if 48 ≤ n ∧ n ≤ 57 then some (n - 48)
  else if 97 ≤ n ∧ n ≤ 102 then some (n - 87)
  else if 65 ≤ n ∧ n ≤ 70 then some (n - 55)
  else none

def ofHexList : List Char → Option Bytes
  | [] => some []
  | [_] => none
  | a :: b :: rest => do
      let x ← hexVal a
      let y ← hexVal b
      let r ← ofHexList rest
      pure ((x * 16 + y) :: r)

/-- "-" denotes the empty byte string on the wire -/
def ofHex (s : String) : Option Bytes :=
  if s = "-" then some [] else ofHexList s.toList

def showHex (bs : Bytes) : String := if bs.isEmpty then "-" else toHex bs

def showRes {α} (f : α → String) : Res α → String
  | .ok a => "ok " ++ f a
  | .error e => "err " ++ e.name

end Py
