import PasslibVerif.Py.Basic
import PasslibVerif.Lemmas.Digits
/- Python number formatting used by the models: `"%d"`, `"%0*d"` -/
namespace Py
open Digits

/-- number of decimal digits of v (at least 1); structural recursion on fuel, `fuel = v` always suffices -/
def numDigitsFuel : Nat → Nat → Nat
  | 0, _ => 1
  | fuel+1, v => if v < 10 then 1 else 1 + numDigitsFuel fuel (v / 10)

def numDigits (v : Nat) : Nat := numDigitsFuel v v

/-- `"%d" % v` for v ≥ 0, as digit values most significant first -/
def decDigits (v : Nat) : List Nat := (toDigits 10 (numDigits v) v).reverse

/-- `"%0*d" % (w, v)` for v ≥ 0: zero padded to at least w digits -/
def decDigitsPadded (w v : Nat) : List Nat := (toDigits 10 (max w (numDigits v)) v).reverse

def digitChar (d : Nat) : Nat := 48 + d

/-- `"%0*d" % (w, n)` as code points, including the sign rule of CPython -/
def fmtZeroPad (w : Nat) (n : Int) : List Nat :=
  if n ≥ 0 then (decDigitsPadded w n.toNat).map digitChar
  else 45 :: (decDigitsPadded (w - 1) (-n).toNat).map digitChar

def fmtDec (n : Int) : List Nat :=
  if n ≥ 0 then (decDigits n.toNat).map digitChar else 45 :: (decDigits (-n).toNat).map digitChar

end Py
