import PasslibVerif.Gen.PyCase
/-
`str.lower()` / `str.upper()` of CPython (full Unicode case mapping, including the final-sigma rule of
`lower()`), and the two `re` atoms (`\w`, `.`) the format models need.  ASCII is the plain A-Z <-> a-z map
(checked by the extractor); everything else comes from tables reflected from the running interpreter.
-/
namespace Py

def lookupRow (row : List (Nat × List Nat)) (c : Nat) : Option (List Nat) :=
  match row with
  | [] => none
  | (k, v) :: rest => if k = c then some v else lookupRow rest c

def lookupRows (rows : List (List (Nat × List Nat))) (c : Nat) : Option (List Nat) :=
  match rows with
  | [] => none
  | r :: rs => match lookupRow r c with
    | some v => some v
    | none => lookupRows rs c

def inRanges (rs : List (Nat × Nat)) (c : Nat) : Bool := rs.any fun r => r.1 ≤ c && c ≤ r.2

def asciiLower (c : Nat) : Nat := if 65 ≤ c ∧ c ≤ 90 then c + 32 else c
def asciiUpper (c : Nat) : Nat := if 97 ≤ c ∧ c ≤ 122 then c - 32 else c

/-- `chr(c).lower()` for c ≠ U+03A3 -/
def lowerCp (c : Nat) : List Nat :=
  if c < 128 then [asciiLower c] else (lookupRows Gen.PyCase.lowerMap c).getD [c]

/-- `chr(c).upper()` -/
def upperCp (c : Nat) : List Nat :=
  if c < 128 then [asciiUpper c] else (lookupRows Gen.PyCase.upperMap c).getD [c]

def SIGMA : Nat := 0x3A3

/-- CPython's `handle_capital_sigma`: Σ lowers to ς when preceded by a cased letter and not followed by one
    (case-ignorable code points are skipped in both directions) -/
def finalSigma (revBefore after : List Nat) : Bool :=
  (match (revBefore.dropWhile (inRanges Gen.PyCase.caseIgnorable)).head? with
    | some c => inRanges Gen.PyCase.casedNotIgnorable c
    | none => false) &&
  !(match (after.dropWhile (inRanges Gen.PyCase.caseIgnorable)).head? with
    | some c => inRanges Gen.PyCase.casedNotIgnorable c
    | none => false)

def lowerAux (revBefore : List Nat) : List Nat → List Nat
  | [] => []
  | c :: rest =>
    (if c = SIGMA then [if finalSigma revBefore rest then 0x3C2 else 0x3C3] else lowerCp c) ++ lowerAux (c :: revBefore) rest

/-- `s.lower()` -/
def pyLower (s : List Nat) : List Nat := lowerAux [] s

/-- `s.upper()` -/
def pyUpper (s : List Nat) : List Nat := s.flatMap upperCp

/-- `\w` of `re` for str patterns -/
def isWord (c : Nat) : Bool := inRanges Gen.PyCase.wordRanges c

/-- `.` of `re` without DOTALL -/
def isDot (c : Nat) : Bool := !Gen.PyCase.dotExcluded.contains c

/-- what a trailing `$` (no MULTILINE) lets through: the text itself or the text before one final "\n" -/
def dollarEnd (s : List Nat) : List Nat := if s.getLast? = some 10 then s.dropLast else s

end Py
