/-
  PBKDF1 and PBKDF2, transcribed from RFC 8018 (PKCS #5 v2.1) §5.1 and §5.2.

  Generic in the hash function `H : List Nat → List Nat`; PBKDF2 uses PRF = HMAC-H (RFC 2104).
  Bytes are `List Nat` (every element < 256).
-/
import PasslibVerif.Spec.Hmac
import PasslibVerif.Spec.SHA1

namespace Spec.Pbkdf

/-! ### §5.1  PBKDF1 -/

/-- Apply `H` `n` times. -/
def iter (H : List Nat → List Nat) : Nat → List Nat → List Nat
  | 0, t => t
  | n + 1, t => iter H n (H t)

/-- §5.1 steps 2–3: T₁ = Hash(P ‖ S), Tᵢ = Hash(Tᵢ₋₁) for i = 2 … c, DK = T_c⟨0 … dkLen-1⟩.
    (Step 1, "if dkLen > hLen output 'derived key too long'", is the caller's business: here the
    result is simply the first `keylen` bytes of T_c, i.e. at most hLen bytes.
    `rounds = 0` is outside the RFC's domain and behaves like `rounds = 1`.) -/
def pbkdf1 (H : List Nat → List Nat) (pwd salt : List Nat) (rounds keylen : Nat) : List Nat :=
  (iter H (rounds - 1) (H (pwd ++ salt))).take keylen

/-! ### §5.2  PBKDF2 -/

/-- INT(i): the four-octet encoding of the integer i, most significant octet first. -/
def int32be (i : Nat) : List Nat :=
  [(i >>> 24) % 256, (i >>> 16) % 256, (i >>> 8) % 256, i % 256]

/-- Bytewise exclusive-or of two octet strings of the same length. -/
def xorBytes (a b : List Nat) : List Nat := List.zipWith (· ^^^ ·) a b

/-- Given U_j and T = U₁ ⊕ … ⊕ U_j, run `n` more iterations U_{j+1} = PRF(P, U_j),
    accumulating the exclusive-or. -/
def fLoop (prf : List Nat → List Nat) : Nat → List Nat → List Nat → List Nat
  | 0, _, T => T
  | n + 1, U, T => let U' := prf U; fLoop prf n U' (xorBytes T U')

/-- §5.2 step 3: F(P, S, c, i) = U₁ ⊕ U₂ ⊕ … ⊕ U_c where
    U₁ = PRF(P, S ‖ INT(i)), U_j = PRF(P, U_{j-1}).   (`prf` is PRF(P, ·).) -/
def F (prf : List Nat → List Nat) (salt : List Nat) (c i : Nat) : List Nat :=
  let U1 := prf (salt ++ int32be i)
  fLoop prf (c - 1) U1 U1

/-- §5.2: l = ⌈dkLen / hLen⌉ blocks T_i = F(P, S, c, i) for i = 1 … l;
    DK = the first dkLen octets of T₁ ‖ T₂ ‖ … ‖ T_l.   PRF = HMAC-H with block size `blockSize`.
    (`rounds = 0` is outside the RFC's domain and behaves like `rounds = 1`; `hLen = 0` gives `[]`.) -/
def pbkdf2 (H : List Nat → List Nat) (blockSize hLen : Nat)
    (pwd salt : List Nat) (rounds keylen : Nat) : List Nat :=
  let l := (keylen + hLen - 1) / hLen
  let prf := Spec.Hmac.hmac H blockSize pwd
  ((List.range' 1 l).flatMap fun i => F prf salt rounds i).take keylen

/-! ### known answers (RFC 6070 for PBKDF2-HMAC-SHA1) -/

private def hex (bs : List Nat) : String :=
  String.ofList (bs.flatMap fun b => [Nat.digitChar (b / 16), Nat.digitChar (b % 16)])
private def ascii (s : String) : List Nat := s.toList.map Char.toNat

-- PBKDF2-HMAC-MD5, P = "password", S = "salt", c = 2, dkLen = 20 (two blocks, truncated);
-- value from Python's hashlib.pbkdf2_hmac.  (MD5 because the kernel evaluates it quickly.)
example : pbkdf2 Spec.MD5.md5 64 16
      [0x70, 0x61, 0x73, 0x73, 0x77, 0x6f, 0x72, 0x64] [0x73, 0x61, 0x6c, 0x74] 2 20 =
    [0x04, 0x24, 0x07, 0xb5, 0x52, 0xbe, 0x34, 0x5a, 0xd6, 0xee,
     0xe2, 0xcf, 0x2f, 0x7e, 0xd0, 0x1d, 0xd9, 0x66, 0x2d, 0x8f] := by
  decide +kernel

-- PBKDF1-MD5, c = 3
example : pbkdf1 Spec.MD5.md5 [0x70, 0x61, 0x73, 0x73, 0x77, 0x6f, 0x72, 0x64] [0x73, 0x61, 0x6c, 0x74] 3 16 =
    [0xbb, 0xaa, 0x64, 0x8f, 0xd2, 0x5d, 0xf8, 0xf4, 0xc7, 0x07, 0x04, 0x7a, 0xe9, 0xbe, 0x75, 0x9c] := by
  decide +kernel

-- RFC 6070 test vectors 1 (c = 1) and 2 (c = 2) for PBKDF2-HMAC-SHA1 (vectors 3 and 5, c = 4096,
-- are checked against the compiled driver by validate.py), and a PBKDF2-HMAC-SHA256 vector
#guard hex (pbkdf2 Spec.SHA1.sha1 64 20 (ascii "password") (ascii "salt") 1 20) =
  "0c60c80f961f0e71f3a9b524af6012062fe037a6"
#guard hex (pbkdf2 Spec.SHA1.sha1 64 20 (ascii "password") (ascii "salt") 2 20) =
  "ea6c014dc72d6f8ccd1ed92ace1d41f0d8de8957"
#guard hex (pbkdf2 Spec.SHA256.sha256 64 32 (ascii "password") (ascii "salt") 1 32) =
  "120fb6cffcf8b32c43e7225256c4f837a86548c92ccc35480805987cb70be17b"
-- PBKDF1-SHA1 (the widely reproduced PKCS #5 v1.5 example) and PBKDF1-MD5
#guard hex (pbkdf1 Spec.SHA1.sha1 (ascii "password")
    [0x78, 0x57, 0x8e, 0x5a, 0x5d, 0x63, 0xcb, 0x06] 1000 16) = "dc19847e05c64d2faf10ebfb4a3d2a20"
#guard hex (pbkdf1 Spec.MD5.md5 (ascii "password") (ascii "salt") 3 16) = "bbaa648fd25df8f4c707047ae9be759c"

end Spec.Pbkdf
