/-
  Executable specifications of the checksum part of every supported hash format (property C02, part 2), written from
  the formats' published descriptions on top of the primitive specifications in `Spec/`:

    `Formats/Enc.lean`          encodings (hex, hash64, base64 variants, bcrypt base64, UTF-8 → UTF-16)
    `Formats/DesBased.lean`     des_crypt, bsdi_crypt, bigcrypt, crypt16, lmhash, oracle10 (django_des_crypt = des_crypt)
    `Formats/BcryptFamily.lean` bcrypt ($2$, $2a$, $2b$, $2y$), bcrypt_sha256 v1/v2, django_bcrypt(_sha256)
    `Formats/Iterated.lean`     sha1_crypt, sun_md5_crypt, phpass, fshp
    `Formats/Kdf.lean`          pbkdf2_*, ldap_pbkdf2_*, cta/dlitz/atlassian/grub/django pbkdf2, scram, scrypt ($scrypt$, $7$)
    `Formats/Digests.lean`      hex_*, ldap_*, nthash, msdcc(2), mysql323/41, postgres_md5, oracle11, mssql2000/2005,
                                cisco_pix/asa/type7, htdigest, django_salted_*
  (md5_crypt / apr_md5_crypt / sha256_crypt / sha512_crypt are in `Spec/ShaCrypt.lean`.)
-/
import PasslibVerif.Spec.Formats.Enc
import PasslibVerif.Spec.Formats.DesBased
import PasslibVerif.Spec.Formats.BcryptFamily
import PasslibVerif.Spec.Formats.Iterated
import PasslibVerif.Spec.Formats.Kdf
import PasslibVerif.Spec.Formats.Digests
