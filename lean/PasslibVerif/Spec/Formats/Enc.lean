/-
  Text and binary-to-text encodings shared by the per-format checksum specifications
  (`Spec.Formats.*`).  Everything is over `List Nat` (bytes / ASCII codes).

  Sources:
    * RFC 4648 §4/§5 (base64, "URL and filename safe" alphabet) via `Spec.Rfc4648`;
    * crypt(3) `itoa64` alphabet `./0-9A-Za-z` and the little-endian `to64` packing
      (FreeBSD `crypt-md5.c`, phpass `encode64`) via `Spec.Rfc4648.groups64le`;
    * OpenBSD `bcrypt.c` `encode_base64` / `decode_base64` (alphabet `./A-Za-z0-9`, RFC 4648 bit order, no padding);
    * RFC 3629 (UTF-8) and RFC 2781 §2.1 (UTF-16) for the formats whose published input is a Unicode string.
-/
import PasslibVerif.Spec.Rfc4648
import PasslibVerif.Spec.ShaCrypt

namespace Spec.Formats

abbrev Bytes := List Nat

/-- ASCII codes of a (7-bit) string constant -/
def ascii (s : String) : Bytes := s.toList.map Char.toNat

/-! ### hexadecimal and decimal -/

def hexDigitL (n : Nat) : Nat := if n < 10 then 48 + n else 87 + n
def hexDigitU (n : Nat) : Nat := if n < 10 then 48 + n else 55 + n

/-- lower-case hexadecimal, two digits per byte -/
def hexLower (bs : Bytes) : Bytes := bs.flatMap fun b => [hexDigitL (b / 16 % 16), hexDigitL (b % 16)]
/-- upper-case hexadecimal, two digits per byte -/
def hexUpper (bs : Bytes) : Bytes := bs.flatMap fun b => [hexDigitU (b / 16 % 16), hexDigitU (b % 16)]

/-- `printf("%u")` -/
def decimal (n : Nat) : Bytes := (Nat.toDigits 10 n).map Char.toNat
/-- `printf("%x")` -/
def hexNum (n : Nat) : Bytes := (Nat.toDigits 16 n).map Char.toNat

/-- `n` as `k` big-endian bytes -/
def beBytes (k n : Nat) : Bytes := (List.range k).map fun i => (n >>> (8 * (k - 1 - i))) % 256
/-- big-endian integer of a byte string -/
def beNat (bs : Bytes) : Nat := bs.foldl (fun a b => a * 256 + b) 0

/-! ### ASCII case mapping -/

def upperAscii (c : Nat) : Nat := if 97 ≤ c ∧ c ≤ 122 then c - 32 else c
def lowerAscii (c : Nat) : Nat := if 65 ≤ c ∧ c ≤ 90 then c + 32 else c

/-! ### crypt(3) "hash64" -/

/-- `./0123456789ABCDEFGHIJKLMNOPQRSTUVWXYZabcdefghijklmnopqrstuvwxyz` -/
def itoa64 : Bytes := Spec.ShaCrypt.itoa64

/-- value of an `itoa64` character (64 for a foreign character) -/
def h64val (c : Nat) : Nat := itoa64.idxOf c

/-- little-endian integer of a string of `itoa64` digits: the FIRST character is the least significant
    (`ascii_to_bin(setting[i]) << (i * 6)` in FreeSec; the count / salt fields of `_…` and `$7$`). -/
def h64leNat : Bytes → Nat
  | [] => 0
  | c :: cs => h64val c + 64 * h64leNat cs

/-- `encode64` of phpass / `to64` groups of md5-crypt applied to consecutive bytes: 3 bytes → a 24-bit little-endian
    integer → 4 digits, least significant first; a tail of 1 / 2 bytes gives 2 / 3 digits. -/
def h64le (bs : Bytes) : Bytes := (Spec.Rfc4648.groups64le bs).map (itoa64.getD · 0)

/-- the 64-bit output block of DES crypt: two zero bits are appended and the 66 bits are written as eleven
    6-bit digits, most significant first (FreeSec `crypt_des`: `l = r0 >> 8 …; l = (r0 << 16) | (r1 >> 16) …; l = r1 << 2 …`). -/
def h64be64 (v : Nat) : Bytes := (List.range 11).map fun i => itoa64.getD (((v * 4) >>> (6 * (10 - i))) % 64) 0

/-! ### RFC 4648 variants -/

def b64 (bs : Bytes) : Bytes := Spec.Rfc4648.base64 bs
def b64NoPad (bs : Bytes) : Bytes := Spec.Rfc4648.base64NoPad bs
/-- passlib's "adapted base64": RFC 4648 §4 without padding, `.` in place of `+`
    (the encoding of the `$pbkdf2-…$`, `$scram$` strings; Python `b64encode(raw, "./")` of Litzenberger's PBKDF2.py) -/
def ab64 (bs : Bytes) : Bytes := (b64NoPad bs).map fun c => if c = 43 then 46 else c
/-- RFC 4648 §5 (`-` and `_`), with padding -/
def b64url (bs : Bytes) : Bytes := (b64 bs).map fun c => if c = 43 then 45 else if c = 47 then 95 else c

/-! ### bcrypt's base64 -/

def bcryptAlphabet : Bytes := ascii "./ABCDEFGHIJKLMNOPQRSTUVWXYZabcdefghijklmnopqrstuvwxyz0123456789"

def bcrypt64 (bs : Bytes) : Bytes := (Spec.Rfc4648.groups64 bs).map (bcryptAlphabet.getD · 0)

/-- `decode_base64`: `none` if a character is outside the alphabet or the length is 1 mod 4 -/
def bcrypt64Decode (cs : Bytes) : Option Bytes :=
  if cs.all (bcryptAlphabet.contains ·) then Spec.Rfc4648.ungroups64 (cs.map (bcryptAlphabet.idxOf ·)) else none

/-! ### Unicode -/

/-- RFC 3629 §3: scalar values of a well-formed UTF-8 string (a truncated final sequence is dropped;
    ill-formed input is outside the domain of the specifications that use this). -/
def utf8Decode : Nat → Bytes → List Nat
  | 0, _ => []
  | _, [] => []
  | fuel + 1, b0 :: rest =>
    if b0 < 0x80 then b0 :: utf8Decode fuel rest
    else if b0 < 0xE0 then
      match rest with
      | b1 :: r => ((b0 % 32) * 64 + b1 % 64) :: utf8Decode fuel r
      | _ => []
    else if b0 < 0xF0 then
      match rest with
      | b1 :: b2 :: r => ((b0 % 16) * 4096 + (b1 % 64) * 64 + b2 % 64) :: utf8Decode fuel r
      | _ => []
    else
      match rest with
      | b1 :: b2 :: b3 :: r => ((b0 % 8) * 262144 + (b1 % 64) * 4096 + (b2 % 64) * 64 + b3 % 64) :: utf8Decode fuel r
      | _ => []

def utf8Scalars (bs : Bytes) : List Nat := utf8Decode bs.length bs

/-- RFC 2781 §2.1: 16-bit code units of a scalar value -/
def utf16Units (u : Nat) : List Nat :=
  if u < 0x10000 then [u] else
    let u' := u - 0x10000
    [0xD800 + u' / 1024, 0xDC00 + u' % 1024]

/-- UTF-16-LE bytes of the Unicode string given in UTF-8 -/
def utf16le (utf8 : Bytes) : Bytes :=
  ((utf8Scalars utf8).flatMap utf16Units).flatMap fun w => [w % 256, w / 256]

/-- UTF-16-BE bytes of the Unicode string given in UTF-8 -/
def utf16be (utf8 : Bytes) : Bytes :=
  ((utf8Scalars utf8).flatMap utf16Units).flatMap fun w => [w / 256, w % 256]

/-- consecutive pieces of `n` bytes (the last one may be shorter; `[]` gives no piece) -/
def chunks (n : Nat) : Nat → Bytes → List Bytes
  | 0, _ => []
  | fuel + 1, bs => if bs.isEmpty then [] else bs.take n :: chunks n fuel (bs.drop n)

def chunksOf (n : Nat) (bs : Bytes) : List Bytes := chunks n bs.length bs

#guard ab64 [0xfb, 0xff] = ascii "./8"
#guard utf16le [0xf0, 0x9f, 0x98, 0x80] = [0x3d, 0xd8, 0x00, 0xde]
#guard utf16be [0xe2, 0x82, 0xac] = [0x20, 0xac]
#guard utf16le (ascii "a") = [97, 0]
#guard h64be64 0 = ascii "..........."
#guard hexNum 10000 = ascii "2710"
#guard decimal 0 = ascii "0"

end Spec.Formats
