/-
  Checksums of the plain / salted digest formats.

  Sources
    * hex_md4/md5/sha1/sha256/sha512: RFC 1320, RFC 1321, FIPS 180-4 digests in lower-case hexadecimal.
    * ldap_md5, ldap_sha1: RFC 2307 §5.3 (`{MD5}`, `{SHA}` + base64 of the digest);
      ldap_salted_md5/sha1/sha256/sha512: OpenLDAP Admin Guide §14.4 and draft-stroeder-hashed-userpassword-values-01
      (`{SMD5}`, `{SSHA}`, `{SSHA256}`, `{SSHA512}`: base64(H(password ‖ salt) ‖ salt)).
    * nthash / bsd_nthash: RFC 2433 §A.9 `NtPasswordHash` (MD4 of the Unicode password, 16-bit little-endian units);
      FreeBSD `crypt-nthash.c` (`$3$$` + 32 hex digits).
    * msdcc: [MS-…] "Domain Cached Credentials": MD4(NT hash ‖ lower-cased user name in UTF-16-LE);
      msdcc2: PBKDF2-HMAC-SHA1(DCC1, user, 10240, 16)  (cachedump / John the Ripper `mscash2` description).
    * mysql323: MySQL `sql/password.c`, `hash_password` (OLD_PASSWORD()); mysql41: `*` + hex(SHA1(SHA1(password))).
    * postgres_md5: PostgreSQL `src/common/md5_common.c` `pg_md5_encrypt`: "md5" + hex(MD5(password ‖ user name)).
    * oracle11: "S:" + hex(SHA1(password ‖ salt)) + hex(salt)  (Oracle 11g `spare4`; THC / Pete Finnigan's description).
    * mssql2000 / mssql2005: `pwdencrypt()`: 0x0100 ‖ salt ‖ SHA1(UTF-16-LE(password) ‖ salt) [‖ same for the upper-cased
      password]  (D. Litchfield, "Microsoft SQL Server Passwords", 2002).
    * cisco_pix / cisco_asa: passlib documentation, "Format & Algorithm" steps 1-6 (no vendor publication exists).
    * cisco_type7: the Vigenère obfuscation published in 1995-1997 (`ciscocrack.c`; key `dsfd;kfoA,.iyewrkldJKDHSUBsgvca69834ncxv9873254k;fg87`).
    * htdigest: RFC 2617 §3.2.2.2 `A1 = unq(username-value) ":" unq(realm-value) ":" passwd`, `H(A1)` in hex.
    * django_salted_md5 / django_salted_sha1: Django `MD5PasswordHasher` / `SHA1PasswordHasher`: hex(H(salt ‖ password)).
-/
import PasslibVerif.Spec.MD4
import PasslibVerif.Spec.MD5
import PasslibVerif.Spec.SHA1
import PasslibVerif.Spec.SHA256
import PasslibVerif.Spec.SHA512
import PasslibVerif.Spec.Pbkdf
import PasslibVerif.Spec.Formats.Enc

namespace Spec.Formats

/-! ### unsalted digests -/

def hexDigest (H : Bytes → Bytes) (pwd : Bytes) : Bytes := hexLower (H pwd)

/-- `{MD5}` / `{SHA}` -/
def ldapDigest (H : Bytes → Bytes) (pwd : Bytes) : Bytes := b64 (H pwd)

/-- `{SMD5}` / `{SSHA}` / `{SSHA256}` / `{SSHA512}` -/
def ldapSalted (H : Bytes → Bytes) (pwd salt : Bytes) : Bytes := b64 (H (pwd ++ salt) ++ salt)

/-- Django: `hashlib.md5((salt + password).encode()).hexdigest()` -/
def djangoSalted (H : Bytes → Bytes) (pwd salt : Bytes) : Bytes := hexLower (H (salt ++ pwd))

/-! ### Windows -/

/-- `NtPasswordHash`: the password is given in UTF-8 and hashed in UTF-16-LE -/
def ntHashRaw (pwdUtf8 : Bytes) : Bytes := Spec.MD4.md4 (utf16le pwdUtf8)

def nthash (pwdUtf8 : Bytes) : Bytes := hexLower (ntHashRaw pwdUtf8)

/-- lower-casing of the user name: ASCII letters (other characters are the caller's business) -/
def dccUser (userUtf8 : Bytes) : Bytes :=
  (((utf8Scalars userUtf8).map lowerAscii).flatMap utf16Units).flatMap fun w => [w % 256, w / 256]

def msdccRaw (pwdUtf8 userUtf8 : Bytes) : Bytes := Spec.MD4.md4 (ntHashRaw pwdUtf8 ++ dccUser userUtf8)

def msdcc (pwdUtf8 userUtf8 : Bytes) : Bytes := hexLower (msdccRaw pwdUtf8 userUtf8)

def msdcc2 (pwdUtf8 userUtf8 : Bytes) : Bytes :=
  hexLower (Spec.Pbkdf.pbkdf2 Spec.SHA1.sha1 64 20 (msdccRaw pwdUtf8 userUtf8) (dccUser userUtf8) 10240 16)

/-! ### MySQL -/

/-- one character of `hash_password` (32-bit `ulong` arithmetic; only the low 31 bits are printed, and the low 32 bits
    of every operation depend only on the low 32 bits of its operands):
    `nr ^= (((nr & 63) + add) * tmp) + (nr << 8); nr2 += (nr2 << 8) ^ nr; add += tmp;` -/
def mysql323Step (st : Nat × Nat × Nat) (c : Nat) : Nat × Nat × Nat :=
  let (nr, nr2, add) := st
  if c = 32 ∨ c = 9 then st  -- "skip space in password"
  else
    let nr := (nr ^^^ (((nr % 64 + add) * c) + nr * 256)) % 2 ^ 32
    let nr2 := (nr2 + (((nr2 * 256) % 2 ^ 32) ^^^ nr)) % 2 ^ 32
    (nr, nr2, add + c)

def mysql323 (pwd : Bytes) : Bytes :=
  let (nr, nr2, _) := pwd.foldl mysql323Step (1345345333, 0x12345671, 7)
  -- `result[0] = nr & ((1L << 31) - 1); result[1] = nr2 & ((1L << 31) - 1);`  `sprintf("%08lx%08lx")`
  hexLower (beBytes 4 (nr % 2 ^ 31) ++ beBytes 4 (nr2 % 2 ^ 31))

/-- the 40 hexadecimal digits after the `*` -/
def mysql41 (pwd : Bytes) : Bytes := hexUpper (Spec.SHA1.sha1 (Spec.SHA1.sha1 pwd))

/-! ### PostgreSQL, Oracle 11g, MS SQL -/

/-- the 32 hexadecimal digits after `md5` -/
def postgresMd5 (pwd user : Bytes) : Bytes := hexLower (Spec.MD5.md5 (pwd ++ user))

/-- the 40 hexadecimal digits between `S:` and the salt -/
def oracle11 (pwd salt : Bytes) : Bytes := hexUpper (Spec.SHA1.sha1 (pwd ++ salt))

def mssqlDigest (scalars : List Nat) (salt : Bytes) : Bytes :=
  Spec.SHA1.sha1 (((scalars.flatMap utf16Units).flatMap fun w => [w % 256, w / 256]) ++ salt)

/-- the whole string `0x0100…` (upper-casing covers ASCII letters) -/
def mssql2000 (pwdUtf8 salt : Bytes) : Bytes :=
  let s := utf8Scalars pwdUtf8
  ascii "0x0100" ++ hexUpper (salt ++ mssqlDigest s salt ++ mssqlDigest (s.map upperAscii) salt)

def mssql2005 (pwdUtf8 salt : Bytes) : Bytes :=
  ascii "0x0100" ++ hexUpper (salt ++ mssqlDigest (utf8Scalars pwdUtf8) salt)

/-! ### Cisco -/

/-- step 2: "If the user account is 1-3 bytes, it is repeated until all 4 bytes are filled up" -/
def ciscoUser4 (user : Bytes) : Bytes :=
  if user.isEmpty then [] else (List.range 4).map fun i => user.getD (i % user.length) 0

/-- steps 4-6: MD5, drop every fourth byte, hash64 -/
def ciscoEncode (padded : Bytes) : Bytes :=
  let d := Spec.MD5.md5 padded
  h64le ((List.range 16).filterMap fun i => if i % 4 = 3 then none else some (d.getD i 0))

/-- `cisco_pix` (passwords of at most 16 bytes) -/
def ciscoPix (pwd user : Bytes) : Bytes :=
  let s := pwd ++ ciscoUser4 user
  ciscoEncode ((s ++ List.replicate 16 0).take 16)

/-- `cisco_asa` (passwords of at most 32 bytes): no user from 28 bytes on; 32-byte padding once password+user is longer
    than 16 bytes.  (The prose of step 3 says "16 or more bytes"; the vectors confirmed on an ASA 9.6 device — a 16 character
    enable password, and 12 characters + a 4 character user, both shared with PIX — and S. Kershaw's asa-password-encrypt
    README ("13 to 27 characters: padded to 32 with the user name") fix the boundary at MORE than 16.) -/
def ciscoAsa (pwd user : Bytes) : Bytes :=
  let s := if pwd.length ≥ 28 then pwd else pwd ++ ciscoUser4 user
  let n := if s.length > 16 then 32 else 16
  ciscoEncode ((s ++ List.replicate n 0).take n)

def type7Key : Bytes := ascii "dsfd;kfoA,.iyewrkldJKDHSUBsgvca69834ncxv9873254k;fg87"

/-- the whole string: two decimal digits of the offset, then the hex of the XOR stream -/
def ciscoType7 (pwd : Bytes) (salt : Nat) : Bytes :=
  [48 + salt / 10 % 10, 48 + salt % 10] ++
    hexUpper (pwd.mapIdx fun i c => c ^^^ type7Key.getD ((i + salt) % 53) 0)

/-! ### HTTP digest -/

def htdigest (pwd user realm : Bytes) : Bytes := hexLower (Spec.MD5.md5 (user ++ [58] ++ realm ++ [58] ++ pwd))

-- known answers: RFC 2433 §B.? style NT hash of "password", MySQL manual examples, passlib documentation examples
#guard nthash (ascii "password") = ascii "8846f7eaee8fb117ad06bdd830b7586c"
#guard msdcc (ascii "password") (ascii "Administrator") = ascii "25fd08fa89795ed54207e6e8442a6ca0"
#guard mysql323 (ascii "password") = ascii "5d2e19393cc5ef67"
#guard mysql41 (ascii "password") = ascii "2470C0C06DEE42FD1618BB99005ADCA2EC9D1E19"
#guard ciscoPix (ascii "password") [] = ascii "NuLKvvWGg.x9HEKO"
#guard ciscoPix (ascii "01234567") (ascii "365") = ascii "8xPrWpNnBdD2DzdZ"   -- confirmed ASA 9.6 / PIX
#guard ciscoAsa (ascii "0123456789abcdef") [] = ascii ".7nfVBEIEu4KbF/1"     -- confirmed ASA 9.6
#guard ciscoAsa (ascii "0123456789ab") (ascii "user") = ascii "f.T4BKdzdNkjxQl7" -- confirmed ASA 9.6
#guard ciscoAsa (ascii "0123456789abc") (ascii "user") = ascii "8Q/FZeam5ai1A47p" -- confirmed ASA 9.6
#guard ciscoAsa (ascii "0123456789abcdefq") (ascii "365") = ascii "4fKSSUBHT1ChGqHp" -- confirmed ASA 9.6
#guard ciscoType7 (ascii "password") 4 = ascii "044B0A151C36435C0D"
#guard mssql2005 (ascii "password") [0x6A, 0xCD, 0xF9, 0xFF] = ascii "0x01006ACDF9FF5D2E211B392EEF1175EFFE13B3A368CE2F94038B"
#guard oracle11 (ascii "password") [0xC8, 0x86, 0xEE, 0xD9, 0xC8, 0x04, 0x50, 0xC1, 0xB4, 0xE6] = ascii "4143053633E59B4992A8EA17D2FF542C9EDEB335"

end Spec.Formats
