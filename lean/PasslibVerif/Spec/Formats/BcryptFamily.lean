/-
  Checksums of bcrypt and of the formats that pre-hash the password before bcrypt.

  Sources
    * bcrypt: Provos & Mazières, "A Future-Adaptable Password Scheme" (USENIX 1999); OpenBSD `bcrypt.c`
      (`$2$` hashes the password without its terminating NUL, `$2a$` / `$2b$` with it; `$2y$` is crypt_blowfish's name for
      the corrected algorithm, Openwall crypt_blowfish README / `crypt_blowfish.c`: "$2y$ … equivalent to $2b$").
      The string holds `encode_base64(csalt, 16)` (22 characters) and `encode_base64(ciphertext, 23)` (31 characters).
    * bcrypt_sha256: passlib documentation, "passlib.hash.bcrypt_sha256 – Algorithm" (versions 1 and 2).
    * django_bcrypt / django_bcrypt_sha256: Django `django/contrib/auth/hashers.py`, `BCryptPasswordHasher` and
      `BCryptSHA256PasswordHasher` (`password = binascii.hexlify(self.digest(password).digest())`).
-/
import PasslibVerif.Spec.Bcrypt
import PasslibVerif.Spec.SHA256
import PasslibVerif.Spec.Hmac
import PasslibVerif.Spec.Formats.Enc

namespace Spec.Formats

/-- does this minor version hash the terminating NUL?  (`none`: not a version of the corrected algorithm; `2x`, the
    sign-extension bug compatibility mode of crypt_blowfish, is deliberately not specified) -/
def bcryptNul (ident : Bytes) : Option Bool :=
  if ident = ascii "2" then some false
  else if ident = ascii "2a" ∨ ident = ascii "2b" ∨ ident = ascii "2y" then some true
  else none

/-- the 31 checksum characters of `$<ident>$<cost>$<salt22>…`; `none` outside the format's domain -/
def bcrypt (ident : Bytes) (cost : Nat) (salt22 pwd : Bytes) : Option Bytes := do
  let nul ← bcryptNul ident
  let raw ← bcrypt64Decode salt22
  if salt22.length ≠ 22 ∨ cost < 4 ∨ cost > 31 then none
  else some (bcrypt64 (Spec.Bcrypt.bcrypt nul cost (raw.take 16) pwd))

/-- version 1: `bcrypt(base64(SHA-256(password)))` -/
def bcryptSha256V1 (ident : Bytes) (cost : Nat) (salt22 pwd : Bytes) : Option Bytes :=
  bcrypt ident cost salt22 (b64 (Spec.SHA256.sha256 pwd))

/-- version 2: `bcrypt(base64(HMAC-SHA-256(key = the 22 salt characters, msg = password)))` -/
def bcryptSha256V2 (ident : Bytes) (cost : Nat) (salt22 pwd : Bytes) : Option Bytes :=
  bcrypt ident cost salt22 (b64 (Spec.Hmac.hmac Spec.SHA256.sha256 64 salt22 pwd))

/-- Django: `bcrypt(hexlify(SHA-256(password)))` -/
def djangoBcryptSha256 (ident : Bytes) (cost : Nat) (salt22 pwd : Bytes) : Option Bytes :=
  bcrypt ident cost salt22 (hexLower (Spec.SHA256.sha256 pwd))

end Spec.Formats
