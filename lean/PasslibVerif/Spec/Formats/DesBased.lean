/-
  Checksums of the DES based formats, on top of `Spec.Des` (FIPS 46-3 + the crypt(3) salted, iterated variant).

  Sources
    * des_crypt, bsdi_crypt: D. Burren's FreeSec `crypt_des` (FreeBSD `secure/lib/libcrypt/crypt-des.c`, also the base of
      libxcrypt's `crypt-des.c`); crypt(3) of Unix V7 for the traditional format.
    * bigcrypt: HP-UX / Digital Unix `bigcrypt(3)`, as described by Authen::Passphrase::BigCrypt and the passlib
      documentation ("Algorithm", steps 1-9).
    * crypt16: Ultrix / Tru64 `crypt16(3)`, as described by Authen::Passphrase::Crypt16, the Exim specification
      (`crypt16` condition) and the passlib documentation.
    * lmhash: RFC 2433 §A.8 `LmPasswordHash` / `DesHash` / `DesEncrypt`; [MS-NLMP] §3.3.1 `LMOWFv1`.
    * oracle10: J. Wright, C. Cid, "An Assessment of the Oracle Password Hashing Algorithm" (2005), §2.
-/
import PasslibVerif.Spec.Des
import PasslibVerif.Spec.Formats.Enc

namespace Spec.Formats

/-! ### traditional crypt(3) -/

/-- FreeSec: `*q++ = *key << 1` for the first eight characters (zero padded): the 64-bit DES key whose byte `i` is the
    low seven bits of character `i` moved up by one (the parity position stays 0). -/
def desKeyOfChars (cs : Bytes) : Nat :=
  (List.range 8).foldl (fun k i => k * 256 + (cs.getD i 0 * 2) % 256) 0

/-- encrypt the all-zero block `count` times under `key` with the salt perturbation, and print it -/
def desCryptBlock (key salt count : Nat) : Bytes :=
  h64be64 (Spec.Des.desCryptCore key 0 salt count)

/-- `des_crypt`: two salt characters (12 bits, first character least significant), 25 iterations, key = first 8 characters -/
def desCrypt (pwd salt : Bytes) : Bytes :=
  desCryptBlock (desKeyOfChars pwd) (h64leNat (salt.take 2)) 25

/-! ### BSDi extended DES (`_CCCCSSSS`) -/

/-- FreeSec, the `_` branch: "Encrypt the key with itself. And XOR with the next 8 characters of the key." -/
def bsdiFold (k : Nat) : List Bytes → Nat
  | [] => k
  | c :: cs => bsdiFold (Spec.Des.desEncrypt k k ^^^ desKeyOfChars c) cs

def bsdiKey (pwd : Bytes) : Nat := bsdiFold (desKeyOfChars pwd) (chunksOf 8 (pwd.drop 8))

/-- `bsdi_crypt`: `rounds` = the 24-bit count field, `salt` = the four salt characters (24 bits) -/
def bsdiCrypt (pwd salt : Bytes) (rounds : Nat) : Bytes :=
  desCryptBlock (bsdiKey pwd) (h64leNat (salt.take 4)) rounds

/-! ### bigcrypt -/

/-- steps 3-8: each 8-byte segment is a traditional crypt; segment `i+1` is salted with the first two characters of the
    output of segment `i` -/
def bigcryptSegs (salt : Bytes) : List Bytes → Bytes
  | [] => []
  | seg :: rest => let c := desCrypt seg salt; c ++ bigcryptSegs (c.take 2) rest

/-- `bigcrypt`: at least one segment (the empty password is one empty segment) -/
def bigcrypt (pwd salt : Bytes) : Bytes :=
  bigcryptSegs (salt.take 2) (if pwd.isEmpty then [[]] else chunksOf 8 pwd)

/-! ### crypt16 -/

/-- first eight characters with 20 iterations, next eight with 5, same salt -/
def crypt16 (pwd salt : Bytes) : Bytes :=
  let s := h64leNat (salt.take 2)
  desCryptBlock (desKeyOfChars (pwd.take 8)) s 20 ++ desCryptBlock (desKeyOfChars ((pwd.drop 8).take 8)) s 5

/-! ### LAN Manager -/

/-- RFC 2433 `DesEncrypt`: "this one inserts the parity bits": 7 octets → 8 octets, seven key bits per octet in the
    high positions -/
def expand7 (k7 : Bytes) : Nat :=
  let v := beNat ((k7 ++ List.replicate 7 0).take 7)
  (List.range 8).foldl (fun acc i => acc * 256 + ((v >>> (49 - 7 * i)) % 128) * 2) 0

/-- `KGS!@#$%` -/
def lmMagic : Nat := beNat (ascii "KGS!@#$%")

/-- `DesHash(Clear) = DesEncrypt(StdText, Clear)` -/
def lmDesHash (k7 : Bytes) : Bytes := beBytes 8 (Spec.Des.desEncrypt (expand7 k7) lmMagic)

/-- `LmPasswordHash`: the password in the OEM code page, upper-cased (here: ASCII letters; other octets are the OEM
    encoder's business), truncated / zero padded to 14 octets; hex of the two DES results -/
def lmhash (oem : Bytes) : Bytes :=
  let p := (oem.map upperAscii ++ List.replicate 14 0).take 14
  hexLower (lmDesHash (p.take 7) ++ lmDesHash (p.drop 7))

/-! ### Oracle 10g -/

/-- last ciphertext block of DES-CBC with a zero IV -/
def desCbcLast (key : Nat) (blocks : List Bytes) : Nat :=
  blocks.foldl (fun c p => Spec.Des.desEncrypt key (c ^^^ beNat p)) 0

/-- Wright & Cid §2: upper-case (user ‖ password), two octets per character (big endian), zero pad to a multiple of 8,
    DES-CBC under 0123456789ABCDEF, then again under the last block; hex of the final block.
    `user` and `pwd` are given in UTF-8; the case mapping covers ASCII letters. -/
def oracle10 (pwd user : Bytes) : Bytes :=
  let units := ((utf8Scalars user ++ utf8Scalars pwd).map upperAscii).flatMap utf16Units
  let raw := units.flatMap fun w => [w / 256, w % 256]
  let padded := raw ++ List.replicate ((8 - raw.length % 8) % 8) 0
  let blocks := chunksOf 8 padded
  let k2 := desCbcLast 0x0123456789ABCDEF blocks
  hexUpper (beBytes 8 (desCbcLast k2 blocks))

end Spec.Formats

namespace Spec.Formats
/-! known answers (crypt(3) of glibc/libxcrypt; passlib documentation examples; RFC 2433 style LM vector) -/
#guard desCrypt (ascii "password") (ascii "ab") = ascii "JnggxhB/yWI"
#guard bsdiCrypt (ascii "password") (ascii "rasm") (h64leNat (ascii "J9..")) = ascii "EedsvB6g8/6"
#guard bigcrypt (ascii "passphrase") (ascii "S/") = ascii "8NbAAlzbYO66hAa9XZyWy2"
#guard crypt16 (ascii "passphrase") (ascii "aa") = ascii "X/UmCcBrceQ0kQGGWKTbuE"
#guard lmhash (ascii "password") = ascii "e52cac67419a9a224a3b108f3fa6cb6d"
end Spec.Formats
