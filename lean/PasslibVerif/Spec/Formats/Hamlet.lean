/-
  The constant phrase of Solaris `crypt_sunmd5.c` (Alec Muffett): 1516 characters of Hamlet III.i as found in the
  Project Gutenberg e-text, to which the C code adds the terminating NUL (`sizeof (constant_phrase)`).
  The text below was taken from the read-only data of the system's libxcrypt (`libcrypt.so.1`, `crypt-sunmd5.c`),
  i.e. from an implementation independent of passlib; the `#guard` pins its size.
-/
namespace Spec.Formats

def hamletLines : List String := [
  "To be, or not to be,--that is the question:--\n",
  "Whether 'tis nobler in the mind to suffer\n",
  "The slings and arrows of outrageous fortune\n",
  "Or to take arms against a sea of troubles,\n",
  "And by opposing end them?--To die,--to sleep,--\n",
  "No more; and by a sleep to say we end\n",
  "The heartache, and the thousand natural shocks\n",
  "That flesh is heir to,--'tis a consummation\n",
  "Devoutly to be wish'd. To die,--to sleep;--\n",
  "To sleep! perchance to dream:--ay, there's the rub;\n",
  "For in that sleep of death what dreams may come,\n",
  "When we have shuffled off this mortal coil,\n",
  "Must give us pause: there's the respect\n",
  "That makes calamity of so long life;\n",
  "For who would bear the whips and scorns of time,\n",
  "The oppressor's wrong, the proud man's contumely,\n",
  "The pangs of despis'd love, the law's delay,\n",
  "The insolence of office, and the spurns\n",
  "That patient merit of the unworthy takes,\n",
  "When he himself might his quietus make\n",
  "With a bare bodkin? who would these fardels bear,\n",
  "To grunt and sweat under a weary life,\n",
  "But that the dread of something after death,--\n",
  "The undiscover'd country, from whose bourn\n",
  "No traveller returns,--puzzles the will,\n",
  "And makes us rather bear those ills we have\n",
  "Than fly to others that we know not of?\n",
  "Thus conscience does make cowards of us all;\n",
  "And thus the native hue of resolution\n",
  "Is sicklied o'er with the pale cast of thought;\n",
  "And enterprises of great pith and moment,\n",
  "With this regard, their currents turn awry,\n",
  "And lose the name of action.--Soft you now!\n",
  "The fair Ophelia!--Nymph, in thy orisons\n",
  "Be all my sins remember'd.\n"]

/-- the phrase including its terminating NUL (1517 bytes) -/
def hamlet : List Nat := (String.join hamletLines).toList.map Char.toNat ++ [0]

#guard hamlet.length = 1517

end Spec.Formats
