/-
  Checksums of the PBKDF2 / scrypt based formats, on top of `Spec.Pbkdf` (RFC 8018) and `Spec.Scrypt` (RFC 7914).

  Sources
    * pbkdf2_sha1/sha256/sha512, ldap_pbkdf2_*: passlib documentation ("passlib.hash.pbkdf2_digest – Format & Algorithm"):
      PBKDF2-HMAC-<digest>, derived key as long as the digest, adapted base64.
    * cta_pbkdf2_sha1: Cryptacular `cryptacular.pbkdf2` (20 byte key, RFC 4648 §5 alphabet with padding).
    * dlitz_pbkdf2_sha1: D. Litzenberger, PBKDF2.py `crypt()` ("$p5k2$%x$%s", the whole setting is the PBKDF2 salt,
      the iteration count is omitted when it is 400, 24 byte key, `b64encode(raw, "./")`).
    * atlassian_pbkdf2_sha1: Atlassian `DefaultPasswordEncoder` / PKCS5S2 (10000 iterations, 32 byte key,
      base64(salt ‖ key)).
    * grub_pbkdf2_sha512: GRUB 2 manual, `grub-mkpasswd-pbkdf2` (upper-case hex, 64 byte key).
    * django_pbkdf2_sha256 / sha1: Django `PBKDF2PasswordHasher` (`base64.b64encode(pbkdf2(password, salt, iterations))`).
    * scram: RFC 5802 §2.2 `SaltedPassword := Hi(Normalize(password), salt, i)`, `Hi` = PBKDF2 with one output block
      (also RFC 7677 for SHA-256).  `Normalize` (SASLprep, RFC 4013) is applied by the caller.
    * scrypt: RFC 7914; `$scrypt$ln=…` passlib documentation (32 byte key, unpadded base64);
      `$7$`: C. Percival's / A. Peslyak's `crypto_scrypt-enc` "escrypt" string (`encode64` little-endian, salt string used as is).
    * msdcc / msdcc2 are in `Digests.lean`.
-/
import PasslibVerif.Spec.Pbkdf
import PasslibVerif.Spec.Scrypt
import PasslibVerif.Spec.SHA1
import PasslibVerif.Spec.SHA256
import PasslibVerif.Spec.SHA512
import PasslibVerif.Spec.Formats.Enc

namespace Spec.Formats

/-- PRF hash: function, block size, output size -/
structure HashAlg where
  H : Bytes → Bytes
  blockSize : Nat
  hLen : Nat

def algSha1 : HashAlg := ⟨Spec.SHA1.sha1, 64, 20⟩
def algSha256 : HashAlg := ⟨Spec.SHA256.sha256, 64, 32⟩
def algSha512 : HashAlg := ⟨Spec.SHA512.sha512, 128, 64⟩
def algMd5 : HashAlg := ⟨Spec.MD5.md5, 64, 16⟩
def algSha224 : HashAlg := ⟨Spec.SHA256.sha224, 64, 28⟩
def algSha384 : HashAlg := ⟨Spec.SHA512.sha384, 128, 48⟩

def pbkdf2 (a : HashAlg) (pwd salt : Bytes) (rounds keylen : Nat) : Bytes :=
  Spec.Pbkdf.pbkdf2 a.H a.blockSize a.hLen pwd salt rounds keylen

/-- `$pbkdf2[-digest]$rounds$salt$checksum` and `{PBKDF2[-digest]}rounds$salt$checksum` (salt = decoded salt bytes) -/
def pbkdf2Digest (a : HashAlg) (pwd salt : Bytes) (rounds : Nat) : Bytes := ab64 (pbkdf2 a pwd salt rounds a.hLen)

def ctaPbkdf2Sha1 (pwd salt : Bytes) (rounds : Nat) : Bytes := b64url (pbkdf2 algSha1 pwd salt rounds 20)

/-- `salt` = the salt characters; the PBKDF2 salt is the whole setting string -/
def dlitzSetting (salt : Bytes) (rounds : Nat) : Bytes :=
  ascii "$p5k2$" ++ (if rounds = 400 then [] else hexNum rounds) ++ ascii "$" ++ salt

def dlitzPbkdf2Sha1 (pwd salt : Bytes) (rounds : Nat) : Bytes :=
  ab64 (pbkdf2 algSha1 pwd (dlitzSetting salt rounds) rounds 24)

/-- everything after `{PKCS5S2}` -/
def atlassianPbkdf2Sha1 (pwd salt : Bytes) : Bytes := b64 (salt ++ pbkdf2 algSha1 pwd salt 10000 32)

def grubPbkdf2Sha512 (pwd salt : Bytes) (rounds : Nat) : Bytes := hexUpper (pbkdf2 algSha512 pwd salt rounds 64)

/-- `salt` = the salt characters as they appear in the string -/
def djangoPbkdf2 (a : HashAlg) (pwd salt : Bytes) (rounds : Nat) : Bytes := b64 (pbkdf2 a pwd salt rounds a.hLen)

/-- RFC 5802 `Hi(str, salt, i)`: `U1 := HMAC(str, salt + INT(1))` … = the first block of PBKDF2 -/
def scramSaltedPassword (a : HashAlg) (normalized salt : Bytes) (rounds : Nat) : Bytes :=
  pbkdf2 a normalized salt rounds a.hLen

/-- one `alg=digest` element of a `$scram$` string -/
def scramDigest (a : HashAlg) (normalized salt : Bytes) (rounds : Nat) : Bytes :=
  ab64 (scramSaltedPassword a normalized salt rounds)

/-- `$scrypt$ln=<logN>,r=<r>,p=<p>$salt$checksum` (salt = decoded salt bytes) -/
def scryptPhc (pwd salt : Bytes) (logN r p : Nat) : Bytes := b64NoPad (Spec.Scrypt.scrypt pwd salt (2 ^ logN) r p 32)

/-- `$7$` + N (1 digit) + r (5 digits) + p (5 digits) + salt + `$` + checksum (salt = the salt characters) -/
def scrypt7 (pwd salt : Bytes) (logN r p : Nat) : Bytes := h64le (Spec.Scrypt.scrypt pwd salt (2 ^ logN) r p 32)

-- passlib documentation examples / RFC 6070 / Django test suite
#guard pbkdf2Digest algSha1 (ascii "password") (ascii "salt") 1 = ab64 [0x0c, 0x60, 0xc8, 0x0f, 0x96, 0x1f, 0x0e, 0x71, 0xf3, 0xa9, 0xb5, 0x24, 0xaf, 0x60, 0x12, 0x06, 0x2f, 0xe0, 0x37, 0xa6]
#guard dlitzSetting (ascii "XXXXXXXX") 400 = ascii "$p5k2$$XXXXXXXX"
#guard dlitzSetting (ascii ".pPqsEwHD7MiECU0") 10000 = ascii "$p5k2$2710$.pPqsEwHD7MiECU0"

end Spec.Formats
