/-
  Checksums of the iterated-digest formats.

  Sources
    * sha1_crypt: NetBSD `lib/libcrypt/crypt-sha1.c` (Simon J. Gerraty, 2004), `__crypt_sha1`.
    * sun_md5_crypt: Solaris `usr/src/lib/crypt_modules/sunmd5/sunmd5.c` (Alec Muffett), `crypt_genhash_impl`; the
      prose form of the coin toss is in the passlib documentation ("Muffet Coin Toss").
    * phpass: Solar Designer's PHPass `PasswordHash.php`, `crypt_private` and `encode64` (portable hashes `$P$` / `$H$`).
    * fshp: Berk D. Demir, "Fairly Secure Hashed Password" reference implementation `fshp.py` (`crypt`): the salt is
      hashed BEFORE the password, then the digest is re-hashed `rounds - 1` times; the string holds
      base64(salt ‖ digest) ("contains a salt string of the specified size, followed by the checksum").
-/
import PasslibVerif.Spec.MD5
import PasslibVerif.Spec.SHA1
import PasslibVerif.Spec.SHA256
import PasslibVerif.Spec.SHA512
import PasslibVerif.Spec.Hmac
import PasslibVerif.Spec.ShaCrypt
import PasslibVerif.Spec.Formats.Enc
import PasslibVerif.Spec.Formats.Hamlet

namespace Spec.Formats

/-- `f` applied `n` times -/
def iterate {α : Type} (f : α → α) : Nat → α → α
  | 0, a => a
  | n + 1, a => iterate f n (f a)

/-! ### sha1_crypt -/

/-- `hmac_sha1(text, key)` with key = the password -/
def sha1CryptDigest (pwd salt : Bytes) (rounds : Nat) : Bytes :=
  let mac := Spec.Hmac.hmac Spec.SHA1.sha1 64 pwd
  -- "Prime the pump with <salt><magic><iterations>"
  let h := mac (salt ++ ascii "$sha1$" ++ decimal rounds)
  -- `for (i = 1; i < iterations; i++) hmac_sha1(hmac_buf, SHA1_SIZE, pwu, pl, hmac_buf);`
  iterate mac (rounds - 1) h

/-- `for (i = 0; i < SHA1_SIZE - 3; i += 3) to64(…, (b[i] << 16) | (b[i+1] << 8) | b[i+2], 4);`
    then "Only 2 bytes left, so we pad with byte 0": `(b[18] << 16) | (b[19] << 8) | b[0]`. -/
def sha1CryptEncode (d : Bytes) : Bytes :=
  let b := fun i => d.getD i 0
  ([0, 3, 6, 9, 12, 15].flatMap fun i => Spec.ShaCrypt.b64From24 (b i) (b (i + 1)) (b (i + 2)) 4)
    ++ Spec.ShaCrypt.b64From24 (b 18) (b 19) (b 0) 4

def sha1Crypt (pwd salt : Bytes) (rounds : Nat) : Bytes := sha1CryptEncode (sha1CryptDigest pwd salt rounds)

/-! ### sun_md5_crypt -/

/-- `md5bit`: bit `n mod 128` of the digest, bit 0 = least significant bit of byte 0 -/
def md5bit (d : Bytes) (n : Nat) : Nat := (d.getD (n % 128 / 8) 0 >>> (n % 8)) % 2

/-- the coin toss of one round (variable names of sunmd5.c) -/
def coinToss (d : Bytes) (round : Nat) : Nat :=
  let byte := fun i => d.getD (i % 16) 0
  -- `j = (i + 3) & 0xF; shift_4[i] = digest[j] % 5; shift_7[i] = (digest[j] >> (digest[i] & 7)) & 0x01;`
  let shift4 := fun i => byte (i + 3) % 5
  let shift7 := fun i => (byte (i + 3) >>> (byte i % 8)) % 2
  -- `indirect_4[i] = (digest[i] >> shift_4[i]) & 0x0F;`
  let indirect4 := fun i => (byte i >>> shift4 i) % 16
  -- `indirect_7[i] = (digest[indirect_4[i]] >> shift_7[i]) & 0x7F;`
  let indirect7 := fun i => (byte (indirect4 i) >>> shift7 i) % 128
  -- `indirect_a |= (md5bit(digest, indirect_7[i]) << i); indirect_b |= (md5bit(digest, indirect_7[i + 8]) << i);`
  let a := (List.range 8).foldl (fun acc i => acc + md5bit d (indirect7 i) * 2 ^ i) 0
  let b := (List.range 8).foldl (fun acc i => acc + md5bit d (indirect7 (i + 8)) * 2 ^ i) 0
  -- `indirect_a = (indirect_a >> shift_a) & 0x7F;` with `shift_a = md5bit(digest, round)`, `shift_b = md5bit(digest, round + 64)`
  let a := (a >>> md5bit d round) % 128
  let b := (b >>> md5bit d (round + 64)) % 128
  md5bit d a ^^^ md5bit d b

/-- one round: previous digest, the phrase if the coin says so, the decimal round number -/
def sunRound (d : Bytes) (round : Nat) : Bytes :=
  Spec.MD5.md5 (d ++ (if coinToss d round = 1 then hamlet else []) ++ decimal round)

def sunLoop : Nat → Nat → Bytes → Bytes
  | 0, _, d => d
  | n + 1, round, d => sunLoop n (round + 1) (sunRound d round)

/-- `config` is the salt string that goes into the first digest (`$md5$salt$`, `$md5,rounds=N$salt$`, or without the
    last `$` for a "bare" salt); the loop runs `4096 + rounds` times (`BASIC_ROUND_COUNT`); the 16 bytes are printed
    in the byte order of md5-crypt. -/
def sunMd5CryptOfConfig (pwd config : Bytes) (rounds : Nat) : Bytes :=
  let d := sunLoop (4096 + rounds) 0 (Spec.MD5.md5 (pwd ++ config))
  Spec.Md5Crypt.encode (fun i => d.getD i 0)

def sunConfig (salt : Bytes) (rounds : Nat) (bare : Bool) : Bytes :=
  (if rounds = 0 then ascii "$md5$" else ascii "$md5,rounds=" ++ decimal rounds ++ ascii "$") ++ salt
    ++ (if bare then [] else ascii "$")

def sunMd5Crypt (pwd salt : Bytes) (rounds : Nat) (bare : Bool) : Bytes :=
  sunMd5CryptOfConfig pwd (sunConfig salt rounds bare) rounds

/-! ### phpass -/

/-- `$hash = md5($salt . $password, TRUE); do { $hash = md5($hash . $password, TRUE); } while (--$count);`
    with `$count = 1 << $count_log2`; `encode64($hash, 16)` -/
def phpass (pwd salt : Bytes) (logRounds : Nat) : Bytes :=
  h64le (iterate (fun h => Spec.MD5.md5 (h ++ pwd)) (2 ^ logRounds) (Spec.MD5.md5 (salt ++ pwd)))

/-! ### fshp -/

def fshpHash : Nat → Option (Bytes → Bytes)
  | 0 => some Spec.SHA1.sha1
  | 1 => some Spec.SHA256.sha256
  | 2 => some Spec.SHA512.sha384
  | 3 => some Spec.SHA512.sha512
  | _ => none

/-- the data part of `{FSHPv|saltlen|rounds}data` -/
def fshp (variant : Nat) (pwd salt : Bytes) (rounds : Nat) : Option Bytes := do
  let H ← fshpHash variant
  if rounds = 0 then none else some (b64 (salt ++ iterate H (rounds - 1) (H (salt ++ pwd))))

-- NetBSD / libxcrypt, PHPass and the FSHP README examples
#guard sha1Crypt (ascii "password") (ascii "abcd") 100 = ascii "/1Jl.1L4ZL81n6cYxSO/NjR/39Ck"
#guard phpass (ascii "password") (ascii "ohUJ.1sd") 10 = ascii "Fw09/bMaAQPTGDNi2BIUt1"

end Spec.Formats
