/-
RFC 4648 transcribed independently of passlib: base64 (§4) and base32 (§6), as
arithmetic on the big-endian integer of each input group.  Values first, alphabet after.
Also the "crypt(3)" little-endian 6-bit packing used by the $1$/$5$/$6$ formats.
-/
namespace Spec.Rfc4648

def stdAlphabet : List Nat :=
  "ABCDEFGHIJKLMNOPQRSTUVWXYZabcdefghijklmnopqrstuvwxyz0123456789+/".toList.map Char.toNat

def b32Alphabet : List Nat := "ABCDEFGHIJKLMNOPQRSTUVWXYZ234567".toList.map Char.toNat

/-- §4: 24-bit groups -> four 6-bit values; final 8 / 16 bits are zero-padded to 12 / 18. -/
def groups64 : List Nat → List Nat
  | a :: b :: c :: rest =>
      let n := a * 65536 + b * 256 + c
      [n / 262144 % 64, n / 4096 % 64, n / 64 % 64, n % 64] ++ groups64 rest
  | [a, b] => let n := (a * 256 + b) * 4; [n / 4096 % 64, n / 64 % 64, n % 64]
  | [a] => let n := a * 16; [n / 64 % 64, n % 64]
  | [] => []

/-- crypt(3) packing: the group integer is little-endian and values are emitted
    least-significant first; short tails are zero-extended at the top. -/
def groups64le : List Nat → List Nat
  | a :: b :: c :: rest =>
      let n := a + b * 256 + c * 65536
      [n % 64, n / 64 % 64, n / 4096 % 64, n / 262144 % 64] ++ groups64le rest
  | [a, b] => let n := a + b * 256; [n % 64, n / 64 % 64, n / 4096 % 64]
  | [a] => [a % 64, a / 64 % 64]
  | [] => []

def padLen64 (n : Nat) : Nat := (3 - n % 3) % 3

def base64NoPad (bs : List Nat) : List Nat := (groups64 bs).map (stdAlphabet.getD · 0)

def base64 (bs : List Nat) : List Nat := base64NoPad bs ++ List.replicate (padLen64 bs.length) 61

/-- §6: 40-bit groups -> eight 5-bit values; tails of 1,2,3,4 bytes give 2,4,5,7 values. -/
def groups32 : List Nat → List Nat
  | a :: b :: c :: d :: e :: rest =>
      let n := a * 4294967296 + b * 16777216 + c * 65536 + d * 256 + e
      [n / 34359738368 % 32, n / 1073741824 % 32, n / 33554432 % 32, n / 1048576 % 32,
       n / 32768 % 32, n / 1024 % 32, n / 32 % 32, n % 32] ++ groups32 rest
  | [a, b, c, d] =>
      let n := (a * 16777216 + b * 65536 + c * 256 + d) * 8
      [n / 1073741824 % 32, n / 33554432 % 32, n / 1048576 % 32, n / 32768 % 32, n / 1024 % 32, n / 32 % 32, n % 32]
  | [a, b, c] =>
      let n := (a * 65536 + b * 256 + c) * 2
      [n / 1048576 % 32, n / 32768 % 32, n / 1024 % 32, n / 32 % 32, n % 32]
  | [a, b] => let n := (a * 256 + b) * 16; [n / 32768 % 32, n / 1024 % 32, n / 32 % 32, n % 32]
  | [a] => let n := a * 4; [n / 32 % 32, n % 32]
  | [] => []

/-- inverse on 5-bit values (unpadded form; lengths 1,3,6 mod 8 are not encodings) -/
def ungroups32 : List Nat → Option (List Nat)
  | v1 :: v2 :: v3 :: v4 :: v5 :: v6 :: v7 :: v8 :: rest =>
      let n := ((((((v1 * 32 + v2) * 32 + v3) * 32 + v4) * 32 + v5) * 32 + v6) * 32 + v7) * 32 + v8
      (ungroups32 rest).map
        ([n / 4294967296 % 256, n / 16777216 % 256, n / 65536 % 256, n / 256 % 256, n % 256] ++ ·)
  | [v1, v2, v3, v4, v5, v6, v7] =>
      let n := (((((((v1 * 32 + v2) * 32 + v3) * 32 + v4) * 32 + v5) * 32 + v6) * 32 + v7)) / 8
      some [n / 16777216 % 256, n / 65536 % 256, n / 256 % 256, n % 256]
  | [v1, v2, v3, v4, v5] =>
      let n := (((((v1 * 32 + v2) * 32 + v3) * 32 + v4) * 32 + v5)) / 2
      some [n / 65536 % 256, n / 256 % 256, n % 256]
  | [v1, v2, v3, v4] => let n := (((v1 * 32 + v2) * 32 + v3) * 32 + v4) / 16; some [n / 256 % 256, n % 256]
  | [v1, v2] => let n := (v1 * 32 + v2) / 4; some [n % 256]
  | [] => some []
  | _ => none

def base32NoPad (bs : List Nat) : List Nat := (groups32 bs).map (b32Alphabet.getD · 0)

end Spec.Rfc4648

namespace Spec.Rfc4648
/-- inverse of `groups64` on 6-bit values (unpadded; length 1 mod 4 is not an encoding) -/
def ungroups64 : List Nat → Option (List Nat)
  | v1 :: v2 :: v3 :: v4 :: rest =>
      let n := ((v1 * 64 + v2) * 64 + v3) * 64 + v4
      (ungroups64 rest).map ([n / 65536 % 256, n / 256 % 256, n % 256] ++ ·)
  | [v1, v2, v3] => let n := ((v1 * 64 + v2) * 64 + v3) / 4; some [n / 256 % 256, n % 256]
  | [v1, v2] => let n := (v1 * 64 + v2) / 16; some [n % 256]
  | [] => some []
  | [_] => none
end Spec.Rfc4648
