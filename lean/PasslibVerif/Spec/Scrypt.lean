/-
  scrypt, transcribed from RFC 7914 ("The scrypt Password-Based Key Derivation Function").

    §3  Salsa20/8 core          `salsa20_8`  (16 words)  /  `salsa20_8_bytes` (64 octets)
    §4  scryptBlockMix          `blockMix r`
    §5  scryptROMix             `roMix r N`
    §6  scrypt                  `scrypt P S N r p dkLen`

  Octet strings are `List Nat` (every element < 256); 32-bit words are `Nat` (< 2^32).
  Everything is total: structural recursion and folds only.  PBKDF2-HMAC-SHA256 is
  `Spec.Pbkdf.pbkdf2 Spec.SHA256.sha256 64 32` (RFC 8018 §5.2, RFC 2104, FIPS 180-4).
-/
import PasslibVerif.Spec.Pbkdf
import PasslibVerif.Spec.SHA256

namespace Spec.Scrypt

/-! ### §3  The Salsa20/8 core function

```
#define R(a,b) (((a) << (b)) | ((a) >> (32 - (b))))
void salsa20_word_specification(uint32 out[16],uint32 in[16])
{
  int i;
  uint32 x[16];
  for (i = 0;i < 16;++i) x[i] = in[i];
  for (i = 8;i > 0;i -= 2) {
    x[ 4] ^= R(x[ 0]+x[12], 7);  x[ 8] ^= R(x[ 4]+x[ 0], 9);
    x[12] ^= R(x[ 8]+x[ 4],13);  x[ 0] ^= R(x[12]+x[ 8],18);
    x[ 9] ^= R(x[ 5]+x[ 1], 7);  x[13] ^= R(x[ 9]+x[ 5], 9);
    x[ 1] ^= R(x[13]+x[ 9],13);  x[ 5] ^= R(x[ 1]+x[13],18);
    x[14] ^= R(x[10]+x[ 6], 7);  x[ 2] ^= R(x[14]+x[10], 9);
    x[ 6] ^= R(x[ 2]+x[14],13);  x[10] ^= R(x[ 6]+x[ 2],18);
    x[ 3] ^= R(x[15]+x[11], 7);  x[ 7] ^= R(x[ 3]+x[15], 9);
    x[11] ^= R(x[ 7]+x[ 3],13);  x[15] ^= R(x[11]+x[ 7],18);
    x[ 1] ^= R(x[ 0]+x[ 3], 7);  x[ 2] ^= R(x[ 1]+x[ 0], 9);
    x[ 3] ^= R(x[ 2]+x[ 1],13);  x[ 0] ^= R(x[ 3]+x[ 2],18);
    x[ 6] ^= R(x[ 5]+x[ 4], 7);  x[ 7] ^= R(x[ 6]+x[ 5], 9);
    x[ 4] ^= R(x[ 7]+x[ 6],13);  x[ 5] ^= R(x[ 4]+x[ 7],18);
    x[11] ^= R(x[10]+x[ 9], 7);  x[ 8] ^= R(x[11]+x[10], 9);
    x[ 9] ^= R(x[ 8]+x[11],13);  x[10] ^= R(x[ 9]+x[ 8],18);
    x[12] ^= R(x[15]+x[14], 7);  x[13] ^= R(x[12]+x[15], 9);
    x[14] ^= R(x[13]+x[12],13);  x[15] ^= R(x[14]+x[13],18);
  }
  for (i = 0;i < 16;++i) out[i] = x[i] + in[i];
}
```
-/

/-- `R(a,b) = (a << b) | (a >> (32 - b))` on `uint32` (the left shift drops the bits that leave
    the word).  `a < 2^32`, `0 < b < 32`. -/
def R (a b : Nat) : Nat := ((a <<< b) % 2 ^ 32) ||| (a >>> (32 - b))

/-- `uint32` addition. -/
def add32 (a b : Nat) : Nat := (a + b) % 2 ^ 32

/-- one statement `x[t] ^= R(x[a]+x[b], k)`, encoded as `(t, a, b, k)` -/
def op (x : List Nat) (o : Nat × Nat × Nat × Nat) : List Nat :=
  x.set o.1 (x.getD o.1 0 ^^^ R (add32 (x.getD o.2.1 0) (x.getD o.2.2.1 0)) o.2.2.2)

/-- the 32 statements of the loop body, in order (one column round, one row round) -/
def ops : List (Nat × Nat × Nat × Nat) :=
  [( 4,  0, 12,  7), ( 8,  4,  0,  9), (12,  8,  4, 13), ( 0, 12,  8, 18),
   ( 9,  5,  1,  7), (13,  9,  5,  9), ( 1, 13,  9, 13), ( 5,  1, 13, 18),
   (14, 10,  6,  7), ( 2, 14, 10,  9), ( 6,  2, 14, 13), (10,  6,  2, 18),
   ( 3, 15, 11,  7), ( 7,  3, 15,  9), (11,  7,  3, 13), (15, 11,  7, 18),
   ( 1,  0,  3,  7), ( 2,  1,  0,  9), ( 3,  2,  1, 13), ( 0,  3,  2, 18),
   ( 6,  5,  4,  7), ( 7,  6,  5,  9), ( 4,  7,  6, 13), ( 5,  4,  7, 18),
   (11, 10,  9,  7), ( 8, 11, 10,  9), ( 9,  8, 11, 13), (10,  9,  8, 18),
   (12, 15, 14,  7), (13, 12, 15,  9), (14, 13, 12, 13), (15, 14, 13, 18)]

/-- one pass of the loop body: a double round -/
def doubleRound (x : List Nat) : List Nat := ops.foldl op x

/-- `for (i = 8; i > 0; i -= 2)`: four double rounds; then `out[i] = x[i] + in[i]`. -/
def salsa20_8 (inp : List Nat) : List Nat :=
  let x := doubleRound (doubleRound (doubleRound (doubleRound inp)))
  List.zipWith add32 x inp

/-! #### octets ↔ words ("the input is interpreted as 16 little-endian 32-bit words") -/

/-- the little-endian integer denoted by an octet string -/
def leNat : List Nat → Nat
  | [] => 0
  | b :: bs => b + 256 * leNat bs

/-- 4·k octets → k little-endian 32-bit words (trailing octets that do not fill a word are dropped) -/
def wordsOfBytes : List Nat → List Nat
  | b0 :: b1 :: b2 :: b3 :: rest => leNat [b0, b1, b2, b3] :: wordsOfBytes rest
  | _ => []

/-- the 4 octets of a 32-bit word, least significant first -/
def bytesOfWord (w : Nat) : List Nat :=
  [w % 256, w / 2 ^ 8 % 256, w / 2 ^ 16 % 256, w / 2 ^ 24 % 256]

def bytesOfWords (ws : List Nat) : List Nat := ws.flatMap bytesOfWord

/-- Salsa20/8 Core as a function from 64-octet strings to 64-octet strings -/
def salsa20_8_bytes (B : List Nat) : List Nat := bytesOfWords (salsa20_8 (wordsOfBytes B))

/-! ### §4  The scryptBlockMix algorithm

```
   Input:   B[0] || B[1] || ... || B[2 * r - 1]    (each B[i] 64 octets)
   Output:  B'[0] || B'[1] || ... || B'[2 * r - 1]
   1. X = B[2 * r - 1]
   2. for i = 0 to 2 * r - 1 do
        T = X xor B[i]
        X = Salsa (T)
        Y[i] = X
      end for
   3. B' = (Y[0], Y[2], ..., Y[2 * r - 2], Y[1], Y[3], ..., Y[2 * r - 1])
```
-/

/-- octet-wise exclusive-or -/
def xorBytes (a b : List Nat) : List Nat := List.zipWith (· ^^^ ·) a b

/-- `B[i]`: the i-th 64-octet block -/
def block (B : List Nat) (i : Nat) : List Nat := (B.drop (64 * i)).take 64

/-- step 2, over the list of blocks still to be consumed: returns `Y[i], Y[i+1], …` -/
def blockMixY : List (List Nat) → List Nat → List (List Nat)
  | [], _ => []
  | Bi :: rest, X =>
    let T := xorBytes X Bi
    let X' := salsa20_8_bytes T
    X' :: blockMixY rest X'

def blockMix (r : Nat) (B : List Nat) : List Nat :=
  let X := block B (2 * r - 1)
  let Y := blockMixY ((List.range (2 * r)).map (block B)) X
  (List.range r).flatMap (fun i => Y.getD (2 * i) []) ++
  (List.range r).flatMap (fun i => Y.getD (2 * i + 1) [])

/-! ### §5  The scryptROMix algorithm

```
   Input:  r, B (128 * r octets), N
   1. X = B
   2. for i = 0 to N - 1 do
        V[i] = X
        X = scryptBlockMix (X)
      end for
   3. for i = 0 to N - 1 do
        j = Integerify (X) mod N
               where Integerify (B[0] ... B[2 * r - 1]) is defined
               as the result of interpreting B[2 * r - 1] as a little-endian integer.
        T = X xor V[j]
        X = scryptBlockMix (T)
      end for
   4. B' = X
```
-/

/-- `Integerify (B[0] … B[2r-1])`: `B[2r-1]` read as a little-endian integer -/
def integerify (r : Nat) (X : List Nat) : Nat := leNat (block X (2 * r - 1))

/-- step 2, `n` more iterations from `X`: returns (`V[i], V[i+1], …`, final `X`) -/
def fillV (r : Nat) : Nat → List Nat → List (List Nat) × List Nat
  | 0, X => ([], X)
  | n + 1, X =>
    let res := fillV r n (blockMix r X)
    (X :: res.1, res.2)

/-- step 3, `n` more iterations -/
def mixV (r N : Nat) (V : List (List Nat)) : Nat → List Nat → List Nat
  | 0, X => X
  | n + 1, X =>
    let j := integerify r X % N
    let T := xorBytes X (V.getD j [])
    mixV r N V n (blockMix r T)

def roMix (r N : Nat) (B : List Nat) : List Nat :=
  let res := fillV r N B
  mixV r N res.1 N res.2

/-! ### §6  The scrypt algorithm

```
   1. Initialize an array B consisting of p blocks of 128 * r octets each:
        B[0] || B[1] || ... || B[p - 1] = PBKDF2-HMAC-SHA256 (P, S, 1, p * 128 * r)
   2. for i = 0 to p - 1 do
        B[i] = scryptROMix (r, B[i], N)
      end for
   3. DK = PBKDF2-HMAC-SHA256 (P, B[0] || B[1] || ... || B[p - 1], 1, dkLen)
```
-/

def pbkdf2_hmac_sha256 (P S : List Nat) (c dkLen : Nat) : List Nat :=
  Spec.Pbkdf.pbkdf2 Spec.SHA256.sha256 64 32 P S c dkLen

def scrypt (P S : List Nat) (N r p dkLen : Nat) : List Nat :=
  let B := pbkdf2_hmac_sha256 P S 1 (p * 128 * r)
  let B' := (List.range p).flatMap fun i => roMix r N ((B.drop (128 * r * i)).take (128 * r))
  pbkdf2_hmac_sha256 P B' 1 dkLen

/-- §2 / §6 parameter domain: N a power of two greater than 1 and less than 2^(128·r/8);
    p ≤ ((2^32-1)·32) / (128·r); dkLen ≤ (2^32-1)·32; r ≥ 1, p ≥ 1. -/
def ParamsOK (N r p : Nat) : Prop :=
  (∃ k, 1 ≤ k ∧ N = 2 ^ k) ∧ N < 2 ^ (128 * r / 8) ∧ 1 ≤ r ∧ 1 ≤ p ∧ p ≤ ((2 ^ 32 - 1) * 32) / (128 * r)

/-! ### known answers (RFC 7914 §8, §9, §10, §12) -/

private def hexDigit (c : Char) : Nat :=
  if c.toNat ≥ 97 then c.toNat - 87 else c.toNat - 48
private def unhexL : List Char → List Nat
  | a :: b :: rest => (16 * hexDigit a + hexDigit b) :: unhexL rest
  | _ => []
private def unhex (s : String) : List Nat := unhexL (s.toList.filter (fun c => c ≠ ' ' ∧ c ≠ '\n'))
private def hex (bs : List Nat) : String :=
  String.ofList (bs.flatMap fun b => [Nat.digitChar (b / 16), Nat.digitChar (b % 16)])

-- §8  Test Vectors for Salsa20/8 Core
private def kat8_in : List Nat := unhex
  "7e879a214f3ec9867ca940e641718f26baee555b8c61c1b50df846116dcd3b1d
   ee24f319df9b3d8514121e4b5ac5aa3276021d2909c74829edebc68db8b8c25e"
private def kat8_out : List Nat := unhex
  "a41f859c6608cc993b81cacb020cef05044b2181a2fd337dfd7b1c6396682f29
   b4393168e3c9e6bcfe6bc5b7a06d96bae424cc102c91745c24ad673dc7618f81"
#guard salsa20_8_bytes kat8_in = kat8_out

-- the same vector, as 16 little-endian words, checked by the kernel
example : salsa20_8
    [0x219a877e, 0x86c93e4f, 0xe640a97c, 0x268f7141, 0x5b55eeba, 0xb5c1618c, 0x1146f80d, 0x1d3bcd6d,
     0x19f324ee, 0x853d9bdf, 0x4b1e1214, 0x32aac55a, 0x291d0276, 0x2948c709, 0x8dc6ebed, 0x5ec2b8b8] =
    [0x9c851fa4, 0x99cc0866, 0xcbca813b, 0x05ef0c02, 0x81214b04, 0x7d33fda2, 0x631c7bfd, 0x292f6896,
     0x683139b4, 0xbce6c9e3, 0xb7c56bfe, 0xba966da0, 0x10cc24e4, 0x5c74912c, 0x3d67ad24, 0x818f61c7] := by
  decide +kernel

-- §9  Test Vectors for scryptBlockMix  (r = 1)
private def kat9_in : List Nat := unhex
  "f7ce0b653d2d72a4108cf5abe912ffdd777616dbbb27a70e8204f3ae2d0f6fad
   89f68f4811d1e87bcc3bd7400a9ffd29094f0184639574f39ae5a1315217bcd7
   894991447213bb226c25b54da86370fbcd984380374666bb8ffcb5bf40c254b0
   67d27c51ce4ad5fed829c90b505a571b7f4d1cad6a523cda770e67bceaaf7e89"
private def kat9_out : List Nat := unhex
  "a41f859c6608cc993b81cacb020cef05044b2181a2fd337dfd7b1c6396682f29
   b4393168e3c9e6bcfe6bc5b7a06d96bae424cc102c91745c24ad673dc7618f81
   20edc975323881a80540f64c162dcd3c21077cfe5f8d5fe2b1a4168f953678b7
   7d3b3d803b60e4ab920996e59b4d53b65d2a225877d5edf5842cb9f14eefe425"
#guard kat9_in.length = 128
#guard blockMix 1 kat9_in = kat9_out

-- §10  Test Vectors for scryptROMix  (r = 1, N = 16)
private def kat10_out : List Nat := unhex
  "79ccc193629debca047f0b70604bf6b62ce3dd4a9626e355fafc6198e6ea2b46
   d58413673b99b029d665c357601fb426a0b2f4bba200ee9f0a43d19b571a9c71
   ef1142e65d5a266fddca832ce59faa7cac0b9cf1be2bffca300d01ee387619c4
   ae12fd4438f203a0e4e1c47ec314861f4e9087cb33396a6873e8f9d2539a4b8e"
#guard roMix 1 16 kat9_in = kat10_out

-- §12  Test Vectors for scrypt: P = "", S = "", N = 16, r = 1, p = 1, dkLen = 64
-- (the N = 1024 and N = 16384 vectors are checked against the compiled driver by validate.py)
#guard hex (scrypt [] [] 16 1 1 64) =
  "77d6576238657b203b19ca42c18a0497f16b4844e3074ae8dfdffa3fede21442" ++
  "fcd0069ded0948f8326a753a0fc81f17e8d3e0fb2e0d3628cf35e20c38d18906"

end Spec.Scrypt
