/-
Binary digits of pi by exact integer arithmetic (Machin's formula), as a rigorous enclosure.

No real numbers are available (no Mathlib), so "pi" never appears as a Lean term.  Instead, for a
scale `S = 2^N` we compute two natural numbers

    piLo N  ≤  pi * 2^N  ≤  piHi N

such that every rounding made on the way goes in the safe direction.  The inequality is justified
informally below (it cannot be stated formally without a definition of pi); what *is* machine
checked (in `Lemmas/BlowfishPi.lean`) is that, with 64 guard bits, the two bounds have the same
floor after dropping the guard bits, so that the leading 32*1042 fractional bits read from either
bound are the same, and that these bits are the Blowfish initial P-array and S-boxes.

## Mathematics

* Machin (1706):  pi = 16 * arctan(1/5) - 4 * arctan(1/239).

* Gregory series, for an integer q ≥ 2:

      arctan(1/q) = Σ_{k ≥ 0} (-1)^k * a_k,      a_k = 1 / ((2k+1) * q^(2k+1)).

  The a_k are positive and strictly decreasing to 0, so (Leibniz) the truncated sums that end with a
  negative term (k odd) are lower bounds and those that end with a positive term (k even) are upper
  bounds of arctan(1/q).

* Scaled powers.  Put t_k = floor(S / q^(2k+1)).  Since floor(floor(x / a) / b) = floor(x / (a*b))
  for naturals, t_0 = S / q and t_{k+1} = t_k / q^2 (natural-number division) compute t_k exactly,
  one small division per step and no power is ever recomputed.  So

      t_k ≤ S / q^(2k+1) < t_k + 1.

* Scaled terms, rounded both ways.  With n = 2k+1:

      floor(t_k / n)  ≤  S * a_k  ≤  (t_k + 1) / n  ≤  ceil((t_k + 1) / n)  =  floor(t_k / n) + 1.

  Hence "term rounded down" is `t_k / n` and "term rounded up" is `t_k / n + 1`.

* The loop handles the terms in pairs (k = 2j positive, k = 2j+1 negative), j = 0, 1, ..., J-1 and
  accumulates  P = Σ_j floor(t_{2j} / (4j+1))  and  Q = Σ_j floor(t_{2j+1} / (4j+3)).  After J pairs
  (the loop stops when t_{2J} = 0 or when the fuel is used up; the bounds are valid in either case):

      lower bound:  positive terms rounded down, negative terms rounded up, series cut after the
                    negative term k = 2J-1:
                        S * arctan(1/q)  ≥  P - (Q + J)
      upper bound:  positive terms rounded up, negative terms rounded down, series cut after the
                    positive term k = 2J, whose rounded-up value is floor(t_{2J} / (4J+1)) + 1
                    (this is the "remainder bound"; it equals 1 once t_{2J} = 0):
                        S * arctan(1/q)  ≤  (P + J) + (t_{2J} / (4J+1) + 1) - Q.

  Natural-number (truncated) subtraction is harmless: the quantities bounded are positive, so
  max(0, x) is still a lower bound when x is, and max(0, x) ≥ x is still an upper bound when x is.

* Finally
      piLo = 16 * atanLo(5) - 4 * atanHi(239)   ≤  pi * S  ≤   16 * atanHi(5) - 4 * atanLo(239) = piHi.

  The width of the enclosure is  16 * (2*J_5 + 1) + 4 * (2*J_239 + 1)  where J_q ≈ N / (4 log2 q) is
  the number of pairs: for N = 32*1042 + 64 this is about 2^17, far below the 2^64 of the guard bits.

* Reading off words: if  floor(piLo / 2^G) = floor(piHi / 2^G) = X  then
  X ≤ pi * 2^(N-G) < X + 1, i.e. X = floor(pi * 2^F) with F = N - G fractional bits, and the k-th
  32-bit word of the fractional part, floor(frac(pi) * 2^(32(k+1))) mod 2^32, is
  floor(X / 2^(F - 32(k+1))) mod 2^32.

Everything is structurally recursive on a fuel argument and uses only `Nat` `+ - * / % >>>` and `^`,
all of which the kernel evaluates with GMP on literals, so the theorems are closed by
`decide +kernel`.
-/
namespace Spec.PiDigits

/-- State after `J` pairs of terms: returns `(lower, upper)` bound of `2^N * arctan(1/q)`;
`t = floor(2^N / q^(4J+1))`, `P`/`Q` = sums of the rounded-down positive/negative terms. -/
def atanFinish (t P Q J : Nat) : Nat × Nat :=
  (P - (Q + J), P + J + (t / (4 * J + 1) + 1) - Q)

/-- The series loop; `q2 = q^2`.  One iteration = one positive and one negative term.
Stops as soon as the running scaled power `t` is `0` (all further rounded-down terms vanish). -/
def atanLoop (q2 : Nat) : (fuel t P Q J : Nat) → Nat × Nat
  | 0, t, P, Q, J => atanFinish t P Q J
  | fuel + 1, t, P, Q, J =>
    if t = 0 then atanFinish t P Q J
    else
      let t1 := t / q2            -- floor(S / q^(4J+3))
      atanLoop q2 fuel (t1 / q2) (P + t / (4 * J + 1)) (Q + t1 / (4 * J + 3)) (J + 1)

/-- `(lo, hi)` with `lo ≤ 2^N * arctan(1/q) ≤ hi`, for `q ≥ 2`.
`N` pairs of terms are always more than enough fuel (`q^(4J+1) > 2^N` for `J ≥ N/4`). -/
def atanBounds (q N : Nat) : Nat × Nat :=
  atanLoop (q * q) N (2 ^ N / q) 0 0 0

/-- `(lo, hi)` with `lo ≤ pi * 2^N ≤ hi` (Machin). -/
def piBounds (N : Nat) : Nat × Nat :=
  let a := atanBounds 5 N
  let b := atanBounds 239 N
  (16 * a.1 - 4 * b.2, 16 * a.2 - 4 * b.1)

/-- lower bound of `pi * 2^N` -/
def piLo (N : Nat) : Nat := (piBounds N).1
/-- upper bound of `pi * 2^N` -/
def piHi (N : Nat) : Nat := (piBounds N).2

/-- number of guard bits -/
def guardBits : Nat := 64

/-- scale used for `n` 32-bit fractional words -/
def scaleBits (n : Nat) : Nat := 32 * n + guardBits

/-- The `n` 32-bit words following the binary point of `x / 2^(32 n)` (most significant first). -/
def fracWords (n x : Nat) : List Nat :=
  (List.range n).map fun k => (x >>> (32 * (n - 1 - k))) % 2 ^ 32

/-- first `n` fractional words of the lower bound -/
def piFracWordsLo (n : Nat) : List Nat := fracWords n (piLo (scaleBits n) >>> guardBits)
/-- first `n` fractional words of the upper bound -/
def piFracWordsHi (n : Nat) : List Nat := fracWords n (piHi (scaleBits n) >>> guardBits)

/-- The first `n` 32-bit words of the fractional part of pi
(provided `piFracWordsLo n = piFracWordsHi n`, i.e. the guard bits suffice). -/
def piFracWords (n : Nat) : List Nat := piFracWordsLo n

end Spec.PiDigits
