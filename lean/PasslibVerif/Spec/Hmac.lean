/-
  HMAC, transcribed literally from RFC 2104 §2.

      H(K XOR opad, H(K XOR ipad, text))

  generic in the hash function `H : List Nat → List Nat` and its block size `B` (in bytes).
  Bytes are `List Nat` (every element < 256).
-/
import PasslibVerif.Spec.MD5
import PasslibVerif.Spec.SHA256

namespace Spec.Hmac

/-- §2: ipad = the byte 0x36 repeated B times. -/
def ipad : Nat := 0x36
/-- §2: opad = the byte 0x5C repeated B times. -/
def opad : Nat := 0x5C

/-- XOR every byte of `k` with the pad byte `p`. -/
def xorPad (k : List Nat) (p : Nat) : List Nat := k.map (· ^^^ p)

/-- §2: "Applications that use keys longer than B bytes will first hash the key using H";
    step (1): "append zeros to the end of K to create a B byte string". -/
def normKey (H : List Nat → List Nat) (blockSize : Nat) (key : List Nat) : List Nat :=
  let K := if key.length > blockSize then H key else key
  K ++ List.replicate (blockSize - K.length) 0

/-- §2 steps (2)–(7): H((K' ⊕ opad) ‖ H((K' ⊕ ipad) ‖ text)). -/
def hmac (H : List Nat → List Nat) (blockSize : Nat) (key msg : List Nat) : List Nat :=
  let K := normKey H blockSize key
  H (xorPad K opad ++ H (xorPad K ipad ++ msg))

/-! ### known answers (RFC 2202 / RFC 4231 test case 2 and 6) -/

private def hex (bs : List Nat) : String :=
  String.ofList (bs.flatMap fun b => [Nat.digitChar (b / 16), Nat.digitChar (b % 16)])
private def ascii (s : String) : List Nat := s.toList.map Char.toNat

-- RFC 2202 §2 test_case 2: key "Jefe", data "what do ya want for nothing?"
example : hmac Spec.MD5.md5 64 [0x4a, 0x65, 0x66, 0x65]
      [0x77, 0x68, 0x61, 0x74, 0x20, 0x64, 0x6f, 0x20, 0x79, 0x61, 0x20, 0x77, 0x61, 0x6e,
       0x74, 0x20, 0x66, 0x6f, 0x72, 0x20, 0x6e, 0x6f, 0x74, 0x68, 0x69, 0x6e, 0x67, 0x3f] =
    [0x75, 0x0c, 0x78, 0x3e, 0x6a, 0xb0, 0xb5, 0x03, 0xea, 0xa8, 0x6e, 0x31, 0x0a, 0x5d, 0xb7, 0x38] := by
  decide +kernel

-- RFC 4231 §4.3 test case 2
#guard hex (hmac Spec.SHA256.sha256 64 (ascii "Jefe") (ascii "what do ya want for nothing?")) =
  "5bdcc146bf60754e6a042426089575c75a003f089d2739839dec58b964ec3843"
-- RFC 4231 §4.7 test case 6 (131-byte key, larger than the block size: hashed first)
#guard hex (hmac Spec.SHA256.sha256 64 (List.replicate 131 0xaa)
    (ascii "Test Using Larger Than Block-Size Key - Hash Key First")) =
  "60e431591ee0b67f0d8a26aacbf5b77f8e0bc6213728c5140546040f0ee37f54"

end Spec.Hmac
