/-
  SHA-1, transcribed from FIPS 180-4 (Secure Hash Standard).

  Bytes are `List Nat` (every element < 256).  Internally words are `UInt32`
  (addition is mod 2^32, FIPS 180-4 §2.2.2) and the message schedule is an
  `Array UInt32`.  Everything is total: structural recursion and folds only.
-/
namespace Spec.SHA1

/-! ### §3.2  operations on 32-bit words -/

/-- §3.2 (5): ROTL^n(x) = (x << n) ∨ (x >> (32 - n)), for 0 < n < 32. -/
@[inline] def rotl (x n : UInt32) : UInt32 := (x <<< n) ||| (x >>> (32 - n))

/-! ### §4.1.1  SHA-1 functions -/

@[inline] def Ch (x y z : UInt32) : UInt32 := (x &&& y) ^^^ (~~~x &&& z)
@[inline] def Parity (x y z : UInt32) : UInt32 := x ^^^ y ^^^ z
@[inline] def Maj (x y z : UInt32) : UInt32 := (x &&& y) ^^^ (x &&& z) ^^^ (y &&& z)

/-- (4.1): fₜ(x, y, z) -/
@[inline] def f (t : Nat) (x y z : UInt32) : UInt32 :=
  if t < 20 then Ch x y z          --  0 ≤ t ≤ 19
  else if t < 40 then Parity x y z -- 20 ≤ t ≤ 39
  else if t < 60 then Maj x y z    -- 40 ≤ t ≤ 59
  else Parity x y z                -- 60 ≤ t ≤ 79

/-! ### §4.2.1  SHA-1 constants -/

/-- Kₜ -/
@[inline] def K (t : Nat) : UInt32 :=
  if t < 20 then 0x5a827999        --  0 ≤ t ≤ 19
  else if t < 40 then 0x6ed9eba1   -- 20 ≤ t ≤ 39
  else if t < 60 then 0x8f1bbcdc   -- 40 ≤ t ≤ 59
  else 0xca62c1d6                  -- 60 ≤ t ≤ 79

/-! ### §5.3.1  initial hash value -/

def H0 : Array UInt32 := #[0x67452301, 0xefcdab89, 0x98badcfe, 0x10325476, 0xc3d2e1f0]

/-! ### §5.1.1  padding, §5.2.1 parsing -/

/-- The 64-bit big-endian representation of `n` (mod 2^64), as 8 bytes. -/
def be64 (n : Nat) : List Nat :=
  [7, 6, 5, 4, 3, 2, 1, 0].map fun i => (n >>> (8 * i)) % 256

/-- §5.1.1: append the bit "1", then k zero bits with ℓ + 1 + k ≡ 448 (mod 512),
    then ℓ as a 64-bit big-endian integer (ℓ = message length in bits).
    In bytes: 0x80, then `(119 - len % 64) % 64` zero bytes, then 8 length bytes. -/
def pad (msg : List Nat) : List Nat :=
  let len := msg.length
  msg ++ [0x80] ++ List.replicate ((119 - len % 64) % 64) 0 ++ be64 (8 * len)

/-- Big-endian bytes → 32-bit words (§3.1 (2)); the length is a multiple of 4 after padding. -/
def toWords : List Nat → Array UInt32 → Array UInt32
  | a :: b :: c :: d :: rest, acc =>
      toWords rest (acc.push
        ((a.toUInt8.toUInt32 <<< 24) ||| (b.toUInt8.toUInt32 <<< 16) |||
         (c.toUInt8.toUInt32 <<< 8) ||| d.toUInt8.toUInt32))
  | _, acc => acc

/-- §5.2.1: parse the padded message into N 512-bit blocks M⁽¹⁾ … M⁽ᴺ⁾ of sixteen words. -/
def blocks (ws : Array UInt32) : List (Array UInt32) :=
  (List.range (ws.size / 16)).map fun i => ws.extract (16 * i) (16 * i + 16)

/-- 32-bit words → big-endian bytes. -/
def fromWords (ws : List UInt32) : List Nat :=
  ws.flatMap fun (w : UInt32) =>
    [(w >>> 24).toUInt8.toNat, (w >>> 16).toUInt8.toNat, (w >>> 8).toUInt8.toNat, w.toUInt8.toNat]

/-! ### §6.1.2  SHA-1 hash computation -/

/-- Step 1: prepare the message schedule W₀ … W₇₉:
    Wₜ = Mₜ for 0 ≤ t ≤ 15, Wₜ = ROTL¹(Wₜ₋₃ ⊕ Wₜ₋₈ ⊕ Wₜ₋₁₄ ⊕ Wₜ₋₁₆) for 16 ≤ t ≤ 79. -/
def schedule (M : Array UInt32) : Array UInt32 :=
  (List.range' 16 64).foldl
    (fun W t => W.push (rotl (W[t - 3]! ^^^ W[t - 8]! ^^^ W[t - 14]! ^^^ W[t - 16]!) 1))
    M

/-- The five working variables a … e. -/
structure Vars where
  a : UInt32
  b : UInt32
  c : UInt32
  d : UInt32
  e : UInt32

/-- Step 3, one iteration t. -/
@[inline] def round (W : Array UInt32) (v : Vars) (t : Nat) : Vars :=
  let T := rotl v.a 5 + f t v.b v.c v.d + v.e + K t + W[t]!
  { e := v.d, d := v.c, c := rotl v.b 30, b := v.a, a := T }

/-- Steps 1–4 for one block: H⁽ⁱ⁾ from H⁽ⁱ⁻¹⁾ and M⁽ⁱ⁾. -/
def compress (H M : Array UInt32) : Array UInt32 :=
  let W := schedule M
  -- Step 2: initialise the working variables with H⁽ⁱ⁻¹⁾
  let v0 : Vars := { a := H[0]!, b := H[1]!, c := H[2]!, d := H[3]!, e := H[4]! }
  -- Step 3: for t = 0 to 79
  let v := (List.range 80).foldl (round W) v0
  -- Step 4: the i-th intermediate hash value
  #[v.a + H[0]!, v.b + H[1]!, v.c + H[2]!, v.d + H[3]!, v.e + H[4]!]

/-- §6.1: SHA-1; the digest is H₀⁽ᴺ⁾ ‖ … ‖ H₄⁽ᴺ⁾ (20 bytes). -/
def sha1 (msg : List Nat) : List Nat :=
  fromWords ((blocks (toWords (pad msg) #[])).foldl compress H0).toList

/-! ### known answers (FIPS 180-4 examples) -/

/-- Lower-case hex rendering, for the checks below only. -/
private def hex (bs : List Nat) : String :=
  String.ofList (bs.flatMap fun b => [Nat.digitChar (b / 16), Nat.digitChar (b % 16)])

-- "abc"
example : sha1 [0x61, 0x62, 0x63] =
    [0xa9, 0x99, 0x3e, 0x36, 0x47, 0x06, 0x81, 0x6a, 0xba, 0x3e,
     0x25, 0x71, 0x78, 0x50, 0xc2, 0x6c, 0x9c, 0xd0, 0xd8, 0x9d] := by
  decide +kernel

#guard hex (sha1 []) = "da39a3ee5e6b4b0d3255bfef95601890afd80709"
#guard hex (sha1 ("abcdbcdecdefdefgefghfghighijhijkijkljklmklmnlmnomnopnopq".toList.map Char.toNat)) =
  "84983e441c3bd26ebaae4aa1f95129e5e54670f1"
#guard (sha1 (List.replicate 300 0xff)).all (· < 256)

end Spec.SHA1
