import PasslibVerif.Gen.Blowfish
import PasslibVerif.Spec.PiDigits
/-
Executable specification of bcrypt, written from

  * B. Schneier, "Description of a New Variable-Length Key, 64-Bit Block Cipher (Blowfish)",
    FSE 1993  (the cipher: 16-round Feistel network, F function, key expansion), and
  * N. Provos, D. Mazières, "A Future-Adaptable Password Scheme", USENIX 1999
    (EksBlowfishSetup, ExpandKey(state, salt, key), bcrypt = 64 x ECB of
    "OrpheanBeholderScryDoubt"), as implemented by OpenBSD `lib/libc/crypt/bcrypt.c`
    + `blowfish.c` (`Blowfish_stream2word`, `Blowfish_expandstate`, `Blowfish_expand0state`).

32-bit words are `Nat`s (kept `< 2^32` by the operations below), byte strings are
`List Nat`.  Nothing here is derived from passlib's code; the initial tables are the
digits of π (`initStatePi`); the literal copy `initState` is proved equal to it.
Every definition is total and computable; S-boxes are `Array`s so that the compiled
driver is fast.
-/
namespace Spec.Bcrypt

/-- Blowfish state: 18 sub-keys `P` and four S-boxes of 256 words each. -/
structure State where
  P : List Nat
  S : Array (Array Nat)

/-- addition modulo 2^32 -/
def add32 (a b : Nat) : Nat := (a + b) % 4294967296

/-- entry `j` of S-box `i` (`i = 0..3`) -/
def State.sbox (st : State) (i j : Nat) : Nat := (st.S.getD i #[]).getD j 0

/-- Blowfish `F`: split the 32-bit `x` into bytes `a‖b‖c‖d`;
    `F(x) = ((S1[a] + S2[b] mod 2^32) XOR S3[c]) + S4[d] mod 2^32`. -/
def F (st : State) (x : Nat) : Nat :=
  let a := (x >>> 24) % 256
  let b := (x >>> 16) % 256
  let c := (x >>> 8) % 256
  let d := x % 256
  add32 (add32 (st.sbox 0 a) (st.sbox 1 b) ^^^ st.sbox 2 c) (st.sbox 3 d)

/-- one Feistel round with sub-key `p`, including the swap:
    `xL = xL XOR p; xR = F(xL) XOR xR; swap xL, xR`. -/
def round (st : State) (lr : Nat × Nat) (p : Nat) : Nat × Nat :=
  let xL := lr.1 ^^^ p
  let xR := F st xL ^^^ lr.2
  (xR, xL)

/-- Blowfish encryption of one 64-bit block `(xL, xR)`:
    16 rounds with `P1..P16`, undo the last swap, `xR ^= P17`, `xL ^= P18`. -/
def encipher (st : State) (lr : Nat × Nat) : Nat × Nat :=
  let lr := (st.P.take 16).foldl (round st) lr
  let xL := lr.2            -- undo the last swap
  let xR := lr.1
  let xR := xR ^^^ st.P.getD 16 0
  let xL := xL ^^^ st.P.getD 17 0
  (xL, xR)

/-- byte `j` of the cyclic repetition of `data` (`Blowfish_stream2word`'s wrapping index;
    an empty string reads as zeros, like the NUL the C code finds after an empty key) -/
def streamByte (data : List Nat) (j : Nat) : Nat := data.getD (j % data.length) 0

/-- 32-bit big-endian word number `i` of the cyclic repetition of `data` -/
def streamWord (data : List Nat) (i : Nat) : Nat :=
  ((streamByte data (4 * i) * 256 + streamByte data (4 * i + 1)) * 256
    + streamByte data (4 * i + 2)) * 256 + streamByte data (4 * i + 3)

/-- The 521 consecutive word pairs of the state, in the order in which ExpandKey replaces
    them: pairs 0..8 are `P[2k], P[2k+1]`; pair `9 + 128 b + j` is `S_b[2j], S_b[2j+1]`. -/
def writePair (st : State) (k : Nat) (blk : Nat × Nat) : State :=
  if k < 9 then
    { st with P := (st.P.set (2 * k) blk.1).set (2 * k + 1) blk.2 }
  else
    let b := (k - 9) / 128
    let j := (k - 9) % 128
    { st with S := st.S.modify b fun box =>
        (box.setIfInBounds (2 * j) blk.1).setIfInBounds (2 * j + 1) blk.2 }

/-- one step of ExpandKey: XOR the next 64 bits of the (cyclic, 128-bit) salt into the
    running block, encrypt it with the *current* state, store it in pair `k`. -/
def expandStep (salt : List Nat) (acc : State × (Nat × Nat)) (k : Nat) : State × (Nat × Nat) :=
  let blk := (acc.2.1 ^^^ streamWord salt (2 * k), acc.2.2 ^^^ streamWord salt (2 * k + 1))
  let blk := encipher acc.1 blk
  (writePair acc.1 k blk, blk)

/-- `ExpandKey(state, salt, key)` (Provos–Mazières §3 / `Blowfish_expandstate`):
    XOR the cyclically repeated key into `P1..P18`; then, starting from the zero block,
    repeatedly XOR-in salt, encrypt, and replace the next pair of `P`, then of `S1..S4`. -/
def expandKey (st : State) (salt key : List Nat) : State :=
  let st := { st with P := st.P.mapIdx fun i p => p ^^^ streamWord key i }
  ((List.range 521).foldl (expandStep salt) (st, (0, 0))).1

/-- the 128-bit all-zero salt of `ExpandKey(state, 0, key)` (`Blowfish_expand0state`) -/
def zeroSalt : List Nat := List.replicate 16 0

/-- `f` applied `n` times -/
def iter {α : Type} (f : α → α) : Nat → α → α
  | 0, a => a
  | n + 1, a => iter f n (f a)

/-- `InitState()` as the Blowfish paper defines it: the 18 sub-keys, then the four S-boxes,
    are filled in order with the 32-bit words of the hexadecimal expansion of the fractional
    part of π (`Spec.PiDigits.piFracWords`, exact integer Machin computation). -/
def initStatePi : State :=
  let w := Spec.PiDigits.piFracWords 1042
  { P := w.take 18
    S := (((List.range 4).map fun b => (w.drop (18 + 256 * b)).take 256).map List.toArray).toArray }

/-- `InitState()` used by the executable functions below: the same tables as literals
    (`Lemmas.Blowfish.initState_eq_pi` proves `initState = initStatePi` in the kernel, so the
    literals carry no trust). -/
def initState : State :=
  { P := Gen.Blowfish.BLOWFISH_P
    S := (Gen.Blowfish.BLOWFISH_S.map List.toArray).toArray }

/-- ```
    EksBlowfishSetup(cost, salt, key)
      state ← InitState()
      state ← ExpandKey(state, salt, key)
      repeat (2^cost)
        state ← ExpandKey(state, 0, key)
        state ← ExpandKey(state, 0, salt)
      return state
    ``` -/
def eksBlowfishSetup (cost : Nat) (salt key : List Nat) : State :=
  let st := expandKey initState salt key
  iter (fun st => expandKey (expandKey st zeroSalt key) zeroSalt salt) (2 ^ cost) st

/-- "OrpheanBeholderScryDoubt" -/
def magic : List Nat := "OrpheanBeholderScryDoubt".toList.map Char.toNat

/-- the 192-bit magic value as six big-endian words -/
def ctext0 : List Nat := (List.range 6).map (streamWord magic)

/-- ECB encryption of a list of words, two words per block -/
def ecb (st : State) : List Nat → List Nat
  | l :: r :: rest => let c := encipher st (l, r); c.1 :: c.2 :: ecb st rest
  | rest => rest

/-- big-endian bytes of a 32-bit word -/
def wordBytes (w : Nat) : List Nat := [(w >>> 24) % 256, (w >>> 16) % 256, (w >>> 8) % 256, w % 256]

/-- ```
    bcrypt(cost, salt, key)
      state ← EksBlowfishSetup(cost, salt, key)
      ctext ← "OrpheanBeholderScryDoubt"
      repeat (64)  ctext ← EncryptECB(state, ctext)
    ```
    OpenBSD encodes only the first `4 * BCRYPT_WORDS - 1 = 23` bytes of the 24. -/
def bcryptRaw (cost : Nat) (salt key : List Nat) : List Nat :=
  let st := eksBlowfishSetup cost salt key
  let ct := iter (ecb st) 64 ctext0
  (ct.flatMap wordBytes).take 23

/-- The key handed to EksBlowfishSetup: for minor versions `a`, `b`, `y` the password
    *including* its terminating NUL (`key_len = strlen(key) + 1`), for the original `$2$`
    the password alone.  (The 8-bit `key_len` wrap-around of OpenBSD's `$2a$` for passwords
    of 255 bytes and more, fixed by `$2b$`, is not part of this specification: all minor
    versions use the full length, as `$2b$` does for up to 72 bytes — and bytes beyond
    the 72nd never reach the state, see `Lemmas.Blowfish.streamWord_take72`.) -/
def bcryptKey (nulTerminated : Bool) (password : List Nat) : List Nat :=
  if nulTerminated then password ++ [0] else password

/-- 23-byte bcrypt digest; `salt` = 16 bytes, `4 ≤ cost ≤ 31` -/
def bcrypt (nulTerminated : Bool) (cost : Nat) (salt password : List Nat) : List Nat :=
  bcryptRaw cost salt (bcryptKey nulTerminated password)

end Spec.Bcrypt
