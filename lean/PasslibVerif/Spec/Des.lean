/-
FIPS 46-3 (DES) transcribed independently of passlib, over `Nat`.

Conventions (FIPS style): the bits of an `n`-bit value are numbered `1..n` starting at the
MOST significant bit.  `perm x T nin` builds a `T.length`-bit value whose bit `k` is bit
`T[k]` of the `nin`-bit value `x`.  Everything is a total function; out-of-range table
indices read as the constant bit 0.

On top of plain DES (`desEncrypt`) this file defines the crypt(3) generalisation
`desCryptCore key input salt rounds`:
  * `salt` (24 bits): if bit `i` (LSB = 0) is set, bits `i+1` and `i+25` (FIPS numbering, i.e.
    counted from the MSB) of the 48-bit E output are exchanged before the key is mixed in;
  * `rounds`: the 16-round Feistel network is run `rounds` times, the two halves being
    exchanged between passes; IP is applied once before and FP once after the whole thing.
`salt = 0`, `rounds = 1` is plain DES (`desCryptCore_plain` in Props/DesEquiv.lean).
-/
namespace Spec.Des

/-! ## Tables (FIPS 46-3) -/

def IP : List Nat :=
  [58,50,42,34,26,18,10,2,60,52,44,36,28,20,12,4,62,54,46,38,30,22,14,6,64,56,48,40,32,24,16,8,
   57,49,41,33,25,17,9,1,59,51,43,35,27,19,11,3,61,53,45,37,29,21,13,5,63,55,47,39,31,23,15,7]

def FP : List Nat :=
  [40,8,48,16,56,24,64,32,39,7,47,15,55,23,63,31,38,6,46,14,54,22,62,30,37,5,45,13,53,21,61,29,
   36,4,44,12,52,20,60,28,35,3,43,11,51,19,59,27,34,2,42,10,50,18,58,26,33,1,41,9,49,17,57,25]

def E : List Nat :=
  [32,1,2,3,4,5,4,5,6,7,8,9,8,9,10,11,12,13,12,13,14,15,16,17,16,17,18,19,20,21,20,21,22,23,24,25,
   24,25,26,27,28,29,28,29,30,31,32,1]

def P : List Nat :=
  [16,7,20,21,29,12,28,17,1,15,23,26,5,18,31,10,2,8,24,14,32,27,3,9,19,13,30,6,22,11,4,25]

def PC1 : List Nat :=
  [57,49,41,33,25,17,9,1,58,50,42,34,26,18,10,2,59,51,43,35,27,19,11,3,60,52,44,36,
   63,55,47,39,31,23,15,7,62,54,46,38,30,22,14,6,61,53,45,37,29,21,13,5,28,20,12,4]

def PC2 : List Nat :=
  [14,17,11,24,1,5,3,28,15,6,21,10,23,19,12,4,26,8,16,7,27,20,13,2,
   41,52,31,37,47,55,30,40,51,45,33,48,44,49,39,56,34,53,46,42,50,36,29,32]

def SHIFTS : List Nat := [1,1,2,2,2,2,2,2,1,2,2,2,2,2,2,1]

/-- S-boxes S1..S8, each as its 4 rows of 16 written consecutively (row-major). -/
def S : List (List Nat) := [
  [14,4,13,1,2,15,11,8,3,10,6,12,5,9,0,7, 0,15,7,4,14,2,13,1,10,6,12,11,9,5,3,8,
   4,1,14,8,13,6,2,11,15,12,9,7,3,10,5,0, 15,12,8,2,4,9,1,7,5,11,3,14,10,0,6,13],
  [15,1,8,14,6,11,3,4,9,7,2,13,12,0,5,10, 3,13,4,7,15,2,8,14,12,0,1,10,6,9,11,5,
   0,14,7,11,10,4,13,1,5,8,12,6,9,3,2,15, 13,8,10,1,3,15,4,2,11,6,7,12,0,5,14,9],
  [10,0,9,14,6,3,15,5,1,13,12,7,11,4,2,8, 13,7,0,9,3,4,6,10,2,8,5,14,12,11,15,1,
   13,6,4,9,8,15,3,0,11,1,2,12,5,10,14,7, 1,10,13,0,6,9,8,7,4,15,14,3,11,5,2,12],
  [7,13,14,3,0,6,9,10,1,2,8,5,11,12,4,15, 13,8,11,5,6,15,0,3,4,7,2,12,1,10,14,9,
   10,6,9,0,12,11,7,13,15,1,3,14,5,2,8,4, 3,15,0,6,10,1,13,8,9,4,5,11,12,7,2,14],
  [2,12,4,1,7,10,11,6,8,5,3,15,13,0,14,9, 14,11,2,12,4,7,13,1,5,0,15,10,3,9,8,6,
   4,2,1,11,10,13,7,8,15,9,12,5,6,3,0,14, 11,8,12,7,1,14,2,13,6,15,0,9,10,4,5,3],
  [12,1,10,15,9,2,6,8,0,13,3,4,14,7,5,11, 10,15,4,2,7,12,9,5,6,1,13,14,0,11,3,8,
   9,14,15,5,2,8,12,3,7,0,4,10,1,13,11,6, 4,3,2,12,9,5,15,10,11,14,1,7,6,0,8,13],
  [4,11,2,14,15,0,8,13,3,12,9,7,5,10,6,1, 13,0,11,7,4,9,1,10,14,3,5,12,2,15,8,6,
   1,4,11,13,12,3,7,14,10,15,6,8,0,5,9,2, 6,11,13,8,1,4,10,7,9,5,0,15,14,2,3,12],
  [13,2,8,4,6,15,11,1,10,9,3,14,5,0,12,7, 1,15,13,8,10,3,7,4,12,5,6,11,0,14,9,2,
   7,11,4,1,9,12,14,2,0,6,10,13,15,3,5,8, 2,1,14,7,4,10,8,13,15,12,9,0,3,5,6,11]]

/-! ## Bit selection and permutation -/

/-- Bit `k` (1 = most significant, `n` = least significant) of the `n`-bit value `x`,
    as 0 or 1.  Indices outside `1..n` give 0. -/
def bit (x n k : Nat) : Nat :=
  if 1 ≤ k ∧ k ≤ n then (x >>> (n - k)) &&& 1 else 0

/-- `perm x T nin`: the `T.length`-bit value whose bit `k` is bit `T[k]` of the `nin`-bit `x`.
    (The head of `T` is the most significant output bit.) -/
def perm (x : Nat) : List Nat → Nat → Nat
  | [], _ => 0
  | t :: ts, nin => (bit x nin t <<< ts.length) ||| perm x ts nin

/-! ## Key schedule -/

/-- rotate a 28-bit value left by `s` (0 ≤ s ≤ 28) -/
def rotl28 (x s : Nat) : Nat := ((x <<< s) ||| (x >>> (28 - s))) &&& 0xFFFFFFF

/-- rotate both 28-bit halves of the 56-bit `C‖D` left by `s` -/
def rotCD (cd s : Nat) : Nat :=
  (rotl28 (cd >>> 28) s <<< 28) ||| rotl28 (cd &&& 0xFFFFFFF) s

/-- `C₁D₁, C₂D₂, …` from `C₀D₀` and the shift schedule -/
def keyStates (cd : Nat) : List Nat → List Nat
  | [] => []
  | s :: ss => rotCD cd s :: keyStates (rotCD cd s) ss

/-- the sixteen 48-bit round keys `K₁ … K₁₆` of a 64-bit key (parity bits are dropped by PC1) -/
def subkeys (key : Nat) : List Nat :=
  (keyStates (perm key PC1 64) SHIFTS).map (fun cd => perm cd PC2 56)

/-! ## The cipher function f -/

/-- S-box `j` (0-based) applied to the 6-bit value `b`:
    row = first and last bit, column = middle four bits. -/
def sbox (j b : Nat) : Nat :=
  let row := ((b >>> 5) <<< 1) ||| (b &&& 1)
  let col := (b >>> 1) &&& 15
  (S.getD j []).getD (16 * row + col) 0

/-- the `j`-th (0-based, from the MSB end) 6-bit group of a 48-bit value -/
def chunk (b48 j : Nat) : Nat := (b48 >>> (42 - 6 * j)) &&& 63

/-- concatenate 4-bit values, head most significant -/
def concat4 : List Nat → Nat
  | [] => 0
  | s :: ss => (s <<< (4 * ss.length)) ||| concat4 ss

/-- all eight S-boxes applied to a 48-bit value, giving 32 bits -/
def sboxes (b48 : Nat) : Nat :=
  concat4 ((List.range 8).map (fun j => sbox j (chunk b48 j)))

/-- reverse of the 24-bit salt: salt bit `i` (LSB = 0) becomes bit `23 - i`, which is the bit
    in FIPS position `i+1` of a 24-bit half of the E output. -/
def saltMask (salt : Nat) : Nat :=
  perm salt [24,23,22,21,20,19,18,17,16,15,14,13,12,11,10,9,8,7,6,5,4,3,2,1] 24

/-- crypt(3) salting of the 48-bit E output: for every set salt bit `i`, exchange FIPS bits
    `i+1` and `i+25` (the classic masked-xor swap of the two 24-bit halves). -/
def saltSwap (e48 salt : Nat) : Nat :=
  let m := saltMask salt
  let t := ((e48 >>> 24) ^^^ e48) &&& m
  e48 ^^^ t ^^^ (t <<< 24)

/-- salted cipher function: `P(S(saltSwap(E(r)) xor k))` -/
def feistelSalted (r k salt : Nat) : Nat :=
  perm (sboxes (saltSwap (perm r E 32) salt ^^^ k)) P 32

/-- FIPS cipher function `f(R, K) = P(S(E(R) xor K))` -/
def feistel (r k : Nat) : Nat :=
  perm (sboxes (perm r E 32 ^^^ k)) P 32

/-! ## Plain DES -/

/-- one Feistel round: `(L, R) ↦ (R, L xor f(R, K))` -/
def round (lr : Nat × Nat) (k : Nat) : Nat × Nat :=
  (lr.2, lr.1 ^^^ feistel lr.2 k)

/-- FIPS 46-3 encryption of one 64-bit block under a 64-bit key -/
def desEncrypt (key block : Nat) : Nat :=
  let x := perm block IP 64
  let lr := (subkeys key).foldl round (x >>> 32, x &&& 0xFFFFFFFF)
  -- preoutput block is R₁₆ L₁₆
  perm ((lr.2 <<< 32) ||| lr.1) FP 64

/-! ## crypt(3) generalisation -/

def roundSalted (salt : Nat) (lr : Nat × Nat) (k : Nat) : Nat × Nat :=
  (lr.2, lr.1 ^^^ feistelSalted lr.2 k salt)

/-- sixteen rounds followed by the exchange of the halves -/
def pass16 (ks : List Nat) (salt : Nat) (lr : Nat × Nat) : Nat × Nat :=
  let lr' := ks.foldl (roundSalted salt) lr
  (lr'.2, lr'.1)

/-- `n` passes -/
def passes (ks : List Nat) (salt : Nat) : Nat → Nat × Nat → Nat × Nat
  | 0, lr => lr
  | n + 1, lr => passes ks salt n (pass16 ks salt lr)

/-- DES with a 24-bit crypt(3) salt and `rounds` full passes. -/
def desCryptCore (key input salt rounds : Nat) : Nat :=
  let x := perm input IP 64
  let lr := passes (subkeys key) salt rounds (x >>> 32, x &&& 0xFFFFFFFF)
  perm ((lr.1 <<< 32) ||| lr.2) FP 64

end Spec.Des
