/-
  SHA-256 and SHA-224, transcribed from FIPS 180-4 (Secure Hash Standard).

  Bytes are `List Nat` (every element < 256).  Internally words are `UInt32`
  (addition is mod 2^32, FIPS 180-4 §2.2.2) and the message schedule is an
  `Array UInt32`, so the definitions compile to fast native code.
  Everything is total: structural recursion and folds only.
-/
namespace Spec.SHA256

/-! ### §2.2.2 / §3.2  operations on 32-bit words -/

/-- §3.2 (4): ROTR^n(x) = (x >> n) ∨ (x << (32 - n)), for 0 < n < 32. -/
@[inline] def rotr (x n : UInt32) : UInt32 := (x >>> n) ||| (x <<< (32 - n))

/-- §3.2 (3): SHR^n(x) = x >> n. -/
@[inline] def shr (x n : UInt32) : UInt32 := x >>> n

/-! ### §4.1.2  SHA-224 and SHA-256 functions -/

/-- (4.2) -/
@[inline] def Ch (x y z : UInt32) : UInt32 := (x &&& y) ^^^ (~~~x &&& z)
/-- (4.3) -/
@[inline] def Maj (x y z : UInt32) : UInt32 := (x &&& y) ^^^ (x &&& z) ^^^ (y &&& z)
/-- (4.4) Σ₀ -/
@[inline] def bigSigma0 (x : UInt32) : UInt32 := rotr x 2 ^^^ rotr x 13 ^^^ rotr x 22
/-- (4.5) Σ₁ -/
@[inline] def bigSigma1 (x : UInt32) : UInt32 := rotr x 6 ^^^ rotr x 11 ^^^ rotr x 25
/-- (4.6) σ₀ -/
@[inline] def smallSigma0 (x : UInt32) : UInt32 := rotr x 7 ^^^ rotr x 18 ^^^ shr x 3
/-- (4.7) σ₁ -/
@[inline] def smallSigma1 (x : UInt32) : UInt32 := rotr x 17 ^^^ rotr x 19 ^^^ shr x 10

/-! ### §4.2.2  SHA-224 and SHA-256 constants -/

/-- K₀ … K₆₃: first 32 bits of the fractional parts of the cube roots of the first 64 primes. -/
def K : Array UInt32 := #[
    0x428a2f98, 0x71374491, 0xb5c0fbcf, 0xe9b5dba5, 0x3956c25b, 0x59f111f1, 0x923f82a4, 0xab1c5ed5,
    0xd807aa98, 0x12835b01, 0x243185be, 0x550c7dc3, 0x72be5d74, 0x80deb1fe, 0x9bdc06a7, 0xc19bf174,
    0xe49b69c1, 0xefbe4786, 0x0fc19dc6, 0x240ca1cc, 0x2de92c6f, 0x4a7484aa, 0x5cb0a9dc, 0x76f988da,
    0x983e5152, 0xa831c66d, 0xb00327c8, 0xbf597fc7, 0xc6e00bf3, 0xd5a79147, 0x06ca6351, 0x14292967,
    0x27b70a85, 0x2e1b2138, 0x4d2c6dfc, 0x53380d13, 0x650a7354, 0x766a0abb, 0x81c2c92e, 0x92722c85,
    0xa2bfe8a1, 0xa81a664b, 0xc24b8b70, 0xc76c51a3, 0xd192e819, 0xd6990624, 0xf40e3585, 0x106aa070,
    0x19a4c116, 0x1e376c08, 0x2748774c, 0x34b0bcb5, 0x391c0cb3, 0x4ed8aa4a, 0x5b9cca4f, 0x682e6ff3,
    0x748f82ee, 0x78a5636f, 0x84c87814, 0x8cc70208, 0x90befffa, 0xa4506ceb, 0xbef9a3f7, 0xc67178f2]

/-! ### §5.3  initial hash values -/

/-- §5.3.3  H⁽⁰⁾ for SHA-256. -/
def H0_256 : Array UInt32 := #[
    0x6a09e667, 0xbb67ae85, 0x3c6ef372, 0xa54ff53a, 0x510e527f, 0x9b05688c, 0x1f83d9ab, 0x5be0cd19]

/-- §5.3.2  H⁽⁰⁾ for SHA-224. -/
def H0_224 : Array UInt32 := #[
    0xc1059ed8, 0x367cd507, 0x3070dd17, 0xf70e5939, 0xffc00b31, 0x68581511, 0x64f98fa7, 0xbefa4fa4]

/-! ### §5.1.1  padding, §5.2.1 parsing -/

/-- The 64-bit big-endian representation of `n` (mod 2^64), as 8 bytes. -/
def be64 (n : Nat) : List Nat :=
  [7, 6, 5, 4, 3, 2, 1, 0].map fun i => (n >>> (8 * i)) % 256

/-- §5.1.1: append the bit "1", then k zero bits with ℓ + 1 + k ≡ 448 (mod 512),
    then ℓ as a 64-bit big-endian integer (ℓ = message length in bits).
    In bytes: 0x80, then `(119 - len % 64) % 64` zero bytes, then 8 length bytes. -/
def pad (msg : List Nat) : List Nat :=
  let len := msg.length
  msg ++ [0x80] ++ List.replicate ((119 - len % 64) % 64) 0 ++ be64 (8 * len)

/-- Big-endian bytes → 32-bit words (§3.1 (2)); the length is a multiple of 4 after padding. -/
def toWords : List Nat → Array UInt32 → Array UInt32
  | a :: b :: c :: d :: rest, acc =>
      toWords rest (acc.push
        ((a.toUInt8.toUInt32 <<< 24) ||| (b.toUInt8.toUInt32 <<< 16) |||
         (c.toUInt8.toUInt32 <<< 8) ||| d.toUInt8.toUInt32))
  | _, acc => acc

/-- §5.2.1: parse the padded message into N 512-bit blocks M⁽¹⁾ … M⁽ᴺ⁾ of sixteen words. -/
def blocks (ws : Array UInt32) : List (Array UInt32) :=
  (List.range (ws.size / 16)).map fun i => ws.extract (16 * i) (16 * i + 16)

/-- 32-bit words → big-endian bytes. -/
def fromWords (ws : List UInt32) : List Nat :=
  ws.flatMap fun (w : UInt32) =>
    [(w >>> 24).toUInt8.toNat, (w >>> 16).toUInt8.toNat, (w >>> 8).toUInt8.toNat, w.toUInt8.toNat]

/-! ### §6.2.2  SHA-256 hash computation -/

/-- Step 1: prepare the message schedule W₀ … W₆₃:
    Wₜ = Mₜ for 0 ≤ t ≤ 15, Wₜ = σ₁(Wₜ₋₂) + Wₜ₋₇ + σ₀(Wₜ₋₁₅) + Wₜ₋₁₆ for 16 ≤ t ≤ 63. -/
def schedule (M : Array UInt32) : Array UInt32 :=
  (List.range' 16 48).foldl
    (fun W t => W.push (smallSigma1 W[t - 2]! + W[t - 7]! + smallSigma0 W[t - 15]! + W[t - 16]!))
    M

/-- The eight working variables a … h. -/
structure Vars where
  a : UInt32
  b : UInt32
  c : UInt32
  d : UInt32
  e : UInt32
  f : UInt32
  g : UInt32
  h : UInt32

/-- Step 3, one iteration t. -/
@[inline] def round (W : Array UInt32) (v : Vars) (t : Nat) : Vars :=
  let T1 := v.h + bigSigma1 v.e + Ch v.e v.f v.g + K[t]! + W[t]!
  let T2 := bigSigma0 v.a + Maj v.a v.b v.c
  { h := v.g, g := v.f, f := v.e, e := v.d + T1, d := v.c, c := v.b, b := v.a, a := T1 + T2 }

/-- Steps 1–4 for one block: H⁽ⁱ⁾ from H⁽ⁱ⁻¹⁾ and M⁽ⁱ⁾. -/
def compress (H M : Array UInt32) : Array UInt32 :=
  let W := schedule M
  -- Step 2: initialise the working variables with H⁽ⁱ⁻¹⁾
  let v0 : Vars :=
    { a := H[0]!, b := H[1]!, c := H[2]!, d := H[3]!, e := H[4]!, f := H[5]!, g := H[6]!, h := H[7]! }
  -- Step 3: for t = 0 to 63
  let v := (List.range 64).foldl (round W) v0
  -- Step 4: the i-th intermediate hash value
  #[v.a + H[0]!, v.b + H[1]!, v.c + H[2]!, v.d + H[3]!,
    v.e + H[4]!, v.f + H[5]!, v.g + H[6]!, v.h + H[7]!]

/-- H⁽ᴺ⁾: fold the compression function over the blocks of the padded message. -/
def hashBlocks (H0 : Array UInt32) (msg : List Nat) : Array UInt32 :=
  (blocks (toWords (pad msg) #[])).foldl compress H0

/-- §6.2: SHA-256; the digest is H₀⁽ᴺ⁾ ‖ … ‖ H₇⁽ᴺ⁾ (32 bytes). -/
def sha256 (msg : List Nat) : List Nat :=
  fromWords (hashBlocks H0_256 msg).toList

/-- §6.3: SHA-224 = SHA-256 with the §5.3.2 initial value, truncated to the left-most 224 bits. -/
def sha224 (msg : List Nat) : List Nat :=
  (fromWords (hashBlocks H0_224 msg).toList).take 28

/-! ### known answers (FIPS 180-4 examples / NIST CAVP) -/

/-- Lower-case hex rendering, for the checks below only. -/
private def hex (bs : List Nat) : String :=
  String.ofList (bs.flatMap fun b => [Nat.digitChar (b / 16), Nat.digitChar (b % 16)])

-- "abc"
example : sha256 [0x61, 0x62, 0x63] =
    [0xba, 0x78, 0x16, 0xbf, 0x8f, 0x01, 0xcf, 0xea, 0x41, 0x41, 0x40, 0xde, 0x5d, 0xae, 0x22, 0x23,
     0xb0, 0x03, 0x61, 0xa3, 0x96, 0x17, 0x7a, 0x9c, 0xb4, 0x10, 0xff, 0x61, 0xf2, 0x00, 0x15, 0xad] := by
  decide +kernel

#guard hex (sha256 []) = "e3b0c44298fc1c149afbf4c8996fb92427ae41e4649b934ca495991b7852b855"
#guard hex (sha256 ("abcdbcdecdefdefgefghfghighijhijkijkljklmklmnlmnomnopnopq".toList.map Char.toNat)) =
  "248d6a61d20638b8e5c026930c3e6039a33ce45964ff2167f6ecedd419db06c1"
#guard hex (sha224 [0x61, 0x62, 0x63]) = "23097d223405d8228642a477bda255b32aadbce4bda0b3f7e36c9da7"
#guard (sha256 (List.replicate 300 0xff)).all (· < 256)

end Spec.SHA256
