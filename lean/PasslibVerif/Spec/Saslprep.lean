import PasslibVerif.Py.Basic
/-
SASLprep — RFC 4013 — read directly over RFC 3454 (stringprep) §§3–6.  Written from the RFCs, not from passlib.

A text is its list of code points.  The RFC 3454 appendix tables are a PARAMETER (`Rfc3454`): they are far too long to
transcribe by hand and are supplied by the interpreter's `stringprep` module (reflected into `Gen.Saslprep`); a few members the RFC
lists explicitly are checked in `Props/C11Saslprep.lean`.  Unicode normalisation form KC is a parameter as well (`nfkc`).

RFC 4013 §2:
  2.1 Mapping        non-ASCII space characters [StringPrep, C.1.2] are mapped to SPACE (U+0020);
                     the "commonly mapped to nothing" characters [StringPrep, B.1] are mapped to nothing.
  2.2 Normalization  form KC.
  2.3 Prohibited     C.1.2, C.2.1, C.2.2, C.3, C.4, C.5, C.6, C.7, C.8, C.9.
  2.4 Bidirectional  [StringPrep, Section 6].
  2.5 Unassigned     [StringPrep, A.1]; "stored strings" MUST NOT contain them (RFC 3454 §7) — a password that is hashed is a
                     stored string.
RFC 3454 §6:  1) the characters of C.8 MUST be prohibited;  2) if a string contains any RandALCat character (D.1), the string
  MUST NOT contain any LCat character (D.2);  3) if a string contains any RandALCat character, a RandALCat character MUST be the
  first character of the string, and a RandALCat character MUST be the last character of the string.
RFC 3454 §3/§7 order of the steps: map, normalize, prohibit, check bidi.

U+200B ZERO WIDTH SPACE is listed in BOTH B.1 and C.1.2 of RFC 3454, and RFC 4013 does not say which mapping wins for it.
`mapChar` gives B.1 precedence (the character disappears); `mapCharAlt` is the other reading (it becomes a SPACE).  The two
differ on U+200B only (`Props.C11Saslprep.b1_c12_inter`).
-/
namespace Spec.Saslprep
open Py

/-- an appendix table of RFC 3454: inclusive code-point ranges -/
abbrev Table := List (Nat × Nat)

/-- the appendix tables SASLprep refers to (`c21_c22` = C.2.1 ∪ C.2.2, the granularity of the supplier) -/
structure Rfc3454 where
  a1 : Table
  b1 : Table
  c12 : Table
  c21_c22 : Table
  c3 : Table
  c4 : Table
  c5 : Table
  c6 : Table
  c7 : Table
  c8 : Table
  c9 : Table
  d1 : Table
  d2 : Table

/-- c is listed in the table -/
def member (t : Table) (c : Nat) : Bool := t.any fun r => r.1 ≤ c && c ≤ r.2

variable (T : Rfc3454)

/-- §2.1, B.1 first -/
def mapChar (c : Nat) : List Nat :=
  if member T.b1 c then [] else if member T.c12 c then [0x20] else [c]

/-- §2.1, C.1.2 first (the other reading for U+200B) -/
def mapCharAlt (c : Nat) : List Nat :=
  if member T.c12 c then [0x20] else if member T.b1 c then [] else [c]

/-- §2.3 + §2.5 (stored string) -/
def prohibited (c : Nat) : Bool :=
  member T.c12 c || member T.c21_c22 c || member T.c3 c || member T.c4 c || member T.c5 c || member T.c6 c ||
  member T.c7 c || member T.c8 c || member T.c9 c || member T.a1 c

/-- RFC 3454 §6, requirements 2 and 3 (requirement 1 is part of `prohibited`) -/
def bidiOk (s : List Nat) : Bool :=
  if s.any (member T.d1) then
    !s.any (member T.d2) &&
    (match s.head? with | some f => member T.d1 f | none => false) &&
    (match s.getLast? with | some l => member T.d1 l | none => false)
  else true

/-- the profile with a given mapping step -/
def saslprepWith (mp : Nat → List Nat) (nfkc : List Nat → List Nat) (s : List Nat) : Res (List Nat) :=
  let out := nfkc (s.flatMap mp)
  if out.any (prohibited T) then .error .valueError
  else if !bidiOk T out then .error .valueError
  else .ok out

def saslprep (nfkc : List Nat → List Nat) (s : List Nat) : Res (List Nat) := saslprepWith T (mapChar T) nfkc s

def saslprepAlt (nfkc : List Nat → List Nat) (s : List Nat) : Res (List Nat) := saslprepWith T (mapCharAlt T) nfkc s

end Spec.Saslprep
