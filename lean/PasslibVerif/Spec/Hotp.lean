/-
RFC 4226 §5.3 (dynamic truncation) and RFC 6238 §4 (T = floor((now - T0)/X), T0 = 0),
transcribed independently of passlib.
-/
namespace Spec.Hotp

/-- DT(String): offset = low-order 4 bits of the last byte; P = String[offset .. offset+3];
    return the last 31 bits of P (big-endian) -/
def dt (digest : List Nat) : Option Nat :=
  match digest.getLast? with
  | none => none
  | some last =>
    let off := last % 16
    match digest.drop off with
    | p0 :: p1 :: p2 :: p3 :: _ => some ((p0 % 128) * 16777216 + p1 * 65536 + p2 * 256 + p3)
    | _ => none

/-- HOTP value = DT mod 10^Digit -/
def hotp (digest : List Nat) (digits : Nat) : Option Nat := (dt digest).map (· % 10 ^ digits)

/-- TOTP time step -/
def timeStep (t x : Int) : Int := t / x     -- Euclidean division = floor for x > 0

end Spec.Hotp
