/-
  MD5, transcribed from RFC 1321 (The MD5 Message-Digest Algorithm).

  Bytes are `List Nat` (every element < 256).  Internally words are `UInt32`
  ("+" is addition mod 2^32, RFC 1321 §2) and a block is an `Array UInt32`.
  Everything is total: structural recursion and folds only.
-/
namespace Spec.MD5

/-- §2: X <<< s, the 32-bit value obtained by circularly shifting X left by s bits (0 < s < 32). -/
@[inline] def rotl (x s : UInt32) : UInt32 := (x <<< s) ||| (x >>> (32 - s))

/-! ### §3.1 / §3.2  append padding bits and length -/

/-- The low-order 64 bits of `n`, least significant byte first (§3.2: low-order word first,
    §2: low-order byte first within a word). -/
def le64 (n : Nat) : List Nat :=
  [0, 1, 2, 3, 4, 5, 6, 7].map fun i => (n >>> (8 * i)) % 256

/-- §3.1: a single "1" bit, then "0" bits until the length is congruent to 448 mod 512;
    §3.2: then the 64-bit representation of the length in bits before padding.
    In bytes: 0x80, then `(119 - len % 64) % 64` zero bytes, then 8 length bytes. -/
def pad (msg : List Nat) : List Nat :=
  let len := msg.length
  msg ++ [0x80] ++ List.replicate ((119 - len % 64) % 64) 0 ++ le64 (8 * len)

/-- §2: a sequence of bytes is a sequence of 32-bit words, each group of four bytes being one
    word with the low-order byte given first. -/
def toWords : List Nat → Array UInt32 → Array UInt32
  | a :: b :: c :: d :: rest, acc =>
      toWords rest (acc.push
        (a.toUInt8.toUInt32 ||| (b.toUInt8.toUInt32 <<< 8) |||
         (c.toUInt8.toUInt32 <<< 16) ||| (d.toUInt8.toUInt32 <<< 24)))
  | _, acc => acc

/-- §3.4: "Process each 16-word block": the blocks X of the padded message M[0 … N-1]. -/
def blocks (ws : Array UInt32) : List (Array UInt32) :=
  (List.range (ws.size / 16)).map fun i => ws.extract (16 * i) (16 * i + 16)

/-- 32-bit words → bytes, low-order byte first (§3.5). -/
def fromWords (ws : List UInt32) : List Nat :=
  ws.flatMap fun (w : UInt32) =>
    [w.toUInt8.toNat, (w >>> 8).toUInt8.toNat, (w >>> 16).toUInt8.toNat, (w >>> 24).toUInt8.toNat]

/-! ### §3.3  initialise MD buffer -/

/-- A, B, C, D (given in the RFC as low-order bytes first: 01 23 45 67, 89 ab cd ef, …). -/
def init : Array UInt32 := #[0x67452301, 0xefcdab89, 0x98badcfe, 0x10325476]

/-! ### §3.4  process message in 16-word blocks -/

@[inline] def F (x y z : UInt32) : UInt32 := (x &&& y) ||| (~~~x &&& z)
@[inline] def G (x y z : UInt32) : UInt32 := (x &&& z) ||| (y &&& ~~~z)
@[inline] def H (x y z : UInt32) : UInt32 := x ^^^ y ^^^ z
@[inline] def I (x y z : UInt32) : UInt32 := y ^^^ (x ||| ~~~z)

/-- The table T[1 … 64] (here 0-indexed): T[i] = ⌊4294967296 · |sin i|⌋, i in radians. -/
def T : Array UInt32 := #[
    0xd76aa478, 0xe8c7b756, 0x242070db, 0xc1bdceee, 0xf57c0faf, 0x4787c62a, 0xa8304613, 0xfd469501,
    0x698098d8, 0x8b44f7af, 0xffff5bb1, 0x895cd7be, 0x6b901122, 0xfd987193, 0xa679438e, 0x49b40821,
    0xf61e2562, 0xc040b340, 0x265e5a51, 0xe9b6c7aa, 0xd62f105d, 0x02441453, 0xd8a1e681, 0xe7d3fbc8,
    0x21e1cde6, 0xc33707d6, 0xf4d50d87, 0x455a14ed, 0xa9e3e905, 0xfcefa3f8, 0x676f02d9, 0x8d2a4c8a,
    0xfffa3942, 0x8771f681, 0x6d9d6122, 0xfde5380c, 0xa4beea44, 0x4bdecfa9, 0xf6bb4b60, 0xbebfbc70,
    0x289b7ec6, 0xeaa127fa, 0xd4ef3085, 0x04881d05, 0xd9d4d039, 0xe6db99e5, 0x1fa27cf8, 0xc4ac5665,
    0xf4292244, 0x432aff97, 0xab9423a7, 0xfc93a039, 0x655b59c3, 0x8f0ccc92, 0xffeff47d, 0x85845dd1,
    0x6fa87e4f, 0xfe2ce6e0, 0xa3014314, 0x4e0811a1, 0xf7537e82, 0xbd3af235, 0x2ad7d2bb, 0xeb86d391]

/-- The `k` column of the 64 operations `[abcd k s i]` (index into the block X). -/
def kTab : Array Nat := #[
    0, 1, 2, 3, 4, 5, 6, 7, 8, 9, 10, 11, 12, 13, 14, 15,     -- Round 1
    1, 6, 11, 0, 5, 10, 15, 4, 9, 14, 3, 8, 13, 2, 7, 12,     -- Round 2
    5, 8, 11, 14, 1, 4, 7, 10, 13, 0, 3, 6, 9, 12, 15, 2,     -- Round 3
    0, 7, 14, 5, 12, 3, 10, 1, 8, 15, 6, 13, 4, 11, 2, 9]     -- Round 4

/-- The `s` column of the 64 operations `[abcd k s i]` (rotation amount). -/
def sTab : Array UInt32 := #[
    7, 12, 17, 22, 7, 12, 17, 22, 7, 12, 17, 22, 7, 12, 17, 22,   -- Round 1
    5, 9, 14, 20, 5, 9, 14, 20, 5, 9, 14, 20, 5, 9, 14, 20,       -- Round 2
    4, 11, 16, 23, 4, 11, 16, 23, 4, 11, 16, 23, 4, 11, 16, 23,   -- Round 3
    6, 10, 15, 21, 6, 10, 15, 21, 6, 10, 15, 21, 6, 10, 15, 21]   -- Round 4

/-- The auxiliary function used by operation number `i` (0-indexed): F, G, H, I in rounds 1–4. -/
@[inline] def aux (i : Nat) (x y z : UInt32) : UInt32 :=
  if i < 16 then F x y z
  else if i < 32 then G x y z
  else if i < 48 then H x y z
  else I x y z

/-- The four registers, in the role order of the current operation `[abcd …]`. -/
structure Regs where
  a : UInt32
  b : UInt32
  c : UInt32
  d : UInt32

/-- Operation `[abcd k s i]`: a = b + ((a + aux(b,c,d) + X[k] + T[i]) <<< s).
    The next operation in the RFC is `[dabc …]`, then `[cdab …]`, `[bcda …]`, `[abcd …]`:
    the roles rotate, which is expressed here by rotating the record. -/
@[inline] def step (X : Array UInt32) (r : Regs) (i : Nat) : Regs :=
  let a' := r.b + rotl (r.a + aux i r.b r.c r.d + X[kTab[i]!]! + T[i]!) sTab[i]!
  { a := r.d, b := a', c := r.b, d := r.c }

/-- §3.4 for one block X: save A B C D as AA BB CC DD, do the 64 operations, add back. -/
def compress (S X : Array UInt32) : Array UInt32 :=
  let r0 : Regs := { a := S[0]!, b := S[1]!, c := S[2]!, d := S[3]! }
  let r := (List.range 64).foldl (step X) r0
  #[S[0]! + r.a, S[1]! + r.b, S[2]! + r.c, S[3]! + r.d]

/-- §3.5: the message digest is A, B, C, D, beginning with the low-order byte of A. -/
def md5 (msg : List Nat) : List Nat :=
  fromWords ((blocks (toWords (pad msg) #[])).foldl compress init).toList

/-! ### known answers (RFC 1321 §A.5 test suite) -/

/-- Lower-case hex rendering, for the checks below only. -/
private def hex (bs : List Nat) : String :=
  String.ofList (bs.flatMap fun b => [Nat.digitChar (b / 16), Nat.digitChar (b % 16)])

-- MD5 ("abc") = 900150983cd24fb0d6963f7d28e17f72
example : md5 [0x61, 0x62, 0x63] =
    [0x90, 0x01, 0x50, 0x98, 0x3c, 0xd2, 0x4f, 0xb0, 0xd6, 0x96, 0x3f, 0x7d, 0x28, 0xe1, 0x7f, 0x72] := by
  decide +kernel

#guard hex (md5 []) = "d41d8cd98f00b204e9800998ecf8427e"
#guard hex (md5 ("a".toList.map Char.toNat)) = "0cc175b9c0f1b6a831c399e269772661"
#guard hex (md5 ("message digest".toList.map Char.toNat)) = "f96b697d7cb7938d525a2f31aaf161d0"
#guard hex (md5 ("abcdefghijklmnopqrstuvwxyz".toList.map Char.toNat)) = "c3fcd3d76192e4007dfb496cca67e13b"
#guard hex (md5 ("ABCDEFGHIJKLMNOPQRSTUVWXYZabcdefghijklmnopqrstuvwxyz0123456789".toList.map Char.toNat)) =
  "d174ab98d277d9f5a5611c2c9f419d9f"
#guard hex (md5 (("1234567890123456789012345678901234567890" ++
    "1234567890123456789012345678901234567890").toList.map Char.toNat)) = "57edf4a22be3c955ac49da2e2107b67a"
#guard (md5 (List.replicate 300 0xff)).all (· < 256)

end Spec.MD5
