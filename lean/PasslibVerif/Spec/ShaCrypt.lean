/-
  "Unix crypt using SHA-256 and SHA-512" (U. Drepper, SHA-crypt.txt, version 0.6), steps 1–22,
  transcribed step by step; and PHK's MD5-crypt (FreeBSD `crypt-md5.c`), transcribed statement by statement.
  The digest function is a parameter `H : Bytes → Bytes`, so that the same text is the specification
  for SHA-256 (`H = Spec.SHA256.sha256`) and SHA-512 (`H = Spec.SHA512.sha512`) and theorems about the
  control structure hold for every digest.

  Nothing in this file is taken from passlib: the round loop is the specification's naive loop, the output
  order is the list of `b64_from_24bit` calls of the reference implementation.
-/
namespace Spec.ShaCrypt

abbrev Bytes := List Nat

/-- "For each block of 32 or 64 bytes of length of the password string the entire digest B is added …
    For the remaining N bytes of the password string add the first N bytes of digest B" (steps 9, 10;
    16 a/b; 20 a/b) -/
def blocksOf (d : Bytes) (n : Nat) : Bytes :=
  (List.replicate (n / d.length) d).flatten ++ d.take (n % d.length)

/-- step 11: "For each bit of the binary representation of the length of the password string up to and
    including the highest 1-digit, starting from to lowest bit position (numeric value 1):
    a) for a 1-digit add digest B  b) for a 0-digit add the password string" -/
def bitsOfLength (one zero : Bytes) : Nat → Bytes
  | 0 => []
  | n + 1 => (if (n + 1) % 2 = 1 then one else zero) ++ bitsOfLength one zero ((n + 1) / 2)
decreasing_by omega

/-- steps 4–8: digest B = H(password ‖ salt ‖ password) -/
def digestB (H : Bytes → Bytes) (pwd salt : Bytes) : Bytes := H (pwd ++ salt ++ pwd)

/-- steps 1–3, 9–12: digest A -/
def digestA (H : Bytes → Bytes) (pwd salt : Bytes) : Bytes :=
  let B := digestB H pwd salt
  H (pwd ++ salt ++ blocksOf B pwd.length ++ bitsOfLength B pwd pwd.length)

/-- steps 13–15: digest DP = H(password repeated once for every byte of the password) -/
def digestDP (H : Bytes → Bytes) (pwd : Bytes) : Bytes := H (List.replicate pwd.length pwd).flatten

/-- step 16: sequence P -/
def seqP (H : Bytes → Bytes) (pwd : Bytes) : Bytes := blocksOf (digestDP H pwd) pwd.length

/-- steps 17–19: digest DS = H(salt repeated 16 + A[0] times) -/
def digestDS (H : Bytes → Bytes) (salt A : Bytes) : Bytes := H (List.replicate (16 + A.getD 0 0) salt).flatten

/-- step 20: sequence S -/
def seqS (H : Bytes → Bytes) (salt A : Bytes) : Bytes := blocksOf (digestDS H salt A) salt.length

/-- step 21 a–h, one round:
    b) for odd round numbers add the byte sequence P  c) for even round numbers add digest A/C
    d) for all round numbers not divisible by 3 add the byte sequence S
    e) for all round numbers not divisible by 7 add the byte sequence P
    f) for odd round numbers add digest A/C  g) for even round numbers add the byte sequence P -/
def round (H : Bytes → Bytes) (P S : Bytes) (i : Nat) (C : Bytes) : Bytes :=
  H ((if i % 2 = 1 then P else C) ++ (if i % 3 ≠ 0 then S else []) ++
     (if i % 7 ≠ 0 then P else []) ++ (if i % 2 = 1 then C else P))

/-- step 21: "repeat a loop according to the number specified in the rounds=<N> specification …
    starting at 0 up to N-1" -/
def loop (H : Bytes → Bytes) (P S : Bytes) : Nat → Nat → Bytes → Bytes
  | 0, _, C => C
  | n + 1, i, C => loop H P S n (i + 1) (round H P S i C)

/-- the final digest C of steps 1–21 -/
def digestC (H : Bytes → Bytes) (pwd salt : Bytes) (rounds : Nat) : Bytes :=
  let A := digestA H pwd salt
  loop H (seqP H pwd) (seqS H salt A) rounds 0 A

/-! ### step 22: the output alphabet and byte order -/

/-- `./0123456789ABCDEFGHIJKLMNOPQRSTUVWXYZabcdefghijklmnopqrstuvwxyz` -/
def itoa64 : List Nat :=
  [46, 47] ++ (List.range 10).map (· + 48) ++ (List.range 26).map (· + 65) ++ (List.range 26).map (· + 97)

/-- `b64_from_24bit(B2, B1, B0, N)`: `w = (B2 << 16) | (B1 << 8) | B0; while (n-- > 0) { *cp++ = b64t[w & 0x3f]; w >>= 6; }` -/
def emit (w : Nat) : Nat → List Nat
  | 0 => []
  | n + 1 => itoa64.getD (w % 64) 0 :: emit (w / 64) n

def b64From24 (b2 b1 b0 n : Nat) : List Nat := emit (b2 * 65536 + b1 * 256 + b0) n

/-- SHA-256: the eleven `b64_from_24bit` calls of the reference implementation, as (B2, B1, B0) indices into the digest -/
def order256 : List (Nat × Nat × Nat) :=
  [(0, 10, 20), (21, 1, 11), (12, 22, 2), (3, 13, 23), (24, 4, 14), (15, 25, 5), (6, 16, 26), (27, 7, 17),
   (18, 28, 8), (9, 19, 29)]

def encode256 (r : Nat → Nat) : List Nat :=
  (order256.map fun (a, b, c) => b64From24 (r a) (r b) (r c) 4).flatten ++ b64From24 0 (r 31) (r 30) 3

/-- SHA-512: the twenty-two calls -/
def order512 : List (Nat × Nat × Nat) :=
  [(0, 21, 42), (22, 43, 1), (44, 2, 23), (3, 24, 45), (25, 46, 4), (47, 5, 26), (6, 27, 48), (28, 49, 7),
   (50, 8, 29), (9, 30, 51), (31, 52, 10), (53, 11, 32), (12, 33, 54), (34, 55, 13), (56, 14, 35), (15, 36, 57),
   (37, 58, 16), (59, 17, 38), (18, 39, 60), (40, 61, 19), (62, 20, 41)]

def encode512 (r : Nat → Nat) : List Nat :=
  (order512.map fun (a, b, c) => b64From24 (r a) (r b) (r c) 4).flatten ++ b64From24 0 0 (r 63) 2

/-- the checksum part of a `$5$` hash -/
def sha256Crypt (H : Bytes → Bytes) (pwd salt : Bytes) (rounds : Nat) : List Nat :=
  let C := digestC H pwd salt rounds
  encode256 (fun i => C.getD i 0)

/-- the checksum part of a `$6$` hash -/
def sha512Crypt (H : Bytes → Bytes) (pwd salt : Bytes) (rounds : Nat) : List Nat :=
  let C := digestC H pwd salt rounds
  encode512 (fun i => C.getD i 0)

end Spec.ShaCrypt

namespace Spec.Md5Crypt
open Spec.ShaCrypt (Bytes itoa64 emit b64From24)

/-- `for (pl = strlen(pw); pl > 0; pl -= MD5_SIZE) MD5Update(&ctx, final, pl > MD5_SIZE ? MD5_SIZE : pl);` -/
def finalBlocks (fin : Bytes) : Nat → Nat → Bytes
  | 0, _ => []
  | fuel + 1, pl => if pl = 0 then [] else fin.take (min pl 16) ++ finalBlocks fin fuel (pl - 16)

/-- `for (i = strlen(pw); i; i >>= 1) if (i & 1) MD5Update(&ctx, final(=zeroed), 1); else MD5Update(&ctx, pw, 1);` -/
def weirdBits (pw : Bytes) : Nat → Bytes
  | 0 => []
  | n + 1 => (if (n + 1) % 2 = 1 then [0] else pw.take 1) ++ weirdBits pw ((n + 1) / 2)
decreasing_by omega

/-- one of the 1000 rounds:
    `if (i & 1) pw else final; if (i % 3) salt; if (i % 7) pw; if (i & 1) final else pw` -/
def round (H : Bytes → Bytes) (pw salt : Bytes) (i : Nat) (fin : Bytes) : Bytes :=
  H ((if i % 2 = 1 then pw else fin) ++ (if i % 3 ≠ 0 then salt else []) ++
     (if i % 7 ≠ 0 then pw else []) ++ (if i % 2 = 1 then fin else pw))

def loop (H : Bytes → Bytes) (pw salt : Bytes) : Nat → Nat → Bytes → Bytes
  | 0, _, C => C
  | n + 1, i, C => loop H pw salt n (i + 1) (round H pw salt i C)

/-- the final MD5 value after the 1000 rounds; `magic` is `$1$` (or `$apr1$` for the Apache variant) -/
def digest (H : Bytes → Bytes) (magic pw salt : Bytes) : Bytes :=
  let fin := H (pw ++ salt ++ pw)
  let A := H (pw ++ magic ++ salt ++ finalBlocks fin pw.length pw.length ++ weirdBits pw pw.length)
  loop H pw salt 1000 0 A

/-- `l = (final[0]<<16) | (final[6]<<8) | final[12]; to64(p, l, 4)` … `l = final[11]; to64(p, l, 2)` -/
def order : List (Nat × Nat × Nat) := [(0, 6, 12), (1, 7, 13), (2, 8, 14), (3, 9, 15), (4, 10, 5)]

def encode (r : Nat → Nat) : List Nat :=
  (order.map fun (a, b, c) => b64From24 (r a) (r b) (r c) 4).flatten ++ b64From24 0 0 (r 11) 2

def md5Crypt (H : Bytes → Bytes) (magic pw salt : Bytes) : List Nat :=
  let C := digest H magic pw salt
  encode (fun i => C.getD i 0)

end Spec.Md5Crypt
