/-
  MD4, transcribed from RFC 1320 (The MD4 Message-Digest Algorithm).

  Bytes are `List Nat` (every element < 256).  Internally words are `UInt32`
  ("+" is addition mod 2^32, RFC 1320 §2) and a block is an `Array UInt32`.
  Everything is total: structural recursion and folds only.
-/
namespace Spec.MD4

/-- §2: X <<< s, the 32-bit value obtained by circularly shifting X left by s bits (0 < s < 32). -/
@[inline] def rotl (x s : UInt32) : UInt32 := (x <<< s) ||| (x >>> (32 - s))

/-! ### §3.1 / §3.2  append padding bits and length -/

/-- The low-order 64 bits of `n`, least significant byte first (§3.2: low-order word first,
    §2: low-order byte first within a word). -/
def le64 (n : Nat) : List Nat :=
  [0, 1, 2, 3, 4, 5, 6, 7].map fun i => (n >>> (8 * i)) % 256

/-- §3.1: a single "1" bit, then "0" bits until the length is congruent to 448 mod 512;
    §3.2: then the 64-bit representation of the length in bits before padding.
    In bytes: 0x80, then `(119 - len % 64) % 64` zero bytes, then 8 length bytes. -/
def pad (msg : List Nat) : List Nat :=
  let len := msg.length
  msg ++ [0x80] ++ List.replicate ((119 - len % 64) % 64) 0 ++ le64 (8 * len)

/-- §2: a sequence of bytes is a sequence of 32-bit words, each group of four bytes being one
    word with the low-order byte given first. -/
def toWords : List Nat → Array UInt32 → Array UInt32
  | a :: b :: c :: d :: rest, acc =>
      toWords rest (acc.push
        (a.toUInt8.toUInt32 ||| (b.toUInt8.toUInt32 <<< 8) |||
         (c.toUInt8.toUInt32 <<< 16) ||| (d.toUInt8.toUInt32 <<< 24)))
  | _, acc => acc

/-- §3.4: "Process each 16-word block": the blocks X of the padded message M[0 … N-1]. -/
def blocks (ws : Array UInt32) : List (Array UInt32) :=
  (List.range (ws.size / 16)).map fun i => ws.extract (16 * i) (16 * i + 16)

/-- 32-bit words → bytes, low-order byte first (§3.5). -/
def fromWords (ws : List UInt32) : List Nat :=
  ws.flatMap fun (w : UInt32) =>
    [w.toUInt8.toNat, (w >>> 8).toUInt8.toNat, (w >>> 16).toUInt8.toNat, (w >>> 24).toUInt8.toNat]

/-! ### §3.3  initialise MD buffer -/

/-- A, B, C, D (given in the RFC as low-order bytes first: 01 23 45 67, 89 ab cd ef, …). -/
def init : Array UInt32 := #[0x67452301, 0xefcdab89, 0x98badcfe, 0x10325476]

/-! ### §3.4  process message in 16-word blocks -/

@[inline] def F (x y z : UInt32) : UInt32 := (x &&& y) ||| (~~~x &&& z)
@[inline] def G (x y z : UInt32) : UInt32 := (x &&& y) ||| (x &&& z) ||| (y &&& z)
@[inline] def H (x y z : UInt32) : UInt32 := x ^^^ y ^^^ z

/-- The `k` column of the 48 operations `[abcd k s]` (index into the block X). -/
def kTab : Array Nat := #[
    0, 1, 2, 3, 4, 5, 6, 7, 8, 9, 10, 11, 12, 13, 14, 15,     -- Round 1
    0, 4, 8, 12, 1, 5, 9, 13, 2, 6, 10, 14, 3, 7, 11, 15,     -- Round 2
    0, 8, 4, 12, 2, 10, 6, 14, 1, 9, 5, 13, 3, 11, 7, 15]     -- Round 3

/-- The `s` column of the 48 operations `[abcd k s]` (rotation amount). -/
def sTab : Array UInt32 := #[
    3, 7, 11, 19, 3, 7, 11, 19, 3, 7, 11, 19, 3, 7, 11, 19,   -- Round 1
    3, 5, 9, 13, 3, 5, 9, 13, 3, 5, 9, 13, 3, 5, 9, 13,       -- Round 2
    3, 9, 11, 15, 3, 9, 11, 15, 3, 9, 11, 15, 3, 9, 11, 15]   -- Round 3

/-- Auxiliary function plus additive constant used by operation number `i` (0-indexed):
    Round 1: F(b,c,d);  Round 2: G(b,c,d) + 5A827999;  Round 3: H(b,c,d) + 6ED9EBA1. -/
@[inline] def aux (i : Nat) (x y z : UInt32) : UInt32 :=
  if i < 16 then F x y z
  else if i < 32 then G x y z + 0x5a827999
  else H x y z + 0x6ed9eba1

/-- The four registers, in the role order of the current operation `[abcd …]`. -/
structure Regs where
  a : UInt32
  b : UInt32
  c : UInt32
  d : UInt32

/-- Operation `[abcd k s]`: a = (a + aux(b,c,d) + X[k]) <<< s.
    The next operation in the RFC is `[dabc …]`, then `[cdab …]`, `[bcda …]`, `[abcd …]`:
    the roles rotate, which is expressed here by rotating the record. -/
@[inline] def step (X : Array UInt32) (r : Regs) (i : Nat) : Regs :=
  let a' := rotl (r.a + aux i r.b r.c r.d + X[kTab[i]!]!) sTab[i]!
  { a := r.d, b := a', c := r.b, d := r.c }

/-- §3.4 for one block X: save A B C D as AA BB CC DD, do the 48 operations, add back. -/
def compress (S X : Array UInt32) : Array UInt32 :=
  let r0 : Regs := { a := S[0]!, b := S[1]!, c := S[2]!, d := S[3]! }
  let r := (List.range 48).foldl (step X) r0
  #[S[0]! + r.a, S[1]! + r.b, S[2]! + r.c, S[3]! + r.d]

/-- §3.5: the message digest is A, B, C, D, beginning with the low-order byte of A. -/
def md4 (msg : List Nat) : List Nat :=
  fromWords ((blocks (toWords (pad msg) #[])).foldl compress init).toList

/-! ### known answers (RFC 1320 §A.5 test suite) -/

/-- Lower-case hex rendering, for the checks below only. -/
private def hex (bs : List Nat) : String :=
  String.ofList (bs.flatMap fun b => [Nat.digitChar (b / 16), Nat.digitChar (b % 16)])

-- MD4 ("abc") = a448017aaf21d8525fc10ae87aa6729d
example : md4 [0x61, 0x62, 0x63] =
    [0xa4, 0x48, 0x01, 0x7a, 0xaf, 0x21, 0xd8, 0x52, 0x5f, 0xc1, 0x0a, 0xe8, 0x7a, 0xa6, 0x72, 0x9d] := by
  decide +kernel

#guard hex (md4 []) = "31d6cfe0d16ae931b73c59d7e0c089c0"
#guard hex (md4 ("a".toList.map Char.toNat)) = "bde52cb31de33e46245e05fbdbd6fb24"
#guard hex (md4 ("message digest".toList.map Char.toNat)) = "d9130a8164549fe818874806e1c7014b"
#guard hex (md4 ("abcdefghijklmnopqrstuvwxyz".toList.map Char.toNat)) = "d79e1c308aa5bbcdeea8ed63df412da9"
#guard hex (md4 ("ABCDEFGHIJKLMNOPQRSTUVWXYZabcdefghijklmnopqrstuvwxyz0123456789".toList.map Char.toNat)) =
  "043f8582f241db351ce627e153e7f0e4"
#guard hex (md4 (("1234567890123456789012345678901234567890" ++
    "1234567890123456789012345678901234567890").toList.map Char.toNat)) = "e33b4ddc9c38f2199c3e7b164fcc0536"
#guard (md4 (List.replicate 300 0xff)).all (· < 256)

end Spec.MD4
