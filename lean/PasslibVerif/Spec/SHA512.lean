/-
  SHA-512 and SHA-384, transcribed from FIPS 180-4 (Secure Hash Standard).

  Bytes are `List Nat` (every element < 256).  Internally words are `UInt64`
  (addition is mod 2^64, FIPS 180-4 §2.2.2) and the message schedule is an
  `Array UInt64`.  Everything is total: structural recursion and folds only.
-/
namespace Spec.SHA512

/-! ### §3.2  operations on 64-bit words -/

/-- §3.2 (4): ROTR^n(x) = (x >> n) ∨ (x << (64 - n)), for 0 < n < 64. -/
@[inline] def rotr (x n : UInt64) : UInt64 := (x >>> n) ||| (x <<< (64 - n))

/-- §3.2 (3): SHR^n(x) = x >> n. -/
@[inline] def shr (x n : UInt64) : UInt64 := x >>> n

/-! ### §4.1.3  SHA-384 and SHA-512 functions -/

/-- (4.8) -/
@[inline] def Ch (x y z : UInt64) : UInt64 := (x &&& y) ^^^ (~~~x &&& z)
/-- (4.9) -/
@[inline] def Maj (x y z : UInt64) : UInt64 := (x &&& y) ^^^ (x &&& z) ^^^ (y &&& z)
/-- (4.10) Σ₀ -/
@[inline] def bigSigma0 (x : UInt64) : UInt64 := rotr x 28 ^^^ rotr x 34 ^^^ rotr x 39
/-- (4.11) Σ₁ -/
@[inline] def bigSigma1 (x : UInt64) : UInt64 := rotr x 14 ^^^ rotr x 18 ^^^ rotr x 41
/-- (4.12) σ₀ -/
@[inline] def smallSigma0 (x : UInt64) : UInt64 := rotr x 1 ^^^ rotr x 8 ^^^ shr x 7
/-- (4.13) σ₁ -/
@[inline] def smallSigma1 (x : UInt64) : UInt64 := rotr x 19 ^^^ rotr x 61 ^^^ shr x 6

/-! ### §4.2.3  SHA-384 and SHA-512 constants -/

/-- K₀ … K₇₉: first 64 bits of the fractional parts of the cube roots of the first 80 primes. -/
def K : Array UInt64 := #[
    0x428a2f98d728ae22, 0x7137449123ef65cd, 0xb5c0fbcfec4d3b2f, 0xe9b5dba58189dbbc,
    0x3956c25bf348b538, 0x59f111f1b605d019, 0x923f82a4af194f9b, 0xab1c5ed5da6d8118,
    0xd807aa98a3030242, 0x12835b0145706fbe, 0x243185be4ee4b28c, 0x550c7dc3d5ffb4e2,
    0x72be5d74f27b896f, 0x80deb1fe3b1696b1, 0x9bdc06a725c71235, 0xc19bf174cf692694,
    0xe49b69c19ef14ad2, 0xefbe4786384f25e3, 0x0fc19dc68b8cd5b5, 0x240ca1cc77ac9c65,
    0x2de92c6f592b0275, 0x4a7484aa6ea6e483, 0x5cb0a9dcbd41fbd4, 0x76f988da831153b5,
    0x983e5152ee66dfab, 0xa831c66d2db43210, 0xb00327c898fb213f, 0xbf597fc7beef0ee4,
    0xc6e00bf33da88fc2, 0xd5a79147930aa725, 0x06ca6351e003826f, 0x142929670a0e6e70,
    0x27b70a8546d22ffc, 0x2e1b21385c26c926, 0x4d2c6dfc5ac42aed, 0x53380d139d95b3df,
    0x650a73548baf63de, 0x766a0abb3c77b2a8, 0x81c2c92e47edaee6, 0x92722c851482353b,
    0xa2bfe8a14cf10364, 0xa81a664bbc423001, 0xc24b8b70d0f89791, 0xc76c51a30654be30,
    0xd192e819d6ef5218, 0xd69906245565a910, 0xf40e35855771202a, 0x106aa07032bbd1b8,
    0x19a4c116b8d2d0c8, 0x1e376c085141ab53, 0x2748774cdf8eeb99, 0x34b0bcb5e19b48a8,
    0x391c0cb3c5c95a63, 0x4ed8aa4ae3418acb, 0x5b9cca4f7763e373, 0x682e6ff3d6b2b8a3,
    0x748f82ee5defb2fc, 0x78a5636f43172f60, 0x84c87814a1f0ab72, 0x8cc702081a6439ec,
    0x90befffa23631e28, 0xa4506cebde82bde9, 0xbef9a3f7b2c67915, 0xc67178f2e372532b,
    0xca273eceea26619c, 0xd186b8c721c0c207, 0xeada7dd6cde0eb1e, 0xf57d4f7fee6ed178,
    0x06f067aa72176fba, 0x0a637dc5a2c898a6, 0x113f9804bef90dae, 0x1b710b35131c471b,
    0x28db77f523047d84, 0x32caab7b40c72493, 0x3c9ebe0a15c9bebc, 0x431d67c49c100d4c,
    0x4cc5d4becb3e42b6, 0x597f299cfc657e2a, 0x5fcb6fab3ad6faec, 0x6c44198c4a475817]

/-! ### §5.3  initial hash values -/

/-- §5.3.5  H⁽⁰⁾ for SHA-512. -/
def H0_512 : Array UInt64 := #[
    0x6a09e667f3bcc908, 0xbb67ae8584caa73b, 0x3c6ef372fe94f82b, 0xa54ff53a5f1d36f1,
    0x510e527fade682d1, 0x9b05688c2b3e6c1f, 0x1f83d9abfb41bd6b, 0x5be0cd19137e2179]

/-- §5.3.4  H⁽⁰⁾ for SHA-384. -/
def H0_384 : Array UInt64 := #[
    0xcbbb9d5dc1059ed8, 0x629a292a367cd507, 0x9159015a3070dd17, 0x152fecd8f70e5939,
    0x67332667ffc00b31, 0x8eb44a8768581511, 0xdb0c2e0d64f98fa7, 0x47b5481dbefa4fa4]

/-! ### §5.1.2  padding, §5.2.2 parsing -/

/-- The 128-bit big-endian representation of `n` (mod 2^128), as 16 bytes. -/
def be128 (n : Nat) : List Nat :=
  [15, 14, 13, 12, 11, 10, 9, 8, 7, 6, 5, 4, 3, 2, 1, 0].map fun i => (n >>> (8 * i)) % 256

/-- §5.1.2: append the bit "1", then k zero bits with ℓ + 1 + k ≡ 896 (mod 1024),
    then ℓ as a 128-bit big-endian integer (ℓ = message length in bits).
    In bytes: 0x80, then `(239 - len % 128) % 128` zero bytes, then 16 length bytes. -/
def pad (msg : List Nat) : List Nat :=
  let len := msg.length
  msg ++ [0x80] ++ List.replicate ((239 - len % 128) % 128) 0 ++ be128 (8 * len)

/-- Big-endian bytes → 64-bit words (§3.1 (3)); the length is a multiple of 8 after padding. -/
def toWords : List Nat → Array UInt64 → Array UInt64
  | b0 :: b1 :: b2 :: b3 :: b4 :: b5 :: b6 :: b7 :: rest, acc =>
      toWords rest (acc.push
        ((b0.toUInt8.toUInt64 <<< 56) ||| (b1.toUInt8.toUInt64 <<< 48) |||
         (b2.toUInt8.toUInt64 <<< 40) ||| (b3.toUInt8.toUInt64 <<< 32) |||
         (b4.toUInt8.toUInt64 <<< 24) ||| (b5.toUInt8.toUInt64 <<< 16) |||
         (b6.toUInt8.toUInt64 <<< 8) ||| b7.toUInt8.toUInt64))
  | _, acc => acc

/-- §5.2.2: parse the padded message into N 1024-bit blocks M⁽¹⁾ … M⁽ᴺ⁾ of sixteen words. -/
def blocks (ws : Array UInt64) : List (Array UInt64) :=
  (List.range (ws.size / 16)).map fun i => ws.extract (16 * i) (16 * i + 16)

/-- 64-bit words → big-endian bytes. -/
def fromWords (ws : List UInt64) : List Nat :=
  ws.flatMap fun (w : UInt64) =>
    [(w >>> 56).toUInt8.toNat, (w >>> 48).toUInt8.toNat, (w >>> 40).toUInt8.toNat,
     (w >>> 32).toUInt8.toNat, (w >>> 24).toUInt8.toNat, (w >>> 16).toUInt8.toNat,
     (w >>> 8).toUInt8.toNat, w.toUInt8.toNat]

/-! ### §6.4.2  SHA-512 hash computation -/

/-- Step 1: prepare the message schedule W₀ … W₇₉:
    Wₜ = Mₜ for 0 ≤ t ≤ 15, Wₜ = σ₁(Wₜ₋₂) + Wₜ₋₇ + σ₀(Wₜ₋₁₅) + Wₜ₋₁₆ for 16 ≤ t ≤ 79. -/
def schedule (M : Array UInt64) : Array UInt64 :=
  (List.range' 16 64).foldl
    (fun W t => W.push (smallSigma1 W[t - 2]! + W[t - 7]! + smallSigma0 W[t - 15]! + W[t - 16]!))
    M

/-- The eight working variables a … h. -/
structure Vars where
  a : UInt64
  b : UInt64
  c : UInt64
  d : UInt64
  e : UInt64
  f : UInt64
  g : UInt64
  h : UInt64

/-- Step 3, one iteration t. -/
@[inline] def round (W : Array UInt64) (v : Vars) (t : Nat) : Vars :=
  let T1 := v.h + bigSigma1 v.e + Ch v.e v.f v.g + K[t]! + W[t]!
  let T2 := bigSigma0 v.a + Maj v.a v.b v.c
  { h := v.g, g := v.f, f := v.e, e := v.d + T1, d := v.c, c := v.b, b := v.a, a := T1 + T2 }

/-- Steps 1–4 for one block: H⁽ⁱ⁾ from H⁽ⁱ⁻¹⁾ and M⁽ⁱ⁾. -/
def compress (H M : Array UInt64) : Array UInt64 :=
  let W := schedule M
  -- Step 2: initialise the working variables with H⁽ⁱ⁻¹⁾
  let v0 : Vars :=
    { a := H[0]!, b := H[1]!, c := H[2]!, d := H[3]!, e := H[4]!, f := H[5]!, g := H[6]!, h := H[7]! }
  -- Step 3: for t = 0 to 79
  let v := (List.range 80).foldl (round W) v0
  -- Step 4: the i-th intermediate hash value
  #[v.a + H[0]!, v.b + H[1]!, v.c + H[2]!, v.d + H[3]!,
    v.e + H[4]!, v.f + H[5]!, v.g + H[6]!, v.h + H[7]!]

/-- H⁽ᴺ⁾: fold the compression function over the blocks of the padded message. -/
def hashBlocks (H0 : Array UInt64) (msg : List Nat) : Array UInt64 :=
  (blocks (toWords (pad msg) #[])).foldl compress H0

/-- §6.4: SHA-512; the digest is H₀⁽ᴺ⁾ ‖ … ‖ H₇⁽ᴺ⁾ (64 bytes). -/
def sha512 (msg : List Nat) : List Nat :=
  fromWords (hashBlocks H0_512 msg).toList

/-- §6.5: SHA-384 = SHA-512 with the §5.3.4 initial value, truncated to the left-most 384 bits. -/
def sha384 (msg : List Nat) : List Nat :=
  (fromWords (hashBlocks H0_384 msg).toList).take 48

/-! ### known answers (FIPS 180-4 examples) -/

/-- Lower-case hex rendering, for the checks below only. -/
private def hex (bs : List Nat) : String :=
  String.ofList (bs.flatMap fun b => [Nat.digitChar (b / 16), Nat.digitChar (b % 16)])

-- "abc"
example : sha512 [0x61, 0x62, 0x63] =
    [0xdd, 0xaf, 0x35, 0xa1, 0x93, 0x61, 0x7a, 0xba, 0xcc, 0x41, 0x73, 0x49, 0xae, 0x20, 0x41, 0x31,
     0x12, 0xe6, 0xfa, 0x4e, 0x89, 0xa9, 0x7e, 0xa2, 0x0a, 0x9e, 0xee, 0xe6, 0x4b, 0x55, 0xd3, 0x9a,
     0x21, 0x92, 0x99, 0x2a, 0x27, 0x4f, 0xc1, 0xa8, 0x36, 0xba, 0x3c, 0x23, 0xa3, 0xfe, 0xeb, 0xbd,
     0x45, 0x4d, 0x44, 0x23, 0x64, 0x3c, 0xe8, 0x0e, 0x2a, 0x9a, 0xc9, 0x4f, 0xa5, 0x4c, 0xa4, 0x9f] := by
  decide +kernel

#guard hex (sha512 []) =
  "cf83e1357eefb8bdf1542850d66d8007d620e4050b5715dc83f4a921d36ce9ce" ++
  "47d0d13c5d85f2b0ff8318d2877eec2f63b931bd47417a81a538327af927da3e"
#guard hex (sha384 [0x61, 0x62, 0x63]) =
  "cb00753f45a35e8bb5a03d699ac65007272c32ab0eded1631a8b605a43ff5bed8086072ba1e7cc2358baeca134c825a7"
#guard hex (sha512 (("abcdefghbcdefghicdefghijdefghijkefghijklfghijklmghijklmn" ++
    "hijklmnoijklmnopjklmnopqklmnopqrlmnopqrsmnopqrstnopqrstu").toList.map Char.toNat)) =
  "8e959b75dae313da8cf4f72814fc143f8f7779c6eb9f7fa17299aeadb6889018" ++
  "501d289e4900f7e4331b99dec4b5433ac7d329eeb6dd26545e96e55b874be909"
#guard (sha512 (List.replicate 300 0xff)).all (· < 256)

end Spec.SHA512
