import PasslibVerif.Model.Context
import PasslibVerif.Model.VerifyCrypt
import PasslibVerif.Model.VerifyFmt.DesBcrypt
import PasslibVerif.Model.VerifyFmt.Pbkdf
/-
C04 at the level of real hash strings: the policy model of `passlib/context.py` (Model/Context.lean, which takes the facts about
a hash string as atoms) instantiated with the hasher models of C01 / C07.

  HasherEntry   what the context needs of one registered hasher: `identify` (C07), the `Hasher` of C01 (from_string / to_string /
                _calc_checksum + what the class does around it), the cost `_calc_needs_update` reads from the parsed string, the
                object `hash()` builds (`cls(use_defaults=True)`: default ident, the drawn salt, the generated cost) and the
                class attributes (`min_rounds`, `max_rounds`, `default_rounds`) the context's records start from
  entryOf       the registry for md5_crypt, sha256_crypt, sha512_crypt, des_crypt, bsdi_crypt, phpass, pbkdf2_sha256
  factsOf       the atoms (`HashFacts`) of a string, computed by the hasher models
  hashWith      `CryptContext.hash(secret, category=…)` down to the string
  needsUpdateStr / verifyStr / vauStr    `needs_update` / `verify` / `verify_and_update` on strings

Random source: `draw` is what `rng.randint` returns for the cost variation (as in `hashCtx`), `salt` is the salt `hash()` draws
(`getrandstr(rng, salt_chars, default_salt_size)` / `getrandbytes`): both explicit.
-/
namespace Model.ContextStr
open Py Model.Handler Model.Formats Model.Verify Model.Rounds Model.Context Model.VerifyCrypt

structure HasherEntry where
  /-- `cls.identify(hash)` -/
  identify : Str → Bool
  /-- `from_string` / `to_string` / `_calc_checksum`, truncation policy, NUL refusal -/
  hasher : Hasher
  /-- `from_string(hash).rounds`, the value `HasRounds._calc_needs_update` compares with the desired window (`none`: no cost) -/
  costOf : Parsed → Option Int
  /-- the object `hash()` builds before the checksum exists: drawn salt, generated cost -/
  settings : Str → Option Int → Parsed
  /-- the class's own `HasRounds` attributes (`none`: the class has no `rounds`) -/
  base : Option Cls

def natOf (n : Option Int) : Nat := (n.getD 0).toNat

def md5Entry : HasherEntry where
  identify := md5_crypt.identify
  hasher := md5Hasher false
  costOf := fun _ => none
  settings := fun salt _ => { ident := md5Ident false, salt := some salt }
  base := none

def sha256Entry : HasherEntry where
  identify := sha256_crypt.identify
  hasher := sha256Hasher
  costOf := fun p => p.rounds
  settings := fun salt n => sha2Settings (ofString "$5$") salt (natOf n)
  base := some ⟨1000, some 999999999, none, none, some 535000, .none, false⟩

def sha512Entry : HasherEntry where
  identify := sha512_crypt.identify
  hasher := sha512Hasher
  costOf := fun p => p.rounds
  settings := fun salt n => sha2Settings (ofString "$6$") salt (natOf n)
  base := some ⟨1000, some 999999999, none, none, some 656000, .none, false⟩

/-- des_crypt under a context: `truncate_error` is a scheme option the policy model passes through (`OptVal.other`); the class
    default (False) is what the context's record has unless the option is set -/
def desEntry : HasherEntry where
  identify := des_crypt.identify
  hasher := Model.VerifyFmt.DesBcrypt.desHasher false
  costOf := fun _ => none
  settings := fun salt _ => Model.VerifyFmt.DesBcrypt.desSettings salt
  base := none

def bsdiEntry : HasherEntry where
  identify := bsdi_crypt.identify
  hasher := Model.VerifyFmt.DesBcrypt.bsdiHasher
  costOf := fun p => p.rounds
  settings := fun salt n => Model.VerifyFmt.DesBcrypt.bsdiSettings salt (natOf n)
  base := some ⟨1, some 16777215, none, none, some 5001, .none, true⟩

/-- phpass: the cost is the base-2 logarithm; `default_ident = "$P$"` -/
def phpassEntry : HasherEntry where
  identify := phpass.identify
  hasher := Model.VerifyFmt.DesBcrypt.phpassHasher
  costOf := fun p => p.rounds
  settings := fun salt n => Model.VerifyFmt.DesBcrypt.phpassSettings (ofString "$P$") salt (natOf n)
  base := some ⟨7, some 30, none, none, some 19, .none, false⟩

/-- pbkdf2_sha256: the salt is raw bytes (`getrandbytes(rng, 16)`) -/
def pbkdf2Sha256Entry : HasherEntry where
  identify := pbkdf2_sha256X.identify
  hasher := Model.VerifyFmt.Pbkdf.pbkdf2_sha256Hasher
  costOf := fun p => p.rounds
  settings := fun salt n => Model.VerifyFmt.Pbkdf.mc3Settings PBKDF2_SHA256_IDENT salt (natOf n)
  base := some ⟨1, some 4294967295, none, none, some 29000, .none, false⟩

/-- the registry (`get_crypt_handler`) restricted to the modelled hashers -/
def entryOf : String → Option HasherEntry
  | "md5_crypt" => some md5Entry
  | "sha256_crypt" => some sha256Entry
  | "sha512_crypt" => some sha512Entry
  | "des_crypt" => some desEntry
  | "bsdi_crypt" => some bsdiEntry
  | "phpass" => some phpassEntry
  | "pbkdf2_sha256" => some pbkdf2Sha256Entry
  | _ => none

def knownNames : List String := ["md5_crypt", "sha256_crypt", "sha512_crypt", "des_crypt", "bsdi_crypt", "phpass", "pbkdf2_sha256"]

/-- the context's hashers in configuration order -/
def entriesOf (c : Cfg) : List (String × HasherEntry) :=
  c.schemes.filterMap fun s => (entryOf s.name).map fun e => (s.name, e)

/-- does the hasher registered under `name` claim the string -/
def claimsIn (hashers : List (String × HasherEntry)) (hs : Str) (name : String) : Bool :=
  match lookupA name hashers with
  | some e => e.identify hs
  | none => false

/-- the first hasher, in list order, that claims the string -/
def firstClaimer (hashers : List (String × HasherEntry)) (hs : Str) : Option (String × HasherEntry) :=
  hashers.find? fun p => claimsIn hashers hs p.1

/-- the atoms of the policy model, computed from the string by the hasher models: who claims it; the cost the first claimer
    parses out of it; whether `secret` verifies against it under the first claimer.  None of the modelled classes has an update
    rule of its own besides the cost window (bsdi_crypt's even-rounds rule is `Cls.forceOdd`). -/
def factsOf (hashers : List (String × HasherEntry)) (hs : Str) (secret : Secret) : HashFacts where
  claims := claimsIn hashers hs
  rounds := match firstClaimer hashers hs with
    | some (_, e) => (match e.hasher.parse hs with | .ok p => e.costOf p | .error _ => none)
    | none => none
  selfFlag := false
  verifies := match firstClaimer hashers hs with
    | some (_, e) => verify e.hasher secret hs
    | none => .error .unknownHash

/-- every scheme of the configuration is one of the modelled hashers with the class attributes the registry has for it -/
def cfgOver (c : Cfg) : Bool :=
  c.schemes.all fun s => match entryOf s.name with
    | some e => decide (s.base = e.base)
    | none => false

/-- `CryptContext.hash(secret, category=cat)`: the category's default scheme and record (KeyError / the record's error first),
    then `record.hash(secret)` = `validate_secret`, `cls(use_defaults=True)` (cost generated by the record, salt drawn), checksum,
    `to_string()` -/
def hashWith (c : Cfg) (cat : Cat) (draw : Nat) (fv : Int) (salt : Str) (s : Secret) : Res Str :=
  match defaultScheme c cat with
  | .error e => .error e
  | .ok d => match c.schemes.find? (·.name = d) with
    | none => .error .keyError
    | some si => match getRecord c si cat with
      | .error e => .error e
      | .ok _ => match validateSecret s with
        | .error e => .error e
        | .ok _ => match hashCtx c cat draw fv with
          | .error e => .error e
          | .ok (d', n) => match entryOf d' with
            | none => .error .notImplemented
            | some e => hashSecret e.hasher s (e.settings salt n)

/-- `CryptContext.identify(hash, required=True)` -/
def identifyStr (c : Cfg) (hs : Str) : Res String :=
  (identify c (factsOf (entriesOf c) hs (.bytes []))).map (·.name)

/-- `CryptContext.verify(secret, hash)` -/
def verifyStr (c : Cfg) (s : Secret) (hs : Str) : Res Bool :=
  let h := factsOf (entriesOf c) hs s
  match identify c h with
  | .error e => .error e
  | .ok _ => h.verifies

/-- `CryptContext.needs_update(hash, category=cat)` = `record.deprecated or record.needs_update(hash)`: the string is parsed
    (`from_string`, ValueError for a malformed one) only when the record is not deprecated -/
def needsUpdateStr (c : Cfg) (hs : Str) (cat : Cat) : Res Bool :=
  let h := factsOf (entriesOf c) hs (.bytes [])
  match identify c h with
  | .error e => .error e
  | .ok si => match getRecord c si cat with
    | .error e => .error e
    | .ok r =>
      if r.deprecated then .ok true
      else match firstClaimer (entriesOf c) hs with
        | none => .error .unknownHash
        | some (_, e) => match e.hasher.parse hs with
          | .error err => .error err
          | .ok _ => .ok (recordNeedsUpdate r h)

/-- `CryptContext.verify_and_update(secret, hash, category=cat)` → `(verified, replacement)` -/
def vauStr (c : Cfg) (cat : Cat) (draw : Nat) (fv : Int) (salt : Str) (s : Secret) (hs : Str) : Res (Bool × Option Str) :=
  match verifyAndUpdate c (factsOf (entriesOf c) hs s) cat draw fv with
  | .error e => .error e
  | .ok .fail => .ok (false, none)
  | .ok .ok => .ok (true, none)
  | .ok (.rehash _ _) => (hashWith c cat draw fv salt s).map fun new => (true, some new)

/-- the salts `hash()` can draw for a scheme: over the class's `salt_chars`, within its size limits (raw bytes for pbkdf2_sha256) -/
def saltOK (name : String) (salt : Str) : Bool :=
  if name = "md5_crypt" then allIn h64 salt && decide (salt.length ≤ 8)
  else if name = "sha256_crypt" ∨ name = "sha512_crypt" then allIn h64 salt && decide (salt.length ≤ 16)
  else if name = "des_crypt" then allIn h64 salt && decide (salt.length = 2)
  else if name = "bsdi_crypt" then allIn h64 salt && decide (salt.length = 4)
  else if name = "phpass" then allIn h64 salt && decide (salt.length = 8)
  else if name = "pbkdf2_sha256" then decide (Bytes.WF salt) && decide (salt.length ≤ 1024)
  else false

end Model.ContextStr
