import PasslibVerif.Py.Int
/-
Model of passlib.utils.handlers.HasRounds: class attributes, `using()`, `_norm_rounds`,
`_clip_to_desired_rounds`, `_calc_vary_rounds_range` (integer vary_rounds), `_generate_rounds`,
`_calc_needs_update`.  Python truthiness (`None` and `0` are false) is followed literally.
-/
namespace Model.Rounds
open Py

inductive Vary
  | none                -- attribute is None
  | int (v : Int)
  | float                        -- a (non-zero) float percentage; `int(default_rounds * vary_rounds)` is an atom at generation time
  deriving DecidableEq, Repr

structure Cls where
  hardMin : Int                 -- min_rounds
  hardMax : Option Int          -- max_rounds
  minDesired : Option Int
  maxDesired : Option Int
  defaultRounds : Option Int
  vary : Vary
  forceOdd : Bool               -- bsdi_crypt: `_generate_rounds` returns rounds | 1, even rounds flagged
  deriving DecidableEq, Repr

/-- Python truthiness of an optional int -/
def truthy : Option Int → Bool
  | some v => v != 0
  | none => false

inductive Arg
  | int (v : Int)
  | str (s : List Nat)
  deriving DecidableEq, Repr

/-- `if isinstance(x, str): x = int(x)` -/
def coerce : Arg → Res Int
  | .int v => .ok v
  | .str s => match pyIntOfStr s with | some v => .ok v | none => .error .valueError

/-- an optional bound that Python treats as "set": `None` and `0` are both false -/
def eff : Option Int → Option Int
  | some v => if v = 0 then none else some v
  | none => none

/-- `norm_integer(handler, value, min, max, relaxed=…)` -/
def normInt (lo : Int) (hi : Option Int) (v : Int) (relaxed : Bool) : Res Int :=
  if v < lo then
    (if relaxed then
      -- value = min, then the max test runs on the clamped value
      (match eff hi with
        | some h => if lo > h then .ok h else .ok lo
        | none => .ok lo)
    else .error .valueError)
  else match eff hi with
    | some h => if v > h then (if relaxed then .ok h else .error .valueError) else .ok v
    | none => .ok v

def normRounds (c : Cls) (v : Int) (relaxed : Bool) : Res Int := normInt c.hardMin c.hardMax v relaxed

/-- `_clip_to_desired_rounds` on explicit window bounds (`mnd = min_desired or 0`) -/
def clipWin (mn mx : Option Int) (r : Int) : Int :=
  if r < mn.getD 0 then mn.getD 0
  else match eff mx with
    | some b => if r > b then b else r
    | none => r

def clipToDesired (c : Cls) (r : Int) : Int := clipWin c.minDesired c.maxDesired r

structure UsingArgs where
  minRounds : Option Arg := none
  maxRounds : Option Arg := none
  defaultRounds : Option Arg := none
  rounds : Option Arg := none
  varyRounds : Option Vary := none        -- already parsed (int or float atom); `Vary.none` unused here
  relaxed : Bool := false

def argMin (a : UsingArgs) : Option Arg := match a.minRounds with | some x => some x | none => a.rounds
def argMax (a : UsingArgs) : Option Arg := match a.maxRounds with | some x => some x | none => a.rounds
def argDefault (a : UsingArgs) : Option Arg := match a.defaultRounds with | some x => some x | none => a.rounds

structure MinOut where
  sub : Cls
  minLocal : Option Int        -- the local variable `min_desired_rounds` (NOT normalised)
  explicit : Bool

/-- the `min_desired_rounds` block -/
def stepMin (cls : Cls) (a : UsingArgs) : Res MinOut :=
  match argMin a with
  | none => .ok ⟨cls, cls.minDesired, false⟩
  | some x => match coerce x with
    | .error e => .error e
    | .ok v => match normRounds cls v a.relaxed with
      | .error e => .error e
      | .ok n => .ok ⟨{ cls with minDesired := some n }, some v, true⟩

structure MaxOut where
  sub : Cls
  minLocal : Option Int
  maxLocal : Option Int

/-- the `max_desired_rounds` block -/
def stepMax (cls : Cls) (m : MinOut) (a : UsingArgs) : Res MaxOut :=
  match argMax a with
  | none => .ok ⟨m.sub, m.minLocal, cls.maxDesired⟩
  | some x => match coerce x with
    | .error e => .error e
    | .ok v =>
      if truthy m.minLocal && v < m.minLocal.getD 0 then
        (if m.explicit then .error .valueError
         else match normRounds m.sub (m.minLocal.getD 0) a.relaxed with
          | .error e => .error e
          | .ok n => .ok ⟨{ m.sub with maxDesired := some n }, m.minLocal, m.minLocal⟩)
      else match normRounds m.sub v a.relaxed with
        | .error e => .error e
        | .ok n => .ok ⟨{ m.sub with maxDesired := some n }, m.minLocal, some v⟩

/-- the `default_rounds` block -/
def stepDefault (m : MaxOut) (a : UsingArgs) : Res Cls :=
  match argDefault a with
  | none => .ok m.sub
  | some x => match coerce x with
    | .error e => .error e
    | .ok v =>
      if truthy m.minLocal && v < m.minLocal.getD 0 then .error .valueError
      else if truthy m.maxLocal && v > m.maxLocal.getD 0 then .error .valueError
      else match normRounds m.sub v a.relaxed with
        | .error e => .error e
        | .ok n => .ok { m.sub with defaultRounds := some n }

/-- `subcls.default_rounds = subcls._clip_to_desired_rounds(subcls.default_rounds)` -/
def stepClip (sub : Cls) : Cls :=
  match sub.defaultRounds with
  | none => sub
  | some d => { sub with defaultRounds := some (clipToDesired sub d) }

def stepVary (sub : Cls) (a : UsingArgs) : Res Cls :=
  match a.varyRounds with
  | none => .ok sub
  | some (.int v) => if v < 0 then .error .valueError else .ok { sub with vary := .int v }
  | some .float => .ok { sub with vary := .float }
  | some .none => .ok sub

/-- `HasRounds.using()` in statement order -/
def usingRounds (cls : Cls) (a : UsingArgs) : Res Cls :=
  match stepMin cls a with
  | .error e => .error e
  | .ok m => match stepMax cls m a with
    | .error e => .error e
    | .ok mx => match stepDefault mx a with
      | .error e => .error e
      | .ok sub => stepVary (stepClip sub) a

/-- `_calc_vary_rounds_range` for linear cost -/
def varyAmount (c : Cls) (floatVaryInt : Int) : Int :=
  match c.vary with | .int v => v | .float => floatVaryInt | .none => 0

/-- the hard-limit clip at the end of `_calc_vary_rounds_range`:
    `lower = max(lower, cls.min_rounds)`; `if cls.max_rounds: upper = min(upper, cls.max_rounds)` -/
def hardLo (c : Cls) (x : Int) : Int := max x c.hardMin
def hardHi (c : Cls) (x : Int) : Int := match eff c.hardMax with | some h => min x h | none => x

def varyRange (c : Cls) (dflt : Int) (floatVaryInt : Int) : Int × Int :=
  (hardLo c (clipToDesired c (dflt - varyAmount c floatVaryInt)),
   hardHi c (clipToDesired c (dflt + varyAmount c floatVaryInt)))

def varyTruthy : Vary → Bool
  | .none => false
  | .int v => v != 0
  | .float => true            -- only non-zero floats are passed

/-- `_generate_rounds` with the random draw made explicit (`rng.randint(lower, upper)`) -/
def generateRounds (c : Cls) (draw : Nat) (floatVaryInt : Int := 0) : Res Int :=
  match c.defaultRounds with
  | none => .error .typeError
  | some d =>
    let r : Res Int :=
      if varyTruthy c.vary then
        let lower := (varyRange c d floatVaryInt).1
        let upper := (varyRange c d floatVaryInt).2
        if lower ≤ d ∧ d ≤ upper then
          (if lower < upper then .ok (lower + (draw % (upper - lower + 1).toNat : Nat)) else .ok d)
        else .error .assertionError
      else .ok d
    r.map fun r => if c.forceOdd then (if r % 2 = 0 then r + 1 else r) else r

/-- what `HasRounds.__init__(use_defaults=True)` does with the generated value:
    `assert self._norm_rounds(rounds) == rounds` — `_norm_rounds` (not relaxed) raises ValueError outside the hard limits -/
def generateChecked (c : Cls) (draw : Nat) (floatVaryInt : Int := 0) : Res Int :=
  match generateRounds c draw floatVaryInt with
  | .error e => .error e
  | .ok r => normRounds c r false

/-- `_calc_needs_update` (HasRounds part, plus bsdi's even-rounds flag) -/
def outsideWin (mn mx : Option Int) (rounds : Int) : Bool :=
  (match eff mn with | some a => decide (rounds < a) | none => false) ||
  (match eff mx with | some b => decide (rounds > b) | none => false)

def needsUpdate (c : Cls) (rounds : Int) : Bool :=
  (c.forceOdd && rounds % 2 == 0) || outsideWin c.minDesired c.maxDesired rounds

end Model.Rounds
