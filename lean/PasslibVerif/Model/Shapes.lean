import PasslibVerif.Model.Formats.Static
import PasslibVerif.Model.Formats.DesBcrypt
import PasslibVerif.Model.Formats.Pbkdf
import PasslibVerif.Gen.Contexts
/-
`Shape`: a small decidable abstraction of a set of strings, used to show that the `identify` of one hasher rejects
everything another hasher emits (C17).  A basic shape constrains
  * a required prefix,
  * the admissible TOTAL lengths (optional),
  * the class of EVERY character (any / one of a finite list / none of a finite list),
  * optionally: the string does not match the RFC 2307 pattern `^\{\w+\}.*$` (ldap_plaintext's own test);
a shape is a finite union of basic shapes.  `Shape.disjoint` is a sound (not complete) emptiness test for the
intersection; it is evaluated by the kernel over the reflected context tables in Props/C17.lean.
-/
namespace Model.Shapes
open Py Model.Handler Model.Formats

inductive Cls
  | any
  | oneOf (l : List Nat)
  | noneOf (l : List Nat)
  deriving DecidableEq, Repr

def Cls.has : Cls → Nat → Bool
  | .any, _ => true
  | .oneOf l, c => l.contains c
  | .noneOf l, c => !l.contains c

structure Basic where
  pre : Str := []
  lens : Option (List Nat) := none
  cls : Cls := .any
  not2307 : Bool := false
  deriving DecidableEq, Repr

def lenOk : Option (List Nat) → Nat → Bool
  | none, _ => true
  | some L, n => L.contains n

def Basic.accepts (b : Basic) (h : Str) : Bool :=
  b.pre.isPrefixOf h && lenOk b.lens h.length && h.all b.cls.has && (!b.not2307 || !rfc2307Match h)

abbrev Shape := List Basic

def Shape.accepts (s : Shape) (h : Str) : Bool := s.any (·.accepts h)

/-- the set of all strings -/
def Shape.anything : Shape := [{}]

/-! ### the disjointness test -/

/-- two required prefixes disagree at a position both cover -/
def clash : Str → Str → Bool
  | x :: xs, y :: ys => x != y || clash xs ys
  | _, _ => false

/-- `n` is a possible total length of a string of `b` -/
def Basic.fits (b : Basic) (n : Nat) : Bool := lenOk b.lens n && decide (b.pre.length ≤ n)

def lensDisjoint (a b : Basic) : Bool :=
  match a.lens with
  | some L => L.all fun n => !b.fits n
  | none => match b.lens with
    | some M => M.all fun n => !a.fits n
    | none => false

/-- every string of `b` matches `^\{\w+\}.*$`: the prefix spells `{word}` and no admissible character is a line break -/
def forces2307 (b : Basic) : Bool :=
  match b.pre with
  | 123 :: rest =>
    !(rest.takeWhile isWord).isEmpty && (rest.dropWhile isWord).head? == some 125 &&
      (match b.cls with
        | .oneOf l => l.all isDot
        | .noneOf l => Gen.PyCase.dotExcluded.all (l.contains ·)
        | .any => false)
  | _ => false

def Basic.disjoint (a b : Basic) : Bool :=
  clash a.pre b.pre || a.pre.any (fun c => !b.cls.has c) || b.pre.any (fun c => !a.cls.has c) || lensDisjoint a b ||
    (a.not2307 && forces2307 b) || (b.not2307 && forces2307 a)

def Shape.disjoint (s t : Shape) : Bool := s.all fun a => t.all fun b => a.disjoint b

/-! ### shape of a PrefixWrapper around a shaped hasher (`orig_prefix = ""`) -/
def Cls.with (pfx : Str) : Cls → Cls
  | .any => .any
  | .oneOf l => .oneOf (pfx ++ l)
  | .noneOf l => .noneOf (l.filter fun c => !pfx.contains c)

def Basic.prepend (pfx : Str) (b : Basic) : Basic :=
  { pre := pfx ++ b.pre, lens := b.lens.map fun L => L.map (· + pfx.length), cls := b.cls.with pfx, not2307 := false }

def Shape.prepend (pfx : Str) (s : Shape) : Shape := s.map (Basic.prepend pfx)

/-- restriction of a union of prefixed shapes to those below a given ident -/
def Shape.under (ident : Str) (s : Shape) : Shape := s.filter fun b => ident.isPrefixOf b.pre


/-! ### hashers of the shipped contexts that have no parse / render model: `identify` only -/
def idOnly (name : String) (identify : Str → Bool) : Format := ⟨name, fun _ => none, fun _ => [], identify⟩

def isLowerAz (c : Nat) : Bool := decide (97 ≤ c) && decide (c ≤ 122)

/-- argon2: `_ident_regex = ^\$argon2[a-z]+\$` (re.match, no flags) -/
def argon2Identify (h : Str) : Bool :=
  match stripPrefix (ofString "$argon2") h with
  | some r => !(r.takeWhile isLowerAz).isEmpty && (r.dropWhile isLowerAz).head? == some DOLLAR
  | none => false

def argon2 : Format := idOnly "argon2" argon2Identify
/-- django_argon2 = PrefixWrapper(argon2.using(type="I"), prefix="argon2") -/
def django_argon2 : Format := wrapFormat "django_argon2" (ofString "argon2") [] argon2
def scrypt : Format := idOnly "scrypt" (identAny [ofString "$scrypt$", ofString "$7$"])
def scram : Format := idOnly "scram" (identByPrefix (ofString "$scram$"))
def fshp : Format := idOnly "fshp" (identByPrefix (ofString "{FSHP"))

/-! ### the remaining `ldap_<crypt scheme>` wrappers (`PrefixWrapper(…, prefix="{CRYPT}")`) -/
def sha1_crypt : Format := sha1_cryptX.toFormat
def ldap_des_crypt : Format := ldapCrypt des_crypt
def ldap_bsdi_crypt : Format := ldapCrypt bsdi_crypt
def ldap_bcrypt : Format := ldapCrypt bcrypt
def ldap_sha1_crypt : Format := ldapCrypt sha1_crypt

/-! ### the table: model, identify-shape and output-shape of every registered name -/
open Gen.Contexts (Name)

def pfx (s : Str) : Shape := [{ pre := s }]
def pfxs (l : List Str) : Shape := l.map fun s => { pre := s }

/-- characters `[./a-z0-9]` matches under re.IGNORECASE -/
def desCI : List Nat := h64 ++ [0x130, 0x131, 0x17F, 0x212A]

/-- ASCII characters outside a given set -/
def asciiExcept (keep : List Nat) : List Nat := (List.range 128).filter fun c => !keep.contains c

def hexLowerShape (n : Nat) : Shape := [{ lens := some [n], cls := .oneOf hexChars }]
def desShapeOf (lens : Option (List Nat)) : Shape := [{ lens := lens, cls := .oneOf (NL :: desCI) }]
def bcryptShape : Shape := pfxs bcryptIdents
def sha1cShape : Shape := pfx SHA1C_IDENT
def bsdiShape' : Shape := [{ pre := [UNDERSCORE], lens := some [9, 10, 20, 21], cls := .oneOf (UNDERSCORE :: NL :: desCI) }]
def crypted (s : Shape) : Shape := s.prepend CRYPT

/-- what the crypt()-style hashers EMIT (as opposed to what they claim): no line break anywhere -/
def noNL (s : Shape) : Shape := s.map fun b => { b with cls := .noneOf [NL] }
def desOut : Shape := [{ lens := some [13], cls := .oneOf h64 }]
def bsdiOut : Shape := [{ pre := [UNDERSCORE], lens := some [20], cls := .oneOf (UNDERSCORE :: h64) }]

structure Scheme where
  fmt : Format
  idShape : Shape
  /-- `none`: the identify-shape is used for the emitted strings too -/
  out : Option Shape := none
  /-- emits the password itself (plaintext, ldap_plaintext): its strings are claimed by whatever they look like -/
  plain : Bool := false
  /-- no parse / render model (identify only) -/
  modelled : Bool := true

def Scheme.outShape (s : Scheme) : Shape := s.out.getD s.idShape

def pbk (f : FormatX) : Format := f.toFormat

def scheme : Name → Scheme
  | .apr_md5_crypt => ⟨apr_md5_crypt, pfx (ofString "$apr1$"), none, false, true⟩
  | .argon2 => ⟨argon2, pfx (ofString "$argon2"), none, false, false⟩
  | .atlassian_pbkdf2_sha1 => ⟨pbk atlassian_pbkdf2_sha1X, pfx ATLASSIAN_IDENT, none, false, true⟩
  | .bcrypt => ⟨bcrypt, bcryptShape, some (noNL bcryptShape), false, true⟩
  | .bcrypt_sha256 => ⟨bcrypt_sha256, pfx BCRYPT_SHA256_PREFIX, none, false, true⟩
  | .bigcrypt => ⟨bigcrypt, desShapeOf none, none, false, true⟩
  | .bsd_nthash => ⟨bsd_nthash, (hexLowerShape 32).prepend (ofString "$3$$"), none, false, true⟩
  | .bsdi_crypt => ⟨bsdi_crypt, bsdiShape', some bsdiOut, false, true⟩
  | .cisco_asa => ⟨cisco_asa, [{ lens := some [16], cls := .oneOf h64 }], none, false, true⟩
  | .cisco_pix => ⟨cisco_pix, [{ lens := some [16], cls := .oneOf h64 }], none, false, true⟩
  | .cisco_type7 => ⟨cisco_type7, Shape.anything, none, false, true⟩
  | .crypt16 => ⟨crypt16, desShapeOf (some [2, 3, 24, 25]), none, false, true⟩
  | .cta_pbkdf2_sha1 => ⟨pbk cta_pbkdf2_sha1X, pfx P5K2_IDENT, none, false, true⟩
  | .des_crypt => ⟨des_crypt, desShapeOf (some [2, 3, 13, 14]), some desOut, false, true⟩
  | .django_argon2 => ⟨django_argon2, (pfx (ofString "$argon2")).prepend (ofString "argon2"), none, false, false⟩
  | .django_bcrypt => ⟨django_bcrypt, bcryptShape.prepend DJANGO_BCRYPT_PREFIX, none, false, true⟩
  | .django_bcrypt_sha256 => ⟨django_bcrypt_sha256, pfx DJANGO_BCRYPT_SHA256_PREFIX, none, false, true⟩
  | .django_des_crypt => ⟨django_des_crypt, pfx DJANGO_DES_IDENT, none, false, true⟩
  | .django_disabled => ⟨django_disabled, pfx Gen.Disabled.djangoPrefix, none, false, true⟩
  | .django_pbkdf2_sha1 => ⟨pbk django_pbkdf2_sha1X, pfx DJANGO_PBKDF2_SHA1_IDENT, none, false, true⟩
  | .django_pbkdf2_sha256 => ⟨pbk django_pbkdf2_sha256X, pfx DJANGO_PBKDF2_SHA256_IDENT, none, false, true⟩
  | .django_salted_md5 => ⟨pbk django_salted_md5X, pfx DJANGO_MD5_IDENT, none, false, true⟩
  | .django_salted_sha1 => ⟨pbk django_salted_sha1X, pfx DJANGO_SHA1_IDENT, none, false, true⟩
  | .dlitz_pbkdf2_sha1 => ⟨pbk dlitz_pbkdf2_sha1X, pfx P5K2_IDENT, none, false, true⟩
  | .fshp => ⟨fshp, pfx (ofString "{FSHP"), none, false, false⟩
  | .grub_pbkdf2_sha512 => ⟨pbk grub_pbkdf2_sha512X, pfx GRUB_IDENT, none, false, true⟩
  | .hex_md4 => ⟨hex_md4, hexLowerShape 32, none, false, true⟩
  | .hex_md5 => ⟨hex_md5, hexLowerShape 32, none, false, true⟩
  | .hex_sha1 => ⟨hex_sha1, hexLowerShape 40, none, false, true⟩
  | .hex_sha256 => ⟨hex_sha256, hexLowerShape 64, none, false, true⟩
  | .hex_sha512 => ⟨hex_sha512, hexLowerShape 128, none, false, true⟩
  | .htdigest => ⟨htdigest, [{ lens := some [32], cls := .oneOf lowerHex }], none, false, true⟩
  | .ldap_bcrypt => ⟨ldap_bcrypt, crypted bcryptShape, some (crypted (noNL bcryptShape)), false, true⟩
  | .ldap_bsdi_crypt => ⟨ldap_bsdi_crypt, crypted bsdiShape', some (crypted bsdiOut), false, true⟩
  | .ldap_des_crypt => ⟨ldap_des_crypt, crypted (desShapeOf (some [2, 3, 13, 14])), some (crypted desOut), false, true⟩
  | .ldap_hex_md5 => ⟨ldap_hex_md5, (hexLowerShape 32).prepend (ofString "{MD5}"), none, false, true⟩
  | .ldap_hex_sha1 => ⟨ldap_hex_sha1, (hexLowerShape 40).prepend (ofString "{SHA}"), none, false, true⟩
  | .ldap_md5 => ⟨ldap_md5, pfx (ofString "{MD5}"), some [{ pre := ofString "{MD5}", lens := some [29] }], false, true⟩
  | .ldap_md5_crypt => ⟨ldap_md5_crypt, crypted (pfx (ofString "$1$")), some (crypted (noNL (pfx (ofString "$1$")))), false, true⟩
  | .ldap_pbkdf2_sha1 => ⟨pbk ldap_pbkdf2_sha1X, pfx LDAP_PBKDF2_SHA1_PREFIX, none, false, true⟩
  | .ldap_pbkdf2_sha256 => ⟨pbk ldap_pbkdf2_sha256X, pfx LDAP_PBKDF2_SHA256_PREFIX, none, false, true⟩
  | .ldap_pbkdf2_sha512 => ⟨pbk ldap_pbkdf2_sha512X, pfx LDAP_PBKDF2_SHA512_PREFIX, none, false, true⟩
  | .ldap_plaintext => ⟨ldap_plaintext, [{ not2307 := true }], none, true, true⟩
  | .ldap_salted_md5 => ⟨ldap_salted_md5, pfx (ofString "{SMD5}"), none, false, true⟩
  | .ldap_salted_sha1 => ⟨ldap_salted_sha1, pfx (ofString "{SSHA}"), none, false, true⟩
  | .ldap_salted_sha256 => ⟨ldap_salted_sha256, pfx (ofString "{SSHA256}"), none, false, true⟩
  | .ldap_salted_sha512 => ⟨ldap_salted_sha512, pfx (ofString "{SSHA512}"), none, false, true⟩
  | .ldap_sha1 => ⟨ldap_sha1, pfx (ofString "{SHA}"), some [{ pre := ofString "{SHA}", lens := some [33] }], false, true⟩
  | .ldap_sha1_crypt => ⟨ldap_sha1_crypt, crypted sha1cShape, some (crypted (noNL sha1cShape)), false, true⟩
  | .ldap_sha256_crypt => ⟨ldap_sha256_crypt, crypted (pfx (ofString "$5$")), some (crypted (noNL (pfx (ofString "$5$")))), false, true⟩
  | .ldap_sha512_crypt => ⟨ldap_sha512_crypt, crypted (pfx (ofString "$6$")), some (crypted (noNL (pfx (ofString "$6$")))), false, true⟩
  | .lmhash => ⟨lmhash, hexLowerShape 32, none, false, true⟩
  | .md5_crypt => ⟨md5_crypt, pfx (ofString "$1$"), some (noNL (pfx (ofString "$1$"))), false, true⟩
  | .msdcc => ⟨msdcc, hexLowerShape 32, none, false, true⟩
  | .msdcc2 => ⟨msdcc2, hexLowerShape 32, none, false, true⟩
  | .mssql2000 => ⟨mssql2000, [{ pre := MSSQL_IDENT, lens := some [94] }], none, false, true⟩
  | .mssql2005 => ⟨mssql2005, [{ pre := MSSQL_IDENT, lens := some [54] }], none, false, true⟩
  | .mysql323 => ⟨mysql323, hexLowerShape 16, none, false, true⟩
  | .mysql41 => ⟨mysql41, [{ pre := [42], cls := .noneOf (asciiExcept (42 :: hexChars)) }], none, false, true⟩
  | .nthash => ⟨nthash, hexLowerShape 32, none, false, true⟩
  | .oracle10 => ⟨oracle10, [{ cls := .noneOf (asciiExcept hexChars) }], none, false, true⟩
  | .oracle11 => ⟨oracle11, Gen.PyCase.capSIgnoreCase.map fun s => { pre := [s, 58], lens := some [62, 63] }, none, false, true⟩
  | .pbkdf2_sha1 => ⟨pbk pbkdf2_sha1X, pfx PBKDF2_SHA1_IDENT, none, false, true⟩
  | .pbkdf2_sha256 => ⟨pbk pbkdf2_sha256X, pfx PBKDF2_SHA256_IDENT, none, false, true⟩
  | .pbkdf2_sha512 => ⟨pbk pbkdf2_sha512X, pfx PBKDF2_SHA512_IDENT, none, false, true⟩
  | .phpass => ⟨phpass, pfxs phpassIdents, none, false, true⟩
  | .plaintext => ⟨plaintext, Shape.anything, none, true, true⟩
  | .postgres_md5 => ⟨postgres_md5, [{ pre := ofString "md5", lens := some [35], cls := .oneOf (ofString "md5" ++ hexChars) }], none, false, true⟩
  | .roundup_plaintext => ⟨roundup_plaintext, Shape.anything.prepend (ofString "{plaintext}"), none, false, true⟩
  | .scram => ⟨scram, pfx (ofString "$scram$"), none, false, false⟩
  | .scrypt => ⟨scrypt, pfxs [ofString "$scrypt$", ofString "$7$"], none, false, false⟩
  | .sha1_crypt => ⟨sha1_crypt, sha1cShape, some (noNL sha1cShape), false, true⟩
  | .sha256_crypt => ⟨sha256_crypt, pfx (ofString "$5$"), some (noNL (pfx (ofString "$5$"))), false, true⟩
  | .sha512_crypt => ⟨sha512_crypt, pfx (ofString "$6$"), some (noNL (pfx (ofString "$6$"))), false, true⟩
  | .sun_md5_crypt => ⟨sun_md5_crypt, pfxs [SUN_IDENT, ofString "$md5,"], none, false, true⟩
  | .unix_disabled => ⟨unix_disabled, [{ lens := some [0] }, { pre := [42] }, { pre := [33] }], none, false, true⟩

/-! ### contexts -/
open Gen.Contexts (Ctx)

/-- the strings scheme `n` emits inside context `c` (a configured ident restricts them) -/
def outShapeIn (c : Ctx) (n : Name) : Shape :=
  match c.idents.lookup n with
  | some i => (scheme n).outShape.under (ofString i)
  | none => (scheme n).outShape

/-- NO SHADOWING, as a decidable test on shapes: in the configured order, no earlier scheme's identify-shape meets a
    later scheme's output-shape.  Pairs listed in `except` are skipped (they are proved to overlap instead);
    schemes that emit the password itself are never asked to be free of earlier claimants. -/
def okFrom (c : Ctx) (exc : List (Name × Name)) : List Name → List Name → Bool
  | _, [] => true
  | earlier, s :: rest =>
    ((scheme s).plain || earlier.all fun t => exc.contains (t, s) || Shape.disjoint (scheme t).idShape (outShapeIn c s)) &&
      okFrom c exc (earlier ++ [s]) rest

def ctxOk (c : Ctx) (exc : List (Name × Name) := []) : Bool := okFrom c exc [] c.schemes

/-- pairs (earlier, later) of a scheme list whose shapes are not disjoint -/
def overlaps (c : Ctx) : List (Name × Name) :=
  let rec go : List Name → List Name → List (Name × Name)
    | _, [] => []
    | earlier, s :: rest =>
      (earlier.filter fun t => !Shape.disjoint (scheme t).idShape (outShapeIn c s)).map (fun t => (t, s)) ++ go (earlier ++ [s]) rest
  go [] c.schemes

/-! ### `_init_htpasswd_context`, transcribed (Gen.Contexts.htpasswdTail pins the statements) -/
def indexOf? (x : Name) : List Name → Nat
  | [] => 0
  | y :: ys => if x = y then 0 else indexOf? x ys + 1

def insertBy (key : Name → Nat) (x : Name) : List Name → List Name
  | [] => [x]
  | y :: ys => if key x < key y then x :: y :: ys else y :: insertBy key x ys

/-- `sorted(set(schemes), key=preferred.index)`: distinct elements in order of first occurrence in `preferred` -/
def sortedSet (schemes preferred : List Name) : List Name :=
  (schemes.eraseDups).foldl (fun acc x => insertBy (fun n => indexOf? n preferred) x acc) []

def htpasswdBuild (moveLast : Bool) (host : List Name) : List Name :=
  let schemes := Gen.Contexts.htpasswdBuiltin ++ host
  let preferred := schemes.take 3 ++ [Name.apr_md5_crypt] ++ schemes
  let sorted := sortedSet schemes preferred
  if moveLast then sorted.erase Name.plaintext ++ [Name.plaintext] else sorted

/-- every order-preserving selection of a list (the hosts' crypt() may support any of `unix_crypt_schemes`) -/
def sublists : List Name → List (List Name)
  | [] => [[]]
  | x :: xs => (sublists xs).map (x :: ·) ++ sublists xs

end Model.Shapes
