import PasslibVerif.Model.Code.Wrap
/-
C03, bcrypt's capability detection: `passlib/handlers/bcrypt.py : _BcryptCommon._finalize_backend_mixin(mixin_cls, backend, dryrun)`
— statement by statement.  Every backend loader (`_BcryptBackend`, `_OsCryptBackend`, `_BuiltinBackend` `._load_backend_mixin`) ends with
`return mixin_cls._finalize_backend_mixin(name, dryrun)`; the class attributes it leaves are the `Flags` that
`_norm_digest_args` (Model/Code/Wrap.lean) reads.

The backend under test is a PARAMETER: `B secret hash` = what `mixin_cls.verify(secret, hash)` does (a truth value or an exception).
The function asks `verify` about at most 16 fixed (secret, hash) pairs (`Probe`); nothing else of the backend is looked at.
`dryrun` is accepted and never read by the code (so it is not an argument of the model's steps; `finalize` takes it and ignores it).
The class attributes are written one by one while the probes run: a call that raises leaves the attributes written so far and does NOT
set `_workrounds_initialized` — the outcome carries the attributes at exit in both cases.

Python values: `str`/`bytes` arguments are `Secret` (`.text` code points / `.bytes`), as in Model/Verify.lean.
-/
namespace Model.BcryptFinalize
open Py
open Model.Verify (Secret)
open Model.Code.Wrap (Flags)
open Model.Formats (IDENT_2 IDENT_2A IDENT_2B IDENT_2Y)
open Model.Handler (Str ofString)

/-- what `verify()` may raise, by how `_finalize_backend_mixin` treats it:
    `ValueError` (and every subclass: PasswordValueError, MalformedHashError, "unknown ident"…), `MissingBackendError` — `err_types`,
    trapped by `safe_verify`; `InternalBackendError` — trapped by `safe_verify`'s second clause; everything else is let through by
    `safe_verify`; the helpers `assert_lacks_8bit_bug` / `detect_wrap_bug` call `verify` directly and let EVERYTHING through. -/
inductive Exc
  | valueError | missingBackend | internalBackend
  | notImplemented | typeError | runtimeError | other (tag : Nat)
  deriving DecidableEq, Repr, Inhabited

def Exc.name : Exc → String
  | .valueError => "ValueError" | .missingBackend => "MissingBackendError" | .internalBackend => "InternalBackendError"
  | .notImplemented => "NotImplementedError" | .typeError => "TypeError" | .runtimeError => "RuntimeError"
  | .other t => "Other" ++ toString t

/-- `except err_types` / `except uh.exc.InternalBackendError` of `safe_verify` -/
def Exc.trapped : Exc → Bool
  | .valueError | .missingBackend | .internalBackend => true
  | _ => false

/-- a hash argument: `test_hash_20` and the 8-bit / wraparound vectors are bytes, `TEST_HASH_2A` and its `.replace`d copies are str -/
abbrev Hash := Secret

/-- the backend under test: `mixin_cls.verify(secret, hash)` (the truth value of what it returns, or what it raises) -/
abbrev Backend := Secret → Hash → Except Exc Bool

/-- the RuntimeErrors the function raises itself (one per `raise RuntimeError(...)` statement) -/
inductive Why
  | rejected20          -- "{backend} incorrectly rejected $2$ hash"
  | lacks2a             -- "{backend} lacks support for $2a$ hashes"
  | rejected2a | rejected2y | rejected2b   -- "{backend} incorrectly rejected $2?$ hash"
  | failed8bit (ident : Str)      -- "{backend} backend failed to verify {ident} 8bit hash"
  | failedWrap (ident : Str)      -- "{backend} backend failed to verify {ident} wraparound hash"
  | unexpectedWrap (ident : Str)  -- "{backend} backend unexpectedly has wraparound bug for {ident}"
  deriving DecidableEq, Repr

/-- how a call ends when it does not return True -/
inductive Fail
  | security (ident : Str)   -- PasslibSecurityError: the crypt_blowfish 8-bit bug (CVE-2011-2483) under `ident`
  | runtime (why : Why)      -- RuntimeError raised by the function
  | through (e : Exc)        -- an exception of `verify()` that is not trapped
  deriving DecidableEq, Repr

/-! ### the probe vectors -/

/-- `"test"` (a str) -/
def SECRET_TEST : Secret := .text (ofString "test")
/-- `test_hash_20 = b"$2$04$5BJqKfqMQvV7nS.yUguNcuRfMMOXK0xPWavM7pOzjEi5ze5T1k8/S"` -/
def TEST_HASH_20 : Hash := .bytes (ofString "$2$04$5BJqKfqMQvV7nS.yUguNcuRfMMOXK0xPWavM7pOzjEi5ze5T1k8/S")
/-- the tail of `TEST_HASH_2A = "$2a$04$5BJqKfqMQvV7nS.yUguNcueVirQqDBGaLXSqj.rs.pZPlNR0UX/HK"` after the ident; it contains neither
    "2a" again, so `TEST_HASH_2A.replace("2a", "2y")` / `("2a", "2b")` change the ident only -/
def TEST_TAIL : Str := ofString "04$5BJqKfqMQvV7nS.yUguNcueVirQqDBGaLXSqj.rs.pZPlNR0UX/HK"
/-- `TEST_HASH_2A`, `test_hash_2y`, `test_hash_2b` (str) by ident -/
def testHash (ident : Str) : Hash := .text (ident ++ TEST_TAIL)

/-- `secret = b"\xd1\x91"` of `assert_lacks_8bit_bug` -/
def SECRET_8BIT : Secret := .bytes [0xd1, 0x91]
/-- `bug_hash = ident.encode("ascii") + b"05$6bNw2HLQYeqHYyBfLMsv/OiwqTymGIGzFsA4hOTWebfehXHNprcAS"` -/
def bugHash8 (ident : Str) : Hash := .bytes (ident ++ ofString "05$6bNw2HLQYeqHYyBfLMsv/OiwqTymGIGzFsA4hOTWebfehXHNprcAS")
/-- `correct_hash = ident.encode("ascii") + b"05$6bNw2HLQYeqHYyBfLMsv/OUcZd0LKP39b87nBw3.S2tVZSqiQX6eu"` -/
def okHash8 (ident : Str) : Hash := .bytes (ident ++ ofString "05$6bNw2HLQYeqHYyBfLMsv/OUcZd0LKP39b87nBw3.S2tVZSqiQX6eu")

/-- `secret = (b"0123456789" * 26)[:255]` of `detect_wrap_bug` -/
def SECRET_WRAP : Secret := .bytes (((List.replicate 26 (ofString "0123456789")).flatten).take 255)
/-- `bug_hash = ident.encode("ascii") + b"04$R1lJ2gkNaoPGdafE.H.16.nVyh2niHsGJhayOHLMiXlI45o8/DU.6"` -/
def bugHashWrap (ident : Str) : Hash := .bytes (ident ++ ofString "04$R1lJ2gkNaoPGdafE.H.16.nVyh2niHsGJhayOHLMiXlI45o8/DU.6")
/-- `correct_hash = ident.encode("ascii") + b"04$R1lJ2gkNaoPGdafE.H.16.1MKHPvmKwryeulRe225LKProWYwt9Oi"` -/
def okHashWrap (ident : Str) : Hash := .bytes (ident ++ ofString "04$R1lJ2gkNaoPGdafE.H.16.1MKHPvmKwryeulRe225LKProWYwt9Oi")

/-! ### the class attributes -/

/-- the attributes of `mixin_cls` the function reads and writes (`_workrounds_initialized` + the `Flags` of Model/Code/Wrap.lean) -/
structure Attrs where
  initialized : Bool
  flags : Flags
  deriving DecidableEq, Repr

/-- the declarations in `_BcryptCommon`: everything False, `_fallback_ident = IDENT_2A` -/
def defaultAttrs : Attrs := ⟨false, ⟨false, false, false, false, IDENT_2A⟩⟩

/-- the attributes, and whether the PasslibSecurityWarning (bsd wraparound bug) was issued -/
structure St where
  attrs : Attrs
  warned : Bool
  deriving DecidableEq, Repr

/-- a block of statements: the state it leaves and, if it raised, what -/
abbrev Step := St → St × Option Fail

/-- statement sequencing: what follows a raise does not run -/
def Step.andThen (p q : Step) : Step := fun s =>
  match p s with
  | (s', none) => q s'
  | r => r

/-! ### the local helpers -/

/-- `safe_verify(secret, hash)`: `none` is `NotImplemented`
    ```
    try: return verify(secret, hash)
    except err_types: return NotImplemented
    except uh.exc.InternalBackendError: log.debug(...); return NotImplemented
    ``` -/
def safeVerify (B : Backend) (secret : Secret) (hash : Hash) : Except Fail (Option Bool) :=
  match B secret hash with
  | .ok r => .ok (some r)
  | .error e => if e.trapped then .ok none else .error (.through e)

/-- `assert_lacks_8bit_bug(ident)`:
    ```
    if verify(secret, bug_hash): raise PasslibSecurityError(...)
    if not verify(secret, correct_hash): raise RuntimeError(f"{backend} backend failed to verify {ident} 8bit hash")
    ``` -/
def assertLacks8bitBug (B : Backend) (ident : Str) : Option Fail :=
  match B SECRET_8BIT (bugHash8 ident) with
  | .error e => some (.through e)
  | .ok true => some (.security ident)
  | .ok false =>
    match B SECRET_8BIT (okHash8 ident) with
    | .error e => some (.through e)
    | .ok false => some (.runtime (.failed8bit ident))
    | .ok true => none

/-- `detect_wrap_bug(ident)`:
    ```
    if verify(secret, bug_hash): return True
    if not verify(secret, correct_hash): raise RuntimeError(f"{backend} backend failed to verify {ident} wraparound hash")
    return False
    ``` -/
def detectWrapBug (B : Backend) (ident : Str) : Except Fail Bool :=
  match B SECRET_WRAP (bugHashWrap ident) with
  | .error e => .error (.through e)
  | .ok true => .ok true
  | .ok false =>
    match B SECRET_WRAP (okHashWrap ident) with
    | .error e => .error (.through e)
    | .ok false => .error (.runtime (.failedWrap ident))
    | .ok true => .ok false

/-- `assert_lacks_wrap_bug(ident)`:
    ```
    if not detect_wrap_bug(ident): return
    raise RuntimeError(f"{backend} backend unexpectedly has wraparound bug for {ident}")
    ``` -/
def assertLacksWrapBug (B : Backend) (ident : Str) : Option Fail :=
  match detectWrapBug B ident with
  | .error f => some f
  | .ok false => none
  | .ok true => some (.runtime (.unexpectedWrap ident))

/-! ### the four blocks -/

/-- "check for old 20 support":
    ```
    result = safe_verify("test", test_hash_20)
    if result is NotImplemented: mixin_cls._lacks_20_support = True
    elif not result: raise RuntimeError(f"{backend} incorrectly rejected $2$ hash")
    ``` -/
def check20 (B : Backend) : Step := fun s =>
  match safeVerify B SECRET_TEST TEST_HASH_20 with
  | .error f => (s, some f)
  | .ok none => ({ s with attrs.flags.lacks20Support := true }, none)
  | .ok (some false) => (s, some (.runtime .rejected20))
  | .ok (some true) => (s, none)

/-- "check for 2a support" (`osCrypt`: `backend == "os_crypt"`, which only chooses between `log.debug` and `warn`):
    ```
    result = safe_verify("test", TEST_HASH_2A)
    if result is NotImplemented: raise RuntimeError(f"{backend} lacks support for $2a$ hashes")
    if not result: raise RuntimeError(f"{backend} incorrectly rejected $2a$ hash")
    assert_lacks_8bit_bug(IDENT_2A)
    if detect_wrap_bug(IDENT_2A):
        if backend == "os_crypt": log.debug(...)
        else: warn(..., uh.exc.PasslibSecurityWarning)
        mixin_cls._has_2a_wraparound_bug = True
    ``` -/
def check2a (B : Backend) (osCrypt : Bool) : Step := fun s =>
  match safeVerify B SECRET_TEST (testHash IDENT_2A) with
  | .error f => (s, some f)
  | .ok none => (s, some (.runtime .lacks2a))
  | .ok (some false) => (s, some (.runtime .rejected2a))
  | .ok (some true) =>
    match assertLacks8bitBug B IDENT_2A with
    | some f => (s, some f)
    | none =>
      match detectWrapBug B IDENT_2A with
      | .error f => (s, some f)
      | .ok true => ({ attrs := { s.attrs with flags.has2aWraparoundBug := true }, warned := s.warned || !osCrypt }, none)
      | .ok false => (s, none)

/-- "check for 2y support":
    ```
    test_hash_2y = TEST_HASH_2A.replace("2a", "2y")
    result = safe_verify("test", test_hash_2y)
    if result is NotImplemented: mixin_cls._lacks_2y_support = True
    elif not result: raise RuntimeError(f"{backend} incorrectly rejected $2y$ hash")
    else:
        assert_lacks_8bit_bug(IDENT_2Y)
        assert_lacks_wrap_bug(IDENT_2Y)
    ``` -/
def check2y (B : Backend) : Step := fun s =>
  match safeVerify B SECRET_TEST (testHash IDENT_2Y) with
  | .error f => (s, some f)
  | .ok none => ({ s with attrs.flags.lacks2ySupport := true }, none)
  | .ok (some false) => (s, some (.runtime .rejected2y))
  | .ok (some true) =>
    match assertLacks8bitBug B IDENT_2Y with
    | some f => (s, some f)
    | none => (s, assertLacksWrapBug B IDENT_2Y)

/-- "check for 2b support":
    ```
    test_hash_2b = TEST_HASH_2A.replace("2a", "2b")
    result = safe_verify("test", test_hash_2b)
    if result is NotImplemented: mixin_cls._lacks_2b_support = True
    elif not result: raise RuntimeError(f"{backend} incorrectly rejected $2b$ hash")
    else:
        mixin_cls._fallback_ident = IDENT_2B
        assert_lacks_8bit_bug(IDENT_2B)
        assert_lacks_wrap_bug(IDENT_2B)
    ```
    (`_fallback_ident` is written BEFORE the two assertions: it stays written when they raise) -/
def check2b (B : Backend) : Step := fun s =>
  match safeVerify B SECRET_TEST (testHash IDENT_2B) with
  | .error f => (s, some f)
  | .ok none => ({ s with attrs.flags.lacks2bSupport := true }, none)
  | .ok (some false) => (s, some (.runtime .rejected2b))
  | .ok (some true) =>
    let s := { s with attrs.flags.fallbackIdent := IDENT_2B }
    match assertLacks8bitBug B IDENT_2B with
    | some f => (s, some f)
    | none => (s, assertLacksWrapBug B IDENT_2B)

/-- `mixin_cls._workrounds_initialized = True` -/
def setInitialized : Step := fun s => ({ s with attrs.initialized := true }, none)

/-- what a call leaves and how it ends: `raised = none` is `return True` -/
structure Outcome where
  attrs : Attrs
  warned : Bool
  raised : Option Fail
  deriving DecidableEq, Repr

/-- `mixin_cls._finalize_backend_mixin(backend, dryrun)` on a class whose attributes are `a`
    (the `assert mixin_cls is bcrypt._backend_mixin_map[backend]` holds for every caller in the file):
    ```
    if mixin_cls._workrounds_initialized: return True
    …the four blocks…
    mixin_cls._workrounds_initialized = True
    return True
    ``` -/
def finalizeFrom (B : Backend) (osCrypt : Bool) (dryrun : Bool) (a : Attrs) : Outcome :=
  if a.initialized then ⟨a, false, none⟩
  else
    let r := ((((check20 B).andThen (check2a B osCrypt)).andThen (check2y B)).andThen (check2b B)).andThen setInitialized ⟨a, false⟩
    ⟨r.1.attrs, r.1.warned, r.2⟩

/-- the first call on a backend's mixin class (attributes as declared): the flags it leaves, or how it raised -/
def finalize (B : Backend) (osCrypt : Bool) (dryrun : Bool := false) : Except Fail Flags :=
  let o := finalizeFrom B osCrypt dryrun defaultAttrs
  match o.raised with
  | none => .ok o.attrs.flags
  | some f => .error f

/-! ### the 16 questions -/

/-- the (secret, hash) pairs the function can ask about, in the order of the source text -/
inductive Probe
  | t20 | t2a | bug8a | ok8a | bugWa | okWa | t2y | bug8y | ok8y | bugWy | okWy | t2b | bug8b | ok8b | bugWb | okWb
  deriving DecidableEq, Repr

def Probe.all : List Probe := [.t20, .t2a, .bug8a, .ok8a, .bugWa, .okWa, .t2y, .bug8y, .ok8y, .bugWy, .okWy, .t2b, .bug8b, .ok8b, .bugWb, .okWb]

def Probe.secret : Probe → Secret
  | .t20 | .t2a | .t2y | .t2b => SECRET_TEST
  | .bug8a | .ok8a | .bug8y | .ok8y | .bug8b | .ok8b => SECRET_8BIT
  | _ => SECRET_WRAP

def Probe.hash : Probe → Hash
  | .t20 => TEST_HASH_20 | .t2a => testHash IDENT_2A | .t2y => testHash IDENT_2Y | .t2b => testHash IDENT_2B
  | .bug8a => bugHash8 IDENT_2A | .ok8a => okHash8 IDENT_2A | .bugWa => bugHashWrap IDENT_2A | .okWa => okHashWrap IDENT_2A
  | .bug8y => bugHash8 IDENT_2Y | .ok8y => okHash8 IDENT_2Y | .bugWy => bugHashWrap IDENT_2Y | .okWy => okHashWrap IDENT_2Y
  | .bug8b => bugHash8 IDENT_2B | .ok8b => okHash8 IDENT_2B | .bugWb => bugHashWrap IDENT_2B | .okWb => okHashWrap IDENT_2B

/-- what `B` answers to a probe -/
def ask (B : Backend) (p : Probe) : Except Exc Bool := B p.secret p.hash

/-- a backend given by a table of answers (anything that is not a probe: `other 99`) — the synthetic backends of the correspondence run -/
def tableBackend (answers : List (Probe × Except Exc Bool)) : Backend := fun s h =>
  match answers.find? (fun e => e.1.secret == s && e.1.hash == h) with
  | some e => e.2
  | none => .error (.other 99)

end Model.BcryptFinalize
