import PasslibVerif.Gen.Backend
import PasslibVerif.Py.Basic
/-
Model of passlib's multi-backend machinery (`passlib.utils.handlers.BackendMixin` / `SubclassBackendMixin` /
`HasManyBackends`, bcrypt's `_NoBackend` stub and `bcrypt_sha256`'s checksum wrapper, `passlib.crypto.scrypt._set_backend`).

The host is a parameter: `load name` is what the backend's loader answers on this machine (True / False or
MissingBackendError / PasslibSecurityError).  The statement lists the model follows are pinned by the translator unit
`Backend`; the one place where the model is parametric in the source — how `_NoBackend._calc_checksum` continues after it has
loaded a backend — is `Gen.Backend.bcryptStub`.
-/
namespace Model.Backend
open Gen.Backend

inductive Load | ok | missing | security deriving DecidableEq, Repr

structure Host where
  load : String → Load

inductive Err | unknownBackend | missingBackend | securityError | assertion deriving DecidableEq, Repr

abbrev R := Except Err

/-- the class attribute `__backend` -/
abbrev St := Option String

/-- the tail of `set_backend` for a concrete backend name (validation, loader, commit) -/
def setNamed (h : Host) (backends : List String) (st : St) (name : String) (dryrun : Bool) : R String × St :=
  if name ≠ "" ∧ st = some name then (.ok name, st)
  else if name ∉ backends then (.error .unknownBackend, st)
  else match h.load name with
    | .ok => (.ok name, if dryrun then st else some name)
    | .missing => (.error .missingBackend, st)
    | .security => (.error .securityError, st)

/-- `for name in cls.backends: try: return cls.set_backend(name) except Missing: continue except Security as err: remember first` -/
def tryEach (h : Host) (backends : List String) (st : St) (dryrun : Bool) : List String → Option Err → R String × St
  | [], firstErr => (.error (firstErr.getD .missingBackend), st)
  | n :: rest, firstErr =>
    match setNamed h backends st n dryrun with
    | (.ok r, st') => (.ok r, st')
    | (.error .securityError, _) => tryEach h backends st dryrun rest (some (firstErr.getD .securityError))
    | (.error .missingBackend, _) => tryEach h backends st dryrun rest firstErr
    | (.error e, _) => (.error e, st)

/-- `BackendMixin.set_backend(name="any", dryrun=False)` -/
def setBackend (h : Host) (backends : List String) (st : St) (name : String) (dryrun : Bool) : R String × St :=
  if name = "any" ∧ st.isSome then (.ok (st.getD ""), st)
  else if name = "any" ∨ name = "default" then tryEach h backends st dryrun backends none
  else setNamed h backends st name dryrun

/-- `get_backend()` -/
def getBackend (h : Host) (backends : List String) (st : St) : R String × St :=
  match st with
  | some b => (.ok b, st)
  | none => match setBackend h backends st "any" false with
    | (.ok _, some b) => (.ok b, some b)
    | (.ok _, none) => (.error .assertion, none)
    | (.error e, st') => (.error e, st')

/-- `has_backend(name)`: True / False; an unknown name is a ValueError -/
def hasBackend (h : Host) (backends : List String) (st : St) (name : String) : R Bool :=
  match (setBackend h backends st name true).1 with
  | .ok _ => .ok true
  | .error .missingBackend => .ok false
  | .error .securityError => .ok false
  | .error e => .error e

/-! ### which code computes a checksum -/

/-- symbolic answer of `instance._calc_checksum(secret)`: the backend whose code ran and how many times the class's own
    pre-hash wrapper was applied to the secret on the way -/
structure Calc where
  backend : String
  prehashes : Nat
  deriving DecidableEq, Repr

/-- `HasManyBackends`: `_calc_checksum → _calc_checksum_backend`; the class attribute is the stub until a backend is
    loaded; the stub loads the default backend and calls the (now replaced) attribute -/
def calcMany (h : Host) (backends : List String) (st : St) : R Calc × St :=
  match st with
  | some b => (.ok ⟨b, 0⟩, st)
  | none => match setBackend h backends st "any" false with
    | (.ok _, some b) => (.ok ⟨b, 0⟩, some b)
    | (.ok _, none) => (.error .assertion, none)
    | (.error e, st') => (.error e, st')

/-- bcrypt family (`SubclassBackendMixin`): a class with `layers` wrapper layers above the owner applies them, then the
    owner's base provides `_calc_checksum`: the loaded backend's, or the `_NoBackend` stub, which loads the default backend and
    continues according to `stub` -/
def calcSubclass (stub : StubKind) (h : Host) (backends : List String) (st : St) (layers : Nat) : R Calc × St :=
  match st with
  | some b => (.ok ⟨b, layers⟩, st)
  | none => match setBackend h backends st "any" false with
    | (.ok _, some b) =>
      (match stub with
        | .superOfOwner => (.ok ⟨b, layers⟩, some b)        -- super(bcrypt, self): the backend's method, nothing re-applied
        | .selfDispatch => (.ok ⟨b, layers + layers⟩, some b)) -- self._calc_checksum: starts again at the most derived class
    | (.ok _, none) => (.error .assertion, none)
    | (.error e, st') => (.error e, st')

/-- `os_crypt` code path of the HasManyBackends hashers: crypt() cannot take non-UTF-8 bytes (`safe_crypt` returns None),
    the builtin code is used for that password -/
def effectiveCode (fallsBack : Bool) (backend : String) (utf8 : Bool) : Option String :=
  if backend = "os_crypt" ∧ ¬ utf8 then (if fallsBack then some "builtin" else none) else some backend

/-! ### scrypt: a module-level switch, always initialised at import -/

def scryptSet (h : Host) (backends : List String) (cur : String) (name : String) (dryrun : Bool) : R Unit × String :=
  if name = "any" then (.ok (), cur)
  else if name = "default" then
    match backends.find? (fun b => h.load b = .ok) with
    | some b => (.ok (), if dryrun then cur else b)
    | none => (.error .missingBackend, cur)
  else if name ∉ backends then (.error .unknownBackend, cur)
  else match h.load name with
    | .ok => (.ok (), if dryrun then cur else name)
    | _ => (.error .missingBackend, cur)

/-! ### a process: one state per backend owner -/

structure Owner where
  name : String
  backends : List String
  deriving DecidableEq, Repr

/-- operations of a history; each names the owner it is called on -/
inductive Op
  | set (owner : String) (name : String) (dryrun : Bool)
  | get (owner : String)
  | has (owner : String) (name : String)
  | checksum (owner : String) (layers : Nat)
  deriving DecidableEq, Repr

abbrev World := List (String × St)

def lookupSt (w : World) (o : String) : St := (w.lookup o).getD none
def updateSt (w : World) (o : String) (s : St) : World := (o, s) :: w.filter (fun p => p.1 ≠ o)

inductive Out
  | name (r : R String)
  | bool (r : R Bool)
  | checksum (r : R Calc)
  deriving DecidableEq, Repr

/-- `hs o` is what the loaders of hasher `o` answer on this machine -/
def step (stub : StubKind) (hs : String → Host) (owners : List Owner) (w : World) : Op → Out × World
  | .set o n d => match owners.find? (·.name = o) with
    | none => (.name (.error .unknownBackend), w)
    | some ow => let r := setBackend (hs o) ow.backends (lookupSt w o) n d; (.name r.1, updateSt w o r.2)
  | .get o => match owners.find? (·.name = o) with
    | none => (.name (.error .unknownBackend), w)
    | some ow => let r := getBackend (hs o) ow.backends (lookupSt w o); (.name r.1, updateSt w o r.2)
  | .has o n => match owners.find? (·.name = o) with
    | none => (.bool (.error .unknownBackend), w)
    | some ow => (.bool (hasBackend (hs o) ow.backends (lookupSt w o) n), w)
  | .checksum o layers => match owners.find? (·.name = o) with
    | none => (.checksum (.error .unknownBackend), w)
    | some ow =>
      let r := if o = "bcrypt" then calcSubclass stub (hs o) ow.backends (lookupSt w o) layers else calcMany (hs o) ow.backends (lookupSt w o)
      (.checksum r.1, updateSt w o r.2)

def run (stub : StubKind) (hs : String → Host) (owners : List Owner) : World → List Op → List Out × World
  | w, [] => ([], w)
  | w, op :: rest =>
    let r := step stub hs owners w op
    let rr := run stub hs owners r.2 rest
    (r.1 :: rr.1, rr.2)

end Model.Backend
