import PasslibVerif.Py.Basic
import PasslibVerif.Gen.B64
import PasslibVerif.Spec.Rfc4648
/-
Hand-written control skeleton of passlib.utils.binary.Base64Engine on top of the
GENERATED chunk/tail bodies (Gen.B64).  `source` bytes and 6-bit values are `Nat`s.
-/
namespace Model.B64
open Py Gen.B64

structure Engine where
  charmap : List Nat
  big : Bool

def h64 : Engine := ⟨h64_charmap, h64_big⟩
def h64big : Engine := ⟨h64big_charmap, h64big_big⟩
def bcrypt64 : Engine := ⟨bcrypt64_charmap, bcrypt64_big⟩
def lpH64 : Engine := ⟨lp_h64_engine_charmap, lp_h64_engine_big⟩

/-- `_encode_bytes_{little,big}`: bytes -> 6-bit values (divmod(len,3) chunks, then tail) -/
def enc6 (big : Bool) : List Nat → List Nat
  | v1 :: v2 :: v3 :: rest =>
      (if big then encBigChunk v1 v2 v3 else encLittleChunk v1 v2 v3) ++ enc6 big rest
  | [v1, v2] => if big then encBigTail2 v1 v2 else encLittleTail2 v1 v2
  | [v1] => if big then encBigTail1 v1 else encLittleTail1 v1
  | [] => []

/-- libpass' module-level copies -/
def lpEnc6 (big : Bool) : List Nat → List Nat
  | v1 :: v2 :: v3 :: rest =>
      (if big then lpEncBigChunk v1 v2 v3 else lpEncLittleChunk v1 v2 v3) ++ lpEnc6 big rest
  | [v1, v2] => if big then lpEncBigTail2 v1 v2 else lpEncLittleTail2 v1 v2
  | [v1] => if big then lpEncBigTail1 v1 else lpEncLittleTail1 v1
  | [] => []

/-- `_decode_bytes_{little,big}` on 6-bit values; a 1-element tail is rejected earlier. -/
def dec6 (big : Bool) : List Nat → List Nat
  | v1 :: v2 :: v3 :: v4 :: rest =>
      (if big then decBigChunk v1 v2 v3 v4 else decLittleChunk v1 v2 v3 v4) ++ dec6 big rest
  | [v1, v2, v3] => if big then decBigTail3 v1 v2 v3 else decLittleTail3 v1 v2 v3
  | [v1, v2] => if big then decBigTail2 v1 v2 else decLittleTail2 v1 v2
  | [_] => []
  | [] => []

def encode64 (cm : List Nat) (v : Nat) : Nat := cm.getD v 0

/-- `lookup.__getitem__` : position of a byte in the charmap -/
def decode64 (cm : List Nat) (c : Nat) : Option Nat :=
  let i := cm.idxOf c
  if i < cm.length then some i else none

def encodeBytes (e : Engine) (src : Bytes) : Bytes := (enc6 e.big src).map (encode64 e.charmap)

def lpEncodeBytes (e : Engine) (src : Bytes) : Bytes := (lpEnc6 e.big src).map (encode64 e.charmap)

def decodeAll (cm : List Nat) : List Nat → Option (List Nat)
  | [] => some []
  | c :: cs => match decode64 cm c, decodeAll cm cs with
      | some v, some vs => some (v :: vs)
      | _, _ => none

/-- `decode_bytes`: length check first, then (lazily, but with the same outcome) the
    KeyError -> ValueError mapping -/
def decodeBytes (e : Engine) (src : Bytes) : Res Bytes :=
  if src.length % 4 = 1 then .error .valueError
  else match decodeAll e.charmap src with
    | none => .error .valueError
    | some vs => .ok (dec6 e.big vs)

/-! padding bits / repair -/
def padBits (e : Engine) (tail : Nat) : Nat :=
  if tail = 2 then (if e.big then padinfo2BitsBig else padinfo2BitsLittle)
  else (if e.big then padinfo3BitsBig else padinfo3BitsLittle)

/-- `check_repair_unused` on bytes input: (repaired?, result) -/
def checkRepairUnused (e : Engine) (src : Bytes) : Res (Bool × Bytes) :=
  let tail := src.length % 4
  if tail = 0 then .ok (false, src)
  else if tail = 1 then .error .valueError
  else
    let bits := padBits e tail
    match src.getLast? with
    | none => .ok (false, src)
    | some last =>
      match decode64 e.charmap last with
      | none => .error .keyError       -- real code (bytes input): `self._decode64(last)` KeyError escapes; callers validate chars first
      | some v =>
        if v &&& bits = 0 then .ok (false, src)
        else .ok (true, src.dropLast ++ [encode64 e.charmap (v &&& (63 - bits))])

/-! integer codecs -/
def encodeIntOffsets (big : Bool) (bits : Nat) : List Nat :=
  let pad := (6 - bits % 6) % 6
  let tot := bits + pad
  let offs := (List.range (tot / 6)).map (· * 6)
  if big then offs.reverse else offs

/-- `_encode_int(value, bits)` -/
def encodeInt (e : Engine) (value bits : Nat) : Bytes :=
  let pad := (6 - bits % 6) % 6
  let v := if e.big then value <<< pad else value
  (encodeIntOffsets e.big bits).map fun off => encode64 e.charmap ((v >>> off) &&& 63)

def foldDigits (vs : List Nat) : Nat := vs.foldl (fun out d => (out <<< 6) + d) 0

/-- `_decode_int(source, bits)` -/
def decodeInt (e : Engine) (src : Bytes) (bits : Nat) : Res Nat :=
  let pad := (6 - bits % 6) % 6
  let chars := (bits + pad) / 6
  if src.length ≠ chars then .error .valueError
  else match decodeAll e.charmap (if e.big then src else src.reverse) with
    | none => .error .valueError
    | some vs =>
      let out := foldDigits vs
      .ok (if pad = 0 then out else if e.big then out >>> pad else out &&& (2 ^ bits - 1))

def encodeInt6 (e : Engine) (v : Nat) : Res Bytes :=
  if v > 63 then .error .valueError else .ok [encode64 e.charmap v]

def encodeInt12 (e : Engine) (v : Nat) : Res Bytes :=
  if v > encode_int12_max then .error .valueError
  else
    let raw := encode_int12_raw v
    .ok ((if e.big then raw.reverse else raw).map (encode64 e.charmap))

def encodeInt24 (e : Engine) (v : Nat) : Res Bytes :=
  if v > encode_int24_max then .error .valueError
  else
    let raw := encode_int24_raw v
    .ok ((if e.big then raw.reverse else raw).map (encode64 e.charmap))

def encodeInt30 (e : Engine) (v : Nat) : Res Bytes :=
  if v > encode_int30_max then .error .valueError else .ok (encodeInt e v encode_int30_bits)

def encodeInt64 (e : Engine) (v : Nat) : Res Bytes :=
  if v > encode_int64_max then .error .valueError else .ok (encodeInt e v encode_int64_bits)

def decodeInt6 (e : Engine) (src : Bytes) : Res Nat :=
  match src with
  | [c] => match decode64 e.charmap c with
      | some v => .ok v
      | none => .error .valueError
  | _ => .error .valueError

def decodeInt12 (e : Engine) (src : Bytes) : Res Nat :=
  match src with
  | [a, b] => match decode64 e.charmap a, decode64 e.charmap b with
      | some x, some y => .ok (if e.big then decode_int12_big x y else decode_int12_little x y)
      | _, _ => .error .valueError
  | _ => .error .valueError

def decodeInt24 (e : Engine) (src : Bytes) : Res Nat :=
  match src with
  | [a, b, c, d] =>
    match decode64 e.charmap a, decode64 e.charmap b, decode64 e.charmap c, decode64 e.charmap d with
      | some x, some y, some z, some w =>
          .ok (if e.big then decode_int24_big x y z w else decode_int24_little x y z w)
      | _, _, _, _ => .error .valueError
  | _ => .error .valueError

/-! transposed codecs -/
def transpose (src : Bytes) (offsets : List Nat) : Option Bytes :=
  offsets.mapM fun off => src[off]?

/-- `encode_transposed_bytes` (IndexError when an offset is out of range) -/
def encodeTransposed (e : Engine) (src : Bytes) (offsets : List Nat) : Res Bytes :=
  match transpose src offsets with
  | some t => .ok (encodeBytes e t)
  | none => .error .indexError

/-- inverse placement: `buf[off] = char for off, char in zip(offsets, tmp)`; positions never
    written stay `None` (bytes(buf) then raises TypeError) -/
def untranspose (tmp : Bytes) (offsets : List Nat) : Res Bytes :=
  let n := offsets.length
  let buf : List (Option Nat) :=
    (offsets.zip tmp).foldl (fun b (p : Nat × Nat) => b.set p.1 (some p.2)) (List.replicate n none)
  if (offsets.zip tmp).any (fun p => p.1 ≥ n) then .error .indexError
  else match buf.mapM id with
    | some bs => .ok bs
    | none => .error .typeError

def decodeTransposed (e : Engine) (src : Bytes) (offsets : List Nat) : Res Bytes :=
  match decodeBytes e src with
  | .error k => .error k
  | .ok tmp => untranspose tmp offsets

/-! ### b64s / ab64 / b32 helpers.  The C codecs (binascii, base64) are external: they are
modelled by the RFC 4648 transcription in `Spec.Rfc4648` and tied to it by correspondence. -/

/-- `b2a_base64(data).rstrip(b"=\n")` -/
def b64sEncode (data : Bytes) : Bytes := Spec.Rfc4648.base64NoPad data

/-- `b64s_decode` on input over the standard alphabet (the lenient skipping of foreign
    characters by `a2b_base64` is outside the model: `none`). -/
def b64sDecode (data : Bytes) : Option (Res Bytes) :=
  if data.length % 4 = 1 then some (.error .valueError)
  else match decodeAll Spec.Rfc4648.stdAlphabet data with
    | none => none
    | some vs => match Spec.Rfc4648.ungroups64 vs with
      | some bs => some (.ok bs)
      | none => none

/-- `.replace(b"+", b".")` -/
def plusToDot (c : Nat) : Nat := if c = 43 then 46 else c
def dotToPlus (c : Nat) : Nat := if c = 46 then 43 else c

def ab64Encode (data : Bytes) : Bytes := (b64sEncode data).map plusToDot
def ab64Decode (data : Bytes) : Option (Res Bytes) := b64sDecode (data.map dotToPlus)

/-- `b32encode`: `_b32encode(source).rstrip(b"=")` -/
def b32encode (src : Bytes) : Bytes := Spec.Rfc4648.base32NoPad src

def upper (c : Nat) : Nat := if 97 ≤ c ∧ c ≤ 122 then c - 32 else c

/-- `b32decode`: typo translation, re-padding, then `base64.b32decode(source, True)`
    (casefold).  Invalid characters / impossible lengths raise `binascii.Error`, a
    ValueError. -/
def rstripEq (s : Bytes) : Bytes := (s.reverse.dropWhile (· = 61)).reverse

def b32decode (src : Bytes) : Res Bytes :=
  let s := src.map fun c => upper (b32_translate.getD c c)
  let t := rstripEq s
  let total := (src.length + 7) / 8 * 8          -- after passlib's re-padding
  let padchars := total - t.length               -- what base64.b32decode strips
  if padchars ∉ [0, 1, 3, 4, 6] then .error .valueError
  else match decodeAll Spec.Rfc4648.b32Alphabet t with
  | none => .error .valueError
  | some vs => match Spec.Rfc4648.ungroups32 vs with
    | some bs => .ok bs
    | none => .error .valueError

end Model.B64
