import PasslibVerif.Model.PyUtil
import PasslibVerif.Model.Formats.Md5Sha2
import PasslibVerif.Model.Formats.DesBcrypt
import PasslibVerif.Model.Formats.Pbkdf
import PasslibVerif.Gen.OsCrypt
/-
C03 — the os_crypt back ends of the crypt-family hashers, statement by statement
(passlib/handlers/des_crypt.py `des_crypt`, `bsdi_crypt`; md5_crypt.py `md5_crypt`; sha1_crypt.py `sha1_crypt`;
 sha2_crypt.py `_SHA2_Common` = `sha256_crypt`, `sha512_crypt`):

    @classmethod
    def _load_backend_os_crypt(cls):
        if test_crypt("test", <known hash>):
            cls._set_calc_checksum_backend(cls._calc_checksum_os_crypt)
            return True
        return False

    def _calc_checksum_os_crypt(self, secret):
        config = …                                   # per class
        hash = safe_crypt(secret, config)
        if hash is None:
            return self._calc_checksum_builtin(secret)
        if <shape test fails>: raise uh.exc.CryptBackendError(self, config, hash)       # an InternalBackendError
        return hash[<slice>]

Parameters: the C library's crypt() (`crypt : Model.PyUtil.Crypt`, under `safeCryptT` / `testCryptT` of Model/PyUtil.lean) and the
class's builtin routine (`builtin : Arg → PRes Str`: what `self._calc_checksum_builtin(secret)` does for this instance).
The probe vectors and the numbers of the shape tests / slices come from the source through Gen/OsCrypt.lean.
The config strings are built with the C07 render models (Model/Formats): `sha2Render`, `bsdiRender`, `renderMc3G`.
-/
namespace Model.OsCryptBackend
open Py Model.PyUtil
open Model.Handler (Parsed DOLLAR)

inductive Cls | des_crypt | bsdi_crypt | md5_crypt | sha1_crypt | sha256_crypt | sha512_crypt
  deriving DecidableEq, Repr

def Cls.all : List Cls := [.des_crypt, .bsdi_crypt, .md5_crypt, .sha1_crypt, .sha256_crypt, .sha512_crypt]

def Cls.name : Cls → String
  | .des_crypt => "des_crypt" | .bsdi_crypt => "bsdi_crypt" | .md5_crypt => "md5_crypt"
  | .sha1_crypt => "sha1_crypt" | .sha256_crypt => "sha256_crypt" | .sha512_crypt => "sha512_crypt"

/-- what `_calc_checksum_os_crypt` can end in besides a checksum -/
inductive OcErr
  | py (e : Err)                 -- raised inside safe_crypt / by the builtin routine
  | internalBackendError         -- `uh.exc.CryptBackendError(...)` raises passlib.exc.InternalBackendError (a RuntimeError)
  | indexError                   -- `hash[-cs - 1]` on a string that is too short (sha2 classes)
  deriving DecidableEq, Repr

def OcErr.name : OcErr → String
  | .py e => e.name
  | .internalBackendError => "InternalBackendError"
  | .indexError => "IndexError"

abbrev ORes (α : Type) := Except OcErr α

def liftP {α} : PRes α → ORes α
  | .ok a => .ok a
  | .error e => .error (.py e)

/-- the attributes of the hasher object that `_calc_checksum_os_crypt` reads -/
structure Inst where
  salt : Str
  rounds : Int := 0                  -- bsdi_crypt, sha1_crypt, sha2
  implicitRounds : Bool := false     -- sha2
  checksum : Option Str := none      -- set while verifying (`to_string()` of bsdi_crypt / sha2 includes it)
  deriving DecidableEq, Repr

/-! ### the probe -/

/-- the `test_crypt` arguments of the class (Gen.OsCrypt.probes, read from the source) -/
def probeVector (c : Cls) : Str × Str :=
  match Gen.OsCrypt.probes.find? (·.1 == c.name) with
  | some (_, s, h) => (s, h)
  | none => ([], [])

/-- which function `cls._calc_checksum_backend` is -/
inductive Calc | stub | osCrypt | builtin
  deriving DecidableEq, Repr

/-- `_load_backend_os_crypt` under `set_backend(name, dryrun)`: the calls of crypt(), the return value, and `_calc_checksum_backend`
    afterwards (`_set_calc_checksum_backend` assigns only `if not cls._pending_dry_run`) -/
def loadOsCryptT (crypt : Crypt) (c : Cls) (dryrun : Bool) (cur : Calc) : Traced (PRes (Bool × Calc)) :=
  let v := probeVector c
  match testCryptT crypt (.text v.1) (.text v.2) with
  | (calls, .error e) => (calls, .error e)
  | (calls, .ok true) => (calls, .ok (true, if dryrun then cur else .osCrypt))
  | (calls, .ok false) => (calls, .ok (false, cur))

/-- the loader's answer: is the os_crypt backend advertised -/
def loadOsCrypt (crypt : Crypt) (c : Cls) : Bool :=
  match (loadOsCryptT crypt c false .stub).2 with
  | .ok (b, _) => b
  | .error _ => false

/-! ### the config string -/

def ident : Cls → Str
  | .md5_crypt => Gen.OsCrypt.md5_crypt_ident
  | .sha1_crypt => Gen.OsCrypt.sha1_crypt_ident
  | .sha256_crypt => Gen.OsCrypt.sha256_crypt_ident
  | .sha512_crypt => Gen.OsCrypt.sha512_crypt_ident
  | _ => []

def toParsed (c : Cls) (i : Inst) : Parsed :=
  { ident := ident c, rounds := some i.rounds, salt := some i.salt, checksum := i.checksum,
    extra := Model.Formats.implicitFlag i.implicitRounds }

/-- the second argument of `safe_crypt`:
    des_crypt `self.salt` · bsdi_crypt `self.to_string()` · md5_crypt `self.ident + self.salt` ·
    sha1_crypt `self.to_string(config=True)` · sha2 `self.to_string()` -/
def config (c : Cls) (i : Inst) : Str :=
  match c with
  | .des_crypt => i.salt
  | .bsdi_crypt => Model.Formats.bsdiRender (toParsed c i)
  | .md5_crypt => ident c ++ i.salt
  | .sha1_crypt => Model.Formats.renderMc3G DOLLAR false (ident c) (some i.rounds) i.salt none
  | .sha256_crypt | .sha512_crypt => Model.Formats.sha2Render (toParsed c i)

/-! ### the shape test and the slice -/

/-- `hash[-n:]` for n > 0 -/
def lastN (n : Nat) (h : Str) : Str := h.drop (h.length - n)

/-- `hash[-n]` for n > 0 (`none` = IndexError) -/
def negIndex (n : Nat) (h : Str) : Option Nat := if h.length < n then none else h[h.length - n]?

def csSize : Cls → Nat
  | .sha512_crypt => Gen.OsCrypt.sha512_crypt_cs
  | _ => Gen.OsCrypt.sha256_crypt_cs

/-- the statements after the `None` test: shape test, `CryptBackendError`, slice -/
def sliceChecksum (c : Cls) (i : Inst) (hash : Str) : ORes Str :=
  let config := config c i
  match c with
  | .des_crypt =>
    -- if not hash.startswith(self.salt) or len(hash) != 13: raise …;  return hash[2:]
    if !pyStartsWith hash i.salt || hash.length != Gen.OsCrypt.des_crypt_len then .error .internalBackendError
    else .ok (hash.drop Gen.OsCrypt.des_crypt_drop)
  | .bsdi_crypt =>
    -- if not hash.startswith(config[:9]) or len(hash) != 20: raise …;  return hash[-11:]
    if !pyStartsWith hash (config.take Gen.OsCrypt.bsdi_crypt_pfx) || hash.length != Gen.OsCrypt.bsdi_crypt_len then .error .internalBackendError
    else .ok (lastN Gen.OsCrypt.bsdi_crypt_tail hash)
  | .md5_crypt =>
    -- if not hash.startswith(config) or len(hash) != len(config) + 23: raise …;  return hash[-22:]
    if !pyStartsWith hash config || hash.length != config.length + Gen.OsCrypt.md5_crypt_extra then .error .internalBackendError
    else .ok (lastN Gen.OsCrypt.md5_crypt_tail hash)
  | .sha1_crypt =>
    -- if not hash.startswith(config) or len(hash) != len(config) + 29: raise …;  return hash[-28:]
    if !pyStartsWith hash config || hash.length != config.length + Gen.OsCrypt.sha1_crypt_extra then .error .internalBackendError
    else .ok (lastN Gen.OsCrypt.sha1_crypt_tail hash)
  | .sha256_crypt | .sha512_crypt =>
    -- cs = self.checksum_size
    -- if not hash.startswith(self.ident) or hash[-cs - 1 : -cs] != _UDOLLAR: raise …;  return hash[-cs:]
    -- (a slice, not an index: an answer shorter than cs + 1 gives "" ≠ "$" — the documented error, fix d9967b3; it used to be an IndexError)
    let cs := csSize c
    if !pyStartsWith hash (ident c) then .error .internalBackendError
    else match negIndex (cs + 1) hash with
      | none => .error .internalBackendError
      | some ch => if ch != DOLLAR then .error .internalBackendError else .ok (lastN cs hash)

/-- `self._calc_checksum_os_crypt(secret)` with the calls made to crypt() -/
def calcChecksumOsCryptT (crypt : Crypt) (builtin : Arg → PRes Str) (c : Cls) (i : Inst) (secret : Arg) : Traced (ORes Str) :=
  match safeCryptT crypt secret (.text (config c i)) with
  | (calls, .error e) => (calls, .error (.py e))
  | (calls, .ok none) => (calls, liftP (builtin secret))          -- if hash is None: return self._calc_checksum_builtin(secret)
  | (calls, .ok (some hash)) => (calls, sliceChecksum c i hash)

def calcChecksumOsCrypt (crypt : Crypt) (builtin : Arg → PRes Str) (c : Cls) (i : Inst) (secret : Arg) : ORes Str :=
  (calcChecksumOsCryptT crypt builtin c i secret).2

/-- `self._calc_checksum_backend(secret)` once a backend has been chosen -/
def calcChecksumBackend (crypt : Crypt) (builtin : Arg → PRes Str) (sel : Calc) (c : Cls) (i : Inst) (secret : Arg) : Option (ORes Str) :=
  match sel with
  | .stub => none
  | .osCrypt => some (calcChecksumOsCrypt crypt builtin c i secret)
  | .builtin => some (liftP (builtin secret))

end Model.OsCryptBackend
