import PasslibVerif.Py.Fmt
import PasslibVerif.Gen.Totp
import PasslibVerif.Gen.PyUnicode
/-
Model of passlib.totp: HOTP truncation and rendering, counters, token normalisation,
`match` / `_find_match`, TotpMatch fields.  The HMAC is a parameter (`gen`/`digest`);
all arithmetic comes from Gen.Totp.
-/
namespace Model.Totp
open Py Gen.Totp

/-! ### token generation -/

/-- big-endian 32-bit word from 4 bytes (`struct ">I"`) -/
def be32 (bs : Bytes) : Nat := bs.foldl (fun acc b => acc * 256 + b) 0

/-- `_unpack_uint32(digest[offset:offset+4])[0] & 0x7FFFFFFF` with `offset = digest[-1] & 0xF`;
    `none` when the slice is not 4 bytes long (struct.error) or the digest is empty -/
def hotpValue (digest : Bytes) : Option Nat :=
  match digest.getLast? with
  | none => none
  | some last =>
    let off := dtOffset last
    let sl := (digest.drop off).take dtSliceLen
    if sl.length = 4 then some (dtMask (be32 sl)) else none

/-- `("%0*d" % (digits, value))[-digits:]` as digit values -/
def renderToken (digits value : Nat) : List Nat :=
  let s := decDigitsPadded digits value
  s.drop (s.length - digits)

/-- `_pack_uint64(counter)` -/
def packUint64 (c : Nat) : Bytes := (Digits.toDigits 256 8 c).reverse

/-- `_generate(counter)` as code points, for an HMAC given as a function of the message -/
def generate (mac : Bytes → Bytes) (digits counter : Nat) : Option (List Nat) :=
  (hotpValue (mac (packUint64 counter))).map fun v => (renderToken digits v).map digitChar

/-! ### token normalisation -/
inductive TokIn
  | int (n : Int)
  | text (cps : List Nat)

def normalizeToken (digits : Nat) : TokIn → Res (List Nat)
  | .int n =>
    let s := fmtZeroPad digits n
    if s.length ≠ digits then .error .tokenMalformed else .ok s
  | .text cps =>
    let t := cps.filter (fun c => !cleanRemoved.contains c)
    if t.isEmpty || !(t.all (Gen.PyUnicode.isdigit.contains ·)) then .error .tokenMalformed
    else if t.length ≠ digits then .error .tokenMalformed
    else .ok t

/-! ### matching -/

/-- the search loop of `_find_match` over counters start, start+1, … (n of them) -/
def findMatch (gen : Nat → List Nat) (tok : List Nat) : Nat → Nat → Option Nat
  | _, 0 => none
  | start, n+1 => if gen start = tok then some start else findMatch gen tok (start+1) n

structure MatchOut where
  counter : Int
  time : Int
  expectedCounter : Int
  skipped : Int
  expireTime : Int
  cacheSeconds : Int
  cacheTime : Int
  deriving DecidableEq, Repr

/-- `TOTP.match(token, time, window, skew, last_counter)` after `normalize_time`.
    `last = none` is Python's `None`. -/
def matchTok (gen : Nat → List Nat) (digits : Nat) (period : Int) (tok : TokIn)
    (time window skew : Int) (last : Option Int) : Res MatchOut :=
  if window < 0 then .error .valueError else
  let clientTime := matchClientTime time skew
  let last' := last.getD lastCounterDefault
  let start := matchStart period last' clientTime window
  let end_ := matchEnd period clientTime window
  match normalizeToken digits tok with
  | .error e => .error e
  | .ok t =>
    let start' := findStart start
    if end_ ≤ start' then .error .tokenInvalid else
    match findMatch gen t start'.toNat (end_ - start').toNat with
    | none => .error .tokenInvalid
    | some c =>
      let c : Int := c
      if c = last' then .error .tokenUsed
      else
        let expire := matchExpireTime c period
        .ok { counter := c, time := time, expectedCounter := matchExpectedCounter time period,
              skipped := matchSkipped c (matchExpectedCounter time period), expireTime := expire,
              cacheSeconds := matchCacheSeconds period window, cacheTime := matchCacheTime expire window }

/-- a history of attempts in which the application feeds back the accepted counter -/
structure Attempt where
  tok : TokIn
  time : Int
  window : Int
  skew : Int

def runHistory (gen : Nat → List Nat) (digits : Nat) (period : Int) : List Attempt → Option Int → List Int
  | [], _ => []
  | a :: rest, last =>
    match matchTok gen digits period a.tok a.time a.window a.skew last with
    | .ok m => m.counter :: runHistory gen digits period rest (some m.counter)
    | .error _ => runHistory gen digits period rest last

end Model.Totp
