import PasslibVerif.Model.Libpass
/-
libpass/hashers/bcrypt.py `BcryptHasher`: identify / verify / needs_update over the inspector `inspect_bcrypt_hash`
(`Model.Formats.lpBcryptParse`, tied to the real inspector under C07).  The `bcrypt` package is external code (shared with passlib's
bcrypt hasher): `checkpw` is a parameter of the model.
-/
namespace Model.Libpass
open Py Model.Handler Model.Formats

structure BcHasher where
  rounds : Nat                                -- self._rounds
  /-- `bcrypt.checkpw(password=secret, hashed_password=hash)` (raises ValueError "Invalid salt" for costs outside 4..31 …) -/
  checkpw : Bytes → Str → Res Bool

def BcHasher.inspect (_h : BcHasher) (s : Str) : Res (Option Parsed) := lpBcryptParse s

/-- `identify`: `inspect_bcrypt_hash(hash) is not None` -/
def BcHasher.identify (h : BcHasher) (s : Str) : Res Bool :=
  match h.inspect s with | .error e => .error e | .ok r => .ok r.isSome

/-- `verify`: not identified ⇒ False, otherwise whatever `bcrypt.checkpw` says -/
def BcHasher.verify (h : BcHasher) (s : Str) (secret : Bytes) : Res Bool :=
  match h.identify s with
  | .error e => .error e
  | .ok false => .ok false
  | .ok true => h.checkpw secret s

/-- `needs_update`: unrecognised ⇒ True, otherwise "the cost differs from mine" -/
def BcHasher.needsUpdate (h : BcHasher) (s : Str) : Res Bool :=
  match h.inspect s with
  | .error e => .error e
  | .ok none => .ok true
  | .ok (some info) => .ok (info.rounds != some (h.rounds : Int))

end Model.Libpass
