import PasslibVerif.Model.Handler
/-
Generic model of `GenericHandler.hash` / `verify` / `genhash` (passlib/utils/handlers.py), `validate_secret`,
`TruncateMixin._check_truncate_policy` and the NUL-byte refusal of the crypt()-compatible formats.

A hasher is a parser/renderer (`from_string` / `to_string`, modelled per format under C07) plus a checksum function
`calc secret settings` (the format's algorithm, specified under C02/C11).  Everything in this file holds for ANY such
pair: the theorems of C01/C05/C08 are about what `hash` and `verify` do with them.
-/
namespace Model.Verify
open Py Model.Handler

/-- a secret as the caller passes it: text (code points) or bytes -/
inductive Secret
  | text (cps : List Nat)
  | bytes (bs : Bytes)
  deriving DecidableEq, Repr

/-- UTF-8 of one code point (surrogates cannot be encoded: `str.encode("utf-8")` raises UnicodeEncodeError, a ValueError) -/
def utf8Cp (c : Nat) : Option Bytes :=
  if c < 0x80 then some [c]
  else if c < 0x800 then some [0xC0 + c / 64, 0x80 + c % 64]
  else if 0xD800 ≤ c ∧ c < 0xE000 then none
  else if c < 0x10000 then some [0xE0 + c / 4096, 0x80 + c / 64 % 64, 0x80 + c % 64]
  else if c < 0x110000 then some [0xF0 + c / 262144, 0x80 + c / 4096 % 64, 0x80 + c / 64 % 64, 0x80 + c % 64]
  else none

def utf8 : List Nat → Option Bytes
  | [] => some []
  | c :: rest => (utf8Cp c).bind fun a => (utf8 rest).map fun b => a ++ b

/-- `len(secret)`: characters for text, bytes for bytes -/
def Secret.len : Secret → Nat
  | .text cps => cps.length
  | .bytes bs => bs.length

/-- the bytes the digest sees -/
def Secret.toBytes : Secret → Res Bytes
  | .text cps => match utf8 cps with | some b => .ok b | none => .error .valueError
  | .bytes bs => .ok bs

def MAX_PASSWORD_SIZE : Nat := 4096

/-- `validate_secret` (the type check is outside: the model's secrets are text or bytes by construction) -/
def validateSecret (s : Secret) : Res Unit :=
  if s.len > MAX_PASSWORD_SIZE then .error .sizeError else .ok ()

/-- a hasher: parsing/rendering of the hash string and the checksum algorithm -/
structure Hasher where
  parse : Str → Res Parsed
  render : Parsed → Str
  /-- `_calc_checksum` on the bytes of the secret, for the settings in the parsed value -/
  digest : Bytes → Parsed → Res Str
  /-- `truncate_size` (bytes) -/
  truncateSize : Option Nat := none
  /-- `truncate_error` -/
  truncateError : Bool := false
  /-- refuses NUL bytes (NullPasswordError) -/
  rejectsNul : Bool := false

/-- `_check_truncate_policy` — called from `_calc_checksum` only when `use_defaults` is set, i.e. from `hash()` -/
def checkTruncate (h : Hasher) (b : Bytes) : Res Unit :=
  match h.truncateSize with
  | some n => if h.truncateError ∧ b.length > n then .error .truncateError else .ok ()
  | none => .ok ()

def checkNul (h : Hasher) (b : Bytes) : Res Unit :=
  if h.rejectsNul ∧ 0 ∈ b then .error .nullError else .ok ()

/-- `_calc_checksum` as seen from `hash()` (`fromHash = true`: the truncation policy applies) / `verify()` -/
def checksumOf (h : Hasher) (fromHash : Bool) (s : Secret) (p : Parsed) : Res Str :=
  match s.toBytes with
  | .error e => .error e
  | .ok b =>
    match (if fromHash then checkTruncate h b else .ok ()) with
    | .error e => .error e
    | .ok _ => match checkNul h b with
      | .error e => .error e
      | .ok _ => h.digest b p

/-- `hash(secret)` for settings `p` (salt, rounds, ident … already chosen; checksum absent) -/
def hashSecret (h : Hasher) (s : Secret) (p : Parsed) : Res Str :=
  match validateSecret s with
  | .error e => .error e
  | .ok _ => match checksumOf h true s p with
    | .error e => .error e
    | .ok c => .ok (h.render { p with checksum := some c })

/-- `verify(secret, hash)` -/
def verify (h : Hasher) (s : Secret) (hs : Str) : Res Bool :=
  match validateSecret s with
  | .error e => .error e
  | .ok _ => match h.parse hs with
    | .error e => .error e
    | .ok p => match p.checksum with
      | none => .error .valueError              -- MissingDigestError
      | some chk => match checksumOf h false s p with
        | .error e => .error e
        | .ok c => .ok (c == chk)

end Model.Verify
