/-
Model of passlib's pure-Python scrypt backend: `passlib/crypto/scrypt/_builtin.py`
(`ScryptEngine.run / smix / bmix / _bmix_1`, the `integerify` selection of `__init__`) and of
`passlib.crypto.scrypt.validate`.

* `salsa20`, the derived sizes, the integerify variants, the raise-conditions of `validate` come
  from `Gen.Scrypt` (regenerated from /repo); the source text of the four methods modelled by hand
  here is pinned by the extractor (`Gen.Scrypt.pinned_sources`).
* Python lists / tuples of ints are `List Nat`; `bytes` are `List Nat` (each < 256).
* Python exceptions that can only come from malformed arguments of the *internal* methods are not
  modelled ("this class does NO validation of the input ranges or types"): a `source` whose length
  is not `32*r`, an `input` whose length is not `128*r` (struct.error), words ≥ 2^32 (struct.error).
  On such arguments the model returns some list; all theorems carry the length hypotheses.
* `pbkdf2_hmac("sha256", …)` is the executable specification `Spec.Pbkdf.pbkdf2` with
  `Spec.SHA256.sha256` (that passlib's `pbkdf2_hmac` computes it is the business of C11-digest).
-/
import PasslibVerif.Gen.Scrypt
import PasslibVerif.Spec.Pbkdf
import PasslibVerif.Spec.SHA256

namespace Model.Scrypt
open Gen.Scrypt

/-! ### Python primitives used by the methods -/

/-- `(a ^ b for a, b in zip(x, y))`, collected -/
def zipXor (x y : List Nat) : List Nat := List.zipWith (· ^^^ ·) x y

/-- `target[i:j] = xs` (list slice assignment, `0 ≤ i`, `0 ≤ j`) -/
def setSlice (target : List Nat) (i j : Nat) (xs : List Nat) : List Nat :=
  target.take i ++ xs ++ target.drop (max i j)

/-- `seq[-k:]` -/
def lastK (seq : List Nat) (k : Nat) : List Nat := seq.drop (seq.length - k)

/-- `operator.itemgetter(-k)(X)` (IndexError when `len(X) < k` is not modelled: 0) -/
def itemBack (k : Nat) (X : List Nat) : Nat := X.getD (X.length - k) 0

/-- `struct.Struct("<" + str(count) + "I").unpack(data)` for `len(data) == 4*count` -/
def unpackU32le : List Nat → List Nat
  | b0 :: b1 :: b2 :: b3 :: rest => (b0 ||| (b1 <<< 8) ||| (b2 <<< 16) ||| (b3 <<< 24)) :: unpackU32le rest
  | _ => []

/-- `struct.Struct("<" + str(count) + "I").pack(*words)` for words `< 2^32` -/
def packU32le (ws : List Nat) : List Nat :=
  ws.flatMap fun w => [w &&& 0xFF, (w >>> 8) &&& 0xFF, (w >>> 16) &&& 0xFF, (w >>> 24) &&& 0xFF]

/-! ### `ScryptEngine.bmix(source, target)` — returns the new contents of `target` -/

/-- the `while j < half` loop; `siter` is what is left of `iter(source)`.
    `zip(tmp, siter)` draws `len(tmp)` items from `siter`. -/
def bmixLoop (half : Nat) : Nat → Nat → List Nat → List Nat → List Nat → List Nat
  | 0, _, _, _, target => target
  | fuel + 1, j, tmp, siter, target =>
    if j < half then
      let jn := j + 16
      -- target[j:jn] = tmp = salsa20(a ^ b for a, b in zip(tmp, siter))
      let tmp1 := salsa20 (zipXor tmp siter)
      let siter1 := siter.drop tmp.length
      let target1 := setSlice target j jn tmp1
      -- target[half + j : half + jn] = tmp = salsa20(a ^ b for a, b in zip(tmp, siter))
      let tmp2 := salsa20 (zipXor tmp1 siter1)
      let siter2 := siter1.drop tmp1.length
      let target2 := setSlice target1 (half + j) (half + jn) tmp2
      bmixLoop half fuel jn tmp2 siter2 target2
    else target

/-- the general `bmix` method (`j` advances by 16 up to `half = 16*r`: at most `half` iterations) -/
def bmixGeneral (r : Nat) (source target : List Nat) : List Nat :=
  let half := bmix_half_len r
  let tmp := lastK source 16
  bmixLoop half half 0 tmp source target

/-- `_bmix_1`, the method installed when `r == 1` -/
def bmix1 (source target : List Nat) : List Nat :=
  let B := source.drop 16
  -- target[:16] = tmp = salsa20(a ^ b for a, b in zip(B, iter(source)))
  let tmp := salsa20 (zipXor B source)
  let target1 := setSlice target 0 16 tmp
  -- target[16:] = salsa20(a ^ b for a, b in zip(tmp, B))
  setSlice target1 16 target1.length (salsa20 (zipXor tmp B))

/-- `self.bmix` as selected by `__init__` -/
def bmix (r : Nat) (source target : List Nat) : List Nat :=
  if bmix_fast_path r then bmix1 source target else bmixGeneral r source target

/-! ### `integerify` as selected by `__init__` -/

def integerify (n : Nat) (X : List Nat) : Nat :=
  if integerify_small n then itemBack integerify_small_back X
  else integerify_large (itemBack integerify_large_back1) (itemBack integerify_large_back2) X

/-! ### `ScryptEngine.smix(input)` -/

/-- `V = list(vgen())`: `while i < n: last = tuple(buffer); yield last; bmix(last, buffer); i += 1`
    (`k` iterations left); returns `V` and the final `buffer`. -/
def vgen (r : Nat) : Nat → List Nat → List (List Nat) × List Nat
  | 0, buffer => ([], buffer)
  | k + 1, buffer =>
    let last := buffer
    let res := vgen r k (bmix r last buffer)
    (last :: res.1, res.2)

/-- second loop: `j = integerify(buffer) & n_mask; result = tuple(a ^ b for a, b in zip(buffer, V[j]));
    bmix(result, buffer)` (`k` iterations left) -/
def mixLoop (r n : Nat) (V : List (List Nat)) : Nat → List Nat → List Nat
  | 0, buffer => buffer
  | k + 1, buffer =>
    let j := smix_index n (integerify n buffer)
    let result := zipXor buffer (V.getD j [])
    mixLoop r n V k (bmix r result buffer)

def smix (n r : Nat) (input : List Nat) : List Nat :=
  let buffer := unpackU32le input
  let res := vgen r n buffer
  packU32le (mixLoop r n res.1 n res.2)

/-! ### `ScryptEngine.run(secret, salt, keylen)` -/

def pbkdf2_hmac_sha256 (secret salt : List Nat) (rounds keylen : Nat) : List Nat :=
  Spec.Pbkdf.pbkdf2 Spec.SHA256.sha256 64 32 secret salt rounds keylen

/-- `range(0, stop, step)` for `step > 0` -/
def pyRange0 (stop step : Nat) : List Nat := (List.range ((stop + step - 1) / step)).map (· * step)

def run (n r p : Nat) (secret salt : List Nat) (keylen : Nat) : List Nat :=
  let ivb := iv_bytes r p
  let input := pbkdf2_hmac_sha256 secret salt 1 ivb
  let output :=
    if p = 1 then smix n r input
    else
      let sb := smix_bytes r
      (pyRange0 ivb sb).flatMap fun offset => smix n r ((input.drop offset).take sb)
  pbkdf2_hmac_sha256 secret output 1 keylen

/-! ### `passlib.crypto.scrypt.validate(n, r, p)` -/

/-- `.ok ()` when `validate` returns True, `.error "ValueError"` when it raises -/
def validate (n r p : Int) : Except String Unit :=
  if (validate_raises n r p).any id then .error "ValueError" else .ok ()

end Model.Scrypt
