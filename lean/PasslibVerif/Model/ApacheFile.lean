import PasslibVerif.Model.Apache
/-
The FILE side of passlib.apache._CommonFile (HtpasswdFile / HtdigestFile): `_path`, the `_mtime` cell, the constructor,
`load(path=None)`, `load_if_changed()`, `load_string`, `save(path=None)`, `_autosave`, the `path` setter, the `mtime` property —
statement by statement from passlib/apache.py — over a file system that is a pure value and a clock advanced by the environment.

  * `FS`    : association list path ↦ (content, mtime); a path that is not bound does not exist (open / getmtime raise OSError)
  * `World` : the file system and the clock `now`; a write (`open(path, "wb")` … close) stamps `now` on the file
  * `Obj`   : the records state of Model.Apache + `_path`, `_mtime` (0 = nothing remembered), `autosave`
  * environment steps: another process writes a file with ANY mtime it likes (older, newer, equal), removes a file, moves the clock.

Not modelled: directories / permissions (every path is writable), `path=""` (a falsy but not-None path), encodings (names are bytes).
-/
namespace Model.ApacheFile
open Py Model.Apache

abbrev Path := Nat

structure File where
  content : Bytes
  mtime : Int
  deriving DecidableEq, Repr

abbrev FS := List (Path × File)

def FS.get (p : Path) : FS → Option File
  | [] => none
  | (q, f) :: rest => if q = p then some f else FS.get p rest

/-- create or replace -/
def FS.put (p : Path) (f : File) : FS → FS
  | [] => [(p, f)]
  | (q, g) :: rest => if q = p then (p, f) :: rest else (q, g) :: FS.put p f rest

def FS.remove (p : Path) : FS → FS
  | [] => []
  | (q, g) :: rest => if q = p then FS.remove p rest else (q, g) :: FS.remove p rest

structure World where
  fs : FS
  now : Int
  deriving DecidableEq, Repr

/-- errors of the file side: the Python-level ones of the records model plus OSError (FileNotFoundError) -/
inductive FErr
  | py (e : ErrKind)
  | osError
  deriving DecidableEq, Repr

def FErr.name : FErr → String
  | .py e => e.name
  | .osError => "OSError"

/-- `os.path.getmtime(path)` -/
def getmtime (w : World) (p : Path) : Except FErr Int :=
  match w.fs.get p with
  | some f => .ok f.mtime
  | none => .error .osError

/-- `with open(path, "wb") as fh: fh.writelines(lines)` — create/truncate, write, close; the file's mtime is the clock -/
def writeFile (w : World) (p : Path) (c : Bytes) : World := { w with fs := w.fs.put p ⟨c, w.now⟩ }

structure Obj where
  st : St
  path : Option Path          -- `_path`
  mtime : Int                 -- `_mtime` (0: nothing remembered)
  autosave : Bool
  deriving DecidableEq, Repr

/-- answers of the methods -/
inductive Ans
  | unit
  | bool (b : Bool)
  | nat (n : Nat)
  | obool (b : Option Bool)
  | int (i : Int)
  | bytes (b : Bytes)
  | err (e : FErr)
  deriving DecidableEq, Repr

/-- `self._load_lines(fh)` on the content read from a file / string: atomic — on a parse error the records stay
    (but the statements BEFORE it, the `_mtime` assignment, have already happened: `o` is the object after them) -/
def loadLinesInto (digest : Bool) (o : Obj) (data : Bytes) (okAns : Ans) : Obj × Ans :=
  match loadString digest data with
  | .ok st => ({ o with st := st }, okAns)
  | .error e => (o, .err (.py e))

/-- `load(path=None)`:
      if path is not None:  with open(path,"rb") as fh: self._mtime = 0; self._load_lines(fh)
      elif self._path:      with open(self._path,"rb") as fh: self._mtime = getmtime(self._path); self._load_lines(fh)
      else: raise RuntimeError
      return True -/
def load (digest : Bool) (w : World) (o : Obj) : Option Path → Obj × Ans
  | some p =>
    match w.fs.get p with
    | none => (o, .err .osError)
    | some f => loadLinesInto digest { o with mtime := 0 } f.content (.bool true)
  | none =>
    match o.path with
    | some p =>
      match w.fs.get p with
      | none => (o, .err .osError)
      | some f =>
        match getmtime w p with
        | .error e => (o, .err e)
        | .ok m => loadLinesInto digest { o with mtime := m } f.content (.bool true)
    | none => (o, .err (.py .runtimeError))

/-- `load_string(data)`: `self._mtime = 0; self._load_lines(BytesIO(data))` -/
def loadStr (digest : Bool) (o : Obj) (data : Bytes) : Obj × Ans :=
  loadLinesInto digest { o with mtime := 0 } data .unit

/-- `load_if_changed()`:
      if not self._path: raise RuntimeError
      if self._mtime and self._mtime == os.path.getmtime(self._path): return False
      self.load(); return True -/
def loadIfChanged (digest : Bool) (w : World) (o : Obj) : Obj × Ans :=
  match o.path with
  | none => (o, .err (.py .runtimeError))
  | some p =>
    if o.mtime ≠ 0 then
      match getmtime w p with
      | .error e => (o, .err e)
      | .ok m => if o.mtime = m then (o, .bool false) else load digest w o none
    else load digest w o none

/-- `save(path=None)`:
      if path is not None:  with open(path,"wb") as fh: fh.writelines(self._iter_lines())
      elif self._path:      self.save(self._path); self._mtime = os.path.getmtime(self._path)
      else: raise RuntimeError -/
def save (w : World) (o : Obj) : Option Path → World × Obj × Ans
  | some p => (writeFile w p (toString o.st), o, .unit)
  | none =>
    match o.path with
    | some p =>
      let w' := writeFile w p (toString o.st)
      match getmtime w' p with
      | .error e => (w', o, .err e)
      | .ok m => (w', { o with mtime := m }, .unit)
    | none => (w, o, .err (.py .runtimeError))

/-- `_autosave()`: `if self.autosave and self._path: self.save()` -/
def autosaveStep (w : World) (o : Obj) : World × Obj :=
  if o.autosave && o.path.isSome then
    match save w o none with
    | (w', o', _) => (w', o')
  else (w, o)

/-- the `path` setter: `if value != self._path: self._mtime = 0`; `self._path = value` -/
def setPath (o : Obj) (p : Option Path) : Obj :=
  { o with mtime := if p ≠ o.path then 0 else o.mtime, path := p }

/-- `__init__(path, new, autosave)`: `_path = path; _mtime = 0; if path and not new: self.load() else: empty`.
    A failing load makes the constructor raise: there is no object. -/
def construct (digest : Bool) (w : World) (path : Option Path) (new autosave : Bool) : Except FErr Obj :=
  let o : Obj := ⟨St.empty, path, 0, autosave⟩
  if path.isSome && !new then
    match load digest w o none with
    | (_, .err e) => .error e
    | (o', _) => .ok o'
  else .ok o

/-- `HtpasswdFile.check_password`, also telling whether the `ok and new_hash is not None` branch (store + `_autosave()`) ran -/
def checkPasswordU (vau : Bytes → Bytes → Bool × Option Bytes) (s : St) (user pwd : Bytes) : Res (St × Option Bool × Bool) :=
  match encodeKey user none with
  | .error e => .error e
  | .ok k => match lookup k s.records with
    | none => .ok (s, none, false)
    | some h =>
      match vau pwd h with
      | (true, some new) => .ok (⟨setItem k new s.records, s.source⟩, some true, true)
      | (ok, _) => .ok (s, some ok, false)

/-! ### histories: object operations and environment steps -/
inductive Op
  -- mutators (each ends with `self._autosave()` on the paths that changed something, as in the code)
  | setHash (user : Bytes) (realm : Option Bytes) (hash : Bytes)
  | delete (user : Bytes) (realm : Option Bytes)
  | deleteRealm (realm : Bytes)
  | check (user pwd : Bytes)
  -- (re)loads
  | loadString (data : Bytes)
  | load (p : Option Path)
  | loadIfChanged
  | reopen (path : Option Path) (new autosave : Bool)     -- a fresh object replaces the current one (if its constructor succeeds)
  -- saves / attributes / queries
  | save (p : Option Path)
  | setPath (p : Option Path)
  | getMtime
  | export
  -- environment
  | envWrite (p : Path) (content : Bytes) (mtime : Int)
  | envRemove (p : Path)
  | envTick (d : Int)
  deriving DecidableEq, Repr

structure Sys where
  w : World
  o : Obj
  deriving DecidableEq, Repr

def step (digest : Bool) (vau : Bytes → Bytes → Bool × Option Bytes) (s : Sys) : Op → Sys × Ans
  | .setHash u r h =>
    match setHash s.o.st u r h with
    | .error e => (s, .err (.py e))
    | .ok (st', ex) =>
      match autosaveStep s.w { s.o with st := st' } with
      | (w', o') => (⟨w', o'⟩, .bool ex)
  | .delete u r =>
    match delete s.o.st u r with
    | .error e => (s, .err (.py e))
    | .ok (_, false) => (s, .bool false)                 -- KeyError path: `return False` before `_autosave()`
    | .ok (st', true) =>
      match autosaveStep s.w { s.o with st := st' } with
      | (w', o') => (⟨w', o'⟩, .bool true)
  | .deleteRealm r =>
    match deleteRealm s.o.st r with
    | .error e => (s, .err (.py e))
    | .ok (st', n) =>
      match autosaveStep s.w { s.o with st := st' } with
      | (w', o') => (⟨w', o'⟩, .nat n)
  | .check u p =>
    match checkPasswordU vau s.o.st u p with
    | .error e => (s, .err (.py e))
    | .ok (_, r, false) => (s, .obool r)
    | .ok (st', r, true) =>
      match autosaveStep s.w { s.o with st := st' } with
      | (w', o') => (⟨w', o'⟩, .obool r)
  | .loadString d => match loadStr digest s.o d with | (o', a) => (⟨s.w, o'⟩, a)
  | .load p => match load digest s.w s.o p with | (o', a) => (⟨s.w, o'⟩, a)
  | .loadIfChanged => match loadIfChanged digest s.w s.o with | (o', a) => (⟨s.w, o'⟩, a)
  | .reopen path new autosave =>
    match construct digest s.w path new autosave with
    | .ok o' => (⟨s.w, o'⟩, .unit)
    | .error e => (s, .err e)
  | .save p => match save s.w s.o p with | (w', o', a) => (⟨w', o'⟩, a)
  | .setPath p => (⟨s.w, setPath s.o p⟩, .unit)
  | .getMtime => (s, .int s.o.mtime)
  | .export => (s, .bytes (toString s.o.st))
  | .envWrite p c m => (⟨{ s.w with fs := s.w.fs.put p ⟨c, m⟩ }, s.o⟩, .unit)
  | .envRemove p => (⟨{ s.w with fs := s.w.fs.remove p }, s.o⟩, .unit)
  | .envTick d => (⟨{ s.w with now := s.w.now + d }, s.o⟩, .unit)

def run (digest : Bool) (vau : Bytes → Bytes → Bool × Option Bytes) (s : Sys) (ops : List Op) : Sys :=
  ops.foldl (fun s op => (step digest vau s op).1) s

/-- the answers along a history -/
def runAns (digest : Bool) (vau : Bytes → Bytes → Bool × Option Bytes) : Sys → List Op → List Ans
  | _, [] => []
  | s, op :: ops => (step digest vau s op).2 :: runAns digest vau (step digest vau s op).1 ops

end Model.ApacheFile
