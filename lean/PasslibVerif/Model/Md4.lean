import PasslibVerif.Gen.Md4
/-
Model of `passlib.crypto._md4.md4` (pure-python MD4) on `Nat` words.

Bytes are `List Nat` (each < 256), registers are a 4-element `List Nat` (each < 2^32).
Tables, masks, the F/G/t-expressions, the rotate-store expression and the padding/length
formulas are the generated ones (`Gen.Md4`); this file only adds the control flow
(`for` loops over the tables as folds, the `while` loop of `update`, the one/two block
dispatch of `digest`) and the `struct` little-endian packing.

Totality: `struct.unpack("<16I", block)` raises unless `len(block) == 64`; the only callers
(`update`, `digest`) pass 64-byte slices (theorems `Lemmas.Md4.updateLoop_eq` / `finalBlock_length`),
so the model simply unpacks whatever complete 4-byte groups there are.
-/
namespace Model.Md4
open Gen.Md4

structure State where
  /-- `_count`: number of 64-byte blocks processed so far -/
  count : Nat
  /-- `_state`: the registers [a, b, c, d] -/
  regs : List Nat
  /-- `_buf`: leftover (< 64 bytes) from the last update -/
  buf : List Nat
  deriving DecidableEq, Repr

/-- `md4()` -/
def init : State := { count := initCount, regs := initState, buf := [] }

/-- one `<I` field: little-endian uint32 from four bytes -/
def leWord (b0 b1 b2 b3 : Nat) : Nat := b0 + b1 * 256 + b2 * 65536 + b3 * 16777216

/-- `struct.unpack("<nI", bytes)` -/
def unpackWords : List Nat → List Nat
  | b0 :: b1 :: b2 :: b3 :: rest => leWord b0 b1 b2 b3 :: unpackWords rest
  | _ => []

/-- one `<I` field written out: four bytes, low-order first -/
def wordBytes (w : Nat) : List Nat := [w % 256, w / 256 % 256, w / 65536 % 256, w / 16777216 % 256]

/-- `struct.pack("<nI", *words)` (every word < 2^32, otherwise `struct.error`) -/
def packWords (ws : List Nat) : List Nat := ws.flatMap wordBytes

/-- body of one `for a, b, c, d, k, s in table:` iteration, `tf` being the round's `t` expression -/
def roundStep (tf : Nat → Nat → Nat → Nat → Nat → Nat) (X : List Nat) (state : List Nat) (row : List Nat) : List Nat :=
  match row with
  | [a, b, c, d, k, s] =>
      let t := tf (state.getD a 0) (state.getD b 0) (state.getD c 0) (state.getD d 0) (X.getD k 0)
      state.set a (rotStore t s)
  | _ => state

/-- `_process(block)`: new value of `self._state` -/
def process (regs : List Nat) (block : List Nat) : List Nat :=
  let X := unpackWords block
  let state := regs
  let state := round1.foldl (roundStep T1 X) state
  let state := round2.foldl (roundStep T2 X) state
  let state := round3.foldl (roundStep T3 X) state
  (List.range 4).map fun i => addBack (regs.getD i 0) (state.getD i 0)

/-- the `while True:` loop of `update` (`fuel` ≥ number of iterations that process a block) -/
def updateLoop : Nat → Nat → Nat → List Nat → List Nat → State
  | 0, _idx, count, regs, content => { count := count, regs := regs, buf := content.drop _idx }
  | fuel + 1, idx, count, regs, content =>
      let next := idx + blockBytes
      if next ≤ content.length then
        updateLoop fuel next (count + 1) (process regs ((content.drop idx).take (next - idx))) content
      else
        { count := count, regs := regs, buf := content.drop idx }

/-- `update(content)`; (`if buf: content = buf + content` — for empty `buf` both branches agree) -/
def update (st : State) (content : List Nat) : State :=
  let content := st.buf ++ content
  updateLoop (content.length / blockBytes + 1) 0 st.count st.regs content

/-- `copy()`: `list(self._state)` is a fresh list with the same elements -/
def copy (st : State) : State := { count := st.count, regs := st.regs.map id, buf := st.buf }

/-- the final block(s) built by `digest()` -/
def finalBlock (st : State) : List Nat :=
  let buf := st.buf
  let msglen := msgLenBits st.count buf.length
  buf ++ [padMarker] ++ List.replicate (padZeros buf.length) 0 ++ packWords [lenLo msglen, lenHi msglen]

/-- `digest()`; the object's state is restored afterwards, so this is a pure function of it -/
def digest (st : State) : List Nat :=
  let block := finalBlock st
  let regs :=
    if block.length = 128 then process (process st.regs (block.take 64)) (block.drop 64)
    else process st.regs block
  packWords regs

/-- `md4(msg).digest()` -/
def md4OneShot (msg : List Nat) : List Nat := digest (update init msg)

end Model.Md4
