import PasslibVerif.Model.Totp
/-
Model of `TOTP.normalize_time` (passlib/totp.py) and of the CPython code it runs for date-times:

    if isinstance(time, int):   return time
    if isinstance(time, float): return math.floor(time)     # commit 2bc064c; before it: int(time), truncation toward zero
    if time is None:            return int(cls.now())
    if hasattr(time, "utctimetuple"):
        return calendar.timegm(time.utctimetuple())
    raise exc.ExpectedTypeError(time, "int, float, or datetime", "time")

CPython side (Lib/_pydatetime.py, Lib/calendar.py; the C accelerator is observationally the same and is compared in the
correspondence run):
  `_is_leap`, `_days_before_year`, `_days_in_month`, `_days_before_month`, `_ymd2ord`, `_ord2ymd`,
  `datetime.utctimetuple` (`self -= offset` through `datetime.__add__`: ordinal + h/m/s/µs as one timedelta, normalised,
  `0 < days <= _MAXORDINAL` or OverflowError), `calendar.timegm`.
All quantities are Python ints (`Int`); Python `//` and `%` with a positive divisor are Lean's `/` and `%` on `Int`.
-/
namespace Model.TotpTime
open Py

/-- the error kinds this function can raise (`OverflowError` is not an `ErrKind` of the other models) -/
inductive TimeErr
  | typeError | valueError | overflowError
  deriving DecidableEq, Repr, Inhabited

def TimeErr.name : TimeErr → String
  | .typeError => "TypeError" | .valueError => "ValueError" | .overflowError => "OverflowError"

abbrev TRes (α : Type) := Except TimeErr α

def showTRes {α} (f : α → String) : TRes α → String
  | .ok a => "ok " ++ f a
  | .error e => "err " ++ e.name

/-! ### proleptic Gregorian calendar (`_pydatetime`) -/

def MINYEAR : Int := 1
def MAXYEAR : Int := 9999
/-- `_MAXORDINAL = date(9999, 12, 31).toordinal()` -/
def MAXORDINAL : Int := 3652059
/-- `calendar._EPOCH_ORD = date(1970, 1, 1).toordinal()` -/
def EPOCH_ORD : Int := 719163

/-- `_is_leap` -/
def isLeap (year : Int) : Bool := year % 4 == 0 && (year % 100 != 0 || year % 400 == 0)

/-- `_days_before_year` -/
def daysBeforeYear (year : Int) : Int :=
  let y := year - 1
  y * 365 + y / 4 - y / 100 + y / 400

/-- `_DAYS_IN_MONTH[m]` (index 0 is the placeholder −1; other indices are an IndexError, never reached) -/
def DAYS_IN_MONTH (m : Int) : Int :=
  if m = 1 then 31 else if m = 2 then 28 else if m = 3 then 31 else if m = 4 then 30
  else if m = 5 then 31 else if m = 6 then 30 else if m = 7 then 31 else if m = 8 then 31
  else if m = 9 then 30 else if m = 10 then 31 else if m = 11 then 30 else if m = 12 then 31 else -1

/-- `_DAYS_BEFORE_MONTH[m]` -/
def DAYS_BEFORE_MONTH (m : Int) : Int :=
  if m = 1 then 0 else if m = 2 then 31 else if m = 3 then 59 else if m = 4 then 90
  else if m = 5 then 120 else if m = 6 then 151 else if m = 7 then 181 else if m = 8 then 212
  else if m = 9 then 243 else if m = 10 then 273 else if m = 11 then 304 else if m = 12 then 334 else -1

/-- `_days_in_month`, as a function of "is the year leap" -/
def daysInMonthL (leap : Bool) (m : Int) : Int :=
  if m = 2 ∧ leap = true then 29 else DAYS_IN_MONTH m

/-- `_days_before_month`, as a function of "is the year leap" -/
def daysBeforeMonthL (leap : Bool) (m : Int) : Int :=
  DAYS_BEFORE_MONTH m + (if m > 2 ∧ leap = true then 1 else 0)

def daysInMonth (year m : Int) : Int := daysInMonthL (isLeap year) m
def daysBeforeMonth (year m : Int) : Int := daysBeforeMonthL (isLeap year) m

/-- `_ymd2ord` (its two asserts are the hypothesis `ValidDate` of the theorems) -/
def ymdToOrd (year m d : Int) : Int := daysBeforeYear year + daysBeforeMonth year m + d

def DI400Y : Int := 146097
def DI100Y : Int := 36524
def DI4Y : Int := 1461

/-- tail of `_ord2ymd`: month and day from the 0-based day of the year -/
def monthDayOf (leap : Bool) (n : Int) : Int × Int :=
  let month := (n + 50) / 32                       -- (n + 50) >> 5
  let preceding := DAYS_BEFORE_MONTH month + (if month > 2 ∧ leap = true then 1 else 0)
  if preceding > n then
    let month := month - 1
    let preceding := preceding - (DAYS_IN_MONTH month + (if month = 2 ∧ leap = true then 1 else 0))
    (month, n - preceding + 1)
  else (month, n - preceding + 1)

/-- `_ord2ymd` -/
def ordToYmd (n : Int) : Int × Int × Int :=
  let n := n - 1
  let n400 := n / DI400Y
  let n := n % DI400Y
  let year := n400 * 400 + 1
  let n100 := n / DI100Y
  let n := n % DI100Y
  let n4 := n / DI4Y
  let n := n % DI4Y
  let n1 := n / 365
  let n := n % 365
  let year := year + (n100 * 100 + n4 * 4 + n1)
  if n1 = 4 ∨ n100 = 4 then (year - 1, 12, 31)
  else
    let leapyear := decide (n1 = 3) && (decide (n4 ≠ 24) || decide (n100 = 3))
    let md := monthDayOf leapyear n
    (year, md.1, md.2)

/-- the name used by the property text: days since 1970-01-01 of a civil date -/
def daysFromCivil (y m d : Int) : Int := ymdToOrd y m d - EPOCH_ORD
/-- civil date of a day number counted from 1970-01-01 -/
def civilFromDays (n : Int) : Int × Int × Int := ordToYmd (n + EPOCH_ORD)

/-- `(date.toordinal() + 6) % 7`: Monday = 0 -/
def weekday (y m d : Int) : Int := (ymdToOrd y m d + 6) % 7

/-- what `date(y, m, d)` accepts (`_check_date_fields`) -/
def ValidDate (y m d : Int) : Prop :=
  MINYEAR ≤ y ∧ y ≤ MAXYEAR ∧ 1 ≤ m ∧ m ≤ 12 ∧ 1 ≤ d ∧ d ≤ daysInMonth y m

instance (y m d : Int) : Decidable (ValidDate y m d) := by unfold ValidDate; infer_instance

/-! ### `calendar.timegm` -/

/-- the arithmetic of `calendar.timegm` -/
def timegmRaw (year month day hour minute second : Int) : Int :=
  let days := ymdToOrd year month 1 - EPOCH_ORD + day - 1
  let hours := days * 24 + hour
  let minutes := hours * 60 + minute
  minutes * 60 + second

/-- `calendar.timegm(tuple)`: `datetime.date(year, month, 1)` raises ValueError outside 1..9999 / 1..12;
    day, hour, minute, second are not checked -/
def timegm (year month day hour minute second : Int) : TRes Int :=
  if MINYEAR ≤ year ∧ year ≤ MAXYEAR ∧ 1 ≤ month ∧ month ≤ 12 then
    .ok (timegmRaw year month day hour minute second)
  else .error .valueError

/-- UTC fields of the instant `t` seconds after the epoch (what `time.gmtime` / `datetime.utcfromtimestamp` show) -/
def fieldsOfEpoch (t : Int) : Int × Int × Int × Int × Int × Int :=
  let days := t / 86400
  let rem := t % 86400
  let ymd := civilFromDays days
  (ymd.1, ymd.2.1, ymd.2.2, rem / 3600, rem % 3600 / 60, rem % 60)

/-- first and last second a `datetime` can denote in UTC: 0001-01-01T00:00:00 and 9999-12-31T23:59:59 -/
def EPOCH_MIN : Int := -62135596800
def EPOCH_MAX : Int := 253402300799

/-! ### date-times -/

/-- a `datetime.datetime`; `offset` is `utcoffset()` in microseconds (`none` for a naive object or a tzinfo answering None) -/
structure DateTime where
  year : Int
  month : Int
  day : Int
  hour : Int
  minute : Int
  second : Int
  micro : Int
  offset : Option Int
  deriving DecidableEq, Repr

def US : Int := 1000000
def DAY_US : Int := 86400 * 1000000

/-- `_check_utc_offset`: strictly between −24 h and +24 h (any microsecond) -/
def offsetOk : Option Int → Prop
  | none => True
  | some o => -DAY_US < o ∧ o < DAY_US

instance : (o : Option Int) → Decidable (offsetOk o)
  | none => isTrue trivial
  | some o => inferInstanceAs (Decidable (-DAY_US < o ∧ o < DAY_US))

/-- what the `datetime` constructor and `_check_utc_offset` guarantee -/
def DateTime.WF (dt : DateTime) : Prop :=
  ValidDate dt.year dt.month dt.day ∧ 0 ≤ dt.hour ∧ dt.hour < 24 ∧ 0 ≤ dt.minute ∧ dt.minute < 60 ∧
  0 ≤ dt.second ∧ dt.second < 60 ∧ 0 ≤ dt.micro ∧ dt.micro < US ∧ offsetOk dt.offset

instance (dt : DateTime) : Decidable dt.WF := by unfold DateTime.WF; infer_instance

/-- `datetime.__add__` with `-offset`: everything folded into one normalised timedelta counted from ordinal 0 -/
def subOffset (dt : DateTime) (off : Int) : TRes (Int × Int × Int × Int × Int × Int) :=
  let total := ((ymdToOrd dt.year dt.month dt.day * 86400 + dt.hour * 3600 + dt.minute * 60 + dt.second) * US + dt.micro) - off
  let days := total / DAY_US
  let seconds := total % DAY_US / US
  let hour := seconds / 3600
  let rem := seconds % 3600
  if 0 < days ∧ days ≤ MAXORDINAL then
    let ymd := ordToYmd days
    .ok (ymd.1, ymd.2.1, ymd.2.2, hour, rem / 60, rem % 60)
  else .error .overflowError

/-- `datetime.utctimetuple()`, first six fields -/
def utcTimeTuple (dt : DateTime) : TRes (Int × Int × Int × Int × Int × Int) :=
  match dt.offset with
  | none => .ok (dt.year, dt.month, dt.day, dt.hour, dt.minute, dt.second)
  | some off =>
    if off = 0 then .ok (dt.year, dt.month, dt.day, dt.hour, dt.minute, dt.second)   -- `if offset:` is false
    else subOffset dt off

/-! ### the same through the C accelerator (`Modules/_datetimemodule.c`, what `datetime` normally is)

`datetime_utctimetuple` → `add_datetime_timedelta(self, offset, -1)` → `normalize_datetime` (four `normalize_pair`s, then
`normalize_date` → `normalize_y_m_d` with its one-day shortcuts) → `build_struct_time`.  Proved equal to the Python text above
(`Props.C13Time.c_accelerator_agrees`). -/

/-- `normalize_y_m_d` followed by the year check of `normalize_date` -/
def normalizeYmdC (y m d : Int) : TRes (Int × Int × Int) :=
  let dim := daysInMonth y m
  let check (y m d : Int) : TRes (Int × Int × Int) :=
    if MINYEAR ≤ y ∧ y ≤ MAXYEAR then .ok (y, m, d) else .error .overflowError
  if d < 1 ∨ d > dim then
    if d = 0 then
      let m := m - 1
      if m > 0 then check y m (daysInMonth y m) else check (y - 1) 12 31
    else if d = dim + 1 then
      let m := m + 1
      if m > 12 then check (y + 1) 1 1 else check y m 1
    else
      let ordinal := ymdToOrd y m 1 + d - 1
      if ordinal < 1 ∨ ordinal > MAXORDINAL then .error .overflowError
      else .ok (ordToYmd ordinal)
  else check y m d

/-- `add_datetime_timedelta(date, delta, -1)` with `delta` the normalised timedelta of `off` microseconds
    (days, 0 ≤ seconds < 86400, 0 ≤ microseconds < 10⁶); `normalize_pair(hi, lo, f)` is `hi += lo // f; lo %= f` -/
def addTimedeltaC (dt : DateTime) (off : Int) : TRes (Int × Int × Int × Int × Int × Int) :=
  let tdDays := off / DAY_US
  let tdSeconds := off % DAY_US / US
  let tdMicro := off % DAY_US % US
  let day := dt.day - tdDays
  let second := dt.second - tdSeconds
  let micro := dt.micro - tdMicro
  let second := second + micro / US        -- normalize_pair(second, microsecond, 1000000)
  let minute := dt.minute + second / 60    -- normalize_pair(minute, second, 60)
  let second := second % 60
  let hour := dt.hour + minute / 60        -- normalize_pair(hour, minute, 60)
  let minute := minute % 60
  let day := day + hour / 24               -- normalize_pair(day, hour, 24)
  let hour := hour % 24
  match normalizeYmdC dt.year dt.month day with
  | .error e => .error e
  | .ok (y, m, d) => .ok (y, m, d, hour, minute, second)

/-- `datetime_utctimetuple` (C): no `if offset:` test — a zero offset goes through the addition as well -/
def utcTimeTupleC (dt : DateTime) : TRes (Int × Int × Int × Int × Int × Int) :=
  match dt.offset with
  | none => .ok (dt.year, dt.month, dt.day, dt.hour, dt.minute, dt.second)
  | some off => addTimedeltaC dt off

/-! ### floats -/

/-- a Python float: a finite one is the exact ratio `float.as_integer_ratio()` -/
inductive PyFloat
  | finite (num : Int) (den : Nat)
  | nan
  | inf (negative : Bool)
  deriving DecidableEq, Repr

def PyFloat.WF : PyFloat → Prop
  | .finite _ den => 0 < den
  | _ => True

instance : (f : PyFloat) → Decidable f.WF
  | .finite _ den => by unfold PyFloat.WF; infer_instance
  | .nan => isTrue trivial
  | .inf _ => isTrue trivial

/-- `int(x)` for a float: truncation toward zero; ValueError for NaN, OverflowError for an infinity
    (still what the `None` branch applies to the clock: `int(cls.now())`) -/
def floatToInt : PyFloat → TRes Int
  | .finite num den => .ok (Int.tdiv num den)
  | .nan => .error .valueError
  | .inf _ => .error .overflowError

/-- `math.floor(x)` for a float: toward −∞ (`den > 0`, so `Int`'s `/` is the floor); ValueError for NaN,
    OverflowError for an infinity -/
def floatFloor : PyFloat → TRes Int
  | .finite num den => .ok (num / den)
  | .nan => .error .valueError
  | .inf _ => .error .overflowError

/-! ### `TOTP.normalize_time` -/

inductive TimeArg
  | int (n : Int)                 -- `int` and its subclasses (`bool` included)
  | float (f : PyFloat)
  | none                          -- `None`: the clock `cls.now()` is a parameter
  | datetime (dt : DateTime)      -- anything with `utctimetuple`
  | other                         -- str, Decimal, Fraction, datetime.date, …

/-- `TOTP.normalize_time(time)`; `now` is what `cls.now()` returns (an int is the ratio n/1) -/
def normalizeTime (now : PyFloat) : TimeArg → TRes Int
  | .int n => .ok n
  | .float f => floatFloor f
  | .none => floatToInt now
  | .datetime dt =>
    match utcTimeTuple dt with
    | .error e => .error e
    | .ok (y, mo, d, h, mi, s) => timegm y mo d h mi s
  | .other => .error .typeError

/-! ### `TOTP.generate(time)` around it -/

structure TokenOut where
  token : Option (List Nat)      -- `none`: struct.error inside `_generate` (digest shorter than the slice)
  counter : Int
  startTime : Int
  expireTime : Int
  deriving DecidableEq, Repr

/-- `TOTP.generate(time)`: normalise, counter, `counter < 0` → ValueError, `_generate`, `TotpToken.start_time/expire_time` -/
def generateAt (mac : Bytes → Bytes) (digits : Nat) (period : Int) (now : PyFloat) (arg : TimeArg) : TRes TokenOut :=
  match normalizeTime now arg with
  | .error e => .error e
  | .ok t =>
    let counter := Gen.Totp.timeToCounter t period
    if counter < 0 then .error .valueError
    else .ok { token := Model.Totp.generate mac digits counter.toNat, counter := counter,
               startTime := Gen.Totp.tokenStartTime counter period, expireTime := Gen.Totp.tokenExpireTime counter period }

/-! ### the denoted instant (specification side) -/

/-- microseconds since 1970-01-01T00:00:00Z denoted by a date-time; a naive one is read as UTC -/
def instantUs (dt : DateTime) : Int :=
  ((daysFromCivil dt.year dt.month dt.day * 86400 + dt.hour * 3600 + dt.minute * 60 + dt.second) * US + dt.micro)
    - (match dt.offset with | none => 0 | some off => off)

/-- seconds since the epoch of the denoted instant: floor (the microseconds are dropped, also before 1970) -/
def instantSec (dt : DateTime) : Int := instantUs dt / US

end Model.TotpTime
