import PasslibVerif.Model.Libpass
import PasslibVerif.Model.B64
import PasslibVerif.Spec.Pbkdf
import PasslibVerif.Spec.SHA256
import PasslibVerif.Spec.SHA512
/-
The two shipped libpass PBKDF2 hashers as the compiled driver runs them: ab64 codec model of C12 for the salt / key fields,
`hashlib.pbkdf2_hmac(name, …)` (external; default `dklen` = the digest size) as the RFC 8018 transcription over the FIPS 180-4 digests.
-/
namespace Model.Libpass
open Py Model.Handler

/-- `ab64_decode` on the codec model's domain (foreign characters — skipped by the lenient C decoder — are outside it) -/
def lpAb64Dec (s : Str) : Res Bytes :=
  match Model.B64.ab64Decode s with
  | some r => r
  | none => .error .typeError

def lpPrf256 (p s : Bytes) (r : Nat) : Bytes := Spec.Pbkdf.pbkdf2 Spec.SHA256.sha256 64 32 p s r 32
def lpPrf512 (p s : Bytes) (r : Nat) : Bytes := Spec.Pbkdf.pbkdf2 Spec.SHA512.sha512 128 64 p s r 64

/-- `PBKDF2SHA256Handler(rounds=R)` -/
def lpPbkdf256 (R : Nat) : PbkdfHasher := ⟨ofString "pbkdf2-sha256", R, lpPrf256, Model.B64.ab64Encode, lpAb64Dec⟩
/-- `PBKDF2SHA512Handler(rounds=R)` -/
def lpPbkdf512 (R : Nat) : PbkdfHasher := ⟨ofString "pbkdf2-sha512", R, lpPrf512, Model.B64.ab64Encode, lpAb64Dec⟩

end Model.Libpass
