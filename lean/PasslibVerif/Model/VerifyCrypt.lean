import PasslibVerif.Model.Verify
import PasslibVerif.Model.ShaCrypt
import PasslibVerif.Model.Formats.Md5Sha2
import PasslibVerif.Spec.MD5
import PasslibVerif.Spec.SHA256
import PasslibVerif.Spec.SHA512
/-
The md5_crypt / apr_md5_crypt / sha256_crypt / sha512_crypt hashers as passlib assembles them: the C07 model of
`from_string` / `to_string` + the C02 model of the pure-Python checksum code over the digest transcriptions.
-/
namespace Model.VerifyCrypt
open Py Model.Handler Model.Formats Model.Verify Model.ShaCrypt

def md5Ident (apr : Bool) : Str := if apr then ofString "$apr1$" else ofString "$1$"

/-- the hasher as passlib assembles it: C07's parser/renderer + C02's pure-Python checksum code -/
def md5Hasher (apr : Bool) : Hasher where
  parse := fun s => toRes (md5Parse (md5Ident apr) s)
  render := md5Render
  digest := fun b p => rawMd5 Spec.MD5.md5 apr b (p.salt.getD [])
  rejectsNul := true

def sha256Hasher : Hasher where
  parse := fun s => toRes (sha2Parse (ofString "$5$") 43 s)
  render := sha2Render
  digest := fun b p => rawSha256 Spec.SHA256.sha256 b (p.salt.getD []) (p.rounds.getD 0).toNat
  rejectsNul := true

def sha512Hasher : Hasher where
  parse := fun s => toRes (sha2Parse (ofString "$6$") 86 s)
  render := sha2Render
  digest := fun b p => rawSha512 Spec.SHA512.sha512 b (p.salt.getD []) (p.rounds.getD 0).toNat
  rejectsNul := true

/-- settings as `hash` builds them: explicit `rounds=` unless the cost is 5000 -/
def sha2Settings (ident salt : Str) (rounds : Nat) : Parsed :=
  { ident := ident, rounds := some (rounds : Int), salt := some salt, extra := implicitFlag (rounds == 5000) }

end Model.VerifyCrypt
