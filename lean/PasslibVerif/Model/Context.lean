import PasslibVerif.Model.Rounds
/-
Model of passlib.context._CryptConfig / CryptContext policy logic:
option inheritance (scheme "all", default category), default scheme and deprecation resolution,
record creation through HasRounds.using(relaxed=True), identify (first claimer), needs_update,
hash, verify_and_update.  Facts about individual hash strings enter as atoms (`HashFacts`).
-/
namespace Model.Context
open Py Model.Rounds

abbrev Cat := Option String           -- `none` = the default category

/-- value of a rounds-related scheme option -/
inductive OptVal
  | rounds (a : Arg)                   -- min_rounds / max_rounds / default_rounds value (int or numeric string)
  | vary (v : Vary)                    -- vary_rounds (already coerced)
  | other                              -- any non-rounds option (salt_size, ident, truncate_error, …): passed through
  deriving DecidableEq, Repr

structure SchemeInfo where
  name : String
  base : Option Cls                    -- HasRounds class attributes; `none` = the hasher has no rounds
  allowed : List String                -- expand_settings(handler): setting_kwds (+ using_rounds_kwds)
  disabled : Bool := false
  deriving Repr

structure Cfg where
  schemes : List SchemeInfo
  defaults : List (Cat × String)                   -- `default` option per category
  deprecated : List (Cat × List String)            -- `deprecated` option per category (["auto"] allowed)
  opts : List ((String × Cat) × List (String × OptVal))   -- scheme (incl. "all") × category ↦ options
  deriving Repr

def lookupA {α β} [DecidableEq α] (k : α) : List (α × β) → Option β
  | [] => none
  | (k', v) :: rest => if k' = k then some v else lookupA k rest

def schemeNames (c : Cfg) : List String := c.schemes.map (·.name)

/-- `self.categories`: sorted tuple of the non-default categories mentioned anywhere -/
def insertSorted (s : String) : List String → List String
  | [] => [s]
  | x :: xs => if s < x then s :: x :: xs else if s = x then x :: xs else x :: insertSorted s xs

def categories (c : Cfg) : List String :=
  let cats := c.defaults.filterMap (·.1) ++ c.deprecated.filterMap (·.1) ++ c.opts.filterMap (·.1.2)
  cats.foldl (fun acc s => insertSorted s acc) []

/-! ### validation performed while the configuration is built (`_norm_context_option`, `_init_default_schemes`) -/
def firstNotIn (schemes deps : List String) : Option String := schemes.find? (fun s => !deps.contains s)

/-- `_init_default_schemes` for one category: resolved default, or the error it raises -/
def resolveDefault (c : Cfg) (cat : Cat) : Res String :=
  let gdeps := (lookupA none c.deprecated).getD []
  let gdef := lookupA none c.defaults
  match cat with
  | none =>
    (match gdef with
      | some d => if gdeps.contains d then .error .valueError else .ok d
      | none => match firstNotIn (schemeNames c) gdeps with
        | some s => .ok s
        | none => .error .valueError)
  | some _ =>
    let cdeps := (lookupA cat c.deprecated).getD gdeps
    -- default_map.get(cat, default) where `default` is the user-supplied global default (possibly None)
    (match (lookupA cat c.defaults).orElse (fun _ => gdef) with
      | some d => if cdeps.contains d then .error .valueError else .ok d
      | none => match firstNotIn (schemeNames c) cdeps with
        | some s => .ok s
        | none => .error .valueError)

/-- `default_scheme(category)` on a validated config: category entry, else the global one -/
def defaultScheme (c : Cfg) (cat : Cat) : Res String :=
  match cat with
  | none => resolveDefault c none
  | some k =>
    if (categories c).contains k then
      -- `_default_schemes[cat]` exists for every known category
      resolveDefault c cat
    else resolveDefault c none

/-- `is_deprecated_with_flag` -/
def depTest (c : Cfg) (scheme : String) (cat : Cat) : Option Bool :=
  match (lookupA cat c.deprecated).orElse (fun _ => lookupA none c.deprecated) with
  | none => none
  | some src =>
    if src.contains "auto" then
      (match defaultScheme c cat with | .ok d => some (scheme != d) | .error _ => some true)
    else some (src.contains scheme)

def isDeprecatedWithFlag (c : Cfg) (scheme : String) (cat : Cat) : Bool × Bool :=
  let value := (depTest c scheme none).getD false
  match cat with
  | none => (value, false)
  | some _ =>
    match depTest c scheme cat with
    | some alt => if value != alt then (alt, true) else (value, false)
    | none => (value, false)

/-! ### option inheritance (`get_scheme_options_with_flag`) -/
def optMap (c : Cfg) (scheme : String) (cat : Cat) : List (String × OptVal) := (lookupA (scheme, cat) c.opts).getD []

/-- dict.update: later entries override earlier ones, order of first appearance kept -/
def updateOpts (base new : List (String × OptVal)) : List (String × OptVal) :=
  new.foldl (fun acc kv => if acc.any (·.1 = kv.1) then acc.map (fun p => if p.1 = kv.1 then kv else p) else acc ++ [kv]) base

def filterAllowed (allowed : List String) (o : List (String × OptVal)) : List (String × OptVal) :=
  o.filter (fun p => allowed.contains p.1)

def sameOpts (a b : List (String × OptVal)) : Bool :=
  a.all (fun p => lookupA p.1 b = some p.2) && b.all (fun p => lookupA p.1 a = some p.2)

def schemeOptionsWithFlag (c : Cfg) (s : SchemeInfo) (cat : Cat) : List (String × OptVal) × Bool :=
  let allNone := optMap c "all" none
  match cat with
  | none => (updateOpts (filterAllowed s.allowed allNone) (optMap c s.name none), false)
  | some _ =>
    let kw := filterAllowed s.allowed (updateOpts allNone (optMap c "all" cat))
    let defkw := filterAllowed s.allowed allNone
    let other := optMap c s.name none
    let kw2 := updateOpts (updateOpts kw other) (optMap c s.name cat)
    let defkw2 := updateOpts defkw other
    (kw2, !(sameOpts kw2 defkw2))

/-! ### records -/
structure Record where
  scheme : String
  cls : Option Cls
  deprecated : Bool
  disabled : Bool
  deriving Repr

def argOf (o : List (String × OptVal)) (k : String) : Option Arg :=
  match lookupA k o with | some (.rounds a) => some a | _ => none

def varyOf (o : List (String × OptVal)) : Option Vary :=
  match lookupA "vary_rounds" o with | some (.vary v) => some v | _ => none

/-- `_create_record`: `handler.using(relaxed=True, **settings)`; an option the hasher does not take is a KeyError -/
def createRecord (s : SchemeInfo) (o : List (String × OptVal)) (dep : Bool) : Res Record :=
  if o.any (fun p => !s.allowed.contains p.1) then .error .keyError
  else match s.base with
    | none => .ok ⟨s.name, none, dep, s.disabled⟩
    | some b =>
      match usingRounds b { minRounds := (argOf o "min_rounds").orElse (fun _ => argOf o "min_desired_rounds"),
                            maxRounds := (argOf o "max_rounds").orElse (fun _ => argOf o "max_desired_rounds"),
                            defaultRounds := argOf o "default_rounds", varyRounds := varyOf o, relaxed := true } with
      | .error e => .error e
      | .ok cls => .ok ⟨s.name, some cls, dep, s.disabled⟩

/-- `get_record(scheme, category)`: the category-specific record when the category changes anything, else the default one -/
def getRecord (c : Cfg) (s : SchemeInfo) (cat : Cat) : Res Record :=
  let (o, hasCat) := schemeOptionsWithFlag c s cat
  let (dep, notInherited) := isDeprecatedWithFlag c s.name cat
  match cat with
  | none => createRecord s o dep
  | some k =>
    if (categories c).contains k && (hasCat || notInherited) then createRecord s o dep
    else
      let (o0, _) := schemeOptionsWithFlag c s none
      let (dep0, _) := isDeprecatedWithFlag c s.name none
      createRecord s o0 dep0

/-! ### per-hash facts supplied by the hashers (atoms) -/
structure HashFacts where
  claims : String → Bool            -- does scheme `s` identify the string
  rounds : Option Int               -- cost parsed by the claiming scheme
  selfFlag : Bool                   -- the scheme's own extra flag (e.g. bsdi even rounds is modelled in Cls; others here)
  verifies : Res Bool               -- verify(secret, hash) under the claiming scheme (may raise, e.g. on a config string)

/-- `identify_record`: first configured scheme that claims the hash -/
def identify (c : Cfg) (h : HashFacts) : Res SchemeInfo :=
  match c.schemes.find? (fun s => h.claims s.name) with
  | some s => .ok s
  | none => .error .unknownHash

def recordNeedsUpdate (r : Record) (h : HashFacts) : Bool :=
  r.deprecated || h.selfFlag ||
    (match r.cls, h.rounds with | some cls, some n => needsUpdate cls n | _, _ => false)

/-- `CryptContext.needs_update(hash, category=…)` -/
def needsUpdateCtx (c : Cfg) (h : HashFacts) (cat : Cat) : Res Bool :=
  match identify c h with
  | .error e => .error e
  | .ok s => match getRecord c s cat with
    | .error e => .error e
    | .ok r => .ok (recordNeedsUpdate r h)

/-- `CryptContext.hash(secret, category=…)`: default scheme's record generates the cost -/
def hashCtx (c : Cfg) (cat : Cat) (draw : Nat) (fv : Int) : Res (String × Option Int) :=
  match defaultScheme c cat with
  | .error e => .error e
  | .ok d => match c.schemes.find? (·.name = d) with
    | none => .error .keyError
    | some s => match getRecord c s cat with
      | .error e => .error e
      | .ok r => match r.cls with
        | none => .ok (d, none)
        | some cls => (generateChecked cls draw fv).map (fun n => (d, some n))

inductive VauOut
  | fail                       -- (False, None)
  | ok                         -- (True, None)
  | rehash (scheme : String) (rounds : Option Int)   -- (True, new) with new from the default scheme
  deriving DecidableEq, Repr

/-- `verify_and_update` -/
def verifyAndUpdate (c : Cfg) (h : HashFacts) (cat : Cat) (draw : Nat) (fv : Int) : Res VauOut :=
  match identify c h with
  | .error e => .error e
  | .ok s => match getRecord c s cat with
    | .error e => .error e
    | .ok r =>
      match h.verifies with
      | .error e => .error e
      | .ok false => .ok .fail
      | .ok true =>
        if recordNeedsUpdate r h then (hashCtx c cat draw fv).map (fun p => .rehash p.1 p.2)
        else .ok .ok

end Model.Context

namespace Model.Context
open Py Model.Rounds

/-- the checks `_CryptConfig.__init__` performs, in its order: context options, default schemes, records -/
def validate (c : Cfg) : Res Unit :=
  let names := schemeNames c
  -- _norm_scheme_option / _norm_context_option
  if c.opts.any (fun e => e.2.any (fun p => p.1 = "salt")) then .error .keyError
  else if c.defaults.any (fun d => !names.isEmpty && !names.contains d.2) then .error .keyError
  else if c.deprecated.any (fun d => d.2.contains "auto" && d.2.length > 1) then .error .valueError
  else if c.deprecated.any (fun d => !d.2.contains "auto" && !names.isEmpty && d.2.any (fun s => !names.contains s)) then .error .keyError
  else
    -- _init_default_schemes
    let cats : List Cat := none :: (categories c).map some
    match cats.findSome? (fun cat => match resolveDefault c cat with | .error e => some e | .ok _ => none) with
    | some e => if names.isEmpty then .ok () else .error e
    | none =>
      -- _init_records
      match c.schemes.findSome? (fun s => cats.findSome? (fun cat =>
          let (o, hasCat) := schemeOptionsWithFlag c s cat
          let (dep, notInh) := isDeprecatedWithFlag c s.name cat
          if cat.isNone || hasCat || notInh then
            (match createRecord s o dep with | .error e => some e | .ok _ => none)
          else none)) with
      | some e => .error e
      | none => .ok ()

end Model.Context
