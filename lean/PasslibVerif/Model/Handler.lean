import PasslibVerif.Py.Int
import PasslibVerif.Py.Fmt
import PasslibVerif.Model.HandlerMeta
/-
Generic pieces of passlib.utils.handlers used by the per-format models:
`parse_mc2`, `parse_mc3`, `render_mc2`, `render_mc3`, `parse_int`, `_norm_checksum`, `_norm_salt`,
`_norm_rounds`, and the uniform `Parsed` record the driver prints.  Text is `List Nat` (code points).

Parsers return `Option`: `none` is passlib's ValueError (InvalidHashError / MalformedHashError /
ZeroPaddedRoundsError / ChecksumSizeError / plain ValueError are all ValueErrors).  That no OTHER exception
class escapes the real code is what the correspondence run checks on every mutated string.
-/
namespace Model.Handler
open Py

abbrev Str := List Nat

def DOLLAR : Nat := 36
def ZERO : Nat := 48

def ofString (s : String) : Str := s.toList.map Char.toNat

/-- `str.split(sep)` for a one-character separator -/
def splitChar (sep : Nat) : Str → List Str
  | [] => [[]]
  | c :: rest =>
    match splitChar sep rest with
    | [] => [[c]]
    | f :: fs => if c = sep then [] :: f :: fs else (c :: f) :: fs

/-- `sep.join(parts)` -/
def joinChar (sep : Nat) : List Str → Str
  | [] => []
  | [p] => p
  | p :: q :: ps => p ++ sep :: joinChar sep (q :: ps)

structure Parsed where
  ident : Str := []
  rounds : Option Int := none
  salt : Option Str := none            -- text salts as code points, raw salts as byte values
  checksum : Option Str := none
  extra : List (String × Str) := []    -- format specific fields (e.g. implicit_rounds, block_size, variant …)
  deriving DecidableEq, Repr

/-- `chk or None` -/
def orNone (s : Str) : Option Str := if s.isEmpty then none else some s

/-- strip a required prefix -/
def stripPrefix (pfx h : Str) : Option Str := if pfx.isPrefixOf h then some (h.drop pfx.length) else none

/-- `parse_mc2(hash, prefix)` → (salt, chk) -/
def parseMc2 (pfx hash : Str) : Option (Str × Option Str) :=
  (stripPrefix pfx hash).bind fun body =>
    match splitChar DOLLAR body with
    | [salt, chk] => some (salt, orNone chk)
    | [salt] => some (salt, none)
    | _ => none

/-- `int(s, 10)`; ValueError on failure -/
def intField (s : Str) : Option Int := pyIntOfStr s

/-- the zero-padding test shared by `parse_mc3` / `parse_int`: starts with "0" and is not "0" -/
def zeroPadded (s : Str) : Bool := s.head? = some ZERO && s != [ZERO]

/-- `parse_int(source, base=10, default)` / the rounds part of `parse_mc3` -/
def parseIntField (s : Str) (default : Option Int) : Option Int :=
  if zeroPadded s then none
  else if s.isEmpty then default
  else intField s

/-- `parse_mc3(hash, prefix, default_rounds)` (base 10) → (rounds, salt, chk) -/
def parseMc3 (pfx hash : Str) (defaultRounds : Option Int) : Option (Int × Str × Option Str) :=
  (stripPrefix pfx hash).bind fun body =>
    match splitChar DOLLAR body with
    | [rounds, salt, chk] => (parseIntField rounds defaultRounds).map fun r => (r, salt, orNone chk)
    | [rounds, salt] => (parseIntField rounds defaultRounds).map fun r => (r, salt, none)
    | _ => none

def renderMc2 (ident salt : Str) (chk : Option Str) : Str :=
  match chk with
  | some c => if c.isEmpty then ident ++ salt else ident ++ salt ++ DOLLAR :: c
  | none => ident ++ salt

/-- `render_mc3` (base 10) -/
def renderMc3 (ident : Str) (rounds : Option Int) (salt : Str) (chk : Option Str) : Str :=
  let r := match rounds with | some n => fmtDec n | none => []
  match chk with
  | some c => if c.isEmpty then ident ++ r ++ DOLLAR :: salt else ident ++ r ++ DOLLAR :: (salt ++ DOLLAR :: c)
  | none => ident ++ r ++ DOLLAR :: salt

/-- every character of `s` is in the alphabet `cs` -/
def allIn (cs : List Nat) (s : Str) : Bool := s.all (cs.contains ·)

/-- every character in the (optional) alphabet -/
def charsOk (chars : Option (List Nat)) (s : Str) : Bool :=
  match chars with
  | some cs => cs.isEmpty || allIn cs s
  | none => true

/-- `_norm_checksum` for text checksums: exact size (when declared, non-zero) and alphabet (when declared) -/
def normChecksum (size : Option Nat) (chars : Option (List Nat)) (chk : Str) : Option Str :=
  if (match size with | some n => n = 0 || chk.length = n | none => true) && charsOk chars chk then some chk else none

/-- `_norm_salt(salt, relaxed)` for text salts (`salt_chars = None` means no alphabet check) -/
def normSalt (chars : Option (List Nat)) (mn : Nat) (mx : Option Nat) (relaxed : Bool) (salt : Str) : Option Str :=
  if !(match chars with | some cs => allIn cs salt | none => true) then none
  else if mn ≠ 0 && salt.length < mn then none
  else match mx with
    | some m => if m ≠ 0 && salt.length > m then (if relaxed then some (salt.take m) else none) else some salt
    | none => some salt

/-- `norm_integer(…, min, max, relaxed)` as used by `_norm_rounds` -/
def normRounds (lo : Int) (hi : Option Int) (relaxed : Bool) (v : Int) : Option Int :=
  if v < lo then (if relaxed then some lo else none)
  else match hi with
    | some h => if h ≠ 0 && v > h then (if relaxed then some h else none) else some v
    | none => some v

/-- lift to the error enum for the driver -/
def toRes {α} : Option α → Res α
  | some a => .ok a
  | none => .error .valueError

end Model.Handler
