import PasslibVerif.Py.Basic
import PasslibVerif.Gen.Ctx
/-
CryptContext configuration keys and values: `_parse_config_key`, `_render_config_key`,
`_render_ini_value` (ints and lists), dict-update semantics of `load(update=True)`.
Strings are lists of code points.
-/
namespace Model.CtxKey
open Py

abbrev Str := List Nat

def US : Nat := 95      -- '_'
def DOT : Nat := 46     -- '.'

/-- `.replace(".", "__")` -/
def dotsToDunder : Str → Str
  | [] => []
  | c :: rest => if c = DOT then US :: US :: dotsToDunder rest else c :: dotsToDunder rest

/-- `str.split("__")`: left-to-right, non-overlapping -/
def splitDunder : Str → Str → List Str
  | [], acc => [acc.reverse]
  | [c], acc => [(c :: acc).reverse]
  | a :: b :: rest, acc =>
    if a = US ∧ b = US then acc.reverse :: splitDunder rest []
    else splitDunder (b :: rest) (a :: acc)

structure Key where
  cat : Option Str
  scheme : Option Str
  option : Str
  deriving DecidableEq, Repr

def sDefault : Str := "default".toList.map Char.toNat
def sContext : Str := "context".toList.map Char.toNat

/-- `_parse_config_key` (TypeError for malformed keys) -/
def parseKey (ckey : Str) : Res Key :=
  match splitDunder (dotsToDunder ckey) [] with
  | [k] => if k.isEmpty then .error .typeError else .ok ⟨none, none, k⟩
  | [s, k] =>
    if s.isEmpty then .error .typeError
    else if k.isEmpty then .error .typeError
    else .ok ⟨none, if s = sContext then none else some s, k⟩
  | [c, s, k] =>
    if c.isEmpty then .error .typeError
    else if s.isEmpty then .error .typeError
    else if k.isEmpty then .error .typeError
    else .ok ⟨if c = sDefault then none else some c, if s = sContext then none else some s, k⟩
  | _ => .error .typeError

/-- `_render_config_key` -/
def renderKey (k : Key) : Str :=
  match k.cat with
  | some c => if c.isEmpty then (match k.scheme with | some s => if s.isEmpty then k.option else s ++ [US, US] ++ k.option | none => k.option)
              else c ++ [US, US] ++ (match k.scheme with | some s => if s.isEmpty then sContext else s | none => sContext) ++ [US, US] ++ k.option
  | none => match k.scheme with
    | some s => if s.isEmpty then k.option else s ++ [US, US] ++ k.option
    | none => k.option

/-- a key part that survives the syntax: non-empty, no '.', no "__", does not end with '_' -/
def noDunder : Str → Bool
  | a :: b :: rest => !(a = US ∧ b = US) && noDunder (b :: rest)
  | _ => true

def PartOK (p : Str) : Prop := p ≠ [] ∧ DOT ∉ p ∧ noDunder p = true ∧ p.getLast? ≠ some US

def KeyOK (k : Key) : Prop :=
  PartOK k.option ∧ (∀ c, k.cat = some c → PartOK c ∧ c ≠ sDefault) ∧ (∀ s, k.scheme = some s → PartOK s ∧ s ≠ sContext)

/-! ### dict update used by `load(update=True)` / `update()` -/
def lookupK {β} (k : Key) : List (Key × β) → Option β
  | [] => none
  | (k', v) :: rest => if k' = k then some v else lookupK k rest

def setK {β} (k : Key) (v : β) : List (Key × β) → List (Key × β)
  | [] => [(k, v)]
  | (k', v') :: rest => if k' = k then (k, v) :: rest else (k', v') :: setK k v rest

def updateItems {β} (old new : List (Key × β)) : List (Key × β) := new.foldl (fun acc kv => setK kv.1 kv.2 acc) old

end Model.CtxKey
