import PasslibVerif.Py.Basic
import PasslibVerif.Gen.Rng
import PasslibVerif.Gen.B64
/-
Model of the random helpers with the random source made explicit: `value` is what
`rng.getrandbits(grbBits count)` / `rng.randrange(0, grsRange letters count)` returned.
The loop bodies are the GENERATED expressions.
-/
namespace Model.Rng
open Py Gen.Rng

/-- `getrandbytes.helper`: `count` iterations of (yield, update) -/
def getrandbytes : Nat → Nat → Bytes
  | 0, _ => []
  | n+1, v => grbYield v :: getrandbytes n (grbNext v)

/-- index sequence produced by `getrandstr.helper` -/
def grsIndices (letters : Nat) : Nat → Nat → List Nat
  | 0, _ => []
  | n+1, v => grsIndex v letters :: grsIndices letters n (grsNext v letters)

/-- `getrandstr(rng, charset, count)` (count ≥ 0 is the `Nat` type; `count < 0` is a ValueError) -/
def getrandstr (charset : List Nat) (count value : Nat) : Res (List Nat) :=
  let letters := charset.length
  if letters = 0 then .error .valueError
  else if letters = 1 then .ok (List.flatten (List.replicate count charset))
  else .ok ((grsIndices letters count value).map (charset.getD · 0))

/-- bcrypt's `_generate_salt`: 22 symbols, then `bcrypt64.repair_unused` clears the 4 padding bits
    of the last symbol (value level) -/
def bcryptRepairLast (d : Nat) : Nat := d &&& (63 - Gen.B64.padinfo2BitsBig)

end Model.Rng
