-- written by tools/threads_old.py from the texts before the fix commits 7db893c, 5aea019, 9b8d3f5 of /repo; kept as data.
import PasslibVerif.Model.Threads

/-
The first-use protocols as they were BEFORE the repairs, derived by the same translator (tools/extract_units_threads.py) from
`git show 7db893c^:passlib/context.py`, `5aea019^:passlib/utils/binary.py`, `9b8d3f5^:passlib/utils/handlers.py`, and, for each,
witness schedules (two threads, micro-steps) found by `modeldrv threads witness` after which a thread has failed.
Props/C19 proves the failures; tools/corr/C19.py re-derives the programs on every run and compares.
-/
namespace Model.ThreadsOld
open Model.Threads

/- ctxOld: shared variables 4 = _lazy_kwds ['<absent>', 'None', '<options>', '<copy+onload>', '<copy>', '<onloaded>']; 5 = __class__ ['<absent>', '<LazyCryptContext>', '<CryptContext>']; 6 = _lazy_busy ['<absent>', 'False', 'True']; 7 = 'onload' in _lazy_kwds ['<absent>', 'True']
  --   0  .load 5 0 1
  --   1  .brNe 1 2 3
  --   2  .use .attributeError
  --        context.py:1940  if (
  --   3  .nop
  --        context.py:1941  not attr.startswith("_") or attr.startswith("__")
  --   4  .jmp 6
  --   5  .jmp 65
  --        context.py:1942  ) and self._lazy_kwds is not None:
  --   6  .loadG 4 1 0 5 1
  --   7  .brNe 0 0 9
  --   8  .fail .attributeError
  --   9  .brEq 0 1 65
  --  10  .jmp 11
  --        context.py:1943  self._lazy_init()
  --  11  .nop
  --  12  .load 5 0 1
  --  13  .brNe 1 2 15
  --  14  .fail .attributeError
  --        context.py:1931  kwds = self._lazy_kwds
  --  15  .nop
  --  16  .loadG 4 1 2 5 1
  --  17  .brNe 2 0 19
  --  18  .fail .attributeError
  --        context.py:1932  if "onload" in kwds:
  --  19  .nop
  --  20  .brNe 2 1 22
  --  21  .fail .typeError
  --  22  .brNe 2 2 26
  --  23  .load 7 0 0
  --  24  .brEq 0 1 28
  --  25  .jmp 42
  --  26  .brEq 2 3 28
  --  27  .jmp 42
  --        context.py:1933  onload = kwds.pop("onload")
  --  28  .nop
  --  29  .brNe 2 1 31
  --  30  .fail .attributeError
  --  31  .brNe 2 2 35
  --  32  .swap 7 0 1
  --  33  .brNe 1 0 37
  --  34  .fail .keyError
  --  35  .brNe 2 3 34
  --  36  .set 2 4
  --        context.py:1934  kwds = onload(**kwds)
  --  37  .nop
  --  38  .brNe 2 1 40
  --  39  .fail .typeError
  --  40  .onload 2
  --  41  .jmp 43
  --  42  .jmp 43
  --        context.py:1935  del self._lazy_kwds
  --  43  .nop
  --  44  .swap 4 0 0
  --  45  .brNe 0 0 47
  --  46  .fail .attributeError
  --        context.py:1936  super().__init__(**kwds)
  --  47  .nop
  --  48  .load 5 0 1
  --  49  .brNe 1 2 51
  --  50  .fail .typeError
  --  51  .brNe 2 1 53
  --  52  .fail .typeError
  --  53  .brNe 2 2 59
  --  54  .load 7 0 0
  --  55  .brEq 0 1 58
  --  56  .set 2 4
  --  57  .jmp 59
  --  58  .set 2 3
  --  59  .initBegin 2
  --  60  .initEnd
  --        context.py:1937  self.__class__ = CryptContext
  --  61  .nop
  --  62  .store 5 2
  --  63  .jmp 64
  --  64  .jmp 66
  --  65  .jmp 66
  --        context.py:1944  return object.__getattribute__(self, attr)
  --  66  .nop
  --  67  .use .attributeError
-/
def ctxOld : Prog :=
  ⟨[
    .load 5 0 1,
    .brNe 1 2 3,
    .use .attributeError,
    .nop,
    .jmp 6,
    .jmp 65,
    .loadG 4 1 0 5 1,
    .brNe 0 0 9,
    .fail .attributeError,
    .brEq 0 1 65,
    .jmp 11,
    .nop,
    .load 5 0 1,
    .brNe 1 2 15,
    .fail .attributeError,
    .nop,
    .loadG 4 1 2 5 1,
    .brNe 2 0 19,
    .fail .attributeError,
    .nop,
    .brNe 2 1 22,
    .fail .typeError,
    .brNe 2 2 26,
    .load 7 0 0,
    .brEq 0 1 28,
    .jmp 42,
    .brEq 2 3 28,
    .jmp 42,
    .nop,
    .brNe 2 1 31,
    .fail .attributeError,
    .brNe 2 2 35,
    .swap 7 0 1,
    .brNe 1 0 37,
    .fail .keyError,
    .brNe 2 3 34,
    .set 2 4,
    .nop,
    .brNe 2 1 40,
    .fail .typeError,
    .onload 2,
    .jmp 43,
    .jmp 43,
    .nop,
    .swap 4 0 0,
    .brNe 0 0 47,
    .fail .attributeError,
    .nop,
    .load 5 0 1,
    .brNe 1 2 51,
    .fail .typeError,
    .brNe 2 1 53,
    .fail .typeError,
    .brNe 2 2 59,
    .load 7 0 0,
    .brEq 0 1 58,
    .set 2 4,
    .jmp 59,
    .set 2 3,
    .initBegin 2,
    .initEnd,
    .nop,
    .store 5 2,
    .jmp 64,
    .jmp 66,
    .jmp 66,
    .nop,
    .use .attributeError],
   40960⟩
def ctxOldTags : List Nat :=
  [0, 0, 0, 101940, 101941, 101941, 101942, 101942, 101942, 101942, 101942, 101943, 101943, 101943, 101943, 101931, 101931, 101931, 101931, 101932, 101932, 101932, 101932, 101932, 101932, 101932, 101932, 101932, 101933, 101933, 101933, 101933, 101933, 101933, 101933, 101933, 101933, 101934, 101934, 101934, 101934, 0, 0, 101935, 101935, 101935, 101935, 101936, 101936, 101936, 101936, 101936, 101936, 101936, 101936, 101936, 101936, 101936, 101936, 101936, 101936, 101937, 101937, 0, 0, 0, 101944, 101944]
def ctxOldWant : Outcome := .ok 4

/- ctxOnloadOld: shared variables 4 = _lazy_kwds ['<absent>', 'None', '<options>', '<copy+onload>', '<copy>', '<onloaded>']; 5 = __class__ ['<absent>', '<LazyCryptContext>', '<CryptContext>']; 6 = _lazy_busy ['<absent>', 'False', 'True']; 7 = 'onload' in _lazy_kwds ['<absent>', 'True']
  --   0  .load 5 0 1
  --   1  .brNe 1 2 3
  --   2  .use .attributeError
  --        context.py:1940  if (
  --   3  .nop
  --        context.py:1941  not attr.startswith("_") or attr.startswith("__")
  --   4  .jmp 6
  --   5  .jmp 65
  --        context.py:1942  ) and self._lazy_kwds is not None:
  --   6  .loadG 4 1 0 5 1
  --   7  .brNe 0 0 9
  --   8  .fail .attributeError
  --   9  .brEq 0 1 65
  --  10  .jmp 11
  --        context.py:1943  self._lazy_init()
  --  11  .nop
  --  12  .load 5 0 1
  --  13  .brNe 1 2 15
  --  14  .fail .attributeError
  --        context.py:1931  kwds = self._lazy_kwds
  --  15  .nop
  --  16  .loadG 4 1 2 5 1
  --  17  .brNe 2 0 19
  --  18  .fail .attributeError
  --        context.py:1932  if "onload" in kwds:
  --  19  .nop
  --  20  .brNe 2 1 22
  --  21  .fail .typeError
  --  22  .brNe 2 2 26
  --  23  .load 7 0 0
  --  24  .brEq 0 1 28
  --  25  .jmp 42
  --  26  .brEq 2 3 28
  --  27  .jmp 42
  --        context.py:1933  onload = kwds.pop("onload")
  --  28  .nop
  --  29  .brNe 2 1 31
  --  30  .fail .attributeError
  --  31  .brNe 2 2 35
  --  32  .swap 7 0 1
  --  33  .brNe 1 0 37
  --  34  .fail .keyError
  --  35  .brNe 2 3 34
  --  36  .set 2 4
  --        context.py:1934  kwds = onload(**kwds)
  --  37  .nop
  --  38  .brNe 2 1 40
  --  39  .fail .typeError
  --  40  .onload 2
  --  41  .jmp 43
  --  42  .jmp 43
  --        context.py:1935  del self._lazy_kwds
  --  43  .nop
  --  44  .swap 4 0 0
  --  45  .brNe 0 0 47
  --  46  .fail .attributeError
  --        context.py:1936  super().__init__(**kwds)
  --  47  .nop
  --  48  .load 5 0 1
  --  49  .brNe 1 2 51
  --  50  .fail .typeError
  --  51  .brNe 2 1 53
  --  52  .fail .typeError
  --  53  .brNe 2 2 59
  --  54  .load 7 0 0
  --  55  .brEq 0 1 58
  --  56  .set 2 4
  --  57  .jmp 59
  --  58  .set 2 3
  --  59  .initBegin 2
  --  60  .initEnd
  --        context.py:1937  self.__class__ = CryptContext
  --  61  .nop
  --  62  .store 5 2
  --  63  .jmp 64
  --  64  .jmp 66
  --  65  .jmp 66
  --        context.py:1944  return object.__getattribute__(self, attr)
  --  66  .nop
  --  67  .use .attributeError
-/
def ctxOnloadOld : Prog :=
  ⟨[
    .load 5 0 1,
    .brNe 1 2 3,
    .use .attributeError,
    .nop,
    .jmp 6,
    .jmp 65,
    .loadG 4 1 0 5 1,
    .brNe 0 0 9,
    .fail .attributeError,
    .brEq 0 1 65,
    .jmp 11,
    .nop,
    .load 5 0 1,
    .brNe 1 2 15,
    .fail .attributeError,
    .nop,
    .loadG 4 1 2 5 1,
    .brNe 2 0 19,
    .fail .attributeError,
    .nop,
    .brNe 2 1 22,
    .fail .typeError,
    .brNe 2 2 26,
    .load 7 0 0,
    .brEq 0 1 28,
    .jmp 42,
    .brEq 2 3 28,
    .jmp 42,
    .nop,
    .brNe 2 1 31,
    .fail .attributeError,
    .brNe 2 2 35,
    .swap 7 0 1,
    .brNe 1 0 37,
    .fail .keyError,
    .brNe 2 3 34,
    .set 2 4,
    .nop,
    .brNe 2 1 40,
    .fail .typeError,
    .onload 2,
    .jmp 43,
    .jmp 43,
    .nop,
    .swap 4 0 0,
    .brNe 0 0 47,
    .fail .attributeError,
    .nop,
    .load 5 0 1,
    .brNe 1 2 51,
    .fail .typeError,
    .brNe 2 1 53,
    .fail .typeError,
    .brNe 2 2 59,
    .load 7 0 0,
    .brEq 0 1 58,
    .set 2 4,
    .jmp 59,
    .set 2 3,
    .initBegin 2,
    .initEnd,
    .nop,
    .store 5 2,
    .jmp 64,
    .jmp 66,
    .jmp 66,
    .nop,
    .use .attributeError],
   2138112⟩
def ctxOnloadOldTags : List Nat :=
  [0, 0, 0, 101940, 101941, 101941, 101942, 101942, 101942, 101942, 101942, 101943, 101943, 101943, 101943, 101931, 101931, 101931, 101931, 101932, 101932, 101932, 101932, 101932, 101932, 101932, 101932, 101932, 101933, 101933, 101933, 101933, 101933, 101933, 101933, 101933, 101933, 101934, 101934, 101934, 101934, 0, 0, 101935, 101935, 101935, 101935, 101936, 101936, 101936, 101936, 101936, 101936, 101936, 101936, 101936, 101936, 101936, 101936, 101936, 101936, 101937, 101937, 0, 0, 0, 101944, 101944]
def ctxOnloadOldWant : Outcome := .ok 5

/- engOld: shared variables 4 = _lazy_opts ['<absent>', 'None', '<options>', '<copy+onload>', '<copy>', '<onloaded>']; 5 = __class__ ['<absent>', '<LazyBase64Engine>', '<Base64Engine>']; 7 = 'onload' in _lazy_opts ['<absent>', 'True']
  --   0  .load 5 0 1
  --   1  .brNe 1 2 3
  --   2  .use .typeError
  --        binary.py:845  if not attr.startswith("_"):
  --   3  .nop
  --        binary.py:846  self._lazy_init()
  --   4  .nop
  --   5  .load 5 0 0
  --   6  .brNe 0 2 8
  --   7  .fail .attributeError
  --        binary.py:839  args, kwds = self._lazy_opts
  --   8  .nop
  --   9  .loadG 4 1 2 5 1
  --  10  .brNe 2 0 12
  --  11  .fail .attributeError
  --  12  .brNe 2 1 14
  --  13  .fail .typeError
  --        binary.py:840  super().__init__(*args, **kwds)
  --  14  .nop
  --  15  .load 5 0 1
  --  16  .brNe 1 2 18
  --  17  .fail .typeError
  --  18  .brNe 2 1 20
  --  19  .fail .typeError
  --  20  .initBegin 2
  --  21  .initEnd
  --        binary.py:841  del self._lazy_opts
  --  22  .nop
  --  23  .swap 4 0 0
  --  24  .brNe 0 0 26
  --  25  .fail .attributeError
  --        binary.py:842  self.__class__ = Base64Engine
  --  26  .nop
  --  27  .store 5 2
  --  28  .jmp 29
  --        binary.py:847  return object.__getattribute__(self, attr)
  --  29  .nop
  --  30  .use .typeError
-/
def engOld : Prog :=
  ⟨[
    .load 5 0 1,
    .brNe 1 2 3,
    .use .typeError,
    .nop,
    .nop,
    .load 5 0 0,
    .brNe 0 2 8,
    .fail .attributeError,
    .nop,
    .loadG 4 1 2 5 1,
    .brNe 2 0 12,
    .fail .attributeError,
    .brNe 2 1 14,
    .fail .typeError,
    .nop,
    .load 5 0 1,
    .brNe 1 2 18,
    .fail .typeError,
    .brNe 2 1 20,
    .fail .typeError,
    .initBegin 2,
    .initEnd,
    .nop,
    .swap 4 0 0,
    .brNe 0 0 26,
    .fail .attributeError,
    .nop,
    .store 5 2,
    .jmp 29,
    .nop,
    .use .typeError],
   40960⟩
def engOldTags : List Nat :=
  [0, 0, 0, 200845, 200846, 200846, 200846, 200846, 200839, 200839, 200839, 200839, 200839, 200839, 200840, 200840, 200840, 200840, 200840, 200840, 200840, 200840, 200841, 200841, 200841, 200841, 200842, 200842, 0, 200847, 200847]
def engOldWant : Outcome := .ok 2

/- stubOld: shared variables 4 = __backend ['<absent>', 'None', "'os_crypt'", "'builtin'"]; 5 = _calc_checksum_backend ['<absent>', '<stub>', '<backend-function>']; 6 = _pending_backend ['<absent>', 'None', "'os_crypt'", "'builtin'"]; 7 = _pending_dry_run ['<absent>', 'False', 'True']
  --        handlers.py:2307  return self._calc_checksum_backend(secret)
  --   0  .nop
  --   1  .load 5 1 0
  --   2  .brEq 0 1 4
  --   3  .ret 0
  --        handlers.py:2315  self._stub_requires_backend()
  --   4  .nop
  --        handlers.py:2174  if cls.__backend:
  --   5  .nop
  --   6  .load 4 1 2
  --   7  .brEq 2 1 12
  --   8  .jmp 9
  --        handlers.py:2175  raise AssertionError(
  --   9  .nop
  --        handlers.py:2176  f"{cls.name}: _finalize_backend({cls.__backend!r}) failed to replace lazy loader"
  --  10  .load 4 1 1
  --        handlers.py:2175  raise AssertionError(
  --  11  .fail .assertionError
  --  12  .jmp 13
  --        handlers.py:2178  cls.set_backend()
  --  13  .nop
  --        handlers.py:2078  if (name == "any" and cls.__backend) or (name and name == cls.__backend):
  --  14  .nop
  --  15  .jmp 16
  --  16  .load 4 1 2
  --  17  .brEq 2 1 19
  --  18  .jmp 22
  --  19  .jmp 20
  --  20  .load 4 1 1
  --  21  .jmp 25
  --        handlers.py:2079  return cls.__backend
  --  22  .nop
  --  23  .load 4 1 3
  --  24  .jmp 99
  --  25  .jmp 26
  --        handlers.py:2083  owner = cls._get_backend_owner()
  --  26  .nop
  --        handlers.py:2084  if owner is not cls:
  --  27  .nop
  --        handlers.py:2088  if name == "any" or name == "default":
  --  28  .nop
  --        handlers.py:2089  default_error = None
  --  29  .nop
  --        handlers.py:2090  for name in cls.backends:
  --  30  .nop
  --        handlers.py:2091  try:
  --  31  .nop
  --        handlers.py:2092  return cls.set_backend(name, dryrun=dryrun)
  --  32  .nop
  --        handlers.py:2078  if (name == "any" and cls.__backend) or (name and name == cls.__backend):
  --  33  .nop
  --  34  .jmp 38
  --  35  .load 4 1 2
  --  36  .brEq 2 1 38
  --  37  .jmp 42
  --  38  .jmp 39
  --  39  .load 4 1 1
  --  40  .brEq 1 2 42
  --  41  .jmp 45
  --        handlers.py:2079  return cls.__backend
  --  42  .nop
  --  43  .load 4 1 4
  --  44  .jmp 98
  --  45  .jmp 46
  --        handlers.py:2083  owner = cls._get_backend_owner()
  --  46  .nop
  --        handlers.py:2084  if owner is not cls:
  --  47  .nop
  --        handlers.py:2088  if name == "any" or name == "default":
  --  48  .nop
  --        handlers.py:2108  if name not in cls.backends:
  --  49  .nop
  --        handlers.py:2112  with _backend_lock:
  --  50  .nop
  --  51  .acquire
  --        handlers.py:2113  orig = cls._pending_backend, cls._pending_dry_run
  --  52  .nop
  --  53  .load 6 1 5
  --  54  .load 7 1 6
  --        handlers.py:2114  try:
  --  55  .nop
  --        handlers.py:2115  cls._pending_backend = name
  --  56  .nop
  --  57  .store 6 2
  --        handlers.py:2116  cls._pending_dry_run = dryrun
  --  58  .nop
  --  59  .store 7 1
  --        handlers.py:2117  cls._set_backend(name, dryrun)
  --  60  .nop
  --        handlers.py:2143  loader = cls._get_backend_loader(name)
  --  61  .nop
  --        handlers.py:2144  kwds = {}
  --  62  .nop
  --        handlers.py:2145  if accepts_keyword(loader, "name"):
  --  63  .nop
  --        handlers.py:2147  if accepts_keyword(loader, "dryrun"):
  --  64  .nop
  --        handlers.py:2149  ok = loader(**kwds)
  --  65  .nop
  --        md5_crypt.py:251  if test_crypt("test", "$1$test$pi/xDtU5WFVRqYS6BMU8X/"):
  --  66  .nop
  --  67  .set 7 2
  --  68  .initBegin 7
  --  69  .initEnd
  --        md5_crypt.py:252  cls._set_calc_checksum_backend(cls._calc_checksum_os_crypt)
  --  70  .nop
  --        handlers.py:2359  backend = cls._pending_backend
  --  71  .nop
  --  72  .load 6 1 8
  --        handlers.py:2360  assert backend, "should only be called during set_backend()"
  --  73  .nop
  --        handlers.py:2361  if not callable(func):
  --  74  .nop
  --        handlers.py:2365  if not cls._pending_dry_run:
  --  75  .nop
  --  76  .load 7 1 2
  --  77  .brEq 2 1 79
  --  78  .jmp 82
  --        handlers.py:2366  cls._calc_checksum_backend = func
  --  79  .nop
  --  80  .store 5 2
  --  81  .jmp 83
  --  82  .jmp 83
  --  83  .jmp 84
  --        md5_crypt.py:253  return True
  --  84  .nop
  --  85  .jmp 86
  --        handlers.py:2150  if ok is False:
  --  86  .nop
  --        handlers.py:2152  if ok is not True:
  --  87  .nop
  --  88  .jmp 89
  --        handlers.py:2119  cls._pending_backend, cls._pending_dry_run = orig
  --  89  .nop
  --  90  .storeR 6 5
  --  91  .storeR 7 6
  --        handlers.py:2120  if not dryrun:
  --  92  .nop
  --        handlers.py:2121  cls.__backend = name
  --  93  .nop
  --  94  .store 4 2
  --        handlers.py:2122  return name
  --  95  .nop
  --        handlers.py:2112  with _backend_lock:
  --  96  .release
  --  97  .jmp 98
  --  98  .jmp 99
  --        handlers.py:2179  if not cls.__backend:
  --  99  .nop
  -- 100  .load 4 1 1
  -- 101  .brEq 1 1 103
  -- 102  .jmp 105
  --        handlers.py:2180  raise AssertionError(
  -- 103  .nop
  -- 104  .fail .assertionError
  -- 105  .jmp 106
  -- 106  .jmp 107
  --        handlers.py:2316  return self._calc_checksum_backend(secret)
  -- 107  .nop
  -- 108  .load 5 1 9
  -- 109  .brEq 9 1 4
  -- 110  .ret 9
-/
def stubOld : Prog :=
  ⟨[
    .nop,
    .load 5 1 0,
    .brEq 0 1 4,
    .ret 0,
    .nop,
    .nop,
    .load 4 1 2,
    .brEq 2 1 12,
    .jmp 9,
    .nop,
    .load 4 1 1,
    .fail .assertionError,
    .jmp 13,
    .nop,
    .nop,
    .jmp 16,
    .load 4 1 2,
    .brEq 2 1 19,
    .jmp 22,
    .jmp 20,
    .load 4 1 1,
    .jmp 25,
    .nop,
    .load 4 1 3,
    .jmp 99,
    .jmp 26,
    .nop,
    .nop,
    .nop,
    .nop,
    .nop,
    .nop,
    .nop,
    .nop,
    .jmp 38,
    .load 4 1 2,
    .brEq 2 1 38,
    .jmp 42,
    .jmp 39,
    .load 4 1 1,
    .brEq 1 2 42,
    .jmp 45,
    .nop,
    .load 4 1 4,
    .jmp 98,
    .jmp 46,
    .nop,
    .nop,
    .nop,
    .nop,
    .nop,
    .acquire,
    .nop,
    .load 6 1 5,
    .load 7 1 6,
    .nop,
    .nop,
    .store 6 2,
    .nop,
    .store 7 1,
    .nop,
    .nop,
    .nop,
    .nop,
    .nop,
    .nop,
    .nop,
    .set 7 2,
    .initBegin 7,
    .initEnd,
    .nop,
    .nop,
    .load 6 1 8,
    .nop,
    .nop,
    .nop,
    .load 7 1 2,
    .brEq 2 1 79,
    .jmp 82,
    .nop,
    .store 5 2,
    .jmp 83,
    .jmp 83,
    .jmp 84,
    .nop,
    .jmp 86,
    .nop,
    .nop,
    .jmp 89,
    .nop,
    .storeR 6 5,
    .storeR 7 6,
    .nop,
    .nop,
    .store 4 2,
    .nop,
    .release,
    .jmp 98,
    .jmp 99,
    .nop,
    .load 4 1 1,
    .brEq 1 1 103,
    .jmp 105,
    .nop,
    .fail .assertionError,
    .jmp 106,
    .jmp 107,
    .nop,
    .load 5 1 9,
    .brEq 9 1 4,
    .ret 9],
   0⟩
def stubOldTags : List Nat :=
  [302307, 302307, 302307, 302307, 302315, 302174, 302174, 302174, 302174, 302175, 302176, 302175, 0, 302178, 302078, 302078, 302078, 302078, 302078, 302078, 302078, 302078, 302079, 302079, 0, 0, 302083, 302084, 302088, 302089, 302090, 302091, 302092, 302078, 302078, 302078, 302078, 302078, 302078, 302078, 302078, 302078, 302079, 302079, 0, 0, 302083, 302084, 302088, 302108, 302112, 302112, 302113, 302113, 302113, 302114, 302115, 302115, 302116, 302116, 302117, 302143, 302144, 302145, 302147, 302149, 700251, 700251, 700251, 700251, 700252, 302359, 302359, 302360, 302361, 302365, 302365, 302365, 302365, 302366, 302366, 0, 0, 0, 700253, 0, 302150, 302152, 0, 302119, 302119, 302119, 302120, 302121, 302121, 302122, 302112, 0, 0, 302179, 302179, 302179, 302179, 302180, 302180, 0, 0, 302316, 302316, 302316, 302316]
def stubOldWant : Outcome := .ok 2

/- bcStubOld: shared variables 4 = __backend ['<absent>', 'None', "'bcrypt'", "'os_crypt'", "'builtin'"]; 5 = __bases__ ['<absent>', '<_NoBackend>', '<backend-mixin>']; 6 = _pending_backend ['<absent>', 'None', "'bcrypt'", "'os_crypt'", "'builtin'"]; 7 = _pending_dry_run ['<absent>', 'False', 'True']
  --   0  .load 5 0 0
  --   1  .brEq 0 1 3
  --   2  .ret 0
  --        bcrypt.py:598  self._stub_requires_backend()
  --   3  .nop
  --        handlers.py:2174  if cls.__backend:
  --   4  .nop
  --   5  .load 4 1 2
  --   6  .brEq 2 1 11
  --   7  .jmp 8
  --        handlers.py:2175  raise AssertionError(
  --   8  .nop
  --        handlers.py:2176  f"{cls.name}: _finalize_backend({cls.__backend!r}) failed to replace lazy loader"
  --   9  .load 4 1 1
  --        handlers.py:2175  raise AssertionError(
  --  10  .fail .assertionError
  --  11  .jmp 12
  --        handlers.py:2178  cls.set_backend()
  --  12  .nop
  --        handlers.py:2078  if (name == "any" and cls.__backend) or (name and name == cls.__backend):
  --  13  .nop
  --  14  .jmp 15
  --  15  .load 4 1 2
  --  16  .brEq 2 1 18
  --  17  .jmp 21
  --  18  .jmp 19
  --  19  .load 4 1 1
  --  20  .jmp 24
  --        handlers.py:2079  return cls.__backend
  --  21  .nop
  --  22  .load 4 1 3
  --  23  .jmp 98
  --  24  .jmp 25
  --        handlers.py:2083  owner = cls._get_backend_owner()
  --  25  .nop
  --        handlers.py:2084  if owner is not cls:
  --  26  .nop
  --        handlers.py:2088  if name == "any" or name == "default":
  --  27  .nop
  --        handlers.py:2089  default_error = None
  --  28  .nop
  --        handlers.py:2090  for name in cls.backends:
  --  29  .nop
  --        handlers.py:2091  try:
  --  30  .nop
  --        handlers.py:2092  return cls.set_backend(name, dryrun=dryrun)
  --  31  .nop
  --        handlers.py:2078  if (name == "any" and cls.__backend) or (name and name == cls.__backend):
  --  32  .nop
  --  33  .jmp 37
  --  34  .load 4 1 2
  --  35  .brEq 2 1 37
  --  36  .jmp 41
  --  37  .jmp 38
  --  38  .load 4 1 1
  --  39  .brEq 1 2 41
  --  40  .jmp 44
  --        handlers.py:2079  return cls.__backend
  --  41  .nop
  --  42  .load 4 1 4
  --  43  .jmp 97
  --  44  .jmp 45
  --        handlers.py:2083  owner = cls._get_backend_owner()
  --  45  .nop
  --        handlers.py:2084  if owner is not cls:
  --  46  .nop
  --        handlers.py:2088  if name == "any" or name == "default":
  --  47  .nop
  --        handlers.py:2108  if name not in cls.backends:
  --  48  .nop
  --        handlers.py:2112  with _backend_lock:
  --  49  .nop
  --  50  .acquire
  --        handlers.py:2113  orig = cls._pending_backend, cls._pending_dry_run
  --  51  .nop
  --  52  .load 6 1 5
  --  53  .load 7 1 6
  --        handlers.py:2114  try:
  --  54  .nop
  --        handlers.py:2115  cls._pending_backend = name
  --  55  .nop
  --  56  .store 6 2
  --        handlers.py:2116  cls._pending_dry_run = dryrun
  --  57  .nop
  --  58  .store 7 1
  --        handlers.py:2117  cls._set_backend(name, dryrun)
  --  59  .nop
  --        handlers.py:2226  super()._set_backend(name, dryrun)
  --  60  .nop
  --        handlers.py:2143  loader = cls._get_backend_loader(name)
  --  61  .nop
  --        handlers.py:2144  kwds = {}
  --  62  .nop
  --        handlers.py:2145  if accepts_keyword(loader, "name"):
  --  63  .nop
  --        handlers.py:2147  if accepts_keyword(loader, "dryrun"):
  --  64  .nop
  --        handlers.py:2149  ok = loader(**kwds)
  --  65  .nop
  --  66  .set 7 2
  --  67  .initBegin 7
  --  68  .initEnd
  --        handlers.py:2150  if ok is False:
  --  69  .nop
  --        handlers.py:2152  if ok is not True:
  --  70  .nop
  --  71  .jmp 72
  --        handlers.py:2230  assert (
  --  72  .nop
  --        handlers.py:2235  mixin_map = cls._backend_mixin_map
  --  73  .nop
  --        handlers.py:2236  assert mixin_map, "_backend_mixin_map not specified"
  --  74  .nop
  --        handlers.py:2237  mixin_cls = mixin_map[name]
  --  75  .nop
  --        handlers.py:2238  assert issubclass(mixin_cls, SubclassBackendMixin), "invalid mixin class"
  --  76  .nop
  --        handlers.py:2241  update_mixin_classes(
  --  77  .nop
  --        __init__.py:204  if isinstance(add, type):
  --  78  .nop
  --        __init__.py:207  bases = list(target.__bases__)
  --  79  .nop
  --  80  .load 5 0 8
  --        __init__.py:210  if remove:
  --  81  .nop
  --        __init__.py:220  if add:
  --  82  .nop
  --        __init__.py:255  if not dryrun:
  --  83  .nop
  --        __init__.py:256  target.__bases__ = tuple(bases)
  --  84  .nop
  --  85  .store 5 2
  --  86  .jmp 87
  --  87  .jmp 88
  --        handlers.py:2119  cls._pending_backend, cls._pending_dry_run = orig
  --  88  .nop
  --  89  .storeR 6 5
  --  90  .storeR 7 6
  --        handlers.py:2120  if not dryrun:
  --  91  .nop
  --        handlers.py:2121  cls.__backend = name
  --  92  .nop
  --  93  .store 4 2
  --        handlers.py:2122  return name
  --  94  .nop
  --        handlers.py:2112  with _backend_lock:
  --  95  .release
  --  96  .jmp 97
  --  97  .jmp 98
  --        handlers.py:2179  if not cls.__backend:
  --  98  .nop
  --  99  .load 4 1 2
  -- 100  .brEq 2 1 102
  -- 101  .jmp 104
  --        handlers.py:2180  raise AssertionError(
  -- 102  .nop
  -- 103  .fail .assertionError
  -- 104  .jmp 105
  -- 105  .jmp 106
  --        bcrypt.py:601  return super(bcrypt, self)._calc_checksum(secret)
  -- 106  .nop
  -- 107  .load 5 0 9
  -- 108  .brEq 9 1 3
  -- 109  .ret 9
-/
def bcStubOld : Prog :=
  ⟨[
    .load 5 0 0,
    .brEq 0 1 3,
    .ret 0,
    .nop,
    .nop,
    .load 4 1 2,
    .brEq 2 1 11,
    .jmp 8,
    .nop,
    .load 4 1 1,
    .fail .assertionError,
    .jmp 12,
    .nop,
    .nop,
    .jmp 15,
    .load 4 1 2,
    .brEq 2 1 18,
    .jmp 21,
    .jmp 19,
    .load 4 1 1,
    .jmp 24,
    .nop,
    .load 4 1 3,
    .jmp 98,
    .jmp 25,
    .nop,
    .nop,
    .nop,
    .nop,
    .nop,
    .nop,
    .nop,
    .nop,
    .jmp 37,
    .load 4 1 2,
    .brEq 2 1 37,
    .jmp 41,
    .jmp 38,
    .load 4 1 1,
    .brEq 1 2 41,
    .jmp 44,
    .nop,
    .load 4 1 4,
    .jmp 97,
    .jmp 45,
    .nop,
    .nop,
    .nop,
    .nop,
    .nop,
    .acquire,
    .nop,
    .load 6 1 5,
    .load 7 1 6,
    .nop,
    .nop,
    .store 6 2,
    .nop,
    .store 7 1,
    .nop,
    .nop,
    .nop,
    .nop,
    .nop,
    .nop,
    .nop,
    .set 7 2,
    .initBegin 7,
    .initEnd,
    .nop,
    .nop,
    .jmp 72,
    .nop,
    .nop,
    .nop,
    .nop,
    .nop,
    .nop,
    .nop,
    .nop,
    .load 5 0 8,
    .nop,
    .nop,
    .nop,
    .nop,
    .store 5 2,
    .jmp 87,
    .jmp 88,
    .nop,
    .storeR 6 5,
    .storeR 7 6,
    .nop,
    .nop,
    .store 4 2,
    .nop,
    .release,
    .jmp 97,
    .jmp 98,
    .nop,
    .load 4 1 2,
    .brEq 2 1 102,
    .jmp 104,
    .nop,
    .fail .assertionError,
    .jmp 105,
    .jmp 106,
    .nop,
    .load 5 0 9,
    .brEq 9 1 3,
    .ret 9],
   32768⟩
def bcStubOldTags : List Nat :=
  [0, 0, 0, 500598, 302174, 302174, 302174, 302174, 302175, 302176, 302175, 0, 302178, 302078, 302078, 302078, 302078, 302078, 302078, 302078, 302078, 302079, 302079, 0, 0, 302083, 302084, 302088, 302089, 302090, 302091, 302092, 302078, 302078, 302078, 302078, 302078, 302078, 302078, 302078, 302078, 302079, 302079, 0, 0, 302083, 302084, 302088, 302108, 302112, 302112, 302113, 302113, 302113, 302114, 302115, 302115, 302116, 302116, 302117, 302226, 302143, 302144, 302145, 302147, 302149, 302149, 302149, 302149, 302150, 302152, 0, 302230, 302235, 302236, 302237, 302238, 302241, 400204, 400207, 400207, 400210, 400220, 400255, 400256, 400256, 0, 0, 302119, 302119, 302119, 302120, 302121, 302121, 302122, 302112, 0, 0, 302179, 302179, 302179, 302179, 302180, 302180, 0, 0, 500601, 500601, 500601, 500601]
def bcStubOldWant : Outcome := .ok 2

def all : List (String × Prog × Outcome) :=
  [("ctxOld", ctxOld, ctxOldWant), ("ctxOnloadOld", ctxOnloadOld, ctxOnloadOldWant), ("engOld", engOld, engOldWant), ("stubOld", stubOld, stubOldWant), ("bcStubOld", bcStubOld, bcStubOldWant)]

def allTags : List (String × List Nat) :=
  [("ctxOld", ctxOldTags), ("ctxOnloadOld", ctxOnloadOldTags), ("engOld", engOldTags), ("stubOld", stubOldTags), ("bcStubOld", bcStubOldTags)]

/-- found by breadth first search: the shortest schedule after which a thread shows `AttributeError` -/
def ctxOldWitness : List Tid := List.replicate 23 0 ++ List.replicate 10 1

/-- found by breadth first search: the shortest schedule after which a thread shows `TypeError` -/
def ctxOldWitness2 : List Tid := List.replicate 22 0 ++ List.replicate 5 1 ++ [0] ++ List.replicate 12 1

/-- found by breadth first search: the shortest schedule after which a thread shows `ok` -/
def ctxOnloadOldWitness : List Tid := List.replicate 23 0 ++ List.replicate 41 1

/-- found by breadth first search: the shortest schedule after which a thread shows `AttributeError` -/
def ctxOnloadOldWitness2 : List Tid := List.replicate 30 0 ++ List.replicate 10 1

/-- found by breadth first search: the shortest schedule after which a thread shows `TypeError` -/
def engOldWitness : List Tid := List.replicate 18 0 ++ List.replicate 11 1

/-- found by breadth first search: the shortest schedule after which a thread shows `AttributeError` -/
def engOldWitness2 : List Tid := List.replicate 20 0 ++ [1] ++ [0] ++ List.replicate 6 1

/-- found by breadth first search: the shortest schedule after which a thread shows `AssertionError` -/
def stubOldWitness : List Tid := List.replicate 64 0 ++ [1, 1] ++ List.replicate 14 0 ++ List.replicate 9 1

/-- found by breadth first search: the shortest schedule after which a thread shows `AssertionError` -/
def bcStubOldWitness : List Tid := List.replicate 70 0 ++ [1] ++ List.replicate 9 0 ++ List.replicate 9 1

end Model.ThreadsOld
