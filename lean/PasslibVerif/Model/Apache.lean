import PasslibVerif.Py.Basic
import PasslibVerif.Gen.Apache
/-
Model of passlib.apache._CommonFile / HtpasswdFile / HtdigestFile at the byte level:
`_load_lines`, `_set_record`, `_iter_lines`, delete, delete_realm, check_password.
Names are already-encoded bytes; the hash context (`verify_and_update`) is a parameter.
`realm = none` is an htpasswd record, `some r` an htdigest record.
-/
namespace Model.Apache
open Py

structure Key where
  user : Bytes
  realm : Option Bytes
  deriving DecidableEq, Repr

inductive Tok
  | skipped (text : Bytes)
  | record (key : Key)
  deriving DecidableEq, Repr

structure St where
  records : List (Key × Bytes)      -- the dict `_records` in insertion order
  source : List Tok                 -- `_source`
  deriving DecidableEq, Repr

def St.empty : St := ⟨[], []⟩

/-! ### bytes helpers (Python `bytes` methods) -/
def isWs (c : Nat) : Bool := c == 32 || c == 9 || c == 10 || c == 13 || c == 11 || c == 12
def lstrip (b : Bytes) : Bytes := b.dropWhile isWs
def rstrip (b : Bytes) : Bytes := (b.reverse.dropWhile isWs).reverse

/-- `bytes.split(b":")` -/
def splitOn (sep : Nat) : Bytes → List Bytes
  | [] => [[]]
  | c :: rest =>
    match splitOn sep rest with
    | [] => [[c]]          -- unreachable: splitOn never returns []
    | f :: fs => if c = sep then [] :: f :: fs else (c :: f) :: fs

/-- iteration of `BytesIO(data)`: lines keep their terminating `\n` -/
def splitLines : Bytes → List Bytes
  | [] => []
  | c :: rest =>
    if c = 10 then [c] :: splitLines rest
    else match splitLines rest with
      | [] => [[c]]
      | l :: ls => if rest = [] then [[c]] else (c :: l) :: ls

def lookup (k : Key) : List (Key × Bytes) → Option Bytes
  | [] => none
  | (k', v) :: rest => if k' = k then some v else lookup k rest

def hasKey (k : Key) (r : List (Key × Bytes)) : Bool := (lookup k r).isSome

/-- dict item assignment: replace in place if present, else append -/
def setItem (k : Key) (v : Bytes) : List (Key × Bytes) → List (Key × Bytes)
  | [] => [(k, v)]
  | (k', v') :: rest => if k' = k then (k, v) :: rest else (k', v') :: setItem k v rest

def delItem (k : Key) : List (Key × Bytes) → List (Key × Bytes)
  | [] => []
  | (k', v) :: rest => if k' = k then delItem k rest else (k', v) :: delItem k rest

/-! ### parsing -/
/-- `_parse_record`: htpasswd expects 2 fields, htdigest 3 -/
def parseRecord (digest : Bool) (line : Bytes) : Res (Key × Bytes) :=
  match digest, splitOn 58 (rstrip line) with
  | false, [u, h] => .ok (⟨u, none⟩, h)
  | true, [u, r, h] => .ok (⟨u, some r⟩, h)
  | _, _ => .error .valueError

structure LoadAcc where
  records : List (Key × Bytes)
  source : List Tok
  skipped : Bytes

/-- one iteration of the loop in `_load_lines` -/
def loadStep (digest : Bool) (acc : LoadAcc) (line : Bytes) : Res LoadAcc :=
  let tmp := lstrip line
  if tmp.isEmpty || tmp.head? = some 35 then .ok { acc with skipped := acc.skipped ++ line }
  else match parseRecord digest line with
    | .error e => .error e
    | .ok (key, value) =>
      if hasKey key acc.records then .ok acc                       -- duplicate: dropped (first entry wins)
      else
        let source := if acc.skipped.isEmpty then acc.source else acc.source ++ [Tok.skipped acc.skipped]
        .ok { records := acc.records ++ [(key, value)], source := source ++ [Tok.record key], skipped := [] }

def loadLoop (digest : Bool) : LoadAcc → List Bytes → Res LoadAcc
  | acc, [] => .ok acc
  | acc, l :: ls => match loadStep digest acc l with
    | .error e => .error e
    | .ok acc' => loadLoop digest acc' ls

/-- `_load_lines`: on failure the object keeps its old state (the assignment happens last) -/
def loadLines (digest : Bool) (lines : List Bytes) : Res St :=
  match loadLoop digest ⟨[], [], []⟩ lines with
  | .error e => .error e
  | .ok acc =>
    -- trailing whitespace is dropped, trailing comments are kept
    let source :=
      if (rstrip acc.skipped).isEmpty then acc.source
      else acc.source ++ [Tok.skipped (if acc.skipped.getLast? = some 10 then acc.skipped else acc.skipped ++ [10])]
    .ok ⟨acc.records, source⟩

def loadString (digest : Bool) (data : Bytes) : Res St := loadLines digest (splitLines data)

/-! ### rendering -/
def renderRecord (k : Key) (h : Bytes) : Bytes :=
  match k.realm with
  | none => k.user ++ [58] ++ h ++ [10]
  | some r => k.user ++ [58] ++ r ++ [58] ++ h ++ [10]

/-- `_iter_lines` (the `pending` bookkeeping is an assert-only check, see `Inv`) -/
def iterLines (s : St) : List Bytes :=
  s.source.filterMap fun
    | .skipped t => some t
    | .record k => (lookup k s.records).map (renderRecord k)

def toString (s : St) : Bytes := (iterLines s).flatten

/-! ### field validation (`_encode_field`) -/
/-- `_INVALID_FIELD_CHARS` and the length bound of `_encode_field`, as read from passlib/apache.py on this run (unit Apache) -/
def invalidFieldChars : List Nat := Gen.Apache.invalidFieldChars
def maxFieldLen : Nat := Gen.Apache.maxFieldLen

def encodeField (v : Bytes) : Res Bytes :=
  if v.length > maxFieldLen then .error .valueError
  else if v.any (invalidFieldChars.contains ·) then .error .valueError
  else .ok v

def encodeKey (user : Bytes) (realm : Option Bytes) : Res Key :=
  match encodeField user with
  | .error e => .error e
  | .ok u => match realm with
    | none => .ok ⟨u, none⟩
    | some r => match encodeField r with
      | .error e => .error e
      | .ok r => .ok ⟨u, some r⟩

/-! ### operations -/
/-- `_set_record` -/
def setRecord (s : St) (k : Key) (v : Bytes) : St × Bool :=
  let existing := hasKey k s.records
  let records := setItem k v s.records
  let source := if !existing && !(s.source.contains (Tok.record k)) then s.source ++ [Tok.record k] else s.source
  (⟨records, source⟩, existing)

def setHash (s : St) (user : Bytes) (realm : Option Bytes) (hash : Bytes) : Res (St × Bool) :=
  match encodeKey user realm with
  | .error e => .error e
  | .ok k => .ok (setRecord s k hash)

def delete (s : St) (user : Bytes) (realm : Option Bytes) : Res (St × Bool) :=
  match encodeKey user realm with
  | .error e => .error e
  | .ok k => if hasKey k s.records then .ok (⟨delItem k s.records, s.source⟩, true) else .ok (s, false)

def deleteRealm (s : St) (realm : Bytes) : Res (St × Nat) :=
  match encodeField realm with
  | .error e => .error e
  | .ok r =>
    let keep := s.records.filter (fun p => p.1.realm ≠ some r)
    .ok (⟨keep, s.source⟩, s.records.length - keep.length)

def getHash (s : St) (user : Bytes) (realm : Option Bytes) : Res (Option Bytes) :=
  match encodeKey user realm with
  | .error e => .error e
  | .ok k => .ok (lookup k s.records)

def users (s : St) (realm : Option Bytes) : Res (List Bytes) :=
  match realm with
  | none => .ok ((s.records.filter (fun p => p.1.realm = none)).map (·.1.user))
  | some r => match encodeField r with
    | .error e => .error e
    | .ok r => .ok ((s.records.filter (fun p => p.1.realm = some r)).map (·.1.user))

/-- `HtpasswdFile.check_password` with the context's `verify_and_update` as a parameter -/
def checkPassword (vau : Bytes → Bytes → Bool × Option Bytes) (s : St) (user pwd : Bytes) : Res (St × Option Bool) :=
  match encodeKey user none with
  | .error e => .error e
  | .ok k => match lookup k s.records with
    | none => .ok (s, none)
    | some h =>
      match vau pwd h with
      | (true, some new) => .ok (⟨setItem k new s.records, s.source⟩, some true)
      | (ok, _) => .ok (s, some ok)

/-! ### an operation alphabet for histories -/
inductive Op
  | load (data : Bytes)
  | setHash (user : Bytes) (realm : Option Bytes) (hash : Bytes)
  | delete (user : Bytes) (realm : Option Bytes)
  | deleteRealm (realm : Bytes)
  | check (user pwd : Bytes)

/-- state after an operation (a failing operation leaves the state unchanged) -/
def step (digest : Bool) (vau : Bytes → Bytes → Bool × Option Bytes) (s : St) : Op → St
  | .load data => match loadString digest data with | .ok s' => s' | .error _ => s
  | .setHash u r h => match setHash s u r h with | .ok (s', _) => s' | .error _ => s
  | .delete u r => match delete s u r with | .ok (s', _) => s' | .error _ => s
  | .deleteRealm r => match deleteRealm s r with | .ok (s', _) => s' | .error _ => s
  | .check u p => match checkPassword vau s u p with | .ok (s', _) => s' | .error _ => s

def run (digest : Bool) (vau : Bytes → Bytes → Bool × Option Bytes) (s : St) (ops : List Op) : St :=
  ops.foldl (step digest vau) s

end Model.Apache
