import PasslibVerif.Py.Basic
import PasslibVerif.Gen.Totp
/-
Model of passlib.crypto.digest.compile_hmac / pbkdf1 for an abstract digest `H`
(hashlib's update/copy/digest on concatenated data is `H` of the concatenation).
-/
namespace Model.Hmac
open Py Gen.Totp

def translate (tbl : List Nat) (bs : Bytes) : Bytes := bs.map (tbl.getD · 0)

/-- `compile_hmac(digest, key)(msg)`: note `klen = digest_size` after hashing a long key -/
def compileHmac (H : Bytes → Bytes) (blockSize digestSize : Nat) (key msg : Bytes) : Bytes :=
  let key1 := if key.length > blockSize then H key else key
  let klen := if key.length > blockSize then digestSize else key.length
  let key2 := if klen < blockSize then key1 ++ List.replicate (blockSize - klen) 0 else key1
  H (translate TRANS_5C key2 ++ H (translate TRANS_36 key2 ++ msg))

/-- `pbkdf1(digest, secret, salt, rounds, keylen)`: T1 = H(P‖S), Ti = H(Ti-1) -/
def iterH (H : Bytes → Bytes) : Nat → Bytes → Bytes
  | 0, b => b
  | n+1, b => iterH H n (H b)

def pbkdf1 (H : Bytes → Bytes) (digestSize : Nat) (secret salt : Bytes) (rounds : Nat) (keylen : Option Nat) : Res Bytes :=
  if rounds < 1 then .error .valueError
  else match keylen with
    | none => .ok (iterH H rounds (secret ++ salt))
    | some k => if k > digestSize then .error .valueError else .ok ((iterH H rounds (secret ++ salt)).take k)

end Model.Hmac
