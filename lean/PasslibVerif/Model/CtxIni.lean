import PasslibVerif.Model.CtxKey
import PasslibVerif.Model.UsingSalt
import PasslibVerif.Py.Int
import PasslibVerif.Py.Fmt
import PasslibVerif.Py.Str
import PasslibVerif.Gen.Ctx
/-
C10 — the VALUE side of the text form of a context configuration (passlib/context.py, passlib/utils/__init__.py).

passlib's own code, modelled statement by statement
  * `CryptContext._render_ini_value(key, value)`                      → `renderIniValue`
  * `CryptContext._write_to_parser` (one `parser.set` per item)        → `renderItem`, `renderAll`
  * `passlib.utils.splitcomma`                                        → `splitcomma`
  * `_coerce_vary_rounds`, the table `_coerce_scheme_options`          → `coerceVaryRounds`, `intCoerced`
  * `_CryptConfig._norm_scheme_option`                                 → `normSchemeOption`
  * `_CryptConfig._norm_context_option`                                → `normContextOption`
  * `_CryptConfig._init_scheme_list` (names only)                      → `initSchemeList`
  * the body of the loop of `_CryptConfig._init_options` for one item  → `initOption`
  * `CryptContext.load` on an INI source up to the configuration dict  → `parseBack`

External, NOT modelled but ASSUMED (namespace `Cfgp`; each assumption is a function of this file, compared with the real
`configparser` module of the running interpreter in the correspondence run, tools/corr/c10_ini.py, suite ops `cfgp-*`):
  A1 `ConfigParser.set` accepts a value in which no '%' is left after `value.replace('%%', '')`     (`Cfgp.beforeSet`)
  A2 `write()` followed by `read_file()` of an option `key = value` whose value holds no "\n" gives back
     `value.strip()` (`str.strip`: the `str.isspace` table of the interpreter)                       (`Cfgp.readValue`)
  A3 the option name comes back as `optionxform(key) = key.lower()`; defined for names made of letters, digits, '_', '.', '-'
     (no delimiter, no blank, no comment prefix, no '[')                                             (`Cfgp.readKey`)
  A4 `items(section)` applies BasicInterpolation: "%%" → "%", a lone '%' → InterpolationSyntaxError,
     "%(" starts a reference to another option (not modelled: `unmodelled`)                          (`Cfgp.interp`)
Floats are opaque atoms: the model never computes with them (`FloatAtom`), `float(text)` succeeding is a parameter (`floatOk`).
The registry (`get_crypt_handler`) is a parameter (`resolve`).  CPython's integer/text conversion limit (more than 4300 digits:
ValueError in `str()` and `int()`) is not modelled.
-/
namespace Model.CtxIni
open Py Model.CtxKey

def cp (x : String) : Str := x.toList.map Char.toNat

def PCT : Nat := 37      -- '%'
def COMMA : Nat := 44    -- ','
def SP : Nat := 32       -- ' '
def NL : Nat := 10       -- '\n'
def ZERO : Nat := 48     -- '0'
def LPAREN : Nat := 40   -- '('

/-- a float: the model only knows what the interpreter says about it -/
inductive FloatAtom
  /-- a float object held by a configuration: `not f`, `f"{f:.2f}"`, `str(f)` as the interpreter gives them -/
  | obj (isZero : Bool) (fmt2 : Str) (repr : Str)
  /-- the float `float(t)` (`percent = false`) resp. `float(t) * 0.01` (`percent = true`) -/
  | ofText (t : Str) (percent : Bool)
  deriving DecidableEq, Repr

/-- the values a configuration carries -/
inductive Val
  | int (n : Int)
  | bool (b : Bool)
  | float (a : FloatAtom)
  | str (t : Str)
  | names (l : List Str)      -- list / tuple of str (scheme names)
  | none
  deriving DecidableEq, Repr

def sSchemes : Str := cp "schemes"
def sDeprecated : Str := cp "deprecated"
def sDefaultOpt : Str := cp "default"
def sAuto : Str := cp "auto"
def sAll : Str := cp "all"
def sVaryRounds : Str := cp "vary_rounds"
def sTruncateError : Str := cp "truncate_error"
def sTrue : Str := cp "True"
def sFalse : Str := cp "False"

/-! ### rendering (`_render_ini_value`) -/

/-- `", ".join(l)` -/
def joinCS : List Str → Str
  | [] => []
  | [a] => a
  | a :: b :: rest => a ++ COMMA :: SP :: joinCS (b :: rest)

/-- `t.rstrip("0")` -/
def rstripZeros (t : Str) : Str := (t.reverse.dropWhile (· == ZERO)).reverse

/-- `t.replace("%", "%%")` -/
def pctEscape (t : Str) : Str := t.flatMap fun c => if c = PCT then [PCT, PCT] else [c]

/-- `str(True)` / `str(False)` (bool is an `int` for `isinstance(value, numeric_types)`) -/
def boolText (b : Bool) : Str := if b then sTrue else sFalse

/-- the text before the percent escaping -/
def valueText (k : Key) : Val → Res Str
  | .names l => .ok (joinCS l)
  | .int n => .ok (fmtDec n)
  | .bool b => .ok (boolText b)
  | .float (.obj isZero fmt2 repr) =>
    if k.option = sVaryRounds then .ok (if isZero then [ZERO] else rstripZeros fmt2) else .ok repr
  | .float (.ofText _ _) => .error .notImplemented      -- the digits of a computed float are the interpreter's business
  | .str t => .ok t
  | .none => .error .assertionError                      -- `assert isinstance(value, str)`

/-- `_render_ini_value(key, value)` -/
def renderIniValue (k : Key) (v : Val) : Res Str := (valueText k v).map pctEscape

/-- one `parser.set(section, render_key(k), render_value(k, v))` of `_write_to_parser` -/
def renderItem (kv : Key × Val) : Res (Str × Str) := (renderIniValue kv.1 kv.2).map fun t => (renderKey kv.1, t)

/-- `_write_to_parser`: the option lines handed to configparser, in `iter_config` order -/
def renderAll (cfg : List (Key × Val)) : Res (List (Str × Str)) := cfg.mapM renderItem

/-! ### what configparser is assumed to do (A1–A4) -/
namespace Cfgp

/-- `value.replace('%%', '')` -/
def removePairs : Str → Str
  | a :: b :: rest => if a = PCT ∧ b = PCT then removePairs rest else a :: removePairs (b :: rest)
  | l => l

/-- A1: `BasicInterpolation.before_set`; a '%' that is left over may still be part of a `%(name)s` reference: not modelled -/
def beforeSet (v : Str) : Res Unit := if PCT ∈ removePairs v then .error .notImplemented else .ok ()

/-- A2: the value of `key = value` as read back -/
def readValue (v : Str) : Res Str := if NL ∈ v then .error .notImplemented else .ok (Model.UsingSalt.strip v)

def keyChar (c : Nat) : Bool := (48 ≤ c && c ≤ 57) || (65 ≤ c && c ≤ 90) || (97 ≤ c && c ≤ 122) || c = 95 || c = 46 || c = 45

/-- A3: the option name as read back -/
def readKey (k : Str) : Res Str := if k.isEmpty || !k.all keyChar then .error .notImplemented else .ok (Py.pyLower k)

/-- A4: `BasicInterpolation._interpolate_some` without references (`.valueError` stands for InterpolationSyntaxError) -/
def interp : Str → Res Str
  | [] => .ok []
  | c :: rest =>
    if c = PCT then
      match rest with
      | [] => .error .valueError
      | d :: rest' =>
        if d = PCT then (interp rest').map (PCT :: ·)
        else if d = LPAREN then .error .notImplemented
        else .error .valueError
    else (interp rest).map (c :: ·)

/-- `parser.set` … `parser.write` … `read_file` … `items(section)` for one option -/
def channel (kv : Str × Str) : Res (Str × Str) := do
  let k ← readKey kv.1
  beforeSet kv.2
  let raw ← readValue kv.2
  let v ← interp raw
  pure (k, v)

end Cfgp

/-! ### reading (`splitcomma`, the coercion tables, `_norm_*_option`) -/

/-- `passlib.utils.splitcomma(source)` -/
def splitcomma (source : Str) : List Str :=
  let source := Model.UsingSalt.strip source
  let source := if source.getLast? = some COMMA then source.dropLast else source
  if source.isEmpty then [] else (Model.Handler.splitChar COMMA source).map Model.UsingSalt.strip

/-- the keys of `_coerce_scheme_options` whose function is `int` -/
def intCoerced : List Str := [cp "min_rounds", cp "max_rounds", cp "default_rounds", cp "salt_size"]

/-- `_forbidden_scheme_options` and `_global_settings`, read from the source on every run -/
def forbidden : List Str := Gen.Ctx.forbiddenSchemeOptions.map cp
def globalSettings : List Str := Gen.Ctx.globalSettings.map cp

/-- `value.rstrip("%")` -/
def rstripPct (t : Str) : Str := (t.reverse.dropWhile (· == PCT)).reverse

/-- `_coerce_vary_rounds(value)`; `floatOk t` = "`float(t)` does not raise" -/
def coerceVaryRounds (floatOk : Str → Bool) (t : Str) : Res Val :=
  if t.getLast? = some PCT then
    (if floatOk (rstripPct t) then .ok (.float (.ofText (rstripPct t) true)) else .error .valueError)
  else match pyIntOfStr t with
    | some n => .ok (.int n)
    | none => if floatOk t then .ok (.float (.ofText t false)) else .error .valueError

/-- `_norm_scheme_option(key, value)` (the key is returned unchanged) -/
def normSchemeOption (floatOk : Str → Bool) (key : Str) (v : Val) : Res Val :=
  if forbidden.contains key then .error .keyError
  else match v with
    | .str t =>
      if intCoerced.contains key then (match pyIntOfStr t with | some n => .ok (.int n) | none => .error .valueError)
      else if key = sVaryRounds then coerceVaryRounds floatOk t
      else .ok (.str t)
    | v => .ok v

/-- `_norm_context_option(cat, key, value)` given `self.schemes` (hasher objects as values are not modelled) -/
def normContextOption (schemes : List Str) (key : Str) (v : Val) : Res Val :=
  if key = sDefaultOpt then
    match v with
    | .str t => if !schemes.isEmpty && !schemes.contains t then .error .keyError else .ok (.str t)
    | _ => .error .typeError
  else if key = sDeprecated then
    match (match v with | .str t => some (splitcomma t) | .names l => some l | _ => Option.none) with
    | Option.none => .error .typeError
    | some l =>
      if l.contains sAuto then (if l.length > 1 then .error .valueError else .ok (.names l))
      else if !schemes.isEmpty && !l.all schemes.contains then .error .keyError
      else .ok (.names l)
  else if key = sSchemes then .ok v
  else .error .keyError

/-- `bool(x)` of the values that may stand where a sequence is expected -/
def truthy : Val → Bool
  | .int n => n ≠ 0
  | .bool b => b
  | .float (.obj z _ _) => !z
  | .float (.ofText _ _) => true
  | .str t => !t.isEmpty
  | .names l => !l.isEmpty
  | .none => false

def hasDup : List Str → Bool
  | [] => false
  | a :: rest => rest.contains a || hasDup rest

/-- the loop of `_init_scheme_list`: resolve every element, refuse a name that is already in use -/
def resolveAll (resolve : Str → Option Str) : List Str → List Str → Res (List Str)
  | [], acc => .ok acc.reverse
  | e :: rest, acc => match resolve e with
    | Option.none => .error .keyError
    | some n => if acc.contains n then .error .keyError else resolveAll resolve rest (n :: acc)

/-- `_init_scheme_list(data)` for names (`resolve n` = the `.name` of `get_crypt_handler(n)`, `none` = KeyError) -/
def initSchemeList (resolve : Str → Option Str) (data : Option Val) : Res (List Str) :=
  match data with
  | Option.none => .ok []
  | some (.str t) => resolveAll resolve (splitcomma t) []
  | some (.names l) => resolveAll resolve l []
  | some (.float (.ofText _ _)) => .error .notImplemented
  | some v => if truthy v then .error .typeError else .ok []      -- `for elem in data or ()`

def catTruthy : Option Str → Bool | some c => !c.isEmpty | Option.none => false

/-- the body of the loop of `_init_options` for one `(cat, scheme, key), value` item: the key under which the value is stored
    (and exported again) and the stored value -/
def initOption (floatOk : Str → Bool) (schemes : List Str) (k : Key) (v : Val) : Res (Key × Val) :=
  let scheme : Option Str :=
    if !catTruthy k.cat && !catTruthy k.scheme && globalSettings.contains k.option then some sAll else k.scheme
  if catTruthy scheme then
    (normSchemeOption floatOk k.option v).map fun v' => (⟨k.cat, scheme, k.option⟩, v')
  else if catTruthy k.cat && k.option = sSchemes then .error .keyError
  else (normContextOption schemes k.option v).map fun v' => (k, v')

/-- the `schemes` entry of a parsed source: `source.get((None, None, "schemes"))` -/
def schemesEntry : List (Key × Val) → Option Val
  | [] => Option.none
  | (k, v) :: rest => if k = ⟨Option.none, Option.none, sSchemes⟩ then (match schemesEntry rest with | some w => some w | Option.none => some v) else schemesEntry rest

/-- what `iter_config` writes for a stored item: the `schemes` option itself is dropped and `list(self.schemes)` written
    in its place when there are schemes; everything else as stored -/
def exportItem (schemes : List Str) (kv : Key × Val) : Option (Key × Val) :=
  if kv.1 = ⟨Option.none, Option.none, sSchemes⟩ then (if schemes.isEmpty then Option.none else some (kv.1, .names schemes)) else some kv

/-- `load(dict-of-text)` up to the exported configuration, item by item: keys parsed, scheme list initialised, every option
    normalised (`_init_options`), written again (`iter_config`; the ORDER of `iter_config` is not modelled) -/
def loadItems (floatOk : Str → Bool) (resolve : Str → Option Str) (items : List (Str × Str)) : Res (List (Key × Val)) := do
  let src ← items.mapM fun kv => (parseKey kv.1).map fun k => (k, Val.str kv.2)
  let schemes ← initSchemeList resolve (schemesEntry src)
  let out ← src.mapM fun kv => initOption floatOk schemes kv.1 kv.2
  pure (out.filterMap (exportItem schemes))

/-- `parseBack = coerce ∘ (text of render)`: `from_string(to_string())` up to the exported configuration, item by item -/
def parseBack (floatOk : Str → Bool) (resolve : Str → Option Str) (lines : List (Str × Str)) : Res (List (Key × Val)) := do
  let items ← lines.mapM Cfgp.channel
  loadItems floatOk resolve items

end Model.CtxIni
