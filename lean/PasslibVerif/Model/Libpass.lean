import PasslibVerif.Model.Formats.MiscLibpass
import PasslibVerif.Gen.ShaCrypt
/-
Model of the libpass hashers' decision logic (libpass/hashers/sha_crypt.py `_ShaHasher`, pbkdf2.py `PBKDF2SHAHandler`)
on top of the inspector models (`Model.Formats.lpShaParse`, `lpPbkdf2Parse`, tied to the real inspectors under C07).
The digest algorithm is a parameter: for sha-crypt it is instantiated with the C02 model of libpass' `_sha_crypt`, for PBKDF2 it is
hashlib's `pbkdf2_hmac` (external, shared with passlib).  Salts are ASCII text (libpass generates them from `[./0-9A-Za-z]`).
-/
namespace Model.Libpass
open Py Model.Handler Model.Formats

/-- Python `x or d` on an optional int -/
def orDefault (x : Option Int) (d : Int) : Int := match x with | some v => if v = 0 then d else v | none => d

/-! ### sha256 / sha512 crypt -/

structure ShaHasher where
  ident : Str                       -- "$5$" / "$6$"
  n : Nat                           -- checksum characters (43 / 86)
  rounds : Nat                      -- self._rounds
  digest : Bytes → Str → Nat → Res Str   -- `_sha_crypt(secret, salt, rounds, …)`

def DEFAULT_ROUNDS : Int := (Gen.ShaCrypt.lpDefaultRounds : Nat)

def ShaHasher.inspect (h : ShaHasher) (s : Str) : Res (Option Parsed) := lpShaParse h.ident h.n s

/-- `hash(secret, salt=salt)` -/
def ShaHasher.hash (h : ShaHasher) (secret : Bytes) (salt : Str) : Res Str :=
  match h.digest secret salt h.rounds with
  | .error e => .error e
  | .ok c => lpShaRender { ident := h.ident, rounds := some (h.rounds : Int), salt := some salt, checksum := some c }

/-- `verify(hash, secret)` -/
def ShaHasher.verify (h : ShaHasher) (hs : Str) (secret : Bytes) : Res Bool :=
  match h.inspect hs with
  | .error e => .error e
  | .ok none => .ok false
  | .ok (some info) =>
    match h.digest secret (info.salt.getD []) (orDefault info.rounds DEFAULT_ROUNDS).toNat with
    | .error e => .error e
    | .ok c => .ok (info.checksum.getD [] == c)

def ShaHasher.identify (h : ShaHasher) (hs : Str) : Res Bool :=
  match h.inspect hs with | .error e => .error e | .ok r => .ok r.isSome

def ShaHasher.needsUpdate (h : ShaHasher) (hs : Str) : Res Bool :=
  match h.inspect hs with
  | .error e => .error e
  | .ok none => .ok true
  | .ok (some info) => .ok (orDefault info.rounds DEFAULT_ROUNDS != (h.rounds : Int))

/-! ### pbkdf2-sha256 / pbkdf2-sha512 -/

structure PbkdfHasher where
  digestName : Str                  -- "pbkdf2-sha256"
  rounds : Nat                      -- self._rounds (never 0: `rounds or DEFAULT`)
  prf : Bytes → Bytes → Nat → Bytes   -- hashlib.pbkdf2_hmac(HASH_NAME, password, salt, iterations)
  enc : Bytes → Str                 -- ab64_encode
  dec : Str → Res Bytes             -- ab64_decode

def PbkdfHasher.ident (h : PbkdfHasher) : Str := DOLLAR :: (h.digestName ++ [DOLLAR])

/-- `hash(secret, salt=salt, rounds=rounds)` for a NON-EMPTY salt and non-zero rounds (otherwise the hasher substitutes
    a random salt / its own rounds: `salt or self._salt()`, `rounds or self._rounds`) -/
def PbkdfHasher.hashWith (h : PbkdfHasher) (secret salt : Bytes) (rounds : Nat) : Res Str :=
  lpPbkdf2Render { ident := h.ident, rounds := some (rounds : Int), salt := some (h.enc salt), checksum := some (h.enc (h.prf secret salt rounds)) }

def PbkdfHasher.inspect (h : PbkdfHasher) (s : Str) : Res (Option Parsed) := lpPbkdf2Parse h.digestName s

/-- `verify`: re-hash with the inspected salt and rounds and compare the STRINGS -/
def PbkdfHasher.verify (h : PbkdfHasher) (hs : Str) (secret : Bytes) : Res Bool :=
  match h.inspect hs with
  | .error e => .error e
  | .ok none => .ok false
  | .ok (some info) =>
    match h.dec (info.salt.getD []) with
    | .error e => .error e
    | .ok salt =>
      if salt.isEmpty then .error .runtimeError      -- a random salt would be drawn: outside the model (and the property: non-empty salts)
      else
        let r := orDefault info.rounds (h.rounds : Int)
        match h.hashWith secret salt r.toNat with
        | .error e => .error e
        | .ok again => .ok (hs == again)

def PbkdfHasher.needsUpdate (h : PbkdfHasher) (hs : Str) : Res Bool :=
  match h.inspect hs with
  | .error e => .error e
  | .ok none => .ok true
  | .ok (some info) => .ok (info.rounds != some (h.rounds : Int))

/-! ### bcrypt-sha256 (PHC record `$bcrypt-sha256$v=2,t=2b,r=12$salt$digest`)

`libpass/hashers/bcrypt.py::BcryptSHA256Hasher`: identify / verify / needs_update read the record through `inspect_phc`
(`Model.Formats.lpPhcParse bcryptSha256Phc`, tied to the real inspector under C07) and accept only the version the hasher
implements (`info.version_ != 2` ⇒ foreign).  `bcrypt.checkpw` over the HMAC-SHA256 pre-hash is a parameter. -/
structure BcSha256Hasher where
  rounds : Nat
  /-- `bcrypt.checkpw(prepare(secret, salt), "$<type>$<rounds>$<salt><hash>")` -/
  check : (type salt hash rounds : Str) → Bytes → Bool

def phcField (p : Parsed) (k : String) : Option Str := (p.extra.find? (·.1 = k)).map (·.2)

def BcSha256Hasher.inspect (_h : BcSha256Hasher) (s : Str) : Res (Option Parsed) := lpPhcParse bcryptSha256Phc s

/-- `info.version_ == 2` (integers are kept as their `str()` rendering by the inspector model) -/
def ownVersion (info : Parsed) : Bool := phcField info "version_" == some (ofString "2")

def BcSha256Hasher.identify (h : BcSha256Hasher) (s : Str) : Res Bool :=
  match h.inspect s with
  | .error e => .error e
  | .ok none => .ok false
  | .ok (some info) => .ok (ownVersion info)

def BcSha256Hasher.verify (h : BcSha256Hasher) (s : Str) (secret : Bytes) : Res Bool :=
  match h.inspect s with
  | .error e => .error e
  | .ok none => .ok false
  | .ok (some info) =>
    if !ownVersion info then .ok false
    else .ok (h.check ((phcField info "type").getD []) (info.salt.getD []) (info.checksum.getD []) ((phcField info "rounds").getD []) secret)

def BcSha256Hasher.needsUpdate (h : BcSha256Hasher) (s : Str) : Res Bool :=
  match h.inspect s with
  | .error e => .error e
  | .ok none => .ok true
  | .ok (some info) => if !ownVersion info then .ok true else .ok (phcField info "rounds" != some (fmtDec (h.rounds : Int)))

end Model.Libpass
