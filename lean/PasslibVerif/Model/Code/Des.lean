import PasslibVerif.Model.Des
import PasslibVerif.Model.B64
import PasslibVerif.Model.Verify
/-
C02 (code level), group `Des`: passlib's own pure-Python DES based checksum code, statement by statement.

  passlib/handlers/des_crypt.py : _crypt_secret_to_key, _raw_des_crypt, _bsdi_secret_to_key, _raw_bsdi_crypt,
                                  des_crypt._calc_checksum_builtin, bsdi_crypt._calc_checksum_builtin,
                                  bigcrypt._calc_checksum, crypt16._calc_checksum
  passlib/handlers/windows.py   : lmhash.raw (after the case mapping / encoding of text), lmhash._calc_checksum (hexlify)
  passlib/handlers/oracle.py    : des_cbc_encrypt, oracle10._calc_checksum (after `.upper().encode("utf-16-be")`)
  passlib/utils/__init__.py     : right_pad_string, xor_bytes (bytes_to_int / int_to_bytes)

Python values: `int` = `Nat` (nothing here goes negative), `bytes` = `List Nat` (each < 256), `str` = code points.
Sub-primitives used through their existing models: `des_encrypt_int_block` / `des_encrypt_block` = `Model.Des.*`,
`h64.decode_int12/24`, `h64big.encode_int64` = `Model.B64.*`, `str.encode("utf-8")` = `Model.Verify.utf8`.
Python statements are quoted next to the Lean that models them.  A `while` loop is a structurally recursive function
with a fuel argument that is at least the number of iterations (`len(secret)`); running out of fuel while the loop
condition still holds is reported as `RuntimeError` and proved unreachable (the `_eq_spec` theorems return `.ok`).
-/
namespace Model.Code.Des
open Py Model.B64
open Model.Verify (Secret)

/-! ### Python helpers -/

/-- `enumerate(xs, start)` -/
def enumerate {α : Type} : Nat → List α → List (Nat × α)
  | _, [] => []
  | i, x :: xs => (i, x) :: enumerate (i + 1) xs

/-- `s[a:b]` for `0 ≤ a`, `0 ≤ b` (both clamp at `len(s)`) -/
def slice (s : Bytes) (a b : Nat) : Bytes := (s.take b).drop a

/-- `s[-a:-b]` for `a, b > 0`: `s[len(s)-a : len(s)-b]`, a negative start / stop clamps at 0 (truncated subtraction) -/
def sliceNeg (s : Bytes) (a b : Nat) : Bytes := slice s (s.length - a) (s.length - b)

/-- `des_encrypt_int_block(key, input, salt, rounds)`; every refusal of it is a `ValueError` -/
def desInt (key input : Nat) (salt : Nat := 0) (rounds : Nat := 1) : Res Nat :=
  match Model.Des.desEncryptIntBlock key input salt rounds with
  | .ok v => .ok v
  | .error _ => .error .valueError

/-- `des_encrypt_block(key, input)` (bytes level); every refusal of it is a `ValueError` -/
def desBlock (key input : Bytes) : Res Bytes :=
  match Model.Des.desEncryptBlock key input with
  | .ok v => .ok v
  | .error _ => .error .valueError

/-- `s.encode("ascii")` of a str (UnicodeEncodeError is a ValueError) -/
def encodeAscii (s : List Nat) : Res Bytes :=
  if s.all (· < 128) then .ok s else .error .valueError

/-- `b.decode("ascii")` of bytes (UnicodeDecodeError is a ValueError) -/
def decodeAscii (b : Bytes) : Res (List Nat) :=
  if b.all (· < 128) then .ok b else .error .valueError

/-- `if isinstance(secret, str): secret = secret.encode("utf-8")` -/
def encodeSecret (s : Secret) : Res Bytes := s.toBytes

/-! ### `_crypt_secret_to_key` -/

/-- ```
    return sum((c & 0x7F) << (57 - i * 8) for i, c in enumerate(secret[:8]))
    ```
    `sum` adds left to right starting from `0`; `57 - i*8 ≥ 1` for `i ≤ 7`. -/
def cryptSecretToKey (secret : Bytes) : Nat :=
  (enumerate 0 (slice secret 0 8)).foldl (fun acc p => acc + ((p.2 &&& 0x7F) <<< (57 - p.1 * 8))) 0

/-! ### `_raw_des_crypt` -/

/-- ```
    assert len(salt) == 2
    salt_value = h64.decode_int12(salt)
    if isinstance(secret, str): secret = secret.encode("utf-8")
    if _BNULL in secret: raise uh.exc.NullPasswordError(des_crypt)
    key_value = _crypt_secret_to_key(secret)
    result = des_encrypt_int_block(key_value, 0, salt_value, 25)
    return h64big.encode_int64(result)
    ``` -/
def rawDesCrypt (secret : Secret) (salt : Bytes) : Res Bytes :=
  if salt.length ≠ 2 then .error .assertionError
  else match decodeInt12 h64 salt with
  | .error e => .error e
  | .ok salt_value =>
    match encodeSecret secret with
    | .error e => .error e
    | .ok secret =>
      if secret.contains 0 then .error .nullError
      else
        let key_value := cryptSecretToKey secret
        match desInt key_value 0 salt_value 25 with
        | .error e => .error e
        | .ok result => encodeInt64 h64big result

/-! ### `_bsdi_secret_to_key` -/

/-- ```
    while idx < end:
        next = idx + 8
        tmp_value = _crypt_secret_to_key(secret[idx:next])
        key_value = des_encrypt_int_block(key_value, key_value) ^ tmp_value
        idx = next
    ```
    state `(idx, key_value)` -/
def bsdiLoop (secret : Bytes) (end_ : Nat) : Nat → Nat → Nat → Res Nat
  | 0, idx, key_value => if idx < end_ then .error .runtimeError else .ok key_value
  | fuel + 1, idx, key_value =>
    if idx < end_ then
      let next := idx + 8
      let tmp_value := cryptSecretToKey (slice secret idx next)
      match desInt key_value key_value with
      | .error e => .error e
      | .ok v => bsdiLoop secret end_ fuel next (v ^^^ tmp_value)
    else .ok key_value

/-- ```
    key_value = _crypt_secret_to_key(secret)
    idx = 8
    end = len(secret)
    while idx < end: …
    return key_value
    ``` -/
def bsdiSecretToKey (secret : Bytes) : Res Nat :=
  let key_value := cryptSecretToKey secret
  let idx := 8
  let end_ := secret.length
  bsdiLoop secret end_ end_ idx key_value

/-! ### `_raw_bsdi_crypt` -/

/-- ```
    salt_value = h64.decode_int24(salt)
    if isinstance(secret, str): secret = secret.encode("utf-8")
    if _BNULL in secret: raise uh.exc.NullPasswordError(bsdi_crypt)
    key_value = _bsdi_secret_to_key(secret)
    result = des_encrypt_int_block(key_value, 0, salt_value, rounds)
    return h64big.encode_int64(result)
    ``` -/
def rawBsdiCrypt (secret : Secret) (rounds : Nat) (salt : Bytes) : Res Bytes :=
  match decodeInt24 h64 salt with
  | .error e => .error e
  | .ok salt_value =>
    match encodeSecret secret with
    | .error e => .error e
    | .ok secret =>
      if secret.contains 0 then .error .nullError
      else match bsdiSecretToKey secret with
      | .error e => .error e
      | .ok key_value =>
        match desInt key_value 0 salt_value rounds with
        | .error e => .error e
        | .ok result => encodeInt64 h64big result

/-! ### the `_calc_checksum_builtin` wrappers -/

/-- `return _raw_des_crypt(secret, self.salt.encode("ascii")).decode("ascii")` -/
def desCryptCalcBuiltin (secret : Secret) (salt : List Nat) : Res (List Nat) :=
  match encodeAscii salt with
  | .error e => .error e
  | .ok s => match rawDesCrypt secret s with
    | .error e => .error e
    | .ok chk => decodeAscii chk

/-- `return _raw_bsdi_crypt(secret, self.rounds, self.salt.encode("ascii")).decode("ascii")` -/
def bsdiCryptCalcBuiltin (secret : Secret) (rounds : Nat) (salt : List Nat) : Res (List Nat) :=
  match encodeAscii salt with
  | .error e => .error e
  | .ok s => match rawBsdiCrypt secret rounds s with
    | .error e => .error e
    | .ok chk => decodeAscii chk

/-! ### `bigcrypt._calc_checksum` -/

/-- ```
    while idx < end:
        next = idx + 8
        chk += _raw_des_crypt(secret[idx:next], chk[-11:-9])
        idx = next
    ```
    state `(idx, chk)` -/
def bigcryptLoop (secret : Bytes) (end_ : Nat) : Nat → Nat → Bytes → Res Bytes
  | 0, idx, chk => if idx < end_ then .error .runtimeError else .ok chk
  | fuel + 1, idx, chk =>
    if idx < end_ then
      let next := idx + 8
      match rawDesCrypt (.bytes (slice secret idx next)) (sliceNeg chk 11 9) with
      | .error e => .error e
      | .ok c => bigcryptLoop secret end_ fuel next (chk ++ c)
    else .ok chk

/-- ```
    if isinstance(secret, str): secret = secret.encode("utf-8")
    chk = _raw_des_crypt(secret, self.salt.encode("ascii"))
    idx = 8
    end = len(secret)
    while idx < end: …
    return chk.decode("ascii")
    ``` -/
def bigcryptCalc (secret : Secret) (salt : List Nat) : Res (List Nat) :=
  match encodeSecret secret with
  | .error e => .error e
  | .ok secret =>
    match encodeAscii salt with
    | .error e => .error e
    | .ok s =>
      match rawDesCrypt (.bytes secret) s with
      | .error e => .error e
      | .ok chk =>
        let idx := 8
        let end_ := secret.length
        match bigcryptLoop secret end_ end_ idx chk with
        | .error e => .error e
        | .ok chk => decodeAscii chk

/-! ### `crypt16._calc_checksum` -/

/-- ```
    if isinstance(secret, str): secret = secret.encode("utf-8")
    if self.use_defaults: self._check_truncate_policy(secret)     # truncate_error and len(secret) > 16
    try: salt_value = h64.decode_int12(self.salt.encode("ascii"))
    except ValueError: raise ValueError("invalid chars in salt") from None
    key1 = _crypt_secret_to_key(secret)
    result1 = des_encrypt_int_block(key1, 0, salt_value, 20)
    key2 = _crypt_secret_to_key(secret[8:16])
    result2 = des_encrypt_int_block(key2, 0, salt_value, 5)
    chk = h64big.encode_int64(result1) + h64big.encode_int64(result2)
    return chk.decode("ascii")
    ```
    `checkTruncate` = `self.use_defaults and self.truncate_error`. -/
def crypt16Calc (secret : Secret) (salt : List Nat) (checkTruncate : Bool := false) : Res (List Nat) :=
  match encodeSecret secret with
  | .error e => .error e
  | .ok secret =>
    if checkTruncate ∧ secret.length > 16 then .error .truncateError
    else match encodeAscii salt with
    | .error e => .error e
    | .ok s =>
      match decodeInt12 h64 s with
      | .error _ => .error .valueError
      | .ok salt_value =>
        let key1 := cryptSecretToKey secret
        match desInt key1 0 salt_value 20 with
        | .error e => .error e
        | .ok result1 =>
          let key2 := cryptSecretToKey (slice secret 8 16)
          match desInt key2 0 salt_value 5 with
          | .error e => .error e
          | .ok result2 =>
            match encodeInt64 h64big result1, encodeInt64 h64big result2 with
            | .ok a, .ok b => decodeAscii (a ++ b)
            | .error e, _ => .error e
            | _, .error e => .error e

/-! ### `lmhash.raw` / `lmhash._calc_checksum` -/

/-- `right_pad_string(source, size)` for bytes: `source + b"\x00" * (size - length)` if `size > length` else `source[:size]` -/
def rightPadString (source : Bytes) (size : Nat) : Bytes :=
  let length := source.length
  if size > length then source ++ List.replicate (size - length) 0 else slice source 0 size

/-- `_magic = b"KGS!@#$%"` -/
def LM_MAGIC : Bytes := [0x4B, 0x47, 0x53, 0x21, 0x40, 0x23, 0x24, 0x25]

/-- `bytes.upper()`: ASCII letters only -/
def bytesUpper (b : Bytes) : Bytes := b.map fun c => if 97 ≤ c ∧ c ≤ 122 then c - 32 else c

/-- the part of `lmhash.raw` after the case mapping / encoding:
    ```
    secret = right_pad_string(secret, 14)
    return des_encrypt_block(secret[0:7], MAGIC) + des_encrypt_block(secret[7:14], MAGIC)
    ``` -/
def lmhashRawUpper (secret : Bytes) : Res Bytes :=
  let secret := rightPadString secret 14
  match desBlock (slice secret 0 7) LM_MAGIC, desBlock (slice secret 7 14) LM_MAGIC with
  | .ok a, .ok b => .ok (a ++ b)
  | .error e, _ => .error e
  | _, .error e => .error e

/-- `lmhash.raw(secret)` for a bytes secret: `secret = secret.upper()` first -/
def lmhashRawBytes (secret : Bytes) : Res Bytes := lmhashRawUpper (bytesUpper secret)

/-- `hexlify(b)` -/
def hexlify (b : Bytes) : Bytes :=
  b.flatMap fun x => [(if x / 16 < 10 then 48 + x / 16 else 87 + x / 16), (if x % 16 < 10 then 48 + x % 16 else 87 + x % 16)]

/-- `str.upper()` of hexlify output (ASCII) -/
def asciiUpper (s : List Nat) : List Nat := s.map fun c => if 97 ≤ c ∧ c ≤ 122 then c - 32 else c

/-- `lmhash._calc_checksum` for a bytes secret (verify path: no truncation check):
    `return hexlify(self.raw(secret, self.encoding)).decode("ascii")` -/
def lmhashCalcBytes (secret : Bytes) : Res (List Nat) :=
  match lmhashRawBytes secret with
  | .error e => .error e
  | .ok raw => decodeAscii (hexlify raw)

/-! ### `des_cbc_encrypt` / `oracle10._calc_checksum` -/

/-- `int.from_bytes(value, "big")` -/
def bytesToInt (value : Bytes) : Nat := value.foldl (fun acc b => acc * 256 + b) 0

/-- `value.to_bytes(count, "big")` (OverflowError when the value does not fit; never the case below: both operands of
    `xor_bytes` are 8 bytes) -/
def intToBytes (value count : Nat) : Res Bytes :=
  if value < 256 ^ count then .ok ((List.range count).map fun i => (value >>> (8 * (count - 1 - i))) % 256)
  else .error .valueError

/-- `xor_bytes(left, right) = int_to_bytes(bytes_to_int(left) ^ bytes_to_int(right), len(left))` -/
def xorBytes (left right : Bytes) : Res Bytes := intToBytes (bytesToInt left ^^^ bytesToInt right) left.length

/-- ```
    for offset in range(0, len(value), 8):
        chunk = xor_bytes(hash, value[offset : offset + 8])
        hash = des_encrypt_block(key, chunk)
    ```
    over the list of offsets -/
def cbcLoop (key value : Bytes) : List Nat → Bytes → Res Bytes
  | [], hash => .ok hash
  | offset :: rest, hash =>
    match xorBytes hash (slice value offset (offset + 8)) with
    | .error e => .error e
    | .ok chunk =>
      match desBlock key chunk with
      | .error e => .error e
      | .ok h => cbcLoop key value rest h

/-- `range(0, n, 8)` -/
def range8 (n : Nat) : List Nat := (List.range ((n + 7) / 8)).map (· * 8)

/-- ```
    value += pad * (-len(value) % 8)
    hash = iv
    for offset in range(0, len(value), 8): …
    return hash
    ```
    with the default `iv = b"\x00" * 8`, `pad = b"\x00"`; `-n % 8 = (8 - n % 8) % 8` -/
def desCbcEncrypt (key value : Bytes) : Res Bytes :=
  let value := value ++ List.replicate ((8 - value.length % 8) % 8) 0
  let hash := List.replicate 8 0
  cbcLoop key value (range8 value.length) hash

/-- `ORACLE10_MAGIC = b"\x01\x23\x45\x67\x89\xab\xcd\xef"` -/
def ORACLE10_MAGIC : Bytes := [0x01, 0x23, 0x45, 0x67, 0x89, 0xAB, 0xCD, 0xEF]

/-- `oracle10._calc_checksum` from `input = (user + secret).upper().encode("utf-16-be")` on:
    ```
    hash = des_cbc_encrypt(ORACLE10_MAGIC, input)
    hash = des_cbc_encrypt(hash, input)
    return hexlify(hash).decode("ascii").upper()
    ``` -/
def oracle10CalcInput (input : Bytes) : Res (List Nat) :=
  match desCbcEncrypt ORACLE10_MAGIC input with
  | .error e => .error e
  | .ok hash =>
    match desCbcEncrypt hash input with
    | .error e => .error e
    | .ok hash =>
      match decodeAscii (hexlify hash) with
      | .error e => .error e
      | .ok s => .ok (asciiUpper s)

end Model.Code.Des
