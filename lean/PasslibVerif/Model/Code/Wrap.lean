import PasslibVerif.Model.Code.Digest
import PasslibVerif.Model.Blowfish
import PasslibVerif.Model.Hmac
import PasslibVerif.Model.Formats.DesBcrypt
/-
C02 (code level), group `Wrap`: the hashers that are built from another hasher or add a pre-hash — statement by statement.

  passlib/handlers/bcrypt.py  : _BcryptCommon._norm_digest_args (through _prepare_digest_args), _check_truncate_policy
                                (TruncateMixin's and _wrapped_bcrypt's), _BuiltinBackend._calc_checksum,
                                bcrypt_sha256._calc_checksum (versions 1 and 2)
  passlib/handlers/django.py  : django_bcrypt_sha256._calc_checksum
  passlib/utils/__init__.py   : repeat_string
  passlib/utils/handlers.py   : PrefixWrapper._unwrap_hash / _wrap_hash / hash / verify / genhash / identify / needs_update
                                (declarations: ldap_*_crypt, ldap_hex_md5, ldap_hex_sha1, django_bcrypt, …: `prefix`, `orig_prefix`)
  passlib/handlers/misc.py    : plaintext, unix_disabled, unix_fallback;  ldap_digests.py : ldap_plaintext;
  passlib/handlers/roundup.py : roundup_plaintext (a PrefixWrapper over plaintext)

Python values: `bytes` = `List Nat` (each < 256), `str` = code points (`Str`), a secret that may be str or bytes is a `Secret`.
Sub-primitives taken through their existing models:
  * `passlib.crypto._blowfish.raw_bcrypt` = `Model.Blowfish.rawBcrypt` (its own argument checks included; the Eks-Blowfish core is
    proved equal to the published algorithm in Props/C11Blowfish.lean: `raw_bcrypt_eq_spec`); every refusal of it is a ValueError;
  * `compile_hmac("sha256", key)` = `Model.Hmac.compileHmac` (= RFC 2104 by Props/C11 `hmac_eq_rfc2104`);
  * hashlib `sha256` = `Spec.SHA256.sha256`, `base64.b64encode` = RFC 4648 §4 (`Model.Code.Digest.b64encode`), `hexlify`.

The per-backend class attributes that `_finalize_backend_mixin` sets after probing the backend (`_has_2a_wraparound_bug`,
`_lacks_20_support`, `_lacks_2y_support`, `_lacks_2b_support`, `_fallback_ident`) are the record `Flags`; the builtin backend ends up
with all of them False and `_fallback_ident = "$2b$"` (read from the loaded class by tools/corr/c02_code_wrap.py).
`_require_valid_utf8_bytes` is False for every backend but os_crypt on a platform whose crypt() wants text: that branch
(`utf8_truncate`, `utf8_repeat_string`) is outside this model.
-/
namespace Model.Code.Wrap
open Py
open Model.Verify (Secret MAX_PASSWORD_SIZE)
open Model.Code.Des (encodeSecret hexlify decodeAscii encodeAscii slice)
open Model.Code.Digest (b64encode)
open Model.Formats (IDENT_2 IDENT_2A IDENT_2B IDENT_2X IDENT_2Y)
open Model.Handler (Str ofString)

/-! ### bcrypt.py: argument preparation -/

/-- class attributes written by `_finalize_backend_mixin` -/
structure Flags where
  has2aWraparoundBug : Bool
  lacks20Support : Bool
  lacks2ySupport : Bool
  lacks2bSupport : Bool
  fallbackIdent : Str
  deriving DecidableEq, Repr

/-- the builtin backend after `_finalize_backend_mixin`: nothing is lacking; `_fallback_ident = IDENT_2B` -/
def builtinFlags : Flags := ⟨false, false, false, false, IDENT_2B⟩

/-- what `_check_truncate_policy` looks at: `_wrapped_bcrypt` overrides it with `pass` -/
structure Cls where
  wrapped : Bool
  truncateSize : Option Nat
  truncateError : Bool
  deriving DecidableEq, Repr

/-- `bcrypt` (truncate_size = 72) under the `truncate_error` setting -/
def bcryptCls (truncateError : Bool) : Cls := ⟨false, some 72, truncateError⟩
/-- `bcrypt_sha256`, `django_bcrypt_sha256` (`truncate_size = None`, `_check_truncate_policy` is `pass`) -/
def wrappedCls : Cls := ⟨true, none, false⟩

/-- `cls._check_truncate_policy(secret)` on bytes:
    ```
    assert cls.truncate_size is not None, "truncate_size must be set by subclass"
    if cls.truncate_error and len(secret) > cls.truncate_size: raise exc.PasswordTruncateError(cls)
    ```
    (`_wrapped_bcrypt`: `pass`) -/
def checkTruncatePolicy (cls : Cls) (secret : Bytes) : Res Unit :=
  if cls.wrapped then .ok ()
  else match cls.truncateSize with
    | none => .error .assertionError
    | some n => if cls.truncateError ∧ secret.length > n then .error .truncateError else .ok ()

/-- `repeat_string(source, size)`: `mult = 1 + (size - 1) // len(source); return (source * mult)[:size]`
    (the caller guarantees a non-empty source) -/
def repeatString (source : Bytes) (size : Nat) : Bytes :=
  let mult := 1 + (size - 1) / source.length
  slice ((List.replicate mult source).flatten) 0 size

/-- `_BcryptCommon._norm_digest_args(secret, ident, new)` with `_require_valid_utf8_bytes = False`:
    ```
    if isinstance(secret, str): secret = secret.encode("utf-8")
    uh.validate_secret(secret)                       # size of the ENCODED secret
    if new: cls._check_truncate_policy(secret)
    if _BNULL in secret: raise uh.exc.NullPasswordError(cls)
    if cls._has_2a_wraparound_bug and len(secret) >= 255: secret = secret[:72]
    if ident == IDENT_2A: pass
    elif ident == IDENT_2B:
        if cls._lacks_2b_support: ident = cls._fallback_ident
    elif ident == IDENT_2Y:
        if cls._lacks_2y_support: ident = cls._fallback_ident
    elif ident == IDENT_2:
        if cls._lacks_20_support:
            if secret: secret = repeat_string(secret, 72)
            ident = cls._fallback_ident
    elif ident == IDENT_2X: raise RuntimeError("$2x$ hashes not currently supported by passlib")
    else: raise AssertionError(...)
    return secret, ident
    ``` -/
def normDigestArgs (fl : Flags) (cls : Cls) (secret : Secret) (ident : Str) (new : Bool) : Res (Bytes × Str) :=
  match encodeSecret secret with
  | .error e => .error e
  | .ok secret =>
    if secret.length > MAX_PASSWORD_SIZE then .error .sizeError
    else
      match (if new then checkTruncatePolicy cls secret else .ok ()) with
      | .error e => .error e
      | .ok _ =>
        if secret.contains 0 then .error .nullError
        else
          let secret := if fl.has2aWraparoundBug ∧ secret.length ≥ 255 then slice secret 0 72 else secret
          if ident = IDENT_2A then .ok (secret, ident)
          else if ident = IDENT_2B then
            .ok (secret, if fl.lacks2bSupport then fl.fallbackIdent else ident)
          else if ident = IDENT_2Y then
            .ok (secret, if fl.lacks2ySupport then fl.fallbackIdent else ident)
          else if ident = IDENT_2 then
            if fl.lacks20Support then
              .ok (if secret ≠ [] then repeatString secret 72 else secret, fl.fallbackIdent)
            else .ok (secret, ident)
          else if ident = IDENT_2X then .error .runtimeError
          else .error .assertionError

/-- `_builtin_bcrypt(secret, ident, salt, rounds)` = `passlib.crypto._blowfish.raw_bcrypt`; `ident` is a str
    (every refusal — unknown / 2x ident, undecodable or short salt, bad rounds — is a ValueError) -/
def rawBcrypt (secret : Bytes) (ident : Str) (salt : Bytes) (rounds : Nat) : Res Bytes :=
  match Model.Blowfish.rawBcrypt .unrolled secret (String.ofList (ident.map Char.ofNat)) salt rounds with
  | .ok r => .ok r
  | .error _ => .error .valueError

/-- `_BuiltinBackend._calc_checksum(self, secret)` of an instance with `self.ident`, `self.salt`, `self.rounds`, `self.use_defaults`:
    ```
    secret, ident = self._prepare_digest_args(secret)      # = self._norm_digest_args(secret, self.ident, new=self.use_defaults)
    chk = _builtin_bcrypt(secret, ident[1:-1], self.salt.encode("ascii"), self.rounds)
    return chk.decode("ascii")
    ``` -/
def builtinCalcChecksum (fl : Flags) (cls : Cls) (ident salt : Str) (rounds : Nat) (useDefaults : Bool) (secret : Secret) : Res Str :=
  match normDigestArgs fl cls secret ident useDefaults with
  | .error e => .error e
  | .ok (secret, ident) =>
    match encodeAscii salt with
    | .error e => .error e
    | .ok saltB =>
      match rawBcrypt secret (slice ident 1 (ident.length - 1)) saltB rounds with
      | .error e => .error e
      | .ok chk => decodeAscii chk

/-! ### bcrypt_sha256, django_bcrypt_sha256 -/

def sha256 := Spec.SHA256.sha256

/-- `final_salt_chars = ".Oeu"` -/
def FINAL_SALT_CHARS : Str := ofString ".Oeu"

/-- `bcrypt_sha256._calc_checksum(self, secret)` (`self.version`, and the bcrypt fields):
    ```
    if isinstance(secret, str): secret = secret.encode("utf-8")
    if self.version == 1:
        digest = sha256(secret).digest()
    else:
        salt = self.salt
        if salt[-1] not in self.final_salt_chars: raise ValueError("invalid salt string")
        digest = compile_hmac("sha256", salt.encode("ascii"))(secret)
    key = b64encode(digest)
    return super()._calc_checksum(key)
    ```
    (`salt[-1]` of an empty salt is an IndexError) -/
def bcryptSha256CalcChecksum (fl : Flags) (version : Nat) (ident salt : Str) (rounds : Nat) (useDefaults : Bool) (secret : Secret) :
    Res Str :=
  match encodeSecret secret with
  | .error e => .error e
  | .ok secret =>
    let digest : Res Bytes :=
      if version = 1 then .ok (sha256 secret)
      else
        match salt.getLast? with
        | none => .error .indexError
        | some c =>
          if ¬ FINAL_SALT_CHARS.contains c then .error .valueError
          else match encodeAscii salt with
            | .error e => .error e
            | .ok key => .ok (Model.Hmac.compileHmac sha256 64 32 key secret)
    match digest with
    | .error e => .error e
    | .ok digest =>
      let key := b64encode digest
      builtinCalcChecksum fl wrappedCls ident salt rounds useDefaults (.bytes key)

/-- `django_bcrypt_sha256._calc_checksum(self, secret)`:
    ```
    if isinstance(secret, str): secret = secret.encode("utf-8")
    secret = hexlify(self._digest(secret).digest())
    return super()._calc_checksum(secret)
    ``` -/
def djangoBcryptSha256CalcChecksum (fl : Flags) (ident salt : Str) (rounds : Nat) (useDefaults : Bool) (secret : Secret) : Res Str :=
  match encodeSecret secret with
  | .error e => .error e
  | .ok secret =>
    let secret := hexlify (sha256 secret)
    builtinCalcChecksum fl wrappedCls ident salt rounds useDefaults (.bytes secret)

/-! ### utils/handlers.py: `PrefixWrapper` -/

/-- the two strings of a `PrefixWrapper(name, wrapped, prefix=…, orig_prefix=…)` -/
structure Wrapper where
  pfx : Str
  origPrefix : Str
  deriving DecidableEq, Repr

/-- the wrapped handler as the wrapper uses it (hash strings are str: `to_unicode(hash, "ascii", "hash")` has been applied) -/
structure Inner where
  hash : Secret → Res Str
  verify : Secret → Str → Res Bool
  genhash : Secret → Str → Res Str
  identify : Str → Bool
  needsUpdate : Str → Res Bool

/-- `s.startswith(p)` -/
def startswith (s p : Str) : Bool := p.isPrefixOf s

/-- `_unwrap_hash`:
    ```
    prefix = self.prefix
    if not hash.startswith(prefix): raise exc.InvalidHashError(self)
    return self.orig_prefix + hash[len(prefix):]
    ``` -/
def unwrapHash (w : Wrapper) (hash : Str) : Res Str :=
  if ¬ startswith hash w.pfx then .error .valueError else .ok (w.origPrefix ++ hash.drop w.pfx.length)

/-- `_wrap_hash` (of a str):
    ```
    orig_prefix = self.orig_prefix
    if not hash.startswith(orig_prefix): raise exc.InvalidHashError(self.wrapped)
    return self.prefix + hash[len(orig_prefix):]
    ``` -/
def wrapHash (w : Wrapper) (hash : Str) : Res Str :=
  if ¬ startswith hash w.origPrefix then .error .valueError else .ok (w.pfx ++ hash.drop w.origPrefix.length)

/-- `hash`: `return self._wrap_hash(self.wrapped.hash(secret, **kwds))` -/
def wHash (w : Wrapper) (i : Inner) (secret : Secret) : Res Str :=
  match i.hash secret with
  | .error e => .error e
  | .ok h => wrapHash w h

/-- `verify`: `hash = self._unwrap_hash(hash); return self.wrapped.verify(secret, hash, **kwds)` -/
def wVerify (w : Wrapper) (i : Inner) (secret : Secret) (hash : Str) : Res Bool :=
  match unwrapHash w hash with
  | .error e => .error e
  | .ok h => i.verify secret h

/-- `genhash` (config is a str): `config = self._unwrap_hash(config); return self._wrap_hash(self.wrapped.genhash(secret, config))` -/
def wGenhash (w : Wrapper) (i : Inner) (secret : Secret) (config : Str) : Res Str :=
  match unwrapHash w config with
  | .error e => .error e
  | .ok c => match i.genhash secret c with
    | .error e => .error e
    | .ok h => wrapHash w h

/-- `identify`: `if not hash.startswith(self.prefix): return False; hash = self._unwrap_hash(hash); return self.wrapped.identify(hash)` -/
def wIdentify (w : Wrapper) (i : Inner) (hash : Str) : Res Bool :=
  if ¬ startswith hash w.pfx then .ok false
  else match unwrapHash w hash with
    | .error e => .error e
    | .ok h => .ok (i.identify h)

/-- `needs_update`: `hash = self._unwrap_hash(hash); return self.wrapped.needs_update(hash, **kwds)` -/
def wNeedsUpdate (w : Wrapper) (i : Inner) (hash : Str) : Res Bool :=
  match unwrapHash w hash with
  | .error e => .error e
  | .ok h => i.needsUpdate h

end Model.Code.Wrap
