import PasslibVerif.Model.Code.Des
import PasslibVerif.Model.Formats.Static
import PasslibVerif.Model.Scrypt
import PasslibVerif.Spec.Formats.Digests
import PasslibVerif.Spec.Formats.Kdf
/-
C02 (code level), group `Digest`: the `_calc_checksum` routines of passlib/handlers whose body is a short composition of
external digests (hashlib / passlib.crypto.digest) with encodings — statement by statement.

  passlib/handlers/digests.py      : HexDigestHash._calc_checksum (hex_md4 / md5 / sha1 / sha256 / sha512), htdigest.hash
  passlib/handlers/ldap_digests.py : _Base64DigestHelper._calc_checksum (ldap_md5, ldap_sha1),
                                     _SaltedBase64DigestHelper._calc_checksum + to_string (ldap_salted_md5 / sha1 / sha256 / sha512)
  passlib/handlers/mysql.py        : mysql41._calc_checksum
  passlib/handlers/postgres.py     : postgres_md5._calc_checksum
  passlib/handlers/oracle.py       : oracle11._calc_checksum
  passlib/handlers/mssql.py        : _raw_mssql, mssql2000._calc_checksum + to_string, mssql2005._calc_checksum + to_string
  passlib/handlers/windows.py      : nthash.raw + _calc_checksum, msdcc.raw + _calc_checksum, msdcc2.raw + _calc_checksum
  passlib/handlers/pbkdf2.py       : Pbkdf2DigestHandler / cta / dlitz (+ _get_config) / atlassian / grub `_calc_checksum`
                                     and the checksum field of their `to_string`
  passlib/handlers/django.py       : django_salted_sha1 / md5, django_pbkdf2_sha256 / sha1 `_calc_checksum`
  passlib/handlers/scram.py        : scram.derive_digest, scram._calc_checksum
  passlib/handlers/scrypt.py       : scrypt._calc_checksum (through passlib.crypto.scrypt.scrypt: validate + builtin engine)

Python values: `bytes` = `List Nat` (each < 256), `str` = code points, `int` = `Nat`; a secret / user / salt that may be str or bytes
is a `Secret`.  What is EXTERNAL to passlib is taken through the existing transcriptions, exactly as `Spec.Formats` does:

  * hashlib constructors `md4 / md5 / sha1 / sha256 / sha512` : the `Spec.*` transcriptions (a parameter `H` where the class takes
    its `_hash_func` from a class attribute);  `.hexdigest()` = `hexlify(.digest()).decode("ascii")`;
  * `hashlib.pbkdf2_hmac` : `Spec.Formats.pbkdf2` (RFC 8018) — `hashlibPbkdf2`, with OpenSSL's refusals (rounds < 1, dklen < 1);
    `lookup_hash(name)` is the caller's: the models take the `HashAlg`;
  * binascii `hexlify` (`Model.Code.Des.hexlify`), `unhexlify` (`Model.Formats.unhexlify`), `b64encode` / `b2a_base64`
    (`Spec.Rfc4648.base64`, `Model.B64.b64sEncode` / `ab64Encode`);
  * the text codecs `bytes.decode("utf-8")`, `str.encode("utf-16-le")`, `str.lower()` / `str.upper()` of arbitrary text (windows.py,
    mssql.py): the model takes the ENCODED bytes as its input (`…Enc` functions), as `Model.Code.Des` does for lmhash / oracle10;
    `str.encode("utf-8")` / `.encode("ascii")` are `Model.Verify.utf8` / `Model.Code.Des.encodeAscii`;
  * `saslprep` (scram): a parameter `prep`, as in Model/VerifyFmt/Misc.lean;
  * the scrypt engine: `Model.Scrypt.validate` / `Model.Scrypt.run` (= RFC 7914 by Props/C11Scrypt.lean).
-/
namespace Model.Code.Digest
open Py
open Model.Verify (Secret)
open Model.Code.Des (encodeSecret hexlify asciiUpper decodeAscii encodeAscii)
open Spec.Formats (HashAlg)

/-! ### external helpers -/

/-- `H(data).hexdigest()` -/
def hexdigest (H : Bytes → Bytes) (data : Bytes) : List Nat := hexlify (H data)

/-- `base64.b64encode(data)` (binascii: RFC 4648 §4 with padding) -/
def b64encode (data : Bytes) : Bytes := Spec.Rfc4648.base64 data

/-- `base64.b64encode(data, b"-_")`: `.translate` of `+` → `-`, `/` → `_` -/
def b64encodeAlt (data : Bytes) : Bytes := (b64encode data).map fun c => if c = 43 then 45 else if c = 47 then 95 else c

/-- `to_bytes(x, "utf-8", param=…)`: `None` is a TypeError, str is encoded, bytes are returned unchanged -/
def toBytes : Option Secret → Res Bytes
  | none => .error .typeError
  | some s => s.toBytes

/-- `unhexlify(s)` (binascii.Error is a ValueError) -/
def unhexlify (s : Bytes) : Res Bytes :=
  match Model.Formats.unhexlify s with
  | some r => .ok r
  | none => .error .valueError

/-- `hashlib.pbkdf2_hmac(name, secret, salt, rounds, dklen)`: "iteration value must be greater than 0", "key length must be
    greater than 0" (ValueError); an iteration count beyond a C int is turned into a ValueError by passlib's wrapper;
    `dklen=None` is the digest size -/
def hashlibPbkdf2 (a : HashAlg) (secret salt : Bytes) (rounds : Nat) (keylen : Option Nat) : Res Bytes :=
  if rounds < 1 then .error .valueError
  else if rounds > 0x7FFFFFFF then .error .valueError
  else
    let k := keylen.getD a.hLen
    if k < 1 then .error .valueError else .ok (Spec.Formats.pbkdf2 a secret salt rounds k)

/-- `passlib.crypto.digest.pbkdf2_hmac(digest, secret, salt, rounds, keylen)`:
    ```
    secret = to_bytes(secret, param="secret")
    salt = to_bytes(salt, param="salt")
    digest_info = lookup_hash(digest)
    return hashlib.pbkdf2_hmac(digest_info.name, secret, salt, rounds, keylen)
    ``` -/
def pbkdf2Hmac (a : HashAlg) (secret salt : Secret) (rounds : Nat) (keylen : Option Nat := none) : Res Bytes :=
  match secret.toBytes with
  | .error e => .error e
  | .ok secret =>
    match salt.toBytes with
    | .error e => .error e
    | .ok salt => hashlibPbkdf2 a secret salt rounds keylen

/-! ### digests.py -/

/-- `HexDigestHash._calc_checksum`:
    ```
    if isinstance(secret, str): secret = secret.encode("utf-8")
    return self._hash_func(secret).hexdigest()
    ``` -/
def hexCalc (H : Bytes → Bytes) (secret : Secret) : Res (List Nat) :=
  match encodeSecret secret with
  | .error e => .error e
  | .ok secret => .ok (hexdigest H secret)

/-- `validate_secret(secret)`: `len(secret) > MAX_PASSWORD_SIZE` is a PasswordSizeError (characters of text, bytes of bytes) -/
def validateSecret (secret : Secret) : Res Unit := Model.Verify.validateSecret secret

/-- `render_bytes("%s:%s:%s", user, realm, secret)`: every argument decoded as latin-1 (byte = code point), formatted, and the
    result encoded as latin-1 (always possible: every code point is a byte) -/
def renderBytes3 (a b c : Bytes) : Bytes := a ++ [58] ++ b ++ [58] ++ c

/-- `htdigest.hash(secret, user, realm)` with the default encoding (utf-8):
    ```
    uh.validate_secret(secret)
    if isinstance(secret, str): secret = secret.encode(encoding)
    user = to_bytes(user, encoding, "user")
    realm = to_bytes(realm, encoding, "realm")
    data = render_bytes("%s:%s:%s", user, realm, secret)
    return hashlib.md5(data).hexdigest()
    ``` -/
def htdigestHash (secret : Secret) (user realm : Option Secret) : Res (List Nat) :=
  match validateSecret secret with
  | .error e => .error e
  | .ok _ =>
    match encodeSecret secret with
    | .error e => .error e
    | .ok secret =>
      match toBytes user with
      | .error e => .error e
      | .ok user =>
        match toBytes realm with
        | .error e => .error e
        | .ok realm =>
          let data := renderBytes3 user realm secret
          .ok (hexdigest Spec.MD5.md5 data)

/-! ### ldap_digests.py -/

/-- `_Base64DigestHelper._calc_checksum`:
    ```
    if isinstance(secret, str): secret = secret.encode("utf-8")
    chk = self._hash_func(secret).digest()
    return b64encode(chk).decode("ascii")
    ``` -/
def ldapCalc (H : Bytes → Bytes) (secret : Secret) : Res (List Nat) :=
  match encodeSecret secret with
  | .error e => .error e
  | .ok secret =>
    let chk := H secret
    decodeAscii (b64encode chk)

/-- `_SaltedBase64DigestHelper._calc_checksum` (raw checksum):
    ```
    if isinstance(secret, str): secret = secret.encode("utf-8")
    return self._hash_func(secret + self.salt).digest()
    ``` -/
def ldapSaltedCalc (H : Bytes → Bytes) (secret : Secret) (salt : Bytes) : Res Bytes :=
  match encodeSecret secret with
  | .error e => .error e
  | .ok secret => .ok (H (secret ++ salt))

/-- `_SaltedBase64DigestHelper.to_string` after the ident:
    ```
    data = self.checksum + self.salt
    return self.ident + b64encode(data).decode("ascii")
    ``` -/
def ldapSaltedField (checksum salt : Bytes) : Res (List Nat) :=
  let data := checksum ++ salt
  decodeAscii (b64encode data)

/-- the string after the ident that `hash()` produces: `to_string` of `_calc_checksum` -/
def ldapSaltedString (H : Bytes → Bytes) (secret : Secret) (salt : Bytes) : Res (List Nat) :=
  match ldapSaltedCalc H secret salt with
  | .error e => .error e
  | .ok chk => ldapSaltedField chk salt

/-! ### mysql.py, postgres.py, oracle.py -/

/-- `mysql41._calc_checksum`:
    ```
    if isinstance(secret, str): secret = secret.encode("utf-8")
    return sha1(sha1(secret).digest()).hexdigest().upper()
    ``` -/
def mysql41Calc (secret : Secret) : Res (List Nat) :=
  match encodeSecret secret with
  | .error e => .error e
  | .ok secret => .ok (asciiUpper (hexdigest Spec.SHA1.sha1 (Spec.SHA1.sha1 secret)))

/-- `postgres_md5._calc_checksum`:
    ```
    if isinstance(secret, str): secret = secret.encode("utf-8")
    user = to_bytes(self.user, "utf-8", param="user")
    return md5(secret + user).hexdigest()
    ``` -/
def postgresCalc (secret : Secret) (user : Option Secret) : Res (List Nat) :=
  match encodeSecret secret with
  | .error e => .error e
  | .ok secret =>
    match toBytes user with
    | .error e => .error e
    | .ok user => .ok (hexdigest Spec.MD5.md5 (secret ++ user))

/-- `oracle11._calc_checksum` (`self.salt`: a str):
    ```
    if isinstance(secret, str): secret = secret.encode("utf-8")
    chk = sha1(secret + unhexlify(self.salt.encode("ascii"))).hexdigest()
    return chk.upper()
    ``` -/
def oracle11Calc (secret : Secret) (salt : List Nat) : Res (List Nat) :=
  match encodeSecret secret with
  | .error e => .error e
  | .ok secret =>
    match encodeAscii salt with
    | .error e => .error e
    | .ok s =>
      match unhexlify s with
      | .error e => .error e
      | .ok raw =>
        let chk := hexdigest Spec.SHA1.sha1 (secret ++ raw)
        .ok (asciiUpper chk)

/-! ### mssql.py (`enc…` = `secret.encode("utf-16-le")`, external codec) -/

/-- `_raw_mssql(secret, salt)` from `enc = secret.encode("utf-16-le")` on: `return sha1(enc + salt).digest()` -/
def rawMssqlEnc (enc salt : Bytes) : Bytes := Spec.SHA1.sha1 (enc ++ salt)

/-- `mssql2000._calc_checksum`: `return _raw_mssql(secret, salt) + _raw_mssql(secret.upper(), salt)`;
    `enc` / `encUpper` = the UTF-16-LE bytes of `secret` / `secret.upper()` -/
def mssql2000CalcEnc (enc encUpper salt : Bytes) : Bytes := rawMssqlEnc enc salt ++ rawMssqlEnc encUpper salt

/-- `mssql2005._calc_checksum`: `return _raw_mssql(secret, self.salt)` -/
def mssql2005CalcEnc (enc salt : Bytes) : Bytes := rawMssqlEnc enc salt

/-- `mssql2000.to_string`: `raw = self.salt + self.checksum; return "0x0100" + bascii_to_str(hexlify(raw).upper())`
    (`bytes.upper()` then ascii decoding) -/
def mssql2000ToString (salt checksum : Bytes) : Res (List Nat) :=
  let raw := salt ++ checksum
  match decodeAscii (Model.Code.Des.bytesUpper (hexlify raw)) with
  | .error e => .error e
  | .ok s => .ok (Spec.Formats.ascii "0x0100" ++ s)

/-- `mssql2005.to_string`: `raw = self.salt + self.checksum; return "0x0100" + bascii_to_str(hexlify(raw)).upper()`
    (ascii decoding then `str.upper()`) -/
def mssql2005ToString (salt checksum : Bytes) : Res (List Nat) :=
  let raw := salt ++ checksum
  match decodeAscii (hexlify raw) with
  | .error e => .error e
  | .ok s => .ok (Spec.Formats.ascii "0x0100" ++ asciiUpper s)

/-! ### windows.py (`enc` = `to_unicode(secret, "utf-8").encode("utf-16-le")`,
        `userEnc` = `to_unicode(user, "utf-8").lower().encode("utf-16-le")`: external codecs) -/

/-- `nthash.raw` from the encoded secret on: `return md4(enc).digest()` -/
def nthashRawEnc (enc : Bytes) : Bytes := Spec.MD4.md4 enc

/-- `nthash._calc_checksum`: `return hexlify(self.raw(secret)).decode("ascii")` -/
def nthashCalcEnc (enc : Bytes) : Res (List Nat) := decodeAscii (hexlify (nthashRawEnc enc))

/-- `msdcc.raw`: `return md4(md4(secret).digest() + user).digest()` -/
def msdccRawEnc (enc userEnc : Bytes) : Bytes := Spec.MD4.md4 (Spec.MD4.md4 enc ++ userEnc)

/-- `msdcc._calc_checksum`: `return hexlify(self.raw(secret, self.user)).decode("ascii")` -/
def msdccCalcEnc (enc userEnc : Bytes) : Res (List Nat) := decodeAscii (hexlify (msdccRawEnc enc userEnc))

/-- `msdcc2.raw`:
    ```
    tmp = md4(md4(secret).digest() + user).digest()
    return pbkdf2_hmac("sha1", tmp, user, 10240, 16)
    ```
    (`rounds` is the literal 10240 in the code; a parameter here so that the compiled model can be run with a small count) -/
def msdcc2RawEnc (enc userEnc : Bytes) (rounds : Nat := 10240) : Res Bytes :=
  let tmp := Spec.MD4.md4 (Spec.MD4.md4 enc ++ userEnc)
  pbkdf2Hmac Spec.Formats.algSha1 (.bytes tmp) (.bytes userEnc) rounds (some 16)

/-- `msdcc2._calc_checksum`: `return hexlify(self.raw(secret, self.user)).decode("ascii")` -/
def msdcc2CalcEnc (enc userEnc : Bytes) (rounds : Nat := 10240) : Res (List Nat) :=
  match msdcc2RawEnc enc userEnc rounds with
  | .error e => .error e
  | .ok raw => decodeAscii (hexlify raw)

/-! ### pbkdf2.py -/

/-- `Pbkdf2DigestHandler._calc_checksum`:
    `return pbkdf2_hmac(self._digest, secret, self.salt, self.rounds, self.checksum_size)` (`checksum_size` = the digest size:
    `create_pbkdf2_hash(hash_name, digest_size)`) -/
def pbkdf2DigestCalc (a : HashAlg) (secret : Secret) (salt : Bytes) (rounds : Nat) : Res Bytes :=
  pbkdf2Hmac a secret (.bytes salt) rounds (some a.hLen)

/-- the checksum field of `Pbkdf2DigestHandler.to_string`: `chk = ab64_encode(self.checksum).decode("ascii")`,
    `ab64_encode(data) = b64s_encode(data).replace(b"+", b".")` -/
def ab64Field (checksum : Bytes) : Res (List Nat) := decodeAscii (Model.B64.ab64Encode checksum)

/-- `cta_pbkdf2_sha1._calc_checksum`: `return pbkdf2_hmac("sha1", secret, self.salt, self.rounds, 20)` -/
def ctaCalc (secret : Secret) (salt : Bytes) (rounds : Nat) : Res Bytes :=
  pbkdf2Hmac Spec.Formats.algSha1 secret (.bytes salt) rounds (some 20)

/-- the checksum field of `cta_pbkdf2_sha1.to_string`: `chk = b64encode(self.checksum, CTA_ALTCHARS).decode("ascii")` -/
def ctaField (checksum : Bytes) : Res (List Nat) := decodeAscii (b64encodeAlt checksum)

/-- `f"{rounds:x}"` (builtin int formatting): lower-case hexadecimal, no prefix -/
def fmtX (n : Nat) : List Nat := (Nat.toDigits 16 n).map Char.toNat

/-- `render_mc3(ident, rounds, salt, None, rounds_base=16)`:
    ```
    if rounds is None: rounds = ""
    elif rounds_base == 16: rounds = f"{rounds:x}"
    parts = [ident, rounds, sep, salt]
    return join_unicode(parts)
    ``` -/
def renderMc3Hex (ident : List Nat) (rounds : Option Nat) (salt : List Nat) : List Nat :=
  let rounds := match rounds with
    | none => []
    | some r => fmtX r
  ident ++ rounds ++ [36] ++ salt

/-- `dlitz_pbkdf2_sha1._get_config`:
    ```
    rounds = self.rounds
    if rounds == 400: rounds = None
    return uh.render_mc3(self.ident, rounds, self.salt, None, rounds_base=16)
    ``` -/
def dlitzGetConfig (salt : List Nat) (rounds : Nat) : List Nat :=
  let r := if rounds = 400 then none else some rounds
  renderMc3Hex (Spec.Formats.ascii "$p5k2$") r salt

/-- `dlitz_pbkdf2_sha1._calc_checksum` (`self.salt`: a str):
    ```
    salt = self._get_config()
    result = pbkdf2_hmac("sha1", secret, salt, self.rounds, 24)
    return ab64_encode(result).decode("ascii")
    ``` -/
def dlitzCalc (secret : Secret) (salt : List Nat) (rounds : Nat) : Res (List Nat) :=
  let salt := dlitzGetConfig salt rounds
  match pbkdf2Hmac Spec.Formats.algSha1 secret (.text salt) rounds (some 24) with
  | .error e => .error e
  | .ok result => decodeAscii (Model.B64.ab64Encode result)

/-- `atlassian_pbkdf2_sha1._calc_checksum`: `return pbkdf2_hmac("sha1", secret, self.salt, 10000, 32)`
    (`rounds` is the literal 10000 in the code; a parameter here so that the compiled model can be run with a small count) -/
def atlassianCalc (secret : Secret) (salt : Bytes) (rounds : Nat := 10000) : Res Bytes :=
  pbkdf2Hmac Spec.Formats.algSha1 secret (.bytes salt) rounds (some 32)

/-- `atlassian_pbkdf2_sha1.to_string` after the ident: `data = self.salt + self.checksum; b64encode(data).decode("ascii")` -/
def atlassianField (salt checksum : Bytes) : Res (List Nat) :=
  let data := salt ++ checksum
  decodeAscii (b64encode data)

/-- `grub_pbkdf2_sha512._calc_checksum`: `return pbkdf2_hmac("sha512", secret, self.salt, self.rounds, 64)` -/
def grubCalc (secret : Secret) (salt : Bytes) (rounds : Nat) : Res Bytes :=
  pbkdf2Hmac Spec.Formats.algSha512 secret (.bytes salt) rounds (some 64)

/-- the checksum field of `grub_pbkdf2_sha512.to_string`: `chk = hexlify(self.checksum).decode("ascii").upper()` -/
def grubField (checksum : Bytes) : Res (List Nat) :=
  match decodeAscii (hexlify checksum) with
  | .error e => .error e
  | .ok s => .ok (asciiUpper s)

/-! ### django.py -/

/-- `django_salted_sha1._calc_checksum` / `django_salted_md5._calc_checksum` (`self.salt`: a str):
    ```
    if isinstance(secret, str): secret = secret.encode("utf-8")
    return sha1(self.salt.encode("ascii") + secret).hexdigest()
    ``` -/
def djangoSaltedCalc (H : Bytes → Bytes) (secret : Secret) (salt : List Nat) : Res (List Nat) :=
  match encodeSecret secret with
  | .error e => .error e
  | .ok secret =>
    match encodeAscii salt with
    | .error e => .error e
    | .ok s => .ok (hexdigest H (s ++ secret))

/-- `bytes.rstrip()`: trailing ASCII whitespace (space, \t \n \v \f \r) removed -/
def rstripWs (b : Bytes) : Bytes :=
  (b.reverse.dropWhile fun c => c = 32 ∨ (9 ≤ c ∧ c ≤ 13)).reverse

/-- `django_pbkdf2_sha256._calc_checksum` (`self.salt`: a str, encoded as UTF-8 by `pbkdf2_hmac`):
    ```
    hash = pbkdf2_hmac(self._digest, secret, self.salt, self.rounds)
    return b64encode(hash).rstrip().decode("ascii")
    ``` -/
def djangoPbkdf2Calc (a : HashAlg) (secret : Secret) (salt : List Nat) (rounds : Nat) : Res (List Nat) :=
  match pbkdf2Hmac a secret (.text salt) rounds with
  | .error e => .error e
  | .ok hash => decodeAscii (rstripWs (b64encode hash))

/-! ### scram.py -/

/-- `scram.derive_digest(password, salt, rounds, alg)`:
    ```
    if isinstance(password, bytes): password = password.decode("utf-8")
    return pbkdf2_hmac(alg, saslprep(password), salt, rounds)
    ```
    `prep` = "decode as UTF-8 if bytes, saslprep, encode as UTF-8" on the secret (external: stringprep tables), so that
    `pbkdf2_hmac`'s `to_bytes` of the prepared text is `prep secret`; `alg` already resolved to its `HashAlg` -/
def scramDeriveDigest (prep : Secret → Res Bytes) (a : HashAlg) (password : Secret) (salt : Bytes) (rounds : Nat) : Res Bytes :=
  match prep password with
  | .error e => .error e
  | .ok prepared => pbkdf2Hmac a (.bytes prepared) (.bytes salt) rounds

/-- `scram._calc_checksum(secret)` (no `alg`):
    `return dict((alg, hash(secret, salt, rounds, alg)) for alg in self.algs)` — the digests in `algs` order -/
def scramCalc (prep : Secret → Res Bytes) (algs : List HashAlg) (secret : Secret) (salt : Bytes) (rounds : Nat) :
    Res (List Bytes) :=
  algs.mapM fun a => scramDeriveDigest prep a secret salt rounds

/-- one `alg=digest` value of `scram.to_string`: `ab64_encode(chkmap[alg]).decode("ascii")` -/
def scramField (digest : Bytes) : Res (List Nat) := decodeAscii (Model.B64.ab64Encode digest)

/-! ### scrypt.py -/

/-- `passlib.crypto.scrypt.scrypt(secret, salt, n, r, p, keylen)` on the builtin backend:
    ```
    validate(n, r, p)
    secret = to_bytes(secret, param="secret")
    salt = to_bytes(salt, param="salt")
    if keylen < 1: raise ValueError("keylen must be at least 1")
    if keylen > MAX_KEYLEN: raise ValueError(…)
    return _scrypt(secret, salt, n, r, p, keylen)
    ``` -/
def scryptFront (secret salt : Secret) (n r p keylen : Nat) : Res Bytes :=
  match Model.Scrypt.validate n r p with
  | .error _ => .error .valueError
  | .ok _ =>
    match secret.toBytes with
    | .error e => .error e
    | .ok secret =>
      match salt.toBytes with
      | .error e => .error e
      | .ok salt =>
        if keylen < 1 then .error .valueError
        else if keylen > Gen.Scrypt.MAX_KEYLEN then .error .valueError
        else .ok (Model.Scrypt.run n r p secret salt keylen)

/-- `scrypt._calc_checksum` (`checksum_size = 32`):
    ```
    secret = to_bytes(secret, param="secret")
    return _scrypt.scrypt(secret, self.salt, n=(1 << self.rounds), r=self.block_size, p=self.parallelism, keylen=self.checksum_size)
    ``` -/
def scryptCalc (secret : Secret) (salt : Bytes) (rounds blockSize parallelism : Nat) : Res Bytes :=
  match secret.toBytes with
  | .error e => .error e
  | .ok secret => scryptFront (.bytes secret) (.bytes salt) (1 <<< rounds) blockSize parallelism 32

/-- the checksum field of `scrypt.to_string` (`$scrypt$` layout): `b64s_encode(self.checksum).decode("ascii")` -/
def scryptPhcField (checksum : Bytes) : Res (List Nat) := decodeAscii (Model.B64.b64sEncode checksum)

/-- … of the `$7$` layout: `h64.encode_bytes(self.checksum).decode("ascii")` -/
def scrypt7Field (checksum : Bytes) : Res (List Nat) := decodeAscii (Model.B64.encodeBytes Model.B64.h64 checksum)

end Model.Code.Digest
