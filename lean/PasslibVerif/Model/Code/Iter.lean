/-
  C02, group `Iter`: hand model of passlib's OWN pure-Python checksum code of the iterated-digest formats, written statement by
  statement after the source (NOT after the specification):

    passlib/handlers/phpass.py          phpass._calc_checksum
    passlib/handlers/mysql.py           mysql323._calc_checksum, mysql41._calc_checksum
    passlib/handlers/sha1_crypt.py      sha1_crypt._calc_checksum_builtin
    passlib/handlers/fshp.py            fshp._calc_checksum (+ the data part of fshp.to_string)
    passlib/handlers/cisco.py           cisco_pix._calc_checksum (pix and asa), cisco_type7._cipher / _calc_checksum / to_string
    passlib/handlers/sun_md5_crypt.py   raw_sun_md5_crypt, sun_md5_crypt.to_string(_withchk=False), sun_md5_crypt._calc_checksum
    passlib/utils/__init__.py           repeat_string (Model.ShaCrypt.repeatString), right_pad_string

  Python semantics: ints are `Nat` (every value in these functions is non-negative), bytes are `List Nat` (< 256), str is a list
  of code points.  `secret` is what the caller passes (`Model.Verify.Secret`: text or bytes); the first statement of every
  `_calc_checksum` is `if isinstance(secret, str): secret = secret.encode("utf-8")` = `Secret.toBytes` (UnicodeEncodeError, a
  ValueError, on a lone surrogate).  The digests are parameters (hashlib is external); HMAC and PBKDF1 are passlib's own
  `compile_hmac` / `pbkdf1` (Model.Hmac), the hash64 engine is Model.B64 over the generated chunk bodies and offset tables.
  Everything here is executable (driver suite `citer`, lean/Driver/CodeIter.lean) and is compared with the real functions by
  tools/corr/c02_code_iter.py.  The theorems `… = specification` are in Props/C02CodeIter.lean.
-/
import PasslibVerif.Model.Verify
import PasslibVerif.Model.Hmac
import PasslibVerif.Model.B64
import PasslibVerif.Model.ShaCrypt
import PasslibVerif.Py.Fmt
import PasslibVerif.Spec.Rfc4648

namespace Model.Code.Iter
open Py
open Model.Verify (Secret)

/-! ### shared Python idioms -/

/-- `s.encode("ascii")` of a str given by its code points (UnicodeEncodeError is a ValueError) -/
def encodeAscii (s : List Nat) : Res Bytes := if s.all (· < 128) then .ok s else .error .valueError

/-- `str(n)` / `f"{n}"` / `"%d" % n` for a non-negative int -/
def pyStr (n : Nat) : List Nat := fmtDec (n : Int)

/-- `for _ in range(n): x = f(x)` -/
def forRange {α : Type} (f : α → α) : Nat → α → α
  | 0, x => x
  | n + 1, x => forRange f n (f x)

/-- `"0123456789abcdef"[n]` -/
def hexChar (n : Nat) : Nat := if n < 10 then 48 + n else 87 + n

/-- binascii.hexlify / `hexdigest()` (C code, external): `hexdigits[b >> 4]`, `hexdigits[b & 0xf]` per byte -/
def hexlify (bs : Bytes) : Bytes := bs.flatMap fun b => [hexChar (b >>> 4), hexChar (b &&& 15)]

/-- `str.upper()` on ASCII text -/
def asciiUpper (s : List Nat) : List Nat := s.map fun c => if 97 ≤ c ∧ c ≤ 122 then c - 32 else c

/-- `h64.encode_bytes(x).decode("ascii")` -/
def h64Encode (bs : Bytes) : Bytes := Model.B64.encodeBytes Model.B64.h64 bs

/-! ### phpass.py -/

/-- `while r < real_rounds: result = md5(result + secret).digest(); r += 1` (the fuel is the number of iterations the loop
    can make: `real_rounds - r`) -/
def phpassWhile (md5 : Bytes → Bytes) (secret : Bytes) (realRounds : Nat) : Nat → Nat → Bytes → Bytes
  | 0, _, result => result
  | fuel + 1, r, result =>
    if r < realRounds then phpassWhile md5 secret realRounds fuel (r + 1) (md5 (result ++ secret)) else result

/-- `phpass._calc_checksum` with `self.salt` (str) and `self.rounds` -/
def phpassCalcChecksum (md5 : Bytes → Bytes) (salt : List Nat) (rounds : Nat) (secret : Secret) : Res Bytes := do
  let secret ← secret.toBytes
  let realRounds := 1 <<< rounds
  let saltB ← encodeAscii salt
  let result := md5 (saltB ++ secret)
  let result := phpassWhile md5 secret realRounds realRounds 0 result
  pure (h64Encode result)

/-! ### mysql.py -/

def MASK_32 : Nat := 0xFFFFFFFF
def MASK_31 : Nat := 0x7FFFFFFF
/-- `WHITE = b" \t"` -/
def WHITE : Bytes := [32, 9]

/-- body of `for c in secret:` on the state `(nr1, nr2, add)` -/
def mysql323Body (st : Nat × Nat × Nat) (c : Nat) : Nat × Nat × Nat :=
  let (nr1, nr2, add) := st
  if c ∈ WHITE then st            -- `continue`
  else
    let tmp := c
    let nr1 := nr1 ^^^ (((((nr1 &&& 63) + add) * tmp) + (nr1 <<< 8)) &&& MASK_32)
    let nr2 := (nr2 + ((nr2 <<< 8) ^^^ nr1)) &&& MASK_32
    let add := (add + tmp) &&& MASK_32
    (nr1, nr2, add)

/-- number of base-16 digits of `v` (at least 1) -/
def numHexDigitsFuel : Nat → Nat → Nat
  | 0, _ => 1
  | fuel + 1, v => if v < 16 then 1 else 1 + numHexDigitsFuel fuel (v / 16)

/-- `f"{v:08x}"`: lower-case hexadecimal, zero padded to AT LEAST 8 digits -/
def fmtHex08 (v : Nat) : List Nat :=
  ((Digits.toDigits 16 (max 8 (numHexDigitsFuel v v)) v).reverse).map hexChar

/-- `mysql323._calc_checksum` -/
def mysql323CalcChecksum (secret : Secret) : Res Bytes := do
  let secret ← secret.toBytes
  let (nr1, nr2, _) := secret.foldl mysql323Body (0x50305735, 0x12345671, 7)
  pure (fmtHex08 (nr1 &&& MASK_31) ++ fmtHex08 (nr2 &&& MASK_31))

/-- `mysql41._calc_checksum`: `sha1(sha1(secret).digest()).hexdigest().upper()` -/
def mysql41CalcChecksum (sha1 : Bytes → Bytes) (secret : Secret) : Res Bytes := do
  let secret ← secret.toBytes
  pure (asciiUpper (hexlify (sha1 (sha1 secret))))

/-! ### sha1_crypt.py -/

/-- `"$sha1$"` -/
def SHA1_MAGIC : List Nat := [36, 115, 104, 97, 49, 36]

/-- `sha1_crypt._calc_checksum_builtin` with `self.salt` (str), `self.rounds`; `compile_hmac("sha1", secret)`:
    block size 64, digest size 20 -/
def sha1CryptCalcChecksumBuiltin (sha1 : Bytes → Bytes) (salt : List Nat) (rounds : Nat) (secret : Secret) : Res Bytes := do
  let secret ← secret.toBytes
  if 0 ∈ secret then throw .nullError
  let result ← encodeAscii (salt ++ SHA1_MAGIC ++ pyStr rounds)
  let keyedHmac := Model.Hmac.compileHmac sha1 64 20 secret
  let result := forRange keyedHmac rounds result
  Model.B64.encodeTransposed Model.B64.h64 result Gen.B64.sha1_chk_offsets

/-! ### fshp.py -/

/-- `_variant_info[variant]`: the digest (`lookup_hash(name)`, whose `digest_size` is the same number) and `checksum_size` -/
def fshpVariantInfo (sha1 sha256 sha384 sha512 : Bytes → Bytes) : Nat → Option ((Bytes → Bytes) × Nat)
  | 0 => some (sha1, 20)
  | 1 => some (sha256, 32)
  | 2 => some (sha384, 48)
  | 3 => some (sha512, 64)
  | _ => none

/-- `fshp._calc_checksum`: `pbkdf1(digest=self.checksum_alg, secret=self.salt, salt=secret, rounds=self.rounds,
    keylen=self.checksum_size)` — salt and secret change places -/
def fshpCalcChecksum (sha1 sha256 sha384 sha512 : Bytes → Bytes) (variant : Nat) (salt : Bytes) (rounds : Nat)
    (secret : Secret) : Res Bytes := do
  let secret ← secret.toBytes
  match fshpVariantInfo sha1 sha256 sha384 sha512 variant with
  | none => throw .keyError
  | some (H, size) => Model.Hmac.pbkdf1 H size salt secret rounds (some size)

/-- the data part of `fshp.to_string`: `b64encode(salt + chk)` (C codec, external: RFC 4648 with padding) -/
def fshpData (salt chk : Bytes) : Bytes := Spec.Rfc4648.base64 (salt ++ chk)

/-! ### cisco.py -/

/-- `_DUMMY_BYTES = b"\xff" * 32` -/
def DUMMY_BYTES : Bytes := List.replicate 32 255

/-- `right_pad_string(source, size)` on bytes (pad = NUL) -/
def rightPadString (source : Bytes) (size : Nat) : Bytes :=
  let length := source.length
  if size > length then source ++ List.replicate (size - length) 0 else source.take size

/-- `bytes(c for i, c in enumerate(digest) if (i + 1) & 3)` -/
def dropEveryFourth (digest : Bytes) : Bytes :=
  (digest.zipIdx.filter fun (p : Nat × Nat) => (p.2 + 1) &&& 3 ≠ 0).map (·.1)

/-- `spoil_digest = None; if len(secret) > self.truncate_size: if self.use_defaults: raise PasswordSizeError …;
    spoil_digest = secret + _DUMMY_BYTES` -/
def ciscoSpoil (truncateSize : Nat) (useDefaults : Bool) (secret : Bytes) : Res (Option Bytes) :=
  if secret.length > truncateSize then
    (if useDefaults then .error .sizeError else .ok (some (secret ++ DUMMY_BYTES)))
  else .ok none

/-- `user = self.user; if user: if isinstance(user, str): user = user.encode("utf-8");
    if not asa or len(secret) < 28: secret += repeat_string(user, 4)` -/
def ciscoAppendUser (asa : Bool) (user : Option Secret) (secret : Bytes) : Res Bytes :=
  match user with
  | none => .ok secret
  | some u =>
    if u.len = 0 then .ok secret          -- `if user:` is false for "" and b""
    else match u.toBytes with
      | .error e => .error e
      | .ok ub => if !asa || secret.length < 28 then .ok (secret ++ Model.ShaCrypt.repeatString ub 4) else .ok secret

/-- `cisco_pix._calc_checksum`; `asa = self._is_asa`, `self.truncate_size` (16 / 32), `self.use_defaults` (True under
    `hash`, False under `verify`), `self.user` (None, str or bytes) -/
def ciscoCalcChecksum (md5 : Bytes → Bytes) (asa : Bool) (truncateSize : Nat) (useDefaults : Bool) (user : Option Secret)
    (secret : Secret) : Res Bytes := do
  let secret ← secret.toBytes
  let spoilDigest ← ciscoSpoil truncateSize useDefaults secret
  let secret ← ciscoAppendUser asa user secret
  let padSize := if asa && secret.length > 16 then 32 else 16
  let secret := rightPadString secret padSize
  let secret := match spoilDigest with
    | some sp => secret ++ sp            -- `if spoil_digest:` (never empty when set)
    | none => secret
  let digest := md5 secret
  let digest := dropEveryFourth digest
  pure (h64Encode digest)

/-- `cisco_type7._key` (str) as code points -/
def TYPE7_KEY : List Nat := "dsfd;kfoA,.iyewrkldJKDHSUBsgvca69834ncxv9873254k;fg87".toList.map Char.toNat

/-- `cisco_type7._cipher(data, salt)`: `bytes(value ^ ord(key[(salt + idx) % key_size]) for idx, value in enumerate(data))` -/
def type7Cipher (data : Bytes) (salt : Nat) : Bytes :=
  let key := TYPE7_KEY
  let keySize := key.length
  data.zipIdx.map fun (p : Nat × Nat) => p.1 ^^^ key.getD ((salt + p.2) % keySize) 0

/-- `cisco_type7._calc_checksum`: `hexlify(self._cipher(secret, self.salt)).decode("ascii").upper()` -/
def type7CalcChecksum (salt : Nat) (secret : Secret) : Res Bytes := do
  let secret ← secret.toBytes
  pure (asciiUpper (hexlify (type7Cipher secret salt)))

/-- `cisco_type7.to_string`: `"%02d%s" % (self.salt, self.checksum)` -/
def type7ToString (salt : Nat) (checksum : List Nat) : List Nat := fmtZeroPad 2 (salt : Int) ++ checksum

/-! ### sun_md5_crypt.py -/

/-- `MAGIC_HAMLET` (the adjacent bytes literals of the source, one row per literal) -/
def MAGIC_HAMLET_ROWS : List (List Nat) := [
  [84, 111, 32, 98, 101, 44, 32, 111, 114, 32, 110, 111, 116, 32, 116, 111, 32, 98, 101, 44, 45, 45, 116, 104, 97, 116, 32, 105, 115, 32, 116, 104, 101, 32, 113, 117, 101, 115, 116, 105, 111, 110, 58, 45, 45, 10],
  [87, 104, 101, 116, 104, 101, 114, 32, 39, 116, 105, 115, 32, 110, 111, 98, 108, 101, 114, 32, 105, 110, 32, 116, 104, 101, 32, 109, 105, 110, 100, 32, 116, 111, 32, 115, 117, 102, 102, 101, 114, 10],
  [84, 104, 101, 32, 115, 108, 105, 110, 103, 115, 32, 97, 110, 100, 32, 97, 114, 114, 111, 119, 115, 32, 111, 102, 32, 111, 117, 116, 114, 97, 103, 101, 111, 117, 115, 32, 102, 111, 114, 116, 117, 110, 101, 10],
  [79, 114, 32, 116, 111, 32, 116, 97, 107, 101, 32, 97, 114, 109, 115, 32, 97, 103, 97, 105, 110, 115, 116, 32, 97, 32, 115, 101, 97, 32, 111, 102, 32, 116, 114, 111, 117, 98, 108, 101, 115, 44, 10],
  [65, 110, 100, 32, 98, 121, 32, 111, 112, 112, 111, 115, 105, 110, 103, 32, 101, 110, 100, 32, 116, 104, 101, 109, 63, 45, 45, 84, 111, 32, 100, 105, 101, 44, 45, 45, 116, 111, 32, 115, 108, 101, 101, 112, 44, 45, 45, 10],
  [78, 111, 32, 109, 111, 114, 101, 59, 32, 97, 110, 100, 32, 98, 121, 32, 97, 32, 115, 108, 101, 101, 112, 32, 116, 111, 32, 115, 97, 121, 32, 119, 101, 32, 101, 110, 100, 10],
  [84, 104, 101, 32, 104, 101, 97, 114, 116, 97, 99, 104, 101, 44, 32, 97, 110, 100, 32, 116, 104, 101, 32, 116, 104, 111, 117, 115, 97, 110, 100, 32, 110, 97, 116, 117, 114, 97, 108, 32, 115, 104, 111, 99, 107, 115, 10],
  [84, 104, 97, 116, 32, 102, 108, 101, 115, 104, 32, 105, 115, 32, 104, 101, 105, 114, 32, 116, 111, 44, 45, 45, 39, 116, 105, 115, 32, 97, 32, 99, 111, 110, 115, 117, 109, 109, 97, 116, 105, 111, 110, 10],
  [68, 101, 118, 111, 117, 116, 108, 121, 32, 116, 111, 32, 98, 101, 32, 119, 105, 115, 104, 39, 100, 46, 32, 84, 111, 32, 100, 105, 101, 44, 45, 45, 116, 111, 32, 115, 108, 101, 101, 112, 59, 45, 45, 10],
  [84, 111, 32, 115, 108, 101, 101, 112, 33, 32, 112, 101, 114, 99, 104, 97, 110, 99, 101, 32, 116, 111, 32, 100, 114, 101, 97, 109, 58, 45, 45, 97, 121, 44, 32, 116, 104, 101, 114, 101, 39, 115, 32, 116, 104, 101, 32, 114, 117, 98, 59, 10],
  [70, 111, 114, 32, 105, 110, 32, 116, 104, 97, 116, 32, 115, 108, 101, 101, 112, 32, 111, 102, 32, 100, 101, 97, 116, 104, 32, 119, 104, 97, 116, 32, 100, 114, 101, 97, 109, 115, 32, 109, 97, 121, 32, 99, 111, 109, 101, 44, 10],
  [87, 104, 101, 110, 32, 119, 101, 32, 104, 97, 118, 101, 32, 115, 104, 117, 102, 102, 108, 101, 100, 32, 111, 102, 102, 32, 116, 104, 105, 115, 32, 109, 111, 114, 116, 97, 108, 32, 99, 111, 105, 108, 44, 10],
  [77, 117, 115, 116, 32, 103, 105, 118, 101, 32, 117, 115, 32, 112, 97, 117, 115, 101, 58, 32, 116, 104, 101, 114, 101, 39, 115, 32, 116, 104, 101, 32, 114, 101, 115, 112, 101, 99, 116, 10],
  [84, 104, 97, 116, 32, 109, 97, 107, 101, 115, 32, 99, 97, 108, 97, 109, 105, 116, 121, 32, 111, 102, 32, 115, 111, 32, 108, 111, 110, 103, 32, 108, 105, 102, 101, 59, 10],
  [70, 111, 114, 32, 119, 104, 111, 32, 119, 111, 117, 108, 100, 32, 98, 101, 97, 114, 32, 116, 104, 101, 32, 119, 104, 105, 112, 115, 32, 97, 110, 100, 32, 115, 99, 111, 114, 110, 115, 32, 111, 102, 32, 116, 105, 109, 101, 44, 10],
  [84, 104, 101, 32, 111, 112, 112, 114, 101, 115, 115, 111, 114, 39, 115, 32, 119, 114, 111, 110, 103, 44, 32, 116, 104, 101, 32, 112, 114, 111, 117, 100, 32, 109, 97, 110, 39, 115, 32, 99, 111, 110, 116, 117, 109, 101, 108, 121, 44, 10],
  [84, 104, 101, 32, 112, 97, 110, 103, 115, 32, 111, 102, 32, 100, 101, 115, 112, 105, 115, 39, 100, 32, 108, 111, 118, 101, 44, 32, 116, 104, 101, 32, 108, 97, 119, 39, 115, 32, 100, 101, 108, 97, 121, 44, 10],
  [84, 104, 101, 32, 105, 110, 115, 111, 108, 101, 110, 99, 101, 32, 111, 102, 32, 111, 102, 102, 105, 99, 101, 44, 32, 97, 110, 100, 32, 116, 104, 101, 32, 115, 112, 117, 114, 110, 115, 10],
  [84, 104, 97, 116, 32, 112, 97, 116, 105, 101, 110, 116, 32, 109, 101, 114, 105, 116, 32, 111, 102, 32, 116, 104, 101, 32, 117, 110, 119, 111, 114, 116, 104, 121, 32, 116, 97, 107, 101, 115, 44, 10],
  [87, 104, 101, 110, 32, 104, 101, 32, 104, 105, 109, 115, 101, 108, 102, 32, 109, 105, 103, 104, 116, 32, 104, 105, 115, 32, 113, 117, 105, 101, 116, 117, 115, 32, 109, 97, 107, 101, 10],
  [87, 105, 116, 104, 32, 97, 32, 98, 97, 114, 101, 32, 98, 111, 100, 107, 105, 110, 63, 32, 119, 104, 111, 32, 119, 111, 117, 108, 100, 32, 116, 104, 101, 115, 101, 32, 102, 97, 114, 100, 101, 108, 115, 32, 98, 101, 97, 114, 44, 10],
  [84, 111, 32, 103, 114, 117, 110, 116, 32, 97, 110, 100, 32, 115, 119, 101, 97, 116, 32, 117, 110, 100, 101, 114, 32, 97, 32, 119, 101, 97, 114, 121, 32, 108, 105, 102, 101, 44, 10],
  [66, 117, 116, 32, 116, 104, 97, 116, 32, 116, 104, 101, 32, 100, 114, 101, 97, 100, 32, 111, 102, 32, 115, 111, 109, 101, 116, 104, 105, 110, 103, 32, 97, 102, 116, 101, 114, 32, 100, 101, 97, 116, 104, 44, 45, 45, 10],
  [84, 104, 101, 32, 117, 110, 100, 105, 115, 99, 111, 118, 101, 114, 39, 100, 32, 99, 111, 117, 110, 116, 114, 121, 44, 32, 102, 114, 111, 109, 32, 119, 104, 111, 115, 101, 32, 98, 111, 117, 114, 110, 10],
  [78, 111, 32, 116, 114, 97, 118, 101, 108, 108, 101, 114, 32, 114, 101, 116, 117, 114, 110, 115, 44, 45, 45, 112, 117, 122, 122, 108, 101, 115, 32, 116, 104, 101, 32, 119, 105, 108, 108, 44, 10],
  [65, 110, 100, 32, 109, 97, 107, 101, 115, 32, 117, 115, 32, 114, 97, 116, 104, 101, 114, 32, 98, 101, 97, 114, 32, 116, 104, 111, 115, 101, 32, 105, 108, 108, 115, 32, 119, 101, 32, 104, 97, 118, 101, 10],
  [84, 104, 97, 110, 32, 102, 108, 121, 32, 116, 111, 32, 111, 116, 104, 101, 114, 115, 32, 116, 104, 97, 116, 32, 119, 101, 32, 107, 110, 111, 119, 32, 110, 111, 116, 32, 111, 102, 63, 10],
  [84, 104, 117, 115, 32, 99, 111, 110, 115, 99, 105, 101, 110, 99, 101, 32, 100, 111, 101, 115, 32, 109, 97, 107, 101, 32, 99, 111, 119, 97, 114, 100, 115, 32, 111, 102, 32, 117, 115, 32, 97, 108, 108, 59, 10],
  [65, 110, 100, 32, 116, 104, 117, 115, 32, 116, 104, 101, 32, 110, 97, 116, 105, 118, 101, 32, 104, 117, 101, 32, 111, 102, 32, 114, 101, 115, 111, 108, 117, 116, 105, 111, 110, 10],
  [73, 115, 32, 115, 105, 99, 107, 108, 105, 101, 100, 32, 111, 39, 101, 114, 32, 119, 105, 116, 104, 32, 116, 104, 101, 32, 112, 97, 108, 101, 32, 99, 97, 115, 116, 32, 111, 102, 32, 116, 104, 111, 117, 103, 104, 116, 59, 10],
  [65, 110, 100, 32, 101, 110, 116, 101, 114, 112, 114, 105, 115, 101, 115, 32, 111, 102, 32, 103, 114, 101, 97, 116, 32, 112, 105, 116, 104, 32, 97, 110, 100, 32, 109, 111, 109, 101, 110, 116, 44, 10],
  [87, 105, 116, 104, 32, 116, 104, 105, 115, 32, 114, 101, 103, 97, 114, 100, 44, 32, 116, 104, 101, 105, 114, 32, 99, 117, 114, 114, 101, 110, 116, 115, 32, 116, 117, 114, 110, 32, 97, 119, 114, 121, 44, 10],
  [65, 110, 100, 32, 108, 111, 115, 101, 32, 116, 104, 101, 32, 110, 97, 109, 101, 32, 111, 102, 32, 97, 99, 116, 105, 111, 110, 46, 45, 45, 83, 111, 102, 116, 32, 121, 111, 117, 32, 110, 111, 119, 33, 10],
  [84, 104, 101, 32, 102, 97, 105, 114, 32, 79, 112, 104, 101, 108, 105, 97, 33, 45, 45, 78, 121, 109, 112, 104, 44, 32, 105, 110, 32, 116, 104, 121, 32, 111, 114, 105, 115, 111, 110, 115, 10],
  [66, 101, 32, 97, 108, 108, 32, 109, 121, 32, 115, 105, 110, 115, 32, 114, 101, 109, 101, 109, 98, 101, 114, 39, 100, 46, 10],
  [0]]

def MAGIC_HAMLET : Bytes := MAGIC_HAMLET_ROWS.flatten

/-- `xr = range(7)` -/
def xr : List Nat := List.range 7

/-- `_XY_ROUNDS`: `(i, ia, ib)` triples of xrounds 0, xrounds 1, yrounds 0, yrounds 1 -/
def X_ROUNDS_0 : List (Nat × Nat × Nat) := xr.map fun i => (i, i, i + 3)
def X_ROUNDS_1 : List (Nat × Nat × Nat) := xr.map fun i => (i, i + 1, i + 4)
def Y_ROUNDS_0 : List (Nat × Nat × Nat) := xr.map fun i => (i, i + 8, (i + 11) &&& 15)
def Y_ROUNDS_1 : List (Nat × Nat × Nat) := xr.map fun i => (i, (i + 9) &&& 15, (i + 12) &&& 15)

/-- body of `for i, ia, ib in xrounds:` (and of the identical loop over `yrounds`) on the accumulator `x`;
    `rval = [c for c in result].__getitem__` (every index below is < 16 by construction; the list has 16 entries by the assert) -/
def xyBody (rval : Nat → Nat) (x : Nat) (t : Nat × Nat × Nat) : Nat :=
  let (i, ia, ib) := t
  let a := rval ia
  let b := rval ib
  let v := rval ((a >>> (b % 5)) &&& 15) >>> ((b >>> (a &&& 7)) &&& 1)
  x ||| (((rval ((v >>> 3) &&& 15) >>> (v &&& 7)) &&& 1) <<< i)

/-- the coin of one round -/
def sunCoin (result : Bytes) (round : Nat) : Nat :=
  let rval := fun i => result.getD i 0
  let xrounds := if (rval ((round >>> 3) &&& 15) >>> (round &&& 7)) &&& 1 ≠ 0 then X_ROUNDS_1 else X_ROUNDS_0
  let x := xrounds.foldl (xyBody rval) 0
  let yrounds := if (rval (((round + 64) >>> 3) &&& 15) >>> (round &&& 7)) &&& 1 ≠ 0 then Y_ROUNDS_1 else Y_ROUNDS_0
  let y := yrounds.foldl (xyBody rval) 0
  ((rval (x >>> 3) >>> (x &&& 7)) ^^^ (rval (y >>> 3) >>> (y &&& 7))) &&& 1

/-- body of `while round < real_rounds:` — `h = md5(result); if coin: h.update(MAGIC_HAMLET); h.update(str(round).encode("ascii"))` -/
def sunBody (md5 : Bytes → Bytes) (result : Bytes) (round : Nat) : Bytes :=
  let coin := sunCoin result round
  md5 (result ++ (if coin ≠ 0 then MAGIC_HAMLET else []) ++ pyStr round)

def sunWhile (md5 : Bytes → Bytes) (realRounds : Nat) : Nat → Nat → Bytes → Bytes
  | 0, _, result => result
  | fuel + 1, round, result =>
    if round < realRounds then sunWhile md5 realRounds fuel (round + 1) (sunBody md5 result round) else result

/-- `raw_sun_md5_crypt(secret, rounds, salt)` (`rounds = max(0, rounds)` is the identity on `Nat`) -/
def rawSunMd5Crypt (md5 : Bytes → Bytes) (secret : Bytes) (rounds : Nat) (salt : Bytes) : Res Bytes := do
  let realRounds := 4096 + rounds
  let result := md5 (secret ++ salt)
  if result.length ≠ 16 then throw .assertionError
  let result := sunWhile md5 realRounds realRounds 0 result
  Model.B64.encodeTransposed Model.B64.h64 result Gen.B64.sun_md5_chk_offsets

/-- `sun_md5_crypt.to_string(_withchk=False)` -/
def sunToStringNoChk (salt : List Nat) (rounds : Nat) (bareSalt : Bool) : List Nat :=
  let ss := if bareSalt then [] else [36]
  if rounds > 0 then [36, 109, 100, 53, 44, 114, 111, 117, 110, 100, 115, 61] ++ pyStr rounds ++ [36] ++ salt ++ ss
  else [36, 109, 100, 53, 36] ++ salt ++ ss

/-- `sun_md5_crypt._calc_checksum` -/
def sunMd5CalcChecksum (md5 : Bytes → Bytes) (salt : List Nat) (rounds : Nat) (bareSalt : Bool) (secret : Secret) : Res Bytes := do
  let secret ← secret.toBytes
  let config ← encodeAscii (sunToStringNoChk salt rounds bareSalt)     -- `str_to_bascii`
  rawSunMd5Crypt md5 secret rounds config

end Model.Code.Iter
