import PasslibVerif.Py.Basic
import PasslibVerif.Gen.Disabled
/-
Model of unix_disabled / django_disabled and of CryptContext.is_enabled / disable / enable /
verify(hash=None).  Strings are lists of code points.  Other schemes enter through their
`claims` (identify) and `verify` functions.
-/
namespace Model.Disabled
open Py Gen.Disabled

abbrev Str := List Nat

/-! ### unix_disabled -/
def unixIdentify (h : Str) : Bool := h.isEmpty || (match h.head? with | some c => MARKER_CHARS.contains c | none => false)

/-- verify: never True; a string that is not a disabled marker is an InvalidHashError (ValueError) -/
def unixVerify (_secret h : Str) : Res Bool := if unixIdentify h then .ok false else .error .valueError

def stripPrefixes : List Str → Str → Option Str
  | [], _ => none
  | p :: ps, h => if p.isPrefixOf h then some (h.drop p.length) else stripPrefixes ps h

/-- enable: the text after the marker; ValueError when nothing is embedded or no marker is present -/
def unixEnable (h : Str) : Res Str :=
  match stripPrefixes disablePrefixes h with
  | some orig => if orig.isEmpty then .error .valueError else .ok orig
  | none => .error .valueError

/-- disable(hash): marker, plus the previous hash (its own marker normalised away) -/
def unixDisable (marker : Str) (hash : Option Str) : Str :=
  match hash with
  | none => marker
  | some h =>
    let h' : Option Str :=
      if unixIdentify h then (match unixEnable h with | .ok o => some o | .error _ => none) else some h
    match h' with
    | some o => if o.isEmpty then marker else marker ++ o
    | none => marker

/-! ### django_disabled -/
def djangoIdentify (h : Str) : Bool := djangoPrefix.isPrefixOf h
def djangoVerify (_secret h : Str) : Res Bool := if djangoIdentify h then .ok false else .error .valueError
/-- disable ignores the old hash: "!" + 40 random symbols (`suffix` is the random part) -/
def djangoDisable (suffix : Str) : Str := djangoPrefix ++ suffix
def djangoEnable (_h : Str) : Res Str := .error .valueError

/-! ### a context: ordered schemes -/
inductive Kind | normal | unix (marker : Str) | django

structure Scheme where
  name : String
  kind : Kind
  claims : Str → Bool            -- identify()
  verify : Str → Str → Res Bool  -- verify(secret, hash)

def Scheme.isDisabled (s : Scheme) : Bool := match s.kind with | .normal => false | _ => true

def unixScheme (marker : Str) : Scheme := ⟨"unix_disabled", .unix marker, unixIdentify, unixVerify⟩
def djangoScheme : Scheme := ⟨"django_disabled", .django, djangoIdentify, djangoVerify⟩

/-- `_identify_record`: first scheme that claims the hash; UnknownHashError otherwise -/
def identifyRecord (ctx : List Scheme) (h : Str) : Res Scheme :=
  match ctx.find? (·.claims h) with
  | some s => .ok s
  | none => .error .unknownHash

def isEnabled (ctx : List Scheme) (h : Str) : Res Bool := (identifyRecord ctx h).map (!·.isDisabled)

/-- `disabled_record`: first disabled scheme, RuntimeError when there is none -/
def disabledRecord (ctx : List Scheme) : Res Scheme :=
  match ctx.find? (·.isDisabled) with
  | some s => .ok s
  | none => .error .runtimeError

def ctxDisable (ctx : List Scheme) (suffix : Str) (hash : Option Str) : Res Str :=
  match disabledRecord ctx with
  | .error e => .error e
  | .ok s => match s.kind with
    | .unix m => .ok (unixDisable m hash)
    | .django => .ok (djangoDisable suffix)
    | .normal => .error .assertionError

def ctxEnable (ctx : List Scheme) (h : Str) : Res Str :=
  match identifyRecord ctx h with
  | .error e => .error e
  | .ok s => match s.kind with
    | .unix _ => unixEnable h
    | .django => djangoEnable h
    | .normal => .ok h

inductive Event | dummyVerify deriving DecidableEq, Repr

/-- `verify(secret, hash)`; `hash = none` is Python's None: False after one dummy verification -/
def ctxVerify (ctx : List Scheme) (secret : Str) (hash : Option Str) : Res (Bool × List Event) :=
  match hash with
  | none => .ok (false, [.dummyVerify])
  | some h => match identifyRecord ctx h with
    | .error e => .error e
    | .ok s => (s.verify secret h).map (·, [])

end Model.Disabled
