import PasslibVerif.Model.TotpKey
import PasslibVerif.Model.Handler
import PasslibVerif.Py.Str
import PasslibVerif.Gen.TotpSerial
/-
Model of the (de)serialisers of passlib.totp.TOTP — `to_uri` / `from_uri`, `to_dict` / `from_dict`,
`to_json` / `from_json`, `from_source` — together with the pieces of `urllib.parse` (CPython 3.12) and `str`
they call, at the level of code points.  The statement lists this file follows are pinned by the translator
unit `TotpSerial` (tools/totpserial_pins.py, urllib functions by ast hash); constants come from Gen.TotpSerial.

Text is `List Nat` (code points, lone surrogates allowed as in Python `str`), bytes are `List Nat`.
Results are `Out`: a value, a Python exception kind, or `unmodelled` (the model declines to answer:
invalid UTF-8 behind '%' escapes — Python substitutes U+FFFD there —, hash names outside the reflected table,
exotic JSON value types).  External: `json.loads/dumps` (JSON documents enter as association lists of typed
values), `lookup_hash` (reflected table), AppWallet's AES/PBKDF2 (`Wallet` / an abstract cipher).
-/
namespace Model.TotpSerial
open Py Model.Handler Model.TotpKey

/-! ### results -/
inductive Out (α : Type) where
  | ok (a : α)
  | error (e : ErrKind)
  | unmodelled
  deriving DecidableEq, Repr

def Out.bind {α β} : Out α → (α → Out β) → Out β
  | .ok a, f => f a
  | .error e, _ => .error e
  | .unmodelled, _ => .unmodelled

instance : Monad Out where
  pure := .ok
  bind := Out.bind

def Out.ofRes {α} : Res α → Out α
  | .ok a => .ok a
  | .error e => .error e

def Out.isOk {α} : Out α → Bool
  | .ok _ => true
  | _ => false

/-! ### UTF-8 (`str.encode("utf-8")`, `bytes.decode("utf-8")` strict) -/

/-- Unicode scalar values: what `str.encode("utf-8")` accepts (lone surrogates raise UnicodeEncodeError) -/
def isScalar (c : Nat) : Bool := c < 0xD800 || (0xE000 ≤ c && c < 0x110000)

def utf8EncodeCp (c : Nat) : Bytes :=
  if c < 0x80 then [c]
  else if c < 0x800 then [0xC0 + c / 64, 0x80 + c % 64]
  else if c < 0x10000 then [0xE0 + c / 4096, 0x80 + c / 64 % 64, 0x80 + c % 64]
  else [0xF0 + c / 262144, 0x80 + c / 4096 % 64, 0x80 + c / 64 % 64, 0x80 + c % 64]

def utf8Encode (s : Str) : Bytes := s.flatMap utf8EncodeCp

def isCont (b : Nat) : Bool := 0x80 ≤ b && b < 0xC0

/-- strict UTF-8 decoder (shortest form only, no surrogates, at most U+10FFFF); `none` = invalid -/
def utf8Decode : Bytes → Option Str
  | [] => some []
  | b0 :: r =>
    if b0 < 0x80 then (utf8Decode r).map (b0 :: ·)
    else if b0 < 0xC2 then none
    else if b0 < 0xE0 then
      match r with
      | b1 :: r1 =>
        if isCont b1 then (utf8Decode r1).map (((b0 - 0xC0) * 64 + (b1 - 0x80)) :: ·) else none
      | _ => none
    else if b0 < 0xF0 then
      match r with
      | b1 :: b2 :: r2 =>
        let c := (b0 - 0xE0) * 4096 + (b1 - 0x80) * 64 + (b2 - 0x80)
        if isCont b1 && isCont b2 && 0x800 ≤ c && !(0xD800 ≤ c && c < 0xE000) then (utf8Decode r2).map (c :: ·) else none
      | _ => none
    else if b0 < 0xF5 then
      match r with
      | b1 :: b2 :: b3 :: r3 =>
        let c := (b0 - 0xF0) * 262144 + (b1 - 0x80) * 4096 + (b2 - 0x80) * 64 + (b3 - 0x80)
        if isCont b1 && isCont b2 && isCont b3 && 0x10000 ≤ c && c < 0x110000 then (utf8Decode r3).map (c :: ·) else none
      | _ => none
    else none

/-! ### `urllib.parse.quote` / `unquote` -/

/-- `_Quoter.__missing__`: `chr(b) if b in self.safe else '%{:02X}'.format(b)`; the safe set is `_ALWAYS_SAFE`
    plus the ASCII characters of `safe` -/
def quoteByte (safe : List Nat) (b : Nat) : Str :=
  if Gen.TotpSerial.alwaysSafe.contains b || (b < 128 && safe.contains b) then [b]
  else [37, hexDigitUpper (b / 16), hexDigitUpper (b % 16)]

def quoteBytes (safe : List Nat) (bs : Bytes) : Str := bs.flatMap (quoteByte safe)

/-- `quote(s, safe)` for a str; a lone surrogate makes `s.encode('utf-8', 'strict')` raise UnicodeEncodeError (a ValueError) -/
def quote (s : Str) (safe : List Nat) : Out Str :=
  if s.all isScalar then .ok (quoteBytes safe (utf8Encode s)) else .error .valueError

/-- value of a hex digit accepted after '%' (`_hexdig = '0123456789ABCDEFabcdef'`) -/
def hexVal (c : Nat) : Option Nat :=
  let i := Gen.TotpSerial.hexdig.idxOf c
  if i < 16 then some i else if i < 22 then some (i - 6) else none

/-- what `unquote` sees: bytes (ASCII characters and decoded %XX escapes) and non-ASCII characters of the str -/
inductive Tok where
  | byte (b : Nat)
  | lit (c : Nat)
  deriving DecidableEq, Repr

/-- `_unquote_impl` on the ASCII runs: split at '%'; an item starting with two hex digits gives that byte,
    otherwise the '%' stays -/
def tokOf (c : Nat) : Tok := if c < 128 then .byte c else .lit c

def pctTokens : Str → List Tok
  | [] => []
  | [c] => [tokOf c]
  | [c, d] => tokOf c :: pctTokens [d]
  | c :: a :: b :: rest =>
    if c = 37 then
      match hexVal a, hexVal b with
      | some x, some y => .byte (x * 16 + y) :: pctTokens rest
      | _, _ => .byte 37 :: pctTokens (a :: b :: rest)
    else tokOf c :: pctTokens (a :: b :: rest)

/-- `_generate_unquoted_parts`: every maximal ASCII run is decoded as UTF-8 on its own, non-ASCII text is copied.
    `acc` = bytes of the current run, reversed.  `none`: a run is not valid UTF-8 (Python puts U+FFFD; not modelled) -/
def unquoteRuns : List Tok → Bytes → Option Str
  | [], acc => utf8Decode acc.reverse
  | .byte b :: r, acc => unquoteRuns r (b :: acc)
  | .lit c :: r, acc =>
    match utf8Decode acc.reverse, unquoteRuns r [] with
    | some a, some t => some (a ++ c :: t)
    | _, _ => none

def unquote (s : Str) : Out Str :=
  match unquoteRuns (pctTokens s) [] with
  | some r => .ok r
  | none => .unmodelled

/-! ### `urlsplit` / `urlparse` -/

/-- split at the first occurrence of `d`: `(before, after)` -/
def findSplit (d : Nat) : Str → Option (Str × Str)
  | [] => none
  | c :: r => if c = d then some ([], r) else (findSplit d r).map fun p => (c :: p.1, p.2)

structure SplitResult where
  scheme : Str
  netloc : Str
  path : Str
  query : Str
  fragment : Str
  deriving DecidableEq, Repr

def isNetlocDelim (c : Nat) : Bool := c = 47 || c = 63 || c = 35

/-- `urlsplit(url)` (= `urlparse(url)` for schemes outside `uses_params`, such as otpauth: no ';params' split).
    The ValueErrors urlsplit raises for a malformed *netloc* (unbalanced brackets, NFKC look-alikes) are not
    reproduced: `from_uri` refuses every netloc other than "totp" / "hotp" with ValueError anyway, and those two pass. -/
def urlsplit (url0 : Str) : SplitResult :=
  let url := (url0.dropWhile Gen.TotpSerial.urlLstrip.contains).filter (fun c => !Gen.TotpSerial.urlRemoved.contains c)
  let su : Str × Str :=
    match findSplit 58 url with
    | some (pre, post) =>
      if !pre.isEmpty && Gen.TotpSerial.asciiAlpha.contains (pre.headD 0) && pre.all Gen.TotpSerial.schemeChars.contains
      then (pre.map asciiLower, post) else ([], url)
    | none => ([], url)
  let nu : Str × Str :=
    if su.2.take 2 = [47, 47] then ((su.2.drop 2).takeWhile (fun c => !isNetlocDelim c), (su.2.drop 2).dropWhile (fun c => !isNetlocDelim c))
    else ([], su.2)
  let uf : Str × Str := match findSplit 35 nu.2 with
    | some p => p
    | none => (nu.2, [])
  let uq : Str × Str := match findSplit 63 uf.1 with
    | some p => p
    | none => (uf.1, [])
  { scheme := su.1, netloc := nu.1, path := uq.1, query := uq.2, fragment := uf.2 }

/-- `s.replace('+', ' ')` -/
def plusToSpace (s : Str) : Str := s.map fun c => if c = 43 then 32 else c

/-- one `name=value` field of `parse_qsl` (defaults: blank values dropped, fields without '=' dropped) -/
def qslField (nv : Str) : Out (Option (Str × Str)) :=
  if nv.isEmpty then .ok none else
  match findSplit 61 nv with
  | none => .ok none
  | some (n, v) =>
    if v.isEmpty then .ok none
    else (unquote (plusToSpace n)).bind fun n' => (unquote (plusToSpace v)).bind fun v' => .ok (some (n', v'))

def qslFields : List Str → Out (List (Str × Str))
  | [] => .ok []
  | f :: fs => (qslField f).bind fun o => (qslFields fs).bind fun r =>
      .ok (match o with | some p => p :: r | none => r)

/-- `parse_qsl(qs)` -/
def parseQsl (qs : Str) : Out (List (Str × Str)) :=
  if qs.isEmpty then .ok [] else qslFields (splitChar 38 qs)

/-! ### Python str helpers -/

/-- `s.strip()` -/
def pyStrip (s : Str) : Str :=
  ((s.dropWhile Gen.TotpSerial.stripWs.contains).reverse.dropWhile Gen.TotpSerial.stripWs.contains).reverse

def lookupKey {β} (k : Str) : List (Str × β) → Option β
  | [] => none
  | (k', v) :: r => if k' = k then some v else lookupKey k r

def hasKey {β} (k : Str) (d : List (Str × β)) : Bool := (lookupKey k d).isSome

/-! ### objects -/

/-- JSON / dict values.  `enc e` stands for a dict found under "enckey" (opaque to this layer),
    `other` for floats, lists and dicts elsewhere -/
inductive JVal (E : Type) where
  | null
  | bool (b : Bool)
  | int (i : Int)
  | str (s : Str)
  | enc (e : E)
  | other
  deriving DecidableEq, Repr

/-- what the TOTP class needs from its AppWallet: `encrypt_key` (randomised: `seed` stands for the salt drawn),
    `decrypt_key` → (key, needs_recrypt), `has_secrets` -/
structure Wallet (E : Type) where
  hasSecrets : Bool
  encrypt : Nat → Bytes → Out E
  decrypt : E → Out (Bytes × Bool)

/-- the class the (de)serialiser is called on: `TOTP` or a subclass made by `TOTP.using(...)` -/
structure Cls (E : Type) where
  clsAlg : Str := Gen.TotpSerial.baseAlg
  clsDigits : Int := Gen.TotpSerial.baseDigits
  clsPeriod : Int := Gen.TotpSerial.basePeriod
  clsIssuer : Option Str := none
  wallet : Option (Wallet E) := none

/-- a TOTP object: `key, alg, digits, period, label, issuer` as attribute lookup on the instance sees them, and `changed` -/
structure Config where
  key : Bytes
  alg : Str
  digits : Int
  period : Int
  label : Option Str
  issuer : Option Str
  changed : Bool := false
  deriving DecidableEq, Repr

def sTotp : Str := [116, 111, 116, 112]
def sHotp : Str := [104, 111, 116, 112]
def sOtpauth : Str := [111, 116, 112, 97, 117, 116, 104]
def sLabel : Str := [108, 97, 98, 101, 108]
def sSecret : Str := [115, 101, 99, 114, 101, 116]
def sIssuer : Str := [105, 115, 115, 117, 101, 114]
def sDigits : Str := [100, 105, 103, 105, 116, 115]
def sAlgorithm : Str := [97, 108, 103, 111, 114, 105, 116, 104, 109]
def sAlg : Str := [97, 108, 103]
def sPeriod : Str := [112, 101, 114, 105, 111, 100]
def sCls : Str := [99, 108, 115]
def sType : Str := [116, 121, 112, 101]
def sV : Str := [118]
def sKey : Str := [107, 101, 121]
def sEnckey : Str := [101, 110, 99, 107, 101, 121]
def sLastCounter : Str := [108, 97, 115, 116, 95, 99, 111, 117, 110, 116, 101, 114]
def sChanged : Str := [99, 104, 97, 110, 103, 101, 100]
def sFormat : Str := [102, 111, 114, 109, 97, 116]
def sNew : Str := [110, 101, 119]
def sSize : Str := [115, 105, 122, 101]
/-- "otpauth://totp/" -/
def sUriHead : Str := [111, 116, 112, 97, 117, 116, 104, 58, 47, 47, 116, 111, 116, 112, 47]
/-- "otpauth://" -/
def sUriScheme : Str := [111, 116, 112, 97, 117, 116, 104, 58, 47, 47]

/-- `lookup_hash(name).name` through the reflected table; names outside it are not modelled -/
def lookupHash (name : Str) : Out Str :=
  match lookupKey name Gen.TotpSerial.hashLookup with
  | some (some n) => .ok n
  | some none => .error .unknownHash
  | none => .unmodelled

inductive KeyFmt | base32 | encrypted
  deriving DecidableEq, Repr

/-- keyword arguments of `TOTP.__init__` as the loaders pass them (`new`, `size`, other formats are not used by them) -/
structure CtorArgs (E : Type) where
  key : JVal E
  fmt : KeyFmt := .base32
  alg : JVal E := .null
  digits : JVal E := .null
  period : JVal E := .null
  label : JVal E := .null
  issuer : JVal E := .null
  changed : Bool := false

/-- `_check_label` / `_check_issuer` after the `if label:` test of the constructor: the attribute value it leaves
    (`dflt` = the class attribute that stays visible when nothing is assigned) -/
def ctorText {E} (v : JVal E) (dflt : Option Str) : Out (Option Str) :=
  match v with
  | .null => .ok dflt
  | .bool false => .ok dflt
  | .bool true => .error .typeError        -- `":" in True`
  | .int i => if i = 0 then .ok dflt else .error .typeError
  | .str s => if s.isEmpty then .ok dflt else if s.contains 58 then .error .valueError else .ok (some s)
  | .enc _ => .unmodelled
  | .other => .unmodelled

/-- `info = lookup_hash(alg or self.alg)`; `self.alg = info.name` -/
def ctorAlg {E} (cls : Cls E) (v : JVal E) : Out Str :=
  match v with
  | .null => lookupHash cls.clsAlg
  | .bool false => lookupHash cls.clsAlg
  | .bool true => .error .typeError
  | .int i => if i = 0 then lookupHash cls.clsAlg else .error .typeError
  | .str s => if s.isEmpty then lookupHash cls.clsAlg else lookupHash s
  | .enc _ => .unmodelled
  | .other => .unmodelled

/-- the key branch of the constructor → (key bytes, needs_recrypt) -/
def ctorKey {E} (cls : Cls E) (fmt : KeyFmt) (key : JVal E) : Out (Bytes × Bool) :=
  match fmt, key with
  | .encrypted, .enc e =>
    (match cls.wallet with
      | none => .error .typeError
      | some w => w.decrypt e)
  | .encrypted, _ => .error .typeError     -- falsy: "must specify…"; otherwise no wallet / "'enckey' must be dictionary"
  | .base32, .str s => if s.isEmpty then .error .typeError else (Out.ofRes (decodeKey .base32 s)).bind fun k => .ok (k, false)
  | .base32, _ => .error .typeError        -- falsy: "must specify…"; otherwise to_unicode() refuses non-text

def ctorDigits {E} (cls : Cls E) (v : JVal E) : Out Int :=
  match v with
  | .null => .ok cls.clsDigits
  | .int d => if d < 6 || d > 10 then .error .valueError else .ok d
  | .bool _ => .unmodelled
  | _ => .error .typeError

def ctorPeriod {E} (cls : Cls E) (v : JVal E) : Out Int :=
  match v with
  | .null => .ok cls.clsPeriod
  | .int p => if p < 1 then .error .valueError else .ok p
  | .bool _ => .unmodelled
  | _ => .error .typeError

/-- `TOTP.__init__(key=…, format=…, digits=…, alg=…, period=…, label=…, issuer=…, changed=…)` on class `cls`,
    in statement order: alg, key, digits, label, issuer, period -/
def construct {E} (cls : Cls E) (a : CtorArgs E) : Out Config :=
  (ctorAlg cls a.alg).bind fun alg =>
  (ctorKey cls a.fmt a.key).bind fun kr =>
  (ctorDigits cls a.digits).bind fun digits =>
  (ctorText a.label none).bind fun label =>
  (ctorText a.issuer cls.clsIssuer).bind fun issuer =>
  (ctorPeriod cls a.period).bind fun period =>
  .ok { key := kr.1, alg := alg, digits := digits, period := period, label := label, issuer := issuer,
        changed := a.changed || kr.2 }

/-! ### uri -/

def truthy (o : Option Str) : Option Str :=
  match o with
  | some s => if s.isEmpty then none else some s
  | none => none

/-- `_to_uri_params` -/
def toUriParams (c : Config) : List (Str × Str) :=
  [(sSecret, base32Key c.key)]
  ++ (if c.alg ≠ Gen.TotpSerial.defaultAlg then [(sAlgorithm, pyUpper c.alg)] else [])
  ++ (if c.digits ≠ Gen.TotpSerial.defaultDigits then [(sDigits, fmtDec c.digits)] else [])
  ++ (if c.period ≠ Gen.TotpSerial.defaultPeriod then [(sPeriod, fmtDec c.period)] else [])

def renderParams : List (Str × Str) → Out (List Str)
  | [] => .ok []
  | (k, v) :: r => (quote v Gen.TotpSerial.valueSafe).bind fun qv => (renderParams r).bind fun rs => .ok ((k ++ 61 :: qv) :: rs)

/-- the `if issuer:` block of `to_uri`: (label part, parameter list) -/
def toUriIssuer (c : Config) (ql : Str) : Out (Str × List (Str × Str)) :=
  match truthy c.issuer with
  | none => .ok (ql, toUriParams c)
  | some issuer =>
    if issuer.contains 58 then .error .valueError else
    (quote issuer Gen.TotpSerial.issuerSafe).bind fun qi => .ok (qi ++ 58 :: ql, toUriParams c ++ [(sIssuer, issuer)])

/-- `to_uri(label=None, issuer=None)`: an argument that is not None replaces the attribute, so `to_uri(l, i)` is
    `toUri` of the object with those fields replaced -/
def toUri (c : Config) : Out Str :=
  match truthy c.label with
  | none => .error .valueError
  | some label =>
    if label.contains 58 then .error .valueError else
    (quote label Gen.TotpSerial.labelSafe).bind fun ql =>
    (toUriIssuer c ql).bind fun lp =>
    (renderParams lp.2).bind fun fields =>
    .ok (sUriHead ++ lp.1 ++ 63 :: joinChar 38 fields)

/-- `_check_otp_type` -/
def checkOtpType (t : Str) : Out Unit :=
  if t = sTotp then .ok () else if t = sHotp then .error .notImplemented else .error .valueError

/-- the loop `for k, v in parse_qsl(...)`: ValueError on a name seen before (the dict starts with `label`) -/
def addParams (params : List (Str × Str)) : List (Str × Str) → Out (List (Str × Str))
  | [] => .ok params
  | (k, v) :: r => if hasKey k params then .error .valueError else addParams (params ++ [(k, v)]) r

/-- `_uri_parse_int` -/
def uriParseInt (s : Str) : Out Int :=
  match pyIntOfStr s with
  | some n => .ok n
  | none => .error .valueError

/-- `cls._uri_parse_int(x, …) if x else default` -/
def uriIntParam (o : Option Str) (dflt : Int) : Out Int :=
  match truthy o with
  | some d => uriParseInt d
  | none => .ok dflt

def optStr {E} (o : Option Str) : JVal E :=
  match o with
  | some s => .str s
  | none => .null

/-- `_adapt_uri_params(**params)` followed by the constructor call -/
def adaptUriParams {E} (cls : Cls E) (params : List (Str × Str)) : Out Config :=
  if hasKey sCls params then .error .typeError else     -- "got multiple values for argument 'cls'"
  match truthy (lookupKey sSecret params) with
  | none => .error .valueError
  | some secret =>
    (uriIntParam (lookupKey sDigits params) Gen.TotpSerial.defaultDigits).bind fun digits =>
    (uriIntParam (lookupKey sPeriod params) Gen.TotpSerial.defaultPeriod).bind fun period =>
    construct cls { key := .str secret, fmt := .base32, digits := .int digits,
                    alg := .str ((truthy (lookupKey sAlgorithm params)).getD Gen.TotpSerial.defaultAlg),
                    period := .int period, label := optStr (lookupKey sLabel params), issuer := optStr (lookupKey sIssuer params) }

/-- old-style issuer prefix: `issuer, label = label.split(":")` (ValueError unless exactly two parts) -/
def splitLabel (label0 : Str) : Out (Option Str × Str) :=
  if label0.contains 58 then
    match splitChar 58 label0 with
    | [i, l] => .ok (some i, l)
    | _ => .error .valueError
  else .ok (none, label0)

/-- "synchronize issuer prefix w/ issuer param" -/
def syncIssuer (issuer : Option Str) (params : List (Str × Str)) : Out (List (Str × Str)) :=
  match truthy issuer with
  | none => .ok params
  | some issuer =>
    match lookupKey sIssuer params with
    | none => .ok (params ++ [(sIssuer, issuer)])
    | some i' => if i' ≠ issuer then .error .valueError else .ok params

/-- `_from_parsed_uri(result)` once the path is known to be "/" + a non-empty quoted label -/
def fromLabelQuery {E} (cls : Cls E) (quotedLabel query : Str) : Out Config :=
  (unquote quotedLabel).bind fun label0 =>
  (splitLabel label0).bind fun il =>
  let label := pyStrip il.2
  if label.isEmpty then .error .valueError else
  (parseQsl query).bind fun pairs =>
  (addParams [(sLabel, label)] pairs).bind fun params =>
  (syncIssuer il.1 params).bind fun params' =>
  adaptUriParams cls params'

/-- `_from_parsed_uri(result)` -/
def fromParsedUri {E} (cls : Cls E) (r : SplitResult) : Out Config :=
  match r.path with
  | 47 :: c :: rest => fromLabelQuery cls (c :: rest) r.query
  | _ => .error .valueError

/-- `from_uri(uri)` for a str -/
def fromUri {E} (cls : Cls E) (uri : Str) : Out Config :=
  let r := urlsplit (pyStrip uri)
  if r.scheme ≠ sOtpauth then .error .valueError else
  (checkOtpType r.netloc).bind fun _ => fromParsedUri cls r

/-! ### dict / json -/

abbrev Dict (E : Type) := List (Str × JVal E)

/-- `to_dict`: everything but the key entry -/
def dictState {E} (cls : Cls E) (c : Config) : Dict E :=
  [(sV, .int Gen.TotpSerial.jsonVersion), (sType, .str sTotp)]
  ++ (if c.alg ≠ Gen.TotpSerial.defaultAlg then [(sAlg, .str c.alg)] else [])
  ++ (if c.digits ≠ Gen.TotpSerial.defaultDigits then [(sDigits, .int c.digits)] else [])
  ++ (if c.period ≠ Gen.TotpSerial.defaultPeriod then [(sPeriod, .int c.period)] else [])
  ++ (match truthy c.label with | some l => [(sLabel, .str l)] | none => [])
  ++ (match truthy c.issuer with
      | some i => if some i ≠ cls.clsIssuer then [(sIssuer, .str i)] else []     -- "omit issuer if it matches class default"
      | none => [])

/-- `encrypt = wallet and wallet.has_secrets` when the argument is None -/
def wantEncrypt {E} (cls : Cls E) (encrypt : Option Bool) : Bool :=
  match encrypt with
  | some b => b
  | none => match cls.wallet with
    | some w => w.hasSecrets
    | none => false

/-- `to_dict(encrypt)`; `seed` = the randomness `encrypt_key` draws -/
def toDict {E} (cls : Cls E) (c : Config) (encrypt : Option Bool) (seed : Nat) : Out (Dict E) :=
  if wantEncrypt cls encrypt then
    match cls.wallet with
    | none => .error .typeError
    | some w => (w.encrypt seed c.key).bind fun e => .ok (dictState cls c ++ [(sEnckey, .enc e)])
  else .ok (dictState cls c ++ [(sKey, .str (base32Key c.key))])

/-- the keys `_adapt_dict_kwds` / the constructor know -/
def dictKnown : List Str := [sType, sV, sKey, sEnckey, sLastCounter, sAlg, sDigits, sPeriod, sLabel, sIssuer]
/-- constructor keywords the loaders never write (a dict carrying them is not modelled) -/
def dictCtorOnly : List Str := [sChanged, sFormat, sNew, sSize]

/-- `assert cls._check_otp_type(type)` -/
def dictType {E} (ty : JVal E) : Out Unit :=
  match ty with
  | .str t => checkOtpType t
  | _ => .error .valueError

/-- `ver = kwds.pop("v", None)`; `if not ver or ver < cls.min_json_version or ver > cls.json_version: raise ValueError` -/
def dictVersion {E} (v : Option (JVal E)) : Out Int :=
  (match v with
    | none => .error .valueError
    | some .null => .error .valueError
    | some (.bool b) => if b then .ok (1 : Int) else .error .valueError
    | some (.int v) => .ok v
    | some (.str s) => if s.isEmpty then .error .valueError else .error .typeError    -- `'1' < 1`
    | some _ => .unmodelled : Out Int).bind fun ver =>
  if ver = 0 || ver < Gen.TotpSerial.minJsonVersion || ver > Gen.TotpSerial.jsonVersion then .error .valueError else .ok ver

/-- "enckey" wins and must come alone; otherwise "key" is required -/
def dictKey {E} (enckey key : Option (JVal E)) : Out (JVal E × KeyFmt) :=
  match enckey, key with
  | some _, some _ => .error .assertionError        -- `assert "key" not in kwds`
  | some e, none => .ok (e, KeyFmt.encrypted)
  | none, some k => .ok (k, KeyFmt.base32)
  | none, none => .error .valueError

/-- `from_dict(source)` for a dict with str keys -/
def fromDict {E} (cls : Cls E) (d : Dict E) : Out Config :=
  match lookupKey sType d with
  | none => .error .valueError                          -- "unrecognized format"
  | some ty =>
    if hasKey sCls d then .error .typeError else        -- `_adapt_dict_kwds(**source)`: two values for 'cls'
    (dictType ty).bind fun _ =>
    (dictVersion (lookupKey sV d)).bind fun ver =>
    (dictKey (lookupKey sEnckey d) (lookupKey sKey d)).bind fun kf =>
    if d.any (fun p => !dictKnown.contains p.1 && !dictCtorOnly.contains p.1) then .error .typeError else    -- object.__init__(**kwds), first statement
    if d.any (fun p => dictCtorOnly.contains p.1) then .unmodelled else
    construct cls { key := kf.1, fmt := kf.2, changed := ver ≠ Gen.TotpSerial.jsonVersion,
                    alg := (lookupKey sAlg d).getD (.str Gen.TotpSerial.defaultAlg),
                    digits := (lookupKey sDigits d).getD (.int Gen.TotpSerial.defaultDigits),
                    period := (lookupKey sPeriod d).getD (.int Gen.TotpSerial.defaultPeriod),
                    label := (lookupKey sLabel d).getD .null, issuer := (lookupKey sIssuer d).getD .null }

/-- what `json.loads(text)` produced (external) -/
inductive JDoc (E : Type) where
  | invalid                 -- JSONDecodeError (a ValueError)
  | nonDict                 -- a list, number, string, …
  | dict (d : Dict E)

/-- `from_json(text)` after `json.loads` -/
def fromJson {E} (cls : Cls E) : JDoc E → Out Config
  | .invalid => .error .valueError
  | .nonDict => .error .valueError
  | .dict d => fromDict cls d

/-- lexicographic `a < b` on code points (str comparison) -/
def strLt : Str → Str → Bool
  | [], [] => false
  | [], _ :: _ => true
  | _ :: _, [] => false
  | a :: as, b :: bs => a < b || (a = b && strLt as bs)

def insertKey {β} (p : Str × β) : List (Str × β) → List (Str × β)
  | [] => [p]
  | q :: r => if strLt q.1 p.1 then q :: insertKey p r else p :: q :: r

/-- `sort_keys=True` -/
def sortKeys {β} (d : List (Str × β)) : List (Str × β) := d.foldr insertKey []

/-- `to_json()`: the document `json.dumps(state, sort_keys=True, separators=(",", ":"))` writes -/
def toJson {E} (cls : Cls E) (c : Config) (encrypt : Option Bool) (seed : Nat) : Out (JDoc E) :=
  (toDict cls c encrypt seed).bind fun d => .ok (.dict (sortKeys d))

/-- argument of `from_source` (TOTP instances aside): a dict, or text together with what `json.loads` makes of it -/
inductive Source (E : Type) where
  | dict (d : Dict E)
  | text (s : Str) (parsed : JDoc E)

/-- `from_source(source)` -/
def fromSource {E} (cls : Cls E) : Source E → Out Config
  | .dict d => fromDict cls d
  | .text s parsed => if sUriScheme.isPrefixOf s then fromUri cls s else fromJson cls parsed

/-! ### AppWallet (`encrypt_key` / `decrypt_key` / default tag); the cipher (PBKDF2-HMAC-SHA256 + AES-256-CTR of the
     `cryptography` package) is a parameter -/

/-- the "enckey" dict -/
abbrev EncDict := List (Str × JVal Unit)

structure AppWallet where
  secrets : List (Str × Bytes)        -- tag → secret, in dict order
  defaultTag : Option Str
  cost : Int                          -- encrypt_cost
  deriving DecidableEq, Repr

/-- `_cipher_aes_key(value, secret, salt, cost)`; CTR mode: the same function decrypts -/
abbrev Cipher := (secret salt : Bytes) → (cost : Int) → Bytes → Bytes

def sC : Str := [99]
def sT : Str := [116]
def sS : Str := [115]
def sK : Str := [107]

def allAsciiDigits (s : Str) : Bool := !s.isEmpty && s.all fun c => 48 ≤ c && c ≤ 57

def asciiNat (s : Str) : Nat := s.foldl (fun acc c => acc * 10 + (c - 48)) 0

/-- `max(tags, key=…)`: the first maximal element -/
def maxBy (lt : Str → Str → Bool) : List Str → Option Str
  | [] => none
  | t :: ts => match maxBy lt ts with
    | none => some t
    | some m => if lt t m then some m else some t

/-- the default tag `AppWallet.__init__` picks when none is given: numerically largest if every tag is digits
    (tags have passed `_tag_re`, so `isdigit()` means ASCII digits), else the lexicographically largest -/
def pickDefaultTag (tags : List Str) : Option Str :=
  if tags.all allAsciiDigits then maxBy (fun a b => asciiNat a < asciiNat b) tags else maxBy strLt tags

/-- `encrypt_key(key)` with the drawn salt -/
def walletEncrypt (cipher : Cipher) (w : AppWallet) (salt key : Bytes) : Out EncDict :=
  if key.isEmpty then .error .valueError else
  match truthy w.defaultTag with
  | none => .error .typeError
  | some tag =>
    match lookupKey tag w.secrets with
    | none => .error .keyError
    | some secret =>
      .ok [(sV, .int 1), (sC, .int w.cost), (sT, .str tag), (sS, .str (Model.B64.b32encode salt)),
           (sK, .str (Model.B64.b32encode (cipher secret salt w.cost key)))]

/-- `self.get_secret(tag)` -/
def getSecret (w : AppWallet) (tag : Str) : Out Bytes :=
  if w.secrets.isEmpty then .error .keyError else
  match lookupKey tag w.secrets with
  | none => .error .keyError            -- "unknown secret tag"
  | some s => .ok s

def encStr (e : EncDict) (k : Str) : Out Str :=
  match lookupKey k e with
  | none => .error .keyError
  | some (.str s) => .ok s
  | some _ => .unmodelled

def encInt (e : EncDict) (k : Str) : Out Int :=
  match lookupKey k e with
  | none => .error .keyError
  | some (.int i) => .ok i
  | some _ => .unmodelled

/-- `version = enckey.get("v")`; only 1 is known -/
def encVersion (e : EncDict) : Out Unit :=
  match lookupKey sV e with
  | some (.int i) => if i = 1 then .ok () else .error .valueError
  | some (.bool b) => if b then .ok () else .error .valueError
  | some .null | some (.str _) | none => .error .valueError
  | some _ => .unmodelled

/-- `decrypt_key(enckey)` for a dict; evaluation order: version, t, c, b32decode(k), secret of the tag, b32decode(s), cipher -/
def walletDecrypt (cipher : Cipher) (w : AppWallet) (e : EncDict) : Out (Bytes × Bool) :=
  (encVersion e).bind fun _ =>
  (encStr e sT).bind fun tag =>
  (encInt e sC).bind fun cost =>
  (encStr e sK).bind fun k =>
  (Out.ofRes (Model.B64.b32decode k)).bind fun ck =>
  (getSecret w tag).bind fun secret =>
  (encStr e sS).bind fun s =>
  (Out.ofRes (Model.B64.b32decode s)).bind fun salt =>
  if cost < 0 then .error .valueError          -- `1 << cost`
  else .ok (cipher secret salt cost ck, cost ≠ w.cost || some tag ≠ w.defaultTag)

/-- the AppWallet as the TOTP class sees it (salts indexed by the seed).  The constructor's `elif not key: raise TypeError`
    comes before `decrypt_key`, so an empty "enckey" dict never reaches it -/
def AppWallet.toWallet (cipher : Cipher) (salts : Nat → Bytes) (w : AppWallet) : Wallet EncDict where
  hasSecrets := w.defaultTag.isSome
  encrypt := fun seed key => walletEncrypt cipher w (salts seed) key
  decrypt := fun e => if e.isEmpty then .error .typeError else walletDecrypt cipher w e

end Model.TotpSerial
