import PasslibVerif.Model.TotpSerial
/-
Statement-by-statement models of the byte/text helpers of `passlib/utils/__init__.py` that sit under the crypt() back ends
(C03 / C05):

    repeat_string(source, size)          utf8_repeat_string(source, size)          utf8_truncate(source, index)
    safe_crypt(secret, hash)             test_crypt(secret, hash)

Text is `List Nat` (code points, lone surrogates allowed as in Python `str`), bytes are `List Nat` (each < 256);
an argument that may be either is an `Arg`.  Python `int` arguments are `Int` (negative sizes / indices behave as in Python:
floor division, slice ends counted from the end).  UTF-8 is `Model.TotpSerial.utf8Encode / utf8Decode` (strict decoder).

The C library's crypt() — `passlib.utils._crypt` = `legacycrypt.crypt` — is an explicit parameter
`crypt : Str → Str → CryptRet` (what the call does: returns NULL/None, a str, a bytes object (passlib issue 113), raises OSError,
raises something else).  `safeCryptT` returns the list of calls made to it next to the result, so "crypt is not called" /
"crypt is called once with …" are statements about the model.
-/
namespace Model.PyUtil
open Py
open Model.TotpSerial (utf8Encode utf8Decode isCont isScalar)

abbrev Str := List Nat

/-- the Python exception kinds these functions can end in -/
inductive Err
  | valueError | typeError | zeroDivisionError | assertionError | unicodeDecodeError | unicodeEncodeError | other (tag : Nat)
  deriving DecidableEq, Repr, Inhabited

def Err.name : Err → String
  | .valueError => "ValueError" | .typeError => "TypeError" | .zeroDivisionError => "ZeroDivisionError"
  | .assertionError => "AssertionError" | .unicodeDecodeError => "UnicodeDecodeError"
  | .unicodeEncodeError => "UnicodeEncodeError" | .other t => "Other" ++ toString t

abbrev PRes (α : Type) := Except Err α

/-- a `str` or a `bytes` argument -/
inductive Arg
  | text (s : Str)
  | bytes (b : Bytes)
  deriving DecidableEq, Repr

def Arg.items : Arg → List Nat
  | .text s => s
  | .bytes b => b

/-! ### Python primitives -/

/-- `seq * k` for an int `k` (k ≤ 0 gives the empty sequence) -/
def pyMul (source : List Nat) (mult : Int) : List Nat := (List.replicate mult.toNat source).flatten

/-- `seq[:size]` for an int `size` (negative: counted from the end, clipped at 0) -/
def pySliceTo (l : List Nat) (size : Int) : List Nat :=
  if size < 0 then l.take (l.length + size).toNat else l.take size.toNat

/-- `str.encode("utf-8")`: lone surrogates / out-of-range values raise UnicodeEncodeError -/
def pyEncodeUtf8 (s : Str) : PRes Bytes :=
  if s.all isScalar then .ok (utf8Encode s) else .error .unicodeEncodeError

/-- `bytes.decode("ascii")` -/
def pyDecodeAscii (b : Bytes) : PRes Str :=
  if b.all (· < 128) then .ok b else .error .unicodeDecodeError

/-- `str.startswith` -/
def pyStartsWith (text pre : Str) : Bool := text.take pre.length == pre

/-! ### repeat_string -/

/-- ```
    mult = 1 + (size - 1) // len(source)          # ZeroDivisionError for an empty source
    return (source * mult)[:size]
    ``` -/
def repeatString (source : List Nat) (size : Int) : PRes (List Nat) :=
  if source.length = 0 then .error .zeroDivisionError
  else
    let mult : Int := 1 + (size - 1) / (source.length : Int)
    .ok (pySliceTo (pyMul source mult) size)

/-! ### utf8_truncate -/

/-- `source[index] & 0xC0 != 0x80` -/
def notContByte (b : Nat) : Bool := (b &&& 0xC0) != 0x80

/-- the `while index < end:` loop, as the number of steps it makes: `fuel = end - index`, `rest = source[index:]` -/
def contRun : Nat → Bytes → Nat
  | 0, _ => 0
  | _, [] => 0
  | f + 1, b :: r => if notContByte b then 0 else 1 + contRun f r

/-- the body of `utf8_truncate` after the index has been made non-negative, up to `result = source[:index]` -/
def utf8TruncateNat (source : Bytes) (index : Nat) : Bytes :=
  let end_ := source.length
  if index ≥ end_ then source
  else
    let end_ := min (index + 3) end_
    let index := index + contRun (end_ - index) (source.drop index)
    source.take index

/-- `sanity_check()`:
    ```
    try: text = source.decode("utf-8")
    except UnicodeDecodeError: return True
    assert text.startswith(result.decode("utf-8"))        # result.decode may raise UnicodeDecodeError
    return True
    ``` -/
def sanityCheck (source result : Bytes) : PRes Bool :=
  match utf8Decode source with
  | none => .ok true
  | some text =>
    match utf8Decode result with
    | none => .error .unicodeDecodeError
    | some pre => if pyStartsWith text pre then .ok true else .error .assertionError

/-- `utf8_truncate(source, index)`:
    ```
    if not isinstance(source, bytes): raise ExpectedTypeError(source, bytes, "source")      # a TypeError
    end = len(source)
    if index < 0: index = max(0, index + end)
    if index >= end: return source
    end = min(index + 3, end)
    while index < end:
        if source[index] & 0xC0 != 0x80: break
        index += 1
    else: assert index == end
    result = source[:index]
    assert sanity_check()
    return result
    ``` -/
def utf8Truncate (source : Arg) (index : Int) : PRes Bytes :=
  match source with
  | .text _ => .error .typeError
  | .bytes source =>
    let end_ : Int := source.length
    let index : Int := if index < 0 then max 0 (index + end_) else index
    if index ≥ end_ then .ok source
    else
      let result := utf8TruncateNat source index.toNat
      match sanityCheck source result with
      | .error e => .error e
      | .ok ok => if ok then .ok result else .error .assertionError

/-! ### utf8_repeat_string -/

/-- ```
    mult = 1 + (size - 1) // len(source)
    return utf8_truncate(source * mult, size)
    ``` -/
def utf8RepeatString (source : Arg) (size : Int) : PRes Bytes :=
  if source.items.length = 0 then .error .zeroDivisionError
  else
    let mult : Int := 1 + (size - 1) / (source.items.length : Int)
    match source with
    | .text s => utf8Truncate (.text (pyMul s mult)) size
    | .bytes b => utf8Truncate (.bytes (pyMul b mult)) size

/-! ### safe_crypt / test_crypt -/

/-- what one call of `_crypt(secret, hash)` does -/
inductive CryptRet
  | null                     -- returns None (C NULL)
  | text (s : Str)           -- returns a str
  | bytes (b : Bytes)        -- returns bytes (passlib issue 113)
  | osError                  -- raises OSError (CPython ≥ 3.9)
  | raises (e : Err)         -- raises anything else (e.g. UnicodeEncodeError for a lone surrogate in the secret)
  deriving DecidableEq, Repr

abbrev Crypt := Str → Str → CryptRet

def NULL : Nat := 0
/-- `_invalid_prefixes = "*:!"` -/
def invalidPrefixes : Str := [42, 58, 33]

/-- the calls made to crypt, in order, and the outcome -/
abbrev Traced (α : Type) := List (Str × Str) × α

/-- the part of `safe_crypt` after the call of `_crypt`:
    ```
    if isinstance(result, bytes): result = result.decode("ascii")
    if not result or result[0] in _invalid_prefixes: return None
    return result
    ``` -/
def checkResult : CryptRet → PRes (Option Str)
  | .osError => .ok none
  | .raises e => .error e
  | .null => .ok none                                   -- `not None`
  | .text s =>
    match s with
    | [] => .ok none
    | c :: _ => if invalidPrefixes.contains c then .ok none else .ok (some s)
  | .bytes b =>
    match pyDecodeAscii b with
    | .error e => .error e
    | .ok s =>
      match s with
      | [] => .ok none
      | c :: _ => if invalidPrefixes.contains c then .ok none else .ok (some s)

/-- the first statement of `safe_crypt`: a bytes secret is decoded (`none` = the `return None` of the except branch), a str is kept -/
def decodeSecret : Arg → PRes (Option Str)
  | .text s => .ok (some s)
  | .bytes orig =>
    match utf8Decode orig with
    | none => .ok none
    | some s =>
      match pyEncodeUtf8 s with
      | .error e => .error e
      | .ok back => if back = orig then .ok (some s) else .error .assertionError

/-- `if isinstance(hash, bytes): hash = hash.decode("ascii")` -/
def hashStr : Arg → PRes Str
  | .text h => .ok h
  | .bytes h => pyDecodeAscii h

/-- `safe_crypt(secret, hash)` (the definition used when `legacycrypt` imports):
    ```
    if isinstance(secret, bytes):
        orig = secret
        try: secret = secret.decode("utf-8")
        except UnicodeDecodeError: return None
        assert secret.encode("utf-8") == orig, "utf-8 spec says this can't happen!"
    if _NULL in secret: raise ValueError("null character in secret")
    if isinstance(hash, bytes): hash = hash.decode("ascii")
    try:
        with _safe_crypt_lock: result = _crypt(secret, hash)
    except OSError: return None
    … checkResult
    ``` -/
def safeCryptT (crypt : Crypt) (secret hash : Arg) : Traced (PRes (Option Str)) :=
  match decodeSecret secret with
  | .error e => ([], .error e)
  | .ok none => ([], .ok none)
  | .ok (some secret) =>
    if secret.contains NULL then ([], .error .valueError)
    else
      match hashStr hash with
      | .error e => ([], .error e)
      | .ok hash => ([(secret, hash)], checkResult (crypt secret hash))

def safeCrypt (crypt : Crypt) (secret hash : Arg) : PRes (Option Str) := (safeCryptT crypt secret hash).2

/-- `test_crypt(secret, hash)`:
    ```
    assert isinstance(hash, str), …
    assert hash, "hash must be non-empty"
    return safe_crypt(secret, hash) == hash
    ``` -/
def testCryptT (crypt : Crypt) (secret hash : Arg) : Traced (PRes Bool) :=
  match hash with
  | .bytes _ => ([], .error .assertionError)
  | .text h =>
    if h.isEmpty then ([], .error .assertionError)
    else
      match safeCryptT crypt secret hash with
      | (calls, .error e) => (calls, .error e)
      | (calls, .ok r) => (calls, .ok (r == some h))

def testCrypt (crypt : Crypt) (secret hash : Arg) : PRes Bool := (testCryptT crypt secret hash).2

end Model.PyUtil
