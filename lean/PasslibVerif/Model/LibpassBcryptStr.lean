import PasslibVerif.Model.Libpass
import PasslibVerif.Model.Code.Digest
import PasslibVerif.Model.Verify
import PasslibVerif.Spec.Hmac
import PasslibVerif.Spec.SHA256
/-
libpass/hashers/bcrypt.py, statement by statement: `BcryptHasher.hash/verify/identify/needs_update` and
`BcryptSHA256Hasher._prepare_secret/hash/verify/identify/needs_update` — the STRING ASSEMBLY around the `bcrypt` package.

The `bcrypt` package (pyca, 5.0.0 on this host) is external code: `hashpw` / `checkpw` are explicit parameters (`Lib`).  What is assumed
about them in the theorems is the structure `BcryptLib` of Lemmas/C20BcryptStr.lean; nothing is assumed here.

  * `as_bytes(x)` = `x.encode("utf8")` of a str (UnicodeEncodeError, a ValueError, on lone surrogates), bytes unchanged: `Secret.toBytes`;
  * `as_str(b)` = `b.decode("utf8")` of bytes: the model covers ASCII bytes (everything the package returns); other bytes are
    reported as ValueError (a UnicodeDecodeError is one; valid non-ASCII UTF-8 is outside the model);
  * `hmac.new(key, msg, hashlib.sha256).digest()` = RFC 2104 over SHA-256 (`Spec.Hmac.hmac Spec.SHA256.sha256 64`);
    `base64.b64encode` = RFC 4648 §4 (`Model.Code.Digest.b64encode`);
  * `salt or bcrypt.gensalt(…)`: an EMPTY/absent salt draws random bytes — outside the model (`.notImplemented`);
  * `raise Panic` (libpass.errors.Panic, a plain Exception with no counterpart in `ErrKind`) is reported as `.assertionError`;
  * `inspect_bcrypt_hash` = `Model.Formats.lpBcryptParse`, `inspect_phc(·, BcryptSHA256PHCV2)` = `lpPhcParse bcryptSha256Phc`,
    `BcryptSHA256PHCV2(...).as_str()` = `lpPhcRender bcryptSha256Phc`, `BcryptHashInfo(...).as_str()` = `lpBcryptRender`
    (the inspector models of C07; integers of a PHC record are kept as their `str()` rendering there, `pyInt` reads them back).
-/
namespace Model.LibpassBcryptStr
open Py Model.Handler Model.Formats Model.Libpass
open Model.Verify (Secret)
open Model.Code.Digest (b64encode)

/-- the `bcrypt` package -/
structure Lib where
  /-- `bcrypt.hashpw(password, salt)` -/
  hashpw : Bytes → Bytes → Res Bytes
  /-- `bcrypt.checkpw(password, hashed_password)` -/
  checkpw : Bytes → Bytes → Res Bool

def asBytes (s : Secret) : Res Bytes := s.toBytes

def asStr (b : Bytes) : Res Str := if b.all (· < 128) then .ok b else .error .valueError

/-- `raise Panic` -/
def PANIC : ErrKind := .assertionError

/-! ### BcryptHasher -/

/-- `BcryptHasher.hash(secret, salt=salt)`:
    ```
    salt = salt or bcrypt.gensalt(rounds=self._rounds, prefix=self.prefix)
    return as_str(bcrypt.hashpw(as_bytes(secret), salt))
    ```
    (neither `self._rounds` nor `self.prefix` is read when the caller supplies the salt) -/
def bcHash (L : Lib) (secret : Secret) (salt : Bytes) : Res Str :=
  if salt.isEmpty then .error .notImplemented
  else match asBytes secret with
    | .error e => .error e
    | .ok b =>
      match L.hashpw b salt with
      | .error e => .error e
      | .ok out => asStr out

/-- `identify`: `inspect_bcrypt_hash(as_str(hash)) is not None` -/
def bcIdentify (hs : Str) : Res Bool :=
  match lpBcryptParse hs with | .error e => .error e | .ok r => .ok r.isSome

/-- `verify(hash, secret)`:
    ```
    if not self.identify(hash): return False
    return bcrypt.checkpw(password=as_bytes(secret), hashed_password=as_bytes(hash))
    ``` -/
def bcVerify (L : Lib) (hs : Str) (secret : Secret) : Res Bool :=
  match bcIdentify hs with
  | .error e => .error e
  | .ok false => .ok false
  | .ok true =>
    match asBytes secret with
    | .error e => .error e
    | .ok b =>
      match asBytes (.text hs) with
      | .error e => .error e
      | .ok hb => L.checkpw b hb

/-- `needs_update(hash)`: `info is None` ⇒ True, else `info.rounds != self._rounds` -/
def bcNeedsUpdate (rounds : Nat) (hs : Str) : Res Bool :=
  match lpBcryptParse hs with
  | .error e => .error e
  | .ok none => .ok true
  | .ok (some info) => .ok (info.rounds != some (rounds : Int))

/-! ### BcryptSHA256Hasher -/

/-- `salt.rsplit(b"$")[-1]`: what follows the last "$" (everything when there is none) -/
def lastField (salt : Bytes) : Bytes := (salt.reverse.takeWhile (· ≠ DOLLAR)).reverse

/-- `salt.rsplit(b"$")[-1][:22]`: the 22 salt characters bcrypt reads — the key of the pre-hash (fix 0142233: a longer argument, e.g. a whole
    bcrypt hash handed over as `salt=`, used to key the pre-hash with everything after the last "$" while the record carries 22 characters) -/
def saltKey (salt : Bytes) : Bytes := (lastField salt).take 22

/-- `base64.b64encode(hmac.new(key=salt, msg=secret, digestmod=hashlib.sha256).digest())` on bytes -/
def prehash (secret salt : Bytes) : Bytes := b64encode (Spec.Hmac.hmac Spec.SHA256.sha256 64 salt secret)

/-- `_prepare_secret(secret, salt)` (`as_bytes(salt)` of the callers' salts never fails: bytes in `hash`, PHC characters in `verify`) -/
def prepareSecret (secret : Secret) (salt : Bytes) : Res Bytes :=
  match asBytes secret with
  | .error e => .error e
  | .ok b => .ok (prehash b salt)

/-- the record `BcryptSHA256PHCV2(id="bcrypt-sha256", version_=2, type=info.prefix, rounds=info.rounds, hash=info.hash, salt=info.salt)` -/
def phcRecord (type : Str) (rounds : Int) (salt hash : Option Str) : Parsed :=
  { ident := ofString "bcrypt-sha256", rounds := none, salt := salt, checksum := hash,
    extra := [("version_", ofString "2"), ("type", type), ("rounds", fmtDec rounds)] }

/-- `BcryptSHA256Hasher.hash(secret, salt=salt)`:
    ```
    salt = salt or bcrypt.gensalt(rounds=self._rounds, prefix=self.prefixes[0])
    prepared_secret = self._prepare_secret(secret, salt=salt.rsplit(b"$")[-1][:22])
    hash = as_str(bcrypt.hashpw(prepared_secret, salt))
    info = inspect_bcrypt_hash(hash)
    if not info: raise Panic
    return BcryptSHA256PHCV2(id="bcrypt-sha256", version_=2, type=info.prefix, rounds=info.rounds, hash=info.hash, salt=info.salt).as_str()
    ```
    (`self._rounds` is not read when the caller supplies the salt: the record is built from the PARSED output of the package) -/
def bshaHash (L : Lib) (secret : Secret) (salt : Bytes) : Res Str :=
  if salt.isEmpty then .error .notImplemented
  else match prepareSecret secret (saltKey salt) with
    | .error e => .error e
    | .ok prepared =>
      match L.hashpw prepared salt with
      | .error e => .error e
      | .ok out =>
        match asStr out with
        | .error e => .error e
        | .ok hs =>
          match lpBcryptParse hs with
          | .error e => .error e
          | .ok none => .error PANIC
          | .ok (some info) =>
            match info.rounds with
            | none => .error PANIC       -- unreachable: the inspector always fills `rounds`
            | some r => lpPhcRender bcryptSha256Phc (phcRecord info.ident r info.salt info.checksum)

/-- `inspect_phc(as_str(hash), BcryptSHA256PHCV2)` followed by `if not info or info.version_ != 2` -/
def bshaInspect (hs : Str) : Res (Option Parsed) :=
  match lpPhcParse bcryptSha256Phc hs with
  | .error e => .error e
  | .ok none => .ok none
  | .ok (some info) => if ownVersion info then .ok (some info) else .ok none

/-- `BcryptHashInfo(prefix=info.type, salt=info.salt, hash=info.hash, rounds=info.rounds).as_str().encode()`
    (every character the PHC inspector lets through is ASCII, `.encode()` changes nothing) -/
def rejoin (type : Str) (rounds : Int) (salt hash : Str) : Bytes :=
  DOLLAR :: (type ++ DOLLAR :: (fmtZeroPad 2 rounds ++ DOLLAR :: (salt ++ hash)))

/-- `verify(hash, secret)`:
    ```
    info = inspect_phc(as_str(hash), BcryptSHA256PHCV2)
    if not info or info.version_ != 2: return False
    hashed_password = BcryptHashInfo(prefix=info.type, salt=info.salt, hash=info.hash, rounds=info.rounds).as_str().encode()
    return bcrypt.checkpw(password=self._prepare_secret(secret, info.salt), hashed_password=hashed_password)
    ```
    (the two fields the model reads are always present in an inspected record; their absence is reported as `PANIC`) -/
def bshaVerify (L : Lib) (hs : Str) (secret : Secret) : Res Bool :=
  match bshaInspect hs with
  | .error e => .error e
  | .ok none => .ok false
  | .ok (some info) =>
    match phcField info "type", phcField info "rounds", info.salt, info.checksum with
    | some t, some r, some salt, some hash =>
      match pyInt r with
      | .error e => .error e
      | .ok rounds =>
        match prepareSecret secret salt with
        | .error e => .error e
        | .ok prepared => L.checkpw prepared (rejoin t rounds salt hash)
    | _, _, _, _ => .error PANIC

/-- `identify`: `info is not None and info.version_ == 2` -/
def bshaIdentify (hs : Str) : Res Bool :=
  match bshaInspect hs with | .error e => .error e | .ok r => .ok r.isSome

/-- `needs_update`: foreign ⇒ True, else `info.rounds != self._rounds` (the `t` field is NOT looked at) -/
def bshaNeedsUpdate (rounds : Nat) (hs : Str) : Res Bool :=
  match bshaInspect hs with
  | .error e => .error e
  | .ok none => .ok true
  | .ok (some info) => .ok (phcField info "rounds" != some (fmtDec (rounds : Int)))

end Model.LibpassBcryptStr
