import PasslibVerif.Py.Basic
import PasslibVerif.Gen.Saslprep
import PasslibVerif.Spec.Saslprep
/-
Model of `passlib.utils.saslprep` (passlib/utils/__init__.py), statement by statement, DRIVEN BY `Gen.Saslprep`
(tables reflected from the interpreter's `stringprep`; table names, list order, indices and error kinds read from the source).

A text is its list of code points (`List Nat`).  `unicodedata.normalize` is external code: the parameter `nfkc`.
The `isinstance(source, str)` guard is outside the model (the model's input is a text by type).
-/
namespace Model.Saslprep
open Py

abbrev Table := List (Nat × Nat)

/-- `stringprep.in_table_X(chr(c))` over the reflected range list -/
def inTable : Table → Nat → Bool
  | [], _ => false
  | (lo, hi) :: rest, c => (lo ≤ c && c ≤ hi) || inTable rest c

/-- attribute look-up `stringprep.<name>` in the reflected tables (a name that is not reflected has no members; the
    property theorems pin every name the source uses, so such a name breaks them) -/
def tableOf (name : String) : Table :=
  match Gen.Saslprep.tables.lookup name with
  | some t => t
  | none => []

/-- exception class named in a `raise` of the source -/
def errOf : String → ErrKind
  | "ValueError" => .valueError
  | "TypeError" => .typeError
  | "AssertionError" => .assertionError
  | "KeyError" => .keyError
  | "IndexError" => .indexError
  | _ => .runtimeError

/-- Python `seq[i]` for an int literal `i` (negative counts from the end) -/
def pyIndex (l : List Nat) (i : Int) : Option Nat :=
  if 0 ≤ i then l[i.toNat]?
  else if i.natAbs ≤ l.length then l[l.length - i.natAbs]? else none

/-- mapping stage:
    `"".join(_USPACE if in_table_c12(c) else c for c in source if not in_table_b1(c))` -/
def mapStage (s : List Nat) : List Nat :=
  (s.filter fun c => !inTable (tableOf Gen.Saslprep.mapDropTable) c).flatMap fun c =>
    if inTable (tableOf Gen.Saslprep.mapSpaceTable) c then Gen.Saslprep.mapReplacement else [c]

/-- `forbidden_` with the branch's choice `bidi` substituted for the variable -/
def forbiddenTables (bidi : Table) : List Table :=
  Gen.Saslprep.forbidden.map fun n => if n = Gen.Saslprep.bidiVar then bidi else tableOf n

/-- the `assert not T(c)` statements -/
def assertTables : List Table := Gen.Saslprep.assertTables.map tableOf

/-- body of `for c in data:` for one character -/
def checkChar (forb : List Table) (c : Nat) : Res Unit :=
  if assertTables.any (inTable · c) then .error .assertionError
  else if forb.any (inTable · c) then .error (errOf Gen.Saslprep.forbiddenRaises)
  else .ok ()

/-- `for c in data: …` -/
def checkLoop (forb : List Table) : List Nat → Res Unit
  | [] => .ok ()
  | c :: cs =>
    match checkChar forb c with
    | .error e => .error e
    | .ok () => checkLoop forb cs

/-- the bidi initialisation: which table the loop forbids, or the malformed-sequence error -/
def bidiInit (data : List Nat) : Res Table :=
  match pyIndex data Gen.Saslprep.bidiFirstIdx with
  | none => .error .indexError
  | some first =>
    if inTable (tableOf Gen.Saslprep.ralTable) first then
      match pyIndex data Gen.Saslprep.bidiLastIdx with
      | none => .error .indexError
      | some last =>
        if !inTable (tableOf Gen.Saslprep.ralTable) last then .error (errOf Gen.Saslprep.bidiMalformedRaises)
        else .ok (tableOf Gen.Saslprep.ralBranchForbidden)
    else .ok (tableOf Gen.Saslprep.nonRalBranchForbidden)

/-- everything after `data = unicodedata.normalize("NFKC", data)` -/
def afterNormalize (data : List Nat) : Res (List Nat) :=
  if data.isEmpty then .ok Gen.Saslprep.emptyResult
  else
    match bidiInit data with
    | .error e => .error e
    | .ok bidi =>
      match checkLoop (forbiddenTables bidi) data with
      | .error e => .error e
      | .ok () => .ok data

/-- `saslprep(source)` with `unicodedata.normalize("NFKC", ·)` := `nfkc` -/
def saslprep (nfkc : List Nat → List Nat) (s : List Nat) : Res (List Nat) :=
  afterNormalize (nfkc (mapStage s))

/-- the interpreter's `stringprep` tables in the role of the RFC 3454 appendix tables of `Spec.Saslprep` -/
def rfcTables : Spec.Saslprep.Rfc3454 where
  a1 := Gen.Saslprep.a1
  b1 := Gen.Saslprep.b1
  c12 := Gen.Saslprep.c12
  c21_c22 := Gen.Saslprep.c21_c22
  c3 := Gen.Saslprep.c3
  c4 := Gen.Saslprep.c4
  c5 := Gen.Saslprep.c5
  c6 := Gen.Saslprep.c6
  c7 := Gen.Saslprep.c7
  c8 := Gen.Saslprep.c8
  c9 := Gen.Saslprep.c9
  d1 := Gen.Saslprep.d1
  d2 := Gen.Saslprep.d2

end Model.Saslprep
