/- record reflected for every registered hasher (see tools/extract_units_handlers.py) -/
namespace Model

structure HandlerMeta where
  name : String
  flags : List String            -- mixins in the MRO: HasSalt, HasRawSalt, HasRounds, …
  settingKwds : List String
  contextKwds : List String
  ident : Option String
  idents : List String           -- ident_values (HasManyIdents)
  defaultIdent : Option String
  checksumSize : Option Nat
  checksumChars : Option String  -- name of a charset in `charsets`
  minSalt : Option Nat
  maxSalt : Option Nat
  defaultSalt : Option Nat
  saltChars : Option String      -- name of a charset
  defaultSaltChars : Option String
  minRounds : Option Nat
  maxRounds : Option Nat
  defaultRounds : Option Nat
  roundsCost : Option String
  truncateSize : Option Nat
  truncateError : Bool
  truncateVerifyReject : Bool
  backends : List String
  isWrapper : Bool
  wrappedName : Option String
  wrapPrefix : Option String
  origPrefix : Option String
  isDisabled : Bool
  deriving Repr, DecidableEq

def HandlerMeta.has (m : HandlerMeta) (flag : String) : Bool := m.flags.contains flag

end Model
