/-
Class-table model of `MinimalHandler.using()`: every call creates ONE new class
`type(name, (cls,), {...})` whose own attributes are then assigned; attribute lookup walks the
parent chain (single inheritance along the using() chain).  Used for the isolation (frame)
theorem of C09: nothing that existed before a call can observe it.
-/
namespace Model.ClassTable

abbrev Attrs := List (String × Int)

structure Entry where
  parent : Option Nat          -- index of the class it was derived from (always smaller)
  own : Attrs                  -- attributes stored on the class itself

abbrev Table := List Entry

def ownLookup (a : String) : Attrs → Option Int
  | [] => none
  | (k, v) :: rest => if k = a then some v else ownLookup a rest

/-- attribute resolution: own dict first, then the parent; `fuel` bounds the chain length -/
def resolve (t : Table) : Nat → Nat → String → Option Int
  | 0, _, _ => none
  | fuel+1, id, a =>
    match t[id]? with
    | none => none
    | some e => match ownLookup a e.own with
      | some v => some v
      | none => match e.parent with
        | none => none
        | some p => resolve t fuel p a

/-- `cls.using(**settings)`: append one subclass of `parent` holding `settings` -/
def derive (t : Table) (parent : Nat) (settings : Attrs) : Table × Nat := (t ++ [⟨some parent, settings⟩], t.length)

/-- well-formed: parents point backwards -/
def WF (t : Table) : Prop := ∀ (i : Nat) (e : Entry), t[i]? = some e → ∀ p, e.parent = some p → p < i

end Model.ClassTable
