import PasslibVerif.Py.Basic
import PasslibVerif.Py.Int
import PasslibVerif.Model.Handler
import PasslibVerif.Model.Rng
import PasslibVerif.Gen.UsingBool
import PasslibVerif.Py.Str
import PasslibVerif.Gen.PyUnicode
/-
Model of the non-rounds settings of `using()` (passlib/utils/handlers.py), statement by statement:

  * `HasSalt.using(default_salt_size=, salt_size=, salt=, relaxed=)`, `_clip_to_valid_salt_size`, `_norm_salt`, `_generate_salt`
    and the `assert self._norm_salt(salt) == salt` of `HasSalt.__init__`;
  * `HasManyIdents.using(default_ident=, ident=)` with `_norm_ident` (ident_values, ident_aliases);
  * `TruncateMixin.using(truncate_error=)` with `as_bool`.

Text salts are lists of code points, raw salts lists of byte values (`saltChars = none`: no alphabet check).
The random source of `_generate_salt` is explicit (`draw` = what `rng.randrange(0, len(chars)**size)` returned).
-/
namespace Model.UsingSalt
open Py Model.Handler

/-- the salt attributes of a hasher class -/
structure SaltCls where
  minSize : Nat                      -- min_salt_size
  maxSize : Option Nat               -- max_salt_size (None = no maximum)
  defaultSize : Nat                  -- default_salt_size
  saltChars : Option (List Nat)      -- salt_chars (None: unchecked / bytes salts)
  defaultChars : List Nat            -- default_salt_chars
  fixedSalt : Option Str := none     -- `_generate_salt = staticmethod(lambda: salt)` after `using(salt=…)`
  deriving DecidableEq, Repr

/-- a size argument as the caller may pass it: an int, or a string (CryptContext options read from INI text) -/
inductive SizeArg
  | int (n : Int)
  | str (s : Str)
  deriving DecidableEq, Repr

/-- Python truthiness of `max_salt_size` in `if mx and …` -/
def mxTruthy : Option Nat → Option Nat
  | some 0 => none
  | x => x

/-- `_clip_to_valid_salt_size(salt_size, relaxed=relaxed)` -/
def clip (c : SaltCls) (relaxed : Bool) (n : Int) : Res Nat :=
  if c.maxSize = some c.minSize then
    -- `if mn == mx:` … `return mn`
    if n ≠ (c.minSize : Int) ∧ !relaxed then .error .valueError else .ok c.minSize
  else
    -- `if salt_size < mn:`
    let r1 : Res Int := if n < (c.minSize : Int) then (if relaxed then .ok (c.minSize : Int) else .error .valueError) else .ok n
    match r1 with
    | .error e => .error e
    | .ok v =>
      -- `if mx and salt_size > mx:`
      match mxTruthy c.maxSize with
      | some mx => if v > (mx : Int) then (if relaxed then .ok mx else .error .valueError) else .ok v.toNat
      | none => .ok v.toNat

/-- `_norm_salt(salt, relaxed)` for a salt of the right Python type -/
def normSaltCls (c : SaltCls) (relaxed : Bool) (salt : Str) : Res Str :=
  match normSalt c.saltChars c.minSize c.maxSize relaxed salt with
  | some s => .ok s
  | none => .error .valueError

/-- the keyword arguments `HasSalt.using` looks at -/
structure SaltArgs where
  defaultSaltSize : Option SizeArg := none
  saltSize : Option SizeArg := none
  salt : Option Str := none
  relaxed : Bool := false

/-- `int(default_salt_size)` when a string was passed -/
def sizeValue : SizeArg → Res Int
  | .int n => .ok n
  | .str s => match pyIntOfStr s with | some v => .ok v | none => .error .valueError

/-- `HasSalt.using(...)` in statement order (the `super().using(**kwds)` call in between belongs to the other mixins) -/
def usingSalt (c : SaltCls) (a : SaltArgs) : Res SaltCls :=
  -- alias resolution
  let size : Res (Option SizeArg) :=
    match a.saltSize with
    | some s => if a.defaultSaltSize.isSome then .error .typeError else .ok (some s)
    | none => .ok a.defaultSaltSize
  match size with
  | .error e => .error e
  | .ok size =>
    -- default_salt_size
    let c1 : Res SaltCls :=
      match size with
      | none => .ok c
      | some sz => match sizeValue sz with
        | .error e => .error e
        | .ok n => match clip c a.relaxed n with
          | .error e => .error e
          | .ok v => .ok { c with defaultSize := v }
    match c1 with
    | .error e => .error e
    | .ok c1 =>
      -- salt
      match a.salt with
      | none => .ok c1
      | some s => match normSaltCls c1 a.relaxed s with
        | .error e => .error e
        | .ok s' => .ok { c1 with fixedSalt := some s' }

/-- `_generate_salt()` -/
def generateSalt (c : SaltCls) (draw : Nat) : Res Str :=
  match c.fixedSalt with
  | some s => .ok s
  | none => Model.Rng.getrandstr c.defaultChars c.defaultSize draw

/-- the salt of a new hash: `HasSalt.__init__` with `use_defaults` — generate, then `assert self._norm_salt(salt) == salt` -/
def initSalt (c : SaltCls) (draw : Nat) : Res Str :=
  match generateSalt c draw with
  | .error e => .error e
  | .ok s => if normSaltCls c false s = .ok s then .ok s else .error .assertionError

/-! ### identifiers -/

structure IdentCls where
  values : List Str                      -- ident_values
  aliases : List (Str × Str)             -- ident_aliases
  default : Str                          -- default_ident
  deriving DecidableEq, Repr

/-- `_norm_ident(ident)` -/
def normIdent (c : IdentCls) (x : Str) : Res Str :=
  if c.values.contains x then .ok x
  else match c.aliases.lookup x with
    | some v => if c.values.contains v then .ok v else .error .valueError
    | none => .error .valueError

/-- `HasManyIdents.using(default_ident=, ident=)` -/
def usingIdent (c : IdentCls) (defaultIdent ident : Option Str) : Res IdentCls :=
  let d : Res (Option Str) :=
    match ident with
    | some i => if defaultIdent.isSome then .error .typeError else .ok (some i)
    | none => .ok defaultIdent
  match d with
  | .error e => .error e
  | .ok none => .ok c
  | .ok (some x) => match normIdent c x with
    | .error e => .error e
    | .ok v => .ok { c with default := v }

/-! ### truncation policy -/

/-- the values `TruncateMixin.using(truncate_error=…)` may receive -/
inductive BoolArg
  | none                 -- keyword absent / None
  | bool (b : Bool)
  | str (s : Str)        -- text as read from a configuration file
  deriving DecidableEq, Repr

/-- `str.strip()`: the interpreter's `str.isspace` table is reflected by the translator -/
def isWs (c : Nat) : Bool := Gen.PyUnicode.isspace.contains c
def strip (s : Str) : Str := ((s.dropWhile isWs).reverse.dropWhile isWs).reverse

/-- the word sets are read from the source on every run (`_true_set`, `_false_set`, `_none_set`) -/
def trueSet : List Str := Gen.UsingBool.trueSet
def falseSet : List Str := Gen.UsingBool.falseSet
def noneSet : List Str := Gen.UsingBool.noneSet

/-- `as_bool(value, none=None)`: `clean = value.lower().strip()` with the full `str.lower` model of `Py.Str` -/
def asBool : BoolArg → Res (Option Bool)
  | .none => .ok none
  | .bool b => .ok (some b)
  | .str s =>
    let clean := strip (Py.pyLower s)
    if trueSet.contains clean then .ok (some true)
    else if falseSet.contains clean then .ok (some false)
    else if noneSet.contains clean then .ok none
    else .error .valueError

/-- `TruncateMixin.using(truncate_error=…)`: the new class's `truncate_error` (parent's value when not set) -/
def usingTruncate (parent : Bool) (a : BoolArg) : Res Bool :=
  match a with
  | .none => .ok parent
  | a => match asBool a with
    | .error e => .error e
    | .ok (some b) => .ok b
    | .ok none => .ok parent

end Model.UsingSalt
