import PasslibVerif.Model.Handler
import PasslibVerif.Gen.B64
/-
md5_crypt / apr_md5_crypt (`$1$`, `$apr1$`: parse_mc2) and sha256_crypt / sha512_crypt
(`$5$`, `$6$`: optional `rounds=N$`, implicit 5000).  from_string / to_string / identify.
-/
namespace Model.Formats
open Py Model.Handler

structure Format where
  name : String
  parse : Str → Option Parsed        -- from_string (none = ValueError)
  render : Parsed → Str              -- to_string
  identify : Str → Bool

def h64 : List Nat := Gen.B64.HASH64_CHARS

/-- `GenericHandler.identify` for ident-based hashers -/
def identByPrefix (ident : Str) (h : Str) : Bool := !h.isEmpty && ident.isPrefixOf h

/-- optional checksum through `_norm_checksum` -/
def normChkOpt (size : Option Nat) (chars : Option (List Nat)) : Option Str → Option (Option Str)
  | none => some none
  | some c => (normChecksum size chars c).map some

/-! ### md5_crypt family -/
def md5Parse (ident : Str) (h : Str) : Option Parsed :=
  (parseMc2 ident h).bind fun (salt, chk) =>
  (normChkOpt (some 22) (some h64) chk).bind fun chk' =>
  (normSalt (some h64) 0 (some 8) false salt).map fun s =>
    { ident := ident, salt := some s, checksum := chk' }

def md5Render (p : Parsed) : Str := renderMc2 p.ident (p.salt.getD []) p.checksum

def md5Format (name : String) (ident : Str) : Format := ⟨name, md5Parse ident, md5Render, identByPrefix ident⟩
def md5_crypt : Format := md5Format "md5_crypt" (ofString "$1$")
def apr_md5_crypt : Format := md5Format "apr_md5_crypt" (ofString "$apr1$")

/-! ### sha256_crypt / sha512_crypt -/
def ROUNDS_PREFIX : Str := ofString "rounds="

def implicitFlag (b : Bool) : List (String × Str) := [("implicit_rounds", if b then [49] else [48])]

/-- the optional leading `rounds=N` part: (rounds, implicit?, remaining parts) -/
def sha2Rounds (parts : List Str) : Option (Int × Bool × List Str) :=
  match parts with
  | first :: rest =>
    if ROUNDS_PREFIX.isPrefixOf first then
      let r := first.drop 7
      if zeroPadded r then none else (intField r).map fun n => (n, false, rest)
    else some (5000, true, first :: rest)
  | [] => none

def sha2Parse (ident : Str) (chkSize : Nat) (h : Str) : Option Parsed :=
  (stripPrefix ident h).bind fun body =>
  (sha2Rounds (splitChar DOLLAR body)).bind fun (rounds, implicit, rest) =>
  (match rest with
    | [salt, chk] => some (salt, orNone chk)
    | [salt] => some (salt, none)
    | _ => none).bind fun (salt, chk) =>
  -- GenericHandler.__init__ (checksum) runs first, then HasRounds / HasSalt with relaxed = (checksum is None)
  (normChkOpt (some chkSize) (some h64) chk).bind fun chk' =>
  (normSalt (some h64) 0 (some 16) chk'.isNone salt).bind fun s =>
  (normRounds 1000 (some 999999999) chk'.isNone rounds).map fun r =>
    { ident := ident, rounds := some r, salt := some s, checksum := chk', extra := implicitFlag implicit }

def sha2Render (p : Parsed) : Str :=
  let salt := p.salt.getD []
  let chk := p.checksum.getD []
  if p.rounds = some 5000 ∧ p.extra = implicitFlag true then p.ident ++ salt ++ DOLLAR :: chk
  else p.ident ++ ROUNDS_PREFIX ++ fmtDec (p.rounds.getD 0) ++ DOLLAR :: (salt ++ DOLLAR :: chk)

def sha256_crypt : Format := ⟨"sha256_crypt", sha2Parse (ofString "$5$") 43, sha2Render, identByPrefix (ofString "$5$")⟩
def sha512_crypt : Format := ⟨"sha512_crypt", sha2Parse (ofString "$6$") 86, sha2Render, identByPrefix (ofString "$6$")⟩

def all : List Format := [md5_crypt, apr_md5_crypt, sha256_crypt, sha512_crypt]

end Model.Formats
