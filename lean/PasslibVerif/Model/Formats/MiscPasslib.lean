import PasslibVerif.Model.Formats.MiscBase
/-
passlib.handlers.scrypt / fshp / argon2 and the django_argon2 prefix wrapper:
`from_string`, `to_string`, `identify`, including the constructor chain
(GenericHandler → HasManyIdents → HasRawSalt → HasRounds → ParallelismMixin → own `__init__`).
Salts and checksums are raw bytes.  Integers in `Parsed.extra` are one-element lists.
-/
namespace Model.Formats
open Py Model.Handler

/-! ## scrypt -/
def IDENT_SCRYPT : Str := ofString "$scrypt$"
def IDENT_7 : Str := ofString "$7$"

def scryptExtra (block par : Nat) : List (String × Str) := [("block_size", natField block), ("parallelism", natField par)]

/-- `cls(ident=…, rounds=…, block_size=…, parallelism=…, salt=…, checksum=…)`: every guard raises ValueError
    (checksum_size 32, max_salt_size 1024, rounds 1..31, parallelism ≥ 1, block_size ≥ 1) -/
def scryptInit (ident : Str) (rounds block par : Int) (salt : Bytes) (chk : Option Bytes) : Res (Option Parsed) :=
  if (match chk with | some c => c.length != 32 | none => false) then vErr
  else if salt.length > 1024 then vErr
  else if rounds < 1 ∨ rounds > 31 then vErr
  else if par < 1 then vErr
  else if block < 1 then vErr
  else .ok (some { ident := ident, rounds := some rounds, salt := some salt, checksum := chk,
                   extra := scryptExtra block.toNat par.toNat })

/-- `_parse_scrypt_string`:  ln=<N>,r=<r>,p=<p>$<salt>[$<digest>] -/
def scryptParseScrypt (suffix : Str) : Res (Option Parsed) :=
  resBind (match splitChar DOLLAR suffix with
    | [params, salt, digest] => .ok (params, salt, some digest)
    | [params, salt] => .ok (params, salt, none)
    | _ => vErr) fun (params, salt, digest) =>
  resBind (match splitChar 44 params with
    | [n, b, p] =>
      if startsWith (ofString "ln=") n && startsWith (ofString "r=") b && startsWith (ofString "p=") p
      then .ok (n.drop 3, b.drop 2, p.drop 2) else vErr
    | _ => vErr) fun (n, b, p) =>
  -- the dict is built left to right: int(), int(), int(), b64s_decode(salt), b64s_decode(digest)
  resBind (pyInt n) fun rounds =>
  resBind (pyInt b) fun block =>
  resBind (pyInt p) fun par =>
  resBind (b64sDecodeS salt) fun saltB =>
  resBind (match digest with
    | some d => if d.isEmpty then .ok none else (b64sDecodeS d).map some
    | none => .ok none) fun chk =>
  scryptInit IDENT_SCRYPT rounds block par saltB chk

/-- `_parse_7_string`:  <N:1><r:5><p:5><salt…>[$<digest>]  (h64, little endian) -/
def scryptParse7 (suffix : Str) : Res (Option Parsed) :=
  if !mIsAscii suffix then vErr            -- suffix.encode("ascii")
  else
  resBind (match splitChar DOLLAR suffix with
    | [params, digest] => .ok (params, some digest)
    | [params] => .ok (params, none)
    -- `raise uh.exc.MalformedHashError(cls)` (a ValueError)
    | _ => vErr) fun (params, digest) =>
  if params.length < 11 then vErr
  else
  resBind (Model.B64.decodeInt6 Model.B64.h64 (params.take 1)) fun rounds =>
  resBind (Model.B64.decodeInt Model.B64.h64 ((params.drop 1).take 5) 30) fun block =>
  resBind (Model.B64.decodeInt Model.B64.h64 ((params.drop 6).take 5) 30) fun par =>
  resBind (match digest with
    | some d => if d.isEmpty then .ok none else (Model.B64.decodeBytes Model.B64.h64 d).map some
    | none => .ok none) fun chk =>
  scryptInit IDENT_7 (Int.ofNat rounds) (Int.ofNat block) (Int.ofNat par) (params.drop 11) chk

/-- `scrypt.from_string` = `cls(**cls.parse(hash))`; `_parse_ident` tries "$scrypt$" then "$7$" -/
def scryptParse (h : Str) : Res (Option Parsed) :=
  match stripPrefix IDENT_SCRYPT h with
  | some suffix => scryptParseScrypt suffix
  | none => match stripPrefix IDENT_7 h with
    | some suffix => scryptParse7 suffix
    | none => vErr

def extraNat (p : Parsed) (k : String) : Nat :=
  match p.extra.find? (·.1 = k) with | some (_, [n]) => n | _ => 0

/-- `scrypt.to_string` -/
def scryptRender (p : Parsed) : Res Str :=
  let salt := p.salt.getD []
  let block := extraNat p "block_size"
  let par := extraNat p "parallelism"
  if p.ident = IDENT_SCRYPT then
    match p.checksum with
    | none => tErr                                   -- b64s_encode(None)
    | some chk =>
      .ok (IDENT_SCRYPT ++ (ofString "ln=" ++ fmtDec (p.rounds.getD 0) ++ (ofString ",r=" ++ fmtDec block ++ (ofString ",p=" ++ fmtDec par ++
        DOLLAR :: (Model.B64.b64sEncode salt ++ DOLLAR :: Model.B64.b64sEncode chk)))))
  else
    if !mIsAscii salt then .error .notImplemented
    else if salt.contains DOLLAR then .error .notImplemented   -- the salt is written verbatim: "$" would end the salt field
    else
    resBind (Model.B64.encodeInt6 Model.B64.h64 (p.rounds.getD 0).toNat) fun r6 =>
    resBind (Model.B64.encodeInt30 Model.B64.h64 block) fun b30 =>
    resBind (Model.B64.encodeInt30 Model.B64.h64 par) fun p30 =>
    match p.checksum with
    | none => tErr                                   -- h64.encode_bytes(None)
    | some chk => .ok (IDENT_7 ++ (r6 ++ (b30 ++ (p30 ++ (salt ++ DOLLAR :: Model.B64.encodeBytes Model.B64.h64 chk)))))

def scryptIdentify (h : Str) : Bool := startsWith IDENT_SCRYPT h || startsWith IDENT_7 h

def scrypt : FormatE := ⟨"scrypt", scryptParse, scryptRender, scryptIdentify⟩

/-! ## fshp

    _hash_regex = ^ \{FSHP (\d+)\| (\d+)\| (\d+)\} ([a-zA-Z0-9+/]+={0,3}) $       (re.VERBOSE, `match`)

`\d` is Unicode-aware (str pattern) and `int()` accepts the same digits; one trailing "\n" is tolerated. -/
def FSHP_IDENT : Str := ofString "{FSHP"

def isStdB64Char (c : Nat) : Bool := isAlnum c || c = 43 || c = 47

/-- the four groups of `_hash_regex` -/
def fshpMatch (h : Str) : Option (Str × Str × Str × Str) :=
  (lit FSHP_IDENT h).bind fun r0 =>
  let d1 := r0.takeWhile isUDigit
  if d1.isEmpty then none else
  (lit [124] (r0.dropWhile isUDigit)).bind fun r1 =>
  let d2 := r1.takeWhile isUDigit
  if d2.isEmpty then none else
  (lit [124] (r1.dropWhile isUDigit)).bind fun r2 =>
  let d3 := r2.takeWhile isUDigit
  if d3.isEmpty then none else
  (lit [125] (r2.dropWhile isUDigit)).bind fun r3 =>
  let body := r3.takeWhile isStdB64Char
  if body.isEmpty then none else
  let r4 := r3.dropWhile isStdB64Char
  let eqs := r4.takeWhile (· = 61)
  -- `={0,3}` is greedy; a fourth "=" cannot be matched by anything that follows
  if eqs.length ≤ 3 && atEnd (r4.dropWhile (· = 61)) then some (d1, d2, d3, body ++ eqs) else none

def fshpChecksumSize (variant : Int) : Option Nat :=
  if variant = 0 then some 20 else if variant = 1 then some 32 else if variant = 2 then some 48
  else if variant = 3 then some 64 else none

def fshpParse (h : Str) : Res (Option Parsed) :=
  match fshpMatch h with
  | none => vErr
  | some (d1, d2, d3, data) =>
    resBind (pyInt d1) fun variant =>
    resBind (pyInt d2) fun saltSize =>
    resBind (pyInt d3) fun rounds =>
    resBind (stdB64Decode data) fun raw =>          -- binascii.Error is a ValueError
    let salt := raw.take saltSize.toNat
    let chk := raw.drop saltSize.toNat
    -- fshp.__init__: variant first, then checksum size, (salt: no limits), rounds 1..2^32-1
    match fshpChecksumSize variant with
    | none => vErr
    | some sz =>
      if chk.length ≠ sz then vErr
      else if rounds < 1 ∨ rounds > 4294967295 then vErr
      else .ok (some { ident := FSHP_IDENT, rounds := some rounds, salt := some salt, checksum := some chk,
                       extra := [("variant", natField variant.toNat)] })

/-- "{FSHP%d|%d|%d}%s" % (variant, len(salt), rounds, b64encode(salt + chk)) -/
def fshpRender (p : Parsed) : Res Str :=
  match p.checksum with
  | none => tErr
  | some chk =>
    let salt := p.salt.getD []
    .ok (FSHP_IDENT ++ (fmtDec (extraNat p "variant") ++ 124 :: (fmtDec salt.length ++ 124 :: (fmtDec (p.rounds.getD 0) ++ 125 ::
      stdB64Encode (salt ++ chk)))))

def fshp : FormatE := ⟨"fshp", fshpParse, fshpRender, identByPrefix FSHP_IDENT⟩

/-! ## argon2  (format only)

    _hash_regex (bytes pattern, re.VERBOSE, `match`) =
      ^ \$argon2(?P<type>[a-z]+)\$ (?: v=(?P<version>\d+) \$ )?
        m=(?P<memory_cost>\d+) , t=(?P<time_cost>\d+) , p=(?P<parallelism>\d+)
        (?: ,keyid=(?P<keyid>[^,$]+) )? (?: ,data=(?P<data>[^,$]+) )?
        (?: \$ (?P<salt>[^$]+) (?: \$ (?P<digest>.+) )? )? $

The subject is `hash.encode("utf-8")`, so `\d` and `[a-z]` are ASCII and every non-ASCII character is a run of
bytes ≥ 0x80.  No alternative ever succeeds after the greedy choice fails (each group is delimited by characters its
own class excludes), so the recogniser is deterministic.  Note `[^,$]` and `[^$]` match "\n" but `.` does not. -/

structure Argon2Groups where
  type : Bytes
  version : Option Bytes
  memory : Bytes
  time : Bytes
  par : Bytes
  keyid : Option Bytes
  data : Option Bytes
  salt : Option Bytes
  digest : Option Bytes

/-- `key=\d+` -/
def argonNum (key : Str) (r : Bytes) : Option (Bytes × Bytes) :=
  (lit key r).bind fun r1 =>
    let ds := r1.takeWhile isADigit
    if ds.isEmpty then none else some (ds, r1.dropWhile isADigit)

/-- optional `,key=[^,$]+` -/
def argonOpt (key : Str) (r : Bytes) : Option Bytes × Bytes :=
  match lit key r with
  | none => (none, r)
  | some r1 =>
    let v := r1.takeWhile (fun c => c ≠ 44 && c ≠ DOLLAR)
    if v.isEmpty then (none, r) else (some v, r1.dropWhile (fun c => c ≠ 44 && c ≠ DOLLAR))

/-- `(?: \$ salt (?: \$ digest )? )? $` -/
def argonTail (r : Bytes) : Option (Option Bytes × Option Bytes) :=
  match r with
  | 36 :: r1 =>
    let salt := r1.takeWhile (· ≠ DOLLAR)
    if salt.isEmpty then none
    else match r1.dropWhile (· ≠ DOLLAR) with
      | [] => some (some salt, none)                 -- `[^$]+` swallowed a trailing newline too
      | _ :: r2 =>
        let dg := r2.takeWhile isDot
        if dg.isEmpty then none
        else if atEnd (r2.dropWhile isDot) then some (some salt, some dg) else none
  | _ => if atEnd r then some (none, none) else none

/-- `(?: v=(?P<version>\d+) \$ )?` — when the text starts with "v=" the group must match (nothing else can consume it) -/
def argonVersion (r1 : Bytes) : Option (Option Bytes × Bytes) :=
  match lit (ofString "v=") r1 with
  | some _ => (argonNum (ofString "v=") r1).bind fun (v, r2) => (lit [DOLLAR] r2).map fun r3 => (some v, r3)
  | none => some (none, r1)

def argonMatch (h : Bytes) : Option Argon2Groups :=
  (lit (ofString "$argon2") h).bind fun r0 =>
  let ty := r0.takeWhile isLower
  if ty.isEmpty then none else
  (lit [DOLLAR] (r0.dropWhile isLower)).bind fun r1 =>
  (argonVersion r1).bind fun (ver, r2) =>
  (argonNum (ofString "m=") r2).bind fun (m, r3) =>
  (argonNum (ofString ",t=") r3).bind fun (t, r4) =>
  (argonNum (ofString ",p=") r4).bind fun (p, r5) =>
  let (keyid, r6) := argonOpt (ofString ",keyid=") r5
  let (data, r7) := argonOpt (ofString ",data=") r6
  (argonTail r7).map fun (salt, dg) => ⟨ty, ver, m, t, p, keyid, data, salt, dg⟩

def argon2Types : List Str := [ofString "id", ofString "i", ofString "d"]

def optDecode : Option Bytes → Res (Option Bytes)
  | none => .ok none
  | some b => (b64sDecodeB b).map some

/-- `argon2.from_string`.  `backend = false` is this host (no argon2 backend: `_norm_version` raises
    MissingBackendError from `get_backend()`); `backend = true` is the same code with a loaded backend whose
    `max_version` is 0x13. -/
def argon2Parse (backend : Bool) (hs : Str) : Res (Option Parsed) :=
  match argonMatch (utf8 hs) with
  | none => vErr
  | some g =>
    if g.keyid.isSome then .error .notImplemented
    else
    -- keyword arguments are evaluated left to right: ints (ASCII digits: cannot fail), salt, data, checksum
    resBind (match g.version with | some v => pyInt v | none => .ok 16) fun version =>
    resBind (pyInt g.memory) fun memory =>
    resBind (pyInt g.time) fun rounds =>
    resBind (pyInt g.par) fun par =>
    resBind (optDecode g.salt) fun salt =>
    resBind (optDecode g.data) fun data =>
    resBind (optDecode g.digest) fun chk =>
    -- __init__: checksum_size := len(checksum); HasRawSalt (TypeError when absent, min 8); rounds; parallelism;
    -- type; version; memory_cost
    match salt with
    | none => tErr
    | some saltB =>
      if saltB.length < 8 then vErr
      else if rounds < 1 ∨ rounds > 4294967295 then vErr
      else if par < 1 then vErr
      else if !argon2Types.contains g.type then vErr
      else if version < 19 ∧ version ≠ 16 then vErr
      else if !backend then .error .missingBackend
      else if version > 19 then vErr
      else if memory < 8 then vErr
      else .ok (some { ident := [], rounds := some rounds, salt := some saltB, checksum := chk,
                       extra := [("type", g.type), ("version", natField version.toNat), ("memory_cost", natField memory.toNat),
                                 ("parallelism", natField par.toNat), ("data", match data with | some d => 49 :: d | none => [48])] })

def extraStr (p : Parsed) (k : String) : Str :=
  match p.extra.find? (·.1 = k) with | some (_, v) => v | none => []

/-- `argon2.to_string` -/
def argon2Render (p : Parsed) : Res Str :=
  let version := extraNat p "version"
  let vstr := if version = 16 then [] else ofString "v=" ++ fmtDec version ++ [DOLLAR]
  let data := (extraStr p "data").drop 1
  let kdstr := if data.isEmpty then [] else ofString ",data=" ++ Model.B64.b64sEncode data
  match p.checksum with
  | none => tErr
  | some chk =>
    .ok (ofString "$argon2" ++ (extraStr p "type" ++ DOLLAR :: (vstr ++ (ofString "m=" ++ fmtDec (extraNat p "memory_cost") ++
      (ofString ",t=" ++ fmtDec (p.rounds.getD 0) ++ (ofString ",p=" ++ fmtDec (extraNat p "parallelism") ++ (kdstr ++
      DOLLAR :: (Model.B64.b64sEncode (p.salt.getD []) ++ DOLLAR :: Model.B64.b64sEncode chk))))))))

/-- `_ident_regex = ^\$argon2[a-z]+\$` (str pattern, `match`) -/
def argon2Identify (h : Str) : Bool :=
  match lit (ofString "$argon2") h with
  | none => false
  | some r => !(r.takeWhile isLower).isEmpty && (r.dropWhile isLower).head? = some DOLLAR

def argon2 : FormatE := ⟨"argon2", argon2Parse false, argon2Render, argon2Identify⟩
/-- the same code with `get_backend()` answering (a stub subclass in the harness) -/
def argon2_stub : FormatE := ⟨"argon2_stub", argon2Parse true, argon2Render, argon2Identify⟩

/-! ## django_argon2 = PrefixWrapper(argon2.using(type="I"), prefix="argon2") -/
def DJANGO_ARGON2_PREFIX : Str := ofString "argon2"

def djangoArgon2Parse (backend : Bool) (h : Str) : Res (Option Parsed) :=
  match stripPrefix DJANGO_ARGON2_PREFIX h with          -- `_unwrap_hash`
  | none => vErr
  | some inner => argon2Parse backend inner

def djangoArgon2Render (p : Parsed) : Res Str := (argon2Render p).map (DJANGO_ARGON2_PREFIX ++ ·)   -- `_wrap_hash`

def djangoArgon2Identify (h : Str) : Bool :=
  match stripPrefix DJANGO_ARGON2_PREFIX h with
  | none => false
  | some inner => argon2Identify inner

def django_argon2 : FormatE := ⟨"django_argon2", djangoArgon2Parse false, djangoArgon2Render, djangoArgon2Identify⟩
def django_argon2_stub : FormatE := ⟨"django_argon2_stub", djangoArgon2Parse true, djangoArgon2Render, djangoArgon2Identify⟩

def passlibMiscAllE : List FormatE := [scrypt, fshp, argon2, argon2_stub, django_argon2, django_argon2_stub]

end Model.Formats
