import PasslibVerif.Model.Formats.Md5Sha2
import PasslibVerif.Model.B64
/-
Shared pieces of the "Misc" format family (scrypt, scram, fshp, argon2, django_argon2 and the libpass
inspection helpers):

* `FormatE` — a format whose parser distinguishes WHICH exception escapes (`Res`) and "returns None"
  (`Option`), and whose renderer may fail (`to_string()` of a config-only object raises TypeError).
  `FormatE.toFormat` forgets the error kind and gives the family-independent `Format`.
* `a2b` — CPython 3.12 `binascii.a2b_base64(data)` in its default (non-strict) mode, including the lenient
  skipping of foreign characters and the `=` handling; `b64sDecodeB` / `ab64DecodeB` / `stdB64Decode`
  are passlib's `b64s_decode` / `ab64_decode` and `base64.b64decode` on top of it.
* small scanners used by the hand-transcribed regular expressions.
-/
namespace Model.Formats
open Py Model.Handler

structure FormatE where
  name : String
  parseE : Str → Res (Option Parsed)     -- `.ok none` = the function returns None (libpass inspectors)
  renderE : Parsed → Res Str
  identify : Str → Bool

def FormatE.toFormat (f : FormatE) : Format :=
  ⟨f.name,
   fun s => match f.parseE s with | .ok (some p) => some p | _ => none,
   fun p => match f.renderE p with | .ok s => s | .error _ => [],
   f.identify⟩

def vErr {α} : Res α := .error .valueError
def tErr {α} : Res α := .error .typeError

/-- integers inside `Parsed.extra` are stored as one-element lists -/
def natField (n : Nat) : Str := [n]

/-- `int(s)`.  Not modelled: CPython's conversion limit (more than 4300 digits raise ValueError in `int()` and `str()`);
    no correspondence case has such a number. -/
def pyInt (s : Str) : Res Int := match pyIntOfStr s with | some v => .ok v | none => vErr

/-- `s.encode("ascii")` succeeds -/
def mIsAscii (s : Str) : Bool := s.all (· < 128)

/-- `str.startswith` -/
def startsWith (pfx s : Str) : Bool := pfx.isPrefixOf s

/-! ### binascii.a2b_base64 (CPython 3.12, strict_mode = False)

State: `qp` = quad_pos, `left` = leftchar, `pads`.  Output bytes are consed in front of the recursive result.
`none` = binascii.Error ("Incorrect padding" / "… cannot be 1 more than a multiple of 4"). -/
def b64val (c : Nat) : Option Nat := Model.B64.decode64 Spec.Rfc4648.stdAlphabet c

def mA2bGo : List Nat → Nat → Nat → Nat → Option Bytes
  | [], qp, _, _ => if qp = 0 then some [] else none
  | c :: cs, qp, left, pads =>
    if c = 61 then
      -- `if (quad_pos >= 2 && quad_pos + ++pads >= 4) goto done; continue;`
      if qp ≥ 2 then (if qp + (pads + 1) ≥ 4 then some [] else mA2bGo cs qp left (pads + 1))
      else mA2bGo cs qp left pads
    else match b64val c with
      | none => mA2bGo cs qp left pads                       -- foreign character: skipped
      | some v =>
        if qp = 0 then mA2bGo cs 1 v 0
        else if qp = 1 then (mA2bGo cs 2 (v % 16) 0).map ((left * 4 + v / 16) :: ·)
        else if qp = 2 then (mA2bGo cs 3 (v % 4) 0).map ((left * 16 + v / 4) :: ·)
        else (mA2bGo cs 0 0 0).map ((left * 64 + v) :: ·)

def a2b (data : Bytes) : Option Bytes := mA2bGo data 0 0 0

/-- `base64.b64decode(data)` (validate=False): binascii.Error is a ValueError -/
def stdB64Decode (data : Bytes) : Res Bytes := match a2b data with | some b => .ok b | none => vErr

/-- `b64s_decode(data)` on BYTES: re-pad, `a2b_base64`, binascii.Error → TypeError -/
def b64sDecodeB (data : Bytes) : Res Bytes :=
  let off := data.length % 4
  if off = 1 then vErr
  else match a2b (if off = 2 then data ++ [61, 61] else if off = 3 then data ++ [61] else data) with
    | some b => .ok b
    | none => tErr

/-- `b64s_decode(s.encode("ascii"))` / `b64s_decode(s)` on a str: non-ASCII → ValueError -/
def b64sDecodeS (s : Str) : Res Bytes := if mIsAscii s then b64sDecodeB s else vErr

/-- `ab64_decode(s.encode("ascii"))` -/
def ab64DecodeS (s : Str) : Res Bytes := if mIsAscii s then b64sDecodeB (s.map Model.B64.dotToPlus) else vErr

/-- RFC 4648 with padding: `base64.b64encode` -/
def stdB64Encode (bs : Bytes) : Bytes := Spec.Rfc4648.base64 bs

/-! ### scanners -/
/-- `\d` of a str pattern: Unicode decimal digit (category Nd) -/
def isUDigit (c : Nat) : Bool := (decimalValue c).isSome
/-- `\d` of a bytes pattern / `[0-9]` -/
def isADigit (c : Nat) : Bool := 48 ≤ c && c ≤ 57
def isLower (c : Nat) : Bool := 97 ≤ c && c ≤ 122
def isUpper (c : Nat) : Bool := 65 ≤ c && c ≤ 90
/-- `[a-zA-Z0-9]` -/
def isAlnum (c : Nat) : Bool := isLower c || isUpper c || isADigit c
/-- `.` without DOTALL -/
def isDot (c : Nat) : Bool := c ≠ 10

def mNL : Nat := 10

/-- the end anchor `$` of `re.match` (no MULTILINE): at the end, or before a final newline -/
def atEnd (s : Str) : Bool := s = [] || s = [mNL]

/-- maximal run of `p` (what a greedy `p+`/`p*` takes when nothing after it can start with a `p` character) -/
def spanP (p : Nat → Bool) (s : Str) : Str × Str := (s.takeWhile p, s.dropWhile p)

/-- `lit` then continue -/
def lit (l : Str) (s : Str) : Option Str := stripPrefix l s

/-- UTF-8 encoding of a code point (surrogates are not representable and do not occur on the wire) -/
def utf8Cp (c : Nat) : Bytes :=
  if c < 0x80 then [c]
  else if c < 0x800 then [0xC0 + c / 64, 0x80 + c % 64]
  else if c < 0x10000 then [0xE0 + c / 4096, 0x80 + c / 64 % 64, 0x80 + c % 64]
  else [0xF0 + c / 262144, 0x80 + c / 4096 % 64, 0x80 + c / 64 % 64, 0x80 + c % 64]

def utf8 (s : Str) : Bytes := s.flatMap utf8Cp

def resBind {α β} (r : Res α) (f : α → Res β) : Res β := match r with | .ok a => f a | .error e => .error e

/-- Option → Res with ValueError -/
def orV {α} : Option α → Res α | some a => .ok a | none => vErr

end Model.Formats
