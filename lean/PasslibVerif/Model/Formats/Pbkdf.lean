import PasslibVerif.Model.Formats.Md5Sha2
import PasslibVerif.Model.B64
/-
The PBKDF family: sha1_crypt, pbkdf2_{sha1,sha256,sha512} and their LDAP prefix wrappers, cta_pbkdf2_sha1,
dlitz_pbkdf2_sha1, atlassian_pbkdf2_sha1, grub_pbkdf2_sha512 (passlib/handlers/sha1_crypt.py, pbkdf2.py) and
django_salted_{md5,sha1}, django_pbkdf2_{sha1,sha256} (passlib/handlers/django.py).

Several of these decode raw salts / checksums in `from_string` with the C codecs (`binascii.a2b_base64`,
`binascii.pbUnhexlify`).  `a2b_base64` is lenient (it skips foreign characters, stops at a completed pad group) and
passlib's `b64s_decode` converts its `binascii.Error` into a TypeError, so the parsers of this family are given
with their exact error class (`FormatX.parseX : Str → Res Parsed`); `Format.parse` is the projection that
forgets the class.  `to_string` of the raw-checksum handlers raises TypeError on an object without checksum
(`ab64_encode(None)`): `renderX` records that too.
-/
namespace Model.Formats
open Py Model.Handler

/-- a format with exact error classes -/
structure FormatX where
  name : String
  parseX : Str → Res Parsed
  renderX : Parsed → Res Str
  identify : Str → Bool

def FormatX.toFormat (f : FormatX) : Format :=
  ⟨f.name, fun h => (f.parseX h).toOption, fun p => ((f.renderX p).toOption).getD [], f.identify⟩

/-- `text.encode("ascii")` succeeds -/
def isAscii (s : Str) : Bool := s.all (· < 128)

/-! ### `int(s, 16)` and `format(n, "x")` -/

/-- value of a base-16 digit: any Unicode decimal digit (CPython maps them to ASCII first) or an ASCII letter a-f / A-F -/
def hexValue (c : Nat) : Option Nat :=
  match decimalValue c with
  | some d => some d
  | none => if 97 ≤ c ∧ c ≤ 102 then some (c - 87) else if 65 ≤ c ∧ c ≤ 70 then some (c - 55) else none

/-- hexadecimal digits with single underscores strictly between digits -/
def parseHexDigits : List Nat → Option Nat → Bool → Option Nat
  | [], acc, lastUnderscore => if lastUnderscore then none else acc
  | c :: rest, acc, lastUnderscore =>
    if c = 95 then
      (match acc with
        | none => none
        | some _ => if lastUnderscore then none else parseHexDigits rest acc true)
    else match hexValue c with
      | none => none
      | some d => parseHexDigits rest (some ((acc.getD 0) * 16 + d)) false

/-- the optional `0x` / `0X` prefix (one underscore may follow it) -/
def dropHexPrefix (s : List Nat) : List Nat :=
  match s with
  | 48 :: x :: r => if x = 120 ∨ x = 88 then (match r with | 95 :: r' => r' | _ => r) else s
  | _ => s

/-- `int(s, 16)`; `none` = ValueError -/
def pyIntOfStr16 (s : List Nat) : Option Int :=
  match stripSpaces s with
  | [] => none
  | 45 :: rest => (parseHexDigits (dropHexPrefix rest) none false).map fun n => -(n : Int)
  | 43 :: rest => (parseHexDigits (dropHexPrefix rest) none false).map fun n => (n : Int)
  | body => (parseHexDigits (dropHexPrefix body) none false).map fun n => (n : Int)

def numHexDigitsFuel : Nat → Nat → Nat
  | 0, _ => 1
  | fuel+1, v => if v < 16 then 1 else 1 + numHexDigitsFuel fuel (v / 16)

def numHexDigits (v : Nat) : Nat := numHexDigitsFuel v v

def hexDigitChar (d : Nat) : Nat := if d < 10 then 48 + d else 87 + d

/-- digits of `"%x" % v`, most significant first -/
def hexDigits (v : Nat) : List Nat := (Digits.toDigits 16 (numHexDigits v) v).reverse

/-- `f"{n:x}"` -/
def fmtHex (n : Int) : List Nat :=
  if n ≥ 0 then (hexDigits n.toNat).map hexDigitChar else 45 :: (hexDigits (-n).toNat).map hexDigitChar

/-! ### generic `parse_mc3` / `render_mc3` (separator and rounds base as parameters) -/

def parseIntFieldG (hex : Bool) (s : Str) (default : Option Int) : Option Int :=
  if hex then
    (if zeroPadded s then none else if s.isEmpty then default else pyIntOfStr16 s)
  else parseIntField s default

/-- `parse_mc3(hash, prefix, sep, rounds_base, default_rounds)` -/
def parseMc3G (sep : Nat) (hex : Bool) (pfx hash : Str) (defaultRounds : Option Int) : Option (Int × Str × Option Str) :=
  (stripPrefix pfx hash).bind fun body =>
    match splitChar sep body with
    | [rounds, salt, chk] => (parseIntFieldG hex rounds defaultRounds).map fun r => (r, salt, orNone chk)
    | [rounds, salt] => (parseIntFieldG hex rounds defaultRounds).map fun r => (r, salt, none)
    | _ => none

/-- the rounds field of `render_mc3`: `""` for None, else `str(rounds)` / `f"{rounds:x}"` -/
def roundsStr (hex : Bool) : Option Int → Str
  | some n => if hex then fmtHex n else fmtDec n
  | none => []

/-- `render_mc3(ident, rounds, salt, checksum, sep, rounds_base)` -/
def renderMc3G (sep : Nat) (hex : Bool) (ident : Str) (rounds : Option Int) (salt : Str) (chk : Option Str) : Str :=
  let r := roundsStr hex rounds
  match chk with
  | some c => if c.isEmpty then ident ++ (r ++ sep :: salt) else ident ++ (r ++ sep :: (salt ++ sep :: c))
  | none => ident ++ (r ++ sep :: salt)

/-! ### the lenient C decoder `binascii.a2b_base64` (non-strict mode, CPython 3.12) -/

/-- main loop: remaining input, `quad_pos`, `leftchar`, `pads`.  `none` = binascii.Error. -/
def a2bGo : List Nat → Nat → Nat → Nat → Option Bytes
  | [], q, _, _ => if q = 0 then some [] else none
  | c :: rest, q, left, pads =>
    if c = 61 then
      (if q ≥ 2 ∧ q + (pads + 1) ≥ 4 then some []            -- a completed pad group ends the data
       else a2bGo rest q left (if q ≥ 2 then pads + 1 else pads))
    else match Model.B64.decode64 Spec.Rfc4648.stdAlphabet c with
      | none => a2bGo rest q left pads                         -- foreign characters are skipped
      | some v =>
        match q with
        | 0 => a2bGo rest 1 v 0
        | 1 => (a2bGo rest 2 (v % 16) 0).map ((left * 4 + v / 16) :: ·)
        | 2 => (a2bGo rest 3 (v % 4) 0).map ((left * 16 + v / 4) :: ·)
        | _ => (a2bGo rest 0 0 0).map ((left * 64 + v) :: ·)

def a2bBase64 (s : Bytes) : Option Bytes := a2bGo s 0 0 0

/-- `passlib.utils.binary.b64s_decode` on bytes: re-pad, decode, binascii.Error → TypeError -/
def b64sDecodeL (data : Bytes) : Res Bytes :=
  let off := data.length % 4
  if off = 1 then .error .valueError
  else match a2bBase64 (data ++ (if off = 2 then [61, 61] else if off = 3 then [61] else [])) with
    | some b => .ok b
    | none => .error .typeError

/-- `ab64_decode(text.encode("ascii"))` -/
def ab64Field (s : Str) : Res Bytes :=
  if isAscii s then b64sDecodeL (s.map Model.B64.dotToPlus) else .error .valueError

/-- `base64.b64decode(text.encode("ascii"), b"-_")`: every failure is a ValueError (binascii.Error, UnicodeEncodeError) -/
def altToStd (c : Nat) : Nat := if c = 45 then 43 else if c = 95 then 47 else c
def stdToAlt (c : Nat) : Nat := if c = 43 then 45 else if c = 47 then 95 else c

def b64AltField (s : Str) : Option Bytes := if isAscii s then a2bBase64 (s.map altToStd) else none

/-- `base64.b64encode(data, b"-_")` -/
def b64AltEncode (data : Bytes) : Str := (Spec.Rfc4648.base64 data).map stdToAlt

/-- `base64.b64decode(text.encode("ascii"))` -/
def b64StdField (s : Str) : Option Bytes := if isAscii s then a2bBase64 s else none

/-! ### hex codecs -/
def hexNibble (c : Nat) : Option Nat :=
  if 48 ≤ c ∧ c ≤ 57 then some (c - 48)
  else if 97 ≤ c ∧ c ≤ 102 then some (c - 87)
  else if 65 ≤ c ∧ c ≤ 70 then some (c - 55)
  else none

/-- `binascii.pbUnhexlify`; `none` = binascii.Error (a ValueError) -/
def pbUnhexlify : List Nat → Option Bytes
  | [] => some []
  | [_] => none
  | a :: b :: rest =>
    match hexNibble a, hexNibble b, pbUnhexlify rest with
    | some x, some y, some r => some ((x * 16 + y) :: r)
    | _, _, _ => none

def upperHexChar (d : Nat) : Nat := if d < 10 then 48 + d else 55 + d

/-- `hexlify(data).decode("ascii").upper()` -/
def pbHexlifyUpper : Bytes → Str
  | [] => []
  | b :: rest => upperHexChar (b / 16) :: upperHexChar (b % 16) :: pbHexlifyUpper rest

def unhexField (s : Str) : Option Bytes := if isAscii s then pbUnhexlify s else none

/-! ### constructor chain of the raw handlers: GenericHandler (checksum size), HasRawSalt (size), HasRounds -/
def MAX_ROUNDS : Int := 4294967295

def rawInit (ident : Str) (chkSize maxSalt : Nat) (rounds : Int) (salt : Bytes) (chk : Option Bytes) : Option Parsed :=
  (normChkOpt (some chkSize) none chk).bind fun chk' =>
  (normSalt none 0 (some maxSalt) false salt).bind fun s =>
  (normRounds 1 (some MAX_ROUNDS) false rounds).map fun r =>
    { ident := ident, rounds := some r, salt := some s, checksum := chk' }

/-! ### text handlers on `parse_mc3`: GenericHandler (checksum), HasSalt, HasRounds -/
def mc3TextParse (hex : Bool) (ident : Str) (dflt : Option Int) (chkSize : Option Nat) (chkChars : Option (List Nat))
    (saltChars : List Nat) (minSalt : Nat) (maxSalt : Option Nat) (h : Str) : Option Parsed :=
  (parseMc3G DOLLAR hex ident h dflt).bind fun (rounds, salt, chk) =>
  (normChkOpt chkSize chkChars chk).bind fun chk' =>
  (normSalt (some saltChars) minSalt maxSalt false salt).bind fun s =>
  (normRounds 1 (some MAX_ROUNDS) false rounds).map fun r =>
    { ident := ident, rounds := some r, salt := some s, checksum := chk' }

def mc3TextRender (hex : Bool) (p : Parsed) : Str := renderMc3G DOLLAR hex p.ident p.rounds (p.salt.getD []) p.checksum

/-! ### sha1_crypt -/
def SHA1C_IDENT : Str := ofString "$sha1$"

def sha1cParse : Str → Option Parsed := mc3TextParse false SHA1C_IDENT none (some 28) (some h64) h64 0 (some 64)
def sha1cRender : Parsed → Str := mc3TextRender false

def sha1_cryptX : FormatX := ⟨"sha1_crypt", fun h => toRes (sha1cParse h), fun p => .ok (sha1cRender p), identByPrefix SHA1C_IDENT⟩

/-! ### raw handlers on `parse_mc3`: an encoded salt / checksum is decoded in `from_string` (before the constructor
runs), and encoded again in `to_string` -/
def optField (f : Str → Res Bytes) : Option Str → Res (Option Bytes)
  | none => .ok none
  | some c => (f c).map some

def rawMc3ParseX (sep : Nat) (hex : Bool) (ident : Str) (chkSize : Nat) (dec : Str → Res Bytes) (h : Str) : Res Parsed :=
  (toRes (parseMc3G sep hex ident h none)).bind fun (rounds, salt, chk) =>
  (dec salt).bind fun saltB =>
  (optField dec chk).bind fun chkB =>
  toRes (rawInit ident chkSize 1024 rounds saltB chkB)

def rawMc3RenderX (sep : Nat) (hex : Bool) (enc : Bytes → Str) (p : Parsed) : Res Str :=
  match p.checksum with
  | none => .error .typeError                                   -- ab64_encode(None) / b64encode(None) / hexlify(None)
  | some c => .ok (renderMc3G sep hex p.ident p.rounds (enc (p.salt.getD [])) (some (enc c)))

/-! ### pbkdf2_sha1 / pbkdf2_sha256 / pbkdf2_sha512 (adapted base64 of raw salt and checksum) -/
def pbkdf2ParseX (ident : Str) (chkSize : Nat) : Str → Res Parsed := rawMc3ParseX DOLLAR false ident chkSize ab64Field
def pbkdf2RenderX : Parsed → Res Str := rawMc3RenderX DOLLAR false Model.B64.ab64Encode

def pbkdf2X (name : String) (ident : Str) (chkSize : Nat) : FormatX :=
  ⟨name, pbkdf2ParseX ident chkSize, pbkdf2RenderX, identByPrefix ident⟩

def PBKDF2_SHA1_IDENT : Str := ofString "$pbkdf2$"
def PBKDF2_SHA256_IDENT : Str := ofString "$pbkdf2-sha256$"
def PBKDF2_SHA512_IDENT : Str := ofString "$pbkdf2-sha512$"

def pbkdf2_sha1X : FormatX := pbkdf2X "pbkdf2_sha1" PBKDF2_SHA1_IDENT 20
def pbkdf2_sha256X : FormatX := pbkdf2X "pbkdf2_sha256" PBKDF2_SHA256_IDENT 32
def pbkdf2_sha512X : FormatX := pbkdf2X "pbkdf2_sha512" PBKDF2_SHA512_IDENT 64

/-! ### PrefixWrapper (ldap_pbkdf2_*): `_unwrap_hash` → wrapped handler → `_wrap_hash` -/
def wrapParseX (pfx orig : Str) (inner : Str → Res Parsed) (h : Str) : Res Parsed :=
  match stripPrefix pfx h with
  | none => .error .valueError
  | some rest => inner (orig ++ rest)

def wrapRenderX (pfx orig : Str) (inner : Parsed → Res Str) (p : Parsed) : Res Str :=
  (inner p).bind fun s =>
    match stripPrefix orig s with
    | none => .error .valueError
    | some rest => .ok (pfx ++ rest)

/-- `PrefixWrapper.identify` -/
def wrapIdentify (pfx orig : Str) (inner : Str → Bool) (h : Str) : Bool :=
  pfx.isPrefixOf h && inner (orig ++ h.drop pfx.length)

def wrapX (name : String) (pfx orig : Str) (f : FormatX) : FormatX :=
  ⟨name, wrapParseX pfx orig f.parseX, wrapRenderX pfx orig f.renderX, wrapIdentify pfx orig f.identify⟩

def LDAP_PBKDF2_SHA1_PREFIX : Str := ofString "{PBKDF2}"
def LDAP_PBKDF2_SHA256_PREFIX : Str := ofString "{PBKDF2-SHA256}"
def LDAP_PBKDF2_SHA512_PREFIX : Str := ofString "{PBKDF2-SHA512}"

def ldap_pbkdf2_sha1X : FormatX := wrapX "ldap_pbkdf2_sha1" LDAP_PBKDF2_SHA1_PREFIX PBKDF2_SHA1_IDENT pbkdf2_sha1X
def ldap_pbkdf2_sha256X : FormatX := wrapX "ldap_pbkdf2_sha256" LDAP_PBKDF2_SHA256_PREFIX PBKDF2_SHA256_IDENT pbkdf2_sha256X
def ldap_pbkdf2_sha512X : FormatX := wrapX "ldap_pbkdf2_sha512" LDAP_PBKDF2_SHA512_PREFIX PBKDF2_SHA512_IDENT pbkdf2_sha512X

/-! ### cta_pbkdf2_sha1 (hex rounds, standard padded base64 with `-_`); all decoding failures are ValueErrors -/
def P5K2_IDENT : Str := ofString "$p5k2$"

def ctaParseX : Str → Res Parsed := rawMc3ParseX DOLLAR true P5K2_IDENT 20 (fun s => toRes (b64AltField s))
def ctaRenderX : Parsed → Res Str := rawMc3RenderX DOLLAR true b64AltEncode

def cta_pbkdf2_sha1X : FormatX := ⟨"cta_pbkdf2_sha1", ctaParseX, ctaRenderX, identByPrefix P5K2_IDENT⟩

/-! ### dlitz_pbkdf2_sha1 (hex rounds, 400 elided; text salt; free-form checksum) -/
def dlitzParse : Str → Option Parsed := mc3TextParse true P5K2_IDENT (some 400) none none h64 0 (some 1024)

def dlitzRender (p : Parsed) : Str :=
  renderMc3G DOLLAR true p.ident (if p.rounds = some 400 then none else p.rounds) (p.salt.getD []) p.checksum

def dlitz_pbkdf2_sha1X : FormatX :=
  ⟨"dlitz_pbkdf2_sha1", fun h => toRes (dlitzParse h), fun p => .ok (dlitzRender p), identByPrefix P5K2_IDENT⟩

/-! ### atlassian_pbkdf2_sha1: `{PKCS5S2}` + base64(salt[16] + checksum[32]) -/
def ATLASSIAN_IDENT : Str := ofString "{PKCS5S2}"

def atlassianParse (h : Str) : Option Parsed :=
  (stripPrefix ATLASSIAN_IDENT h).bind fun body =>
  (b64StdField body).bind fun data =>
  (normChkOpt (some 32) none (some (data.drop 16))).bind fun chk' =>
  (normSalt none 16 (some 16) false (data.take 16)).map fun s =>
    { ident := ATLASSIAN_IDENT, salt := some s, checksum := chk' }

def atlassianRenderX (p : Parsed) : Res Str :=
  match p.checksum with
  | none => .error .typeError                                   -- bytes + None
  | some c => .ok (p.ident ++ Spec.Rfc4648.base64 (p.salt.getD [] ++ c))

def atlassian_pbkdf2_sha1X : FormatX :=
  ⟨"atlassian_pbkdf2_sha1", fun h => toRes (atlassianParse h), atlassianRenderX, identByPrefix ATLASSIAN_IDENT⟩

/-! ### grub_pbkdf2_sha512: `.`-separated, upper-case hex -/
def GRUB_IDENT : Str := ofString "grub.pbkdf2.sha512."
def DOT : Nat := 46

def grubParseX : Str → Res Parsed := rawMc3ParseX DOT false GRUB_IDENT 64 (fun s => toRes (unhexField s))
def grubRenderX : Parsed → Res Str := rawMc3RenderX DOT false pbHexlifyUpper

def grub_pbkdf2_sha512X : FormatX := ⟨"grub_pbkdf2_sha512", grubParseX, grubRenderX, identByPrefix GRUB_IDENT⟩

/-! ### Django: salted md5 / sha1 (parse_mc2) and pbkdf2 (parse_mc3) -/
def DJANGO_SALT_CHARS : List Nat := ofString "abcdefghijklmnopqrstuvwxyzABCDEFGHIJKLMNOPQRSTUVWXYZ0123456789"
def LOWER_HEX_CHARS : List Nat := ofString "0123456789abcdef"
def PADDED_BASE64_CHARS : List Nat := ofString "ABCDEFGHIJKLMNOPQRSTUVWXYZabcdefghijklmnopqrstuvwxyz0123456789+/="

def djSaltedParse (ident : Str) (chkSize : Nat) (h : Str) : Option Parsed :=
  (parseMc2 ident h).bind fun (salt, chk) =>
  (normChkOpt (some chkSize) (some LOWER_HEX_CHARS) chk).bind fun chk' =>
  (normSalt (some DJANGO_SALT_CHARS) 0 none false salt).map fun s =>
    { ident := ident, salt := some s, checksum := chk' }

def djSaltedRender (p : Parsed) : Str := renderMc2 p.ident (p.salt.getD []) p.checksum

def djSaltedX (name : String) (ident : Str) (chkSize : Nat) : FormatX :=
  ⟨name, fun h => toRes (djSaltedParse ident chkSize h), fun p => .ok (djSaltedRender p), identByPrefix ident⟩

def DJANGO_MD5_IDENT : Str := ofString "md5$"
def DJANGO_SHA1_IDENT : Str := ofString "sha1$"
def django_salted_md5X : FormatX := djSaltedX "django_salted_md5" DJANGO_MD5_IDENT 32
def django_salted_sha1X : FormatX := djSaltedX "django_salted_sha1" DJANGO_SHA1_IDENT 40

def djPbkdf2Parse (ident : Str) (chkSize : Nat) : Str → Option Parsed :=
  mc3TextParse false ident none (some chkSize) (some PADDED_BASE64_CHARS) DJANGO_SALT_CHARS 1 none

def djPbkdf2Render : Parsed → Str := mc3TextRender false

def djPbkdf2X (name : String) (ident : Str) (chkSize : Nat) : FormatX :=
  ⟨name, fun h => toRes (djPbkdf2Parse ident chkSize h), fun p => .ok (djPbkdf2Render p), identByPrefix ident⟩

def DJANGO_PBKDF2_SHA1_IDENT : Str := ofString "pbkdf2_sha1$"
def DJANGO_PBKDF2_SHA256_IDENT : Str := ofString "pbkdf2_sha256$"
def django_pbkdf2_sha1X : FormatX := djPbkdf2X "django_pbkdf2_sha1" DJANGO_PBKDF2_SHA1_IDENT 28
def django_pbkdf2_sha256X : FormatX := djPbkdf2X "django_pbkdf2_sha256" DJANGO_PBKDF2_SHA256_IDENT 44

/-! ### the family -/
def pbkdfAllX : List FormatX :=
  [sha1_cryptX, pbkdf2_sha1X, pbkdf2_sha256X, pbkdf2_sha512X, ldap_pbkdf2_sha1X, ldap_pbkdf2_sha256X, ldap_pbkdf2_sha512X,
   cta_pbkdf2_sha1X, dlitz_pbkdf2_sha1X, atlassian_pbkdf2_sha1X, grub_pbkdf2_sha512X,
   django_pbkdf2_sha1X, django_pbkdf2_sha256X, django_salted_md5X, django_salted_sha1X]

def pbkdfAll : List Format := pbkdfAllX.map FormatX.toFormat

end Model.Formats
