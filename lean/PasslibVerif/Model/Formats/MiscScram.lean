import PasslibVerif.Model.Formats.MiscBase
import PasslibVerif.Gen.MiscTables
/-
passlib.handlers.scram:  $scram$<rounds>$<salt>$<alg>=<digest>,<alg>=<digest>…   (or a bare alg list = config string)

The alg names go through `passlib.crypto.digest.norm_hash_name(alg, "iana")`, which is modelled here in full:
`_get_hash_aliases` (strip / lower / separator clean-up / "scram-" and "-plus" removal, the table of known names,
the fallback regular expression) and the recursion of `lookup_hash` down to a fixed point, including the
exceptions that escape it (AssertionError for an empty name, TypeError for names that resolve to a non-hash
attribute of `hashlib`).

Domain of faithfulness: `str.lower()` is modelled per code point; the context-sensitive FINAL SIGMA rule of CPython
(U+03A3) is not — `scramModelled` is false on strings containing U+03A3 and the driver answers `unmodelled` there.
-/
namespace Model.Formats
open Py Model.Handler Gen.MiscTables

/-! ### str helpers -/
def isPySpace (c : Nat) : Bool := Gen.PyUnicode.isspace.contains c

/-- `str.strip()` -/
def pyStrip (s : Str) : Str := ((s.dropWhile isPySpace).reverse.dropWhile isPySpace).reverse

/-- `str.lower()` per code point (no final-sigma context rule) -/
def pyLowerCp (c : Nat) : Str :=
  if c < 128 then [if 65 ≤ c ∧ c ≤ 90 then c + 32 else c]
  else
    let i := lowerFrom.idxOf c
    if i < lowerFrom.length then [lowerTo.getD i c]
    else match lowerMulti.find? (·.1 = c) with
      | some (_, l) => l
      | none => [c]

def pyLower (s : Str) : Str := s.flatMap pyLowerCp

def endsWith (sfx s : Str) : Bool := sfx.reverse.isPrefixOf s.reverse

/-- lexicographic `<` on code points (Python's str ordering) -/
def strLt : Str → Str → Bool
  | [], [] => false
  | [], _ :: _ => true
  | _ :: _, [] => false
  | a :: as, b :: bs => if a < b then true else if b < a then false else strLt as bs

def insertSorted (x : Str) : List Str → List Str
  | [] => [x]
  | y :: ys => if strLt y x then y :: insertSorted x ys else x :: y :: ys

/-- `sorted(…)` (stable insertion sort; equal strings are indistinguishable) -/
def sortStrs : List Str → List Str
  | [] => []
  | x :: xs => insertSorted x (sortStrs xs)

/-! ### passlib.crypto.digest._get_hash_aliases -/
/-- `re.sub("[_ /]", "-", …)` -/
def subSep (c : Nat) : Nat := if c = 95 ∨ c = 32 ∨ c = 47 then 45 else c

def SCRAM_DASH : Str := ofString "scram-"
def DASH_PLUS : Str := ofString "-plus"

def cleanName (s : Str) : Str :=
  let n := (pyLower (pyStrip s)).map subSep
  if startsWith SCRAM_DASH n then
    let n1 := n.drop 6
    if endsWith DASH_PLUS n1 then n1.take (n1.length - 5) else n1
  else n

/-- `check_table`: first row containing the name → (hashlib name, iana name) -/
def knownRow (name : Str) : Option (Str × Str) :=
  (knownHashNames.find? (·.contains name)).bind fun row =>
    match row with | h :: i :: _ => some (h, i) | _ => none

def isCiLetter (c : Nat) : Bool := ciLetters.contains c

/-- `re.match(r"(?i)^(?P<name>[a-z]+)-?(?P<rev>\d)?-?(?P<size>\d{3,4})?$", name)` → (name, rev, size).
    The alternatives are enumerated in the engine's backtracking order (greedy = "present" first). -/
def hashNameMatch (n : Str) : Option (Str × Option Nat × Option Str) :=
  let letters := n.takeWhile isCiLetter
  if letters.isEmpty then none
  else
    let r := n.dropWhile isCiLetter
    let dash (present : Bool) (r : Str) : Option Str := if present then lit [45] r else some r
    let rev (present : Bool) (r : Str) : Option (Option Nat × Str) :=
      if present then (match r with | c :: t => if isUDigit c then some (some c, t) else none | [] => none) else some (none, r)
    let size (k : Nat) (r : Str) : Option (Option Str × Str) :=
      if k = 0 then some (none, r)
      else if (r.take k).length = k && (r.take k).all isUDigit then some (some (r.take k), r.drop k) else none
    let combos : List (Bool × Bool × Bool × Nat) :=
      [true, false].flatMap fun d1 => [true, false].flatMap fun rv => [true, false].flatMap fun d2 => [4, 3, 0].map fun k => (d1, rv, d2, k)
    combos.findSome? fun (d1, rv, d2, k) =>
      (dash d1 r).bind fun r1 => (rev rv r1).bind fun (rvv, r2) => (dash d2 r2).bind fun r3 => (size k r3).bind fun (sz, r4) =>
        if atEnd r4 then some (letters, rvv, sz) else none

/-- `_get_hash_aliases(name)` → (hashlib name, iana name) -/
def hashAliases (digest : Str) : Str × Str :=
  let name := cleanName digest
  match knownRow name with
  | some r => r
  | none =>
    match hashNameMatch name with
    | some (nm, rev, size) =>
      let base := match rev with | some c => nm ++ [c] | none => nm
      let (iana, hl) := match size with
        | some sz => (base ++ 45 :: sz, (if rev.isSome then base ++ [95] else base) ++ sz)
        | none => (base, base)
      (match knownRow iana with | some r => r | none => (hl, iana))
    | none => (name.map (fun c => if c = 45 then 95 else c), name)

/-- `norm_hash_name(name, "iana")` = `lookup_hash(name, required=False).iana_name`.
    `lookup_hash` recurses on the hashlib name until it is a fixed point; an empty normalized name is an UnknownHashError (ValueError);
    at the fixed point the constructor lookup may raise (table `lookupRaises`).  Each round strictly shortens or
    fixes the name, and a round that does neither is followed by one that does, so `fuel = 2·length + 4` suffices
    (exhaustion would be Python's RecursionError). -/
def lookupIana : Nat → Str → Res Str
  | 0, _ => .error .runtimeError
  | fuel + 1, digest =>
    let (h, i) := hashAliases digest
    if h.isEmpty then .error .unknownHash               -- UnknownHashError (a ValueError): nothing left of the name
    else if h ≠ digest then lookupIana fuel h
    else if h.contains 0 then .error .typeError      -- `hashlib.new("…\0…")`: "TypeError: name must be a string"
    else match lookupRaises.find? (·.1 = h) with
      | some (_, k) => .error k
      | none => .ok i

def normIana (alg : Str) : Res Str := lookupIana (2 * alg.length + 4) alg

/-! ### scram -/
def SCRAM_IDENT : Str := ofString "$scram$"
def SHA1 : Str := ofString "sha-1"

/-- dict insertion: a repeated key keeps its first position and takes the new value -/
def dictSet (kvs : List (Str × Bytes)) (k : Str) (v : Bytes) : List (Str × Bytes) :=
  if kvs.any (·.1 = k) then kvs.map fun kv => if kv.1 = k then (k, v) else kv else kvs ++ [(k, v)]

/-- the `alg=digest,…` loop of from_string (everything that fails here is a ValueError) -/
def scramPairs : List Str → List (Str × Bytes) → Res (List (Str × Bytes))
  | [], acc => .ok acc
  | pair :: rest, acc =>
    match splitChar 61 pair with
    | [alg, dg] => resBind (match ab64DecodeS dg with | .ok b => .ok b | .error _ => vErr) fun b => scramPairs rest (dictSet acc alg b)
    | _ => vErr

/-- `scram._norm_checksum`: each name must already be in IANA form and ≤ 9 characters; "sha-1" is required -/
def scramNormChecksum : List (Str × Bytes) → Res Unit
  | [] => .ok ()
  | (alg, _) :: rest =>
    resBind (normIana alg) fun i => if i ≠ alg then vErr else if alg.length > 9 then vErr else scramNormChecksum rest

def mapMRes {α β} (f : α → Res β) : List α → Res (List β)
  | [] => .ok []
  | a :: as => resBind (f a) fun b => (mapMRes f as).map (b :: ·)

/-- `scram._norm_algs` on a list of names -/
def scramNormAlgs (algs : List Str) : Res (List Str) :=
  resBind (mapMRes normIana algs) fun l =>
    let s := sortStrs l
    if s.any (·.length > 9) then vErr else if !s.contains SHA1 then vErr else .ok s

/-- `splitcomma` -/
def splitComma (src : Str) : List Str :=
  let s := pyStrip src
  let s := if endsWith [44] s then s.dropLast else s
  if s.isEmpty then [] else (splitChar 44 s).map pyStrip

/-- encoding of the checksum dict in `Parsed.checksum`: for every alg (in `algs` order) the digest length, then its bytes -/
def scramChkEncode (algs : List Str) (kvs : List (Str × Bytes)) : Str :=
  algs.flatMap fun a => match kvs.find? (·.1 = a) with | some (_, d) => d.length :: d | none => []

def scramParse (h : Str) : Res (Option Parsed) :=
  match stripPrefix SCRAM_IDENT h with
  | none => vErr
  | some body =>
    match splitChar DOLLAR body with
    | [roundsStr, saltStr, chkStr] =>
      resBind (pyInt roundsStr) fun rounds =>
      if roundsStr ≠ fmtDec rounds then vErr            -- `rounds_str != str(rounds)`
      else
      resBind (match ab64DecodeS saltStr with | .ok b => .ok b | .error _ => vErr) fun salt =>
      if chkStr.isEmpty then vErr
      else if chkStr.contains 61 then
        resBind (scramPairs (splitChar 44 chkStr) []) fun kvs =>
        -- __init__: GenericHandler (checksum) → HasRawSalt (≤ 1024) → HasRounds (1 … 2^32-1) → algs from the dict keys
        resBind (scramNormChecksum kvs) fun _ =>
        if !kvs.any (·.1 = SHA1) then vErr
        else if salt.length > 1024 then vErr
        else if rounds < 1 ∨ rounds > 4294967295 then vErr
        else
        resBind (scramNormAlgs (kvs.map (·.1))) fun algs =>
        .ok (some { ident := SCRAM_IDENT, rounds := some rounds, salt := some salt, checksum := some (scramChkEncode algs kvs),
                    extra := [("algs", joinChar 44 algs)] })
      else
        if salt.length > 1024 then vErr
        else if rounds < 1 ∨ rounds > 4294967295 then vErr
        else
        resBind (scramNormAlgs (splitComma chkStr)) fun algs =>
        .ok (some { ident := SCRAM_IDENT, rounds := some rounds, salt := some salt, checksum := none,
                    extra := [("algs", joinChar 44 algs)] })
    | _ => vErr

/-- decode `Parsed.checksum` back into digests, one per alg -/
def scramChkDecode : List Str → Str → List (Str × Bytes)
  | [], _ => []
  | _ :: _, [] => []
  | a :: as, n :: rest => (a, rest.take n) :: scramChkDecode as (rest.drop n)

/-- `scram.to_string` -/
def scramRender (p : Parsed) : Res Str :=
  match p.checksum with
  | none => tErr                      -- `chkmap[alg]` on None
  | some enc =>
    let algs := match p.extra with | [(_, a)] => (if a.isEmpty then [] else splitChar 44 a) | _ => []
    let items := (scramChkDecode algs enc).map fun (a, d) => a ++ 61 :: Model.B64.ab64Encode d
    .ok (SCRAM_IDENT ++ (fmtDec (p.rounds.getD 0) ++ DOLLAR :: (Model.B64.ab64Encode (p.salt.getD []) ++ DOLLAR :: joinChar 44 items)))

/-- where the model claims faithfulness (see the header) -/
def scramModelled (h : Str) : Bool := !h.contains 0x3A3

def scram : FormatE := ⟨"scram", scramParse, scramRender, identByPrefix SCRAM_IDENT⟩

end Model.Formats
