import PasslibVerif.Model.Formats.Md5Sha2
import PasslibVerif.Model.B64
/-
DES family (des_crypt, bsdi_crypt, bigcrypt, crypt16, django_des_crypt), bcrypt family (bcrypt, bcrypt_sha256,
django_bcrypt, django_bcrypt_sha256), sun_md5_crypt and phpass: from_string / to_string / identify.

Conventions (see Model/Handler.lean): text is `List Nat`, `none` is passlib's ValueError.
* The `re` patterns are transcribed by hand; the pattern text is quoted next to each recogniser.
  Two properties of Python's `re` on `str` matter and are modelled:
    - a final `$` also matches just before ONE trailing "\n"  (`chompNl`, `lastSeg`);
    - `[a-z]` under IGNORECASE additionally matches U+0130, U+0131, U+017F, U+212A (`reH64Ci`);
      `\d` matches every Unicode decimal digit (`isDigitU`), and `int()` reads them.
* `"%s" % None` / f"{None}" is the text "None": several `to_string` methods print a missing checksum that way
  (des_crypt, bsdi_crypt, bigcrypt, crypt16, bcrypt, bcrypt_sha256, sun_md5_crypt).  Transcribed as is (`orNoneText`).
-/
namespace Model.Formats
open Py Model.Handler

def NL : Nat := 10
def COMMA : Nat := 44
def UNDERSCORE : Nat := 95

/-- `"%s" % checksum` with `checksum = None` -/
def NONE_TEXT : Str := ofString "None"
def orNoneText (c : Option Str) : Str := c.getD NONE_TEXT

def toOpt {α} : Res α → Option α
  | .ok a => some a
  | .error _ => none

/-- what a pattern `^ … $` is matched against: `$` also matches before one final newline (the character classes used
    with it below never contain "\n") -/
def chompNl (h : Str) : Str := if h.getLast? = some NL then h.dropLast else h

/-- `[./a-z0-9]` with re.IGNORECASE on `str` -/
def reH64Ci (c : Nat) : Bool := h64.contains c || c = 0x130 || c = 0x131 || c = 0x17F || c = 0x212A

/-- `\d` on `str` -/
def isDigitU (c : Nat) : Bool := (decimalValue c).isSome

/-- `HasManyIdents._parse_ident`: first matching ident in declaration order -/
def parseIdent (idents : List Str) (h : Str) : Option (Str × Str) :=
  (idents.find? (·.isPrefixOf h)).map fun i => (i, h.drop i.length)

/-- `hash.startswith(ident_values)` -/
def identAny (idents : List Str) (h : Str) : Bool := idents.any (·.isPrefixOf h)

/-! ### des_crypt: `salt, chk = hash[:2], hash[2:]` (from_string does not use the pattern) -/
def desCryptParse (h : Str) : Option Parsed :=
  (normChkOpt (some 11) (some h64) (orNone (h.drop 2))).bind fun chk' =>
  (normSalt (some h64) 2 (some 2) false (h.take 2)).map fun s =>
    { salt := some s, checksum := chk' }

/-- `f"{self.salt}{self.checksum}"` -/
def saltChkRender (p : Parsed) : Str := p.salt.getD [] ++ orNoneText p.checksum

/-- the shape `^ (?P<salt>[./a-z0-9]{2}) (?P<chk> …)? $` (re.VERBOSE | re.IGNORECASE) where the checksum part is
    recognised by its length -/
def desShape (chkLen : Nat → Bool) (h : Str) : Bool :=
  let b := chompNl h
  (b.length = 2 || (decide (b.length > 2) && chkLen (b.length - 2))) && b.all reH64Ci

/-- des_crypt._hash_regex: `^(?P<salt>[./a-z0-9]{2})(?P<chk>[./a-z0-9]{11})?$` -/
def desCryptIdentify (h : Str) : Bool := !h.isEmpty && desShape (· = 11) h

def des_crypt : Format := ⟨"des_crypt", desCryptParse, saltChkRender, desCryptIdentify⟩

/-! ### bigcrypt / crypt16: from_string goes through the pattern -/
/-- bigcrypt._hash_regex: `^(?P<salt>[./a-z0-9]{2})(?P<chk>([./a-z0-9]{11})+)?$` -/
def bigcryptShape (h : Str) : Bool := desShape (fun n => n % 11 = 0) h
/-- crypt16._hash_regex: `^(?P<salt>[./a-z0-9]{2})(?P<chk>[./a-z0-9]{22})?$` -/
def crypt16Shape (h : Str) : Bool := desShape (· = 22) h

/-- `m.group("salt", "chk")` of a matching string (`chk` is None when the optional group did not take part) -/
def desGroups (h : Str) : Str × Option Str :=
  let b := chompNl h
  (b.take 2, if b.length = 2 then none else some (b.drop 2))

def bigcryptParse (h : Str) : Option Parsed :=
  if !bigcryptShape h then none else
  let (salt, chk) := desGroups h
  -- bigcrypt._norm_checksum: the generic check (alphabet only) and then `len(checksum) % 11`
  (match chk with
    | none => some none
    | some c => ((normChecksum none (some h64) c).bind fun c' => if c'.length % 11 = 0 then some c' else none).map some).bind fun chk' =>
  (normSalt (some h64) 2 (some 2) false salt).map fun s =>
    { salt := some s, checksum := chk' }

def crypt16Parse (h : Str) : Option Parsed :=
  if !crypt16Shape h then none else
  let (salt, chk) := desGroups h
  (normChkOpt (some 22) (some h64) chk).bind fun chk' =>
  (normSalt (some h64) 2 (some 2) false salt).map fun s =>
    { salt := some s, checksum := chk' }

def bigcrypt : Format := ⟨"bigcrypt", bigcryptParse, saltChkRender, fun h => !h.isEmpty && bigcryptShape h⟩
def crypt16 : Format := ⟨"crypt16", crypt16Parse, saltChkRender, fun h => !h.isEmpty && crypt16Shape h⟩

/-! ### bsdi_crypt -/
/-- bsdi_crypt._hash_regex: `^_(?P<rounds>[./a-z0-9]{4})(?P<salt>[./a-z0-9]{4})(?P<chk>[./a-z0-9]{11})?$` -/
def bsdiShape (h : Str) : Bool :=
  match chompNl h with
  | c :: b => c = UNDERSCORE && (b.length = 8 || b.length = 19) && b.all reH64Ci
  | [] => false

def bsdiParse (h : Str) : Option Parsed :=
  if !bsdiShape h then none else
  let b := (chompNl h).drop 1
  let chk := if b.length = 8 then none else some (b.drop 8)
  -- `h64.decode_int24(rounds.encode("ascii"))`: a non-ASCII letter let through by the pattern is a
  -- UnicodeEncodeError (a ValueError); it is not in the charmap either
  (toOpt (Model.B64.decodeInt24 Model.B64.h64 (b.take 4))).bind fun r =>
  (normChkOpt (some 11) (some h64) chk).bind fun chk' =>
  (normSalt (some h64) 4 (some 4) false ((b.drop 4).take 4)).bind fun s =>
  (normRounds 1 (some 16777215) false (r : Int)).map fun r' =>
    { rounds := some r', salt := some s, checksum := chk' }

/-- `"_{}{}{}".format(h64.encode_int24(self.rounds), self.salt, self.checksum)` -/
def bsdiRender (p : Parsed) : Str :=
  UNDERSCORE :: ((toOpt (Model.B64.encodeInt24 Model.B64.h64 (p.rounds.getD 0).toNat)).getD [] ++ (p.salt.getD [] ++ orNoneText p.checksum))

def bsdi_crypt : Format := ⟨"bsdi_crypt", bsdiParse, bsdiRender, fun h => !h.isEmpty && bsdiShape h⟩

/-! ### django_des_crypt: `crypt$<salt>$<salt[:2]><checksum>` -/
def DJANGO_DES_IDENT : Str := ofString "crypt$"

def djangoDesParse (h : Str) : Option Parsed :=
  (parseMc2 DJANGO_DES_IDENT h).bind fun (salt, chk) =>
  (match chk with
    | some c =>
      if salt.isEmpty then some (c.take 2, some (c.drop 2))       -- django 1.4: salt taken from the des_crypt hash
      else if salt.take 2 ≠ c.take 2 then none                     -- "first two digits of salt and checksum must match"
      else some (salt, some (c.drop 2))
    | none => some (salt, none)).bind fun (salt', chk') =>
  (normChkOpt (some 11) (some h64) chk').bind fun chk'' =>
  (normSalt (some h64) 2 none false salt').map fun s =>
    { ident := DJANGO_DES_IDENT, salt := some s, checksum := chk'' }

/-- `render_mc2(ident, salt, salt[:2] + checksum)` (use_duplicate_salt = True); with `checksum = None` the real code
    raises TypeError on the `+`, which has no counterpart here: the model prints the salt only -/
def djangoDesRender (p : Parsed) : Str :=
  let salt := p.salt.getD []
  match p.checksum with
  | some c => renderMc2 p.ident salt (some (salt.take 2 ++ c))
  | none => renderMc2 p.ident salt none

def django_des_crypt : Format := ⟨"django_des_crypt", djangoDesParse, djangoDesRender, identByPrefix DJANGO_DES_IDENT⟩

/-! ### bcrypt -/
def bc64 : List Nat := Model.B64.bcrypt64.charmap

def IDENT_2 : Str := ofString "$2$"
def IDENT_2A : Str := ofString "$2a$"
def IDENT_2X : Str := ofString "$2x$"
def IDENT_2Y : Str := ofString "$2y$"
def IDENT_2B : Str := ofString "$2b$"
def bcryptIdents : List Str := [IDENT_2, IDENT_2A, IDENT_2X, IDENT_2Y, IDENT_2B]

/-- `bcrypt64.check_repair_unused(s)[1]`: clear the unused bits of the last character.  It is only called on text that
    already passed the alphabet check, so its KeyError branch is not reachable. -/
def bcRepair (s : Str) : Option Str :=
  match Model.B64.checkRepairUnused Model.B64.bcrypt64 s with
  | .ok (_, r) => some r
  | .error _ => none

/-- `_BcryptCommon._norm_checksum`: generic check (31 characters of bcrypt64), then the repair -/
def bcNormChk : Option Str → Option (Option Str)
  | none => some none
  | some c => ((normChecksum (some 31) (some bc64) c).bind bcRepair).map some

/-- `_BcryptCommon._norm_salt`: generic check (exactly 22 characters of bcrypt64), then the repair -/
def bcNormSalt (salt : Str) : Option Str := (normSalt (some bc64) 22 (some 22) false salt).bind bcRepair

/-- the constructor chain shared by every bcrypt variant (all failures are ValueErrors, so their order is immaterial) -/
def bcFields (ident : Str) (rounds : Int) (salt : Str) (chk : Option Str) (extra : List (String × Str)) : Option Parsed :=
  (bcNormChk chk).bind fun chk' =>
  (bcNormSalt salt).bind fun s =>
  (normRounds 4 (some 31) false rounds).map fun r =>
    { ident := ident, rounds := some r, salt := some s, checksum := chk', extra := extra }

/-- `_BcryptCommon.from_string` for a class with the given `ident_values` -/
def bcryptParseWith (idents : List Str) (h : Str) : Option Parsed :=
  (parseIdent idents h).bind fun (ident, tail) =>
  if ident = IDENT_2X then none else        -- "crypt_blowfish's buggy '2x' hashes are not currently supported"
  match splitChar DOLLAR tail with
  | [rs, data] =>                            -- `rounds_str, data = tail.split("$")`
    (intField rs).bind fun rounds =>
    if rs ≠ fmtZeroPad 2 rounds then none    -- `rounds_str != "%02d" % (rounds,)`
    else bcFields ident rounds (data.take 22) (orNone (data.drop 22)) []
  | _ => none

/-- `"%s%02d$%s%s" % (self.ident, self.rounds, self.salt, self.checksum)` -/
def bcryptRender (p : Parsed) : Str :=
  p.ident ++ (fmtZeroPad 2 (p.rounds.getD 0) ++ DOLLAR :: (p.salt.getD [] ++ orNoneText p.checksum))

def bcrypt : Format := ⟨"bcrypt", bcryptParseWith bcryptIdents, bcryptRender, identAny bcryptIdents⟩

/-! ### django_bcrypt: PrefixWrapper("django_bcrypt", bcrypt, prefix="bcrypt$") -/
def DJANGO_BCRYPT_PREFIX : Str := ofString "bcrypt$"

def django_bcrypt : Format :=
  ⟨"django_bcrypt",
   fun h => (stripPrefix DJANGO_BCRYPT_PREFIX h).bind (bcryptParseWith bcryptIdents),
   fun p => DJANGO_BCRYPT_PREFIX ++ bcryptRender p,
   fun h => match stripPrefix DJANGO_BCRYPT_PREFIX h with | some r => identAny bcryptIdents r | none => false⟩

/-! ### django_bcrypt_sha256: `bcrypt_sha256$` + a bcrypt string (all five idents of the parent class) -/
def DJANGO_BCRYPT_SHA256_PREFIX : Str := ofString "bcrypt_sha256$"

def djangoBcryptSha256Parse (h : Str) : Option Parsed :=
  (stripPrefix DJANGO_BCRYPT_SHA256_PREFIX h).bind fun bhash =>
  if !(ofString "$2").isPrefixOf bhash then none else bcryptParseWith bcryptIdents bhash

def django_bcrypt_sha256 : Format :=
  ⟨"django_bcrypt_sha256", djangoBcryptSha256Parse, fun p => DJANGO_BCRYPT_SHA256_PREFIX ++ bcryptRender p,
   identByPrefix DJANGO_BCRYPT_SHA256_PREFIX⟩

/-! ### bcrypt_sha256
v2: `^[$]bcrypt-sha256[$]v=(?P<version>\d+),t=(?P<type>2b),r=(?P<rounds>\d{1,2})[$](?P<salt>[^$]{22})(?:[$](?P<digest>[^$]{31}))?$`
v1: `^[$]bcrypt-sha256[$](?P<type>2[ab]),(?P<rounds>\d{1,2})[$](?P<salt>[^$]{22})(?:[$](?P<digest>[^$]{31}))?$`
The literal `$` and `,` cannot be matched by `\d` or `[^$]`, so the string is cut at them; `[^$]` does match "\n",
hence the rule for the last segment below. -/
def BCRYPT_SHA256_PREFIX : Str := ofString "$bcrypt-sha256$"

def digits12 (s : Str) : Bool := (s.length = 1 || s.length = 2) && s.all isDigitU

/-- the last `[^$]{n}` group followed by `$`: n characters, or n characters and one final "\n" the anchor skips -/
def lastSeg (n : Nat) (s : Str) : Option Str :=
  if s.length = n then some s
  else if s.length = n + 1 && s.getLast? = some NL then some s.dropLast
  else none

/-- the settings segment: (version, type, rounds text) -/
def bsSettings (s : Str) : Option (Int × Str × Str) :=
  match splitChar COMMA s with
  | [v, t, r] =>
    if (ofString "v=").isPrefixOf v && !(v.drop 2).isEmpty && (v.drop 2).all isDigitU && t = ofString "t=2b" &&
        (ofString "r=").isPrefixOf r && digits12 (r.drop 2) then
      (intField (v.drop 2)).bind fun ver => if ver < 2 then none else some (ver, ofString "2b", r.drop 2)
    else none
  | [t, r] => if (t = ofString "2a" || t = ofString "2b") && digits12 r then some (1, t, r) else none
  | _ => none

/-- (settings, salt, digest) groups -/
def bsSegments (body : Str) : Option (Str × Str × Option Str) :=
  match splitChar DOLLAR body with
  | [st, salt] => (lastSeg 22 salt).map fun s => (st, s, none)
  | [st, salt, dig] => if salt.length = 22 then (lastSeg 31 dig).map fun d => (st, salt, some d) else none
  | _ => none

def versionExtra (v : Int) : List (String × Str) := [("version", fmtDec v)]

def bcryptSha256Parse (h : Str) : Option Parsed :=
  (stripPrefix BCRYPT_SHA256_PREFIX h).bind fun body =>
  (bsSegments body).bind fun (st, salt, dig) =>
  (bsSettings st).bind fun (ver, t, rs) =>
  if zeroPadded rs then none else
  (intField rs).bind fun rounds =>
  if !(ver = 1 || ver = 2) then none else        -- `_norm_version`
  -- `_norm_ident`: "2a" / "2b" resolve through ident_aliases to "$2a$" / "$2b$"
  bcFields (DOLLAR :: (t ++ [DOLLAR])) rounds salt dig (versionExtra ver)

/-- `ident.strip("$")` -/
def stripDollars (s : Str) : Str := ((s.dropWhile (· = DOLLAR)).reverse.dropWhile (· = DOLLAR)).reverse

/-- `_v1_template = "$bcrypt-sha256$%s,%d$%s$%s"`, `_v2_template = "$bcrypt-sha256$v=2,t=%s,r=%d$%s$%s"` -/
def bcryptSha256Render (p : Parsed) : Str :=
  let t := stripDollars p.ident
  let r := fmtDec (p.rounds.getD 0)
  let tail := r ++ DOLLAR :: (p.salt.getD [] ++ DOLLAR :: orNoneText p.checksum)
  if p.extra = versionExtra 1 then BCRYPT_SHA256_PREFIX ++ (t ++ COMMA :: tail)
  else BCRYPT_SHA256_PREFIX ++ (ofString "v=2,t=" ++ (t ++ (ofString ",r=" ++ tail)))

def bcrypt_sha256 : Format :=
  ⟨"bcrypt_sha256", bcryptSha256Parse, bcryptSha256Render, identByPrefix BCRYPT_SHA256_PREFIX⟩

/-! ### sun_md5_crypt -/
def SUN_IDENT : Str := ofString "$md5$"
def SUN_ROUNDS_IDENT : Str := ofString "$md5,rounds="

/-- cut at the FIRST separator (`hash.find("$", 12)`) -/
def splitFirst (sep : Nat) : Str → Option (Str × Str)
  | [] => none
  | c :: rest => if c = sep then some ([], rest) else (splitFirst sep rest).map fun (a, b) => (c :: a, b)

/-- cut at the LAST separator (`hash.rfind("$", salt_idx)`) -/
def splitLast (sep : Nat) : Str → Option (Str × Str)
  | [] => none
  | c :: rest =>
    match splitLast sep rest with
    | some (a, b) => some (c :: a, b)
    | none => if c = sep then some ([], rest) else none

def bareFlag (b : Bool) : List (String × Str) := [("bare_salt", if b then [49] else [48])]

/-- rounds and the text after the settings: `$md5$…` (rounds 0) or `$md5,rounds=N$…` -/
def sunHead (h : Str) : Option (Int × Str) :=
  if SUN_IDENT.isPrefixOf h then some (0, h.drop 5)
  else if SUN_ROUNDS_IDENT.isPrefixOf h then
    (splitFirst DOLLAR (h.drop 12)).bind fun (rstr, tail) =>   -- no "$": "unexpected end of rounds"
    (intField rstr).bind fun rounds =>
    if rstr ≠ fmtDec rounds then none                         -- zero padded (or otherwise non canonical) rounds
    else if rounds = 0 then none                              -- "explicit zero rounds"
    else some (rounds, tail)
  else none

/-- salt / checksum / bare_salt from the text after the settings -/
def sunTail (tail : Str) : Option (Str × Option Str × Bool) :=
  match splitLast DOLLAR tail with
  | none => some (tail, none, true)                             -- ''-config for $-hash
  | some (pre, chk) =>
    if chk.isEmpty then                                         -- the last "$" ends the string
      if pre.getLast? = some DOLLAR then none                   -- "too many '$' separators"
      else some (pre, none, false)                              -- $-config for $$-hash
    else if pre.isEmpty || pre.getLast? = some DOLLAR then      -- `hash[chk_idx - 1] == "$"`: also the ident's own "$"
      some (pre.dropLast, some chk, false)                      -- $$-hash
    else some (pre, some chk, true)                             -- $-hash

def sunParse (h : Str) : Option Parsed :=
  (sunHead h).bind fun (rounds, tail) =>
  (sunTail tail).bind fun (salt, chk, bare) =>
  (normChkOpt (some 22) (some h64) chk).bind fun chk' =>
  (normSalt (some h64) 0 none false salt).bind fun s =>
  (normRounds 0 (some 4294963199) false rounds).map fun r =>
    { rounds := some r, salt := some s, checksum := chk', extra := bareFlag bare }

def sunRender (p : Parsed) : Str :=
  let ss : Str := if p.extra = bareFlag true then [] else [DOLLAR]
  let rounds := p.rounds.getD 0
  let tail := p.salt.getD [] ++ (ss ++ DOLLAR :: orNoneText p.checksum)
  if rounds > 0 then SUN_ROUNDS_IDENT ++ (fmtDec rounds ++ DOLLAR :: tail) else SUN_IDENT ++ tail

def sun_md5_crypt : Format := ⟨"sun_md5_crypt", sunParse, sunRender, identAny [SUN_IDENT, ofString "$md5,"]⟩

/-! ### phpass -/
def phpassIdents : List Str := [ofString "$P$", ofString "$H$"]

def phpassParse (h : Str) : Option Parsed :=
  (parseIdent phpassIdents h).bind fun (ident, data) =>
  match data with
  | [] => none                                                  -- bare identifier: MalformedHashError
  | rc :: rest =>
    -- `h64.decode_int6(rounds.encode("ascii"))`
    (toOpt (Model.B64.decodeInt6 Model.B64.h64 [rc])).bind fun rounds =>
    -- checksum_size is not declared: only the alphabet of the checksum is checked
    (normChkOpt none (some h64) (orNone (rest.drop 8))).bind fun chk' =>
    (normSalt (some h64) 8 (some 8) false (rest.take 8)).bind fun s =>
    (normRounds 7 (some 30) false (rounds : Int)).map fun r =>
      { ident := ident, rounds := some r, salt := some s, checksum := chk' }

/-- `ident + h64.encode_int6(rounds) + salt + (checksum or "")` -/
def phpassRender (p : Parsed) : Str :=
  p.ident ++ ((toOpt (Model.B64.encodeInt6 Model.B64.h64 (p.rounds.getD 0).toNat)).getD [] ++ (p.salt.getD [] ++ p.checksum.getD []))

def phpass : Format := ⟨"phpass", phpassParse, phpassRender, identAny phpassIdents⟩

def desBcryptAll : List Format :=
  [des_crypt, bsdi_crypt, bigcrypt, crypt16, django_des_crypt, bcrypt, bcrypt_sha256, django_bcrypt,
   django_bcrypt_sha256, sun_md5_crypt, phpass]

end Model.Formats
