import PasslibVerif.Model.Formats.MiscBase
/-
libpass.inspect: the regular-expression based inspection helpers, each as a `FormatE`
(`parseE` = the inspect function, `.ok none` = it returns None; `renderE` = `info.as_str()`).

The regular expressions are transcribed by hand into recognisers; each recogniser names its pattern.
Python `re` facts used: `.` = any character except "\n"; `\d` (str pattern) = any Unicode decimal digit;
`fullmatch` must consume the whole string, so the trailing-newline tolerance of `$` never applies there,
whereas under `match` the final `$` also succeeds before one trailing "\n".
-/
namespace Model.Formats
open Py Model.Handler

/-! ### libpass.inspect.sha_crypt

    SHA256CryptInfo.REGEX = r"^\$5(\$rounds=(?P<rounds>\d+))?\$(?P<salt>.{1,16})\$(?P<hash>.{43})$"   (fullmatch)
    SHA512CryptInfo.REGEX = r"^\$6(\$rounds=(?P<rounds>\d+))?\$(?P<salt>.{1,16})\$(?P<hash>.{86})$"   (fullmatch)

The hash group has a fixed width and ends the string, so `salt`/`hash` are determined from the END:
`rest = salt ++ "$" ++ hash`.  The optional rounds group is tried first (greedy `?`); when the remainder then
fails the engine backtracks to the variant WITHOUT the group (so "$5$rounds=12$<43 chars>" has salt "rounds=12"). -/

/-- `(?P<salt>.{1,16})\$(?P<hash>.{n})$` against the whole remainder -/
def lpShaTail (n : Nat) (rest : Str) : Option (Str × Str) :=
  if rest.length < n + 2 then none
  else
    let k := rest.length - n - 1
    let salt := rest.take k
    let hash := rest.drop (k + 1)
    if (rest.drop k).head? = some DOLLAR && decide (k ≤ 16) && salt.all isDot && hash.all isDot then some (salt, hash) else none

/-- `(\$rounds=(?P<rounds>\d+))` then `\$` then the tail -/
def lpShaWithRounds (n : Nat) (r : Str) : Option (Str × Str × Str) :=
  (lit (ofString "$rounds=") r).bind fun r1 =>
    let ds := r1.takeWhile isUDigit
    if ds.isEmpty then none
    else (lit [DOLLAR] (r1.dropWhile isUDigit)).bind fun r3 => (lpShaTail n r3).map fun (s, h) => (ds, s, h)

def lpShaParse (ident : Str) (n : Nat) (s : Str) : Res (Option Parsed) :=
  match lit (ident.take 2) s with
  | none => .ok none
  | some r =>
    match lpShaWithRounds n r with
    | some (ds, salt, hash) =>
      -- `int(rounds)`: a non-empty run of decimal digits always converts
      (pyInt ds).map fun v => some { ident := ident, rounds := some v, salt := some salt, checksum := some hash }
    | none =>
      match (lit [DOLLAR] r).bind (lpShaTail n) with
      | some (salt, hash) => .ok (some { ident := ident, rounds := none, salt := some salt, checksum := some hash })
      | none => .ok none

/-- `SHACryptInfo.as_str` -/
def lpShaRender (p : Parsed) : Res Str :=
  let salt := p.salt.getD []
  let hash := p.checksum.getD []
  match p.rounds with
  | none => .ok (p.ident ++ (salt ++ DOLLAR :: hash))
  | some r => .ok (p.ident ++ (ofString "rounds=" ++ fmtDec r ++ DOLLAR :: (salt ++ DOLLAR :: hash)))

def lpShaIdentify (ident : Str) (n : Nat) (s : Str) : Bool :=
  match lpShaParse ident n s with | .ok (some _) => true | _ => false

def lp_sha256 : FormatE := ⟨"lp_sha256", lpShaParse (ofString "$5$") 43, lpShaRender, lpShaIdentify (ofString "$5$") 43⟩
def lp_sha512 : FormatE := ⟨"lp_sha512", lpShaParse (ofString "$6$") 86, lpShaRender, lpShaIdentify (ofString "$6$") 86⟩

/-! ### libpass.inspect.bcrypt

    BCRYPT_HASH_REGEX = r"^\$(?P<prefix>(2a|2b|2y))\$(?P<rounds>\d+)\$(?P<salt>.{22})(?P<hash>.{31})$"   (fullmatch) -/
def lpBcryptPrefixes : List Str := [ofString "2a", ofString "2b", ofString "2y"]

def lpBcryptParse (s : Str) : Res (Option Parsed) :=
  match lit [DOLLAR] s with
  | none => .ok none
  | some r0 =>
    let pfx := r0.take 2
    if !lpBcryptPrefixes.contains pfx then .ok none
    else match lit [DOLLAR] (r0.drop 2) with
      | none => .ok none
      | some r1 =>
        let ds := r1.takeWhile isUDigit
        if ds.isEmpty then .ok none
        else match lit [DOLLAR] (r1.dropWhile isUDigit) with
          | none => .ok none
          | some r2 =>
            let salt := r2.take 22
            let hash := (r2.drop 22).take 31
            if salt.length = 22 && hash.length = 31 && salt.all isDot && hash.all isDot && (r2.drop 53).isEmpty then
              (pyInt ds).map fun v => some { ident := pfx, rounds := some v, salt := some salt, checksum := some hash }
            else .ok none

/-- `BcryptHashInfo.as_str`: f"${prefix}${rounds:02}${salt}{hash}" -/
def lpBcryptRender (p : Parsed) : Res Str :=
  .ok (DOLLAR :: (p.ident ++ DOLLAR :: (fmtZeroPad 2 (p.rounds.getD 0) ++ DOLLAR :: (p.salt.getD [] ++ p.checksum.getD []))))

def lp_bcrypt : FormatE :=
  ⟨"lp_bcrypt", lpBcryptParse, lpBcryptRender, fun s => match lpBcryptParse s with | .ok (some _) => true | _ => false⟩

/-! ### libpass.inspect.pbkdf2

    REGEX = r"^\$(?P<digest_name>[a-z0-9-]+)\$(?P<rounds>\d+)\$(?P<salt>.+)\$(?P<hash>.+)$"   (fullmatch)

`salt` is greedy: it extends to the LAST "$" that still leaves a non-empty hash. -/
def isLowerDigitDash (c : Nat) : Bool := isLower c || isADigit c || c = 45

/-- `(?P<salt>.+)\$(?P<hash>.+)` against the whole remainder (no newline anywhere) -/
def lpSplitSaltHash (rest : Str) : Option (Str × Str) :=
  if !rest.all isDot then none
  else match rest.reverse with
    | [] => none
    | last :: bodyRev =>
      -- the separating "$" is the last one inside `body` = everything but the final character
      let afterRev := bodyRev.takeWhile (· ≠ DOLLAR)
      match bodyRev.dropWhile (· ≠ DOLLAR) with
      | [] => none
      | _ :: saltRev => if saltRev.isEmpty then none else some (saltRev.reverse, afterRev.reverse ++ [last])

def lpPbkdf2Parse (digestName : Str) (s : Str) : Res (Option Parsed) :=
  match lit [DOLLAR] s with
  | none => .ok none
  | some r0 =>
    let name := r0.takeWhile isLowerDigitDash
    if name.isEmpty then .ok none
    else match lit [DOLLAR] (r0.dropWhile isLowerDigitDash) with
      | none => .ok none
      | some r1 =>
        let ds := r1.takeWhile isUDigit
        if ds.isEmpty then .ok none
        else match (lit [DOLLAR] (r1.dropWhile isUDigit)).bind lpSplitSaltHash with
          | none => .ok none
          | some (salt, hash) =>
            if name ≠ digestName then .ok none
            else (pyInt ds).map fun v =>
              some { ident := DOLLAR :: (digestName ++ [DOLLAR]), rounds := some v, salt := some salt, checksum := some hash }

/-- f"${DIGEST_NAME}${rounds}${salt}${hash}" -/
def lpPbkdf2Render (p : Parsed) : Res Str :=
  .ok (p.ident ++ (fmtDec (p.rounds.getD 0) ++ DOLLAR :: (p.salt.getD [] ++ DOLLAR :: p.checksum.getD [])))

def lpPbkdf2 (name : String) (digestName : Str) : FormatE :=
  ⟨name, lpPbkdf2Parse digestName, lpPbkdf2Render, fun s => match lpPbkdf2Parse digestName s with | .ok (some _) => true | _ => false⟩

def lp_pbkdf2_sha256 : FormatE := lpPbkdf2 "lp_pbkdf2_sha256" (ofString "pbkdf2-sha256")
def lp_pbkdf2_sha512 : FormatE := lpPbkdf2 "lp_pbkdf2_sha512" (ofString "pbkdf2-sha512")

/-! ### libpass.inspect.phc

    PHC_REGEX = r"\$(?P<id>[a-z0-9-]{1,32})"
                r"(\$v=(?P<version>[0-9]+))?"
                r"\$(?P<params>[a-z0-9-]{1,32}=[a-zA-Z0-9/+.-]+(,([a-z0-9-]{1,32}=[a-zA-Z0-9/+.-]+))*)"
                r"\$(?P<salt>[a-zA-Z0-9/+.-]{11,64})"
                r"\$(?P<hash>[a-zA-Z0-9/+.-]{16,86})"                                   (fullmatch)

No character class contains "$", so the fields are exactly `hash.split("$")`: six fields = with version,
five fields = without. -/
def isPhcValue (c : Nat) : Bool := isAlnum c || c = 47 || c = 43 || c = 46 || c = 45

def phcNameOk (s : Str) : Bool := 1 ≤ s.length && s.length ≤ 32 && s.all isLowerDigitDash

/-- one `name=value` item → (name, value) -/
def phcItem (item : Str) : Option (Str × Str) :=
  match splitChar 61 item with
  | [n, v] => if phcNameOk n && !v.isEmpty && v.all isPhcValue then some (n, v) else none
  | _ => none

def phcParams (params : Str) : Option (List (Str × Str)) := (splitChar 44 params).mapM phcItem

/-- `(\$v=(?P<version>[0-9]+))` -/
def phcVersion (f : Str) : Option Str :=
  (lit (ofString "v=") f).bind fun ds => if !ds.isEmpty && ds.all isADigit then some ds else none

structure PhcDef where
  ids : List Str
  version : Option Int
  /-- (attribute name printed in the dump, PHC parameter name, is-int) in definition order -/
  params : List (String × Str × Bool)

def argon2Phc : PhcDef :=
  ⟨[ofString "argon2id", ofString "argon2i", ofString "argon2d"], some 19,
   [("memory_cost", ofString "m", true), ("time_cost", ofString "t", true), ("parallelism_cost", ofString "p", true)]⟩

def bcryptSha256Phc : PhcDef :=
  ⟨[ofString "bcrypt-sha256"], none,
   [("version_", ofString "v", true), ("type", ofString "t", false), ("rounds", ofString "r", true)]⟩

/-- `dict(...)` lookup: the LAST occurrence of a key wins -/
def dictGet (kvs : List (Str × Str)) (k : Str) : Option Str :=
  (kvs.reverse.find? (·.1 = k)).map (·.2)

/-- `{name: param.type(params[param.param.name]) for …}`: KeyError when a parameter is missing,
    ValueError when `int()` rejects the text.  Integers are kept as their `str()` rendering. -/
def phcConvert (kvs : List (Str × Str)) : List (String × Str × Bool) → Res (List (String × Str))
  | [] => .ok []
  | (attr, pname, isInt) :: rest =>
    match dictGet kvs pname with
    | none => .error .keyError
    | some v =>
      resBind (if isInt then (pyInt v).map fmtDec else .ok v) fun v' =>
      (phcConvert kvs rest).map ((attr, v') :: ·)

def lpPhcParse (d : PhcDef) (s : Str) : Res (Option Parsed) :=
  let go (id : Str) (ver : Option Str) (params salt hash : Str) : Res (Option Parsed) :=
    if !(phcNameOk id) then .ok none
    else match phcParams params with
      | none => .ok none
      | some kvs =>
        if !(11 ≤ salt.length && salt.length ≤ 64 && salt.all isPhcValue && 16 ≤ hash.length && hash.length ≤ 86 && hash.all isPhcValue) then .ok none
        else
          -- `int(groups["version"])`
          resBind (match ver with | none => .ok none | some ds => (pyInt ds).map some) fun version =>
          if !(d.ids.contains id && d.version == version) then .ok none
          else match phcConvert kvs d.params with
            | .ok ex => .ok (some { ident := id, salt := some salt, checksum := some hash, extra := ex })
            | .error _ => .ok none          -- `except (KeyError, ValueError): return None`
  match splitChar DOLLAR s with
  | [e, id, v, params, salt, hash] =>
    if !e.isEmpty then .ok none
    else match phcVersion v with
      | none => .ok none
      | some ds => go id (some ds) params salt hash
  | [e, id, params, salt, hash] => if !e.isEmpty then .ok none else go id none params salt hash
  | _ => .ok none

/-- `PHC.as_str` -/
def lpPhcRender (d : PhcDef) (p : Parsed) : Res Str :=
  let params := joinChar 44 ((d.params.zip p.extra).map fun (df, kv) => df.2.1 ++ 61 :: kv.2)
  let head := DOLLAR :: p.ident
  let parts := (match d.version with | some v => [head, ofString "v=" ++ fmtDec v] | none => [head]) ++
    [params, p.salt.getD [], p.checksum.getD []]
  .ok (joinChar DOLLAR parts)

def lpPhc (name : String) (d : PhcDef) : FormatE :=
  ⟨name, lpPhcParse d, lpPhcRender d, fun s => match lpPhcParse d s with | .ok (some _) => true | _ => false⟩

def lp_phc_argon2 : FormatE := lpPhc "lp_phc_argon2" argon2Phc
def lp_phc_bcrypt_sha256 : FormatE := lpPhc "lp_phc_bcrypt_sha256" bcryptSha256Phc

def libpassAllE : List FormatE :=
  [lp_sha256, lp_sha512, lp_bcrypt, lp_pbkdf2_sha256, lp_pbkdf2_sha512, lp_phc_argon2, lp_phc_bcrypt_sha256]

end Model.Formats
