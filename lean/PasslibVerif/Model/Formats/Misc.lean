import PasslibVerif.Model.Formats.MiscLibpass
import PasslibVerif.Model.Formats.MiscPasslib
import PasslibVerif.Model.Formats.MiscScram
/-
The "Misc" format family: scrypt, scram, fshp, argon2 (+ django_argon2) of passlib and the inspection helpers of
libpass.  `miscAllE` keeps the error kinds (used by the driver), `miscAll` is the family as plain `Format`s.
-/
namespace Model.Formats

def miscAllE : List FormatE := passlibMiscAllE ++ [scram] ++ libpassAllE

def miscAll : List Format := miscAllE.map FormatE.toFormat

/-- per-format domain restrictions of the models (outside: the driver answers `unmodelled`) -/
def miscDomain : List (String × (Model.Handler.Str → Bool)) := [("scram", scramModelled)]

end Model.Formats
