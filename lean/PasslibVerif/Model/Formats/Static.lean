import PasslibVerif.Model.Formats.Md5Sha2
import PasslibVerif.Model.B64
import PasslibVerif.Model.Disabled
import PasslibVerif.Py.Str
import PasslibVerif.Gen.StaticFmt
/-
The `Static` family: hashers built on `StaticHandler` (the whole hash is the checksum, after `_norm_hash` and an
optional constant prefix), the fixed-layout hex / base64 formats (oracle11, mssql2000/2005, ldap_salted_*,
cisco_type7), the handlers that are not GenericHandlers (plaintext, ldap_plaintext, htdigest, unix_disabled) and
the generic `PrefixWrapper`.

Sources: passlib/utils/handlers.py (StaticHandler.from_string / to_string / _norm_hash, GenericHandler.identify /
_norm_checksum, HasSalt._norm_salt, PrefixWrapper._wrap_hash / _unwrap_hash / identify) and
passlib/handlers/{digests,windows,mysql,oracle,postgres,mssql,ldap_digests,misc,roundup,cisco,django}.py.
`none` = ValueError.
-/
namespace Model.Formats
open Py Model.Handler

def hexChars : List Nat := Gen.StaticFmt.HEX_CHARS
def upperHex : List Nat := Gen.StaticFmt.UPPER_HEX_CHARS
def lowerHex : List Nat := Gen.StaticFmt.LOWER_HEX_CHARS
def paddedB64 : List Nat := Gen.StaticFmt.PADDED_BASE64_CHARS

/-- what `_norm_hash` does to the case of the whole string -/
inductive CaseNorm | keep | lower | upper
  deriving DecidableEq, Repr

def CaseNorm.apply : CaseNorm → Str → Str
  | .keep, s => s
  | .lower, s => pyLower s
  | .upper, s => pyUpper s

/-! ### StaticHandler -/

/-- `StaticHandler.from_string`: `_norm_hash`, strip `_hash_prefix` (InvalidHashError when absent), then
    `cls(checksum=rest)` → `_norm_checksum` (size when declared non-zero, alphabet when declared) -/
def staticParse (norm : CaseNorm) (ident pfx : Str) (size : Option Nat) (chars : Option (List Nat)) (h : Str) : Option Parsed :=
  (stripPrefix pfx (norm.apply h)).bind fun body =>
  (normChecksum size chars body).map fun c => { ident := ident, checksum := some c }

/-- `StaticHandler.to_string`: `_hash_prefix + checksum` -/
def staticRender (pfx : Str) (p : Parsed) : Str := pfx ++ p.checksum.getD []

/-- `GenericHandler.identify` without ident / regex: non-empty and `from_string` does not raise ValueError -/
def identByParse (parse : Str → Option Parsed) (h : Str) : Bool := !h.isEmpty && (parse h).isSome

/-- a StaticHandler without `ident`: identified by parsing -/
def staticFormat (name : String) (norm : CaseNorm) (pfx : Str) (size : Option Nat) (chars : Option (List Nat)) : Format :=
  ⟨name, staticParse norm [] pfx size chars, staticRender pfx, identByParse (staticParse norm [] pfx size chars)⟩

/-- plain hex digests (digests.py `HexDigestHash`, windows.py, mysql323): lower-cased, then size + HEX_CHARS -/
def hexLowerFormat (name : String) (size : Nat) : Format := staticFormat name .lower [] (some size) (some hexChars)

def hex_md4 : Format := hexLowerFormat "hex_md4" 32
def hex_md5 : Format := hexLowerFormat "hex_md5" 32
def hex_sha1 : Format := hexLowerFormat "hex_sha1" 40
def hex_sha256 : Format := hexLowerFormat "hex_sha256" 64
def hex_sha512 : Format := hexLowerFormat "hex_sha512" 128
def nthash : Format := hexLowerFormat "nthash" 32
def lmhash : Format := hexLowerFormat "lmhash" 32
def msdcc : Format := hexLowerFormat "msdcc" 32
def msdcc2 : Format := hexLowerFormat "msdcc2" 32
def mysql323 : Format := hexLowerFormat "mysql323" 16

/-- mysql41: the whole string is upper-cased, then `*` + 40 hex -/
def mysql41 : Format := staticFormat "mysql41" .upper [42] (some 40) (some hexChars)
/-- oracle10: upper-cased 16 hex -/
def oracle10 : Format := staticFormat "oracle10" .upper [] (some 16) (some hexChars)
/-- postgres_md5: `md5` + 32 hex, NO case normalisation (upper-case digits are kept as they are) -/
def postgres_md5 : Format := staticFormat "postgres_md5" .keep (ofString "md5") (some 32) (some hexChars)
/-- cisco_pix / cisco_asa: 16 hash64 characters -/
def cisco_pix : Format := staticFormat "cisco_pix" .keep [] (some 16) (some h64)
def cisco_asa : Format := staticFormat "cisco_asa" .keep [] (some 16) (some h64)

/-- ldap_md5 / ldap_sha1 (`_Base64DigestHelper`): `ident` doubles as `_hash_prefix`; NO checksum size, alphabet
    PADDED_BASE64_CHARS; identified by the ident alone -/
def ldapB64Format (name : String) (ident : Str) : Format :=
  ⟨name, staticParse .keep ident ident none (some paddedB64), staticRender ident, identByPrefix ident⟩
def ldap_md5 : Format := ldapB64Format "ldap_md5" (ofString "{MD5}")
def ldap_sha1 : Format := ldapB64Format "ldap_sha1" (ofString "{SHA}")

/-- django_disabled: `!` + anything; its own `identify` is `startswith("!")` -/
def django_disabled : Format :=
  ⟨"django_disabled", staticParse .keep [] Gen.Disabled.djangoPrefix none none, staticRender Gen.Disabled.djangoPrefix,
   Model.Disabled.djangoIdentify⟩

/-! ### hex helpers (binascii.hexlify / unhexlify) -/
def hexValN (c : Nat) : Option Nat :=
  if 48 ≤ c ∧ c ≤ 57 then some (c - 48)
  else if 97 ≤ c ∧ c ≤ 102 then some (c - 87)
  else if 65 ≤ c ∧ c ≤ 70 then some (c - 55)
  else none

/-- `unhexlify(s.encode("utf-8"))`: odd length or a foreign character is `binascii.Error` (a ValueError) -/
def unhexlify : Str → Option Bytes
  | [] => some []
  | [_] => none
  | a :: b :: rest =>
    (hexValN a).bind fun x => (hexValN b).bind fun y => (unhexlify rest).map fun r => (x * 16 + y) :: r

def hexDigitUpper (n : Nat) : Nat := if n < 10 then 48 + n else 55 + n

/-- `hexlify(raw).upper()` -/
def hexlifyUpper (bs : Bytes) : Str := bs.flatMap fun b => [hexDigitUpper (b / 16 % 16), hexDigitUpper (b % 16)]

/-! ### oracle11: `S:` + 40 hex (checksum) + 20 hex (salt), matched by an IGNORECASE regex -/
def oracle11Parse (h : Str) : Option Parsed :=
  match dollarEnd h with
  | s :: c :: body =>
    if Gen.PyCase.capSIgnoreCase.contains s && c == 58 && body.length == 60 && allIn Gen.PyCase.hexIgnoreCase body then
      -- cls(salt=salt, checksum=chk.upper()): the salt is NOT upper-cased and must already be upper-case hex
      (normChecksum (some 40) (some upperHex) (pyUpper (body.take 40))).bind fun chk =>
      (normSalt (some upperHex) 20 (some 20) false (body.drop 40)).map fun salt =>
        { salt := some salt, checksum := some chk }
    else none
  | _ => none

def oracle11Render (p : Parsed) : Str := ofString "S:" ++ pyUpper (p.checksum.getD []) ++ pyUpper (p.salt.getD [])

/-- `_hash_regex.match` on its own (GenericHandler.identify) -/
def oracle11Identify (h : Str) : Bool :=
  !h.isEmpty &&
  match dollarEnd h with
  | s :: c :: body => Gen.PyCase.capSIgnoreCase.contains s && c == 58 && body.length == 60 && allIn Gen.PyCase.hexIgnoreCase body
  | _ => false

def oracle11 : Format := ⟨"oracle11", oracle11Parse, oracle11Render, oracle11Identify⟩

/-! ### mssql2000 / mssql2005: `0x0100` + hex(salt[4] + checksum) -/
def MSSQL_IDENT : Str := ofString "0x0100"

def mssqlIdentify (csize : Nat) (h : Str) : Bool := h.length == csize && MSSQL_IDENT.isPrefixOf h

def mssqlParse (csize chkSize : Nat) (h : Str) : Option Parsed :=
  if mssqlIdentify csize h then
    (unhexlify (h.drop 6)).bind fun data =>
    (normChecksum (some chkSize) none (data.drop 4)).bind fun chk =>
    (normSalt none 4 (some 4) false (data.take 4)).map fun salt =>
      { salt := some salt, checksum := some chk }
  else none

def mssqlRender (p : Parsed) : Str := MSSQL_IDENT ++ hexlifyUpper (p.salt.getD [] ++ p.checksum.getD [])

def mssql2000 : Format := ⟨"mssql2000", mssqlParse 94 40, mssqlRender, mssqlIdentify 94⟩
def mssql2005 : Format := ⟨"mssql2005", mssqlParse 54 20, mssqlRender, mssqlIdentify 54⟩

/-! ### ldap_salted_* : ident + base64(checksum + salt), salt of 4..16 bytes -/
def stdB64 : List Nat := Spec.Rfc4648.stdAlphabet

/-- `base64.b64decode` (non-strict `binascii.a2b_base64`) on `run ++ "=" * pads`, `run` over the standard alphabet:
    complete quads ignore any padding; a 2-character tail needs two pads, a 3-character tail one; a 1-character
    tail is always an error.  Unused low bits of a tail are dropped silently. -/
def b64decodeLenient (run : Str) (pads : Nat) : Option Bytes :=
  (Model.B64.decodeAll stdB64 run).bind fun vs =>
    let r := vs.length % 4
    if r = 1 ∨ (r = 2 ∧ pads < 2) ∨ (r = 3 ∧ pads < 1) then none else Spec.Rfc4648.ungroups64 vs

/-- the regex `^ident(?P<tmp>[+/a-zA-Z0-9]{minChars,}={0,2})$` followed by `b64decode`, then
    `cls(checksum=data[:cs], salt=data[cs:])` -/
def ldapSaltedParse (ident : Str) (minChars cs : Nat) (h : Str) : Option Parsed :=
  (stripPrefix ident (dollarEnd h)).bind fun body =>
  let run := body.takeWhile (stdB64.contains ·)
  let pads := body.dropWhile (stdB64.contains ·)
  if run.length < minChars ∨ pads.length > 2 ∨ !pads.all (· == 61) then none else
  (b64decodeLenient run pads.length).bind fun data =>
  (normChecksum (some cs) none (data.take cs)).bind fun chk =>
  (normSalt none 4 (some 16) false (data.drop cs)).map fun salt =>
    { ident := ident, salt := some salt, checksum := some chk }

def ldapSaltedRender (p : Parsed) : Str := p.ident ++ Spec.Rfc4648.base64 (p.checksum.getD [] ++ p.salt.getD [])

def ldapSaltedFormat (name : String) (ident : Str) (minChars cs : Nat) : Format :=
  ⟨name, ldapSaltedParse ident minChars cs, ldapSaltedRender, identByPrefix ident⟩

def ldap_salted_md5 : Format := ldapSaltedFormat "ldap_salted_md5" (ofString "{SMD5}") 27 16
def ldap_salted_sha1 : Format := ldapSaltedFormat "ldap_salted_sha1" (ofString "{SSHA}") 32 20
def ldap_salted_sha256 : Format := ldapSaltedFormat "ldap_salted_sha256" (ofString "{SSHA256}") 48 32
def ldap_salted_sha512 : Format := ldapSaltedFormat "ldap_salted_sha512" (ofString "{SSHA512}") 91 64

/-! ### cisco_type7: two characters through `int()` (the salt, 0..52) + upper-cased hex -/
def cisco7Parse (h : Str) : Option Parsed :=
  if h.length < 2 then none else
  (pyIntOfStr (h.take 2)).bind fun salt =>
  (normChecksum none (some upperHex) (pyUpper (h.drop 2))).bind fun chk =>
    if 0 ≤ salt ∧ salt ≤ (Gen.StaticFmt.cisco7MaxSalt : Int) then some { salt := some [salt.toNat], checksum := some chk } else none

/-- `"%02d%s" % (salt, checksum)` -/
def cisco7Render (p : Parsed) : Str := fmtZeroPad 2 (((p.salt.getD []).headD 0 : Nat) : Int) ++ p.checksum.getD []

def cisco_type7 : Format := ⟨"cisco_type7", cisco7Parse, cisco7Render, identByParse cisco7Parse⟩

/-! ### handlers that are not GenericHandlers: the "parse" is the validation `verify` applies to the stored string -/
def wholeParse (ok : Str → Bool) (h : Str) : Option Parsed := if ok h then some { checksum := some h } else none
def wholeRender (p : Parsed) : Str := p.checksum.getD []

/-- plaintext: every string -/
def plaintext : Format := ⟨"plaintext", wholeParse fun _ => true, wholeRender, fun _ => true⟩

/-- `^\{\w+\}.*$` (re.match): `{`, a maximal non-empty run of word characters, `}`, then no newline except a final one -/
def rfc2307Match (h : Str) : Bool :=
  match h with
  | 123 :: rest =>
    let w := rest.takeWhile isWord
    match rest.dropWhile isWord with
    | 125 :: tail => !w.isEmpty && (dollarEnd tail).all isDot
    | _ => false
  | _ => false

def ldapPlaintextIdentify (h : Str) : Bool := !h.isEmpty && !rfc2307Match h
def ldap_plaintext : Format := ⟨"ldap_plaintext", wholeParse ldapPlaintextIdentify, wholeRender, ldapPlaintextIdentify⟩

/-- htdigest `_norm_hash`: exactly 32 LOWER-case hex characters (no case folding) -/
def htdigestOk (h : Str) : Bool := h.length == 32 && allIn lowerHex h
def htdigest : Format := ⟨"htdigest", wholeParse htdigestOk, wholeRender, htdigestOk⟩

def unix_disabled : Format := ⟨"unix_disabled", wholeParse Model.Disabled.unixIdentify, wholeRender, Model.Disabled.unixIdentify⟩

/-! ### PrefixWrapper -/
/-- `_unwrap_hash`: InvalidHashError unless the hash starts with `prefix`; `orig_prefix + rest` -/
def unwrapHash (pfx orig h : Str) : Option Str := (stripPrefix pfx h).map (orig ++ ·)
/-- `_wrap_hash`: InvalidHashError unless the inner hash starts with `orig_prefix`; `prefix + rest` -/
def wrapHash (pfx orig h : Str) : Option Str := (stripPrefix orig h).map (pfx ++ ·)

/-- a PrefixWrapper around `inner`: parse = inner.from_string ∘ _unwrap_hash, render = _wrap_hash ∘ inner.to_string
    (`[]` stands for the InvalidHashError `_wrap_hash` raises when the inner string lacks `orig_prefix`),
    identify = `startswith(prefix)` and the inner identify of the unwrapped string -/
def wrapFormat (name : String) (pfx orig : Str) (inner : Format) : Format :=
  { name := name
    parse := fun h => (unwrapHash pfx orig h).bind inner.parse
    render := fun p => (wrapHash pfx orig (inner.render p)).getD []
    identify := fun h => match unwrapHash pfx orig h with
      | some u => inner.identify u
      | none => false }

def CRYPT : Str := ofString "{CRYPT}"
/-- the `ldap_<crypt scheme>` wrappers -/
def ldapCrypt (inner : Format) : Format := wrapFormat ("ldap_" ++ inner.name) CRYPT [] inner

def bsd_nthash : Format := wrapFormat "bsd_nthash" (ofString "$3$$") [] nthash
def roundup_plaintext : Format := wrapFormat "roundup_plaintext" (ofString "{plaintext}") [] plaintext
def ldap_hex_md5 : Format := wrapFormat "ldap_hex_md5" (ofString "{MD5}") [] hex_md5
def ldap_hex_sha1 : Format := wrapFormat "ldap_hex_sha1" (ofString "{SHA}") [] hex_sha1
def ldap_md5_crypt : Format := ldapCrypt md5_crypt
def ldap_sha256_crypt : Format := ldapCrypt sha256_crypt
def ldap_sha512_crypt : Format := ldapCrypt sha512_crypt

def staticAll : List Format :=
  [hex_md4, hex_md5, hex_sha1, hex_sha256, hex_sha512, nthash, lmhash, bsd_nthash, msdcc, msdcc2, mysql323, mysql41,
   oracle10, oracle11, postgres_md5, mssql2000, mssql2005, ldap_md5, ldap_sha1, ldap_salted_md5, ldap_salted_sha1,
   ldap_salted_sha256, ldap_salted_sha512, ldap_plaintext, plaintext, roundup_plaintext, ldap_hex_md5, ldap_hex_sha1,
   ldap_md5_crypt, ldap_sha256_crypt, ldap_sha512_crypt, cisco_pix, cisco_asa, cisco_type7, htdigest, unix_disabled,
   django_disabled]

end Model.Formats
