import PasslibVerif.Gen.Blowfish
import PasslibVerif.Model.B64
import PasslibVerif.Spec.Bcrypt
/-
Transcription of /repo/passlib/crypto/_blowfish/base.py (`BlowfishEngine`), of the control
skeleton of /repo/passlib/crypto/_blowfish/unrolled.py around the GENERATED straight-line
bodies (`Gen.Blowfish`), and of `raw_bcrypt` in /repo/passlib/crypto/_blowfish/__init__.py.

Python ints are `Nat`, `bytes` are `List Nat` (< 256 each).  `self.P` is a `List Nat`
(18 entries), `self.S` an `Array (Array Nat)` (4 x 256) -- Lean arrays are the counterpart
of the Python lists that are mutated in place.  The engine state type is shared with the
specification (`Spec.Bcrypt.State` is just the record of `P` and `S`).

Method dispatch.  `raw_bcrypt` instantiates `unrolled.BlowfishEngine`, which overrides
`encipher` and `expand` and inherits `key_to_words`, `eks_salted_expand`,
`eks_repeated_expand`, `repeat_encipher`; inside the inherited methods `self.encipher` /
`self.expand` resolve to the overriding versions.  `Impl` selects the class.

`while` loops with a counter are rendered as `foldl` over the list of counter values.
Every function is total; `ValueError`s of `raw_bcrypt` are `Except.error msg`.
-/
namespace Model.Blowfish
open Gen.Blowfish

/-- engine state (`self.P`, `self.S`) -/
abbrev Engine := Spec.Bcrypt.State

/-- `BlowfishEngine.__init__`: `self.P = list(BLOWFISH_P); self.S = [list(box) for box in BLOWFISH_S]` -/
def Engine.init : Engine :=
  { P := BLOWFISH_P, S := (BLOWFISH_S.map List.toArray).toArray }

/-- `self.S[i]` -/
def box (e : Engine) (i : Nat) : Array Nat := e.S.getD i #[]

/-- which class: base.py's `BlowfishEngine` or unrolled.py's subclass -/
inductive Impl
  | base | unrolled
  deriving DecidableEq, Repr

/-! ## `key_to_words` -/

/-- `passlib.utils.repeat_string(source, size)` for non-empty `source`:
    `mult = 1 + (size - 1) // len(source); return (source * mult)[:size]` -/
def repeatString (source : List Nat) (size : Nat) : List Nat :=
  let mult := 1 + (size - 1) / source.length
  ((List.replicate mult source).flatten).take size

/-- `struct.unpack(">%dI" % size, data)` for `len(data) == 4 * size` -/
def unpackBE (size : Nat) (data : List Nat) : List Nat :=
  (List.range size).map fun i =>
    (data.getD (4 * i) 0 <<< 24) ||| (data.getD (4 * i + 1) 0 <<< 16)
      ||| (data.getD (4 * i + 2) 0 <<< 8) ||| data.getD (4 * i + 3) 0

/-- ```
    def key_to_words(data, size=18):
        dlen = len(data)
        if not dlen: return [0] * size
        data = repeat_string(data, size << 2)
        return struct.unpack(">%dI" % (size,), data)
    ``` -/
def keyToWords (data : List Nat) (size : Nat := 18) : List Nat :=
  if data.length = 0 then List.replicate size 0
  else unpackBE size (repeatString data (size <<< 2))

/-! ## `encipher` -/

/-- base.py, loop version:
    ```
    P, S = self.P, self.S
    l ^= P[0]
    i = 1
    while i < 17:
        r = ((((S[0][l >> 24] + S[1][(l >> 16) & 0xFF]) ^ S[2][(l >> 8) & 0xFF])
              + S[3][l & 0xFF]) & 0xFFFFFFFF) ^ P[i] ^ r
        l, r = r, l
        i += 1
    return r ^ P[17], l
    ``` -/
def encipherLoop (e : Engine) (l r : Nat) : Nat × Nat :=
  let P := e.P
  let l := l ^^^ lookupL P 0
  let lr := (List.range' 1 16).foldl (fun (lr : Nat × Nat) i =>
      let l := lr.1
      let r := lr.2
      let r := ((((lookup (box e 0) (l >>> 24) + lookup (box e 1) ((l >>> 16) &&& 0xFF))
                    ^^^ lookup (box e 2) ((l >>> 8) &&& 0xFF))
                  + lookup (box e 3) (l &&& 0xFF)) &&& 0xFFFFFFFF) ^^^ lookupL P i ^^^ r
      (r, l)) (l, r)
  (lr.2 ^^^ lookupL P 17, lr.1)

/-- unrolled.py `encipher` (generated body) on the engine state -/
def encipherUnrolled (e : Engine) (l r : Nat) : Nat × Nat :=
  Gen.Blowfish.encipher e.P (box e 0) (box e 1) (box e 2) (box e 3) l r

/-- `self.encipher` -/
def encipher : Impl → Engine → Nat → Nat → Nat × Nat
  | .base => encipherLoop
  | .unrolled => encipherUnrolled

/-! ## in-place writes -/

/-- `P[i], P[i + 1] = l, r` -/
def setP (e : Engine) (i : Nat) (lr : Nat × Nat) : Engine :=
  { e with P := (e.P.set i lr.1).set (i + 1) lr.2 }

/-- `box[i], box[i + 1] = l, r` where `box` is `self.S[b]` -/
def setBox (e : Engine) (b i : Nat) (lr : Nat × Nat) : Engine :=
  { e with S := e.S.modify b fun box => (box.setIfInBounds i lr.1).setIfInBounds (i + 1) lr.2 }

/-- `i = 0; while i < 18: P[i] ^= key_words[i]; i += 1` -/
def xorKeyWords (P key_words : List Nat) : List Nat :=
  (List.range 18).foldl (fun P i => P.set i (lookupL P i ^^^ lookupL key_words i)) P

/-- loop state of the key-schedule loops: engine, running block `l, r`, salt index `s` -/
structure Loop where
  e : Engine
  l : Nat
  r : Nat
  s : Nat := 0

/-! ## base.py `expand` -/

/-- ```
    i = 0
    while i < 18: P[i] ^= key_words[i]; i += 1
    i = l = r = 0
    while i < 18:
        P[i], P[i + 1] = l, r = encipher(l, r)
        i += 2
    for box in S:
        i = 0
        while i < 256:
            box[i], box[i + 1] = l, r = encipher(l, r)
            i += 2
    ```
    `enc` is the bound method `self.encipher` (it reads the engine being mutated). -/
def expandBase (enc : Engine → Nat → Nat → Nat × Nat) (e : Engine) (key_words : List Nat) : Engine :=
  let e : Engine := { e with P := xorKeyWords e.P key_words }
  let st : Loop := (List.range 9).foldl (fun (st : Loop) k =>
      let i := 2 * k
      let lr := enc st.e st.l st.r
      { st with e := setP st.e i lr, l := lr.1, r := lr.2 }) { e := e, l := 0, r := 0 }
  let st : Loop := (List.range 4).foldl (fun (st : Loop) b =>
      (List.range 128).foldl (fun (st : Loop) k =>
        let i := 2 * k
        let lr := enc st.e st.l st.r
        { st with e := setBox st.e b i lr, l := lr.1, r := lr.2 }) st) st
  st.e

/-! ## unrolled.py `expand` -/

/-- skeleton of unrolled.py `expand` around the generated pieces:
    `Gen.Blowfish.expandP` (everything up to `P[:] = (p0, .., p17)`), then
    ```
    for box in S:
        j = 0
        while j < 256:
            <Gen.Blowfish.expandSBody>            # uses the locals p0..p17 and S0..S3
            box[j], box[j + 1] = l, r = r ^ p17, l
            j += 2
    ```
    `S0..S3` alias the boxes that are being written, so every iteration reads the current
    engine. -/
def expandUnrolled (e : Engine) (key_words : List Nat) : Engine :=
  let pl := expandP e.P key_words (box e 0) (box e 1) (box e 2) (box e 3)
  let P := pl.1
  let e : Engine := { e with P := P }
  let st : Loop := (List.range 4).foldl (fun (st : Loop) b =>
      (List.range (expandBoxLimit / expandBoxStep)).foldl (fun (st : Loop) k =>
        let j := expandBoxStep * k
        let lr := expandSBody (lookupL P 0) (lookupL P 1) (lookupL P 2) (lookupL P 3) (lookupL P 4)
          (lookupL P 5) (lookupL P 6) (lookupL P 7) (lookupL P 8) (lookupL P 9) (lookupL P 10)
          (lookupL P 11) (lookupL P 12) (lookupL P 13) (lookupL P 14) (lookupL P 15) (lookupL P 16)
          (lookupL P 17) (box st.e 0) (box st.e 1) (box st.e 2) (box st.e 3) st.l st.r
        { st with e := setBox st.e b j lr, l := lr.1, r := lr.2 }) st)
    { e := e, l := pl.2.1, r := pl.2.2 }
  st.e

/-- `self.expand` -/
def expand : Impl → Engine → List Nat → Engine
  | .base => expandBase encipherLoop
  | .unrolled => expandUnrolled

/-! ## `eks_salted_expand`, `eks_repeated_expand`, `repeat_encipher` (base.py, inherited) -/

/-- the common loop body
    ```
    l ^= salt_words[s]
    r ^= salt_words[s + 1]
    s += 2
    if s == salt_size: s = 0
    … = l, r = encipher(l, r)
    ``` -/
def saltedStep (enc : Engine → Nat → Nat → Nat × Nat) (salt_words : List Nat) (st : Loop) : Loop × (Nat × Nat) :=
  let salt_size := salt_words.length
  let l := st.l ^^^ lookupL salt_words st.s
  let r := st.r ^^^ lookupL salt_words (st.s + 1)
  let s := st.s + 2
  let s := if s = salt_size then 0 else s
  let lr := enc st.e l r
  ({ st with l := lr.1, r := lr.2, s := s }, lr)

/-- ```
    salt_size = len(salt_words)
    i = 0
    while i < 18: P[i] ^= key_words[i]; i += 1
    s = i = l = r = 0
    while i < 18:
        <saltedStep>;  P[i], P[i + 1] = l, r
        i += 2
    for box in S:
        i = 0
        while i < 256:
            <saltedStep>;  box[i], box[i + 1] = l, r
            i += 2
    ``` -/
def eksSaltedExpand (enc : Engine → Nat → Nat → Nat × Nat) (e : Engine) (key_words salt_words : List Nat) : Engine :=
  let e : Engine := { e with P := xorKeyWords e.P key_words }
  let st : Loop := (List.range 9).foldl (fun (st : Loop) k =>
      let i := 2 * k
      let sl := saltedStep enc salt_words st
      { sl.1 with e := setP sl.1.e i sl.2 }) { e := e, l := 0, r := 0, s := 0 }
  let st : Loop := (List.range 4).foldl (fun (st : Loop) b =>
      (List.range 128).foldl (fun (st : Loop) k =>
        let i := 2 * k
        let sl := saltedStep enc salt_words st
        { sl.1 with e := setBox sl.1.e b i sl.2 }) st) st
  st.e

/-- `while n < rounds: expand(key_words); expand(salt_words); n += 1` -/
def eksRepeatedExpand (expand : Engine → List Nat → Engine) (e : Engine) (key_words salt_words : List Nat) : Nat → Engine
  | 0 => e
  | rounds + 1 => eksRepeatedExpand expand (expand (expand e key_words) salt_words) key_words salt_words rounds

/-- `while n < count: l, r = encipher(l, r); n += 1` -/
def repeatEncipher (enc : Engine → Nat → Nat → Nat × Nat) (e : Engine) (l r : Nat) : Nat → Nat × Nat
  | 0 => (l, r)
  | count + 1 => let lr := enc e l r; repeatEncipher enc e lr.1 lr.2 count

/-! ## `raw_bcrypt` -/

/-- `digest_struct.pack(*data)` with `digest_struct = struct.Struct(">6I")` -/
def packBE (data : List Nat) : List Nat :=
  data.flatMap fun w => [(w >>> 24) &&& 0xFF, (w >>> 16) &&& 0xFF, (w >>> 8) &&& 0xFF, w &&& 0xFF]

/-- ```
    data = list(BCRYPT_CDATA)
    i = 0
    while i < 6:
        data[i], data[i + 1] = engine.repeat_encipher(data[i], data[i + 1], 64)
        i += 2
    ``` -/
def encipherCData (enc : Engine → Nat → Nat → Nat × Nat) (e : Engine) : List Nat :=
  [0, 2, 4].foldl (fun data i =>
      let lr := repeatEncipher enc e (lookupL data i) (lookupL data (i + 1)) 64
      (data.set i lr.1).set (i + 1) lr.2) BCRYPT_CDATA

/-- the `ident` dispatch at the top of `raw_bcrypt`: `.ok add_null_padding` or the ValueError -/
def parseIdent (ident : String) : Except String Bool :=
  if ident = "2a" ∨ ident = "2y" ∨ ident = "2b" then .ok true
  else if ident = "2" then .ok false
  else if ident = "2x" then .error "crypt_blowfish's buggy '2x' hashes are not currently supported"
  else .error ("unknown ident: '" ++ ident ++ "'")

/-- `raw_bcrypt(password, ident, salt, log_rounds)`; `salt` is the bcrypt-base64 text.
    Order of checks as in the source: ident, salt decoding (`bcrypt64.decode_bytes` raises
    ValueError for a bad length / character), `len(salt) < 16`, then `log_rounds`. -/
def rawBcrypt (impl : Impl) (password : List Nat) (ident : String) (salt : List Nat) (log_rounds : Nat) :
    Except String (List Nat) :=
  match parseIdent ident with
  | .error m => .error m
  | .ok add_null_padding =>
    match Model.B64.decodeBytes Model.B64.bcrypt64 salt with
    | .error k => .error ("bcrypt64.decode_bytes: " ++ k.name)
    | .ok salt =>
      if salt.length < 16 then .error "Missing salt bytes"
      else
        let salt := salt.take 16                                         -- salt = salt[:16]
        let password := if add_null_padding then password ++ BNULL else password
        if log_rounds < 4 ∨ log_rounds > 31 then .error "Bad number of rounds"
        else
          let engine := Engine.init
          let pass_words := keyToWords password
          let salt_words := keyToWords salt
          let salt_words16 := salt_words.take 4                          -- salt_words[:4]
          let engine := eksSaltedExpand (encipher impl) engine pass_words salt_words16
          let rounds := 1 <<< log_rounds
          let engine := eksRepeatedExpand (expand impl) engine pass_words salt_words rounds
          let data := encipherCData (encipher impl) engine
          let raw := (packBE data).dropLast                              -- digest_struct.pack(*data)[:-1]
          .ok (Model.B64.encodeBytes Model.B64.bcrypt64 raw)

end Model.Blowfish
