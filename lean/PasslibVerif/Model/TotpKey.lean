import PasslibVerif.Model.B64
import PasslibVerif.Gen.Totp
/- `_decode_bytes(key, format)` and the key renderers of passlib.totp -/
namespace Model.TotpKey
open Py Gen.Totp Model.B64

/-- `_clean_re.sub("", key)`: drop whitespace, '-' and '=' -/
def clean (cps : List Nat) : List Nat := cps.filter (fun c => !cleanRemoved.contains c)

def hexDigitUpper (n : Nat) : Nat := if n < 10 then 48 + n else 55 + n
def hexDigitLower (n : Nat) : Nat := if n < 10 then 48 + n else 87 + n

/-- `base64.b16encode(key)` (upper case) -/
def b16encode (bs : Bytes) : List Nat := bs.flatMap fun b => [hexDigitUpper (b / 16), hexDigitUpper (b % 16)]

def hexValUpper (c : Nat) : Option Nat :=
  if 48 ≤ c ∧ c ≤ 57 then some (c - 48) else if 65 ≤ c ∧ c ≤ 70 then some (c - 55) else none

/-- `base64.b16decode(s)` (strict upper-case alphabet, even length; otherwise binascii.Error) -/
def b16decode : List Nat → Res Bytes
  | [] => .ok []
  | [_] => .error .valueError
  | a :: b :: rest =>
    match hexValUpper a, hexValUpper b, b16decode rest with
    | some x, some y, .ok r => .ok ((x * 16 + y) :: r)
    | _, _, _ => .error .valueError

inductive Fmt | raw | hex | base32

/-- `_decode_bytes` for text keys (code points); non-ASCII cleaned text cannot be valid hex/base32:
    it is encoded as UTF-8 in the source, and every byte ≥ 0x80 is outside both alphabets -/
def decodeKey (f : Fmt) (key : List Nat) : Res Bytes :=
  match f with
  | .raw => .ok key
  | .hex => if (clean key).any (· ≥ 128) then .error .valueError else b16decode ((clean key).map upper)
  | .base32 => if (clean key).any (· ≥ 128) then .error .valueError else b32decode (clean key)

/-- `hex_key` (lower case) and `base32_key` -/
def hexKey (k : Bytes) : List Nat := (b16encode k).map (fun c => if 65 ≤ c ∧ c ≤ 90 then c + 32 else c)
def base32Key (k : Bytes) : List Nat := b32encode k

end Model.TotpKey
