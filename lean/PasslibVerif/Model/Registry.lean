import PasslibVerif.Gen.RegistryTables
import PasslibVerif.Py.Str
/-
Model of the hasher registry (`passlib/registry.py`): `_handlers` (= the instance dict of the `passlib.hash` proxy), `_locations`,
`_validate_handler_name`, `register_crypt_handler_path`, `register_crypt_handler(handler, force, _attr)`, `get_crypt_handler(name, default)`,
`list_crypt_handlers(loaded_only)`, `_has_crypt_handler`, `_unload_handler_name`, and the proxy's attribute protocol
(`passlib.hash.<attr>`, `setattr(passlib.hash, attr, value)`, `dir(passlib.hash)`).

* names / paths are Python `str`: lists of code points;
* an object is a record: identity token, whether it has the handler attributes other than `name`, its truth value, and its `name`
  attribute (missing / a str / something that is not a str);
* the importable world is a parameter: module path ↦ `none` (ImportError) or the module's attributes.  Importing has no effect on the
  registry (none of the shipped handler modules calls `register_crypt_handler`); so after `__import__` the second `_handlers.get(name)`
  of `get_crypt_handler` still answers None and the model goes on to `getattr(mod, modattr)`;
* every operation returns (warning issued?, answer or exception, state after): the state is returned ALSO with an exception — that
  failed operations change nothing is a theorem (Props/C17Registry.lean), not built in.
The pattern of `_name_re`, the forbidden names and the shipped `_locations` table are read from the source (Gen/RegistryTables.lean).
-/
namespace Model.Registry
open Py

abbrev Name := List Nat

/-- `obj.name` -/
inductive NameAttr
  | missing                    -- no such attribute
  | str (s : Name)
  | other (truthy : Bool)      -- not a str and without `.lower` (None, an int): only its truth value matters
  deriving DecidableEq, Repr

/-- a Python object as far as the registry looks at it -/
structure Handler where
  id : Nat                     -- identity (`is`)
  attrsOk : Bool               -- has setting_kwds, context_kwds, verify, hash, identify
  truthy : Bool                -- bool(obj)
  name : NameAttr
  deriving DecidableEq, Repr

inductive Err
  | typeError            -- TypeError: handler must be password hash handler
  | assertion            -- AssertionError: bool(handler) must be True
  | nameEmpty | nameCase | nameRe | nameDunder | nameForbidden   -- the five ValueErrors of _validate_handler_name
  | attrMismatch         -- ValueError: handlers must be stored only under their own name
  | attributeError       -- AttributeError: `name.lower` of a non-str / `getattr(mod, modattr)`
  | pathDot | pathColons | pathDotAfterColon                      -- ValueErrors of register_crypt_handler_path
  | taken                -- KeyError: another handler has already been registered
  | invalidName          -- KeyError: invalid handler name (leading underscore)
  | notFound             -- KeyError: no crypt handler found
  | importError          -- ImportError from __import__
  | emptyModule          -- ValueError: Empty module name
  | unpack               -- ValueError: too many values to unpack (`path.split(":")`)
  | proxyMissing         -- AttributeError: missing attribute
  | proxyUnknown         -- AttributeError: unknown password hash
  deriving DecidableEq, Repr

inductive Val
  | none                       -- the operation returns None
  | handler (h : Handler)
  | default                    -- the caller's `default`
  | bool (b : Bool)
  | names (l : List Name)
  deriving DecidableEq, Repr

/-! ### dicts (insertion ordered) -/

def get? {α : Type} : List (Name × α) → Name → Option α
  | [], _ => none
  | (k, v) :: t, n => if k = n then some v else get? t n

/-- `d[n] = v`: an existing key keeps its position -/
def put {α : Type} : List (Name × α) → Name → α → List (Name × α)
  | [], n, v => [(n, v)]
  | (k, x) :: t, n, v => if k = n then (k, v) :: t else (k, x) :: put t n v

/-- `del d[n]` (if present) -/
def del {α : Type} : List (Name × α) → Name → List (Name × α)
  | [], _ => []
  | (k, x) :: t, n => if k = n then del t n else (k, x) :: del t n

def keys {α : Type} (l : List (Name × α)) : List Name := l.map (·.1)

structure State where
  handlers : List (Name × Handler)
  locations : List (Name × Name)
  deriving DecidableEq, Repr

/-- module path ↦ None (ImportError) | attributes -/
abbrev World := Name → Option (List (Name × Handler))

/-! ### names -/

/-- `s.startswith("_")` -/
def us (s : Name) : Bool := s.head? = some 95

/-- `name.replace("-", "_").lower()` -/
def norm (n : Name) : Name := pyLower (n.map fun c => if c = 45 then 95 else c)

def inClass (rs : List (Nat × Nat)) (c : Nat) : Bool := rs.any fun r => r.1 ≤ c && c ≤ r.2

/-- the whole string is matched by the sequence of classes (each one character, or one or more with `+`) -/
def matchItems : List Nat → List (List (Nat × Nat) × Bool) → Bool
  | [], items => items.isEmpty
  | _ :: _, [] => false
  | c :: t, (cls, plus) :: rest =>
    inClass cls c && (if plus then matchItems t ((cls, plus) :: rest) || matchItems t rest else matchItems t rest)

/-- `_name_re.match(s)`: `$` also matches in front of a final newline -/
def nameReMatch (s : Name) : Bool :=
  matchItems s Gen.RegistryTables.nameRe || (s.getLast? = some 10 && matchItems s.dropLast Gen.RegistryTables.nameRe)

/-- `"__" in s` -/
def hasDunder : Name → Bool
  | [] => false
  | c :: t => (c = 95 && t.head? = some 95) || hasDunder t

/-- `_validate_handler_name(name)` for a str -/
def validateName (s : Name) : Except Err Unit :=
  if s = [] then .error .nameEmpty
  else if pyLower s ≠ s then .error .nameCase
  else if !nameReMatch s then .error .nameRe
  else if hasDunder s then .error .nameDunder
  else if s ∈ Gen.RegistryTables.forbidden then .error .nameForbidden
  else .ok ()

def validName (s : Name) : Bool := match validateName s with | .ok _ => true | .error _ => false

/-- `_validate_handler_name(handler.name)` -/
def validateAttr : NameAttr → Except Err Name
  | .missing => .error .typeError
  | .other false => .error .nameEmpty          -- `if not name`
  | .other true => .error .attributeError      -- `name.lower()`
  | .str s => match validateName s with
    | .ok _ => .ok s
    | .error e => .error e

/-! ### the functions -/

/-- `is_crypt_handler(obj)` -/
def isCryptHandler (h : Handler) : Bool := h.attrsOk && h.name != .missing

/-- `if _attr and _attr != name` -/
def attrMismatch (attr : Option Name) (name : Name) : Bool :=
  match attr with
  | some a => a ≠ [] && a ≠ name
  | none => false

/-- the tail of `register_crypt_handler`: `other = _handlers.get(name); if other: …; _handlers[name] = handler` -/
def store (s : State) (name : Name) (h : Handler) (force : Bool) : Except Err State :=
  match get? s.handlers name with
  | some other =>
    if other.truthy then
      if other.id = h.id then .ok s
      else if force then .ok { s with handlers := put s.handlers name h }
      else .error .taken
    else .ok { s with handlers := put s.handlers name h }
  | none => .ok { s with handlers := put s.handlers name h }

/-- `register_crypt_handler(handler, force, _attr)`: the state after, or the exception -/
def register (s : State) (h : Handler) (force : Bool) (attr : Option Name) : Except Err State :=
  if !isCryptHandler h then .error .typeError
  else if !h.truthy then .error .assertion
  else match validateAttr h.name with
    | .error e => .error e
    | .ok name => if attrMismatch attr name then .error .attrMismatch else store s name h force

/-- the checks of `register_crypt_handler_path` on the path -/
def checkPath (path : Name) : Except Err Unit :=
  if path.head? = some 46 then .error .pathDot
  else if path.contains 58 then
    if path.count 58 > 1 then .error .pathColons
    else if (path.dropWhile (· ≠ 58)).contains 46 then .error .pathDotAfterColon
    else .ok ()
  else .ok ()

def registerPath (s : State) (name path : Name) : Except Err State :=
  match validateName name with
  | .error e => .error e
  | .ok _ => match checkPath path with
    | .error e => .error e
    | .ok _ => .ok { s with locations := put s.locations name path }

/-- `modname, modattr = path.split(":")` / `path, name` -/
def splitPath (path name : Name) : Except Err (Name × Name) :=
  if path.contains 58 then
    if path.count 58 > 1 then .error .unpack
    else .ok (path.takeWhile (· ≠ 58), (path.dropWhile (· ≠ 58)).drop 1)
  else .ok (path, name)

/-- the `if path:` block of `get_crypt_handler` -/
def lazyLoad (w : World) (s : State) (name path : Name) : Except Err (Handler × State) :=
  match splitPath path name with
  | .error e => .error e
  | .ok (modname, modattr) =>
    if modname = [] then .error .emptyModule
    else match w modname with
      | none => .error .importError
      | some attrs => match get? attrs modattr with
        | none => .error .attributeError
        | some h => match register s h false (some name) with
          | .error e => .error e
          | .ok s' => .ok (h, s')

abbrev Res := Bool × Except Err Val × State

def notFound (hasDefault : Bool) (e : Err) : Except Err Val := if hasDefault then .ok .default else .error e

/-- `get_crypt_handler(name[, default])` -/
def getHandler (w : World) (s : State) (n : Name) (hasDefault : Bool) : Res :=
  if us n then (false, notFound hasDefault .invalidName, s)
  else match get? s.handlers n with
    | some h => (false, .ok (.handler h), s)
    | none =>
      let alt := norm n
      let warned : Bool := alt ≠ n
      match (if warned then get? s.handlers alt else none) with
      | some h => (true, .ok (.handler h), s)
      | none => match get? s.locations alt with
        | some path =>
          if path = [] then (warned, notFound hasDefault .notFound, s)
          else match lazyLoad w s alt path with
            | .ok (h, s') => (warned, .ok (.handler h), s')
            | .error e => (warned, .error e, s)
        | none => (warned, notFound hasDefault .notFound, s)

/-- `list_crypt_handlers` sorts a set of str -/
def ltName : Name → Name → Bool
  | [], [] => false
  | [], _ :: _ => true
  | _ :: _, [] => false
  | a :: s, b :: t => a < b || (a = b && ltName s t)

def insertName (n : Name) : List Name → List Name
  | [] => [n]
  | m :: rest => if ltName n m then n :: m :: rest else if n = m then m :: rest else m :: insertName n rest

/-- `sorted(set(l))` -/
def sortNames (l : List Name) : List Name := l.foldr insertName []

def listHandlers (s : State) (loadedOnly : Bool) : List Name :=
  sortNames ((keys s.handlers ++ (if loadedOnly then [] else keys s.locations)).filter fun n => !us n)

def hasHandler (s : State) (n : Name) (loadedOnly : Bool) : Bool :=
  (get? s.handlers n).isSome || (!loadedOnly && (get? s.locations n).isSome)

def unload (s : State) (n : Name) (locations : Bool) : State :=
  { handlers := del s.handlers n, locations := if locations then del s.locations n else s.locations }

/-- `passlib.hash.<attr>`: the instance dict first (it IS `_handlers`), then `__getattr__`.  (For attributes of the proxy CLASS — all of
    them start with an underscore — normal lookup answers; the model covers the other names.) -/
def proxyGet (w : World) (s : State) (a : Name) : Res :=
  match get? s.handlers a with
  | some h => (false, .ok (.handler h), s)
  | none =>
    if us a then (false, .error .proxyMissing, s)
    else match getHandler w s a true with
      | (wn, .ok (.handler h), s') => if h.truthy then (wn, .ok (.handler h), s') else (wn, .error .proxyUnknown, s')
      | (wn, .ok _, s') => (wn, .error .proxyUnknown, s')
      | (wn, .error e, s') => (wn, .error e, s')

/-- `setattr(passlib.hash, attr, value)` -/
def proxySet (s : State) (a : Name) (v : Handler) : Except Err State :=
  if us a then .ok { s with handlers := put s.handlers a v }
  else register s v false (some a)

/-- `dir(passlib.hash)` without the attributes of the proxy class -/
def proxyDir (s : State) : List Name := sortNames (keys s.handlers ++ keys s.locations)

inductive Op
  | register (h : Handler) (force : Bool) (attr : Option Name)
  | registerPath (name path : Name)
  | get (name : Name) (hasDefault : Bool)
  | list (loadedOnly : Bool)
  | has (name : Name) (loadedOnly : Bool)
  | unload (name : Name) (locations : Bool)
  | proxyGet (attr : Name)
  | proxySet (attr : Name) (v : Handler)
  | proxyDir
  deriving DecidableEq, Repr

def ofState (s : State) : Except Err State → Res
  | .ok s' => (false, .ok .none, s')
  | .error e => (false, .error e, s)

def step (w : World) (s : State) : Op → Res
  | .register h f a => ofState s (register s h f a)
  | .registerPath n p => ofState s (registerPath s n p)
  | .get n d => getHandler w s n d
  | .list lo => (false, .ok (.names (listHandlers s lo)), s)
  | .has n lo => (false, .ok (.bool (hasHandler s n lo)), s)
  | .unload n l => (false, .ok .none, unload s n l)
  | .proxyGet a => proxyGet w s a
  | .proxySet a v => ofState s (proxySet s a v)
  | .proxyDir => (false, .ok (.names (proxyDir s)), s)

/-- a history: the answers in order and the final state -/
def run (w : World) : State → List Op → List (Bool × Except Err Val) × State
  | s, [] => ([], s)
  | s, op :: rest =>
    let r := step w s op
    let rr := run w r.2.2 rest
    ((r.1, r.2.1) :: rr.1, rr.2)

/-- the registry right after `import passlib.registry` -/
def init : State := ⟨[], Gen.RegistryTables.locations⟩

end Model.Registry
