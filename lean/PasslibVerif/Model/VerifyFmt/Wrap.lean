import PasslibVerif.Model.Verify
import PasslibVerif.Model.VerifyCrypt
import PasslibVerif.Model.VerifyFmt.DesBcrypt
import PasslibVerif.Model.VerifyFmt.Pbkdf
import PasslibVerif.Model.VerifyFmt.Static
import PasslibVerif.Model.Shapes
/-
C01 for the hashers built on another hasher: `passlib.utils.handlers.PrefixWrapper`, generically.

    def _unwrap_hash(self, hash):  if not hash.startswith(self.prefix): raise InvalidHashError;  return self.orig_prefix + hash[len(prefix):]
    def _wrap_hash(self, hash):    if not hash.startswith(self.orig_prefix): raise InvalidHashError(self.wrapped);  return self.prefix + hash[len(orig_prefix):]
    def hash(self, secret, **kwds):          return self._wrap_hash(self.wrapped.hash(secret, **kwds))
    def verify(self, secret, hash, **kwds):  hash = self._unwrap_hash(hash);  return self.wrapped.verify(secret, hash, **kwds)
    def identify(self, hash):                if not hash.startswith(self.prefix): return False;  return self.wrapped.identify(self._unwrap_hash(hash))
    def using(self, **kwds):                 PrefixWrapper(self.name, self.wrapped.using(**kwds), prefix, orig_prefix)

Two views, proved equal where they can be (Props/C01Wrap.lean):

  * the CODE view — `wrapHashWith` / `wrapVerifyWith` / `wrapIdentifyWith`, parameterised by the inner class's own `hash` / `verify` /
    `identify` FUNCTIONS (bcrypt's are not the generic ones: `bcHashSecret` / `bcVerify`);
  * the HASHER view — `wrapHasher pfx orig inner : Hasher` (parse = strip `pfx`, restore `orig`, inner parse; render = inner render with
    `orig` replaced by `pfx`; digest, truncation policy and NUL refusal = the inner's), to which the generic theorems of Props/C01.lean
    apply directly.

The one observable difference between `verify (wrapHasher …)` and the code: `_unwrap_hash` runs BEFORE the wrapped `verify`, hence before
`validate_secret` — an oversized secret against a string without the prefix is InvalidHashError (ValueError) in the code, PasswordSizeError
in the hasher view (`Props.C01Wrap.wrapVerify_eq_verify`, `…_differs_only_oversized_foreign`).  The driver runs the code view.
-/
namespace Model.VerifyFmt.Wrap
open Py Model.Handler Model.Formats Model.Verify

/-- `_unwrap_hash` -/
def unwrapStr (pfx orig hs : Str) : Res Str :=
  match stripPrefix pfx hs with
  | some r => .ok (orig ++ r)
  | none => .error .valueError

/-- `_wrap_hash` -/
def wrapStr (pfx orig hs : Str) : Res Str :=
  match stripPrefix orig hs with
  | some r => .ok (pfx ++ r)
  | none => .error .valueError

/-- `PrefixWrapper.hash` over the wrapped class's `hash` -/
def wrapHashWith (pfx orig : Str) (innerHash : Secret → Parsed → Res Str) (s : Secret) (p : Parsed) : Res Str :=
  match innerHash s p with
  | .error e => .error e
  | .ok hs => wrapStr pfx orig hs

/-- `PrefixWrapper.verify` over the wrapped class's `verify`: the prefix is looked at first -/
def wrapVerifyWith (pfx orig : Str) (innerVerify : Secret → Str → Res Bool) (s : Secret) (hs : Str) : Res Bool :=
  match unwrapStr pfx orig hs with
  | .error e => .error e
  | .ok u => innerVerify s u

/-- `PrefixWrapper.identify` over the wrapped class's `identify` -/
def wrapIdentifyWith (pfx orig : Str) (innerIdentify : Str → Bool) (hs : Str) : Bool :=
  match stripPrefix pfx hs with
  | some r => innerIdentify (orig ++ r)
  | none => false

/-- the wrapper as a `Hasher` -/
def wrapHasher (pfx orig : Str) (inner : Hasher) : Hasher :=
  { inner with
    parse := fun hs => match stripPrefix pfx hs with
      | some r => inner.parse (orig ++ r)
      | none => .error .valueError
    render := fun p => pfx ++ (inner.render p).drop orig.length }

/-- the wrappers over a generic `GenericHandler` -/
def wrapHash (pfx orig : Str) (inner : Hasher) : Secret → Parsed → Res Str := wrapHashWith pfx orig (hashSecret inner)
def wrapVerify (pfx orig : Str) (inner : Hasher) : Secret → Str → Res Bool := wrapVerifyWith pfx orig (verify inner)

/-! ## the instances

  name                 wrapped          prefix         orig_prefix   wrapped hash / verify
  ldap_des_crypt       des_crypt        {CRYPT}        ""            generic
  ldap_bsdi_crypt      bsdi_crypt       {CRYPT}        ""            generic
  ldap_sha1_crypt      sha1_crypt       {CRYPT}        ""            generic
  ldap_bcrypt          bcrypt           {CRYPT}        ""            bcrypt's own (`bcHashSecret` / `bcVerify`)
  ldap_md5_crypt       md5_crypt        {CRYPT}        ""            generic
  ldap_sha256_crypt    sha256_crypt     {CRYPT}        ""            generic
  ldap_sha512_crypt    sha512_crypt     {CRYPT}        ""            generic
  django_bcrypt        bcrypt           bcrypt$        ""            bcrypt's own
  bsd_nthash           nthash           $3$$           ""            generic
  ldap_hex_md5         hex_md5          {MD5}          ""            generic
  ldap_hex_sha1        hex_sha1         {SHA}          ""            generic
  ldap_pbkdf2_sha1     pbkdf2_sha1      {PBKDF2}       $pbkdf2$      generic
  ldap_pbkdf2_sha256   pbkdf2_sha256    {PBKDF2-SHA256}  $pbkdf2-sha256$
  ldap_pbkdf2_sha512   pbkdf2_sha512    {PBKDF2-SHA512}  $pbkdf2-sha512$
  roundup_plaintext    plaintext        {plaintext}    ""            plaintext's own (`plaintextHash` / `plaintextVerify`)
-/

/-- one PrefixWrapper instance: prefixes + the wrapped class's three entry points -/
structure Inst where
  pfx : Str
  orig : Str := []
  hash : Secret → Parsed → Res Str
  verify : Secret → Str → Res Bool
  identify : Str → Bool

def Inst.wHash (i : Inst) : Secret → Parsed → Res Str := wrapHashWith i.pfx i.orig i.hash
def Inst.wVerify (i : Inst) : Secret → Str → Res Bool := wrapVerifyWith i.pfx i.orig i.verify
def Inst.wIdentify (i : Inst) : Str → Bool := wrapIdentifyWith i.pfx i.orig i.identify

/-- a wrapper around a class with the generic `hash` / `verify` -/
def Inst.ofHasher (pfx orig : Str) (h : Hasher) (identify : Str → Bool) : Inst :=
  ⟨pfx, orig, hashSecret h, Model.Verify.verify h, identify⟩

open Model.VerifyFmt.DesBcrypt Model.VerifyFmt.Pbkdf Model.VerifyFmt.Static Model.VerifyCrypt in
section
def ldap_des_cryptI (te : Bool) : Inst := .ofHasher CRYPT [] (desHasher te) des_crypt.identify
def ldap_bsdi_cryptI : Inst := .ofHasher CRYPT [] bsdiHasher bsdi_crypt.identify
def ldap_sha1_cryptI : Inst := .ofHasher CRYPT [] sha1CryptHasher sha1_cryptX.identify
def ldap_bcryptI (te : Bool) : Inst := ⟨CRYPT, [], bcHashSecret (bcryptHasher te), bcVerify (bcryptHasher te), bcrypt.identify⟩
def django_bcryptI (te : Bool) : Inst :=
  ⟨DJANGO_BCRYPT_PREFIX, [], bcHashSecret (bcryptHasher te), bcVerify (bcryptHasher te), bcrypt.identify⟩
def ldap_md5_cryptI : Inst := .ofHasher CRYPT [] (md5Hasher false) md5_crypt.identify
def ldap_sha256_cryptI : Inst := .ofHasher CRYPT [] sha256Hasher sha256_crypt.identify
def ldap_sha512_cryptI : Inst := .ofHasher CRYPT [] sha512Hasher sha512_crypt.identify
def bsd_nthashI : Inst := .ofHasher BSD_NT [] nthashHasher nthash.identify
def ldap_hex_md5I : Inst := .ofHasher LDAP_MD5 [] hex_md5Hasher hex_md5.identify
def ldap_hex_sha1I : Inst := .ofHasher LDAP_SHA [] hex_sha1Hasher hex_sha1.identify
def ldap_pbkdf2_sha1I : Inst :=
  .ofHasher LDAP_PBKDF2_SHA1_PREFIX PBKDF2_SHA1_IDENT pbkdf2_sha1Hasher (identByPrefix PBKDF2_SHA1_IDENT)
def ldap_pbkdf2_sha256I : Inst :=
  .ofHasher LDAP_PBKDF2_SHA256_PREFIX PBKDF2_SHA256_IDENT pbkdf2_sha256Hasher (identByPrefix PBKDF2_SHA256_IDENT)
def ldap_pbkdf2_sha512I : Inst :=
  .ofHasher LDAP_PBKDF2_SHA512_PREFIX PBKDF2_SHA512_IDENT pbkdf2_sha512Hasher (identByPrefix PBKDF2_SHA512_IDENT)
end

/-! ## plaintext / roundup_plaintext

    plaintext.hash(secret, encoding=None):    validate_secret(secret);  to_native_str(secret, encoding or "utf-8")
    plaintext.verify(secret, hash, encoding): hash = to_native_str(hash, …);  identify(hash) is always True;  consteq(cls.hash(secret), hash)

  `to_native_str` of text is the text itself (surrogates and all: nothing is encoded); of bytes it is `bytes.decode("utf-8")`
  (UnicodeDecodeError, a ValueError, for bytes that are not UTF-8).  `consteq(left, right)` (passlib/utils/__init__.py) encodes both
  `str` arguments with `.encode()` (UTF-8: UnicodeEncodeError, a ValueError, for a lone surrogate) and calls `hmac.compare_digest`. -/

/-- `to_native_str(secret, "utf-8")` -/
def nativeStr : Secret → Res Str
  | .text cps => .ok cps
  | .bytes b => match Model.TotpSerial.utf8Decode b with
    | some cps => .ok cps
    | none => .error .valueError

def plaintextHash (s : Secret) (_ : Parsed) : Res Str :=
  match validateSecret s with
  | .error e => .error e
  | .ok _ => nativeStr s

/-- `consteq(a, b)` of two `str` -/
def consteqStr (a b : Str) : Res Bool :=
  match utf8 a, utf8 b with
  | some x, some y => .ok (x == y)
  | _, _ => .error .valueError

def plaintextVerify (s : Secret) (hs : Str) : Res Bool :=
  match plaintextHash s {} with
  | .error e => .error e
  | .ok c => consteqStr c hs

def ROUNDUP_PLAINTEXT : Str := ofString "{plaintext}"
def roundup_plaintextI : Inst := ⟨ROUNDUP_PLAINTEXT, [], plaintextHash, plaintextVerify, fun _ => true⟩

end Model.VerifyFmt.Wrap
