import PasslibVerif.Model.Verify
import PasslibVerif.Model.Formats.DesBcrypt
import PasslibVerif.Spec.Formats.DesBased
import PasslibVerif.Spec.Formats.BcryptFamily
import PasslibVerif.Spec.Formats.Iterated
/-
C01 for the DES / bcrypt family: the hashers as passlib assembles them — the C07 model of `from_string` / `to_string`
(Model/Formats/DesBcrypt.lean) + the specification of the format's checksum (Spec/Formats/DesBased.lean, BcryptFamily.lean,
Iterated.lean; compared with the real hashers under C02 by the `sfmt` suite).

What each class adds around the checksum (read off passlib/handlers/des_crypt.py, bcrypt.py, phpass.py, sun_md5_crypt.py,
django.py):

  class                  truncate_size   NUL refused        remarks
  des_crypt              8               yes                `_check_truncate_policy` only under `hash()`; NUL: `_raw_des_crypt` / `safe_crypt`
  bsdi_crypt             —               yes
  bigcrypt               —               yes                the first `_raw_des_crypt` call sees the whole secret
  crypt16                16              no                 `_crypt_secret_to_key` masks to 7 bits, nothing refuses a NUL
  django_des_crypt       8               yes                `des_crypt(salt=self.salt[:2])._calc_checksum`
  phpass                 —               no
  sun_md5_crypt          —               no
  bcrypt                 72              yes                `_norm_digest_args` ALSO re-validates the size of the ENCODED secret, before
                                                            the truncation policy and the NUL check (`bcChecksumOf` below)
  django_bcrypt          72              yes                PrefixWrapper: the prefix is stripped before anything else
  bcrypt_sha256          — (disabled)    no (never a NUL in base64)   HMAC-SHA256 (v2) / SHA256 (v1) pre-hash, base64
  django_bcrypt_sha256   — (disabled)    no                 hex SHA256 pre-hash
-/
namespace Model.VerifyFmt.DesBcrypt
open Py Model.Handler Model.Formats Model.Verify

/-! ### DES family -/

/-- des_crypt; `truncErr` is the `truncate_error` setting of `using()` -/
def desHasher (truncErr : Bool) : Hasher where
  parse := fun s => toRes (desCryptParse s)
  render := saltChkRender
  digest := fun b p => .ok (Spec.Formats.desCrypt b (p.salt.getD []))
  truncateSize := some 8
  truncateError := truncErr
  rejectsNul := true

/-- the record `hash()` builds for `using(salt=…)` -/
def desSettings (salt : Str) : Parsed := { salt := some salt }

def bsdiHasher : Hasher where
  parse := fun s => toRes (bsdiParse s)
  render := bsdiRender
  digest := fun b p => .ok (Spec.Formats.bsdiCrypt b (p.salt.getD []) (p.rounds.getD 0).toNat)
  rejectsNul := true

def bsdiSettings (salt : Str) (rounds : Nat) : Parsed := { rounds := some (rounds : Int), salt := some salt }

def bigcryptHasher : Hasher where
  parse := fun s => toRes (bigcryptParse s)
  render := saltChkRender
  digest := fun b p => .ok (Spec.Formats.bigcrypt b (p.salt.getD []))
  rejectsNul := true

def crypt16Hasher (truncErr : Bool) : Hasher where
  parse := fun s => toRes (crypt16Parse s)
  render := saltChkRender
  digest := fun b p => .ok (Spec.Formats.crypt16 b (p.salt.getD []))
  truncateSize := some 16
  truncateError := truncErr

/-- django_des_crypt: `des_crypt(salt=self.salt[:2])._calc_checksum(secret)` -/
def djangoDesHasher (truncErr : Bool) : Hasher where
  parse := fun s => toRes (djangoDesParse s)
  render := djangoDesRender
  digest := fun b p => .ok (Spec.Formats.desCrypt b ((p.salt.getD []).take 2))
  truncateSize := some 8
  truncateError := truncErr
  rejectsNul := true

def djangoDesSettings (salt : Str) : Parsed := { ident := DJANGO_DES_IDENT, salt := some salt }

/-! ### phpass / sun_md5_crypt -/

def phpassHasher : Hasher where
  parse := fun s => toRes (phpassParse s)
  render := phpassRender
  digest := fun b p => .ok (Spec.Formats.phpass b (p.salt.getD []) (p.rounds.getD 0).toNat)

/-- `using(ident=…, salt=…, rounds=…)`; ident is `$P$` or `$H$` -/
def phpassSettings (ident salt : Str) (rounds : Nat) : Parsed := { ident := ident, rounds := some (rounds : Int), salt := some salt }

/-- the configuration string is `to_string(_withchk=False)`: the Spec's `sunConfig` for the record's rounds / salt / bare flag -/
def sunHasher : Hasher where
  parse := fun s => toRes (sunParse s)
  render := sunRender
  digest := fun b p => .ok (Spec.Formats.sunMd5Crypt b (p.salt.getD []) (p.rounds.getD 0).toNat (p.extra == bareFlag true))

def sunSettings (salt : Str) (rounds : Nat) (bare : Bool) : Parsed :=
  { rounds := some (rounds : Int), salt := some salt, extra := bareFlag bare }

/-! ### bcrypt family -/

/-- the backend call: `hashpw(secret[:72], config)` for the record's ident / cost / salt.  The Spec has no `2x`
    (`_norm_digest_args` raises RuntimeError for it). -/
def bcryptCore (key : Bytes) (p : Parsed) : Res Str :=
  match Spec.Formats.bcrypt (stripDollars p.ident) (p.rounds.getD 0).toNat (p.salt.getD []) (key.take 72) with
  | some c => .ok c
  | none => .error .runtimeError

/-- bcrypt; `truncErr` is the `truncate_error` setting -/
def bcryptHasher (truncErr : Bool) : Hasher where
  parse := fun s => toRes (bcryptParseWith bcryptIdents s)
  render := bcryptRender
  digest := bcryptCore
  truncateSize := some 72
  truncateError := truncErr
  rejectsNul := true

def bcryptSettings (ident salt : Str) (rounds : Nat) : Parsed := { ident := ident, rounds := some (rounds : Int), salt := some salt }

/-- `_norm_digest_args`: the secret is encoded, then `validate_secret` is applied AGAIN — to the bytes — before the truncation
    policy and the NUL check: a text secret of at most 4096 characters whose UTF-8 form is longer is refused with
    PasswordSizeError here, whatever else is wrong with it. -/
def bcChecksumOf (h : Hasher) (fromHash : Bool) (s : Secret) (p : Parsed) : Res Str :=
  match s.toBytes with
  | .error e => .error e
  | .ok b => if b.length > MAX_PASSWORD_SIZE then .error .sizeError else checksumOf h fromHash (.bytes b) p

/-- `bcrypt.hash` -/
def bcHashSecret (h : Hasher) (s : Secret) (p : Parsed) : Res Str :=
  match validateSecret s with
  | .error e => .error e
  | .ok _ => match bcChecksumOf h true s p with
    | .error e => .error e
    | .ok c => .ok (h.render { p with checksum := some c })

/-- `bcrypt.verify` (the generic `verify` over `bcChecksumOf`) -/
def bcVerify (h : Hasher) (s : Secret) (hs : Str) : Res Bool :=
  match validateSecret s with
  | .error e => .error e
  | .ok _ => match h.parse hs with
    | .error e => .error e
    | .ok p => match p.checksum with
      | none => .error .valueError
      | some chk => match bcChecksumOf h false s p with
        | .error e => .error e
        | .ok c => .ok (c == chk)

/-- django_bcrypt = PrefixWrapper(bcrypt, "bcrypt$"): `hash` prepends the prefix … -/
def djangoBcryptHash (truncErr : Bool) (s : Secret) (p : Parsed) : Res Str :=
  match bcHashSecret (bcryptHasher truncErr) s p with
  | .ok hs => .ok (DJANGO_BCRYPT_PREFIX ++ hs)
  | .error e => .error e

/-- … `verify` strips it first (InvalidHashError when it is missing, before even the size of the secret is looked at) -/
def djangoBcryptVerify (truncErr : Bool) (s : Secret) (hs : Str) : Res Bool :=
  match stripPrefix DJANGO_BCRYPT_PREFIX hs with
  | none => .error .valueError
  | some r => bcVerify (bcryptHasher truncErr) s r

/-- version of a bcrypt_sha256 record -/
def bsVersion1 (p : Parsed) : Bool := p.extra == versionExtra 1

/-- `salt[-1] in final_salt_chars` (".Oeu": the characters whose four padding bits are clear) -/
def finalSaltOk (salt : Str) : Bool :=
  match salt.getLast? with
  | some c => (ofString ".Oeu").contains c
  | none => false

/-- bcrypt_sha256: v1 `b64encode(sha256(secret))`, v2 `b64encode(hmac_sha256(key = salt text, secret))` (a salt whose last
    character has padding bits set is refused — not reachable after `_norm_salt`, kept as in the code), then bcrypt's
    `_calc_checksum` on the 44-character key (never longer than 72, never a NUL: those checks cannot fire) -/
def bcryptSha256Digest (b : Bytes) (p : Parsed) : Res Str :=
  if bsVersion1 p then bcryptCore (Spec.Formats.b64 (Spec.SHA256.sha256 b)) p
  else if finalSaltOk (p.salt.getD []) then bcryptCore (Spec.Formats.b64 (Spec.Hmac.hmac Spec.SHA256.sha256 64 (p.salt.getD []) b)) p
  else .error .valueError

def bcryptSha256Hasher : Hasher where
  parse := fun s => toRes (bcryptSha256Parse s)
  render := bcryptSha256Render
  digest := bcryptSha256Digest

def bcryptSha256Settings (version : Nat) (ident salt : Str) (rounds : Nat) : Parsed :=
  { ident := ident, rounds := some (rounds : Int), salt := some salt, extra := versionExtra (version : Int) }

/-- django_bcrypt_sha256: `hexlify(sha256(secret))` then bcrypt -/
def djangoBcryptSha256Hasher : Hasher where
  parse := fun s => toRes (djangoBcryptSha256Parse s)
  render := fun p => DJANGO_BCRYPT_SHA256_PREFIX ++ bcryptRender p
  digest := fun b p => bcryptCore (Spec.Formats.hexLower (Spec.SHA256.sha256 b)) p

end Model.VerifyFmt.DesBcrypt
