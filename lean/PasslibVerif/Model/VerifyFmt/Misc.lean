import PasslibVerif.Model.Verify
import PasslibVerif.Model.Formats.MiscPasslib
import PasslibVerif.Model.Formats.MiscScram
import PasslibVerif.Spec.Formats.Iterated
import PasslibVerif.Spec.Formats.Kdf
/-
C01 for the "Misc" family — fshp, scrypt (`$scrypt$` and `$7$`), scram — as passlib assembles them:
the C07 model of `from_string` / `to_string` / `identify` (`Model.Formats.fshp` / `scrypt` / `scram`, a `FormatE`)
+ the checksum the Lean specification of the format defines (`Spec.Formats.fshp`, `Spec.Scrypt.scrypt` behind
`scryptPhc` / `scrypt7`, `Spec.Formats.scramSaltedPassword`), read from the parsed record exactly as the real
`_calc_checksum` reads it from `self`.

In this family `Parsed.salt` and `Parsed.checksum` hold RAW bytes (`HasRawSalt`, `HasRawChecksum`): `digest` returns the raw key,
the renderer encodes it.  The encoded text of the Spec functions (`Spec.Formats.fshp` = base64(salt ‖ key), `scryptPhc`, `scrypt7`,
`scramDigest`) is what the renderer makes of it — theorems `*_hash_is_spec` in Props/C01Misc.lean.

None of the three classes refuses NUL bytes or truncates (`truncate_size` is None, no `_BNULL` test in `_calc_checksum`).
-/
namespace Model.VerifyFmt.Misc
open Py Model.Handler Model.Formats Model.Verify

/-- `from_string` of a `FormatE` as a `Hasher.parse`: the passlib handlers never return None (that is the libpass inspectors) -/
def parseOf (f : FormatE) (s : Str) : Res Parsed :=
  match f.parseE s with
  | .ok (some p) => .ok p
  | .ok none => .error .valueError
  | .error e => .error e

/-- `to_string` (total view: a failing renderer — config-only object — is the empty string; never reached from `hashSecret`, which sets
    the checksum first, and the theorems are about records whose rendering succeeds) -/
def renderOf (f : FormatE) (p : Parsed) : Str :=
  match f.renderE p with
  | .ok s => s
  | .error _ => []

/-- `hash()` with the error-aware renderer: what the driver runs, so that a `to_string()` that raises (scrypt `$7$` with a non-ASCII
    salt: NotImplementedError) is answered as the real code answers.  Whenever it succeeds it is `hashSecret` of the hasher view
    (`Lemmas.C01Misc.hashE_ok`). -/
def hashE (f : FormatE) (h : Hasher) (s : Secret) (p : Parsed) : Res Str :=
  match validateSecret s with
  | .error e => .error e
  | .ok _ => match checksumOf h true s p with
    | .error e => .error e
    | .ok c => f.renderE { p with checksum := some c }

/-! ## fshp

    _calc_checksum = pbkdf1(digest=checksum_alg, secret=self.salt, salt=secret, rounds=self.rounds, keylen=self.checksum_size)
    pbkdf1:  block = secret + salt;  `rounds` times  block = H(block);  block[:keylen]       (keylen = digest size) -/

/-- the raw key: `H` applied `rounds` times to salt ‖ password (`Spec.Formats.fshp` is base64(salt ‖ this)) -/
def fshpKey (variant : Nat) (pwd salt : Bytes) (rounds : Nat) : Res Bytes :=
  match Spec.Formats.fshpHash variant with
  | none => .error .valueError                       -- `_norm_variant`: "invalid fshp variant"
  | some H => if rounds = 0 then .error .valueError   -- pbkdf1: "rounds must be at least 1"
              else .ok (Spec.Formats.iterate H (rounds - 1) (H (salt ++ pwd)))

def fshpDigest (b : Bytes) (p : Parsed) : Res Str :=
  fshpKey (extraNat p "variant") b (p.salt.getD []) (p.rounds.getD 0).toNat

def fshpHasher : Hasher where
  parse := parseOf fshp
  render := renderOf fshp
  digest := fshpDigest

/-- what `fshp.using(variant=v, salt=salt, rounds=r).hash(…)` builds before the checksum exists -/
def fshpSettings (variant : Nat) (salt : Bytes) (rounds : Nat) : Parsed :=
  { ident := FSHP_IDENT, rounds := some (rounds : Int), salt := some salt, extra := [("variant", natField variant)] }

/-- `fshp.identify` -/
def fshpIdentify (s : Str) : Bool := fshp.identify s

/-! ## scrypt

    _calc_checksum = _scrypt.scrypt(to_bytes(secret), self.salt, n = 1 << self.rounds, r = self.block_size, p = self.parallelism, keylen = 32)
    passlib.crypto.scrypt.scrypt:  validate(n, r, p)  (r ≥ 1, p ≥ 1, r·p ≤ 2^30 - 1, n ≥ 2 a power of two — each a ValueError), then the
    backend.  The key is the RFC 7914 function (`Spec.Scrypt.scrypt`; the builtin backend equals it by C11, `run_eq_rfc7914`).
    NOT modelled: resource limits of a particular backend (OpenSSL's `maxmem` and its `N < 2^(128·r/8)` test raise ValueError for
    costs the correspondence run never reaches: it keeps N ≤ 16). -/

def SCRYPT_MAX_RP : Nat := 2 ^ 30 - 1

/-- the raw 32-byte key (`Spec.Formats.scryptPhc` / `scrypt7` are its two encodings) -/
def scryptKey (pwd salt : Bytes) (logN r p : Nat) : Res Bytes :=
  if r < 1 then .error .valueError
  else if p < 1 then .error .valueError
  else if r * p > SCRYPT_MAX_RP then .error .valueError
  else if 2 ^ logN < 2 then .error .valueError
  else .ok (Spec.Scrypt.scrypt pwd salt (2 ^ logN) r p 32)

def scryptDigest (b : Bytes) (p : Parsed) : Res Str :=
  scryptKey b (p.salt.getD []) (p.rounds.getD 0).toNat (extraNat p "block_size") (extraNat p "parallelism")

def scryptHasher : Hasher where
  parse := parseOf scrypt
  render := renderOf scrypt
  digest := scryptDigest

/-- what `scrypt.using(ident=…, salt=salt, rounds=logN, block_size=r, parallelism=p).hash(…)` builds before the checksum exists
    (`ident7 = true`: the `$7$` layout, whose salt is used as the characters it is written with) -/
def scryptSettings (ident7 : Bool) (salt : Bytes) (logN r p : Nat) : Parsed :=
  { ident := if ident7 then IDENT_7 else IDENT_SCRYPT, rounds := some (logN : Int), salt := some salt, extra := scryptExtra r p }

/-! ## scram

    hash():   GenericHandler.hash — `_calc_checksum(secret)` = { alg : derive_digest(secret, salt, rounds, alg) for alg in self.algs }
    derive_digest(password, salt, rounds, alg) = pbkdf2_hmac(alg, saslprep(password.decode("utf-8") if bytes), salt, rounds)
    verify(secret, hash, full=False):  OVERRIDDEN — validate_secret, from_string, config string → ValueError; then
       full=False: the first of  sha-256, sha-512, sha-224, sha-384, sha-1  present in the record decides, alone;
       full=True : every digest is recomputed; a mis-sized digest, or some digests matching and others not, is a ValueError.

  `prep` is "decode as UTF-8, SASLprep (RFC 4013), encode as UTF-8" on the bytes of the secret — an EXTERNAL function, a parameter of
  the model (stringprep tables are outside it).  Every theorem holds for every `prep`; the compiled driver instantiates it with
  `asciiPrep` (the identity on printable ASCII, where SASLprep is the identity; anything else is answered `unmodelled`).
  Digests: the six of `Spec.Formats` (md5, sha-1, sha-224, sha-256, sha-384, sha-512); another name is outside the model (`notImplemented`,
  answered `unmodelled` by the driver — the real code asks hashlib).
  `Parsed.checksum` holds the digest map as `scramChkEncode` writes it (per alg of `algs`, in that order: length, bytes); the real dict keeps
  the order of the string, the model the sorted order of `algs` — observable only in WHICH ValueError a `full` verification raises first. -/

def scramAlg (a : Str) : Option Spec.Formats.HashAlg :=
  if a = ofString "md5" then some Spec.Formats.algMd5
  else if a = ofString "sha-1" then some Spec.Formats.algSha1
  else if a = ofString "sha-224" then some Spec.Formats.algSha224
  else if a = ofString "sha-256" then some Spec.Formats.algSha256
  else if a = ofString "sha-384" then some Spec.Formats.algSha384
  else if a = ofString "sha-512" then some Spec.Formats.algSha512
  else none

/-- SASLprep restricted to where it is the identity without tables: printable ASCII (U+0020 … U+007E) -/
def asciiPrep (b : Bytes) : Res Bytes := if b.all (fun c => 32 ≤ c && c ≤ 126) then .ok b else .error .notImplemented

/-- `scram.derive_digest(password, salt, rounds, alg)` on the bytes of the password: RFC 5802 `Hi(Normalize(password), salt, i)` -/
def scramKey (prep : Bytes → Res Bytes) (alg : Str) (b salt : Bytes) (rounds : Nat) : Res Bytes :=
  resBind (prep b) fun nb =>
    match scramAlg alg with
    | none => .error .notImplemented
    | some a => if rounds < 1 then .error .valueError else .ok (Spec.Formats.scramSaltedPassword a nb salt rounds)

/-- `self.algs` as `to_string` reads it from the record -/
def scramAlgs (p : Parsed) : List Str :=
  match p.extra with | [(_, a)] => (if a.isEmpty then [] else splitChar 44 a) | _ => []

/-- the digest map of `_calc_checksum(secret)`, in `algs` order -/
def scramKeys (prep : Bytes → Res Bytes) (b salt : Bytes) (rounds : Nat) : List Str → Res (List (Str × Bytes))
  | [] => .ok []
  | a :: as => resBind (scramKey prep a b salt rounds) fun k => (scramKeys prep b salt rounds as).map ((a, k) :: ·)

def scramDigest (prep : Bytes → Res Bytes) (b : Bytes) (p : Parsed) : Res Str :=
  (scramKeys prep b (p.salt.getD []) (p.rounds.getD 0).toNat (scramAlgs p)).map (scramChkEncode (scramAlgs p))

def scramHasher (prep : Bytes → Res Bytes) : Hasher where
  parse := parseOf scram
  render := renderOf scram
  digest := scramDigest prep

/-- what `scram.using(algs=algs, salt=salt, rounds=r).hash(…)` builds (`algs` already normalised and sorted by `_norm_algs`) -/
def scramSettings (algs : List Str) (salt : Bytes) (rounds : Nat) : Parsed :=
  { ident := SCRAM_IDENT, rounds := some (rounds : Int), salt := some salt, extra := [("algs", joinChar 44 algs)] }

/-- `scram._verify_algs` -/
def scramVerifyAlgs : List Str := [ofString "sha-256", ofString "sha-512", ofString "sha-224", ofString "sha-384", ofString "sha-1"]

/-- the `full=True` loop of `scram.verify` over `chkmap.items()`; state = (correct, failed) -/
def scramFullLoop (prep : Bytes → Res Bytes) (b salt : Bytes) (rounds : Nat) : List (Str × Bytes) → Bool → Bool → Res Bool
  | [], correct, failed => if correct && failed then .error .valueError else .ok correct
  | (a, d) :: rest, correct, failed =>
    resBind (scramKey prep a b salt rounds) fun other =>
      if d.length ≠ other.length then .error .valueError                       -- "mis-sized … digest in scram hash"
      else if other == d then scramFullLoop prep b salt rounds rest true failed
      else scramFullLoop prep b salt rounds rest correct true

/-- the digest that decides a `full=False` verification: the first of `_verify_algs` the record has -/
def scramDeciding (chkmap : List (Str × Bytes)) : Option (Str × Bytes) :=
  scramVerifyAlgs.findSome? fun a => chkmap.find? (·.1 = a)

/-- `scram.verify(secret, hash, full)` -/
def scramVerify (prep : Bytes → Res Bytes) (full : Bool) (s : Secret) (hs : Str) : Res Bool :=
  match validateSecret s with
  | .error e => .error e
  | .ok _ => match parseOf scram hs with
    | .error e => .error e
    | .ok p => match p.checksum with
      | none => .error .valueError                                             -- config string
      | some enc =>
        let chkmap := scramChkDecode (scramAlgs p) enc
        if chkmap.isEmpty then .error .valueError
        else match s.toBytes with
          | .error e => .error e
          | .ok b =>
            let salt := p.salt.getD []
            let r := (p.rounds.getD 0).toNat
            if full then scramFullLoop prep b salt r chkmap false false
            else match scramDeciding chkmap with
              | none => .error .assertionError                                 -- "sha-1 digest not found!"
              | some (a, d) => (scramKey prep a b salt r).map (· == d)

/-- `scram.extract_digest_info(hash, alg)` → (salt, rounds, digest); `alg` goes through `norm_hash_name(alg, "iana")`;
    KeyError when the record has no such digest -/
def scramExtractDigestInfo (hs alg : Str) : Res (Bytes × Nat × Bytes) :=
  resBind (normIana alg) fun a =>
  resBind (parseOf scram hs) fun p =>
    match p.checksum with
    | none => .error .valueError                                               -- "scram hash contains no digests"
    | some enc =>
      let chkmap := scramChkDecode (scramAlgs p) enc
      if chkmap.isEmpty then .error .valueError
      else match chkmap.find? (·.1 = a) with
        | none => .error .keyError
        | some (_, d) => .ok (p.salt.getD [], (p.rounds.getD 0).toNat, d)

end Model.VerifyFmt.Misc
