import PasslibVerif.Model.Verify
import PasslibVerif.Model.Formats.Pbkdf
import PasslibVerif.Spec.Formats.Kdf
import PasslibVerif.Spec.Formats.Iterated
import PasslibVerif.Spec.Formats.Digests
/-
The hashers of the PBKDF family as passlib assembles them (C01 end to end):

    parse / render  = the C07 model of `from_string` / `to_string` (Model/Formats/Pbkdf.lean)
    digest          = the published checksum specification (Spec/Formats/Kdf.lean, Iterated.lean, Digests.lean) applied to the bytes
                      of the secret and to the settings `_calc_checksum` reads from `self` (salt, rounds)

  sha1_crypt · pbkdf2_sha1 / _sha256 / _sha512 · ldap_pbkdf2_sha1 / _sha256 / _sha512 (PrefixWrapper) · cta_pbkdf2_sha1 ·
  dlitz_pbkdf2_sha1 · atlassian_pbkdf2_sha1 · grub_pbkdf2_sha512 · django_pbkdf2_sha1 / _sha256 · django_salted_md5 / _sha1

The raw handlers (`HasRawSalt`, `HasRawChecksum`: pbkdf2_*, cta, grub, atlassian) keep salt and checksum as BYTES in the object; the
string form is produced by `to_string`.  Their `digest` is therefore the raw PBKDF2 key and the renderer applies the text encoding:
`render` of the result shows the Spec checksum (`Spec.Formats.pbkdf2Digest` = ab64 of that key, …) — proved in Props/C01Pbkdf.lean
(`*_hash_string`).  The text handlers (sha1_crypt, dlitz, django_*) store the checksum characters: their `digest` IS the Spec checksum.

None of these classes has a `truncate_size`; only sha1_crypt refuses NUL (`if _BNULL in secret: raise NullPasswordError`; its
os_crypt back end refuses NUL too, with a plain ValueError).  PBKDF2 takes NUL bytes as data.
`PrefixWrapper.hash` / `.verify` / `.identify` are not the generic ones: modelled separately (`wrapHash`, `wrapVerify`).
-/
namespace Model.VerifyFmt.Pbkdf
open Py Model.Handler Model.Formats Model.Verify
open Spec.Formats (HashAlg algSha1 algSha256 algSha512 pbkdf2 sha1Crypt dlitzPbkdf2Sha1 djangoPbkdf2 djangoSalted)

/-- `to_string()` of an object that has a checksum (the raw renderers raise TypeError without one; `hash` always sets it) -/
def renderOf (r : Parsed → Res Str) (p : Parsed) : Str := ((r p).toOption).getD []

/-- `self.salt` (text salts: code points = ASCII bytes; raw salts: byte values) -/
def saltOf (p : Parsed) : Str := p.salt.getD []
/-- `self.rounds` -/
def roundsOf (p : Parsed) : Nat := (p.rounds.getD 0).toNat

/-! ### raw handlers on parse_mc3: pbkdf2_sha1 / _sha256 / _sha512, cta_pbkdf2_sha1, grub_pbkdf2_sha512 -/

/-- `kdf secret salt rounds` = the raw key `_calc_checksum` returns -/
def rawMc3Hasher (sep : Nat) (hex : Bool) (ident : Str) (chkSize : Nat) (enc : Bytes → Str) (dec : Str → Res Bytes)
    (kdf : Bytes → Bytes → Nat → Bytes) : Hasher where
  parse := rawMc3ParseX sep hex ident chkSize dec
  render := renderOf (rawMc3RenderX sep hex enc)
  digest := fun b p => .ok (kdf b (saltOf p) (roundsOf p))

/-- the object `hash()` builds from `using(salt=…, rounds=…)` before the checksum exists -/
def mc3Settings (ident salt : Str) (rounds : Nat) : Parsed :=
  { ident := ident, rounds := some (rounds : Int), salt := some salt }

/-- `pbkdf2_hmac(self._digest, secret, self.salt, self.rounds, self.checksum_size)` -/
def pbkdf2Key (a : HashAlg) (b salt : Bytes) (rounds : Nat) : Bytes := pbkdf2 a b salt rounds a.hLen

def pbkdf2Hasher (a : HashAlg) (ident : Str) : Hasher :=
  rawMc3Hasher DOLLAR false ident a.hLen Model.B64.ab64Encode ab64Field (pbkdf2Key a)

def pbkdf2_sha1Hasher : Hasher := pbkdf2Hasher algSha1 PBKDF2_SHA1_IDENT
def pbkdf2_sha256Hasher : Hasher := pbkdf2Hasher algSha256 PBKDF2_SHA256_IDENT
def pbkdf2_sha512Hasher : Hasher := pbkdf2Hasher algSha512 PBKDF2_SHA512_IDENT

/-- `pbkdf2_hmac("sha1", secret, self.salt, self.rounds, 20)`, hex rounds, `b64encode(…, b"-_")` -/
def ctaHasher : Hasher :=
  rawMc3Hasher DOLLAR true P5K2_IDENT 20 b64AltEncode (fun s => toRes (b64AltField s)) (fun b s r => pbkdf2 algSha1 b s r 20)

/-- `pbkdf2_hmac("sha512", secret, self.salt, self.rounds, 64)`, `.`-separated, upper-case hex -/
def grubHasher : Hasher :=
  rawMc3Hasher DOT false GRUB_IDENT 64 pbHexlifyUpper (fun s => toRes (unhexField s)) (fun b s r => pbkdf2 algSha512 b s r 64)

/-! ### atlassian_pbkdf2_sha1: fixed 10000 rounds, 32 byte key, base64(salt ‖ key) -/
def atlassianHasher : Hasher where
  parse := fun s => toRes (atlassianParse s)
  render := renderOf atlassianRenderX
  digest := fun b p => .ok (pbkdf2 algSha1 b (saltOf p) 10000 32)

def atlassianSettings (salt : Bytes) : Parsed := { ident := ATLASSIAN_IDENT, salt := some salt }

/-! ### text handlers -/

/-- sha1_crypt: `_calc_checksum_builtin` (the os_crypt back end computes the same function: C02) -/
def sha1CryptHasher : Hasher where
  parse := fun s => toRes (sha1cParse s)
  render := sha1cRender
  digest := fun b p => .ok (sha1Crypt b (saltOf p) (roundsOf p))
  rejectsNul := true

/-- dlitz_pbkdf2_sha1: the PBKDF2 salt is the config string (`_get_config`), 24 byte key, ab64 -/
def dlitzHasher : Hasher where
  parse := fun s => toRes (dlitzParse s)
  render := dlitzRender
  digest := fun b p => .ok (dlitzPbkdf2Sha1 b (saltOf p) (roundsOf p))

/-- django_pbkdf2_sha1 / _sha256: `b64encode(pbkdf2_hmac(digest, secret, self.salt.encode("ascii"), self.rounds))` -/
def djangoPbkdf2Hasher (a : HashAlg) (ident : Str) (chkSize : Nat) : Hasher where
  parse := fun s => toRes (djPbkdf2Parse ident chkSize s)
  render := djPbkdf2Render
  digest := fun b p => .ok (djangoPbkdf2 a b (saltOf p) (roundsOf p))

def django_pbkdf2_sha1Hasher : Hasher := djangoPbkdf2Hasher algSha1 DJANGO_PBKDF2_SHA1_IDENT 28
def django_pbkdf2_sha256Hasher : Hasher := djangoPbkdf2Hasher algSha256 DJANGO_PBKDF2_SHA256_IDENT 44

/-- django_salted_md5 / _sha1: `H(self.salt.encode("ascii") + secret).hexdigest()` -/
def djangoSaltedHasher (H : Bytes → Bytes) (ident : Str) (chkSize : Nat) : Hasher where
  parse := fun s => toRes (djSaltedParse ident chkSize s)
  render := djSaltedRender
  digest := fun b p => .ok (djangoSalted H b (saltOf p))

def django_salted_md5Hasher : Hasher := djangoSaltedHasher Spec.MD5.md5 DJANGO_MD5_IDENT 32
def django_salted_sha1Hasher : Hasher := djangoSaltedHasher Spec.SHA1.sha1 DJANGO_SHA1_IDENT 40

def djSaltedSettings (ident salt : Str) : Parsed := { ident := ident, salt := some salt }

/-! ### PrefixWrapper (ldap_pbkdf2_*): its `hash` / `verify` / `identify` call the wrapped class on the unwrapped string -/

/-- `_wrap_hash`: the wrapped hasher's string must start with `orig_prefix` (InvalidHashError otherwise) -/
def wrapStr (pfx orig : Str) (s : Str) : Res Str :=
  match stripPrefix orig s with
  | none => .error .valueError
  | some rest => .ok (pfx ++ rest)

/-- `PrefixWrapper.hash`: `self._wrap_hash(self.wrapped.hash(secret))` -/
def wrapHash (pfx orig : Str) (h : Hasher) (s : Secret) (p : Parsed) : Res Str :=
  match hashSecret h s p with
  | .error e => .error e
  | .ok hs => wrapStr pfx orig hs

/-- `PrefixWrapper.verify`: `_unwrap_hash` comes BEFORE the wrapped `verify` (so before `validate_secret`):
    a string without the prefix is a ValueError even for an oversized secret -/
def wrapVerify (pfx orig : Str) (h : Hasher) (s : Secret) (hs : Str) : Res Bool :=
  match stripPrefix pfx hs with
  | none => .error .valueError
  | some rest => verify h s (orig ++ rest)

structure Wrapped where
  pfx : Str
  orig : Str
  inner : Hasher

def ldap_pbkdf2_sha1W : Wrapped := ⟨LDAP_PBKDF2_SHA1_PREFIX, PBKDF2_SHA1_IDENT, pbkdf2_sha1Hasher⟩
def ldap_pbkdf2_sha256W : Wrapped := ⟨LDAP_PBKDF2_SHA256_PREFIX, PBKDF2_SHA256_IDENT, pbkdf2_sha256Hasher⟩
def ldap_pbkdf2_sha512W : Wrapped := ⟨LDAP_PBKDF2_SHA512_PREFIX, PBKDF2_SHA512_IDENT, pbkdf2_sha512Hasher⟩

def Wrapped.hash (w : Wrapped) : Secret → Parsed → Res Str := wrapHash w.pfx w.orig w.inner
def Wrapped.verify (w : Wrapped) : Secret → Str → Res Bool := wrapVerify w.pfx w.orig w.inner
def Wrapped.identify (w : Wrapped) : Str → Bool := wrapIdentify w.pfx w.orig (identByPrefix w.orig)

end Model.VerifyFmt.Pbkdf
