import PasslibVerif.Model.VerifyFmt.Wrap
import PasslibVerif.Model.Code.Wrap
/-
bcrypt_sha256 / django_bcrypt_sha256 as hashers whose checksum is the CODE model of `_calc_checksum` (Model/Code/Wrap.lean: the
pre-hash, then bcrypt's `_calc_checksum` with `_norm_digest_args` under the backend flags `fl`) and whose parser / renderer is the C07
format model — next to the Spec-checksum hashers of Model/VerifyFmt/DesBcrypt.lean, to which Props/C01WrapCode.lean proves them equal
on admissible settings.  `use_defaults` does not matter for these classes (`truncate_size` is disabled: `wrappedCls`).
-/
namespace Model.VerifyFmt.Wrap
open Py Model.Handler Model.Formats Model.Verify Model.VerifyFmt.DesBcrypt Model.Code.Wrap

def djangoBcryptSha256CodeHasher (fl : Flags) : Hasher :=
  { djangoBcryptSha256Hasher with
    digest := fun b p => djangoBcryptSha256CalcChecksum fl p.ident (p.salt.getD []) (p.rounds.getD 0).toNat false (.bytes b) }

def bcryptSha256CodeHasher (fl : Flags) : Hasher :=
  { bcryptSha256Hasher with
    digest := fun b p =>
      bcryptSha256CalcChecksum fl (if bsVersion1 p then 1 else 2) p.ident (p.salt.getD []) (p.rounds.getD 0).toNat false (.bytes b) }

end Model.VerifyFmt.Wrap
